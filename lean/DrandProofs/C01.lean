/-
C01 — every beacon a node stores or serves is publicly verifiable.
Model: Drand/Beacon/Node.lean (admission, aggregator, tryNode, PublicRand / proxy Get / SyncChain / PublicRandStream)
on top of the store stack of C02. All theorems quantify over the cryptographic oracle `c : Crypto` and over every
finite list of events (any interleaving of peers' partials, own partials, aggregator iterations, sync streams,
reshares, clock ticks and read requests).
-/
import Drand.Beacon.Node
import DrandProofs.C02

namespace Drand.Beacon
open Drand Drand.Chain Drand.Store

/-! ### ties to the regenerated facts -/

theorem tie_digest_names : Gen.BeaconNode.digests.map (·.name) =
    ["pedersen-bls-chained", "pedersen-bls-unchained", "bls-unchained-g1-rfc9380", "bls-unchained-on-g1",
     "bls-bn254-unchained-on-g1"] := by decide

/-- every scheme's `DigestFunc` is one of the model's two layouts: `prev ‖ be64 round` exactly for the scheme the
store stack treats as chained (`sch.Name == DefaultSchemeID`), `be64 round` for the others -/
theorem tie_digest_layouts : ∀ d ∈ Gen.BeaconNode.digests,
    d.segs = layoutOf (d.name == Gen.BeaconNode.defaultSchemeID) := by decide

theorem tie_scheme_store_chained : Gen.BeaconNode.schemeStoreChainedIffDefault = true := rfl

/-- `Scheme.VerifyBeacon` is `VerifyRecovered(key, DigestBeacon(b), b.Signature)` -/
theorem tie_verifyBeacon : Gen.BeaconNode.verifyBeaconBody =
    "return s.ThresholdScheme.VerifyRecovered(pubkey,s.DigestBeacon(b),b.GetSignature())" := by decide

/-- the three places that fill a randomness field all apply `RandomnessFromSignature` (= sha256) to the signature -/
theorem tie_randomness : Gen.BeaconNode.randomnessAlgo = "sha256" ∧ Gen.BeaconNode.randomnessExits =
    [("common.Beacon.Randomness", "return crypto.RandomnessFromSignature(b.Signature)"),
     ("core.drandProxy.Get", "crypto.RandomnessFromSignature(resp.GetSignature())"),
     ("core.proxyStream.Send", "crypto.RandomnessFromSignature(b.Signature)")] := by decide

theorem tie_tryNode : Gen.BeaconNode.tryNodePacketSteps = tryNodePacketSteps := rfl
theorem tie_tryAppend : Gen.BeaconNode.tryAppendSteps = tryAppendSteps := rfl
theorem tie_broadcastNextPartial : Gen.BeaconNode.broadcastNextPartialSteps = broadcastNextPartialSteps := rfl
theorem tie_aggregator : Gen.BeaconNode.aggregatorPartialSteps = aggregatorPartialSteps ∧
    Gen.BeaconNode.aggregatorStoredSteps = aggregatorStoredSteps := ⟨rfl, rfl⟩
/-- `callbackStore.Put` is one of the two known texts (which one: `Gen.callbackOverflowEndsConsumer`, see C12R): in both the
base `Put` comes first and what is handed to the callbacks is the beacon that was stored -/
theorem tie_callbackPut : Gen.BeaconNode.callbackPutSteps = callbackPutSteps ∨
    Gen.BeaconNode.callbackPutSteps = callbackPutStepsRepaired := by first | exact Or.inl rfl | exact Or.inr rfl
theorem tie_publicRand : Gen.BeaconNode.publicRandSteps = publicRandSteps := rfl
theorem tie_bootstrap : Gen.BeaconNode.bootstrapSteps = bootstrapSteps := rfl

/-! ### the digest binds the round (and the previous signature when chained) -/

section bytes
open Drand.Codec

private theorem le_length (w n : Nat) : (le w n).length = w := by
  induction w generalizing n with
  | zero => rfl
  | succ w ih => simp [le, ih]

private theorem be_length (w n : Nat) : (be w n).length = w := by simp [be, le_length]

private theorem u8_inj (a b : Nat) (h : UInt8.ofNat (a % 256) = UInt8.ofNat (b % 256)) : a % 256 = b % 256 := by
  have := congrArg UInt8.toNat h
  simpa using this

private theorem le_inj (w a b : Nat) (h : le w a = le w b) : a % 256^w = b % 256^w := by
  induction w generalizing a b with
  | zero => simp [Nat.mod_one]
  | succ w ih =>
    simp only [le, List.cons.injEq] at h
    obtain ⟨h0, ht⟩ := h
    have h1 := ih _ _ ht
    have h0' := u8_inj _ _ h0
    rw [Nat.pow_succ', Nat.mod_mul, Nat.mod_mul, h0', h1]

private theorem be_inj (w a b : Nat) (h : be w a = be w b) : a % 256^w = b % 256^w := by
  apply le_inj
  simpa [be] using h

theorem preimage_chained (r : Nat) (p : Bytes) : preimage true r p = p ++ be 8 r := by
  cases p <;> simp [preimage, layoutOf, evalSegs, evalSeg]

theorem preimage_unchained (r : Nat) (p : Bytes) : preimage false r p = be 8 r := by
  simp [preimage, layoutOf, evalSegs, evalSeg]

/-- unconditional: equal preimages have equal rounds (rounds are uint64) and, on the chained layout, equal previous
signatures -/
theorem c01_preimage_binds (chained : Bool) (r r' : Nat) (p p' : Bytes) (hr : r < 2^64) (hr' : r' < 2^64)
    (h : preimage chained r p = preimage chained r' p') : r = r' ∧ (chained = true → p = p') := by
  cases chained with
  | true =>
    rw [preimage_chained, preimage_chained] at h
    have hl : (be 8 r).length = (be 8 r').length := by rw [be_length, be_length]
    obtain ⟨h1, h2⟩ := List.append_inj' h hl
    have := be_inj _ _ _ h2
    exact ⟨by omega, fun _ => h1⟩
  | false =>
    rw [preimage_unchained, preimage_unchained] at h
    have := be_inj _ _ _ h
    exact ⟨by omega, fun hc => by cases hc⟩
end bytes

/-- collision freedom of the digest hash on the preimages in play -/
def CollisionFreeOn (h : Bytes → Bytes) (S : Bytes → Prop) : Prop := ∀ a b, S a → S b → h a = h b → a = b

/-- the signed message determines the round and (chained) the previous signature, as long as the hash does not
collide on the two preimages concerned -/
theorem c01_digest_binds (c : Crypto) (chained : Bool) (r r' : Nat) (p p' : Bytes) (hr : r < 2^64) (hr' : r' < 2^64)
    (S : Bytes → Prop) (hcf : CollisionFreeOn c.hash S) (hs : S (preimage chained r p)) (hs' : S (preimage chained r' p'))
    (h : digest c chained r p = digest c chained r' p') : r = r' ∧ (chained = true → p = p') :=
  c01_preimage_binds chained r r' p p' hr hr' (hcf _ _ hs hs' h)

/-- on unchained schemes the previous signature is not part of what is signed -/
theorem c01_unchained_ignores_prev (c : Crypto) (r : Nat) (p p' : Bytes) : digest c false r p = digest c false r p' := by
  simp [digest, preimage_unchained]

/-! ### invariant: what is stored verifies; what was served is stored -/

def StoreValid (c : Crypto) (s : Node) : Prop :=
  ∀ r b, lookup r s.stack.base = some b → 1 ≤ r → verifyBeacon c s.chained s.chainKey b = true

structure Inv (c : Crypto) (k : Nat) (ch : Bool) (s : Node) : Prop where
  pinned : s.chainKey = k
  scheme : s.chained = ch
  chain : ChainInv s.stack
  mode : s.stack.chained = s.chained
  valid : StoreValid c s
  key : c.commit s.group.poly = s.chainKey
  servedStored : ∀ x ∈ s.served, lookup x.b.round s.stack.base = some x.b
  servedRnd : ∀ x ∈ s.served, ∀ r, x.randomness = some r → r = c.rhash x.b.sig
  servedExact : ∀ x ∈ s.served, (x.via = .publicRand ∨ x.via = .proxyGet) → x.wanted = 0 ∨ x.b.round = x.wanted
  putsStored : ∀ q ∈ s.puts, lookup q.2.round s.stack.base = some q.2

section helpers
variable {α : Type}

private theorem sorted_tail' {a : Nat × α} {t : List (Nat × α)} (h : Sorted (a :: t)) : Sorted t := by
  obtain ⟨k, v⟩ := a
  cases t with
  | nil => trivial
  | cons b t => obtain ⟨k', v'⟩ := b; exact h.2

private theorem sorted_head_lt' {k : Nat} {v : α} {t : List (Nat × α)} (h : Sorted ((k, v) :: t)) :
    ∀ p ∈ t, k < p.1 := by
  induction t generalizing k v with
  | nil => intro p hp; cases hp
  | cons b t ih =>
    obtain ⟨k', v'⟩ := b
    intro p hp
    cases hp with
    | head => exact h.1
    | tail _ hp' => exact Nat.lt_trans h.1 (ih h.2 p hp')

private theorem lookup_mem' {k : Nat} {v : α} {l : List (Nat × α)} (h : lookup k l = some v) : (k, v) ∈ l := by
  induction l with
  | nil => simp [lookup] at h
  | cons a t ih =>
    obtain ⟨k', v'⟩ := a
    simp only [lookup] at h
    split at h
    · next hk => cases h; subst hk; exact List.mem_cons_self
    · exact List.mem_cons_of_mem _ (ih h)

private theorem mem_lookup' {k : Nat} {v : α} {l : List (Nat × α)} (hs : Sorted l) (h : (k, v) ∈ l) :
    lookup k l = some v := by
  induction l with
  | nil => cases h
  | cons a t ih =>
    obtain ⟨k', v'⟩ := a
    simp only [lookup]
    cases h with
    | head => simp
    | tail _ ht =>
      have hlt := sorted_head_lt' hs (k, v) ht
      have : k ≠ k' := by simp at hlt; omega
      rw [if_neg this]
      exact ih (sorted_tail' hs) ht
end helpers

variable {k : Nat} {ch : Bool}

/-- a stored beacon is stored under its own round -/
private theorem lookup_round {s : Stack} (h : ChainInv s) {r : Nat} {b : Beacon} (hl : lookup r s.base = some b) : b.round = r :=
  h.sorted.2 _ (lookup_mem' hl)

/-- the head is stored under its round -/
private theorem last_stored {s : Stack} (h : ChainInv s) : lookup (Stack.last s.base).round s.base = some (Stack.last s.base) := by
  cases hl : s.base.getLast? with
  | none => exact absurd (List.getLast?_eq_none_iff.1 hl) h.nonempty
  | some kv =>
    obtain ⟨k, v⟩ := kv
    have hm : (k, v) ∈ s.base := List.mem_of_getLast? hl
    have hk : v.round = k := h.sorted.2 _ hm
    have hlast : Stack.last s.base = v := by unfold Stack.last; rw [hl]
    rw [hlast, hk]
    exact mem_lookup' h.sorted.1 hm

/-- what `appendStore.Put` (with `schemeStore.Put` below it) does, read off the code -/
theorem stack_put_spec (s : Stack) (b : Beacon) :
    ((s.put b).2 = .ok ∧ ∃ b' : Beacon, b'.round = b.round ∧ b'.sig = b.sig ∧
        (if s.chained then b' = b else b' = { b with prev := [] }) ∧
        (s.put b).1 = { s with base := Bolt.put s.base b', schemeLast := b', appendLast := b' }) ∨
    ((s.put b).2 ≠ .ok ∧ (s.put b).1 = s) := by
  unfold Stack.put Stack.schemePut
  by_cases h1 : b.round = s.appendLast.round
  · right
    rw [if_pos h1]
    split
    · split <;> simp
    · simp
  · rw [if_neg h1]
    by_cases h2 : b.round ≠ s.appendLast.round + 1
    · right; rw [if_pos h2]; simp
    · rw [if_neg h2]
      by_cases hc : s.chained
      · rw [if_pos hc]
        by_cases hp : s.schemeLast.sig ≠ b.prev
        · right; rw [if_pos hp]; simp
        · left; rw [if_neg hp]
          exact ⟨rfl, b, rfl, rfl, by simp [hc], rfl⟩
      · left; rw [if_neg hc]
        exact ⟨rfl, { b with prev := [] }, rfl, rfl, by simp [hc], rfl⟩

/-- stripping the previous signature (unchained `schemeStore.Put`) does not change what is verified -/
private theorem verify_stored (c : Crypto) (chained : Bool) (key : Nat) (b b' : Beacon) (hr : b'.round = b.round)
    (hs : b'.sig = b.sig) (hb : if chained then b' = b else b' = { b with prev := [] })
    (hv : verifyBeacon c chained key b = true) : verifyBeacon c chained key b' = true := by
  cases chained with
  | true => simp at hb; rw [hb]; exact hv
  | false =>
    unfold verifyBeacon at *
    rw [hr, hs, c01_unchained_ignores_prev c b.round b'.prev b.prev]
    exact hv

/-- the callbacks after a Put only append to `served` and clear the waiters -/
private theorem notify_fields (c : Crypto) (s : Node) (b : Beacon) :
    (Node.notify c s b).stack = s.stack ∧ (Node.notify c s b).chained = s.chained ∧
    (Node.notify c s b).chainKey = s.chainKey ∧ (Node.notify c s b).group = s.group ∧
    (Node.notify c s b).puts = s.puts := ⟨rfl, rfl, rfl, rfl, rfl⟩

/-- every response produced by the callbacks after a Put carries the beacon just stored; a released PublicRand waiter
gets it only if it is the round it asked for -/
private theorem notify_served (c : Crypto) (s : Node) (b : Beacon) (x : Served) (hx : x ∈ (Node.notify c s b).served) :
    x ∈ s.served ∨ (x.b = b ∧ (∀ r, x.randomness = some r → r = c.rhash b.sig) ∧
      ((x.via = .publicRand ∨ x.via = .proxyGet) → x.b.round = x.wanted)) := by
  unfold Node.notify at hx
  simp only [List.mem_append, List.mem_filterMap, List.mem_map] at hx
  rcases hx with (hx | ⟨w, _, hw⟩) | ⟨st, _, hst⟩
  · exact Or.inl hx
  · right
    split at hw
    · next hr =>
      cases hw
      refine ⟨rfl, ?_, fun _ => hr⟩
      intro r hr'
      by_cases hp : w.proxy <;> simp [hp] at hr' <;> exact hr'.symm
    · cases hw
  · right
    subst hst
    unfold streamItem
    refine ⟨rfl, ?_, ?_⟩
    · intro r hr'
      by_cases hp : st.1 <;> simp [hp] at hr' <;> exact hr'.symm
    · intro hv
      unfold viaOfStream at hv
      by_cases hp : st.1 <;> simp [hp] at hv

/-- **the shared lemma of the write paths**: a `Put` through the node's store of a beacon that verifies keeps the
invariant, whatever its outcome -/
theorem put_inv (c : Crypto) (s : Node) (src : Src) (b : Beacon) (h : Inv c k ch s)
    (hv : verifyBeacon c s.chained s.chainKey b = true) : Inv c k ch (Node.put c s src b).1 := by
  unfold Node.put
  rcases stack_put_spec s.stack b with ⟨hok, b', hr, hsg, hb, hst⟩ | ⟨hno, hst⟩
  · -- appended
    have hpi := c02_put_inv s.stack b h.chain
    have hao := (c02_append_only s.stack b h.chain).1 hok
    have hlk : ∀ r, lookup r (s.stack.put b).1.base = if r = b'.round then some b' else lookup r s.stack.base := by
      intro r; rw [hst]; exact c18_lookup_insert _ _ _ _
    have happ : (s.stack.put b).1.appendLast = b' := by rw [hst]
    have hold : ∀ r x, lookup r s.stack.base = some x → lookup r (s.stack.put b).1.base = some x := by
      intro r x hx
      have : r ≤ (Stack.last s.stack.base).round := (h.chain.dense r).1 (by rw [hx]; rfl)
      rw [hlk, if_neg (by omega)]; exact hx
    have hv' : verifyBeacon c s.chained s.chainKey b' = true :=
      verify_stored c s.chained s.chainKey b b' hr hsg (by rw [← h.mode]; exact hb) hv
    have hnew : lookup b'.round (s.stack.put b).1.base = some b' := by rw [hlk, if_pos rfl]
    cases hp : s.stack.put b with
    | mk st' res =>
      rw [hp] at hok hpi hlk happ hold hnew
      simp only at hok hpi hlk happ hold hnew
      subst hok
      simp only
      rw [happ]
      refine ⟨h.pinned, h.scheme, hpi, ?_, ?_, h.key, ?_, ?_, ?_, ?_⟩
      · show st'.chained = s.chained
        have : st'.chained = s.stack.chained := by
          have := congrArg Prod.fst hp; simp only at this; rw [← this, hst]
        rw [this]; exact h.mode
      · intro r x hx hr1
        have hx' : lookup r st'.base = some x := hx
        rw [hlk] at hx'
        split at hx'
        · cases hx'; exact hv'
        · exact h.valid r x hx' hr1
      · intro x hx
        rcases notify_served c _ b' x hx with hx | ⟨hxb, _, _⟩
        · exact hold _ _ (h.servedStored x hx)
        · show lookup x.b.round st'.base = some x.b
          rw [hxb]; exact hnew
      · intro x hx r hr'
        rcases notify_served c _ b' x hx with hx | ⟨hxb, hrn, _⟩
        · exact h.servedRnd x hx r hr'
        · rw [hxb]; exact hrn r hr'
      · intro x hx hvia
        rcases notify_served c _ b' x hx with hx | ⟨_, _, hex⟩
        · exact h.servedExact x hx hvia
        · exact Or.inr (hex hvia)
      · intro q hq
        show lookup q.2.round st'.base = some q.2
        have hq' : q ∈ s.puts ++ [(src, b')] := hq
        rcases List.mem_append.1 hq' with hq' | hq'
        · exact hold _ _ (h.putsStored q hq')
        · simp at hq'; subst hq'; exact hnew
  · -- refused: nothing changes
    cases hp : s.stack.put b with
    | mk st' res =>
      rw [hp] at hno
      simp only at hno
      cases res <;> first | exact absurd rfl hno | exact h

/-! ### each event keeps the invariant -/

private theorem tryAppend_inv (c : Crypto) (s : Node) (last nb : Beacon) (h : Inv c k ch s)
    (hv : verifyBeacon c s.chained s.chainKey nb = true) : Inv c k ch (tryAppend c s last nb).1 := by
  unfold tryAppend
  split
  · exact h
  · have := put_inv c s .agg nb h hv
    split <;> simp_all

/-- a candidate of the aggregator passed `VerifyRecovered` under the live polynomial's group key on the digest of
exactly the round and previous signature the new beacon carries -/
theorem aggCheck_candidate (c : Crypto) (chained : Bool) (g : GroupView) (cache : Cache) (last : Beacon) (p : Partial)
    (cache' : Cache) (rc : RoundCache) (sig : Bytes) (h : aggCheck c chained g cache last p = (cache', .candidate rc sig)) :
    cache' = (cache.append p).1 ∧ (cache.append p).2 = .ok ∧ aget (p.round, p.prev) cache'.rounds = some rc ∧
    g.thr ≤ rc.sigs.length ∧
    c.recover g.poly (digest c chained rc.round rc.prev) (rc.sigs.map (·.2)) g.thr g.n = some sig ∧
    c.verifyRecovered (c.commit g.poly) (digest c chained rc.round rc.prev) sig = true ∧
    last.round < p.round ∧ p.round ≤ last.round + Gen.partialCacheStoreLimit + 1 := by
  unfold aggCheck at h
  simp only at h
  split at h
  · cases h
  · next hwin =>
    split at h
    · next ca' hap =>
      split at h
      · cases h
      · next rc' hrc =>
        split at h
        · cases h
        · next hlen =>
          split at h
          · cases h
          · next fs hrec =>
            split at h
            · cases h
            · next hver =>
              simp only [Prod.mk.injEq, AggPre.candidate.injEq] at h
              obtain ⟨h1, h2, h3⟩ := h
              subst h1 h2 h3
              refine ⟨by rw [hap], by rw [hap], hrc, by omega, hrec, ?_, ?_, ?_⟩
              · simpa using hver
              · simp at hwin; omega
              · simp at hwin; omega
    · cases h

/-- the invariant only reads the store stack, the scheme, the pinned key, the live group and the ghost logs -/
private theorem inv_of_fields {c : Crypto} {s s' : Node} (h : Inv c k ch s) (h1 : s'.stack = s.stack)
    (h2 : s'.chained = s.chained) (h3 : s'.chainKey = s.chainKey) (h4 : s'.group = s.group)
    (h5 : s'.served = s.served) (h6 : s'.puts = s.puts) : Inv c k ch s' := by
  refine ⟨by rw [h3]; exact h.pinned, by rw [h2]; exact h.scheme, by rw [h1]; exact h.chain, by rw [h1, h2]; exact h.mode, ?_, by rw [h4, h3]; exact h.key,
    by rw [h5, h1]; exact h.servedStored, by rw [h5]; exact h.servedRnd, by rw [h5]; exact h.servedExact,
    by rw [h6, h1]; exact h.putsStored⟩
  unfold StoreValid; rw [h1, h2, h3]; exact h.valid

private theorem aggOne_inv (c : Crypto) (s : Node) (p : Partial) (h : Inv c k ch s) : Inv c k ch (aggOne c s p).1 := by
  unfold aggOne
  simp only
  split
  · next cache' rc sig hck =>
    have hc := aggCheck_candidate c _ _ _ _ _ _ _ _ hck
    have hv : verifyBeacon c s.chained s.chainKey ⟨rc.round, sig, rc.prev⟩ = true := by
      unfold verifyBeacon
      rw [← h.key]
      exact hc.2.2.2.2.2.1
    have key : ∀ (sArg : Node) (last : Beacon), Inv c k ch sArg → sArg.chained = s.chained → sArg.chainKey = s.chainKey →
        ∀ s' b, tryAppend c sArg last ⟨rc.round, sig, rc.prev⟩ = (s', b) → Inv c k ch s' := by
      intro sArg last hI h1 h2 s' b hh
      have := tryAppend_inv c sArg last ⟨rc.round, sig, rc.prev⟩ hI (by rw [h1, h2]; exact hv)
      rw [hh] at this; exact this
    split
    · next s' hta =>
      refine inv_of_fields (key _ _ ?_ ?_ ?_ _ _ hta) rfl rfl rfl rfl rfl rfl
      · exact inv_of_fields h rfl rfl rfl rfl rfl rfl
      · rfl
      · rfl
    · next s' hta =>
      have : Inv c k ch s' := by
        refine key _ _ ?_ ?_ ?_ _ _ hta
        · exact inv_of_fields h rfl rfl rfl rfl rfl rfl
        · rfl
        · rfl
      split <;> first | exact inv_of_fields this rfl rfl rfl rfl rfl rfl | exact this
  all_goals exact inv_of_fields h rfl rfl rfl rfl rfl rfl

private theorem tryNodeLoop_inv (c : Crypto) (upTo : Nat) (pkts : List SyncPkt) :
    ∀ (s : Node) (last : Beacon), Inv c k ch s → Inv c k ch (tryNodeLoop c s upTo last pkts).1 := by
  induction pkts with
  | nil => intro s last h; exact h
  | cons pk rest ih =>
    intro s last h
    unfold tryNodeLoop
    split
    · exact h
    · split
      · exact h
      · next hv =>
        split
        · exact h
        · have hv' : verifyBeacon c s.chained s.chainKey pk.b = true := by simpa using hv
          have hp := put_inv c s .sync pk.b h hv'
          have hch : ∀ s' r, Node.put c s .sync pk.b = (s', r) → Inv c k ch s' := by
            intro s' r hh; rw [hh] at hp; exact hp
          split
          · next s' hh =>
            have hs' := hch _ _ hh
            split
            · exact hs'
            · exact ih s' pk.b hs'
          · next s' hh => exact hch _ _ hh
          · next s' r _ _ hh => exact hch _ _ hh

private theorem tryNode_inv (c : Crypto) (upTo : Nat) (pkts : List SyncPkt) :
    ∀ s : Node, Inv c k ch s → Inv c k ch (tryNode c s upTo pkts).1 :=
  fun s h => tryNodeLoop_inv c upTo pkts s s.last h

private theorem publicRand_inv (c : Crypto) (s : Node) (proxy : Bool) (wanted : Nat) (h : Inv c k ch s) :
    Inv c k ch (publicRand c s proxy wanted).1 := by
  unfold publicRand
  simp only
  split
  · exact inv_of_fields h rfl rfl rfl rfl rfl rfl
  · split
    · exact h
    · next b hb =>
      have hst : lookup b.round s.stack.base = some b ∧ (wanted = 0 ∨ b.round = wanted) := by
        split at hb
        · next hw =>
          unfold Bolt.get at hb
          split at hb
          · next b' hl => cases hb; exact ⟨by rw [lookup_round h.chain hl]; exact hl, Or.inr (lookup_round h.chain hl)⟩
          · cases hb
        · next hw =>
          cases hb
          exact ⟨last_stored h.chain, Or.inl (by omega)⟩
      refine ⟨h.pinned, h.scheme, h.chain, h.mode, h.valid, h.key, ?_, ?_, ?_, h.putsStored⟩
      · intro x hx
        rcases List.mem_append.1 hx with hx | hx
        · exact h.servedStored x hx
        · simp at hx; subst hx; exact hst.1
      · intro x hx r hr
        rcases List.mem_append.1 hx with hx | hx
        · exact h.servedRnd x hx r hr
        · simp at hx; subst hx
          by_cases hp : proxy <;> simp [hp] at hr
          exact hr.symm
      · intro x hx hv
        rcases List.mem_append.1 hx with hx | hx
        · exact h.servedExact x hx hv
        · simp at hx; subst hx; exact hst.2

private theorem syncServe_inv (c : Crypto) (s : Node) (pub : Bool) (from_ : Nat) (h : Inv c k ch s) :
    Inv c k ch (syncServe c s pub from_).1 := by
  unfold syncServe
  split
  · exact h
  · refine ⟨h.pinned, h.scheme, h.chain, h.mode, h.valid, h.key, ?_, ?_, ?_, h.putsStored⟩
    · intro x hx
      rcases List.mem_append.1 hx with hx | hx
      · exact h.servedStored x hx
      · simp only [List.mem_map] at hx
        obtain ⟨b, hb, hxb⟩ := hx
        subst hxb
        split at hb
        · unfold scanFrom at hb
          simp only [List.mem_map, List.mem_filter] at hb
          obtain ⟨e, ⟨he, _⟩, heb⟩ := hb
          obtain ⟨k, v⟩ := e
          simp only at heb
          subst heb
          have hk : v.round = k := h.chain.sorted.2 _ he
          show lookup v.round s.stack.base = some v
          rw [hk]; exact mem_lookup' h.chain.sorted.1 he
        · cases hb
    · intro x hx r hr
      rcases List.mem_append.1 hx with hx | hx
      · exact h.servedRnd x hx r hr
      · simp only [List.mem_map] at hx
        obtain ⟨b, _, hxb⟩ := hx
        subst hxb
        unfold streamItem at hr
        by_cases hp : pub <;> simp [hp] at hr
        exact hr.symm
    · intro x hx hv
      rcases List.mem_append.1 hx with hx | hx
      · exact h.servedExact x hx hv
      · simp only [List.mem_map] at hx
        obtain ⟨b, _, hxb⟩ := hx
        subst hxb
        unfold streamItem viaOfStream at hv
        by_cases hp : pub <;> simp [hp] at hv

/-- `ProcessPartialBeacon` either changes nothing or (all checks passed) hands the packet to the aggregator -/
theorem processPartial_cases (c : Crypto) (s : Node) (p : Partial) :
    ((processPartial c s p).2 ≠ .admitted ∧ (processPartial c s p).1 = s) ∨
    ((processPartial c s p).2 = .admitted ∧ (processPartial c s p).1 = { s with newPartials := s.newPartials ++ [p] }) := by
  unfold processPartial
  split
  · left; exact ⟨by simp, rfl⟩
  split
  · left; exact ⟨by simp, rfl⟩
  split
  · left; exact ⟨by simp, rfl⟩
  split
  · left; exact ⟨by simp, rfl⟩
  simp only []
  split
  · left; exact ⟨by simp, rfl⟩
  split
  · left; exact ⟨by simp, rfl⟩
  split
  · left; exact ⟨by simp, rfl⟩
  · right; exact ⟨rfl, rfl⟩

/-- the group key never changes: every polynomial the vault is switched to commits to the chain's key (C07) -/
def KeyConst (c : Crypto) (key : Nat) (evs : List Ev) : Prop := ∀ g, Ev.setInfo g ∈ evs → c.commit g.poly = key

theorem step_inv (c : Crypto) (s : Node) (ev : Ev) (h : Inv c k ch s)
    (hk : ∀ g, ev = .setInfo g → c.commit g.poly = k) : Inv c k ch (s.step c ev) := by
  cases ev with
  | tick n => exact inv_of_fields h rfl rfl rfl rfl rfl rfl
  | setInfo g => exact ⟨h.pinned, h.scheme, h.chain, h.mode, h.valid, (hk g rfl).trans h.pinned.symm, h.servedStored, h.servedRnd, h.servedExact, h.putsStored⟩
  | deliver p =>
    show Inv c k ch (processPartial c s p).1
    rcases processPartial_cases c s p with ⟨_, he⟩ | ⟨_, he⟩ <;> rw [he]
    · exact h
    · exact inv_of_fields h rfl rfl rfl rfl rfl rfl
  | own cur =>
    show Inv c k ch (match ownPartial c s cur with | some p => { s with newPartials := s.newPartials ++ [p] } | none => s)
    split
    · exact inv_of_fields h rfl rfl rfl rfl rfl rfl
    · exact h
  | aggPartial =>
    show Inv c k ch (aggPartial c s).1
    unfold aggPartial
    split
    · exact h
    · exact aggOne_inv c _ _ (inv_of_fields h rfl rfl rfl rfl rfl rfl)
  | aggStored =>
    show Inv c k ch (aggStored s)
    unfold aggStored
    split
    · exact h
    · exact inv_of_fields h rfl rfl rfl rfl rfl rfl
  | swapStored =>
    show Inv c k ch (match s.storedQ with | a :: b :: q => { s with storedQ := b :: a :: q } | _ => s)
    split
    · exact inv_of_fields h rfl rfl rfl rfl rfl rfl
    · exact h
  | tryNode upTo pkts => exact tryNode_inv c upTo pkts s h
  | publicRand proxy wanted => exact publicRand_inv c s proxy wanted h
  | waiterTimeout => exact inv_of_fields h rfl rfl rfl rfl rfl rfl
  | serve pub from_ => exact syncServe_inv c s pub from_ h
  | stopStreams => exact inv_of_fields h rfl rfl rfl rfl rfl rfl

theorem run_inv (c : Crypto) (evs : List Ev) : ∀ s : Node, Inv c k ch s → KeyConst c k evs → Inv c k ch (Node.run c s evs) := by
  induction evs with
  | nil => intro s h _; exact h
  | cons ev evs ih =>
    intro s h hk
    exact ih _ (step_inv c s ev h (fun g hg => hk g (by rw [hg]; exact List.mem_cons_self)))
      (fun g hg => hk g (List.mem_cons_of_mem _ hg))

theorem init_inv (c : Crypto) (chained : Bool) (sigLen : Nat) (addr : String) (g : GroupView) (seed : Bytes) :
    Inv c (c.commit g.poly) chained (Node.init chained sigLen addr (c.commit g.poly) g seed) := by
  refine ⟨rfl, rfl, c02_init_inv chained seed, rfl, ?_, rfl, ?_, ?_, ?_, ?_⟩
  · intro r b hl hr
    have hb : (Stack.init chained seed).base = [(0, genesis seed)] := rfl
    change lookup r (Stack.init chained seed).base = some b at hl
    rw [hb] at hl
    simp only [lookup] at hl
    split at hl
    · omega
    · cases hl
  all_goals (intro x hx; cases hx)

/-! ### the theorems -/

/-- a node that starts from the genesis beacon with a group whose polynomial commits to the chain key -/
def Node.start (c : Crypto) (chained : Bool) (sigLen : Nat) (addr : String) (g : GroupView) (seed : Bytes) : Node :=
  Node.init chained sigLen addr (c.commit g.poly) g seed

/-- **C01 (store)**: whatever partials, sync streams and requests arrive, in whatever order the goroutines run, every
stored beacon of round ≥ 1 verifies under the chain's distributed public key for exactly its round (and, chained, the
previous signature it carries). Hypothesis: reshares keep the group key (`KeyConst`, that is C07). -/
theorem c01_store_valid (c : Crypto) (chained : Bool) (sigLen : Nat) (addr : String) (g : GroupView) (seed : Bytes)
    (evs : List Ev) (hk : KeyConst c (c.commit g.poly) evs) :
    let s := Node.run c (Node.start c chained sigLen addr g seed) evs
    ∀ r b, lookup r s.stack.base = some b → 1 ≤ r →
      b.round = r ∧ c.verifyRecovered (c.commit g.poly) (digest c chained b.round b.prev) b.sig = true := by
  intro s r b hl hr
  have hi : Inv c (c.commit g.poly) chained s := run_inv c evs _ (init_inv c chained sigLen addr g seed) hk
  have hv := hi.valid r b hl hr
  rw [hi.scheme, hi.pinned] at hv
  exact ⟨lookup_round hi.chain hl, hv⟩

/-- the same for the three write paths separately: a beacon is handed to the store only after **that very beacon**
(same round, same previous signature, same signature) passed verification — by `VerifyRecovered` in the aggregator,
by `VerifyBeacon` in `tryNode` -/
theorem c01_write_paths_verified (c : Crypto) (s : Node) (h : Inv c k ch s) :
    (∀ p, Inv c k ch (aggOne c s p).1) ∧ (∀ upTo pkts, Inv c k ch (tryNode c s upTo pkts).1) ∧
    (∀ src b, verifyBeacon c s.chained s.chainKey b = true → Inv c k ch (Node.put c s src b).1) :=
  ⟨fun p => aggOne_inv c s p h, fun upTo pkts => tryNode_inv c upTo pkts s h, fun src b hv => put_inv c s src b h hv⟩

/-- sync writes in chain order: whatever a stream contains, every beacon `tryNode` hands to the store has the round that
follows the head the call started from, respectively the beacon it stored just before (the round check added after the
verification guard) — so a lying peer cannot make it attempt a gap, whatever store stack is below -/
theorem c01_sync_writes_in_order (c : Crypto) (upTo : Nat) (pkts : List SyncPkt) (s : Node) (last : Beacon) :
    ∀ q ∈ (tryNodeLoop c s upTo last pkts).1.puts, q ∈ s.puts ∨ (q.1 = .sync ∧ last.round < q.2.round) := by
  induction pkts generalizing s last with
  | nil => intro q hq; exact Or.inl hq
  | cons pk rest ih =>
    intro q hq
    unfold tryNodeLoop at hq
    split at hq
    · exact Or.inl hq
    · split at hq
      · exact Or.inl hq
      · split at hq
        · exact Or.inl hq
        · next hrd =>
          have hput : ∀ s' r, Node.put c s .sync pk.b = (s', r) →
              ∀ q ∈ s'.puts, q ∈ s.puts ∨ (q.1 = .sync ∧ q.2.round = pk.b.round) := by
            intro s' r hh q hq'
            unfold Node.put at hh
            rcases stack_put_spec s.stack pk.b with ⟨hok, b', hr', _, _, hst⟩ | ⟨hno, _⟩
            · cases hp : s.stack.put pk.b with
              | mk st' res =>
                rw [hp] at hh hok hst
                simp only at hok hst
                subst hok
                simp only [Prod.mk.injEq] at hh
                obtain ⟨hs', _⟩ := hh
                subst hs'
                have : q ∈ s.puts ++ [(Src.sync, st'.appendLast)] := hq'
                rcases List.mem_append.1 this with h1 | h1
                · exact Or.inl h1
                · simp at h1; subst h1
                  right; refine ⟨rfl, ?_⟩
                  show st'.appendLast.round = pk.b.round
                  rw [hst]; exact hr'
            · cases hp : s.stack.put pk.b with
              | mk st' res =>
                rw [hp] at hh hno
                simp only at hno
                cases res <;> first | exact absurd rfl hno | (simp only [Prod.mk.injEq] at hh; obtain ⟨hs', _⟩ := hh; subst hs'; exact Or.inl hq')
          have hlt : last.round < pk.b.round := by
            have : pk.b.round = last.round + 1 := Decidable.not_not.1 hrd
            omega
          split at hq
          · next s' hh =>
            split at hq
            · rcases hput _ _ hh q hq with h1 | ⟨h1, h2⟩
              · exact Or.inl h1
              · exact Or.inr ⟨h1, by omega⟩
            · rcases ih s' pk.b q hq with h1 | ⟨h1, h2⟩
              · rcases hput _ _ hh q h1 with h3 | ⟨h3, h4⟩
                · exact Or.inl h3
                · exact Or.inr ⟨h3, by omega⟩
              · exact Or.inr ⟨h1, by omega⟩
          · next s' hh =>
            rcases hput _ _ hh q hq with h1 | ⟨h1, h2⟩
            · exact Or.inl h1
            · exact Or.inr ⟨h1, by omega⟩
          · next s' r _ _ hh =>
            rcases hput _ _ hh q hq with h1 | ⟨h1, h2⟩
            · exact Or.inl h1
            · exact Or.inr ⟨h1, by omega⟩

/-- the first beacon a sync stream can get stored is exactly head+1 -/
theorem c01_sync_first_is_next (c : Crypto) (s : Node) (upTo : Nat) (pk : SyncPkt) (rest : List SyncPkt)
    (h : pk.b.round ≠ s.last.round + 1) : tryNode c s upTo (pk :: rest) = (s, false) := by
  unfold tryNode tryNodeLoop
  split
  · rfl
  · split
    · rfl
    · rfl

/-- **C01 (served)**: every beacon in any response (PublicRand, proxy Get, SyncChain scan and live part,
PublicRandStream) is in the store … -/
theorem c01_served_from_store (c : Crypto) (chained : Bool) (sigLen : Nat) (addr : String) (g : GroupView) (seed : Bytes)
    (evs : List Ev) (hk : KeyConst c (c.commit g.poly) evs) :
    let s := Node.run c (Node.start c chained sigLen addr g seed) evs
    ∀ x ∈ s.served, lookup x.b.round s.stack.base = some x.b := by
  intro s x hx
  exact (run_inv c evs _ (init_inv c chained sigLen addr g seed) hk).servedStored x hx

/-- … hence verifies, by `c01_store_valid` -/
theorem c01_served_valid (c : Crypto) (chained : Bool) (sigLen : Nat) (addr : String) (g : GroupView) (seed : Bytes)
    (evs : List Ev) (hk : KeyConst c (c.commit g.poly) evs) :
    let s := Node.run c (Node.start c chained sigLen addr g seed) evs
    ∀ x ∈ s.served, 1 ≤ x.b.round →
      c.verifyRecovered (c.commit g.poly) (digest c chained x.b.round x.b.prev) x.b.sig = true := by
  intro s x hx hr
  have hl := c01_served_from_store c chained sigLen addr g seed evs hk x hx
  exact (c01_store_valid c chained sigLen addr g seed evs hk x.b.round x.b hl hr).2

/-- **C01 (randomness)**: whenever a response carries a randomness field it is the hash of the signature of the
beacon in that response, at each exit: `Beacon.Randomness`, `drandProxy.Get`, `proxyStream.Send` -/
theorem c01_randomness (c : Crypto) (chained : Bool) (sigLen : Nat) (addr : String) (g : GroupView) (seed : Bytes)
    (evs : List Ev) (hk : KeyConst c (c.commit g.poly) evs) :
    let s := Node.run c (Node.start c chained sigLen addr g seed) evs
    ∀ x ∈ s.served, ∀ r, x.randomness = some r → r = c.rhash x.b.sig := by
  intro s x hx
  exact (run_inv c evs _ (init_inv c chained sigLen addr g seed) hk).servedRnd x hx

theorem c01_randomness_exits (c : Crypto) (s : Node) (b : Beacon) (wanted : Nat) (st : Bool × Nat) :
    Beacon.randomness c b = c.rhash b.sig ∧
    (∀ s' b' rnd, publicRand c s true wanted = (s', .ok b' rnd) → rnd = some (c.rhash b'.sig)) ∧
    (streamItem c b (true, st.2)).randomness = some (c.rhash b.sig) := by
  refine ⟨rfl, ?_, rfl⟩
  intro s' b' rnd h
  unfold publicRand at h
  simp only at h
  split at h
  · cases h
  · split at h
    · cases h
    · simp only [Prod.mk.injEq, PubRes.ok.injEq] at h
      obtain ⟨_, hb, hr⟩ := h
      subst hb; simpa using hr.symm

/-- **C01 (exact round)**: a successful answer to a request for round r ≠ 0 carries the beacon of round r — on the
`Get` branch, on the wait-for-the-next-beacon branch (the callback answers only if the stored round is the wanted one),
and for round 0 the head -/
theorem c01_exact_round (c : Crypto) (chained : Bool) (sigLen : Nat) (addr : String) (g : GroupView) (seed : Bytes)
    (evs : List Ev) (hk : KeyConst c (c.commit g.poly) evs) :
    let s := Node.run c (Node.start c chained sigLen addr g seed) evs
    (∀ x ∈ s.served, (x.via = .publicRand ∨ x.via = .proxyGet) → x.wanted = 0 ∨ x.b.round = x.wanted) ∧
    (∀ proxy wanted s' b rnd, publicRand c s proxy wanted = (s', .ok b rnd) →
      (wanted = 0 ∧ b = s.last) ∨ (b.round = wanted ∧ lookup wanted s.stack.base = some b)) := by
  intro s
  have hi := run_inv c evs _ (init_inv c chained sigLen addr g seed) hk
  refine ⟨hi.servedExact, ?_⟩
  intro proxy wanted s' b rnd h
  unfold publicRand at h
  simp only at h
  split at h
  · cases h
  · split at h
    · cases h
    · next b0 hb =>
      simp only [Prod.mk.injEq, PubRes.ok.injEq] at h
      obtain ⟨_, hbb, _⟩ := h
      subst hbb
      split at hb
      · right
        unfold Bolt.get at hb
        split at hb
        · next b' hl => cases hb; exact ⟨lookup_round hi.chain hl, hl⟩
        · cases hb
      · next hw => left; cases hb; exact ⟨by omega, rfl⟩

/-- the fourth write path, the in-memory store's start-up fetch: a beacon of round ≥ 1 goes into the (still empty) store
only if that very beacon verified. (The run theorems above start from a store holding only the genesis beacon — the bolt
path and a fresh memdb start; a memdb start state with one verified beacon above genesis is covered by this lemma only.) -/
theorem c01_bootstrap_verified (c : Crypto) (chained : Bool) (key : Nat) (seed : Bytes) (answer b : Beacon)
    (h : bootstrapPut c chained key seed answer = some b) (hr : 1 ≤ b.round) : verifyBeacon c chained key b = true := by
  unfold bootstrapPut at h
  split at h
  · cases h; simp [genesis] at hr
  · split at h
    · cases h
    · next hv => cases h; simpa using hv

/-- a missing round is an error, never the head or a neighbour -/
theorem c01_missing_round_is_error (c : Crypto) (s : Node) (proxy : Bool) (wanted : Nat) (hw : 0 < wanted)
    (hne : wanted ≠ s.last.round + 1) (hm : lookup wanted s.stack.base = none) :
    (publicRand c s proxy wanted).2 = .err := by
  unfold publicRand
  simp only
  rw [if_neg hne, if_pos hw]
  unfold Bolt.get
  rw [hm]

/-! ### non-vacuity: a concrete oracle and run in which beacons are aggregated, synced and served -/

def toyCrypto : Crypto :=
  { hash := id, rhash := fun b => 7 :: b, commit := fun _ => 0,
    verifyPartial := fun _ msg psig => psig.getLast? == msg.getLast?,
    verifyRecovered := fun _ msg sig => sig == 0xAA :: msg,
    recover := fun _ msg sigs thr _ => if sigs.length ≥ thr then some (0xAA :: msg) else none,
    signPartial := fun _ msg => [0, 0, msg.getLast?.getD 0] }

def toyGroup : GroupView := ⟨0, 2, 2, [(0, "a0"), (1, "a1")], 0⟩
def toyStart (chained : Bool) : Node := Node.start toyCrypto chained 1 "a0" toyGroup [5]

/-- round 1 by aggregation (a peer's partial and the node's own), round 2 by sync, an invalid round 3 refused by sync,
then reads -/
def toyEvs : List Ev := [.tick 2, .deliver ⟨1, [5], [0, 1, 1]⟩, .own 1, .aggPartial, .aggPartial, .aggStored,
  .tryNode 3 [⟨true, ⟨2, 0xAA :: (0xAA :: [5, 0, 0, 0, 0, 0, 0, 0, 1]) ++ [0, 0, 0, 0, 0, 0, 0, 2], 0xAA :: [5, 0, 0, 0, 0, 0, 0, 0, 1]⟩⟩,
    ⟨true, ⟨3, [1, 2, 3], [9]⟩⟩],
  .publicRand true 2, .publicRand false 0, .serve true 1, .publicRand false 9]

example : KeyConst toyCrypto (toyCrypto.commit toyGroup.poly) toyEvs := by intro g hg; rfl
example : ((Node.run toyCrypto (toyStart true) toyEvs).stack.base.map (·.1)) = [0, 1, 2] := by decide
example : ((Node.run toyCrypto (toyStart true) toyEvs).puts.map (fun q => (q.1, q.2.round))) = [(.agg, 1), (.sync, 2)] := by decide
example : ((Node.run toyCrypto (toyStart true) toyEvs).served.map (fun x => (x.via, x.wanted, x.b.round, x.randomness.isSome))) =
    [(.proxyGet, 2, 2, true), (.publicRand, 0, 2, false), (.publicStream, 1, 1, true), (.publicStream, 1, 2, true)] := by decide
example : (publicRand toyCrypto (Node.run toyCrypto (toyStart true) toyEvs) false 9).2 matches .err := by decide
example : bootstrapPut toyCrypto true 0 [5] ⟨7, [1], [2]⟩ = none ∧
    bootstrapPut toyCrypto false 0 [5] ⟨2, [0xAA, 0, 0, 0, 0, 0, 0, 0, 2], []⟩ = some ⟨2, [0xAA, 0, 0, 0, 0, 0, 0, 0, 2], []⟩ := by decide
example : preimage true 1 [5] ≠ preimage true 2 [5] ∧ preimage true 1 [5] ≠ preimage true 1 [6] ∧
    preimage false 1 [5] = preimage false 1 [6] := by decide

end Drand.Beacon
