/-
C13 — a crash at any point leaves a restartable, self-consistent node.
Model: Drand/Persist/Crash.lean (disk, persistence steps, crash images, the loaders of the start-up path).

Variant switch `WriteMode` (the file-write primitive `key.Save`): `inPlace` (create/truncate + encode into the target)
and `atomicRename` (encode into `<target>.tmp`, Sync, Close, rename). Which one the tree under test has is the
regenerated fact `Gen.keySaveVariant` (`tie_keySave`). What is proved, per variant:

  both variants      crashImages_after/during, c13_chain_*, c13_served_stored, c13_dkgdb_whole, c13_staged_*,
                     c13_files_one_epoch_exact / _partial (sharp list of good cuts per variant), c13_eviction_exact / _partial,
                     the windows that REMAIN findings under both variants, with variant-independent statements:
                       c13_window_counterexample_db_ahead, _first_dkg, _group_ahead_of_share, _leave,
                     c13_resumes, c13_completion_resumes; the reconcile-at-load variant: DrandProofs/C13Reconcile.lean
  atomicRename       FULL statements: c13_save_atomic (every crash point of every Save: each key file is its complete old or
                     its complete new version, a stale temporary file is overwritten and gone afterwards), c13_no_torn_file,
                     c13_no_startup_panic_atomic, c13_no_truncated_accepted_atomic, c13_remaining_windows_atomic
  inPlace            the same statements are refuted: c13_window_counterexample_torn_group, _torn_share,
                     c13_no_torn_file_counterexample_inplace
-/
import Drand.Persist.Crash

namespace Drand.Persist

/-! ### ties: the call orders the model is written against are the ones go2lean regenerated from the source -/

theorem tie_executeAndFinishDKG : Gen.executeAndFinishDKGPersist = executeAndFinishDKGCalls := rfl
theorem tie_onDKGCompleted :
    Gen.onDKGCompletedPersist = ["was:is:transitionToNext", "was:leaveNetwork", "is:joinNetwork"] := rfl
theorem tie_transitionToNext :
    Gen.transitionToNextPersist = ["validateGroupTransition", "storeDKGOutput", "beacon.TransitionNewGroup"] := rfl
theorem tie_joinNetwork :
    Gen.joinNetworkPersist = ["havegroup:validateGroupTransition", "storeDKGOutput", "StartBeacon"] := rfl
theorem tie_leaveNetwork : Gen.leaveNetworkPersist = leaveNetworkCalls := rfl
theorem tie_storeDKGOutput : Gen.storeDKGOutputPersist = storeDKGOutputCalls := rfl
theorem tie_saveGroup : Gen.fileStoreSaveGroupPersist = saveGroupCalls := rfl
theorem tie_saveShare : Gen.fileStoreSaveSharePersist = saveShareCalls := rfl
/-- the extractor found one of the two file-write protocols the model knows (it refuses anything else) … -/
theorem tie_keySaveVariant : Gen.keySaveVariant = "inPlace" ∨ Gen.keySaveVariant = "atomicRename" := by decide
/-- … and the calls of `key.Save`, in order and with their guards, are the ones that variant of the model mirrors;
the temporary file is the sibling `<target>.tmp` -/
theorem tie_keySave :
    Gen.keySavePersist = keySaveCalls codeWriteMode ∧
    Gen.keyTmpExtension = (match codeWriteMode with | .inPlace => "" | .atomicRename => ".tmp") := by decide
/-- `fileStore.Reset` is the one of the same variant (the atomicRename variant also removes left-over temporary files) -/
theorem tie_reset : Gen.fileStoreResetPersist = resetCalls codeWriteMode ∧ Gen.keyDeletePersist = ["os.RemoveAll"] := by
  decide
theorem tie_createSecureFile : Gen.createSecureFilePersist = createSecureFileCalls := rfl
/-- both buckets are written inside ONE `db.Update` -/
theorem tie_dkgSaveFinished :
    Gen.dkgSaveFinishedPersist = ["Update", "tx:finishedBucket.Put", "tx:currentBucket.Put"] := rfl
theorem tie_dkgSaveCurrent :
    Gen.dkgSaveCurrentPersist = ["save:stagedStateBucket"] ∧ Gen.dkgSavePersist = ["Update", "tx:bucket.Put"] := ⟨rfl, rfl⟩
/-- a beacon is one `db.Update` with one `Put` under the key of its own round -/
theorem tie_chainPut :
    Gen.trimmedPutPersist = ["Update", "tx:bucket.Put:chain.RoundToBytes(beacon.Round):beacon.Signature"] ∧
    Gen.boltPutPersist = ["Update", "tx:bucket.Put:chain.RoundToBytes(beacon.Round)"] := ⟨rfl, rfl⟩
/-- the base Put, then the dispatch (the repaired store of reports/cb_fix_1.diff spells the dispatch as two sends: a plain one
for callbacks of the node itself, a non-waiting one for stream consumers) -/
theorem tie_callbackStorePut : Gen.callbackStorePutPersist = callbackStorePutCalls ∨
    Gen.callbackStorePutPersist = callbackStorePutCalls ++ ["dispatch"] := by decide
theorem tie_bpLoad : Gen.bpLoadPersist = bpLoadCalls := rfl
/-- the extractor found one of the two start-up paths the model knows (it refuses anything else) … -/
theorem tie_startupVariant : Gen.startupVariant = "asIs" ∨ Gen.startupVariant = "reconcile" := by decide
/-- … the calls of `LoadBeaconFromStore` are the ones that variant of the model mirrors: with a completed record
`reconcileKeyFiles` runs before `bp.Load` (or not at all), the branch without a record (v1 migration) is the same in both … -/
theorem tie_loadBeaconFromStore : Gen.loadBeaconFromStorePersist = loadBeaconFromStoreCalls codeReconciles := by decide
/-- … and `reconcileKeyFiles`, if the tree has it, is the function `reconcileOps` mirrors: reads, then the four early
returns (no record / both files in sync / group file newer than the record / not a member and no files) before any write,
`Reset` for a node outside the recorded group, else `SaveGroup`, `SaveShare`; "in sync" compares the distributed public
polynomial; `dkg.Process.LastCompleted` only reads the finished record -/
theorem tie_reconcileKeyFiles :
    Gen.reconcileKeyFilesPersist = (if codeReconciles then reconcileKeyFilesCalls else []) ∧
    Gen.reconcileInSync = (if codeReconciles then reconcileInSyncDefs else []) ∧
    Gen.dkgLastCompletedPersist = (if codeReconciles then ["store.GetFinished"] else []) := by decide
theorem tie_newHandler : Gen.newHandlerPersist = ["group.Find", "GenesisBeacon", "store.Put", "newChainStore"] := rfl
/-- every bbolt file is opened with default options (fsync on commit) and nothing switches syncing off -/
theorem tie_boltOpen : Gen.boltOpenOptions = ["nil", "nil", "nil"] ∧ Gen.boltNoSyncAssignments = 0 := ⟨rfl, rfl⟩

/-! ### the enumeration `crashImages` really contains every crash point -/

private theorem aux_after (d : Disk) (j : Nat) (ops : List Op) (k : Nat) (h : k ≤ ops.length) :
    (Cut.after (j + k), run d (ops.take k)) ∈ crashImagesAux d j ops := by
  induction ops generalizing d j k with
  | nil =>
    have : k = 0 := by simpa using h
    subst this
    simp [crashImagesAux, run]
  | cons op rest ih =>
    cases k with
    | zero => simp [crashImagesAux, run]
    | succ k =>
      have := ih (apply d op) (j + 1) k (by simpa using h)
      simp only [crashImagesAux, List.mem_append, List.take_succ_cons, run, List.foldl_cons]
      right
      have e : j + (k + 1) = j + 1 + k := by omega
      rw [e]
      exact this

private theorem aux_during (d : Disk) (j : Nat) (ops : List Op) (k : Nat) (f : File) (e : Nat) (c : TornClass)
    (h : ops[k]? = some (.write f e)) :
    (Cut.during (j + k) c, (run d (ops.take k)).setFile f (.torn e c)) ∈ crashImagesAux d j ops := by
  induction ops generalizing d j k with
  | nil => simp at h
  | cons op rest ih =>
    cases k with
    | zero =>
      simp only [List.getElem?_cons_zero, Option.some.injEq] at h
      subst h
      simp only [crashImagesAux, List.mem_append, List.mem_cons, List.take_zero, run, List.foldl_nil, Nat.add_zero]
      left; right
      cases c <;> simp [allClasses]
    | succ k =>
      have := ih (apply d op) (j + 1) k (by simpa using h)
      simp only [crashImagesAux, List.mem_append, List.take_succ_cons, run, List.foldl_cons]
      right
      have e' : j + (k + 1) = j + 1 + k := by omega
      rw [e']
      exact this

/-- every prefix of the step sequence is a crash image … -/
theorem crashImages_after (d : Disk) (ops : List Op) (k : Nat) (h : k ≤ ops.length) :
    (Cut.after k, run d (ops.take k)) ∈ crashImages d ops := by
  simpa [crashImages] using aux_after d 0 ops k h

/-- … and so is, for a file write in flight, the file holding a torn prefix of any class -/
theorem crashImages_during (d : Disk) (ops : List Op) (k : Nat) (f : File) (e : Nat) (c : TornClass)
    (h : ops[k]? = some (.write f e)) :
    (Cut.during k c, (run d (ops.take k)).setFile f (.torn e c)) ∈ crashImages d ops := by
  simpa [crashImages] using aux_during d 0 ops k f e c h

example : (Cut.during 2 .bad, (⟨[], ⟨.complete 1, some 1⟩, .torn 1 .bad, .absent, .absent, .absent⟩ : Disk)) ∈
    crashImages (.clean [] ⟨.fresh, none⟩ .absent .absent) (completionOps .inPlace 1) := by decide
-- the atomic variant: the write in flight tears the TEMPORARY file, the group file is untouched
example : (Cut.during 2 .bad, (⟨[], ⟨.complete 1, some 1⟩, .absent, .absent, .torn 1 .bad, .absent⟩ : Disk)) ∈
    crashImages (.clean [] ⟨.fresh, none⟩ .absent .absent) (completionOps .atomicRename 1) := by decide


/-! ### chain store -/

private theorem beacon_aux (d : Disk) (j : Nat) (rounds : List Nat) :
    ∀ x ∈ crashImagesAux d j (beaconOps rounds), ∃ k, k ≤ rounds.length ∧
      x.2.chain = d.chain ++ rounds.take k ∧ x.2.db = d.db ∧ x.2.group = d.group ∧ x.2.share = d.share := by
  induction rounds generalizing d j with
  | nil =>
    intro x hx
    simp [beaconOps, crashImagesAux] at hx
    subst hx
    exact ⟨0, by simp⟩
  | cons r rs ih =>
    intro x hx
    simp only [beaconOps, List.flatMap_cons, List.cons_append, List.nil_append, crashImagesAux, List.mem_cons] at hx
    rcases hx with hx | hx | hx
    · subst hx; exact ⟨0, by simp⟩
    · subst hx; exact ⟨1, by simp [apply]⟩
    · have := ih (apply (apply d (.boltPut r)) (.serve r)) (j + 1 + 1) x (by simpa [beaconOps] using hx)
      obtain ⟨k, hk, h1, h2, h3, h4⟩ := this
      refine ⟨k + 1, by simpa using hk, ?_, ?_, ?_, ?_⟩
      · simp [h1, apply]
      · simp [h2, apply]
      · simp [h3, apply]
      · simp [h4, apply]

/-- Whatever the crash point while beacons are stored, the recovered chain store is the old store plus a prefix of
the Put sequence, and nothing else on disk changed. -/
theorem c13_chain_prefix (d : Disk) (rounds : List Nat) :
    ∀ x ∈ crashImages d (beaconOps rounds), ∃ k, k ≤ rounds.length ∧
      x.2.chain = d.chain ++ rounds.take k ∧ x.2.db = d.db ∧ x.2.group = d.group ∧ x.2.share = d.share :=
  beacon_aux d 0 rounds

/-- … hence a gap-free store that is extended by consecutive rounds (what `appendStore` enforces, C02) is gap-free
in every crash image. -/
theorem c13_chain_gapfree (d : Disk) (n : Nat) (hd : GapFree d.chain) :
    ∀ x ∈ crashImages d (beaconOps (List.range' d.chain.length n)), GapFree x.2.chain := by
  intro x hx
  obtain ⟨k, hk, h1, -⟩ := c13_chain_prefix d _ x hx
  have hk' : k ≤ n := by simpa using hk
  unfold GapFree at *
  rw [h1]
  have ht : List.take k (List.range' d.chain.length n) = List.range' d.chain.length k := by
    exact List.take_range'_of_length_ge hk'
  rw [ht, List.length_append, List.length_range']
  generalize d.chain.length = m at *
  rw [hd, List.range_eq_range', List.range_eq_range']
  have := List.range'_append_1 (s := 0) (m := m) (n := k)
  simpa using this

/-- Every round that was handed to the callbacks / streams before the crash is in the recovered store
(`callbackStore.Put` dispatches only after the base store's Put returned). -/
theorem c13_served_stored (d : Disk) (rounds : List Nat) (k : Nat) :
    ∀ r ∈ served ((beaconOps rounds).take k), r ∈ (run d ((beaconOps rounds).take k)).chain := by
  induction rounds generalizing d k with
  | nil => simp [beaconOps, served]
  | cons a rs ih =>
    intro r hr
    match k with
    | 0 => simp [served] at hr
    | 1 => simp [beaconOps, served] at hr
    | k + 2 =>
      simp only [beaconOps, List.flatMap_cons, List.cons_append, List.nil_append, List.take_succ_cons, served,
        List.filterMap_cons, List.mem_cons] at hr
      simp only [beaconOps, List.flatMap_cons, List.cons_append, List.nil_append, List.take_succ_cons, run,
        List.foldl_cons]
      have mono : ∀ (ops : List Op) (d : Disk) (x : Nat), x ∈ d.chain → x ∈ (ops.foldl apply d).chain := by
        intro ops
        induction ops with
        | nil => intro d x h; simpa using h
        | cons o os ih2 =>
          intro d x h
          apply ih2
          cases o with
          | boltPut r => simp [apply, h]
          | serve r => simpa [apply] using h
          | saveCurrent e st => simpa [apply] using h
          | saveFinished e => simpa [apply] using h
          | create f => cases f <;> simpa [apply, Disk.setFile] using h
          | chmod f => simpa [apply] using h
          | write f e => cases f <;> simpa [apply, Disk.setFile] using h
          | remove f => cases f <;> simpa [apply, Disk.setFile] using h
          | rename a b => cases a <;> cases b <;> simpa [apply, Disk.setFile, Disk.getFile] using h
      rcases hr with hr | hr
      · subst hr
        apply mono
        simp [apply]
      · exact ih (apply (apply d (.boltPut a)) (.serve a)) k r (by simpa [beaconOps, served] using hr)

example : GapFree (run (.clean [0, 1] ⟨.fresh, none⟩ .absent .absent) ((beaconOps [2, 3, 4]).take 3)).chain := by decide


/-! ### key-generation database -/

/-- Whatever the crash point of a DKG completion (member or evicted), in either variant of the file-write primitive,
dkg.db holds either exactly the old pair of records or exactly the new pair (finished epoch `e` together with the staged
record of the same epoch): one whole epoch, never a mixture. -/
theorem c13_dkgdb_whole (m : WriteMode) (d : Disk) (e : Nat) :
    (∀ x ∈ crashImages d (completionOps m e), x.2.db = d.db ∨ x.2.db = ⟨.complete e, some e⟩) ∧
    (∀ x ∈ crashImages d (evictionOps m e), x.2.db = d.db ∨ x.2.db = ⟨.complete e, some e⟩) := by
  cases m
  · constructor
    · intro x hx
      simp [crashImages, crashImagesAux, completionOps, completionOpsIn, codeOrder, stageOps,
        storeDKGOutputOps, saveGroupOps, saveShareOps, saveOps, creatorOps, createSecureFileOps, allClasses, apply,
        Disk.setFile] at hx
      rcases hx with hx | hx | hx | hx | hx | hx | hx | hx | hx | hx | hx | hx | hx | hx | hx <;> subst hx <;> simp
    · intro x hx
      simp [crashImages, crashImagesAux, evictionOps, evictionOpsIn, codeOrder, stageOps, resetOps, apply,
        Disk.setFile] at hx
      rcases hx with hx | hx | hx | hx <;> subst hx <;> simp
  · constructor
    · intro x hx
      simp [crashImages, crashImagesAux, completionOps, completionOpsIn, codeOrder, stageOps,
        storeDKGOutputOps, saveGroupOps, saveShareOps, saveOps, creatorOps, createSecureFileOps, File.tmp, allClasses, apply,
        Disk.setFile, Disk.getFile] at hx
      rcases hx with hx | hx | hx | hx | hx | hx | hx | hx | hx | hx | hx | hx | hx | hx | hx | hx | hx <;> subst hx <;> simp
    · intro x hx
      simp [crashImages, crashImagesAux, evictionOps, evictionOpsIn, codeOrder, stageOps, resetOps, apply,
        Disk.setFile] at hx
      rcases hx with hx | hx | hx | hx | hx | hx <;> subst hx <;> simp

/-- A step that only stages a DKG state (proposal, acceptance, execution start, failure, leaving) never touches the
completed record, the key files or the chain. -/
theorem c13_staged_keeps_finished (d : Disk) (e : Nat) (st : String) :
    ∀ x ∈ crashImages d (stagedOps e st), x.2.db.finished = d.db.finished ∧ x.2.group = d.group ∧
      x.2.share = d.share ∧ x.2.chain = d.chain ∧ (x.2.db.current = d.db.current ∨ x.2.db.current = .staged e st) := by
  intro x hx
  simp [crashImages, crashImagesAux, stagedOps, apply] at hx
  rcases hx with hx | hx <;> subst hx <;> simp


/-! ### key files -/

@[simp] private theorem lf_absent : loadFile .absent = .missing := rfl
@[simp] private theorem lf_trunc : loadFile .trunc = .err := rfl
@[simp] private theorem lf_whole (e : Nat) : loadFile (.whole e) = .val e := rfl
@[simp] private theorem lf_bad (e : Nat) : loadFile (.torn e .bad) = .err := rfl
@[simp] private theorem lf_panics (e : Nat) : loadFile (.torn e .panics) = .panics := rfl
@[simp] private theorem lf_same (e : Nat) : loadFile (.torn e .same) = .val e := rfl
@[simp] private theorem lf_accepted (e : Nat) : loadFile (.torn e .accepted) = .truncated e := rfl

/-! #### the atomicRename variant: no crash point of a Save leaves a torn key file -/

/-- FULL STATEMENT, one `Save` (atomicRename variant). For every crash point of `key.Save(target, v, secure)` — whatever
was on disk before, a stale or torn temporary file of an earlier interrupted Save included — the target is either its
complete OLD version or its complete NEW version; no other key file, neither database is touched; and once the call
returned the target is the new version and the temporary file is gone. -/
theorem c13_save_atomic (d : Disk) (f : File) (hf : f = .group ∨ f = .share) (secure : Bool) (e : Nat) :
    (∀ x ∈ crashImages d (saveOps .atomicRename f secure e),
      (x.2.getFile f = d.getFile f ∨ x.2.getFile f = .whole e) ∧
      (∀ g, g ≠ f → g ≠ f.tmp → x.2.getFile g = d.getFile g) ∧ x.2.db = d.db ∧ x.2.chain = d.chain) ∧
    (run d (saveOps .atomicRename f secure e)).getFile f = .whole e ∧
    (run d (saveOps .atomicRename f secure e)).getFile f.tmp = .absent := by
  obtain ⟨chain, db, g, s, gt, st⟩ := d
  rcases hf with rfl | rfl <;> cases secure <;>
    refine ⟨?_, by simp [run, saveOps, creatorOps, createSecureFileOps, File.tmp, apply, Disk.setFile, Disk.getFile],
      by simp [run, saveOps, creatorOps, createSecureFileOps, File.tmp, apply, Disk.setFile, Disk.getFile]⟩ <;>
    intro x hx <;>
    simp [crashImages, crashImagesAux, saveOps, creatorOps, createSecureFileOps, File.tmp, allClasses, apply,
      Disk.setFile, Disk.getFile] at hx
  all_goals
    first
    | (rcases hx with hx | hx | hx | hx | hx | hx | hx | hx <;> subst hx <;>
        refine ⟨by simp [Disk.getFile], ?_, rfl, rfl⟩ <;> intro g' h1 h2 <;> cases g' <;> simp_all [Disk.getFile, File.tmp])
    | (rcases hx with hx | hx | hx | hx | hx | hx | hx | hx | hx <;> subst hx <;>
        refine ⟨by simp [Disk.getFile], ?_, rfl, rfl⟩ <;> intro g' h1 h2 <;> cases g' <;> simp_all [Disk.getFile, File.tmp])

-- a stale torn temporary file of an earlier crash does not survive the next Save, and is never what is loaded
example : run ⟨[], ⟨.complete 1, some 1⟩, .whole 1, .whole 1, .torn 2 .panics, .trunc⟩ (saveOps .atomicRename .group false 2) =
    ⟨[], ⟨.complete 1, some 1⟩, .whole 2, .whole 1, .absent, .trunc⟩ := by decide

/-- FULL STATEMENT (atomicRename variant): at every crash point of a DKG completion each key file is its complete old or
its complete new version — and on a node that leaves, its old version or gone. The in-place variant refutes this:
`c13_no_torn_file_counterexample_inplace`. -/
theorem c13_no_torn_file (d : Disk) (e : Nat) :
    (∀ x ∈ crashImages d (completionOps .atomicRename e),
      (x.2.group = d.group ∨ x.2.group = .whole e) ∧ (x.2.share = d.share ∨ x.2.share = .whole e)) ∧
    (∀ x ∈ crashImages d (evictionOps .atomicRename e),
      (x.2.group = d.group ∨ x.2.group = .absent) ∧ (x.2.share = d.share ∨ x.2.share = .absent)) := by
  obtain ⟨chain, db, g, s, gt, st⟩ := d
  constructor
  · intro x hx
    simp [crashImages, crashImagesAux, completionOps, completionOpsIn, codeOrder, stageOps,
      storeDKGOutputOps, saveGroupOps, saveShareOps, saveOps, creatorOps, createSecureFileOps, File.tmp, allClasses, apply,
      Disk.setFile, Disk.getFile] at hx
    rcases hx with hx | hx | hx | hx | hx | hx | hx | hx | hx | hx | hx | hx | hx | hx | hx | hx | hx <;> subst hx <;> simp
  · intro x hx
    simp [crashImages, crashImagesAux, evictionOps, evictionOpsIn, codeOrder, stageOps, resetOps, apply,
      Disk.setFile] at hx
    rcases hx with hx | hx | hx | hx | hx | hx <;> subst hx <;> simp

/-- what the start-up path makes of key files that are intact (absent, or one complete encoding): it never panics, never
fails on a decode error, and never starts with a truncated share -/
private theorem intact_startup (member : Nat → Bool) (d : Disk) (hg : d.group.intact = true) (hs : d.share.intact = true) :
    (loadFile d.group).sound = true ∧ (loadFile d.share).sound = true ∧
    (recover asIs member d).outcome ≠ .panicked ∧ (recover asIs member d).outcome ≠ .decodeErr ∧
    (∀ g s, (recover asIs member d).outcome = .ok g s → ∃ k, s = .val k) := by
  obtain ⟨chain, ⟨cur, fin⟩, g, s, gt, st⟩ := d
  cases g <;> simp [FileState.intact] at hg <;> cases s <;> simp [FileState.intact] at hs <;> cases fin <;>
    simp [recover, asIs, startup, startupOutcome, bpLoadL, Loaded.sound] <;>
    (try split) <;> simp

/-- intactness of both key files is an invariant of every step sequence of the atomicRename variant: it holds in every
crash image of a completion / an eviction that started from intact files -/
private theorem intact_preserved (d : Disk) (e : Nat) (hg : d.group.intact = true) (hs : d.share.intact = true) :
    (∀ x ∈ crashImages d (completionOps .atomicRename e), x.2.group.intact = true ∧ x.2.share.intact = true) ∧
    (∀ x ∈ crashImages d (evictionOps .atomicRename e), x.2.group.intact = true ∧ x.2.share.intact = true) := by
  constructor
  · intro x hx
    obtain ⟨h1, h2⟩ := (c13_no_torn_file d e).1 x hx
    constructor
    · rcases h1 with h | h <;> rw [h] <;> first | exact hg | rfl
    · rcases h2 with h | h <;> rw [h] <;> first | exact hs | rfl
  · intro x hx
    obtain ⟨h1, h2⟩ := (c13_no_torn_file d e).2 x hx
    constructor
    · rcases h1 with h | h <;> rw [h] <;> first | exact hg | rfl
    · rcases h2 with h | h <;> rw [h] <;> first | exact hs | rfl

/-- FULL STATEMENT (atomicRename variant): whatever the crash point of a DKG completion or an eviction, the key files
stay intact, `key.Load` decodes what it finds without panicking, and the daemon's start-up path neither panics nor
fails on an undecodable key file. (In-place variant: `c13_window_counterexample_torn_group`.) -/
theorem c13_no_startup_panic_atomic (member : Nat → Bool) (d : Disk) (e : Nat)
    (hg : d.group.intact = true) (hs : d.share.intact = true) :
    ∀ x, (x ∈ crashImages d (completionOps .atomicRename e) ∨ x ∈ crashImages d (evictionOps .atomicRename e)) →
      x.2.group.intact = true ∧ x.2.share.intact = true ∧
      loadFile x.2.group ≠ .panics ∧ loadFile x.2.share ≠ .panics ∧
      (recover asIs member x.2).outcome ≠ .panicked ∧ (recover asIs member x.2).outcome ≠ .decodeErr := by
  intro x hx
  have hi : x.2.group.intact = true ∧ x.2.share.intact = true := by
    rcases hx with hx | hx
    · exact (intact_preserved d e hg hs).1 x hx
    · exact (intact_preserved d e hg hs).2 x hx
  obtain ⟨s1, s2, h3, h4, -⟩ := intact_startup member x.2 hi.1 hi.2
  refine ⟨hi.1, hi.2, ?_, ?_, h3, h4⟩
  · intro h; rw [h] at s1; exact absurd s1 (by decide)
  · intro h; rw [h] at s2; exact absurd s2 (by decide)

/-- FULL STATEMENT (atomicRename variant): no crash point makes `key.Load` accept a truncated group or share, and a
beacon that starts does so with a complete share. (In-place variant: `c13_window_counterexample_torn_share`.) -/
theorem c13_no_truncated_accepted_atomic (member : Nat → Bool) (d : Disk) (e : Nat)
    (hg : d.group.intact = true) (hs : d.share.intact = true) :
    ∀ x, (x ∈ crashImages d (completionOps .atomicRename e) ∨ x ∈ crashImages d (evictionOps .atomicRename e)) →
      (∀ k, loadFile x.2.group ≠ .truncated k) ∧ (∀ k, loadFile x.2.share ≠ .truncated k) ∧
      (∀ g s, (recover asIs member x.2).outcome = .ok g s → ∃ k, s = .val k) := by
  intro x hx
  have hi : x.2.group.intact = true ∧ x.2.share.intact = true := by
    rcases hx with hx | hx
    · exact (intact_preserved d e hg hs).1 x hx
    · exact (intact_preserved d e hg hs).2 x hx
  obtain ⟨s1, s2, -, -, h5⟩ := intact_startup member x.2 hi.1 hi.2
  refine ⟨?_, ?_, h5⟩
  · intro k h; rw [h] at s1; simp [Loaded.sound] at s1
  · intro k h; rw [h] at s2; simp [Loaded.sound] at s2

/-- the three shapes of a self-consistent disk: fresh install, member of the last completed epoch, not a member -/
theorem start_shapes (member : Nat → Bool) (d : Disk)
    (h : Consistent member (recover asIs member d) = true) :
    (d.db.finished = none ∧ loadFile d.group = .missing ∧ loadFile d.share = .missing) ∨
    (∃ p, d.db.finished = some p ∧ member p = true ∧ loadFile d.group = .val p ∧ loadFile d.share = .val p) ∨
    (∃ p, d.db.finished = some p ∧ member p = false ∧ loadFile d.group = .missing ∧ loadFile d.share = .missing) := by
  obtain ⟨chain, ⟨cur, fin⟩, g, s, gt, st⟩ := d
  cases fin with
  | none =>
    left
    simp [Consistent, recover, asIs] at h
    simp [h.1.1, h.1.2]
  | some p =>
    right
    cases hm : member p with
    | true =>
      left
      simp [Consistent, recover, asIs, hm] at h
      exact ⟨p, rfl, hm, h.1.1, h.1.2⟩
    | false =>
      right
      simp [Consistent, recover, asIs, hm] at h
      exact ⟨p, rfl, hm, h.1, h.2⟩

/-- the crash points of a completion at which the code leaves a self-consistent disk.
in place: before anything was written, after everything was written, and while the share file is being written if the
prefix already decodes to the whole share. atomic rename: before anything was written and after the share was renamed
into place — the temporary-file steps in between do not count, they change nothing a restart looks at. -/
def goodCompletionCut : WriteMode → Cut → Bool
  | _, .after 0 => true
  | .inPlace, .after 6 => true
  | .inPlace, .during 5 .same => true
  | .atomicRename, .after 8 => true
  | _, _ => false

/-
FULL STATEMENT (C13, key files), NOT provable for the code as it is, in EITHER variant of the file-write primitive:

  theorem c13_files_one_epoch (member d e) (hstart : Consistent member (recover asIs member d)) … :
      ∀ x ∈ crashImages d (completionOps m e), Consistent member (recover asIs member x.2) = true

The extracted order is  SaveFinished ; Save(group) ; Save(share)  with nothing at start-up that reconciles the key files
with the finished DKG record, so the statement fails at every crash point strictly inside the completion. Proved instead:
  * `c13_files_one_epoch_exact`   — for EVERY crash point: consistent ⇔ `goodCompletionCut` (so the partial theorem
                                    below is sharp and every other cut is a counterexample),
  * `c13_files_one_epoch_partial` — the good cuts,
  * `c13_remaining_windows_atomic` — atomicRename: every other cut is "dkg.db ahead of the key files" or "group of the new
                                    epoch with the share of the old one", nothing else (no torn / unreadable file),
  * `c13_window_counterexample_*` — concrete witnesses, replayed on real directories by the harness,
  * `c13_files_one_epoch_fixed`   — the full statement for the corrected variant (reconcile at load): C13Reconcile.lean.
-/

/-- For every crash point of a DKG completion started from a self-consistent disk, on a node that is in the new
group: the recovered node is self-consistent exactly at the good cuts of the variant. -/
theorem c13_files_one_epoch_exact (m : WriteMode) (member : Nat → Bool) (d : Disk) (e : Nat)
    (hstart : Consistent member (recover asIs member d) = true)
    (hnew : ∀ p, d.db.finished = some p → p ≠ e) (hmem : member e = true) :
    ∀ x ∈ crashImages d (completionOps m e),
      Consistent member (recover asIs member x.2) = goodCompletionCut m x.1 := by
  have shapes := start_shapes member d hstart
  obtain ⟨chain, ⟨cur, fin⟩, g, s, gt, st⟩ := d
  intro x hx
  cases m
  · simp [crashImages, crashImagesAux, completionOps, completionOpsIn, codeOrder, stageOps,
      storeDKGOutputOps, saveGroupOps, saveShareOps, saveOps, creatorOps, createSecureFileOps, allClasses, apply,
      Disk.setFile] at hx
    rcases shapes with ⟨hf, hg, hs⟩ | ⟨p, hf, hp, hg, hs⟩ | ⟨p, hf, hp, hg, hs⟩
    · simp only at hf hg hs
      subst hf
      rcases hx with hx | hx | hx | hx | hx | hx | hx | hx | hx | hx | hx | hx | hx | hx | hx <;> subst hx <;>
        simp [Consistent, recover, asIs, startup, startupOutcome, bpLoadL, goodCompletionCut, hg, hs, hmem]
    · simp only at hf hg hs
      subst hf
      have hne : p ≠ e := hnew p rfl
      rcases hx with hx | hx | hx | hx | hx | hx | hx | hx | hx | hx | hx | hx | hx | hx | hx <;> subst hx <;>
        simp [Consistent, recover, asIs, startup, startupOutcome, bpLoadL, goodCompletionCut, hg, hs, hmem, hp, hne]
    · simp only at hf hg hs
      subst hf
      rcases hx with hx | hx | hx | hx | hx | hx | hx | hx | hx | hx | hx | hx | hx | hx | hx <;> subst hx <;>
        simp [Consistent, recover, asIs, startup, startupOutcome, bpLoadL, goodCompletionCut, hg, hs, hmem, hp]
  · simp [crashImages, crashImagesAux, completionOps, completionOpsIn, codeOrder, stageOps,
      storeDKGOutputOps, saveGroupOps, saveShareOps, saveOps, creatorOps, createSecureFileOps, File.tmp, allClasses, apply,
      Disk.setFile, Disk.getFile] at hx
    rcases shapes with ⟨hf, hg, hs⟩ | ⟨p, hf, hp, hg, hs⟩ | ⟨p, hf, hp, hg, hs⟩
    · simp only at hf hg hs
      subst hf
      rcases hx with hx | hx | hx | hx | hx | hx | hx | hx | hx | hx | hx | hx | hx | hx | hx | hx | hx <;> subst hx <;>
        simp [Consistent, recover, asIs, startup, startupOutcome, bpLoadL, goodCompletionCut, hg, hs, hmem]
    · simp only at hf hg hs
      subst hf
      have hne : p ≠ e := hnew p rfl
      rcases hx with hx | hx | hx | hx | hx | hx | hx | hx | hx | hx | hx | hx | hx | hx | hx | hx | hx <;> subst hx <;>
        simp [Consistent, recover, asIs, startup, startupOutcome, bpLoadL, goodCompletionCut, hg, hs, hmem, hp, hne]
    · simp only at hf hg hs
      subst hf
      rcases hx with hx | hx | hx | hx | hx | hx | hx | hx | hx | hx | hx | hx | hx | hx | hx | hx | hx <;> subst hx <;>
        simp [Consistent, recover, asIs, startup, startupOutcome, bpLoadL, goodCompletionCut, hg, hs, hmem, hp]

/-- The part of the full statement that holds for the code as it is (either variant): at the good cuts the key files
belong to one epoch, the latest epoch dkg.db records as completed, and the start-up path loads exactly them. -/
theorem c13_files_one_epoch_partial (m : WriteMode) (member : Nat → Bool) (d : Disk) (e : Nat)
    (hstart : Consistent member (recover asIs member d) = true)
    (hnew : ∀ p, d.db.finished = some p → p ≠ e) (hmem : member e = true) :
    ∀ x ∈ crashImages d (completionOps m e), goodCompletionCut m x.1 = true →
      Consistent member (recover asIs member x.2) = true := by
  intro x hx hg
  rw [c13_files_one_epoch_exact m member d e hstart hnew hmem x hx, hg]

/-- atomicRename variant: what is left of the windows. At every crash point of a completion the recovered node is
self-consistent, or dkg.db is ahead of two UNTOUCHED key files, or the complete group file of the new epoch stands next
to the UNTOUCHED share file — nothing else; in particular no key file is ever torn, empty or half-written. -/
theorem c13_remaining_windows_atomic (member : Nat → Bool) (d : Disk) (e : Nat)
    (hstart : Consistent member (recover asIs member d) = true)
    (hnew : ∀ p, d.db.finished = some p → p ≠ e) (hmem : member e = true) :
    ∀ x ∈ crashImages d (completionOps .atomicRename e),
      Consistent member (recover asIs member x.2) = true ∨
      (x.2.db.finished = some e ∧ x.2.group = d.group ∧ x.2.share = d.share) ∨
      (x.2.db.finished = some e ∧ x.2.group = .whole e ∧ x.2.share = d.share) := by
  intro x hx
  have hex := c13_files_one_epoch_exact .atomicRename member d e hstart hnew hmem x hx
  obtain ⟨chain, ⟨cur, fin⟩, g, s, gt, st⟩ := d
  simp [crashImages, crashImagesAux, completionOps, completionOpsIn, codeOrder, stageOps,
    storeDKGOutputOps, saveGroupOps, saveShareOps, saveOps, creatorOps, createSecureFileOps, File.tmp, allClasses, apply,
    Disk.setFile, Disk.getFile] at hx
  rcases hx with hx | hx | hx | hx | hx | hx | hx | hx | hx | hx | hx | hx | hx | hx | hx | hx | hx <;> subst hx <;>
    first
    | (left; rw [hex]; rfl)
    | (right; left; exact ⟨rfl, rfl, rfl⟩)
    | (right; right; exact ⟨rfl, rfl, rfl⟩)

/-- a node with completed epoch 1 (member), resharing into epoch 2 (member) -/
def exDisk : Disk := .clean [0, 1, 2] ⟨.complete 1, some 1⟩ (.whole 1) (.whole 1)
def exMember : Nat → Bool := fun _ => true

example : Consistent exMember (recover asIs exMember exDisk) = true := by decide
example : ∃ x ∈ crashImages exDisk (completionOps .inPlace 2), goodCompletionCut .inPlace x.1 = true ∧ x.1 ≠ .after 0 :=
  ⟨(.after 6, .clean [0, 1, 2] ⟨.complete 2, some 2⟩ (.whole 2) (.whole 2)), by decide, by decide, by decide⟩
example : ∃ x ∈ crashImages exDisk (completionOps .atomicRename 2), goodCompletionCut .atomicRename x.1 = true ∧ x.1 ≠ .after 0 :=
  ⟨(.after 8, .clean [0, 1, 2] ⟨.complete 2, some 2⟩ (.whole 2) (.whole 2)), by decide, by decide, by decide⟩
example : exDisk.group.intact = true ∧ exDisk.share.intact = true := by decide
-- all three disjuncts of `c13_remaining_windows_atomic` occur
example : (∃ x ∈ crashImages exDisk (completionOps .atomicRename 2), Consistent exMember (recover asIs exMember x.2) = true) ∧
    (∃ x ∈ crashImages exDisk (completionOps .atomicRename 2), x.2.db.finished = some 2 ∧ x.2.group = .whole 1 ∧ x.2.share = .whole 1) ∧
    (∃ x ∈ crashImages exDisk (completionOps .atomicRename 2), x.2.db.finished = some 2 ∧ x.2.group = .whole 2 ∧ x.2.share = .whole 1) :=
  ⟨⟨(.after 0, exDisk), by decide, by decide⟩,
   ⟨(.after 1, .clean [0, 1, 2] ⟨.complete 2, some 2⟩ (.whole 1) (.whole 1)), by decide, by decide⟩,
   ⟨(.after 4, .clean [0, 1, 2] ⟨.complete 2, some 2⟩ (.whole 2) (.whole 1)), by decide, by decide⟩⟩

/-! #### windows that remain findings under BOTH variants (variant-independent statements) -/

/-- crash after SaveFinished, before the group file is replaced: dkg.db says epoch 2, both key files are epoch 1;
the restarted node runs with the OLD group and share although the network moved on. -/
theorem c13_window_counterexample_db_ahead (m : WriteMode) :
    (Cut.after 1, Disk.clean [0, 1, 2] ⟨.complete 2, some 2⟩ (.whole 1) (.whole 1)) ∈ crashImages exDisk (completionOps m 2) ∧
    recover asIs exMember (.clean [0, 1, 2] ⟨.complete 2, some 2⟩ (.whole 1) (.whole 1)) =
      ⟨some 2, .complete 2, .val 1, .val 1, .ok 1 (.val 1), [0, 1, 2]⟩ ∧
    Consistent exMember (recover asIs exMember (.clean [0, 1, 2] ⟨.complete 2, some 2⟩ (.whole 1) (.whole 1))) = false := by
  cases m <;> decide

/-- the same window on a node's FIRST DKG: dkg.db says epoch 1, no key files: `Load` answers ErrDKGNotStarted and the
daemon refuses to start -/
theorem c13_window_counterexample_first_dkg (m : WriteMode) :
    (Cut.after 1, Disk.clean [] ⟨.complete 1, some 1⟩ .absent .absent) ∈
      crashImages (.clean [] ⟨.staged 1 "Executing", none⟩ .absent .absent) (completionOps m 1) ∧
    (recover asIs exMember (.clean [] ⟨.complete 1, some 1⟩ .absent .absent)).outcome = .notStarted ∧
    Consistent exMember (recover asIs exMember (.clean [] ⟨.complete 1, some 1⟩ .absent .absent)) = false := by
  cases m <;> decide

/-- crash after the group file is complete (written in place, or renamed into place), before the share file is replaced:
group of epoch 2 with the share of epoch 1 — `Load` succeeds and the beacon starts with a share that does not belong to
the group. Writing the temporary share file does not close the window: it lasts until the share is renamed. -/
theorem c13_window_counterexample_group_ahead_of_share (m : WriteMode) :
    (∃ k, (Cut.after k, Disk.clean [0, 1, 2] ⟨.complete 2, some 2⟩ (.whole 2) (.whole 1)) ∈ crashImages exDisk (completionOps m 2)) ∧
    (recover asIs exMember (.clean [0, 1, 2] ⟨.complete 2, some 2⟩ (.whole 2) (.whole 1))).outcome = .ok 2 (.val 1) ∧
    Resumes exMember (recover asIs exMember (.clean [0, 1, 2] ⟨.complete 2, some 2⟩ (.whole 2) (.whole 1))) = false ∧
    Consistent exMember (recover asIs exMember (.clean [0, 1, 2] ⟨.complete 2, some 2⟩ (.whole 2) (.whole 1))) = false := by
  cases m
  · exact ⟨⟨3, by decide⟩, by decide, by decide, by decide⟩
  · exact ⟨⟨4, by decide⟩, by decide, by decide, by decide⟩

/-! #### windows of the in-place variant only -/

/-- in place: crash while the group file is written (created/truncated, or any torn prefix): the file does not decode,
`Load` answers ErrDKGNotStarted (bad prefix / empty file) or panics (decoder panic, or a truncated group without its
distributed key is accepted by the decoder and dereferenced) -/
theorem c13_window_counterexample_torn_group :
    (∀ c, (Cut.during 2 c, Disk.clean [0, 1, 2] ⟨.complete 2, some 2⟩ (.torn 2 c) (.whole 1)) ∈
      crashImages exDisk (completionOps .inPlace 2)) ∧
    (Cut.after 2, Disk.clean [0, 1, 2] ⟨.complete 2, some 2⟩ .trunc (.whole 1)) ∈ crashImages exDisk (completionOps .inPlace 2) ∧
    (recover asIs exMember (.clean [0, 1, 2] ⟨.complete 2, some 2⟩ .trunc (.whole 1))).outcome = .notStarted ∧
    (recover asIs exMember (.clean [0, 1, 2] ⟨.complete 2, some 2⟩ (.torn 2 .bad) (.whole 1))).outcome = .notStarted ∧
    (recover asIs exMember (.clean [0, 1, 2] ⟨.complete 2, some 2⟩ (.torn 2 .panics) (.whole 1))).outcome = .panicked ∧
    (recover asIs exMember (.clean [0, 1, 2] ⟨.complete 2, some 2⟩ (.torn 2 .accepted) (.whole 1))).outcome = .panicked ∧
    (∀ c, Consistent exMember (recover asIs exMember (.clean [0, 1, 2] ⟨.complete 2, some 2⟩ (.torn 2 c) (.whole 1))) = false) := by
  refine ⟨?_, by decide, by decide, by decide, by decide, by decide, ?_⟩ <;> intro c <;> cases c <;> decide

/-- in place: crash while the share file is written: empty or undecodable share (`Load` fails), or a truncated share that
the decoder accepts (no commitments) and the beacon starts with -/
theorem c13_window_counterexample_torn_share :
    (Cut.after 4, Disk.clean [0, 1, 2] ⟨.complete 2, some 2⟩ (.whole 2) .trunc) ∈ crashImages exDisk (completionOps .inPlace 2) ∧
    (recover asIs exMember (.clean [0, 1, 2] ⟨.complete 2, some 2⟩ (.whole 2) .trunc)).outcome = .decodeErr ∧
    (Cut.during 5 .accepted, Disk.clean [0, 1, 2] ⟨.complete 2, some 2⟩ (.whole 2) (.torn 2 .accepted)) ∈
      crashImages exDisk (completionOps .inPlace 2) ∧
    (recover asIs exMember (.clean [0, 1, 2] ⟨.complete 2, some 2⟩ (.whole 2) (.torn 2 .accepted))).outcome = .ok 2 (.truncated 2) ∧
    Consistent exMember (recover asIs exMember (.clean [0, 1, 2] ⟨.complete 2, some 2⟩ (.whole 2) (.torn 2 .accepted))) = false := by
  decide

/-- in place: the statements `c13_no_torn_file`, `c13_no_startup_panic_atomic`, `c13_no_truncated_accepted_atomic` are
FALSE — from intact files a crash point exists whose group file is neither the old nor the new version, at which the
decoder panics, and one at which a truncated share is accepted -/
theorem c13_no_torn_file_counterexample_inplace :
    exDisk.group.intact = true ∧ exDisk.share.intact = true ∧
    (∃ x ∈ crashImages exDisk (completionOps .inPlace 2),
      x.2.group ≠ exDisk.group ∧ x.2.group ≠ .whole 2 ∧ x.2.group.intact = false ∧
      loadFile x.2.group = .panics ∧ (recover asIs exMember x.2).outcome = .panicked) ∧
    (∃ x ∈ crashImages exDisk (completionOps .inPlace 2),
      loadFile x.2.share = .truncated 2 ∧ (recover asIs exMember x.2).outcome = .ok 2 (.truncated 2)) :=
  ⟨by decide, by decide,
   ⟨(.during 2 .panics, .clean [0, 1, 2] ⟨.complete 2, some 2⟩ (.torn 2 .panics) (.whole 1)), by decide, by decide, by decide,
     by decide, by decide, by decide⟩,
   ⟨(.during 5 .accepted, .clean [0, 1, 2] ⟨.complete 2, some 2⟩ (.whole 2) (.torn 2 .accepted)), by decide, by decide, by decide⟩⟩

/-- what holds for the tree under test: if its `key.Save` is the atomicRename variant (`Gen.keySaveVariant`), no crash
point of a completion or an eviction leaves a key file that is not a complete old or new version -/
theorem c13_no_torn_file_code (h : codeWriteMode = .atomicRename) (d : Disk) (e : Nat) :
    (∀ x ∈ crashImages d (completionOps codeWriteMode e),
      (x.2.group = d.group ∨ x.2.group = .whole e) ∧ (x.2.share = d.share ∨ x.2.share = .whole e)) ∧
    (∀ x ∈ crashImages d (evictionOps codeWriteMode e),
      (x.2.group = d.group ∨ x.2.group = .absent) ∧ (x.2.share = d.share ∨ x.2.share = .absent)) := by
  rw [h]; exact c13_no_torn_file d e

/-! ### a node that ran the protocol but is not in the new group (`leaveNetwork`) -/

def goodEvictionCut : WriteMode → Cut → Bool
  | _, .after 0 => true
  | _, .after 3 => true
  | .atomicRename, .after 4 => true   -- the two removals of (absent) temporary files change nothing
  | .atomicRename, .after 5 => true
  | _, _ => false

/-- For every crash point of a completion on a node that is NOT in the new group: self-consistent exactly before
anything was written and after both key files were removed. -/
theorem c13_eviction_exact (m : WriteMode) (member : Nat → Bool) (d : Disk) (e : Nat)
    (hstart : Consistent member (recover asIs member d) = true)
    (hold : ∃ p, d.db.finished = some p ∧ member p = true ∧ p ≠ e) (hmem : member e = false) :
    ∀ x ∈ crashImages d (evictionOps m e),
      Consistent member (recover asIs member x.2) = goodEvictionCut m x.1 := by
  have shapes := start_shapes member d hstart
  obtain ⟨chain, ⟨cur, fin⟩, g, s, gt, st⟩ := d
  obtain ⟨p, hf, hp, hne⟩ := hold
  simp only at hf
  subst hf
  intro x hx
  rcases shapes with ⟨hf, -⟩ | ⟨q, hf, hq, hg, hs⟩ | ⟨q, hf, hq, -⟩
  · simp at hf
  · simp only [Option.some.injEq] at hf hg hs
    subst hf
    cases m
    · simp [crashImages, crashImagesAux, evictionOps, evictionOpsIn, codeOrder, stageOps, resetOps, apply,
        Disk.setFile] at hx
      rcases hx with hx | hx | hx | hx <;> subst hx <;>
        simp [Consistent, recover, asIs, startup, startupOutcome, bpLoadL, goodEvictionCut, hg, hs, hmem, hp]
    · simp [crashImages, crashImagesAux, evictionOps, evictionOpsIn, codeOrder, stageOps, resetOps, apply,
        Disk.setFile] at hx
      rcases hx with hx | hx | hx | hx | hx | hx <;> subst hx <;>
        simp [Consistent, recover, asIs, startup, startupOutcome, bpLoadL, goodEvictionCut, hg, hs, hmem, hp]
  · simp only [Option.some.injEq] at hf
    subst hf
    rw [hp] at hq
    cases hq

theorem c13_eviction_partial (m : WriteMode) (member : Nat → Bool) (d : Disk) (e : Nat)
    (hstart : Consistent member (recover asIs member d) = true)
    (hold : ∃ p, d.db.finished = some p ∧ member p = true ∧ p ≠ e) (hmem : member e = false) :
    ∀ x ∈ crashImages d (evictionOps m e), goodEvictionCut m x.1 = true →
      Consistent member (recover asIs member x.2) = true := by
  intro x hx hg
  rw [c13_eviction_exact m member d e hstart hold hmem x hx, hg]

/-- leaving (either variant): after SaveFinished the database says epoch 2 (without this node) while both epoch-1 key
files are still there and load; after the share was removed the group file is left without a share -/
theorem c13_window_counterexample_leave (m : WriteMode) :
    (Cut.after 1, Disk.clean [0, 1, 2] ⟨.complete 2, some 2⟩ (.whole 1) (.whole 1)) ∈ crashImages exDisk (evictionOps m 2) ∧
    (recover asIs (fun e => e == 1) (.clean [0, 1, 2] ⟨.complete 2, some 2⟩ (.whole 1) (.whole 1))).outcome = .ok 1 (.val 1) ∧
    Consistent (fun e => e == 1) (recover asIs (fun e => e == 1) (.clean [0, 1, 2] ⟨.complete 2, some 2⟩ (.whole 1) (.whole 1))) = false ∧
    (Cut.after 2, Disk.clean [0, 1, 2] ⟨.complete 2, some 2⟩ (.whole 1) .absent) ∈ crashImages exDisk (evictionOps m 2) ∧
    (recover asIs (fun e => e == 1) (.clean [0, 1, 2] ⟨.complete 2, some 2⟩ (.whole 1) .absent)).outcome = .shareMissing ∧
    Consistent (fun e => e == 1) (recover asIs (fun e => e == 1) (.clean [0, 1, 2] ⟨.complete 2, some 2⟩ (.whole 1) .absent)) = false := by
  cases m <;> decide

example : Consistent (fun e => e == 1) (recover asIs (fun e => e == 1) exDisk) = true ∧
    ∀ m, ∃ x ∈ crashImages exDisk (evictionOps m 2), goodEvictionCut m x.1 = true ∧ x.1 ≠ .after 0 :=
  ⟨by decide, fun m => ⟨(.after 3, .clean [0, 1, 2] ⟨.complete 2, some 2⟩ .absent .absent),
    by cases m <;> decide, by cases m <;> decide, by decide⟩⟩

/-! ### the corrected variant: reconcile the key files from the finished DKG record at load

DrandProofs/C13Reconcile.lean (imports this file): the start-up variant switch `Startup`, `reconcileOps` as the steps of the
real `reconcileKeyFiles`, the FULL statement for the reconciling start-up over every crash point of every persistence
sequence, a crash during the reconciliation itself included. -/

/-! ### resuming -/

/-- A self-consistent recovered node that is in the group of its completed epoch satisfies the preconditions of
`beacon.NewHandler` / `Catchup`: group and share loaded, own identity in the group, share of the same epoch. -/
theorem c13_resumes (member : Nat → Bool) (r : Recovered) (e : Nat)
    (hc : Consistent member r = true) (hf : r.fin = some e) (hm : member e = true) :
    Resumes member r = true := by
  unfold Consistent at hc
  rw [hf] at hc
  simp [hm] at hc
  simp [Resumes, hc.2, hm]

/-- … in particular after a completed DKG completion (either variant) -/
theorem c13_completion_resumes (m : WriteMode) (member : Nat → Bool) (d : Disk) (e : Nat)
    (hstart : Consistent member (recover asIs member d) = true)
    (hnew : ∀ p, d.db.finished = some p → p ≠ e) (hmem : member e = true) :
    Resumes member (recover asIs member (run d (completionOps m e))) = true := by
  cases m
  · have hin := crashImages_after d (completionOps .inPlace e) 6 (Nat.le_refl 6)
    have hc := c13_files_one_epoch_partial .inPlace member d e hstart hnew hmem _ hin rfl
    have : (completionOps .inPlace e).take 6 = completionOps .inPlace e := rfl
    rw [this] at hc
    apply c13_resumes member _ e hc _ hmem
    obtain ⟨chain, ⟨cur, fin⟩, g, s, gt, st⟩ := d
    simp [recover, asIs, run, completionOps, completionOpsIn, codeOrder, stageOps, storeDKGOutputOps, saveGroupOps,
      saveShareOps, saveOps, creatorOps, createSecureFileOps, apply, Disk.setFile]
  · have hin := crashImages_after d (completionOps .atomicRename e) 8 (Nat.le_refl 8)
    have hc := c13_files_one_epoch_partial .atomicRename member d e hstart hnew hmem _ hin rfl
    have : (completionOps .atomicRename e).take 8 = completionOps .atomicRename e := rfl
    rw [this] at hc
    apply c13_resumes member _ e hc _ hmem
    obtain ⟨chain, ⟨cur, fin⟩, g, s, gt, st⟩ := d
    simp [recover, asIs, run, completionOps, completionOpsIn, codeOrder, stageOps, storeDKGOutputOps, saveGroupOps,
      saveShareOps, saveOps, creatorOps, createSecureFileOps, File.tmp, apply, Disk.setFile, Disk.getFile]

example : ∀ m, Resumes exMember (recover asIs exMember (run exDisk (completionOps m 2))) = true := by
  intro m; cases m <;> decide

/-! ### steps that do not touch the completed state keep a self-consistent node self-consistent -/

theorem c13_staged_and_beacons_preserve (member : Nat → Bool) (d : Disk) (e : Nat) (st : String) (rounds : List Nat)
    (hstart : Consistent member (recover asIs member d) = true) :
    (∀ x ∈ crashImages d (stagedOps e st), Consistent member (recover asIs member x.2) = true) ∧
    (∀ x ∈ crashImages d (beaconOps rounds), Consistent member (recover asIs member x.2) = true) := by
  have key : ∀ d' : Disk, d'.db.finished = d.db.finished → d'.group = d.group → d'.share = d.share →
      Consistent member (recover asIs member d') = true := by
    intro d' h1 h2 h3
    have : Consistent member (recover asIs member d') = Consistent member (recover asIs member d) := by
      simp [Consistent, recover, asIs, startup, h1, h2, h3]
    rw [this, hstart]
  constructor
  · intro x hx
    obtain ⟨h1, h2, h3, -⟩ := c13_staged_keeps_finished d e st x hx
    exact key x.2 h1 h2 h3
  · intro x hx
    obtain ⟨k, -, -, h1, h2, h3⟩ := c13_chain_prefix d rounds x hx
    exact key x.2 (by rw [h1]) h2 h3

example : ∀ x ∈ crashImages exDisk (beaconOps [3, 4]), Consistent exMember (recover asIs exMember x.2) = true := by
  decide

end Drand.Persist
