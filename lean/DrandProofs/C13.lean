/-
C13 — a crash at any point leaves a restartable, self-consistent node.
Model: Drand/Persist/Crash.lean (disk, persistence steps, crash images, the loaders of the start-up path).
-/
import Drand.Persist.Crash

namespace Drand.Persist

/-! ### ties: the call orders the model is written against are the ones go2lean regenerated from the source -/

theorem tie_executeAndFinishDKG : Gen.executeAndFinishDKGPersist = executeAndFinishDKGCalls := rfl
theorem tie_onDKGCompleted :
    Gen.onDKGCompletedPersist = ["was:is:transitionToNext", "was:leaveNetwork", "is:joinNetwork"] := rfl
theorem tie_transitionToNext :
    Gen.transitionToNextPersist = ["validateGroupTransition", "storeDKGOutput", "beacon.TransitionNewGroup"] := rfl
theorem tie_joinNetwork :
    Gen.joinNetworkPersist = ["havegroup:validateGroupTransition", "storeDKGOutput", "StartBeacon"] := rfl
theorem tie_leaveNetwork : Gen.leaveNetworkPersist = leaveNetworkCalls := rfl
theorem tie_storeDKGOutput : Gen.storeDKGOutputPersist = storeDKGOutputCalls := rfl
theorem tie_saveGroup : Gen.fileStoreSaveGroupPersist = saveGroupCalls := rfl
theorem tie_saveShare : Gen.fileStoreSaveSharePersist = saveShareCalls := rfl
theorem tie_reset : Gen.fileStoreResetPersist = resetCalls ∧ Gen.keyDeletePersist = ["os.RemoveAll"] := ⟨rfl, rfl⟩
theorem tie_keySave : Gen.keySavePersist = keySaveCalls := rfl
theorem tie_createSecureFile : Gen.createSecureFilePersist = createSecureFileCalls := rfl
/-- both buckets are written inside ONE `db.Update` -/
theorem tie_dkgSaveFinished :
    Gen.dkgSaveFinishedPersist = ["Update", "tx:finishedBucket.Put", "tx:currentBucket.Put"] := rfl
theorem tie_dkgSaveCurrent :
    Gen.dkgSaveCurrentPersist = ["save:stagedStateBucket"] ∧ Gen.dkgSavePersist = ["Update", "tx:bucket.Put"] := ⟨rfl, rfl⟩
/-- a beacon is one `db.Update` with one `Put` under the key of its own round -/
theorem tie_chainPut :
    Gen.trimmedPutPersist = ["Update", "tx:bucket.Put:chain.RoundToBytes(beacon.Round):beacon.Signature"] ∧
    Gen.boltPutPersist = ["Update", "tx:bucket.Put:chain.RoundToBytes(beacon.Round)"] := ⟨rfl, rfl⟩
theorem tie_callbackStorePut : Gen.callbackStorePutPersist = callbackStorePutCalls := rfl
theorem tie_bpLoad : Gen.bpLoadPersist = bpLoadCalls := rfl
theorem tie_loadBeaconFromStore : Gen.loadBeaconFromStorePersist = loadBeaconFromStoreCalls := rfl
theorem tie_newHandler : Gen.newHandlerPersist = ["group.Find", "GenesisBeacon", "store.Put", "newChainStore"] := rfl
/-- every bbolt file is opened with default options (fsync on commit) and nothing switches syncing off -/
theorem tie_boltOpen : Gen.boltOpenOptions = ["nil", "nil", "nil"] ∧ Gen.boltNoSyncAssignments = 0 := ⟨rfl, rfl⟩

/-! ### the enumeration `crashImages` really contains every crash point -/

private theorem aux_after (d : Disk) (j : Nat) (ops : List Op) (k : Nat) (h : k ≤ ops.length) :
    (Cut.after (j + k), run d (ops.take k)) ∈ crashImagesAux d j ops := by
  induction ops generalizing d j k with
  | nil =>
    have : k = 0 := by simpa using h
    subst this
    simp [crashImagesAux, run]
  | cons op rest ih =>
    cases k with
    | zero => simp [crashImagesAux, run]
    | succ k =>
      have := ih (apply d op) (j + 1) k (by simpa using h)
      simp only [crashImagesAux, List.mem_append, List.take_succ_cons, run, List.foldl_cons]
      right
      have e : j + (k + 1) = j + 1 + k := by omega
      rw [e]
      exact this

private theorem aux_during (d : Disk) (j : Nat) (ops : List Op) (k : Nat) (f : File) (e : Nat) (c : TornClass)
    (h : ops[k]? = some (.write f e)) :
    (Cut.during (j + k) c, (run d (ops.take k)).setFile f (.torn e c)) ∈ crashImagesAux d j ops := by
  induction ops generalizing d j k with
  | nil => simp at h
  | cons op rest ih =>
    cases k with
    | zero =>
      simp only [List.getElem?_cons_zero, Option.some.injEq] at h
      subst h
      simp only [crashImagesAux, List.mem_append, List.mem_cons, List.take_zero, run, List.foldl_nil, Nat.add_zero]
      left; right
      cases c <;> simp [allClasses]
    | succ k =>
      have := ih (apply d op) (j + 1) k (by simpa using h)
      simp only [crashImagesAux, List.mem_append, List.take_succ_cons, run, List.foldl_cons]
      right
      have e' : j + (k + 1) = j + 1 + k := by omega
      rw [e']
      exact this

/-- every prefix of the step sequence is a crash image … -/
theorem crashImages_after (d : Disk) (ops : List Op) (k : Nat) (h : k ≤ ops.length) :
    (Cut.after k, run d (ops.take k)) ∈ crashImages d ops := by
  simpa [crashImages] using aux_after d 0 ops k h

/-- … and so is, for a file write in flight, the file holding a torn prefix of any class -/
theorem crashImages_during (d : Disk) (ops : List Op) (k : Nat) (f : File) (e : Nat) (c : TornClass)
    (h : ops[k]? = some (.write f e)) :
    (Cut.during k c, (run d (ops.take k)).setFile f (.torn e c)) ∈ crashImages d ops := by
  simpa [crashImages] using aux_during d 0 ops k f e c h

example : (Cut.during 2 .bad, (⟨[], ⟨.complete 1, some 1⟩, .torn 1 .bad, .absent⟩ : Disk)) ∈
    crashImages ⟨[], ⟨.fresh, none⟩, .absent, .absent⟩ (completionOps 1) := by decide


/-! ### chain store -/

private theorem beacon_aux (d : Disk) (j : Nat) (rounds : List Nat) :
    ∀ x ∈ crashImagesAux d j (beaconOps rounds), ∃ k, k ≤ rounds.length ∧
      x.2.chain = d.chain ++ rounds.take k ∧ x.2.db = d.db ∧ x.2.group = d.group ∧ x.2.share = d.share := by
  induction rounds generalizing d j with
  | nil =>
    intro x hx
    simp [beaconOps, crashImagesAux] at hx
    subst hx
    exact ⟨0, by simp⟩
  | cons r rs ih =>
    intro x hx
    simp only [beaconOps, List.flatMap_cons, List.cons_append, List.nil_append, crashImagesAux, List.mem_cons] at hx
    rcases hx with hx | hx | hx
    · subst hx; exact ⟨0, by simp⟩
    · subst hx; exact ⟨1, by simp [apply]⟩
    · have := ih (apply (apply d (.boltPut r)) (.serve r)) (j + 1 + 1) x (by simpa [beaconOps] using hx)
      obtain ⟨k, hk, h1, h2, h3, h4⟩ := this
      refine ⟨k + 1, by simpa using hk, ?_, ?_, ?_, ?_⟩
      · simp [h1, apply]
      · simp [h2, apply]
      · simp [h3, apply]
      · simp [h4, apply]

/-- Whatever the crash point while beacons are stored, the recovered chain store is the old store plus a prefix of
the Put sequence, and nothing else on disk changed. -/
theorem c13_chain_prefix (d : Disk) (rounds : List Nat) :
    ∀ x ∈ crashImages d (beaconOps rounds), ∃ k, k ≤ rounds.length ∧
      x.2.chain = d.chain ++ rounds.take k ∧ x.2.db = d.db ∧ x.2.group = d.group ∧ x.2.share = d.share :=
  beacon_aux d 0 rounds

/-- … hence a gap-free store that is extended by consecutive rounds (what `appendStore` enforces, C02) is gap-free
in every crash image. -/
theorem c13_chain_gapfree (d : Disk) (n : Nat) (hd : GapFree d.chain) :
    ∀ x ∈ crashImages d (beaconOps (List.range' d.chain.length n)), GapFree x.2.chain := by
  intro x hx
  obtain ⟨k, hk, h1, -⟩ := c13_chain_prefix d _ x hx
  have hk' : k ≤ n := by simpa using hk
  unfold GapFree at *
  rw [h1]
  have ht : List.take k (List.range' d.chain.length n) = List.range' d.chain.length k := by
    exact List.take_range'_of_length_ge hk'
  rw [ht, List.length_append, List.length_range']
  generalize d.chain.length = m at *
  rw [hd, List.range_eq_range', List.range_eq_range']
  have := List.range'_append_1 (s := 0) (m := m) (n := k)
  simpa using this

/-- Every round that was handed to the callbacks / streams before the crash is in the recovered store
(`callbackStore.Put` dispatches only after the base store's Put returned). -/
theorem c13_served_stored (d : Disk) (rounds : List Nat) (k : Nat) :
    ∀ r ∈ served ((beaconOps rounds).take k), r ∈ (run d ((beaconOps rounds).take k)).chain := by
  induction rounds generalizing d k with
  | nil => simp [beaconOps, served]
  | cons a rs ih =>
    intro r hr
    match k with
    | 0 => simp [served] at hr
    | 1 => simp [beaconOps, served] at hr
    | k + 2 =>
      simp only [beaconOps, List.flatMap_cons, List.cons_append, List.nil_append, List.take_succ_cons, served,
        List.filterMap_cons, List.mem_cons] at hr
      simp only [beaconOps, List.flatMap_cons, List.cons_append, List.nil_append, List.take_succ_cons, run,
        List.foldl_cons]
      have mono : ∀ (ops : List Op) (d : Disk) (x : Nat), x ∈ d.chain → x ∈ (ops.foldl apply d).chain := by
        intro ops
        induction ops with
        | nil => intro d x h; simpa using h
        | cons o os ih2 =>
          intro d x h
          apply ih2
          cases o with
          | boltPut r => simp [apply, h]
          | serve r => simpa [apply] using h
          | saveCurrent e st => simpa [apply] using h
          | saveFinished e => simpa [apply] using h
          | create f => cases f <;> simpa [apply, Disk.setFile] using h
          | chmod f => simpa [apply] using h
          | write f e => cases f <;> simpa [apply, Disk.setFile] using h
          | remove f => cases f <;> simpa [apply, Disk.setFile] using h
      rcases hr with hr | hr
      · subst hr
        apply mono
        simp [apply]
      · exact ih (apply (apply d (.boltPut a)) (.serve a)) k r (by simpa [beaconOps, served] using hr)

example : GapFree (run ⟨[0, 1], ⟨.fresh, none⟩, .absent, .absent⟩ ((beaconOps [2, 3, 4]).take 3)).chain := by decide


/-! ### key-generation database -/

/-- Whatever the crash point of a DKG completion (member or evicted), dkg.db holds either exactly the old pair of
records or exactly the new pair (finished epoch `e` together with the staged record of the same epoch):
one whole epoch, never a mixture. -/
theorem c13_dkgdb_whole (d : Disk) (e : Nat) :
    (∀ x ∈ crashImages d (completionOps e), x.2.db = d.db ∨ x.2.db = ⟨.complete e, some e⟩) ∧
    (∀ x ∈ crashImages d (evictionOps e), x.2.db = d.db ∨ x.2.db = ⟨.complete e, some e⟩) := by
  constructor
  · intro x hx
    simp [crashImages, crashImagesAux, completionOps, completionOpsIn, codeOrder, stageOps,
      storeDKGOutputOps, saveGroupOps, saveShareOps, saveOps, createSecureFileOps, allClasses, apply,
      Disk.setFile] at hx
    rcases hx with hx | hx | hx | hx | hx | hx | hx | hx | hx | hx | hx | hx | hx | hx | hx <;> subst hx <;> simp
  · intro x hx
    simp [crashImages, crashImagesAux, evictionOps, evictionOpsIn, codeOrder, stageOps, resetOps, apply,
      Disk.setFile] at hx
    rcases hx with hx | hx | hx | hx <;> subst hx <;> simp

/-- A step that only stages a DKG state (proposal, acceptance, execution start, failure, leaving) never touches the
completed record, the key files or the chain. -/
theorem c13_staged_keeps_finished (d : Disk) (e : Nat) (st : String) :
    ∀ x ∈ crashImages d (stagedOps e st), x.2.db.finished = d.db.finished ∧ x.2.group = d.group ∧
      x.2.share = d.share ∧ x.2.chain = d.chain ∧ (x.2.db.current = d.db.current ∨ x.2.db.current = .staged e st) := by
  intro x hx
  simp [crashImages, crashImagesAux, stagedOps, apply] at hx
  rcases hx with hx | hx <;> subst hx <;> simp


/-! ### key files -/

@[simp] private theorem lf_absent : loadFile .absent = .missing := rfl
@[simp] private theorem lf_trunc : loadFile .trunc = .err := rfl
@[simp] private theorem lf_whole (e : Nat) : loadFile (.whole e) = .val e := rfl
@[simp] private theorem lf_bad (e : Nat) : loadFile (.torn e .bad) = .err := rfl
@[simp] private theorem lf_panics (e : Nat) : loadFile (.torn e .panics) = .panics := rfl
@[simp] private theorem lf_same (e : Nat) : loadFile (.torn e .same) = .val e := rfl
@[simp] private theorem lf_accepted (e : Nat) : loadFile (.torn e .accepted) = .truncated e := rfl

/-- the three shapes of a self-consistent disk: fresh install, member of the last completed epoch, not a member -/
private theorem start_shapes (member : Nat → Bool) (d : Disk)
    (h : Consistent member (recover asIs member d) = true) :
    (d.db.finished = none ∧ loadFile d.group = .missing ∧ loadFile d.share = .missing) ∨
    (∃ p, d.db.finished = some p ∧ member p = true ∧ loadFile d.group = .val p ∧ loadFile d.share = .val p) ∨
    (∃ p, d.db.finished = some p ∧ member p = false ∧ loadFile d.group = .missing ∧ loadFile d.share = .missing) := by
  obtain ⟨chain, ⟨cur, fin⟩, g, s⟩ := d
  cases fin with
  | none =>
    left
    simp [Consistent, recover, asIs] at h
    simp [h.1.1, h.1.2]
  | some p =>
    right
    cases hm : member p with
    | true =>
      left
      simp [Consistent, recover, asIs, hm] at h
      exact ⟨p, rfl, hm, h.1.1, h.1.2⟩
    | false =>
      right
      simp [Consistent, recover, asIs, hm] at h
      exact ⟨p, rfl, hm, h.1, h.2⟩

/-- the crash points of a completion at which the as-is code leaves a self-consistent disk: before anything was
written, after everything was written, and while the share file is being written if the prefix already decodes
to the whole share -/
def goodCompletionCut : Cut → Bool
  | .after 0 => true
  | .after 6 => true
  | .during 5 .same => true
  | _ => false

/-
FULL STATEMENT (C13, key files), NOT provable for the code as it is:

  theorem c13_files_one_epoch (member d e) (hstart : Consistent member (recover asIs member d)) … :
      ∀ x ∈ crashImages d (completionOps e), Consistent member (recover asIs member x.2) = true

The extracted order is  SaveFinished ; os.Create(group) ; Encode(group) ; os.Create(share) ; chmod ; Encode(share)
with nothing at start-up that reconciles the key files with the finished DKG record, so the statement fails at
every crash point strictly inside the completion. Proved instead:
  * `c13_files_one_epoch_exact`   — for EVERY crash point: consistent ⇔ `goodCompletionCut` (so the partial theorem
                                    below is sharp and every other cut is a counterexample),
  * `c13_files_one_epoch_partial` — the good cuts,
  * `c13_window_counterexample_*` — concrete witnesses, replayed on real directories by the harness,
  * `c13_files_one_epoch_fixed`   — the full statement for the corrected variant (reconcile at load).
-/

/-- For every crash point of a DKG completion started from a self-consistent disk, on a node that is in the new
group: the recovered node is self-consistent exactly at the good cuts. -/
theorem c13_files_one_epoch_exact (member : Nat → Bool) (d : Disk) (e : Nat)
    (hstart : Consistent member (recover asIs member d) = true)
    (hnew : ∀ p, d.db.finished = some p → p ≠ e) (hmem : member e = true) :
    ∀ x ∈ crashImages d (completionOps e),
      Consistent member (recover asIs member x.2) = goodCompletionCut x.1 := by
  have shapes := start_shapes member d hstart
  obtain ⟨chain, ⟨cur, fin⟩, g, s⟩ := d
  intro x hx
  simp [crashImages, crashImagesAux, completionOps, completionOpsIn, codeOrder, stageOps,
    storeDKGOutputOps, saveGroupOps, saveShareOps, saveOps, createSecureFileOps, allClasses, apply,
    Disk.setFile] at hx
  rcases shapes with ⟨hf, hg, hs⟩ | ⟨p, hf, hp, hg, hs⟩ | ⟨p, hf, hp, hg, hs⟩
  · simp only at hf hg hs
    subst hf
    rcases hx with hx | hx | hx | hx | hx | hx | hx | hx | hx | hx | hx | hx | hx | hx | hx <;> subst hx <;>
      simp [Consistent, recover, asIs, startup, startupOutcome, bpLoadL, goodCompletionCut, hg, hs, hmem]
  · simp only at hf hg hs
    subst hf
    have hne : p ≠ e := hnew p rfl
    rcases hx with hx | hx | hx | hx | hx | hx | hx | hx | hx | hx | hx | hx | hx | hx | hx <;> subst hx <;>
      simp [Consistent, recover, asIs, startup, startupOutcome, bpLoadL, goodCompletionCut, hg, hs, hmem, hp, hne]
  · simp only at hf hg hs
    subst hf
    rcases hx with hx | hx | hx | hx | hx | hx | hx | hx | hx | hx | hx | hx | hx | hx | hx <;> subst hx <;>
      simp [Consistent, recover, asIs, startup, startupOutcome, bpLoadL, goodCompletionCut, hg, hs, hmem, hp]


/-- The part of the full statement that holds for the code as it is: at the good cuts the key files belong to one
epoch, the latest epoch dkg.db records as completed, and the start-up path loads exactly them. -/
theorem c13_files_one_epoch_partial (member : Nat → Bool) (d : Disk) (e : Nat)
    (hstart : Consistent member (recover asIs member d) = true)
    (hnew : ∀ p, d.db.finished = some p → p ≠ e) (hmem : member e = true) :
    ∀ x ∈ crashImages d (completionOps e), goodCompletionCut x.1 = true →
      Consistent member (recover asIs member x.2) = true := by
  intro x hx hg
  rw [c13_files_one_epoch_exact member d e hstart hnew hmem x hx, hg]

/-- a node with completed epoch 1 (member), resharing into epoch 2 (member) -/
def exDisk : Disk := ⟨[0, 1, 2], ⟨.complete 1, some 1⟩, .whole 1, .whole 1⟩
def exMember : Nat → Bool := fun _ => true

example : Consistent exMember (recover asIs exMember exDisk) = true := by decide
example : ∃ x ∈ crashImages exDisk (completionOps 2), goodCompletionCut x.1 = true ∧ x.1 ≠ .after 0 :=
  ⟨(.after 6, ⟨[0, 1, 2], ⟨.complete 2, some 2⟩, .whole 2, .whole 2⟩), by decide, by decide, by decide⟩

/-- crash after SaveFinished, before the group file is touched: dkg.db says epoch 2, both key files are epoch 1;
the restarted node runs with the OLD group and share although the network moved on. -/
theorem c13_window_counterexample_db_ahead :
    (Cut.after 1, (⟨[0, 1, 2], ⟨.complete 2, some 2⟩, .whole 1, .whole 1⟩ : Disk)) ∈ crashImages exDisk (completionOps 2) ∧
    recover asIs exMember ⟨[0, 1, 2], ⟨.complete 2, some 2⟩, .whole 1, .whole 1⟩ =
      ⟨some 2, .complete 2, .val 1, .val 1, .ok 1 (.val 1), [0, 1, 2]⟩ ∧
    Consistent exMember (recover asIs exMember ⟨[0, 1, 2], ⟨.complete 2, some 2⟩, .whole 1, .whole 1⟩) = false := by
  decide

/-- the same window on a node's FIRST DKG: dkg.db says epoch 1, no key files: `Load` answers ErrDKGNotStarted and the
daemon refuses to start -/
theorem c13_window_counterexample_first_dkg :
    (Cut.after 1, (⟨[], ⟨.complete 1, some 1⟩, .absent, .absent⟩ : Disk)) ∈
      crashImages ⟨[], ⟨.staged 1 "Executing", none⟩, .absent, .absent⟩ (completionOps 1) ∧
    (recover asIs exMember ⟨[], ⟨.complete 1, some 1⟩, .absent, .absent⟩).outcome = .notStarted ∧
    Consistent exMember (recover asIs exMember ⟨[], ⟨.complete 1, some 1⟩, .absent, .absent⟩) = false := by
  decide

/-- crash while the group file is written (created/truncated, or any torn prefix): the file does not decode, `Load`
answers ErrDKGNotStarted (bad prefix / empty file) or panics (decoder panic, or a truncated group without its
distributed key is accepted by the decoder and dereferenced) -/
theorem c13_window_counterexample_torn_group :
    (∀ c, (Cut.during 2 c, (⟨[0, 1, 2], ⟨.complete 2, some 2⟩, .torn 2 c, .whole 1⟩ : Disk)) ∈
      crashImages exDisk (completionOps 2)) ∧
    (Cut.after 2, (⟨[0, 1, 2], ⟨.complete 2, some 2⟩, .trunc, .whole 1⟩ : Disk)) ∈ crashImages exDisk (completionOps 2) ∧
    (recover asIs exMember ⟨[0, 1, 2], ⟨.complete 2, some 2⟩, .trunc, .whole 1⟩).outcome = .notStarted ∧
    (recover asIs exMember ⟨[0, 1, 2], ⟨.complete 2, some 2⟩, .torn 2 .bad, .whole 1⟩).outcome = .notStarted ∧
    (recover asIs exMember ⟨[0, 1, 2], ⟨.complete 2, some 2⟩, .torn 2 .panics, .whole 1⟩).outcome = .panicked ∧
    (recover asIs exMember ⟨[0, 1, 2], ⟨.complete 2, some 2⟩, .torn 2 .accepted, .whole 1⟩).outcome = .panicked ∧
    (∀ c, Consistent exMember (recover asIs exMember ⟨[0, 1, 2], ⟨.complete 2, some 2⟩, .torn 2 c, .whole 1⟩) = false) := by
  refine ⟨?_, by decide, by decide, by decide, by decide, by decide, ?_⟩ <;> intro c <;> cases c <;> decide

/-- crash after the group file is complete, before the share file is touched: group of epoch 2 with the share of
epoch 1 — `Load` succeeds and the beacon starts with a share that does not belong to the group -/
theorem c13_window_counterexample_group_ahead_of_share :
    (Cut.after 3, (⟨[0, 1, 2], ⟨.complete 2, some 2⟩, .whole 2, .whole 1⟩ : Disk)) ∈ crashImages exDisk (completionOps 2) ∧
    (recover asIs exMember ⟨[0, 1, 2], ⟨.complete 2, some 2⟩, .whole 2, .whole 1⟩).outcome = .ok 2 (.val 1) ∧
    Resumes exMember (recover asIs exMember ⟨[0, 1, 2], ⟨.complete 2, some 2⟩, .whole 2, .whole 1⟩) = false ∧
    Consistent exMember (recover asIs exMember ⟨[0, 1, 2], ⟨.complete 2, some 2⟩, .whole 2, .whole 1⟩) = false := by
  decide

/-- crash while the share file is written: empty or undecodable share (`Load` fails), or a truncated share that the
decoder accepts (no commitments) and the beacon starts with -/
theorem c13_window_counterexample_torn_share :
    (Cut.after 4, (⟨[0, 1, 2], ⟨.complete 2, some 2⟩, .whole 2, .trunc⟩ : Disk)) ∈ crashImages exDisk (completionOps 2) ∧
    (recover asIs exMember ⟨[0, 1, 2], ⟨.complete 2, some 2⟩, .whole 2, .trunc⟩).outcome = .decodeErr ∧
    (Cut.during 5 .accepted, (⟨[0, 1, 2], ⟨.complete 2, some 2⟩, .whole 2, .torn 2 .accepted⟩ : Disk)) ∈
      crashImages exDisk (completionOps 2) ∧
    (recover asIs exMember ⟨[0, 1, 2], ⟨.complete 2, some 2⟩, .whole 2, .torn 2 .accepted⟩).outcome = .ok 2 (.truncated 2) ∧
    Consistent exMember (recover asIs exMember ⟨[0, 1, 2], ⟨.complete 2, some 2⟩, .whole 2, .torn 2 .accepted⟩) = false := by
  decide

/-! ### a node that ran the protocol but is not in the new group (`leaveNetwork`) -/

def goodEvictionCut : Cut → Bool
  | .after 0 => true
  | .after 3 => true
  | _ => false

/-- For every crash point of a completion on a node that is NOT in the new group: self-consistent exactly before
anything was written and after both key files were removed. -/
theorem c13_eviction_exact (member : Nat → Bool) (d : Disk) (e : Nat)
    (hstart : Consistent member (recover asIs member d) = true)
    (hold : ∃ p, d.db.finished = some p ∧ member p = true ∧ p ≠ e) (hmem : member e = false) :
    ∀ x ∈ crashImages d (evictionOps e),
      Consistent member (recover asIs member x.2) = goodEvictionCut x.1 := by
  have shapes := start_shapes member d hstart
  obtain ⟨chain, ⟨cur, fin⟩, g, s⟩ := d
  obtain ⟨p, hf, hp, hne⟩ := hold
  simp only at hf
  subst hf
  intro x hx
  simp [crashImages, crashImagesAux, evictionOps, evictionOpsIn, codeOrder, stageOps, resetOps, apply,
    Disk.setFile] at hx
  rcases shapes with ⟨hf, -⟩ | ⟨q, hf, hq, hg, hs⟩ | ⟨q, hf, hq, -⟩
  · simp at hf
  · simp only [Option.some.injEq] at hf hg hs
    subst hf
    rcases hx with hx | hx | hx | hx <;> subst hx <;>
      simp [Consistent, recover, asIs, startup, startupOutcome, bpLoadL, goodEvictionCut, hg, hs, hmem, hp]
  · simp only [Option.some.injEq] at hf
    subst hf
    rw [hp] at hq
    cases hq

theorem c13_eviction_partial (member : Nat → Bool) (d : Disk) (e : Nat)
    (hstart : Consistent member (recover asIs member d) = true)
    (hold : ∃ p, d.db.finished = some p ∧ member p = true ∧ p ≠ e) (hmem : member e = false) :
    ∀ x ∈ crashImages d (evictionOps e), goodEvictionCut x.1 = true →
      Consistent member (recover asIs member x.2) = true := by
  intro x hx hg
  rw [c13_eviction_exact member d e hstart hold hmem x hx, hg]

/-- leaving: after SaveFinished the database says epoch 2 (without this node) while both epoch-1 key files are still
there and load; after the share was removed the group file is left without a share -/
theorem c13_window_counterexample_leave :
    (Cut.after 1, (⟨[0, 1, 2], ⟨.complete 2, some 2⟩, .whole 1, .whole 1⟩ : Disk)) ∈ crashImages exDisk (evictionOps 2) ∧
    (recover asIs (fun e => e == 1) ⟨[0, 1, 2], ⟨.complete 2, some 2⟩, .whole 1, .whole 1⟩).outcome = .ok 1 (.val 1) ∧
    Consistent (fun e => e == 1) (recover asIs (fun e => e == 1) ⟨[0, 1, 2], ⟨.complete 2, some 2⟩, .whole 1, .whole 1⟩) = false ∧
    (Cut.after 2, (⟨[0, 1, 2], ⟨.complete 2, some 2⟩, .whole 1, .absent⟩ : Disk)) ∈ crashImages exDisk (evictionOps 2) ∧
    (recover asIs (fun e => e == 1) ⟨[0, 1, 2], ⟨.complete 2, some 2⟩, .whole 1, .absent⟩).outcome = .shareMissing ∧
    Consistent (fun e => e == 1) (recover asIs (fun e => e == 1) ⟨[0, 1, 2], ⟨.complete 2, some 2⟩, .whole 1, .absent⟩) = false := by
  decide

example : Consistent (fun e => e == 1) (recover asIs (fun e => e == 1) exDisk) = true ∧
    ∃ x ∈ crashImages exDisk (evictionOps 2), goodEvictionCut x.1 = true ∧ x.1 ≠ .after 0 :=
  ⟨by decide, (.after 3, ⟨[0, 1, 2], ⟨.complete 2, some 2⟩, .absent, .absent⟩), by decide, by decide, by decide⟩

/-! ### the corrected variant: reconcile the key files from the finished DKG record at load -/

/-- FULL STATEMENT for the corrected variant. With reconciliation at load every crash point of a completion — member
or not, torn files included — recovers self-consistently: atomicity of the one bbolt transaction is all it needs. -/
theorem c13_files_one_epoch_fixed (member : Nat → Bool) (d : Disk) (e : Nat)
    (hstart : Consistent member (recover asIs member d) = true) :
    (∀ x ∈ crashImages d (completionOps e), Consistent member (recover fixed member x.2) = true) ∧
    (∀ x ∈ crashImages d (evictionOps e), Consistent member (recover fixed member x.2) = true) := by
  have shapes := start_shapes member d hstart
  clear hstart
  obtain ⟨chain, ⟨cur, fin⟩, g, s⟩ := d
  constructor
  · intro x hx
    simp [crashImages, crashImagesAux, completionOps, completionOpsIn, codeOrder, stageOps,
      storeDKGOutputOps, saveGroupOps, saveShareOps, saveOps, createSecureFileOps, allClasses, apply,
      Disk.setFile] at hx
    rcases shapes with ⟨hf, hg, hs⟩ | ⟨p, hf, hp, hg, hs⟩ | ⟨p, hf, hp, hg, hs⟩ <;> simp only at hf hg hs <;> subst hf <;>
      cases hm : member e <;>
      rcases hx with hx | hx | hx | hx | hx | hx | hx | hx | hx | hx | hx | hx | hx | hx | hx <;> subst hx <;>
      simp [Consistent, recover, fixed, reconcileFiles, startup, startupOutcome, bpLoadL, *]
  · intro x hx
    simp [crashImages, crashImagesAux, evictionOps, evictionOpsIn, codeOrder, stageOps, resetOps, apply,
      Disk.setFile] at hx
    rcases shapes with ⟨hf, hg, hs⟩ | ⟨p, hf, hp, hg, hs⟩ | ⟨p, hf, hp, hg, hs⟩ <;> simp only at hf hg hs <;> subst hf <;>
      cases hm : member e <;>
      rcases hx with hx | hx | hx | hx <;> subst hx <;>
      simp [Consistent, recover, fixed, reconcileFiles, startup, startupOutcome, bpLoadL, *]

example : ∀ x ∈ crashImages exDisk (completionOps 2), Consistent exMember (recover fixed exMember x.2) = true := by
  decide

/-! ### resuming -/

/-- A self-consistent recovered node that is in the group of its completed epoch satisfies the preconditions of
`beacon.NewHandler` / `Catchup`: group and share loaded, own identity in the group, share of the same epoch. -/
theorem c13_resumes (member : Nat → Bool) (r : Recovered) (e : Nat)
    (hc : Consistent member r = true) (hf : r.fin = some e) (hm : member e = true) :
    Resumes member r = true := by
  unfold Consistent at hc
  rw [hf] at hc
  simp [hm] at hc
  simp [Resumes, hc.2, hm]

/-- … in particular after a completed DKG completion, and at its first crash point if the node was a member before -/
theorem c13_completion_resumes (member : Nat → Bool) (d : Disk) (e : Nat)
    (hstart : Consistent member (recover asIs member d) = true)
    (hnew : ∀ p, d.db.finished = some p → p ≠ e) (hmem : member e = true) :
    Resumes member (recover asIs member (run d (completionOps e))) = true := by
  have hin := crashImages_after d (completionOps e) 6 (Nat.le_refl 6)
  have hc := c13_files_one_epoch_partial member d e hstart hnew hmem _ hin rfl
  have : (completionOps e).take 6 = completionOps e := rfl
  rw [this] at hc
  apply c13_resumes member _ e hc _ hmem
  obtain ⟨chain, ⟨cur, fin⟩, g, s⟩ := d
  simp [recover, asIs, run, completionOps, completionOpsIn, codeOrder, stageOps, storeDKGOutputOps, saveGroupOps,
    saveShareOps, saveOps, createSecureFileOps, apply, Disk.setFile]

example : Resumes exMember (recover asIs exMember (run exDisk (completionOps 2))) = true := by decide

/-! ### steps that do not touch the completed state keep a self-consistent node self-consistent -/

theorem c13_staged_and_beacons_preserve (member : Nat → Bool) (d : Disk) (e : Nat) (st : String) (rounds : List Nat)
    (hstart : Consistent member (recover asIs member d) = true) :
    (∀ x ∈ crashImages d (stagedOps e st), Consistent member (recover asIs member x.2) = true) ∧
    (∀ x ∈ crashImages d (beaconOps rounds), Consistent member (recover asIs member x.2) = true) := by
  have key : ∀ d' : Disk, d'.db.finished = d.db.finished → d'.group = d.group → d'.share = d.share →
      Consistent member (recover asIs member d') = true := by
    intro d' h1 h2 h3
    have : Consistent member (recover asIs member d') = Consistent member (recover asIs member d) := by
      simp [Consistent, recover, asIs, startup, h1, h2, h3]
    rw [this, hstart]
  constructor
  · intro x hx
    obtain ⟨h1, h2, h3, -⟩ := c13_staged_keeps_finished d e st x hx
    exact key x.2 h1 h2 h3
  · intro x hx
    obtain ⟨k, -, -, h1, h2, h3⟩ := c13_chain_prefix d rounds x hx
    exact key x.2 (by rw [h1]) h2 h3

example : ∀ x ∈ crashImages exDisk (beaconOps [3, 4]), Consistent exMember (recover asIs exMember x.2) = true := by
  decide

end Drand.Persist
