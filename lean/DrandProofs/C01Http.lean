/-
C01 for the public HTTP interface: "a successful answer to a request for round r contains the beacon of round r and
nothing else … whatever partial signatures, sync streams or requests other parties send" — for the waiter / watch
logic of handler/http/server.go (model: Drand/Http/Waiters.lean; structural invariant: DrandProofs/C14Http.lean).

The watch stream and the client's answers are universally quantified (they are event parameters); all statements are
for EVERY finite event list (induction over the run, no bound).

As the code is written the full statement does NOT hold (two genuine defects, both replayed on the real handler by
the harness engine `httpw`, corpus/C01/http_*.json):
  (1) `c01_http_empty200_counterexample` — the watcher sees an unexpected round: it hands `[]byte{}` to the parked
      waiters; `getRand` returns it with a nil error; `PublicRand` serves `200` with an EMPTY body
      (Cache-Control: public, max-age=604800, immutable);
  (2) `c01_http_wrong_round_counterexample` — the stream fails while a waiter is parked for round L+1: `latestRound = 0`
      switches the unexpected-round test off but the waiter stays registered; after the re-subscription the first
      delivered round n, whatever it is, is handed to it: `200` for /public/(L+1) with the beacon of round n.
Variant switch `Cfg` (DESIGN §2.5): the full theorems are proved for `Cfg.fixed` (reports/http_fix_1.diff), the
`_partial` theorems for `Cfg.asIs` under the hypothesis the proof forced (`QuietFail`: no stream failure is processed
while a waiter is registered), the `_counterexample` theorems exhibit the witnesses.
-/
import DrandProofs.C14Http
import DrandProofs.C01

namespace Drand.Http

/-! ## hypotheses about a run, stated per step -/

/-- `P` holds at every step of the run of `evs` from `s` -/
def Along (P : State → Ev → Prop) (cfg : Cfg) : State → List Ev → Prop
  | _, [] => True
  | s, e :: es => P s e ∧ Along P cfg (step cfg s e) es

/-- the stream-failure reset (`Lock; latestRound = 0; Unlock`) is never executed while a waiter is registered -/
def QuietFail (s : State) (e : Ev) : Prop :=
  e = .wLock → s.wpc = .gotClosed → s.holder = .free → s.pending = []

/-- the client answers `Get(ctx, r)` with a beacon of round r (for the node's own client this is `c01_exact_round`) -/
def GetExact (s : State) (e : Ev) : Prop :=
  ∀ id b, e = .getAns id (some b) → (s.reqs id).pc = .getCall → b.round = (s.reqs id).round

/-! ## the round invariant -/

/-- `ex`: the run is assumed `GetExact` (then the round equations also cover results produced by `client.Get`) -/
structure RInv (cfg : Cfg) (ex : Bool) (s : State) : Prop where
  guardOK : s.latest ≠ 0 → ∀ id ∈ s.pending, blockGuard s.latest (s.reqs id).round = true
  pendLatest : s.pending ≠ [] → s.latest ≠ 0
  localOK : ∀ id ∈ s.wlocal, ∀ b, s.wb = .json b → b.round = (s.reqs id).round
  bufRound : ∀ id b, (s.chans id).buf = some (.json b) → b.round = (s.reqs id).round
  resRound : ∀ id b, (s.reqs id).pc = .closing (.data (.json b)) → (ex = true ∨ (s.reqs id).fromGet = false) → b.round = (s.reqs id).round
  doneRound : ∀ id b st, (s.reqs id).pc = .done ⟨st, some b⟩ → (ex = true ∨ (s.reqs id).fromGet = false) → b.round = (s.reqs id).round
  noEmpty : cfg.emptyFallsBack = true → ∀ id p, (s.reqs id).pc = .closing (.data p) → p.isEmpty = false
  noEmptyDone : cfg.emptyFallsBack = true → ∀ id, (s.reqs id).pc ≠ .done ⟨200, none⟩

theorem rinv_init (cfg : Cfg) (ex : Bool) : RInv cfg ex State.init := by
  constructor <;> simp [State.init]

/-- a step of request `id` that changes only its own record and channel -/
theorem rinv_local {cfg : Cfg} {ex : Bool} {s : State} (h : RInv cfg ex s) (id : Nat) (r' : Req) (c' : Chan)
    (hround : id ∈ s.pending ++ s.wlocal → r'.round = (s.reqs id).round)
    (hbuf : ∀ b, c'.buf = some (.json b) → b.round = r'.round)
    (hres : ∀ b, r'.pc = .closing (.data (.json b)) → (ex = true ∨ r'.fromGet = false) → b.round = r'.round)
    (hdone : ∀ b st, r'.pc = .done ⟨st, some b⟩ → (ex = true ∨ r'.fromGet = false) → b.round = r'.round)
    (hne : cfg.emptyFallsBack = true → ∀ p, r'.pc = .closing (.data p) → p.isEmpty = false)
    (hned : cfg.emptyFallsBack = true → r'.pc ≠ .done ⟨200, none⟩) :
    RInv cfg ex ((s.setChan id c').setReq id r') := by
  constructor
  · intro hl j hj
    have hl' : s.latest ≠ 0 := by simpa [State.setReq, State.setChan] using hl
    have hj' : j ∈ s.pending := by simpa [State.setReq, State.setChan] using hj
    by_cases e : j = id
    · subst e
      have := h.guardOK hl' j hj'
      simpa [State.setReq, State.setChan, hround (List.mem_append.mpr (Or.inl hj'))] using this
    · simpa [State.setReq, State.setChan, e] using h.guardOK hl' j hj'
  · simpa [State.setReq, State.setChan] using h.pendLatest
  · intro j hj b hb
    have hj' : j ∈ s.wlocal := by simpa [State.setReq, State.setChan] using hj
    have hb' : s.wb = .json b := by simpa [State.setReq, State.setChan] using hb
    by_cases e : j = id
    · subst e
      simpa [State.setReq, State.setChan, hround (List.mem_append.mpr (Or.inr hj'))] using h.localOK j hj' b hb'
    · simpa [State.setReq, State.setChan, e] using h.localOK j hj' b hb'
  · intro j b
    by_cases e : j = id
    · subst e; simpa [State.setReq, State.setChan] using hbuf b
    · simpa [State.setReq, State.setChan, e] using h.bufRound j b
  · intro j b
    by_cases e : j = id
    · subst e; simpa [State.setReq, State.setChan] using hres b
    · simpa [State.setReq, State.setChan, e] using h.resRound j b
  · intro j b st
    by_cases e : j = id
    · subst e; simpa [State.setReq, State.setChan] using hdone b st
    · simpa [State.setReq, State.setChan, e] using h.doneRound j b st
  · intro hc j p
    by_cases e : j = id
    · subst e; simpa [State.setReq, State.setChan] using hne hc p
    · simpa [State.setReq, State.setChan, e] using h.noEmpty hc j p
  · intro hc j
    by_cases e : j = id
    · subst e; simpa [State.setReq, State.setChan] using hned hc
    · simpa [State.setReq, State.setChan, e] using h.noEmptyDone hc j

theorem rinv_localReq {cfg : Cfg} {ex : Bool} {s : State} (h : RInv cfg ex s) (id : Nat) (r' : Req)
    (hround : r'.round = (s.reqs id).round)
    (hres : ∀ b, r'.pc = .closing (.data (.json b)) → (ex = true ∨ r'.fromGet = false) → b.round = r'.round)
    (hdone : ∀ b st, r'.pc = .done ⟨st, some b⟩ → (ex = true ∨ r'.fromGet = false) → b.round = r'.round)
    (hne : cfg.emptyFallsBack = true → ∀ p, r'.pc = .closing (.data p) → p.isEmpty = false)
    (hned : cfg.emptyFallsBack = true → r'.pc ≠ .done ⟨200, none⟩) :
    RInv cfg ex (s.setReq id r') := by
  have := rinv_local h id r' (s.chans id) (fun _ => hround) (fun b hb => by rw [hround]; exact h.bufRound id b hb)
    hres hdone hne hned
  rwa [setChan_self] at this

/-- the round invariant reads only `latest`, `pending`, `wlocal`, `wb`, the channels and the request records -/
theorem rinv_of_eq {cfg : Cfg} {ex : Bool} {s s' : State} (h : RInv cfg ex s) (h1 : s'.latest = s.latest) (h2 : s'.pending = s.pending)
    (h3 : s'.wlocal = s.wlocal) (h4 : s'.wb = s.wb) (h5 : s'.chans = s.chans) (h6 : s'.reqs = s.reqs) : RInv cfg ex s' := by
  constructor
  · rw [h1, h2, h6]; exact h.guardOK
  · rw [h1, h2]; exact h.pendLatest
  · rw [h3, h4, h6]; exact h.localOK
  · rw [h5, h6]; exact h.bufRound
  · rw [h6]; exact h.resRound
  · rw [h6]; exact h.doneRound
  · rw [h6]; exact h.noEmpty
  · rw [h6]; exact h.noEmptyDone

theorem rinv_startOnce {cfg : Cfg} {ex : Bool} {s : State} (hi : Inv s) (h : RInv cfg ex s) : RInv cfg ex (startOnce s) := by
  unfold startOnce
  split
  · exact h
  · rename_i hs
    have hp := (hi.pre (by simpa using hs)).2.1
    exact rinv_of_eq h rfl (by simp [hp]) rfl rfl rfl rfl

theorem publicRandAnswer_some {res : GRes} {st : Nat} {b : Beacon} (h : publicRandAnswer res = ⟨st, some b⟩) :
    res = .data (.json b) := by
  cases res with
  | nilnil => simp [publicRandAnswer] at h
  | err => simp [publicRandAnswer] at h
  | data p => cases p <;> simp_all [publicRandAnswer]

theorem publicRandAnswer_200_none {res : GRes} (h : publicRandAnswer res = ⟨200, none⟩) : res = .data .emptySlice := by
  cases res with
  | nilnil => simp [publicRandAnswer] at h
  | err => simp [publicRandAnswer] at h
  | data p => cases p <;> simp_all [publicRandAnswer]

/-- every step preserves the round invariant; the only step that needs a hypothesis is the stream-failure reset of the
as-is code -/
theorem rinv_step {cfg : Cfg} {ex : Bool} {s : State} (hi : Inv s) (h : RInv cfg ex s) (e : Ev)
    (hq : cfg.flushOnFail = true ∨ QuietFail s e) (hg : ex = true → GetExact s e) : RInv cfg ex (step cfg s e) := by
  cases e with
  | arrive id r now ia =>
    simp only [step, arrive]
    split
    · exact h
    · rename_i hc
      have habs : (s.reqs id).pc = .absent := by
        by_cases hx : (s.reqs id).pc = .absent
        · exact hx
        · exact absurd (Or.inl hx) hc
      have hgi : ∀ _ : Unit, Inv (getChainInfo s ia).2 ∧ RInv cfg ex (getChainInfo s ia).2 ∧ (getChainInfo s ia).2.reqs = s.reqs ∧
          (getChainInfo s ia).2.chans = s.chans := by
        intro _
        unfold getChainInfo
        split
        · exact ⟨hi, h, rfl, rfl⟩
        · split
          · exact ⟨inv_setInfo hi _, rinv_of_eq h rfl rfl rfl rfl rfl rfl, rfl, rfl⟩
          · exact ⟨hi, h, rfl, rfl⟩
      obtain ⟨hi1, h1, hr, hch⟩ := hgi ()
      have fresh : ∀ (s1 : State) (r' : Req), Inv s1 → RInv cfg ex s1 → (s1.reqs id).pc = .absent →
          (∀ b st, r'.pc ≠ .done ⟨st, some b⟩) → (∀ g, r'.pc ≠ .closing g) → r'.pc ≠ .done ⟨200, none⟩ →
          RInv cfg ex (s1.setReq id r') := by
        intro s1 r' hi1 h1 habs1 hd hcl h200
        have hnr := hi1.not_reg (id := id) (by simp [habs1, Pc.waiting])
        have hnb := hi1.buf_none (id := id) (by simp [habs1, Pc.waiting]) (by simp [habs1])
        have := rinv_local h1 id r' (s1.chans id) (fun hm => absurd hm hnr) (by simp [hnb])
          (fun b hb => absurd hb (hcl _)) (fun b st hb => absurd hb (hd b st)) (fun _ p hp => absurd hp (hcl _)) (fun _ => h200)
        rwa [setChan_self] at this
      split
      · rename_i s1 heq
        have e1 : s1 = (getChainInfo s ia).2 := by rw [heq]
        subst e1
        exact fresh _ _ hi1 h1 (by rw [hr]; exact habs) (by simp) (by simp) (by simp)
      · rename_i i s1 heq
        have e1 : s1 = (getChainInfo s ia).2 := by rw [heq]
        subst e1
        split
        · exact fresh _ _ hi1 h1 (by rw [hr]; exact habs) (by simp) (by simp) (by simp)
        · exact fresh _ _ (inv_startOnce hi1) (rinv_startOnce hi1 h1) (by rw [startOnce_reqs, hr]; exact habs)
            (by simp) (by simp) (by simp)
  | eval1 id =>
    simp only [step, eval1]
    split
    · rename_i hc
      obtain ⟨hpc, _⟩ := hc
      split
      · exact rinv_local h id _ _ (fun _ => rfl) (by simp) (by simp) (by simp) (by simp) (by simp)
      · exact rinv_localReq h id _ rfl (by simp) (by simp) (by simp) (by simp)
    · exact h
  | eval2 id =>
    simp only [step, eval2]
    split
    · rename_i hc
      obtain ⟨hpc, hfree⟩ := hc
      split
      · rename_i hg
        have hl : s.latest ≠ 0 := by
          intro e; simp [blockGuard, e] at hg
        constructor
        · intro _ j hj
          have hj' : j ∈ s.pending ++ [id] := by simpa [State.setPc, State.setReq] using hj
          by_cases e : j = id
          · subst e; simpa [State.setPc, State.setReq] using hg
          · have : j ∈ s.pending := by
              rcases List.mem_append.mp hj' with hm | hm
              · exact hm
              · simp at hm; exact absurd hm e
            simpa [State.setPc, State.setReq, e] using h.guardOK hl j this
        · intro _; simpa [State.setPc, State.setReq] using hl
        · intro j hj b hb
          by_cases e : j = id
          · subst e; simpa [State.setPc, State.setReq] using h.localOK j (by simpa [State.setPc, State.setReq] using hj) b (by simpa [State.setPc, State.setReq] using hb)
          · simpa [State.setPc, State.setReq, e] using h.localOK j (by simpa [State.setPc, State.setReq] using hj) b (by simpa [State.setPc, State.setReq] using hb)
        · intro j b
          by_cases e : j = id
          · subst e; simpa [State.setPc, State.setReq] using h.bufRound j b
          · simpa [State.setPc, State.setReq, e] using h.bufRound j b
        · intro j b
          by_cases e : j = id
          · subst e; simp [State.setPc, State.setReq]
          · simpa [State.setPc, State.setReq, e] using h.resRound j b
        · intro j b st
          by_cases e : j = id
          · subst e; simp [State.setPc, State.setReq]
          · simpa [State.setPc, State.setReq, e] using h.doneRound j b st
        · intro hcf j p
          by_cases e : j = id
          · subst e; simp [State.setPc, State.setReq]
          · simpa [State.setPc, State.setReq, e] using h.noEmpty hcf j p
        · intro hcf j
          by_cases e : j = id
          · subst e; simp [State.setPc, State.setReq]
          · simpa [State.setPc, State.setReq, e] using h.noEmptyDone hcf j
      · exact rinv_localReq h id _ rfl (by simp) (by simp) (by simp) (by simp)
    · exact h
  | recv id =>
    simp only [step, recv]
    split
    · split
      · rename_i p hb
        split
        · exact rinv_local h id _ _ (fun _ => rfl) (by simp) (by simp) (by simp) (by simp) (by simp)
        · rename_i hne
          refine rinv_local h id _ _ (fun _ => rfl) (by simp) ?_ (by simp) ?_ (by simp)
          · intro b hb' _
            have : p = .json b := by simpa using hb'
            subst this
            simpa [State.setChan] using h.bufRound id b hb
          · intro hcf q hq'
            have : p = q := by simpa using hq'
            subst this
            simpa [hcf] using hne
      · exact h
    · exact h
  | ctxCancel id =>
    simp only [step, ctxCancel]
    split
    · exact h
    · exact rinv_localReq h id _ rfl (h.resRound id) (h.doneRound id) (fun hc => h.noEmpty hc id) (fun hc => h.noEmptyDone hc id)
  | wake id =>
    simp only [step, wake]
    split
    · exact rinv_localReq h id _ rfl (by simp) (by simp) (by simp) (by simp)
    · exact h
  | dereg id =>
    simp only [step, dereg]
    split
    · have h0 : RInv cfg ex { s with holder := .req id, pending := s.pending.erase id } := by
        constructor
        · intro hl j hj; exact h.guardOK hl j (List.mem_of_mem_erase hj)
        · intro hne; apply h.pendLatest; intro e; simp [e] at hne
        · exact h.localOK
        · exact h.bufRound
        · exact h.resRound
        · exact h.doneRound
        · exact h.noEmpty
        · exact h.noEmptyDone
      exact rinv_localReq h0 id _ rfl (by simp) (by simp) (by simp) (by simp)
    · exact h
  | drain id =>
    simp only [step, drain]
    split
    · exact rinv_local h id _ _ (fun _ => rfl) (by simp) (by simp) (by simp) (by simp) (by simp)
    · exact h
  | cUnlock id =>
    simp only [step, cUnlock]
    split
    · have h0 : RInv cfg ex { s with holder := .free } := rinv_of_eq h rfl rfl rfl rfl rfl rfl
      exact rinv_localReq h0 id _ rfl (by simp) (by simp) (by simp) (by simp)
    · exact h
  | futureChk id now =>
    simp only [step, futureChk]
    split
    · split
      · split
        · exact rinv_localReq h id _ rfl (by simp) (by simp) (by simp) (by simp)
        · exact h
      · exact rinv_localReq h id _ rfl (by simp) (by simp) (by simp) (by simp)
    · exact h
  | getAns id ans =>
    simp only [step, getAns]
    split
    · rename_i hpc
      refine rinv_localReq h id _ rfl ?_ (by simp) ?_ (by simp)
      · intro b hb hex
        cases ans with
        | none => simp at hb
        | some b' =>
          have : b' = b := by simpa using hb
          subst this
          rcases hex with hex | hex
          · simpa using hg hex id b' rfl hpc
          · simp at hex
      · intro _ p hp
        cases ans with
        | none => simp at hp
        | some b => simp at hp; subst hp; rfl
    · exact h
  | close id =>
    simp only [step, closeStep]
    split
    · rename_i res hpc
      have hd : ∀ b st, publicRandAnswer res = ⟨st, some b⟩ → (ex = true ∨ (s.reqs id).fromGet = false) → b.round = (s.reqs id).round := by
        intro b st hb hf
        have := publicRandAnswer_some hb
        subst this
        exact h.resRound id b hpc hf
      have hn : cfg.emptyFallsBack = true → publicRandAnswer res ≠ ⟨200, none⟩ := by
        intro hc e
        have := publicRandAnswer_200_none e
        subst this
        have := h.noEmpty hc id _ hpc
        simp [Payload.isEmpty] at this
      split
      · split
        · have h0 : RInv cfg ex { s with panicked := true } := rinv_of_eq h rfl rfl rfl rfl rfl rfl
          exact rinv_localReq h0 id _ rfl (by simp) (by simpa using hd) (by simp) (by simpa using hn)
        · refine rinv_local h id _ _ (fun _ => rfl) ?_ (by simp) (by simpa [State.setChan] using hd) (by simp) (by simpa using hn)
          intro b hb; exact h.bufRound id b (by simpa using hb)
      · exact rinv_localReq h id _ rfl (by simp) (by simpa using hd) (by simp) (by simpa using hn)
    · exact h
  | wDeliver b => simp only [step, wDeliver]; split <;> first | exact h | exact rinv_of_eq h rfl rfl rfl rfl rfl rfl
  | wClosed => simp only [step, wClosed]; split <;> first | exact h | exact rinv_of_eq h rfl rfl rfl rfl rfl rfl
  | wTimeout => simp only [step, wTimeout]; split <;> first | exact h | exact rinv_of_eq h rfl rfl rfl rfl rfl rfl
  | wBackoffDone => simp only [step, wBackoffDone]; split <;> first | exact h | exact rinv_of_eq h rfl rfl rfl rfl rfl rfl
  | wResub => simp only [step, wResub]; split <;> first | exact h | exact rinv_of_eq h rfl rfl rfl rfl rfl rfl
  | wUnlock => simp only [step, wUnlock]; split <;> first | exact h | exact rinv_of_eq h rfl rfl rfl rfl rfl rfl
  | health => exact rinv_startOnce hi h
  | wLock =>
    simp only [step, wLock]
    split
    · exact h
    · rename_i hf
      have hf' : s.holder = .free := by simpa using hf
      split
      · rename_i n hw
        constructor
        · intro _ j hj; simp at hj
        · intro hne; simp at hne
        · intro j hj b hb
          have hj' : j ∈ s.pending := hj
          have hl : s.latest ≠ 0 := h.pendLatest (fun e => by simp [e] at hj')
          have hg := h.guardOK hl j hj'
          simp only [] at hb
          split at hb
          · simp at hb
          · rename_i hu
            have hbn : n = b := by simpa using hb
            subst hbn
            simp [unexpectedRound, hl] at hu
            simp [blockGuard, hl] at hg
            show n.round = (s.reqs j).round
            omega
        · exact h.bufRound
        · exact h.resRound
        · exact h.doneRound
        · exact h.noEmpty
        · exact h.noEmptyDone
      · rename_i hw
        split
        · constructor
          · intro hl; simp at hl
          · intro hne; simp at hne
          · intro j hj b hb; simp at hb
          · exact h.bufRound
          · exact h.resRound
          · exact h.doneRound
          · exact h.noEmpty
          · exact h.noEmptyDone
        · rename_i hfl
          have hp : s.pending = [] := by
            rcases hq with hq | hq
            · exact absurd hq hfl
            · exact hq rfl hw hf'
          constructor
          · intro hl; simp at hl
          · intro hne; exact absurd hp hne
          · exact h.localOK
          · exact h.bufRound
          · exact h.resRound
          · exact h.doneRound
          · exact h.noEmpty
          · exact h.noEmptyDone
      · exact h
  | wSend =>
    simp only [step]
    by_cases hw : s.wpc = .notifying
    · match hl : s.wlocal with
      | [] => have : wSend s = s := by simp [wSend, hw, hl]
              rw [this]; exact h
      | i :: rest =>
        rw [wSend_eq hi hw hl]
        have h0 : RInv cfg ex { s with wlocal := rest } := by
          constructor
          · exact h.guardOK
          · exact h.pendLatest
          · intro j hj; exact h.localOK j (by rw [hl]; exact List.mem_cons_of_mem _ hj)
          · exact h.bufRound
          · exact h.resRound
          · exact h.doneRound
          · exact h.noEmpty
          · exact h.noEmptyDone
        have := rinv_local h0 i (s.reqs i) { s.chans i with buf := some s.wb } (fun _ => rfl)
          (fun b hb => h.localOK i (by rw [hl]; exact List.mem_cons_self) b (by simpa using hb))
          (h.resRound i) (h.doneRound i) (fun hc => h.noEmpty hc i) (fun hc => h.noEmptyDone hc i)
        have hself : (({ s with wlocal := rest } : State).setChan i { s.chans i with buf := some s.wb }).setReq i (s.reqs i) =
            ({ s with wlocal := rest } : State).setChan i { s.chans i with buf := some s.wb } := by
          have : upd s.reqs i (s.reqs i) = s.reqs := by
            funext j; by_cases hj : j = i <;> simp [upd, hj]
          simp [State.setReq, State.setChan, this]
        rwa [hself] at this
    · have : wSend s = s := by simp [wSend, hw]
      rw [this]; exact h

theorem rinv_runFrom {cfg : Cfg} {ex : Bool} : ∀ (evs : List Ev) {s : State}, Inv s → RInv cfg ex s →
    (cfg.flushOnFail = true ∨ Along QuietFail cfg s evs) → (ex = true → Along GetExact cfg s evs) →
    RInv cfg ex (runFrom cfg s evs)
  | [], _, _, h, _, _ => h
  | e :: es, _, hi, h, hq, hg =>
    rinv_runFrom es (inv_step cfg hi e)
      (rinv_step hi h e (hq.imp id (fun a => a.1)) (fun hx => (hg hx).1))
      (hq.imp id (fun a => a.2)) (fun hx => (hg hx).2)

/-! ## (a) a waiter is released with the round it asked for -/

/-- **c01_http_waiter_exact** (patched code, no hypothesis on stream or client): whenever a value sits in a waiter's
channel and it is not the empty marker, it is the marshalled beacon of exactly the round that waiter asked for -/
theorem c01_http_waiter_exact (evs : List Ev) (id : Nat) (b : Beacon)
    (hb : ((run .fixed evs).chans id).buf = some (.json b)) : b.round = ((run .fixed evs).reqs id).round :=
  (rinv_runFrom (ex := false) evs inv_init (rinv_init _ _) (Or.inl rfl) (by simp)).bufRound id b hb

/-- … and the same at the moment the watcher is about to send: its payload, if not empty, carries the round of every
waiter it is going to notify -/
theorem c01_http_notify_exact (evs : List Ev) (id : Nat) (b : Beacon) (hm : id ∈ (run .fixed evs).wlocal)
    (hb : (run .fixed evs).wb = .json b) : b.round = ((run .fixed evs).reqs id).round :=
  (rinv_runFrom (cfg := .fixed) (ex := false) evs inv_init (rinv_init _ _) (Or.inl rfl) (by simp)).localOK id hm b hb

/-- **c01_http_waiter_exact_partial** (code as it is): the same, for every run in which no stream failure is processed
while a waiter is registered (`QuietFail`) -/
theorem c01_http_waiter_exact_partial (evs : List Ev) (hq : Along QuietFail .asIs State.init evs) (id : Nat) (b : Beacon)
    (hb : ((run .asIs evs).chans id).buf = some (.json b)) : b.round = ((run .asIs evs).reqs id).round :=
  (rinv_runFrom (ex := false) evs inv_init (rinv_init _ _) (Or.inr hq) (by simp)).bufRound id b hb

/-! ## (b) a 200 answer to /public/r is the beacon of round r -/

/-- **c01_http_200_is_round** (patched code): for every event list — any watch stream, any interleaving of requests,
cancellations, stream failures and timeouts — in which the client answers `Get(r)` with round r, a request for
round r that is answered `200` carries a body, and the body is a beacon of round r -/
theorem c01_http_200_is_round (evs : List Ev) (hg : Along GetExact .fixed State.init evs) (id : Nat) (a : Answer)
    (hd : ((run .fixed evs).reqs id).pc = .done a) (h200 : a.status = 200) :
    ∃ b, a.body = some b ∧ b.round = ((run .fixed evs).reqs id).round := by
  have h := rinv_runFrom (cfg := .fixed) (ex := true) evs inv_init (rinv_init _ _) (Or.inl rfl) (fun _ => hg)
  obtain ⟨st, body⟩ := a
  simp at h200; subst h200
  cases body with
  | none => exact absurd hd (h.noEmptyDone rfl id)
  | some b => exact ⟨b, rfl, h.doneRound id b 200 hd (Or.inl rfl)⟩

/-- **c01_http_200_from_watcher** (patched code, NO hypothesis on the client): a `200` whose payload came from the
watcher (not from `client.Get`) is a beacon of the requested round -/
theorem c01_http_200_from_watcher (evs : List Ev) (id : Nat) (a : Answer)
    (hd : ((run .fixed evs).reqs id).pc = .done a) (h200 : a.status = 200)
    (hw : ((run .fixed evs).reqs id).fromGet = false) :
    ∃ b, a.body = some b ∧ b.round = ((run .fixed evs).reqs id).round := by
  have h := rinv_runFrom (cfg := .fixed) (ex := false) evs inv_init (rinv_init _ _) (Or.inl rfl) (by simp)
  obtain ⟨st, body⟩ := a
  simp at h200; subst h200
  cases body with
  | none => exact absurd hd (h.noEmptyDone rfl id)
  | some b => exact ⟨b, rfl, h.doneRound id b 200 hd (Or.inr hw)⟩

/-- **c01_http_200_partial** (code as it is): under `QuietFail` and `GetExact` a `200` is the beacon of the requested
round OR HAS AN EMPTY BODY -/
theorem c01_http_200_partial (evs : List Ev) (hq : Along QuietFail .asIs State.init evs)
    (hg : Along GetExact .asIs State.init evs) (id : Nat) (a : Answer)
    (hd : ((run .asIs evs).reqs id).pc = .done a) (_h200 : a.status = 200) :
    a.body = none ∨ ∃ b, a.body = some b ∧ b.round = ((run .asIs evs).reqs id).round := by
  have h := rinv_runFrom (ex := true) evs inv_init (rinv_init _ _) (Or.inr hq) (fun _ => hg)
  obtain ⟨st, body⟩ := a
  cases body with
  | none => exact Or.inl rfl
  | some b => exact Or.inr ⟨b, rfl, h.doneRound id b st hd (Or.inl rfl)⟩

/-! ## the witnesses -/

/-- … the stream skips round 11 and delivers round 12; the waiter takes what it was sent and returns -/
def emptyWitness : List Ev := exParked ++ [.wDeliver ⟨12, 1212⟩, .wLock, .wSend, .wUnlock, .recv 1, .close 1]

/-- … the stream fails, the handler re-subscribes, the new stream's first value is round 12 -/
def wrongRoundWitness : List Ev :=
  exParked ++ [.wClosed, .wLock, .wBackoffDone, .wResub, .wDeliver ⟨12, 1212⟩, .wLock, .wSend, .wUnlock, .recv 1, .close 1]

/-- **c01_http_empty200_counterexample** (code as it is): a run with an exact client and no stream failure at all in
which the request for round 11 is answered `200` with an EMPTY body -/
theorem c01_http_empty200_counterexample :
    ((run .asIs emptyWitness).reqs 1).round = 11 ∧
    ((run .asIs emptyWitness).reqs 1).pc = .done ⟨200, none⟩ ∧
    Along QuietFail .asIs State.init emptyWitness ∧ Along GetExact .asIs State.init emptyWitness := by
  refine ⟨by decide, by decide, ?_, ?_⟩
  · simp [emptyWitness, exParked, Along, QuietFail]
    decide
  · simp [emptyWitness, exParked, Along, GetExact]
    decide

/-- **c01_http_wrong_round_counterexample** (code as it is): a run with an exact client in which the request for
round 11 is answered `200` with the beacon of round 12 -/
theorem c01_http_wrong_round_counterexample :
    ((run .asIs wrongRoundWitness).reqs 1).round = 11 ∧
    ((run .asIs wrongRoundWitness).reqs 1).pc = .done ⟨200, some ⟨12, 1212⟩⟩ ∧
    Along GetExact .asIs State.init wrongRoundWitness := by
  refine ⟨by decide, by decide, ?_⟩
  simp [wrongRoundWitness, exParked, Along, GetExact]
  decide

/-! ## non-vacuity, and the patched code on the same two scenarios -/

/-- consecutive delivery: the parked request for round 11 gets the beacon of round 11 (both variants) -/
def exNormal : List Ev := exParked ++ [.wDeliver ⟨11, 1111⟩, .wLock, .wSend, .wUnlock, .recv 1, .close 1]

example : ((run .fixed (exParked ++ [.wDeliver ⟨11, 1111⟩, .wLock, .wSend])).chans 1).buf = some (.json ⟨11, 1111⟩) := by decide
example : ((run .asIs (exParked ++ [.wDeliver ⟨11, 1111⟩, .wLock, .wSend])).chans 1).buf = some (.json ⟨11, 1111⟩) ∧
    Along QuietFail .asIs State.init (exParked ++ [.wDeliver ⟨11, 1111⟩, .wLock, .wSend]) := by
  refine ⟨by decide, ?_⟩
  simp [exParked, Along, QuietFail]; decide
example : (run .fixed (exParked ++ [.wDeliver ⟨11, 1111⟩, .wLock])).wlocal = [1] ∧
    (run .fixed (exParked ++ [.wDeliver ⟨11, 1111⟩, .wLock])).wb = .json ⟨11, 1111⟩ := by decide
example : ((run .fixed exNormal).reqs 1).pc = .done ⟨200, some ⟨11, 1111⟩⟩ ∧ ((run .fixed exNormal).reqs 1).fromGet = false ∧
    Along GetExact .fixed State.init exNormal := by
  refine ⟨by decide, by decide, ?_⟩
  simp [exNormal, exParked, Along, GetExact]; decide
example : ((run .asIs exNormal).reqs 1).pc = .done ⟨200, some ⟨11, 1111⟩⟩ := by decide

/-- the skipped-round scenario on the patched code: the waiter is released with the empty marker, falls through to the
future test (one period later round 11 is due) and fetches round 11 itself -/
def emptyWitnessFixed : List Ev :=
  exParked ++ [.wDeliver ⟨12, 1212⟩, .wLock, .wSend, .wUnlock, .recv 1, .futureChk 1 (exNow + 3600), .getAns 1 (some ⟨11, 1111⟩), .close 1]

example : ((run .fixed emptyWitnessFixed).reqs 1).pc = .done ⟨200, some ⟨11, 1111⟩⟩ ∧
    Along GetExact .fixed State.init emptyWitnessFixed := by
  refine ⟨by decide, ?_⟩
  simp [emptyWitnessFixed, exParked, Along, GetExact]; decide
/-- the same events as the as-is witness: no 200 at all (the request is still in `getRand`) -/
example : ((run .fixed emptyWitness).reqs 1).pc = .future := by decide

/-- the stream-failure scenario on the patched code: the failure releases the waiter (nil), round 11 is not due yet: 404 -/
def wrongRoundWitnessFixed : List Ev :=
  exParked ++ [.wClosed, .wLock, .wSend, .wUnlock, .recv 1, .futureChk 1 exNow, .close 1,
               .wBackoffDone, .wResub, .wDeliver ⟨12, 1212⟩, .wLock, .wUnlock]

example : ((run .fixed wrongRoundWitnessFixed).reqs 1).pc = .done ⟨404, none⟩ ∧ (run .fixed wrongRoundWitnessFixed).latest = 12 ∧
    (run .fixed wrongRoundWitnessFixed).holder = .free := by decide

/-! ## (d) LatestRand -/

/-- `/public/latest` answers 200 only with exactly what the client returned for `Get(ctx, 0)` -/
theorem c01_http_latest (g : Option Beacon) (i : Option Info) (body : Option Beacon)
    (h : latestRandAnswer g i = ⟨200, body⟩) : body = g ∧ g ≠ none ∧ i ≠ none := by
  cases g <;> cases i <;> simp_all [latestRandAnswer] <;> (subst h; simp)

example : latestRandAnswer (some ⟨10, 1010⟩) (some exInfo) = ⟨200, some ⟨10, 1010⟩⟩ := by decide

/-! ## ties (Gen/HttpW.lean, regenerated from handler/http/server.go on every run) -/

/-- both evaluations of `block` in `getRand` are the model's `blockGuard` -/
theorem tie_block_guards (l r : Nat) :
    Gen.HttpW.blockGuard1 l r = blockGuard l r ∧ Gen.HttpW.blockGuard2 l r = blockGuard l r := ⟨rfl, rfl⟩

/-- the watcher's unexpected-round condition is the model's `unexpectedRound` -/
theorem tie_unexpected_round (l n : Nat) : Gen.HttpW.unexpectedRound l n = unexpectedRound l n := rfl

/-- … and what it sends then is a NON-NIL EMPTY slice (`Payload.emptySlice`: passes `data == nil` in `PublicRand`) -/
theorem tie_unexpected_payload : Gen.HttpW.unexpectedAssign = "[]byte{}" := rfl

/-- `PublicRand`'s decision on getRand's result is `publicRandAnswer`: error → 500, nil data → 404, anything else
(including an empty non-nil slice) → ServeContent, i.e. 200 -/
theorem tie_public_rand_decision :
    Gen.HttpW.publicRandDecision = ["err!=nil => http.StatusInternalServerError", "data==nil => http.StatusNotFound",
                                    "=> http.ServeContent bytes.NewReader(data)"] := rfl

/-- what follows the waiting part of `getRand`: the future test (`futureChk`: RLock only for the log line), then the
direct `client.Get` whose result is marshalled and returned without looking at its round (`getAns`) -/
theorem tie_after_waiting :
    Gen.HttpW.afterWaiting = ["if dateOfRound(round, info).After(time.Now()) { bh.pendingLk.RLock() bh.pendingLk.RUnlock() return nil, nil }",
      "ctx, cancel := context.WithTimeout(ctx, h.timeout)", "defer cancel()", "resp, err := bh.client.Get(ctx, round)",
      "if err != nil { return nil, err }", "return json.Marshal(resp)"] := rfl

open Drand.Driver.HttpWD in
/-- the receive branch of the parked waiter is one of the two modelled variants (`Cfg.emptyFallsBack`) -/
theorem tie_recv_branch : Gen.HttpW.recvBranch = asIsRecv ∨ Gen.HttpW.recvBranch = fixedRecv := by decide

open Drand.Driver.HttpWD in
/-- the source tree is the as-is code or the code with reports/http_fix_1.diff applied (or one hunk of it): the
variant the driver reads off the facts is defined -/
theorem tie_variant : srcCfg.isSome = true := by decide

end Drand.Http
