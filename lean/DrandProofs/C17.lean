/-
C17 — chain hash and group hash commit to exactly the parameters they identify.
Models: Drand/Codec/Hash.lean. `H` is the (abstract) hash function; `Function.Injective`-style collision
freedom is an explicit hypothesis wherever an inner hash is involved, never an axiom.
-/
import Drand.Codec.Hash

namespace Drand.Codec
open Drand

/-! ### ties: the hand-written layouts are exactly what go2lean regenerated from the source -/
theorem tie_infoHash : Gen.infoHash = chainLayout := rfl
theorem tie_groupHash : Gen.groupHash = groupLayout := rfl
theorem tie_nodeHash : Gen.nodeHash = nodeLayout := rfl
theorem tie_distPublicHash : Gen.distPublicHash = distPublicLayout := rfl
theorem tie_defaultId : Gen.defaultBeaconID = "default" := rfl
theorem tie_algos : Gen.infoHashAlgo = "sha256" ∧ Gen.groupHashAlgo = "blake2b256" ∧
    Gen.nodeHashAlgo = "blake2b256" ∧ Gen.distPublicHashAlgo = "blake2b256" := ⟨rfl, rfl, rfl, rfl⟩

/-! ### chain hash -/

private theorem le_length (w n : Nat) : (le w n).length = w := by
  induction w generalizing n with
  | zero => rfl
  | succ w ih => simp [le, ih]

private theorem be_length (w n : Nat) : (be w n).length = w := by simp [be, le_length]

private theorem u8_inj (a b : Nat) (h : UInt8.ofNat (a % 256) = UInt8.ofNat (b % 256)) : a % 256 = b % 256 := by
  have := congrArg UInt8.toNat h
  simpa using this

private theorem le_inj (w a b : Nat) (h : le w a = le w b) : a % 256^w = b % 256^w := by
  induction w generalizing a b with
  | zero => simp [Nat.mod_one]
  | succ w ih =>
    simp only [le, List.cons.injEq] at h
    obtain ⟨h0, ht⟩ := h
    have h1 := ih _ _ ht
    have h0' := u8_inj _ _ h0
    rw [Nat.pow_succ', Nat.mod_mul, Nat.mod_mul, h0', h1]

private theorem be_inj (w a b : Nat) (h : be w a = be w b) : a % 256^w = b % 256^w := by
  apply le_inj
  simpa [be] using h

private theorem u64_inj (x y : Int) (h1 : -9223372036854775808 ≤ x ∧ x < 9223372036854775808)
    (h2 : -9223372036854775808 ≤ y ∧ y < 9223372036854775808)
    (h : u64OfInt x % 256^8 = u64OfInt y % 256^8) : x = y := by
  unfold u64OfInt at h
  omega

private theorem idPart_eq_iff (a b : Bytes) : idPart a = idPart b ↔ canonId a = canonId b := by
  unfold idPart canonId
  by_cases ha : isDefaultId a <;> by_cases hb : isDefaultId b <;> simp [ha, hb]
  · constructor <;> (intro h; subst h; simp [isDefaultId] at hb)
  · constructor <;> (intro h; subst h; simp [isDefaultId] at ha)

/-- equal parameters (ids up to canonicalisation: "" ≡ "default") give the same preimage, hence the same hash,
whatever path the fields travelled -/
theorem c17_chain_deterministic (c c' : ChainParams)
    (h : c.periodSec = c'.periodSec ∧ c.genesis = c'.genesis ∧ c.pk = c'.pk ∧ c.seed = c'.seed ∧
      canonId c.id = canonId c'.id) : chainPreimage c = chainPreimage c' := by
  obtain ⟨h1, h2, h3, h4, h5⟩ := h
  unfold chainPreimage
  rw [h1, h2, h3, h4, (idPart_eq_iff _ _).2 h5]

theorem c17_chain_period (c : ChainParams) (p' : Nat) (h1 : c.periodSec < 4294967296) (h2 : p' < 4294967296)
    (hne : c.periodSec ≠ p') : chainPreimage c ≠ chainPreimage { c with periodSec := p' } := by
  intro h
  unfold chainPreimage at h
  simp only [List.append_assoc] at h
  have := (List.append_inj h (by simp [be_length])).1
  have := be_inj _ _ _ this
  omega

theorem c17_chain_genesis (c : ChainParams) (g' : Int)
    (h1 : -9223372036854775808 ≤ c.genesis ∧ c.genesis < 9223372036854775808)
    (h2 : -9223372036854775808 ≤ g' ∧ g' < 9223372036854775808)
    (hne : c.genesis ≠ g') : chainPreimage c ≠ chainPreimage { c with genesis := g' } := by
  intro h
  unfold chainPreimage at h
  simp only [List.append_assoc, List.append_cancel_left_eq] at h
  have := (List.append_inj h (by simp [be_length])).1
  exact hne (u64_inj _ _ h1 h2 (be_inj _ _ _ this))

theorem c17_chain_pk (c : ChainParams) (pk' : Bytes) (hne : c.pk ≠ pk') :
    chainPreimage c ≠ chainPreimage { c with pk := pk' } := by
  intro h
  unfold chainPreimage at h
  simp only [List.append_cancel_right_eq, List.append_cancel_left_eq] at h
  exact hne h

theorem c17_chain_seed (c : ChainParams) (s' : Bytes) (hne : c.seed ≠ s') :
    chainPreimage c ≠ chainPreimage { c with seed := s' } := by
  intro h
  unfold chainPreimage at h
  simp only [List.append_cancel_right_eq, List.append_cancel_left_eq] at h
  exact hne h

theorem c17_chain_id (c : ChainParams) (id' : Bytes) (hne : canonId c.id ≠ canonId id') :
    chainPreimage c ≠ chainPreimage { c with id := id' } := by
  intro h
  unfold chainPreimage at h
  simp only [List.append_cancel_left_eq] at h
  exact hne ((idPart_eq_iff _ _).1 h)

/-- joint injectivity: with the per-scheme fixed public-key length and equal seed lengths, the preimage
determines every parameter (ids up to canonicalisation) -/
theorem c17_chain_injective (c c' : ChainParams)
    (hp : c.periodSec < 4294967296) (hp' : c'.periodSec < 4294967296)
    (hg : -9223372036854775808 ≤ c.genesis ∧ c.genesis < 9223372036854775808)
    (hg' : -9223372036854775808 ≤ c'.genesis ∧ c'.genesis < 9223372036854775808)
    (hpk : c.pk.length = c'.pk.length) (hs : c.seed.length = c'.seed.length)
    (h : chainPreimage c = chainPreimage c') :
    c.periodSec = c'.periodSec ∧ c.genesis = c'.genesis ∧ c.pk = c'.pk ∧ c.seed = c'.seed ∧
      canonId c.id = canonId c'.id := by
  unfold chainPreimage at h
  simp only [List.append_assoc] at h
  obtain ⟨ha, h⟩ := List.append_inj h (by simp [be_length])
  obtain ⟨hb, h⟩ := List.append_inj h (by simp [be_length])
  obtain ⟨hc, h⟩ := List.append_inj h hpk
  obtain ⟨hd, h⟩ := List.append_inj h hs
  have := be_inj _ _ _ ha
  refine ⟨by omega, u64_inj _ _ hg hg' (be_inj _ _ _ hb), hc, hd, (idPart_eq_iff _ _).1 h⟩

/-- without the length hypothesis the seed/id boundary is ambiguous: a concrete collision of preimages -/
theorem c17_chain_seed_id_ambiguity :
    chainPreimage ⟨30, 1, [1], [2], [3]⟩ = chainPreimage ⟨30, 1, [1], [2, 3], []⟩ := by
  decide

/-- the chain hash ignores group membership: nodes, threshold and transition time do not enter it -/
theorem c17_chain_ignores_members (g g' : GroupView) (pk0 : Bytes)
    (h : g.periodSec = g'.periodSec ∧ g.seed = g'.seed ∧ g.params.genesis = g'.params.genesis ∧
      g.params.id = g'.params.id) :
    chainPreimage (chainInfoOfGroup g pk0) = chainPreimage (chainInfoOfGroup g' pk0) := by
  obtain ⟨h1, h2, h3, h4⟩ := h
  simp [chainInfoOfGroup, h1, h2, h3, h4]

/-- chain info whose embedded hash does not match its fields is rejected on decode -/
theorem c17_decode_rejects (H : Bytes → Bytes) (c : ChainParams) (h : Bytes) (hne : H (chainPreimage c) ≠ h) :
    decodeChecksHash H c (some h) = false := by
  simp [decodeChecksHash, hne]

theorem c17_decode_accepts (H : Bytes → Bytes) (c : ChainParams) :
    decodeChecksHash H c (some (H (chainPreimage c))) = true ∧ decodeChecksHash H c none = true := by
  simp [decodeChecksHash]

/-! ### group hash -/

def DistinctIdx (l : List NodeP) : Prop := (l.map (·.index)).Nodup
instance (l : List NodeP) : Decidable (DistinctIdx l) := by unfold DistinctIdx; infer_instance

private theorem flattenToks_append (H : Bytes → Bytes) (a b : List PTok) :
    flattenToks H (a ++ b) = flattenToks H a ++ flattenToks H b := by
  induction a with
  | nil => rfl
  | cons t a ih => cases t <;> simp [flattenToks, ih]

private def nodesPart (H : Bytes → Bytes) (l : List NodeP) : Bytes :=
  ((sortNodes l).map (fun x => H (nodePreimage x))).flatten
private def transPart (t : Int) : Bytes := if t ≠ 0 then le 8 (u64OfInt t) else []
private def pkPart (H : Bytes → Bytes) : Option (List Bytes) → Bytes
  | some cs => H (distPublicPreimage cs)
  | none => []

private theorem flattenToks_hashed (H : Bytes → Bytes) (l : List NodeP) :
    flattenToks H (l.map (fun n => PTok.hashed (nodePreimage n))) =
      (l.map (fun x => H (nodePreimage x))).flatten := by
  induction l with
  | nil => rfl
  | cons x l ih => simp [flattenToks, ih]

private theorem groupPreimage_eq (H : Bytes → Bytes) (g : GroupParams) :
    groupPreimage H g = nodesPart H g.nodes ++ (le 4 g.threshold ++ (le 8 (u64OfInt g.genesis) ++
      (transPart g.transition ++ (pkPart H g.pk ++ idPart g.id)))) := by
  unfold groupPreimage groupToks nodesPart transPart
  simp only [flattenToks_append, flattenToks_hashed, List.append_assoc]
  congr 1
  cases hpk : g.pk <;> by_cases ht : g.transition = 0 <;> simp [flattenToks, pkPart, ht]

private theorem insertNode_perm (n : NodeP) (l : List NodeP) : (insertNode n l).Perm (n :: l) := by
  induction l with
  | nil => exact List.Perm.refl _
  | cons x t ih =>
    unfold insertNode
    split
    · exact List.Perm.refl _
    · exact (List.Perm.cons x ih).trans (List.Perm.swap n x t)

private theorem sortNodes_perm (l : List NodeP) : (sortNodes l).Perm l := by
  induction l with
  | nil => exact List.Perm.refl _
  | cons x t ih => exact (insertNode_perm x _).trans (List.Perm.cons x ih)

private theorem insertNode_sorted (n : NodeP) (l : List NodeP)
    (h : l.Pairwise (fun a b => a.index ≤ b.index)) :
    (insertNode n l).Pairwise (fun a b => a.index ≤ b.index) := by
  induction l with
  | nil => simp [insertNode]
  | cons x t ih =>
    rw [List.pairwise_cons] at h
    unfold insertNode
    split
    · rename_i hlt
      refine List.pairwise_cons.2 ⟨?_, List.pairwise_cons.2 h⟩
      intro y hy
      rcases List.mem_cons.1 hy with rfl | hy
      · omega
      · have := h.1 y hy; omega
    · rename_i hge
      refine List.pairwise_cons.2 ⟨?_, ih h.2⟩
      intro y hy
      rcases List.mem_cons.1 ((insertNode_perm n t).mem_iff.1 hy) with rfl | hy
      · omega
      · exact h.1 y hy

private theorem sortNodes_sorted (l : List NodeP) : (sortNodes l).Pairwise (fun a b => a.index ≤ b.index) := by
  induction l with
  | nil => simp [sortNodes]
  | cons x t ih => exact insertNode_sorted x _ ih

private theorem sortNodes_strict (l : List NodeP) (hd : DistinctIdx l) :
    (sortNodes l).Pairwise (fun a b => a.index < b.index) := by
  have h1 := sortNodes_sorted l
  have h2 : (sortNodes l).Pairwise (fun a b => a.index ≠ b.index) := by
    have : ((sortNodes l).map (·.index)).Nodup := (((sortNodes_perm l).map _).nodup_iff).2 hd
    exact List.pairwise_map.1 this
  exact (h1.and h2).imp (fun ⟨h, h'⟩ => by omega)

private theorem strict_sorted_unique (l1 l2 : List NodeP) (hp : l1.Perm l2)
    (h1 : l1.Pairwise (fun a b => a.index < b.index)) (h2 : l2.Pairwise (fun a b => a.index < b.index)) :
    l1 = l2 := by
  induction l1 generalizing l2 with
  | nil => exact hp.nil_eq
  | cons a t1 ih =>
    cases l2 with
    | nil => exact absurd hp.symm.nil_eq (by simp)
    | cons b t2 =>
      rw [List.pairwise_cons] at h1 h2
      have hab : a = b := by
        have ha : a ∈ b :: t2 := hp.mem_iff.1 (List.mem_cons_self)
        have hb : b ∈ a :: t1 := hp.mem_iff.2 (List.mem_cons_self)
        rcases List.mem_cons.1 ha with h | ha
        · exact h
        · rcases List.mem_cons.1 hb with h | hb
          · exact h.symm
          · have := h1.1 b hb; have := h2.1 a ha; omega
      subst hab
      rw [ih t2 hp.cons_inv h1.2 h2.2]

private theorem sortNodes_eq_of_perm (l1 l2 : List NodeP) (hp : l1.Perm l2) (hd : DistinctIdx l1) :
    sortNodes l1 = sortNodes l2 := by
  have hd2 : DistinctIdx l2 := ((hp.map _).nodup_iff).1 hd
  exact strict_sorted_unique _ _ (((sortNodes_perm l1).trans hp).trans (sortNodes_perm l2).symm)
    (sortNodes_strict _ hd) (sortNodes_strict _ hd2)

/-- the group hash is independent of the order in which nodes are listed -/
theorem c17_group_perm (H : Bytes → Bytes) (g : GroupParams) (nodes' : List NodeP)
    (hperm : g.nodes.Perm nodes') (hd : DistinctIdx g.nodes) :
    groupPreimage H g = groupPreimage H { g with nodes := nodes' } := by
  simp only [groupPreimage_eq, nodesPart, sortNodes_eq_of_perm _ _ hperm hd]

/-- collision freedom of the inner hash with fixed-length output -/
structure HashOK (H : Bytes → Bytes) (n : Nat) : Prop where
  inj : ∀ a b, H a = H b → a = b
  len : ∀ a, (H a).length = n

theorem c17_group_threshold (H : Bytes → Bytes) (g : GroupParams) (t' : Nat)
    (h1 : g.threshold < 4294967296) (h2 : t' < 4294967296) (hne : g.threshold ≠ t') :
    groupPreimage H g ≠ groupPreimage H { g with threshold := t' } := by
  intro h
  simp only [groupPreimage_eq, List.append_cancel_left_eq] at h
  have := le_inj _ _ _ (List.append_inj h (by simp [le_length])).1
  omega

theorem c17_group_genesis (H : Bytes → Bytes) (g : GroupParams) (x : Int)
    (h1 : -9223372036854775808 ≤ g.genesis ∧ g.genesis < 9223372036854775808)
    (h2 : -9223372036854775808 ≤ x ∧ x < 9223372036854775808) (hne : g.genesis ≠ x) :
    groupPreimage H g ≠ groupPreimage H { g with genesis := x } := by
  intro h
  simp only [groupPreimage_eq, List.append_cancel_left_eq] at h
  exact hne (u64_inj _ _ h1 h2 (le_inj _ _ _ (List.append_inj h (by simp [le_length])).1))

/-- transition time, including 0 ↔ non-zero (a segment appears or disappears) -/
theorem c17_group_transition (H : Bytes → Bytes) (g : GroupParams) (x : Int)
    (h1 : -9223372036854775808 ≤ g.transition ∧ g.transition < 9223372036854775808)
    (h2 : -9223372036854775808 ≤ x ∧ x < 9223372036854775808) (hne : g.transition ≠ x) :
    groupPreimage H g ≠ groupPreimage H { g with transition := x } := by
  intro h
  simp only [groupPreimage_eq, List.append_cancel_left_eq, List.append_cancel_right_eq] at h
  unfold transPart at h
  by_cases ha : g.transition = 0 <;> by_cases hb : x = 0
  · omega
  · have := congrArg List.length h
    simp [ha, hb, le_length] at this
  · have := congrArg List.length h
    simp [ha, hb, le_length] at this
  · simp only [ha, hb, ne_eq, not_false_eq_true, if_true] at h
    exact hne (u64_inj _ _ h1 h2 (le_inj _ _ _ h))

theorem c17_group_id (H : Bytes → Bytes) (g : GroupParams) (id' : Bytes) (hne : canonId g.id ≠ canonId id') :
    groupPreimage H g ≠ groupPreimage H { g with id := id' } := by
  intro h
  simp only [groupPreimage_eq, List.append_cancel_left_eq] at h
  exact hne ((idPart_eq_iff _ _).1 h)

/-- distributed public key: present ↔ absent, or different coefficient bytes -/
theorem c17_group_pk (H : Bytes → Bytes) (n : Nat) (hH : HashOK H n) (hn : 0 < n) (g : GroupParams)
    (pk' : Option (List Bytes))
    (hne : (g.pk.map distPublicPreimage) ≠ (pk'.map distPublicPreimage)) :
    groupPreimage H g ≠ groupPreimage H { g with pk := pk' } := by
  intro h
  simp only [groupPreimage_eq, List.append_cancel_left_eq, List.append_cancel_right_eq] at h
  cases ha : g.pk <;> cases pk' <;> simp only [ha, pkPart] at h hne
  · exact hne rfl
  · have := congrArg List.length h
    simp [hH.len] at this; omega
  · have := congrArg List.length h
    simp [hH.len] at this; omega
  · exact hne (by simp [hH.inj _ _ h])

/-- coefficient lists of one fixed point-encoding length are determined by their concatenation -/
theorem c17_coeffs_flatten_injective (L : Nat) (hL : 0 < L) (cs cs' : List Bytes)
    (h1 : ∀ c ∈ cs, c.length = L) (h2 : ∀ c ∈ cs', c.length = L)
    (h : distPublicPreimage cs = distPublicPreimage cs') : cs = cs' := by
  unfold distPublicPreimage at h
  induction cs generalizing cs' with
  | nil =>
    cases cs' with
    | nil => rfl
    | cons b t =>
      have hl := congrArg List.length h
      have := h2 b List.mem_cons_self
      simp only [List.flatten_nil, List.flatten_cons, List.length_nil, List.length_append] at hl
      omega
  | cons a t ih =>
    cases cs' with
    | nil =>
      have hl := congrArg List.length h
      have := h1 a List.mem_cons_self
      simp only [List.flatten_nil, List.flatten_cons, List.length_nil, List.length_append] at hl
      omega
    | cons b t' =>
      simp only [List.flatten_cons] at h
      have hab := List.append_inj h (by rw [h1 a List.mem_cons_self, h2 b List.mem_cons_self])
      rw [hab.1, ih t' (fun c hc => h1 c (List.mem_cons_of_mem _ hc))
        (fun c hc => h2 c (List.mem_cons_of_mem _ hc)) hab.2]

private theorem map_inj_on {α β : Type} (f : α → β) (l1 l2 : List α)
    (hf : ∀ x ∈ l1, ∀ y ∈ l2, f x = f y → x = y) (h : l1.map f = l2.map f) : l1 = l2 := by
  induction l1 generalizing l2 with
  | nil => cases l2 with
    | nil => rfl
    | cons b t => simp at h
  | cons a t ih => cases l2 with
    | nil => simp at h
    | cons b t' =>
      simp only [List.map_cons, List.cons.injEq] at h
      rw [hf a List.mem_cons_self b List.mem_cons_self h.1,
        ih t' (fun x hx y hy => hf x (List.mem_cons_of_mem _ hx) y (List.mem_cons_of_mem _ hy)) h.2]

private theorem nodePreimage_inj (a b : NodeP) (ha : a.index < 4294967296) (hb : b.index < 4294967296)
    (h : nodePreimage a = nodePreimage b) : a = b := by
  unfold nodePreimage at h
  obtain ⟨h1, h2⟩ := List.append_inj h (by simp [le_length])
  have := le_inj _ _ _ h1
  cases a; cases b
  simp at *
  exact ⟨by omega, h2⟩

-- `hd`, `hd'` and `hlen` are not needed by the proof (the suffix after the node part is identical on both sides)
set_option linter.unusedVariables false in
/-- any change to the set of (index, key) pairs — a member key or an index — changes the preimage -/
theorem c17_group_nodes (H : Bytes → Bytes) (n : Nat) (hH : HashOK H n) (hn : 0 < n) (g : GroupParams)
    (nodes' : List NodeP) (hd : DistinctIdx g.nodes) (hd' : DistinctIdx nodes')
    (hi : ∀ x ∈ g.nodes ++ nodes', x.index < 4294967296)
    (hlen : g.nodes.length = nodes'.length) (hne : ¬ g.nodes.Perm nodes') :
    groupPreimage H g ≠ groupPreimage H { g with nodes := nodes' } := by
  intro h
  simp only [groupPreimage_eq, List.append_cancel_right_eq] at h
  unfold nodesPart at h
  have hm := c17_coeffs_flatten_injective n hn _ _ (by simp [hH.len]) (by simp [hH.len]) h
  have hs : sortNodes g.nodes = sortNodes nodes' := by
    apply map_inj_on _ _ _ _ hm
    intro x hx y hy hxy
    have hx' := (sortNodes_perm _).mem_iff.1 hx
    have hy' := (sortNodes_perm _).mem_iff.1 hy
    exact nodePreimage_inj x y (hi x (List.mem_append_left _ hx')) (hi y (List.mem_append_right _ hy'))
      (hH.inj _ _ hxy)
  exact hne (((sortNodes_perm _).symm.trans (hs ▸ List.Perm.refl _)).trans (sortNodes_perm _))

/-! ### non-vacuity -/
example : chainPreimage ⟨30, 1595431050, [0xaa, 0xbb], [0xcc], defaultId⟩ =
    [0, 0, 0, 30, 0, 0, 0, 0, 0x5f, 0x18, 0x58, 0x8a, 0xaa, 0xbb, 0xcc] := by decide
example : DistinctIdx [⟨1, [1]⟩, ⟨0, [2]⟩] := by decide

end Drand.Codec
