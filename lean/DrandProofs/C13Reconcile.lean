/-
C13 — the reconciling start-up (`Startup.reconcile`, the tree's variant is the regenerated fact `Gen.startupVariant`).

`reconcileOps m member d` are the disk steps of the real `DrandDaemon.reconcileKeyFiles` on disk `d` (tie_reconcileKeyFiles
in DrandProofs/C13.lean): nothing without a completed record, nothing when both key files carry the record's distributed
key, nothing when the group file is NEWER than the record (never downgrade), `Reset` on a node outside the recorded group
that still holds a file, otherwise `SaveGroup`, `SaveShare` from the record. Those steps are steps of the same file-write
primitive as every other Save, and a crash can hit them like any other step.

Proved here
  atomicRename   FULL C13 statement for the reconciling start-up:
                   c13_sane_of_consistent, c13_sane_completion / _eviction / _staged_beacons   (the invariant `Sane` holds in
                     every crash image of every persistence sequence the model has),
                   c13_sane_reconcile_crash     (… and in every crash image of a reconciliation: a killed restart),
                   c13_reconcile_consistent     (a reconciliation that runs to its end leaves a self-consistent node),
                   c13_reconcile_idempotent, c13_reconcile_noop_when_consistent, c13_reconcile_never_downgrades,
                   c13_files_one_epoch_fixed    (every crash point of completion / eviction / staging / beacon production,
                     then ANY number of restarts each killed at ANY point of its reconciliation, then one restart that runs
                     to its end: dkg.db one whole epoch, group file and share of the latest completed epoch — or none on
                     a node outside its group —, `Load` succeeds and the node resumes with a share of the group's epoch),
                   c13_full_code                (what holds for the tree under test when both regenerated facts say so)
  inPlace        c13_files_one_epoch_fixed_partial_inplace (a completed reconciliation repairs every image whose key files
                   do not make the decoder panic), c13_reconcile_inplace_counterexample (a crash DURING the reconciliation
                   tears a key file again: the next start panics)
  as-is start-up the `_partial` / `_exact` / `_counterexample` theorems of DrandProofs/C13.lean, unchanged
-/
import DrandProofs.C13

set_option linter.unusedSimpArgs false

namespace Drand.Persist

/-! ### shapes of `reconcileOps` -/

/-- the reconciliation does nothing, or rewrites both key files from the record on a member, or resets a non-member -/
theorem reconcileOps_cases (m : WriteMode) (member : Nat → Bool) (d : Disk) :
    reconcileOps m member d = [] ∨
    (∃ e, d.db.finished = some e ∧ member e = true ∧ reconcileOps m member d = saveGroupOps m e ++ saveShareOps m e) ∨
    (∃ e, d.db.finished = some e ∧ member e = false ∧ reconcileOps m member d = resetOps m) := by
  cases hf : d.db.finished with
  | none => left; simp [reconcileOps, hf]
  | some e =>
    by_cases h1 : (loadFile d.group == .panics || loadFile d.share == .panics) = true
    · left; simp [reconcileOps, hf, h1]
    by_cases h2 : (loadFile d.group == .val e && loadFile d.share == .val e) = true
    · left; simp [reconcileOps, hf, h1, h2]
    by_cases h3 : (loadFile d.group).newerThan e = true
    · left; simp [reconcileOps, hf, h1, h2, h3]
    cases hm : member e with
    | true => right; left; exact ⟨e, rfl, hm, by simp [reconcileOps, hf, h1, h2, h3, hm]⟩
    | false =>
      by_cases h4 : (!(loadFile d.group).decodes && !(loadFile d.share).decodes) = true
      · left; simp [reconcileOps, hf, h1, h2, h3, hm, h4]
      · right; right; exact ⟨e, rfl, hm, by simp [reconcileOps, hf, h1, h2, h3, hm, h4]⟩

-- all three shapes occur
example : reconcileOps .atomicRename exMember exDisk = [] ∧
    reconcileOps .atomicRename exMember (.clean [0] ⟨.complete 2, some 2⟩ (.whole 1) (.whole 1)) =
      saveGroupOps .atomicRename 2 ++ saveShareOps .atomicRename 2 ∧
    reconcileOps .atomicRename (fun e => e == 1) (.clean [0] ⟨.complete 2, some 2⟩ (.whole 1) .absent) = resetOps .atomicRename := by
  decide

/-! ### the invariant `Sane` -/

@[simp] private theorem lf_absent' : loadFile .absent = .missing := rfl
@[simp] private theorem lf_whole' (e : Nat) : loadFile (.whole e) = .val e := rfl

@[simp] private theorem okFile_absent (member : Nat → Bool) (fin : Option Nat) : okFile member fin .absent = true := rfl

private theorem okFile_new (member : Nat → Bool) (e : Nat) (hm : member e = true) :
    okFile member (some e) (.whole e) = true := by simp [okFile, hm]

/-- raising the completed epoch keeps the files of earlier epochs acceptable -/
private theorem okFile_mono (member : Nat → Bool) (fin : Option Nat) (e : Nat) (f : FileState)
    (hnew : ∀ p, fin = some p → p < e) (h : okFile member fin f = true) : okFile member (some e) f = true := by
  cases f with
  | absent => rfl
  | trunc => simp [okFile] at h
  | torn k c => simp [okFile] at h
  | whole k =>
    cases fin with
    | none => simp [okFile] at h
    | some p =>
      have := hnew p rfl
      simp [okFile] at h ⊢
      left
      rcases h with h | ⟨h, _⟩ <;> omega

/-- every self-consistent disk with intact key files satisfies the invariant -/
theorem c13_sane_of_consistent (member : Nat → Bool) (d : Disk)
    (hg : d.group.intact = true) (hs : d.share.intact = true)
    (h : Consistent member (recover asIs member d) = true) : Sane member d = true := by
  have shapes := start_shapes member d h
  obtain ⟨chain, ⟨cur, fin⟩, g, s, gt, st⟩ := d
  cases g <;> simp [FileState.intact] at hg <;> cases s <;> simp [FileState.intact] at hs <;>
    rcases shapes with ⟨hf, h1, h2⟩ | ⟨p, hf, hp, h1, h2⟩ | ⟨p, hf, hp, h1, h2⟩ <;>
    simp_all [Sane, okFile, loadFile]

example : exDisk.group.intact = true ∧ exDisk.share.intact = true ∧ Consistent exMember (recover asIs exMember exDisk) = true ∧
    Sane exMember exDisk = true := by decide
-- the invariant is strictly weaker than self-consistency: it holds on the disks of the ordering windows
example : Sane exMember (.clean [0, 1, 2] ⟨.complete 2, some 2⟩ (.whole 2) (.whole 1)) = true ∧
    Consistent exMember (recover asIs exMember (.clean [0, 1, 2] ⟨.complete 2, some 2⟩ (.whole 2) (.whole 1))) = false := by decide
-- … and fails on a torn file and on files ahead of the database
example : Sane exMember (.clean [] ⟨.complete 2, some 2⟩ (.torn 2 .bad) (.whole 1)) = false ∧
    Sane exMember (.clean [] ⟨.complete 1, some 1⟩ (.whole 2) (.whole 2)) = false := by decide

/-- the invariant holds in every crash image of a DKG completion on a node that is in the new group … -/
theorem c13_sane_completion (member : Nat → Bool) (d : Disk) (e : Nat) (hs : Sane member d = true)
    (hnew : ∀ p, d.db.finished = some p → p < e) (hmem : member e = true) :
    ∀ x ∈ crashImages d (completionOps .atomicRename e), Sane member x.2 = true := by
  obtain ⟨chain, ⟨cur, fin⟩, g, s, gt, st⟩ := d
  simp only [Sane, Bool.and_eq_true] at hs
  have hg' := okFile_mono member fin e g hnew hs.1
  have hs' := okFile_mono member fin e s hnew hs.2
  have hn := okFile_new member e hmem
  intro x hx
  simp [crashImages, crashImagesAux, completionOps, completionOpsIn, codeOrder, stageOps,
    storeDKGOutputOps, saveGroupOps, saveShareOps, saveOps, creatorOps, createSecureFileOps, File.tmp, allClasses, apply,
    Disk.setFile, Disk.getFile] at hx
  rcases hx with hx | hx | hx | hx | hx | hx | hx | hx | hx | hx | hx | hx | hx | hx | hx | hx | hx <;> subst hx <;>
    simp [Sane, hs.1, hs.2, hg', hs', hn]

/-- … on a node that is not in the new group … -/
theorem c13_sane_eviction (member : Nat → Bool) (d : Disk) (e : Nat) (hs : Sane member d = true)
    (hnew : ∀ p, d.db.finished = some p → p < e) :
    ∀ x ∈ crashImages d (evictionOps .atomicRename e), Sane member x.2 = true := by
  obtain ⟨chain, ⟨cur, fin⟩, g, s, gt, st⟩ := d
  simp only [Sane, Bool.and_eq_true] at hs
  have hg' := okFile_mono member fin e g hnew hs.1
  have hs' := okFile_mono member fin e s hnew hs.2
  intro x hx
  simp [crashImages, crashImagesAux, evictionOps, evictionOpsIn, codeOrder, stageOps, resetOps, apply,
    Disk.setFile] at hx
  rcases hx with hx | hx | hx | hx | hx | hx <;> subst hx <;> simp [Sane, hs.1, hs.2, hg', hs']

/-- … and of every step that does not touch the completed state (staging a DKG step, storing beacons) -/
theorem c13_sane_staged_beacons (member : Nat → Bool) (d : Disk) (e : Nat) (st : String) (rounds : List Nat)
    (hs : Sane member d = true) :
    (∀ x ∈ crashImages d (stagedOps e st), Sane member x.2 = true) ∧
    (∀ x ∈ crashImages d (beaconOps rounds), Sane member x.2 = true) := by
  constructor
  · intro x hx
    obtain ⟨h1, h2, h3, -⟩ := c13_staged_keeps_finished d e st x hx
    simpa [Sane, h1, h2, h3] using hs
  · intro x hx
    obtain ⟨k, -, -, h1, h2, h3⟩ := c13_chain_prefix d rounds x hx
    simpa [Sane, h1, h2, h3] using hs

example : ∀ x ∈ crashImages exDisk (completionOps .atomicRename 2), Sane exMember x.2 = true := by decide
example : ∀ x ∈ crashImages exDisk (evictionOps .atomicRename 2), Sane (fun e => e == 1) x.2 = true := by decide
example : ∀ x ∈ crashImages exDisk (stagedOps 2 "Executing") ++ crashImages exDisk (beaconOps [3, 4]), Sane exMember x.2 = true := by
  decide

/-- the reconciliation never touches dkg.db or the chain store, whatever the file-write primitive -/
theorem c13_reconcile_keeps_db (m : WriteMode) (member : Nat → Bool) (d : Disk) :
    ∀ y ∈ crashImages d (reconcileOps m member d), y.2.db = d.db ∧ y.2.chain = d.chain := by
  obtain ⟨chain, db, g, s, gt, st⟩ := d
  rcases reconcileOps_cases m member ⟨chain, db, g, s, gt, st⟩ with h | ⟨e, -, -, h⟩ | ⟨e, -, -, h⟩ <;> rw [h] <;> cases m <;>
    intro y hy <;>
    simp [crashImages, crashImagesAux, saveGroupOps, saveShareOps, saveOps, creatorOps, createSecureFileOps, File.tmp,
      resetOps, allClasses, apply, Disk.setFile, Disk.getFile] at hy
  all_goals
    first
    | (subst hy; exact ⟨rfl, rfl⟩)
    | (rcases hy with hy | hy | hy <;> subst hy <;> exact ⟨rfl, rfl⟩)
    | (rcases hy with hy | hy | hy | hy | hy <;> subst hy <;> exact ⟨rfl, rfl⟩)
    | (rcases hy with hy | hy | hy | hy | hy | hy | hy | hy | hy | hy | hy | hy | hy | hy <;> subst hy <;> exact ⟨rfl, rfl⟩)
    | (rcases hy with hy | hy | hy | hy | hy | hy | hy | hy | hy | hy | hy | hy | hy | hy | hy | hy <;> subst hy <;> exact ⟨rfl, rfl⟩)

/-- CRASH DURING THE RECONCILIATION: the invariant holds in every crash image of the reconciliation's own steps, so a
restart that is killed while it repairs the key folder leaves a disk the next restart copes with -/
theorem c13_sane_reconcile_crash (member : Nat → Bool) (d : Disk) (hs : Sane member d = true) :
    ∀ y ∈ crashImages d (reconcileOps .atomicRename member d), Sane member y.2 = true := by
  rcases reconcileOps_cases .atomicRename member d with h | ⟨e, hf, hm, h⟩ | ⟨e, hf, hm, h⟩ <;> rw [h]
  · intro y hy
    simp [crashImages, crashImagesAux] at hy
    subst hy
    exact hs
  · obtain ⟨chain, ⟨cur, fin⟩, g, s, gt, st⟩ := d
    simp only at hf
    subst hf
    simp only [Sane, Bool.and_eq_true] at hs
    have hn := okFile_new member e hm
    intro y hy
    simp [crashImages, crashImagesAux, saveGroupOps, saveShareOps, saveOps, creatorOps, createSecureFileOps, File.tmp,
      allClasses, apply, Disk.setFile, Disk.getFile] at hy
    rcases hy with hy | hy | hy | hy | hy | hy | hy | hy | hy | hy | hy | hy | hy | hy | hy | hy <;> subst hy <;>
      simp [Sane, hs.1, hs.2, hn]
  · obtain ⟨chain, ⟨cur, fin⟩, g, s, gt, st⟩ := d
    simp only [Sane, Bool.and_eq_true] at hs
    intro y hy
    simp [crashImages, crashImagesAux, resetOps, apply, Disk.setFile] at hy
    rcases hy with hy | hy | hy | hy | hy <;> subst hy <;> simp [Sane, hs.1, hs.2]

-- a restart killed at any of the 16 crash points of its reconciliation (8 of them with a torn temporary file)
example : (crashImages (.clean [0] ⟨.complete 2, some 2⟩ (.whole 1) (.whole 1))
      (reconcileOps .atomicRename exMember (.clean [0] ⟨.complete 2, some 2⟩ (.whole 1) (.whole 1)))).length = 16 ∧
    ∀ y ∈ crashImages (.clean [0] ⟨.complete 2, some 2⟩ (.whole 1) (.whole 1))
      (reconcileOps .atomicRename exMember (.clean [0] ⟨.complete 2, some 2⟩ (.whole 1) (.whole 1))),
      Sane exMember y.2 = true ∧ y.2.db = ⟨.complete 2, some 2⟩ := by decide

/-- what a reconciliation that runs to its end leaves in the two key files -/
private theorem run_saves (d : Disk) (e : Nat) :
    run d (saveGroupOps .atomicRename e ++ saveShareOps .atomicRename e) =
      { d with group := .whole e, share := .whole e, groupTmp := .absent, shareTmp := .absent } := by
  obtain ⟨chain, db, g, s, gt, st⟩ := d
  simp [run, saveGroupOps, saveShareOps, saveOps, creatorOps, createSecureFileOps, File.tmp, apply, Disk.setFile, Disk.getFile]

private theorem run_reset (d : Disk) :
    run d (resetOps .atomicRename) = { d with group := .absent, share := .absent, groupTmp := .absent, shareTmp := .absent } := by
  obtain ⟨chain, db, g, s, gt, st⟩ := d
  simp [run, resetOps, apply, Disk.setFile]

@[simp] private theorem run_nil (d : Disk) : run d [] = d := rfl

/-- A RECONCILIATION THAT RUNS TO ITS END: from every disk that satisfies the invariant the restarted node is
self-consistent — dkg.db untouched, group file and share the ones of the completed epoch (none on a node outside that
epoch's group, none on a fresh install), and `Load` succeeds with exactly them. -/
theorem c13_reconcile_consistent (member : Nat → Bool) (d : Disk) (hs : Sane member d = true) :
    Consistent member (recover (fixed .atomicRename) member d) = true := by
  obtain ⟨chain, ⟨cur, fin⟩, g, s, gt, st⟩ := d
  cases fin with
  | none =>
    cases g <;> cases s <;> simp [Sane, okFile] at hs
    simp [Consistent, recover, fixed, reconciled, reconcileOps, startup, startupOutcome]
  | some e =>
    -- a complete key file is of an earlier epoch, or of the recorded epoch on a member
    have key : ∀ k, okFile member (some e) (.whole k) = true →
        (k < e ∧ ¬ e < k ∧ k ≠ e) ∨ (k = e ∧ member e = true) := by
      intro k h
      simp [okFile] at h
      rcases h with h | ⟨h, hm⟩
      · left; omega
      · right; exact ⟨h, hm⟩
    simp only [Sane, Bool.and_eq_true] at hs
    obtain ⟨hg, hs⟩ := hs
    cases g with
    | trunc => simp [okFile] at hg
    | torn k c => simp [okFile] at hg
    | absent =>
      cases s with
      | trunc => simp [okFile] at hs
      | torn k c => simp [okFile] at hs
      | absent =>
        cases hm : member e <;>
          simp [Consistent, recover, fixed, reconciled, reconcileOps, run_saves, run_reset, startup, startupOutcome, bpLoadL,
            Loaded.newerThan, Loaded.decodes, hm]
      | whole k' =>
        rcases key k' hs with ⟨a, b, c⟩ | ⟨rfl, hm⟩
        · cases hm : member e <;>
            simp [Consistent, recover, fixed, reconciled, reconcileOps, run_saves, run_reset, startup, startupOutcome, bpLoadL,
              Loaded.newerThan, Loaded.decodes, hm, a, b, c]
        · simp [Consistent, recover, fixed, reconciled, reconcileOps, run_saves, run_reset, startup, startupOutcome, bpLoadL,
            Loaded.newerThan, Loaded.decodes, hm]
    | whole k =>
      rcases key k hg with ⟨a, b, c⟩ | ⟨rfl, hm⟩
      · cases s with
        | trunc => simp [okFile] at hs
        | torn k c => simp [okFile] at hs
        | absent =>
          cases hm : member e <;>
            simp [Consistent, recover, fixed, reconciled, reconcileOps, run_saves, run_reset, startup, startupOutcome, bpLoadL,
              Loaded.newerThan, Loaded.decodes, hm, a, b, c]
        | whole k' =>
          cases hm : member e <;>
            simp [Consistent, recover, fixed, reconciled, reconcileOps, run_saves, run_reset, startup, startupOutcome, bpLoadL,
              Loaded.newerThan, Loaded.decodes, hm, a, b, c]
      · cases s with
        | trunc => simp [okFile] at hs
        | torn k c => simp [okFile] at hs
        | absent =>
          simp [Consistent, recover, fixed, reconciled, reconcileOps, run_saves, run_reset, startup, startupOutcome, bpLoadL,
            Loaded.newerThan, Loaded.decodes, hm]
        | whole k' =>
          rcases key k' hs with ⟨a, b, c⟩ | ⟨rfl, -⟩
          · simp [Consistent, recover, fixed, reconciled, reconcileOps, run_saves, run_reset, startup, startupOutcome, bpLoadL,
              Loaded.newerThan, Loaded.decodes, hm, a, b, c]
          · simp [Consistent, recover, fixed, reconciled, reconcileOps, run_saves, run_reset, startup, startupOutcome, bpLoadL,
              Loaded.newerThan, Loaded.decodes, hm]

example : recover (fixed .atomicRename) exMember (.clean [0] ⟨.complete 2, some 2⟩ (.whole 1) (.whole 1)) =
    ⟨some 2, .complete 2, .val 2, .val 2, .ok 2 (.val 2), [0]⟩ := by decide

/-- the disk a reconciliation that runs to its end leaves has the database and the chain store of the disk it started on -/
theorem c13_reconciled_keeps_db (m : WriteMode) (member : Nat → Bool) (d : Disk) :
    (reconciled (fixed m) member d).db = d.db ∧ (reconciled (fixed m) member d).chain = d.chain := by
  have h := crashImages_after d (reconcileOps m member d) (reconcileOps m member d).length (Nat.le_refl _)
  rw [List.take_length] at h
  exact c13_reconcile_keeps_db m member d _ h

/-- the invariant also holds once the reconciliation has run to its end -/
theorem c13_sane_reconciled (member : Nat → Bool) (d : Disk) (hs : Sane member d = true) :
    Sane member (reconciled (fixed .atomicRename) member d) = true := by
  have h := crashImages_after d (reconcileOps .atomicRename member d) (reconcileOps .atomicRename member d).length (Nat.le_refl _)
  rw [List.take_length] at h
  exact c13_sane_reconcile_crash member d hs _ h

/-- IDEMPOTENCE: after a reconciliation that ran to its end the next start-up finds nothing to do -/
theorem c13_reconcile_idempotent (member : Nat → Bool) (d : Disk) :
    reconcileOps .atomicRename member (reconciled (fixed .atomicRename) member d) = [] := by
  have hr : reconciled (fixed .atomicRename) member d = run d (reconcileOps .atomicRename member d) := rfl
  rcases reconcileOps_cases .atomicRename member d with h | ⟨e, hf, hm, h⟩ | ⟨e, hf, hm, h⟩
  · rw [hr, h]; exact h
  · obtain ⟨chain, ⟨cur, fin⟩, g, s, gt, st⟩ := d
    simp only at hf
    subst hf
    rw [hr, h, run_saves]
    simp [reconcileOps]
  · obtain ⟨chain, ⟨cur, fin⟩, g, s, gt, st⟩ := d
    simp only at hf
    subst hf
    rw [hr, h, run_reset]
    simp [reconcileOps, Loaded.newerThan, Loaded.decodes, hm]

example : reconciled (fixed .atomicRename) exMember (.clean [0] ⟨.complete 2, some 2⟩ (.whole 1) (.whole 1)) =
      .clean [0] ⟨.complete 2, some 2⟩ (.whole 2) (.whole 2) ∧
    reconcileOps .atomicRename exMember (.clean [0] ⟨.complete 2, some 2⟩ (.whole 2) (.whole 2)) = [] := by decide

/-- A NORMAL START WRITES NOTHING: on a self-consistent disk (any file-write primitive) the reconciliation has no step —
in particular no key file is rewritten at an ordinary restart, and a node that left keeps having no key files -/
theorem c13_reconcile_noop_when_consistent (m : WriteMode) (member : Nat → Bool) (d : Disk)
    (h : Consistent member (recover asIs member d) = true) : reconcileOps m member d = [] := by
  have shapes := start_shapes member d h
  obtain ⟨chain, ⟨cur, fin⟩, g, s, gt, st⟩ := d
  rcases shapes with ⟨hf, h1, h2⟩ | ⟨p, hf, hp, h1, h2⟩ | ⟨p, hf, hp, h1, h2⟩ <;> simp only at hf h1 h2 <;> subst hf
  · simp [reconcileOps]
  · simp [reconcileOps, h1, h2, hp, Loaded.newerThan, Loaded.decodes]
  · simp [reconcileOps, h1, h2, hp, Loaded.newerThan, Loaded.decodes]

/-- NO RECORD, NOTHING RECONCILED: without a completed DKG record (fresh install, follow-only beacon, the v1-to-v2
migration branch) the reconciliation has no step -/
theorem c13_reconcile_no_record (m : WriteMode) (member : Nat → Bool) (d : Disk) (h : d.db.finished = none) :
    reconcileOps m member d = [] := by
  simp [reconcileOps, h]

/-- NEVER DOWNGRADE: a group file of a later epoch than the completed record (a database restored from a backup) is left
alone, and so is the share -/
theorem c13_reconcile_never_downgrades (m : WriteMode) (member : Nat → Bool) (d : Disk) (e : Nat)
    (hf : d.db.finished = some e) (hn : (loadFile d.group).newerThan e = true) :
    reconcileOps m member d = [] ∧ reconciled (fixed m) member d = d := by
  have h : reconcileOps m member d = [] := by
    by_cases h1 : (loadFile d.group == .panics || loadFile d.share == .panics) = true
    · simp [reconcileOps, hf, h1]
    by_cases h2 : (loadFile d.group == .val e && loadFile d.share == .val e) = true
    · simp [reconcileOps, hf, h1, h2]
    simp [reconcileOps, hf, h1, h2, hn]
  exact ⟨h, by simp [reconciled, fixed, h]⟩

example : reconcileOps .atomicRename exMember (.clean [0] ⟨.complete 1, some 1⟩ (.whole 2) (.whole 2)) = [] := by decide
example : reconcileOps .atomicRename exMember (.clean [0] ⟨.complete 2, some 2⟩ (.whole 1) (.whole 1)) ≠ [] := by decide
example : reconcileOps .atomicRename exMember exDisk = [] := by decide

/-! ### any number of killed restarts -/

/-- `KilledRestarts m member d d'`: `d'` is what is on disk after any number of restarts from `d`, each of them killed at
an arbitrary point of its reconciliation (a torn temporary file included) -/
inductive KilledRestarts (m : WriteMode) (member : Nat → Bool) : Disk → Disk → Prop where
  | none (d : Disk) : KilledRestarts m member d d
  | again {d d1 : Disk} (y : Cut × Disk) : KilledRestarts m member d d1 →
      y ∈ crashImages d1 (reconcileOps m member d1) → KilledRestarts m member d y.2

theorem c13_sane_restarts (member : Nat → Bool) (d d' : Disk) (hs : Sane member d = true)
    (h : KilledRestarts .atomicRename member d d') : Sane member d' = true ∧ d'.db = d.db ∧ d'.chain = d.chain := by
  induction h with
  | none => exact ⟨hs, rfl, rfl⟩
  | again y _ hy ih =>
    obtain ⟨h1, h2, h3⟩ := ih
    obtain ⟨k1, k2⟩ := c13_reconcile_keeps_db .atomicRename member _ y hy
    exact ⟨c13_sane_reconcile_crash member _ h1 y hy, by rw [k1, h2], by rw [k2, h3]⟩

example : KilledRestarts .atomicRename exMember (.clean [0] ⟨.complete 2, some 2⟩ (.whole 1) (.whole 1))
    ⟨[0], ⟨.complete 2, some 2⟩, .whole 2, .whole 1, .absent, .torn 2 .bad⟩ :=
  KilledRestarts.again (.during 5 .bad, _) (KilledRestarts.none _) (by decide)

/-! ### the full statement -/

/-- the persistence sequences of the model: DKG completion on a node of the new group (first DKG, joining, staying),
completion on a node outside the new group (eviction / leaving), a step that stages DKG state, beacon production -/
def IsCrashImage (member : Nat → Bool) (d : Disk) (e : Nat) (x : Cut × Disk) : Prop :=
  (member e = true ∧ x ∈ crashImages d (completionOps .atomicRename e)) ∨
  (member e = false ∧ x ∈ crashImages d (evictionOps .atomicRename e)) ∨
  (∃ st, x ∈ crashImages d (stagedOps e st)) ∨
  (∃ rounds, x ∈ crashImages d (beaconOps rounds))

/-- FULL STATEMENT (C13) for the reconciling start-up with the atomicRename file-write primitive.
A self-consistent node (`hstart`) performs any persistence sequence of the model for the next epoch `e` and dies at ANY
point of it (`x`); it is restarted ANY number of times and each of those restarts dies at ANY point of its own
reconciliation (`d'`); then a restart runs to its end. That restart finds
  * dkg.db as the first crash left it — the completed record it had before, or the new completed record together with
    the staged record of the same epoch: one whole epoch (`c13_dkgdb_whole`);
  * a group file and a share that are both the ones of the epoch the database records as completed — the latest one, or
    the previous one if the crash came before the completion was recorded —, or no key file at all on a node that is not
    in that epoch's group, or a fresh install;
  * `Load` succeeds with exactly that pair: the node resumes with a share of the group's epoch (`Resumes`);
  * its own reconciliation is then a no-op (idempotence). -/
theorem c13_files_one_epoch_fixed (member : Nat → Bool) (d : Disk) (e : Nat)
    (hg : d.group.intact = true) (hsh : d.share.intact = true)
    (hstart : Consistent member (recover asIs member d) = true)
    (hnew : ∀ p, d.db.finished = some p → p < e) :
    ∀ x, IsCrashImage member d e x → ∀ d', KilledRestarts .atomicRename member x.2 d' →
      let r := recover (fixed .atomicRename) member d'
      Consistent member r = true ∧
      (r.fin = x.2.db.finished ∧ r.cur = x.2.db.current ∧ r.chain = x.2.chain) ∧
      (x.2.db.finished = d.db.finished ∨ x.2.db = ⟨.complete e, some e⟩) ∧
      (∀ k, r.fin = some k → member k = true → Resumes member r = true) ∧
      reconcileOps .atomicRename member (reconciled (fixed .atomicRename) member d') = [] := by
  intro x hx d' hd'
  have hs := c13_sane_of_consistent member d hg hsh hstart
  have hx' : Sane member x.2 = true ∧ (x.2.db.finished = d.db.finished ∨ x.2.db = ⟨.complete e, some e⟩) := by
    rcases hx with ⟨hm, hx⟩ | ⟨hm, hx⟩ | ⟨st, hx⟩ | ⟨rounds, hx⟩
    · refine ⟨c13_sane_completion member d e hs hnew hm x hx, ?_⟩
      rcases (c13_dkgdb_whole .atomicRename d e).1 x hx with h | h
      · left; rw [h]
      · right; exact h
    · refine ⟨c13_sane_eviction member d e hs hnew x hx, ?_⟩
      rcases (c13_dkgdb_whole .atomicRename d e).2 x hx with h | h
      · left; rw [h]
      · right; exact h
    · exact ⟨(c13_sane_staged_beacons member d e st [] hs).1 x hx, Or.inl (c13_staged_keeps_finished d e st x hx).1⟩
    · obtain ⟨k, -, -, h1, -⟩ := c13_chain_prefix d rounds x hx
      exact ⟨(c13_sane_staged_beacons member d e "" rounds hs).2 x hx, Or.inl (by rw [h1])⟩
  obtain ⟨hsx, hdb⟩ := hx'
  obtain ⟨hsd', hdb', hch'⟩ := c13_sane_restarts member x.2 d' hsx hd'
  have hc := c13_reconcile_consistent member d' hsd'
  obtain ⟨k1, k2⟩ := c13_reconciled_keeps_db .atomicRename member d'
  refine ⟨hc, ⟨?_, ?_, ?_⟩, hdb, ?_, c13_reconcile_idempotent member d'⟩
  · show (reconciled (fixed .atomicRename) member d').db.finished = _
    rw [k1, hdb']
  · show (reconciled (fixed .atomicRename) member d').db.current = _
    rw [k1, hdb']
  · show (reconciled (fixed .atomicRename) member d').chain = _
    rw [k2, hch']
  · intro k hk hm
    exact c13_resumes member _ k hc hk hm

-- non-vacuity: the db-ahead window, then a restart killed after it renamed the new group file into place (group of epoch
-- 2 next to the share of epoch 1): the as-is start-up is not self-consistent on that disk, the reconciling one is
example : ∃ x d', IsCrashImage exMember exDisk 2 x ∧ KilledRestarts .atomicRename exMember x.2 d' ∧ d' ≠ x.2 ∧ x.2 ≠ exDisk ∧
    exDisk.group.intact = true ∧ exDisk.share.intact = true ∧ Consistent exMember (recover asIs exMember exDisk) = true ∧
    Consistent exMember (recover asIs exMember d') = false ∧
    Consistent exMember (recover (fixed .atomicRename) exMember d') = true :=
  ⟨(.after 1, .clean [0, 1, 2] ⟨.complete 2, some 2⟩ (.whole 1) (.whole 1)),
   .clean [0, 1, 2] ⟨.complete 2, some 2⟩ (.whole 2) (.whole 1),
   Or.inl ⟨rfl, by decide⟩,
   KilledRestarts.again (.after 3, .clean [0, 1, 2] ⟨.complete 2, some 2⟩ (.whole 2) (.whole 1)) (KilledRestarts.none _) (by decide),
   by decide, by decide, by decide, by decide, by decide, by decide, by decide⟩

/-- the six ordering windows of the as-is start-up (`c13_window_counterexample_db_ahead`, `_first_dkg`,
`_group_ahead_of_share`, `_leave`) on the SAME images: the reconciling start-up recovers each of them self-consistently
and the node resumes (or holds no key files, on the node that was left out) -/
theorem c13_windows_closed_by_reconcile :
    (recover (fixed .atomicRename) exMember (.clean [0, 1, 2] ⟨.complete 2, some 2⟩ (.whole 1) (.whole 1))).outcome = .ok 2 (.val 2) ∧
    (recover (fixed .atomicRename) exMember (.clean [] ⟨.complete 1, some 1⟩ .absent .absent)).outcome = .ok 1 (.val 1) ∧
    (recover (fixed .atomicRename) exMember (.clean [0, 1, 2] ⟨.complete 2, some 2⟩ (.whole 2) (.whole 1))).outcome = .ok 2 (.val 2) ∧
    (recover (fixed .atomicRename) exMember (.clean [] ⟨.complete 1, some 1⟩ (.whole 1) .absent)).outcome = .ok 1 (.val 1) ∧
    Consistent (fun e => e == 1) (recover (fixed .atomicRename) (fun e => e == 1) (.clean [0, 1, 2] ⟨.complete 2, some 2⟩ (.whole 1) (.whole 1))) = true ∧
    Consistent (fun e => e == 1) (recover (fixed .atomicRename) (fun e => e == 1) (.clean [0, 1, 2] ⟨.complete 2, some 2⟩ (.whole 1) .absent)) = true ∧
    (recover (fixed .atomicRename) (fun e => e == 1) (.clean [0, 1, 2] ⟨.complete 2, some 2⟩ (.whole 1) .absent)).group = .missing := by
  decide

/-- what holds for the tree under test: if its start-up path reconciles (`Gen.startupVariant`) and its `key.Save` replaces
files atomically (`Gen.keySaveVariant`), the full statement holds for `recover codeStartup` -/
theorem c13_full_code (h : codeStartup = .reconcile .atomicRename) (member : Nat → Bool) (d : Disk) (e : Nat)
    (hg : d.group.intact = true) (hsh : d.share.intact = true)
    (hstart : Consistent member (recover asIs member d) = true)
    (hnew : ∀ p, d.db.finished = some p → p < e) :
    ∀ x, IsCrashImage member d e x → ∀ d', KilledRestarts .atomicRename member x.2 d' →
      Consistent member (recover codeStartup member d') = true ∧
      (∀ k, (recover codeStartup member d').fin = some k → member k = true → Resumes member (recover codeStartup member d') = true) := by
  intro x hx d' hd'
  rw [h]
  obtain ⟨h1, -, -, h4, -⟩ := c13_files_one_epoch_fixed member d e hg hsh hstart hnew x hx d' hd'
  exact ⟨h1, h4⟩

example : codeStartup = .asIs ∨ codeStartup = .reconcile codeWriteMode := by decide

/-! ### the reconciling start-up over the in-place file-write primitive -/

private theorem run_saves_inplace (d : Disk) (e : Nat) :
    run d (saveGroupOps .inPlace e ++ saveShareOps .inPlace e) = { d with group := .whole e, share := .whole e } := by
  obtain ⟨chain, db, g, s, gt, st⟩ := d
  simp [run, saveGroupOps, saveShareOps, saveOps, creatorOps, createSecureFileOps, apply, Disk.setFile]

/-- a reconciliation (over either file-write primitive) that runs to its end, on a node that is in the recorded group:
if neither key file makes the decoder panic and the group file is not newer than the record, the node is self-consistent
afterwards — whatever else the key files were: absent, stale, empty, torn, truncated -/
theorem c13_reconcile_member_repairs (m : WriteMode) (member : Nat → Bool) (d : Disk) (e : Nat)
    (hf : d.db.finished = some e) (hm : member e = true)
    (h1 : loadFile d.group ≠ .panics) (h2 : loadFile d.share ≠ .panics) (h3 : (loadFile d.group).newerThan e = false) :
    Consistent member (recover (fixed m) member d) = true := by
  obtain ⟨chain, ⟨cur, fin⟩, g, s, gt, st⟩ := d
  simp only at hf h1 h2 h3
  subst hf
  by_cases hin : loadFile g = .val e ∧ loadFile s = .val e
  · simp [Consistent, recover, fixed, reconciled, reconcileOps, hin.1, hin.2, startup, startupOutcome, bpLoadL, hm]
  · have hops : reconcileOps m member ⟨chain, ⟨cur, some e⟩, g, s, gt, st⟩ = saveGroupOps m e ++ saveShareOps m e := by
      simp [reconcileOps, h1, h2, h3, hm, hin]
    have hr : reconciled (fixed m) member ⟨chain, ⟨cur, some e⟩, g, s, gt, st⟩ =
        run ⟨chain, ⟨cur, some e⟩, g, s, gt, st⟩ (saveGroupOps m e ++ saveShareOps m e) := by
      show run _ (reconcileOps m member _) = _
      rw [hops]
    cases m
    · simp [Consistent, recover, hr, run_saves_inplace, startup, startupOutcome, bpLoadL, hm]
    · simp [Consistent, recover, hr, run_saves, startup, startupOutcome, bpLoadL, hm]

example : Consistent exMember (recover (fixed .inPlace) exMember (.clean [0] ⟨.complete 2, some 2⟩ (.torn 2 .accepted) .trunc)) = true := by
  decide

/-- PARTIAL (in-place variant): a reconciliation that runs to its end repairs every crash image of a completion whose key
files do not make the decoder panic — torn, truncated and empty files included (they are rewritten from the record). -/
theorem c13_files_one_epoch_fixed_partial_inplace (member : Nat → Bool) (d : Disk) (e : Nat)
    (hg : d.group.intact = true) (hsh : d.share.intact = true)
    (hstart : Consistent member (recover asIs member d) = true)
    (hnew : ∀ p, d.db.finished = some p → p < e) (hmem : member e = true) :
    ∀ x ∈ crashImages d (completionOps .inPlace e), loadFile x.2.group ≠ .panics → loadFile x.2.share ≠ .panics →
      Consistent member (recover (fixed .inPlace) member x.2) = true := by
  have hsane := c13_sane_of_consistent member d hg hsh hstart
  have hnoop := c13_reconcile_noop_when_consistent .inPlace member d hstart
  obtain ⟨chain, ⟨cur, fin⟩, g, s, gt, st⟩ := d
  -- the old group file is not newer than the new record
  have hold : (loadFile g).newerThan e = false := by
    simp only [Sane, Bool.and_eq_true] at hsane
    have h := hsane.1
    cases g with
    | absent => rfl
    | trunc => rfl
    | torn k c => simp [okFile] at h
    | whole k =>
      cases fin with
      | none => simp [okFile] at h
      | some p =>
        have := hnew p rfl
        simp [okFile] at h
        simp [Loaded.newerThan]
        rcases h with h | ⟨h, _⟩ <;> omega
  intro x hx
  simp [crashImages, crashImagesAux, completionOps, completionOpsIn, codeOrder, stageOps,
    storeDKGOutputOps, saveGroupOps, saveShareOps, saveOps, creatorOps, createSecureFileOps, allClasses, apply,
    Disk.setFile] at hx
  rcases hx with hx | hx | hx | hx | hx | hx | hx | hx | hx | hx | hx | hx | hx | hx | hx <;> subst hx
  · intro _ _
    have : reconciled (fixed .inPlace) member ⟨chain, ⟨cur, fin⟩, g, s, gt, st⟩ = ⟨chain, ⟨cur, fin⟩, g, s, gt, st⟩ := by
      show run _ (reconcileOps .inPlace member _) = _
      rw [hnoop]; rfl
    simpa [recover, this, asIs] using hstart
  all_goals
    intro h1 h2
    exact c13_reconcile_member_repairs .inPlace member _ e rfl hmem h1 h2 (by first | exact hold | simp [Loaded.newerThan, loadFile])

/-- COUNTEREXAMPLE (in-place variant): the reconciliation itself is a sequence of in-place Saves, so a restart that is
killed while it rewrites the group file leaves a torn group file — on which the next start-up panics in the decoder.
(atomicRename: `c13_sane_reconcile_crash`.) -/
theorem c13_reconcile_inplace_counterexample :
    (Cut.after 1, Disk.clean [0, 1, 2] ⟨.complete 2, some 2⟩ (.whole 1) (.whole 1)) ∈ crashImages exDisk (completionOps .inPlace 2) ∧
    (Cut.during 1 .panics, Disk.clean [0, 1, 2] ⟨.complete 2, some 2⟩ (.torn 2 .panics) (.whole 1)) ∈
      crashImages (.clean [0, 1, 2] ⟨.complete 2, some 2⟩ (.whole 1) (.whole 1))
        (reconcileOps .inPlace exMember (.clean [0, 1, 2] ⟨.complete 2, some 2⟩ (.whole 1) (.whole 1))) ∧
    (recover (fixed .inPlace) exMember (.clean [0, 1, 2] ⟨.complete 2, some 2⟩ (.torn 2 .panics) (.whole 1))).outcome = .panicked ∧
    Consistent exMember (recover (fixed .inPlace) exMember (.clean [0, 1, 2] ⟨.complete 2, some 2⟩ (.torn 2 .panics) (.whole 1))) = false ∧
    Sane exMember (.clean [0, 1, 2] ⟨.complete 2, some 2⟩ (.torn 2 .panics) (.whole 1)) = false := by
  decide

example : ∃ x ∈ crashImages exDisk (completionOps .inPlace 2), x.2.group = .torn 2 .bad ∧
    Consistent exMember (recover asIs exMember x.2) = false ∧ Consistent exMember (recover (fixed .inPlace) exMember x.2) = true :=
  ⟨(.during 2 .bad, .clean [0, 1, 2] ⟨.complete 2, some 2⟩ (.torn 2 .bad) (.whole 1)), by decide, by decide, by decide, by decide⟩

end Drand.Persist
