/-
C07 — resharing keeps the chain's identity and continuity.   (PARTIAL, DESIGN.md §3 C07, §6)

Models: Drand/Beacon/Transition.lean (validateGroupTransition, chain info, vault, the handler around the transition
round, admission of partials, what the beacon process does with a DKG outcome), Drand/DKG/State.lean (ValidateProposal,
C08's model), Drand/Codec/Hash.lean (Info.Hash preimage, C17). The reshare algebra (`c07_pk_preserved` …) is
DrandProofs/Lemmas/Pedersen.lean. Continuity of the chain itself is C02 (the store invariant does not mention the
group) and C05; here: who signs from when on.

FULL STATEMENT about the terms (not provable for the code as it is; kept visible):
    a node that is a member of the running group accepts a reshare proposal only if it keeps genesis time, genesis
    seed, beacon id, **period and scheme**:
      validateProposal cur t now = ok → member cur → t.genesisTime = cur.genesisTime ∧ t.genesisSeed = cur.genesisSeed ∧
        t.beaconID = cur.beaconID ∧ t.periodSec = cur.periodSec ∧ t.schemeID = cur.schemeID
`validateReshareForRemainers` compares genesis time, seed and membership only: `c07_terms_pinned_partial` proves the
first three, `c07_period_counterexample` / `c07_scheme_counterexample` are accepted proposals that change the other
two (replayed on the real `Process.Packet` by the `dkgrun` engine), `c07_tampered_period_pipeline` says what the rest
of the pipeline does with the resulting group.
-/
import DrandProofs.C07Net
import DrandProofs.C07Chain
import DrandProofs.C07Repaired
import Drand.Beacon.Transition
import DrandProofs.C17
import DrandProofs.Lemmas.Pedersen

namespace Drand.Beacon.Transition
open Drand Drand.Codec Drand.DKG

/-! ### ties -/

theorem tie_validate_group_transition :
    Gen.validateGroupTransitionChain = [
      "oldGroup == nil && newGroup == nil => return error",
      "oldGroup == nil => return nil",
      "oldGroup.GenesisTime != newGroup.GenesisTime => return error",
      "oldGroup.Period != newGroup.Period => return error",
      "!common.CompareBeaconIDs(oldGroup.ID, newGroup.ID) => return error",
      "!bytes.Equal(oldGroup.GetGenesisSeed(), newGroup.GetGenesisSeed()) => return error",
      "newGroup.TransitionTime < now => return error",
      "=> return nil"] ∧
    Gen.validateGroupTransitionNow = "bp.opts.clock.Now().Unix()" := ⟨rfl, rfl⟩

theorem tie_vault_setinfo :
    Gen.vaultSetInfoAssigns = ["share = ks", "group = newGroup", "pub = newGroup.PublicKey.PubPoly(v.Scheme)"] := rfl

theorem tie_new_chain_info :
    Gen.newChainInfoFields = [("ID", "g.ID"), ("Period", "g.Period"), ("Scheme", "g.Scheme.Name"), ("PublicKey", "g.PublicKey.Key()"),
      ("GenesisTime", "g.GenesisTime"), ("GenesisSeed", "g.GetGenesisSeed()")] := rfl

theorem tie_transition_new_group :
    Gen.tngTargetTime = "newGroup.TransitionTime" ∧
    Gen.tngTRound = "common.CurrentRound(targetTime, h.conf.Group.Period, h.conf.Group.GenesisTime)" ∧
    Gen.tngTargetRound = "tRound - 1" ∧
    Gen.tngCallbackSkipIf = "closed || b.Round < targetRound" ∧
    Gen.tngCallbackThen = ["h.crypto.SetInfo(newGroup, newShare)", "h.thresholdMonitor.Update(newGroup.Threshold, newGroup.Len())",
      "h.chain.RemoveCallback(\"transition\")"] := ⟨rfl, rfl, rfl, rfl, rfl⟩

theorem tie_exec_finish_order :
    Gen.execFinishOrder = ["d.startDKGExecution", "if err != nil { current.Failed; d.store.SaveCurrent; return }", "current.Complete",
      "d.store.SaveFinished", "send:d.completedDKGs.Chan()"] := rfl

/-! ### identity of the chain across an accepted group transition -/

/-- what `validateGroupTransition` guarantees about the new group -/
theorem c07_validated_identity (o n : G) (now : Int) (h : validateGroupTransition (some o) (some n) now = .ok ()) :
    n.genesisTime = o.genesisTime ∧ n.periodSec = o.periodSec ∧ compareBeaconIDs o.id n.id = true ∧
    n.genesisSeed = o.genesisSeed ∧ now ≤ n.transitionTime := by
  unfold validateGroupTransition at h
  simp only at h
  split at h
  · exact absurd h (by simp)
  · split at h
    · exact absurd h (by simp)
    · split at h
      · exact absurd h (by simp)
      · split at h
        · exact absurd h (by simp)
        · split at h
          · exact absurd h (by simp)
          · rename_i h1 h2 h3 h4 h5
            simp only [bne_iff_ne, ne_eq, Decidable.not_not, Bool.not_eq_true', Bool.not_eq_false] at h1 h2 h3 h4
            refine ⟨h1.symm, h2.symm, ?_, h4.symm, by omega⟩
            cases hc : compareBeaconIDs o.id n.id with
            | true => rfl
            | false => simp [hc] at h3

private theorem idPart_of_compare (a b : Bytes) (h : compareBeaconIDs a b = true) : idPart a = idPart b := by
  unfold compareBeaconIDs at h
  simp only [Bool.or_eq_true, Bool.and_eq_true, beq_iff_eq] at h
  rcases h with ⟨ha, hb⟩ | rfl
  · simp [idPart, ha, hb]
  · rfl

/-- **chain info is constant across a validated reshare**: genesis time, seed, period, id — and the public key by
`c07_pk_preserved` (hypothesis `hpk`) — so the hash that clients pinned is unchanged. The scheme is NOT compared by
`validateGroupTransition` and does not enter the hash: equality of the whole `chain.Info` needs it as a hypothesis. -/
theorem c07_info_const (o n : G) (now : Int) (h : validateGroupTransition (some o) (some n) now = .ok ())
    (hpk : n.coeffs.headD [] = o.coeffs.headD []) :
    (chainInfo n).params.genesis = (chainInfo o).params.genesis ∧ (chainInfo n).params.seed = (chainInfo o).params.seed ∧
    (chainInfo n).params.periodSec = (chainInfo o).params.periodSec ∧ canonId (chainInfo n).params.id = canonId (chainInfo o).params.id ∧
    (chainInfo n).params.pk = (chainInfo o).params.pk ∧
    (n.scheme = o.scheme → (chainInfo n).scheme = (chainInfo o).scheme) := by
  obtain ⟨h1, h2, h3, h4, _⟩ := c07_validated_identity o n now h
  refine ⟨h1, h4, h2, ?_, hpk, fun hs => hs⟩
  have := idPart_of_compare _ _ h3
  unfold compareBeaconIDs at h3
  simp only [Bool.or_eq_true, Bool.and_eq_true, beq_iff_eq] at h3
  rcases h3 with ⟨ha, hb⟩ | heq
  · simp [chainInfo, canonId, ha, hb]
  · simp only [chainInfo, canonId, heq]; trivial

/-- the chain hash (preimage of `Info.Hash`) is unchanged by a validated reshare that preserves the public key -/
theorem c07_chain_hash_const (o n : G) (now : Int) (h : validateGroupTransition (some o) (some n) now = .ok ())
    (hpk : n.coeffs.headD [] = o.coeffs.headD []) : chainHashPre n = chainHashPre o := by
  obtain ⟨h1, h2, h3, h4, _⟩ := c07_validated_identity o n now h
  unfold chainHashPre chainPreimage chainInfo
  simp only [h1, h2, h4, hpk, idPart_of_compare _ _ h3]

/-- the chain hash depends on no field of membership, threshold, transition time, catch-up period or scheme
(`c17_chain_ignores_members` for the C17 view of a group) -/
theorem c07_hash_ignores_members (g : G) (nodes' : List GNode) (thr' : Nat) (tt' : Int) (cu' : Nat) (sch' : String)
    (rest : List Bytes) :
    chainHashPre { g with nodes := nodes', threshold := thr', transitionTime := tt', catchupSec := cu', scheme := sch',
                          coeffs := g.coeffs.headD [] :: rest } = chainHashPre g ∧
    ∀ (v v' : GroupView) (pk0 : Bytes), v.periodSec = v'.periodSec ∧ v.seed = v'.seed ∧ v.params.genesis = v'.params.genesis ∧
      v.params.id = v'.params.id → chainPreimage (chainInfoOfGroup v pk0) = chainPreimage (chainInfoOfGroup v' pk0) :=
  ⟨rfl, fun v v' pk0 h => c17_chain_ignores_members v v' pk0 h⟩

/-! ### the vault and the switch point -/

/-- `SetInfo` never writes the vault's chain info nor its scheme -/
theorem c07_setinfo_keeps_chain_info (h : Handler) (evs : List Ev) :
    (h.run evs).vault.chain = h.vault.chain ∧ (h.run evs).vault.scheme = h.vault.scheme := by
  induction evs generalizing h with
  | nil => exact ⟨rfl, rfl⟩
  | cons e t ih =>
    have step : (h.step e).vault.chain = h.vault.chain ∧ (h.step e).vault.scheme = h.vault.scheme := by
      cases e with
      | transitionNewGroup ng s i =>
        simp only [Handler.step, Handler.transitionNewGroup]
        split <;> exact ⟨rfl, rfl⟩
      | stored r =>
        simp only [Handler.step]
        split <;> exact ⟨rfl, rfl⟩
      | worker =>
        simp only [Handler.step]
        split
        · split <;> exact ⟨rfl, rfl⟩
        · exact ⟨rfl, rfl⟩
    have := ih (h.step e)
    simp only [Handler.run, List.foldl_cons] at this ⊢
    exact ⟨this.1.trans step.1, this.2.trans step.2⟩

/-- events of the chain store and its callback worker only (no further transition registered) -/
def chainEvents : List Ev → Prop
  | [] => True
  | .transitionNewGroup _ _ _ :: _ => False
  | _ :: t => chainEvents t

def storedRounds : List Ev → List Nat
  | [] => []
  | .stored r :: t => r :: storedRounds t
  | _ :: t => storedRounds t

private theorem before_inv (h : Handler) (p : Pending) (evs : List Ev) (hp : h.pending = some p)
    (hq : ∀ r ∈ h.queue, r < p.targetRound) (hc : chainEvents evs) (hs : ∀ r ∈ storedRounds evs, r < p.targetRound) :
    (h.run evs).vault = h.vault ∧ (h.run evs).pending = some p := by
  induction evs generalizing h with
  | nil => exact ⟨rfl, hp⟩
  | cons e t ih =>
    cases e with
    | transitionNewGroup ng s i => exact absurd hc (by simp [chainEvents])
    | stored r =>
      have hr : r < p.targetRound := hs r (by simp [storedRounds])
      have hs' : ∀ r ∈ storedRounds t, r < p.targetRound := fun x hx => hs x (by simp [storedRounds, hx])
      simp only [Handler.run, List.foldl_cons]
      by_cases h0 : r = 0
      · have : h.step (.stored r) = h := by simp [Handler.step, h0]
        rw [this]; exact ih h hp hq (by simpa [chainEvents] using hc) hs'
      · have e1 : h.step (.stored r) = { h with queue := h.queue ++ [r] } := by simp [Handler.step, h0, hp]
        rw [e1]
        exact ih _ hp (by
          intro x hx
          rcases List.mem_append.1 hx with hx | hx
          · exact hq x hx
          · simp at hx; omega) (by simpa [chainEvents] using hc) hs'
    | worker =>
      have hs' : ∀ r ∈ storedRounds t, r < p.targetRound := fun x hx => hs x (by simpa [storedRounds] using hx)
      simp only [Handler.run, List.foldl_cons]
      cases hqq : h.queue with
      | nil =>
        have : h.step .worker = h := by simp [Handler.step, hqq]
        rw [this]; exact ih h hp hq (by simpa [chainEvents] using hc) hs'
      | cons r rest =>
        have hr : r < p.targetRound := hq r (by simp [hqq])
        have e1 : h.step .worker = { h with queue := rest } := by simp [Handler.step, hqq, hp, hr]
        rw [e1]
        exact ih _ hp (fun x hx => hq x (by simp [hqq, hx])) (by simpa [chainEvents] using hc) hs'

/-- what a successful `TransitionNewGroup` registers: the callback with target round `tRound − 1`, an empty job
queue; the vault is not touched yet -/
theorem c07_registration (h : Handler) (ng : G) (s i : Nat)
    (hok : Time.timeOfRoundM h.periodSec h.genesis (Time.currentRoundM ng.transitionTime h.periodSec h.genesis) = ng.transitionTime) :
    (h.transitionNewGroup ng s i).pending =
        some ⟨(Time.currentRoundM ng.transitionTime h.periodSec h.genesis + Time.two64 - 1) % Time.two64, ng, s, i⟩ ∧
    (h.transitionNewGroup ng s i).queue = [] ∧ (h.transitionNewGroup ng s i).vault = h.vault ∧
    (h.transitionNewGroup ng s i).fatal = h.fatal := by
  unfold Handler.transitionNewGroup
  simp [hok]

/-- **before the switch point**: as long as every round stored since the registration is below the target round
`tRound − 1`, the live group, share and public polynomial are the old ones — under every interleaving of stores and
callback-worker steps -/
theorem c07_switch_before (h : Handler) (p : Pending) (evs : List Ev) (hp : h.pending = some p)
    (hq : ∀ r ∈ h.queue, r < p.targetRound) (hc : chainEvents evs) (hs : ∀ r ∈ storedRounds evs, r < p.targetRound) :
    (h.run evs).vault = h.vault :=
  (before_inv h p evs hp hq hc hs).1

/-- **at the switch point**: when the callback worker runs on a stored round ≥ `tRound − 1`, the vault takes the new
group, share and public polynomial in one step and the callback is removed -/
theorem c07_switch_at (h : Handler) (p : Pending) (r : Nat) (rest : List Nat) (hp : h.pending = some p)
    (hq : h.queue = r :: rest) (hr : p.targetRound ≤ r) :
    (h.step .worker).vault = h.vault.setInfo p.group p.share p.shareIndex ∧ (h.step .worker).pending = none ∧
    (h.step .worker).vault.group = p.group ∧ (h.step .worker).vault.pub = p.group.coeffs ∧ (h.step .worker).vault.share = p.share := by
  have : ¬ r < p.targetRound := by omega
  simp [Handler.step, hq, hp, this, Vault.setInfo]

private theorem inert (h : Handler) (evs : List Ev) (hp : h.pending = none) (hc : chainEvents evs) :
    (h.run evs).vault = h.vault := by
  induction evs generalizing h with
  | nil => rfl
  | cons e t ih =>
    cases e with
    | transitionNewGroup ng s i => exact absurd hc (by simp [chainEvents])
    | stored r =>
      have : h.step (.stored r) = h := by simp [Handler.step, hp]
      simp only [Handler.run, List.foldl_cons, this]
      exact ih h hp (by simpa [chainEvents] using hc)
    | worker =>
      have : h.step .worker = h := by
        simp only [Handler.step, hp]
        split <;> simp_all
      simp only [Handler.run, List.foldl_cons, this]
      exact ih h hp (by simpa [chainEvents] using hc)

private def syncEvents (rounds : List Nat) : List Ev := rounds.flatMap fun r => [.stored r, .worker]

private theorem syncEvents_chain (rounds : List Nat) : chainEvents (syncEvents rounds) := by
  induction rounds with
  | nil => simp [syncEvents, chainEvents]
  | cons r t ih => simpa [syncEvents, chainEvents] using ih

/-- **the switch point**: with the callback worker keeping up (it runs after every store — the harness's observation
points; C02: rounds are stored one by one in increasing order), the live group is the old one while all stored rounds
are < `tRound − 1` and the new one from the first stored round ≥ `tRound − 1` on, for good. -/
theorem c07_switch_point (h : Handler) (p : Pending) (rounds : List Nat) (hp : h.pending = some p) (hq : h.queue = [])
    (h0 : ∀ r ∈ rounds, r ≠ 0) :
    (h.run (rounds.flatMap fun r => [.stored r, .worker])).vault =
      if rounds.any (fun r => p.targetRound ≤ r) then h.vault.setInfo p.group p.share p.shareIndex else h.vault := by
  induction rounds generalizing h with
  | nil => simp [Handler.run]
  | cons r t ih =>
    have hr0 : r ≠ 0 := h0 r (by simp)
    have e1 : h.step (.stored r) = { h with queue := [r] } := by simp [Handler.step, hr0, hp, hq]
    simp only [List.flatMap_cons, Handler.run, List.foldl_append, List.foldl_cons, List.foldl_nil, e1]
    by_cases hlt : r < p.targetRound
    · have e2 : ({ h with queue := [r] } : Handler).step .worker = { h with queue := [] } := by simp [Handler.step, hp, hlt]
      rw [e2]
      have := ih { h with queue := [] } hp rfl (fun x hx => h0 x (by simp [hx]))
      simp only [Handler.run] at this
      rw [this]
      have : ¬ p.targetRound ≤ r := by omega
      simp [this]
    · have e2 : ({ h with queue := [r] } : Handler).step .worker =
          { h with vault := h.vault.setInfo p.group p.share p.shareIndex, pending := none, queue := [] } := by
        simp [Handler.step, hp, hlt]
      rw [e2]
      have hin := inert { h with vault := h.vault.setInfo p.group p.share p.shareIndex, pending := none, queue := [] }
        (syncEvents t) rfl (syncEvents_chain t)
      simp only [Handler.run, syncEvents] at hin
      rw [hin]
      have : p.targetRound ≤ r := by omega
      simp [this]

/-! ### only shares of the live group count -/

/-- after the switch a partial signature that is valid only under the previous polynomial (the real verifier's
answer under the new public polynomial is "invalid") is never handed to the aggregator -/
theorem c07_old_shares_rejected (v : Vault) (ng : G) (ks ki : Nat) (o : CryptoOracle) (self : String)
    (nextRound lastStored pRound : Nat) (msg sig : Bytes) (hinv : o.verifyPartial ng.coeffs msg sig = false) :
    processPartial (v.setInfo ng ks ki) o self nextRound lastStored pRound msg sig ≠ .accepted := by
  unfold processPartial
  simp only [Vault.setInfo]
  split
  · simp
  · split
    · simp
    · split
      · simp
      · split
        · simp
        · split
          · simp
          · simp [hinv]

/-- a member that left (its index is not in the new group) is refused whatever it signs -/
theorem c07_left_member_rejected (v : Vault) (ng : G) (ks ki : Nat) (o : CryptoOracle) (self : String)
    (nextRound lastStored pRound : Nat) (msg sig : Bytes) (idx : Nat) (hidx : o.indexOf sig = some idx)
    (hgone : ∀ n ∈ ng.nodes, n.index ≠ idx) :
    processPartial (v.setInfo ng ks ki) o self nextRound lastStored pRound msg sig ≠ .accepted := by
  unfold processPartial
  simp only [Vault.setInfo, hidx]
  have : ng.nodes.find? (fun n => n.index == idx) = none := by
    rw [List.find?_eq_none]
    intro n hn
    simpa using hgone n hn
  split
  · simp
  · split
    · simp
    · simp [this]

/-! ### failed, aborted and refused reshares leave the old group in charge -/

/-- a failed / aborted / timed-out reshare reaches the beacon process not at all: memory, key files, vault and
handler are untouched (`executeAndFinishDKG` signals only after `SaveFinished`: `tie_exec_finish_order`; that the
finished DKG record is untouched is C08 `c08_finished_only_by_completion`) -/
theorem c07_failed_keeps_old (bp : BP) (now : Int) :
    bp.onOutcome .failed now = bp ∧ bp.onOutcome .aborted now = bp ∧ bp.onOutcome .timedOut now = bp :=
  ⟨rfl, rfl, rfl⟩

/-- a completed DKG whose group a remaining member refuses (`validateGroupTransition` fails) changes nothing on that
member: it keeps group, share, key files and vault of the old epoch — while its DKG database already holds the new
epoch (C13 looks at that divergence) -/
theorem c07_refused_transition_keeps_old (bp : BP) (old : Option G) (new : G) (s i : Nat) (now : Int) (e : VErr)
    (hwas : (match old with | some o => inGroup o bp.addr | none => false) = true) (his : inGroup new bp.addr = true)
    (hv : validateGroupTransition bp.group (some new) now = .error e) :
    bp.onDKGCompleted old new s i now = (bp, some (.transition e)) ∧ bp.onOutcome (.completed old new s i) now = bp := by
  have h1 : bp.onDKGCompleted old new s i now = (bp, some (.transition e)) := by
    cases old with
    | none => simp at hwas
    | some o =>
      simp only at hwas
      unfold BP.onDKGCompleted
      simp only [hwas, his, if_true, hv]
  exact ⟨h1, by simp [BP.onOutcome, h1]⟩

/-! ### a node that leaves -/

/-- **The leaver's stop time, code as it is.** `leaveNetwork` computes the time at which the leaving node's handler is
to stop from `bp.group` — the group it is LEAVING — not from the new group: whenever that group's own transition time is
not in the future (always, outside back-to-back resharings: it is the genesis time for the first group, the previous
transition otherwise) the stop time lies in the past, `Handler.StopAt` refuses it ("can't stop in the past or present")
and the handler keeps running. Replayed on the real `onDKGCompleted` by engine `net` (script leaver-core). -/
theorem c07_leaver_stop_time_counterexample (bp : BP) (old new : G) (s i : Nat) (now : Int)
    (hwas : inGroup old bp.addr = true) (hnot : inGroup new bp.addr = false) (cur : G) (hcur : bp.group = some cur)
    (hpast : cur.transitionTime ≤ now) :
    ∃ t, (bp.onDKGCompleted (some old) new s i now).1.stopAt = some t ∧ t < now ∧ t = cur.transitionTime - 1 := by
  refine ⟨cur.transitionTime - 1, ?_, by omega, rfl⟩
  unfold BP.onDKGCompleted
  simp [hwas, hnot, hcur]

/-! ### which terms a member pins -/

/-- what `ValidateProposal` pins for a node that is in the network (neither Fresh nor Left) when it accepts a reshare
proposal: beacon id, genesis time, genesis seed and — since drand commit "fix: members refuse a reshare proposal that
changes the scheme or the beacon period" — scheme and period, i.e. every parameter of the chain's identity. (Before
that repair only the first three were pinned: a proposal with period 31 s instead of 30 s, or with another scheme over
the same key group, was accepted by a member; witnesses corpus/C07/tampered_period.json, tampered_scheme.json.) -/
theorem c07_terms_pinned (cur : DBState) (t : Terms) (now : Int) (h : validateProposal cur t now = .ok ())
    (hep : t.epoch ≠ 1) (hmem : cur.state ≠ .fresh ∧ cur.state ≠ .left) :
    t.beaconID = cur.beaconID ∧ t.genesisTime = cur.genesisTime ∧ t.genesisSeed = cur.genesisSeed ∧
    t.schemeID = cur.schemeID ∧ t.periodSec = cur.periodSec := by
  unfold validateProposal at h
  have hb : t.beaconID = cur.beaconID := by
    by_cases hb : cur.beaconID = t.beaconID
    · exact hb.symm
    · simp [validateForAllDKGs, validateForAllDKGsV, hb, bind, Except.bind, throw, throwThe, MonadExceptOf.throw] at h
  refine ⟨hb, ?_⟩
  cases h1 : validateForAllDKGs cur t now with
  | error e => simp [h1, bind, Except.bind] at h
  | ok u =>
    have hep' : (t.epoch == 1) = false := by simpa using hep
    simp only [h1, bind, Except.bind, hep', Bool.false_eq_true, if_false] at h
    cases h2 : validateReshareTerms cur t with
    | error e => simp [h2] at h
    | ok u2 =>
      have hm : (cur.state != .fresh && cur.state != .left) = true := by simp [hmem.1, hmem.2]
      simp only [h2, hm, if_true] at h
      unfold validateReshareForRemainers at h
      by_cases hg : t.genesisTime = cur.genesisTime
      · by_cases hsd : t.genesisSeed = cur.genesisSeed
        · by_cases hsc : t.schemeID = cur.schemeID
          · by_cases hpe : t.periodSec = cur.periodSec
            · exact ⟨hg, hsd, hsc, hpe⟩
            · simp [hg, hsd, hsc, hpe, bind, Except.bind, throw, throwThe, MonadExceptOf.throw] at h
          · simp [hg, hsd, hsc, bind, Except.bind, throw, throwThe, MonadExceptOf.throw] at h
        · simp [hg, hsd, bind, Except.bind, throw, throwThe, MonadExceptOf.throw] at h
      · simp [hg, bind, Except.bind, throw, throwThe, MonadExceptOf.throw] at h

private def cxP (k : UInt8) (a : String) : Participant := { addr := a, key := [k], sig := List.replicate 96 k, scheme := "pedersen-bls-chained" }
private def cxCur : DBState :=
  { beaconID := "default", epoch := 1, state := .complete, threshold := 2, timeout := 0, schemeID := "pedersen-bls-chained",
    genesisTime := 1000, genesisSeed := [9], catchupSec := 1, periodSec := 30, leader := some (cxP 1 "a"),
    joining := [cxP 1 "a", cxP 2 "b", cxP 3 "c"],
    finalGroup := some { nodes := [cxP 1 "a", cxP 2 "b", cxP 3 "c"], genesisTime := 1000, genesisSeed := [9] }, keyShare := some 1 }
private def cxTerms : Terms :=
  { beaconID := "default", epoch := 2, threshold := 2, timeout := 5000, schemeID := "pedersen-bls-chained", genesisTime := 1000,
    genesisSeed := [9], catchupSec := 1, periodSec := 30, leader := cxP 1 "a", joining := [],
    remaining := [cxP 1 "a", cxP 2 "b", cxP 3 "c"], leaving := [] }

/-- the former counterexamples are now refused: a member of the running group (state Complete, period 30 s, chained
scheme) rejects a leader's reshare proposal with period 31 s, and one naming another scheme over the same key group -/
theorem c07_period_change_refused :
    (validateProposal cxCur cxTerms 2000).toBool = true ∧
    (validateProposal cxCur { cxTerms with periodSec := 31 } 2000).toBool = false ∧ cxCur.periodSec = 30 := by decide

theorem c07_scheme_change_refused :
    (validateProposal cxCur { cxTerms with schemeID := "pedersen-bls-unchained" } 2000).toBool = false := by decide

private def cxG (p : Nat) (sch : String) (tt : Int) : G :=
  { id := [], threshold := 2, periodSec := p, scheme := sch, catchupSec := 1, genesisTime := 1000, genesisSeed := [9],
    transitionTime := tt, nodes := [⟨0, "a", [1], [1]⟩, ⟨1, "b", [2], [2]⟩], coeffs := [[5], [6]] }

/-- `validateGroupTransition` does not look at the scheme: a new group under another scheme is accepted -/
theorem c07_scheme_unchecked_counterexample :
    validateGroupTransition (some (cxG 30 "pedersen-bls-chained" 0)) (some (cxG 30 "pedersen-bls-unchained" 3000)) 2000 = .ok () ∧
    chainHashPre (cxG 30 "pedersen-bls-unchained" 3000) = chainHashPre (cxG 30 "pedersen-bls-chained" 0) := by decide

/-- **what the rest of the pipeline does with a group whose period was changed**: every member that remains refuses the
transition (`validateGroupTransition` → "different period") and keeps signing with the old group and share, although
its DKG database has completed the new epoch; a node that joins has no old group to compare with, stores the new
group and derives a different chain hash. -/
theorem c07_tampered_period_pipeline (o n : G) (now : Int) (hg : n.genesisTime = o.genesisTime) (hp : n.periodSec ≠ o.periodSec) :
    validateGroupTransition (some o) (some n) now = .error .period ∧
    (∀ (bp : BP) (s i : Nat), bp.group = some o → inGroup o bp.addr = true → inGroup n bp.addr = true →
        bp.onOutcome (.completed (some o) n s i) now = bp) ∧
    (∀ (bp : BP) (s i : Nat), bp.group = none → inGroup o bp.addr = false → inGroup n bp.addr = true →
        (bp.onOutcome (.completed (some o) n s i) now).group = some n ∧ (bp.onOutcome (.completed (some o) n s i) now).fileGroup = some n) ∧
    (n.periodSec < 4294967296 → o.periodSec < 4294967296 →
        chainPreimage (chainInfo n).params ≠ chainPreimage { (chainInfo n).params with periodSec := o.periodSec }) := by
  have hv : validateGroupTransition (some o) (some n) now = .error .period := by
    unfold validateGroupTransition
    have : (o.periodSec != n.periodSec) = true := by simpa using fun h => hp h.symm
    simp [hg, this]
  refine ⟨hv, ?_, ?_, ?_⟩
  · intro bp s i hb hw hi
    exact (c07_refused_transition_keeps_old bp (some o) n s i now .period (by simpa using hw) hi (by rw [hb]; exact hv)).2
  · intro bp s i hb hw hi
    simp [BP.onOutcome, BP.onDKGCompleted, hw, hi, hb, BP.storeDKGOutput]
  · intro h1 h2
    exact c17_chain_period (chainInfo n).params o.periodSec h1 h2 hp

/-! ### non-vacuity -/

example : validateGroupTransition (some (cxG 30 "s" 0)) (some (cxG 30 "s" 3000)) 2000 = .ok () := by decide
example : validateGroupTransition (some (cxG 30 "s" 0)) (some (cxG 31 "s" 3000)) 2000 = .error .period := by decide
example : validateGroupTransition (some (cxG 30 "s" 0)) (some (cxG 30 "s" 1000)) 2000 = .error .past := by decide

private def cxH : Handler := { periodSec := 2, genesis := 100, vault := newVault (cxG 2 "s" 0) 1 0 }
/-- registration at transition time 120 = start of round 11: target round 10 -/
example : (cxH.transitionNewGroup (cxG 2 "s" 120) 2 1).pending.map (·.targetRound) = some 10 ∧
          (cxH.transitionNewGroup (cxG 2 "s" 120) 2 1).fatal = false := by decide
/-- a transition time that is not the start of a round is fatal -/
example : (cxH.transitionNewGroup (cxG 2 "s" 121) 2 1).fatal = true := by decide
example : (((cxH.transitionNewGroup (cxG 2 "s" 120) 2 1).run [.stored 8, .worker, .stored 9, .worker]).vault.share = 1) ∧
          (((cxH.transitionNewGroup (cxG 2 "s" 120) 2 1).run [.stored 8, .worker, .stored 9, .worker, .stored 10, .worker]).vault.share = 2) ∧
          (((cxH.transitionNewGroup (cxG 2 "s" 120) 2 1).run [.stored 9, .stored 10, .stored 11]).vault.share = 1) := by decide
example : processPartial ((newVault (cxG 2 "s" 0) 1 0).setInfo (cxG 2 "s" 120) 2 0)
    { indexOf := fun _ => some 1, verifyPartial := fun pub _ _ => pub == [[7]] } "a" 12 10 11 [] [] = .invalidPartial := by decide
example : processPartial (newVault (cxG 2 "s" 0) 1 0)
    { indexOf := fun _ => some 1, verifyPartial := fun _ _ _ => true } "a" 12 10 11 [] [] = .accepted := by decide

end Drand.Beacon.Transition
