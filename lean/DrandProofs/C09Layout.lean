/-
C09 — the signed layout at the level of BYTES (model: Drand/DKG/Layout.lean).

`c09_every_term_and_boundary_covered` (DrandProofs/C09.lean) says the signed message binds every term and every list
boundary when the message is read as a sequence of typed fields. `messageForSigning` however writes raw bytes, one field
after the other, without lengths. Proved here:
* `c09_signed_bytes_injective_partial`  equal signed bytes ⇒ equal fields, PROVIDED every signature field in both records has
                                         one known length, the text fields are plain text without line feeds, and the numbers
                                         fit — the hypothesis the proof forced;
* `c09_layout_boundary_counterexample`  the code as it is does not enforce that for the leader's, the remaining and the leaving
                                         participants' signature fields: two different records, one byte string (finding "list boundary inside a signature field":
                                         a relay can move a list boundary for any receiver that does not hold the previous
                                         group — joiners, fresh or left nodes — without breaking the leader's signature);
* `c09_fixed_enforces_sig_lengths`, `c09_signed_bytes_bind_terms_fixed`  the variant with reports/dkg_fix_1.diff
                                         (validateForAllDKGs refuses signatures of another length than the scheme's).
Which variant the code is: regenerated fact `Gen.DKGAuth.validatesSignatureLengths` (`tie_sig_length_variant`).
-/
import Drand.DKG.Layout
import DrandProofs.C09

namespace Drand.DKG
open Drand

/-- the code as repaired (355471af): proposal validation refuses participant signatures whose length is not the scheme's, for
joining, remaining, leaving and the leader (the model's `validateForAllDKGs` is `validateForAllDKGsV` of this fact; before the
repair the fact was `false` and `c09_boundary_replay_counterexample_asis` below was reachable on the real process) -/
theorem tie_sig_length_variant : Gen.DKGAuth.validatesSignatureLengths = true ∧ Gen.DKGAuth.signatureLengthsOver =
    "util.Concat(terms.Joining,terms.Remaining,terms.Leaving,[]*drand.Participant{terms.Leader})" := ⟨rfl, rfl⟩

/-- printable 7-bit text without a line feed -/
def Plain (s : String) : Prop := ∀ c ∈ s.toList, c.toNat < 128 ∧ c ≠ '\n'
instance (s : String) : Decidable (Plain s) := by unfold Plain; infer_instance

private theorem strBytes_append (a b : String) : strBytes (a ++ b) = strBytes a ++ strBytes b := by
  simp [strBytes, String.toList_append]

private theorem ofNat_inj_of_lt {a b : Nat} (ha : a < 256) (hb : b < 256) (h : UInt8.ofNat a = UInt8.ofNat b) : a = b := by
  have := congrArg UInt8.toNat h
  simp [UInt8.toNat_ofNat'] at this
  omega

private theorem strBytes_inj (a b : String) (ha : Plain a) (hb : Plain b) (h : strBytes a = strBytes b) : a = b := by
  apply String.ext
  unfold strBytes at h
  have key : ∀ (l m : List Char), (∀ c ∈ l, c.toNat < 128) → (∀ c ∈ m, c.toNat < 128) →
      l.map (fun c => UInt8.ofNat c.toNat) = m.map (fun c => UInt8.ofNat c.toNat) → l = m := by
    intro l
    induction l with
    | nil => intro m _ _ h; cases m with
      | nil => rfl
      | cons _ _ => simp at h
    | cons x xs ih =>
      intro m hl hm h
      cases m with
      | nil => simp at h
      | cons y ys =>
        simp only [List.map_cons, List.cons.injEq] at h
        have hx := hl x (List.mem_cons_self)
        have hy := hm y (List.mem_cons_self)
        have : x.toNat = y.toNat := ofNat_inj_of_lt (by omega) (by omega) h.1
        have hxy : x = y := Char.toNat_inj.1 this
        rw [hxy, ih ys (fun c hc => hl c (List.mem_cons_of_mem _ hc)) (fun c hc => hm c (List.mem_cons_of_mem _ hc)) h.2]
  exact key _ _ (fun c hc => (ha c hc).1) (fun c hc => (hb c hc).1) h

private theorem nl_not_mem (a : String) (ha : Plain a) : (10 : UInt8) ∉ strBytes a := by
  unfold strBytes
  intro hm
  rw [List.mem_map] at hm
  obtain ⟨c, hc, h⟩ := hm
  have h1 := (ha c hc).1
  have : c.toNat = 10 := ofNat_inj_of_lt (by omega) (by decide) h
  apply (ha c hc).2
  apply Char.toNat_inj.1
  simpa using this

private theorem delim_split (x : UInt8) : ∀ (a a' r r' : Bytes), x ∉ a → x ∉ a' → a ++ x :: r = a' ++ x :: r' → a = a' ∧ r = r'
  | [], [], r, r', _, _, h => by simpa using h
  | [], y :: ys, r, r', _, h2, h => by
    simp only [List.nil_append, List.cons_append, List.cons.injEq] at h
    exact absurd (h.1 ▸ List.mem_cons_self) h2
  | y :: ys, [], r, r', h1, _, h => by
    simp only [List.nil_append, List.cons_append, List.cons.injEq] at h
    exact absurd (h.1 ▸ List.mem_cons_self) h1
  | y :: ys, z :: zs, r, r', h1, h2, h => by
    simp only [List.cons_append, List.cons.injEq] at h
    obtain ⟨ih1, ih2⟩ := delim_split x ys zs r r' (fun hm => h1 (List.mem_cons_of_mem _ hm)) (fun hm => h2 (List.mem_cons_of_mem _ hm)) h.2
    exact ⟨by rw [h.1, ih1], ih2⟩

private theorem le32_length (n : Nat) : (le32 n).length = 4 := rfl
private theorem le32_inj (n m : Nat) (hn : n < 4294967296) (hm : m < 4294967296) (h : le32 n = le32 m) : n = m := by
  unfold le32 at h
  simp only [List.cons.injEq, and_true] at h
  obtain ⟨h0, h1, h2, h3⟩ := h
  have e0 := ofNat_inj_of_lt (Nat.mod_lt _ (by decide)) (Nat.mod_lt _ (by decide)) h0
  have e1 := ofNat_inj_of_lt (Nat.mod_lt _ (by decide)) (Nat.mod_lt _ (by decide)) h1
  have e2 := ofNat_inj_of_lt (Nat.mod_lt _ (by decide)) (Nat.mod_lt _ (by decide)) h2
  have e3 := ofNat_inj_of_lt (Nat.mod_lt _ (by decide)) (Nat.mod_lt _ (by decide)) h3
  omega

private theorem timeBytes_length (t : Int) : (timeBytes t).length = 15 := rfl
/-- times between year 1 and the year 292277026596 (what `MarshalBinary` can represent) -/
def TimeOK (t : Int) : Prop := 0 ≤ t + unixToInternal ∧ t + unixToInternal < 18446744073709551616
instance (t : Int) : Decidable (TimeOK t) := by unfold TimeOK; infer_instance
private theorem timeBytes_inj (t u : Int) (ht : TimeOK t) (hu : TimeOK u) (h : timeBytes t = timeBytes u) : t = u := by
  unfold timeBytes be64 at h
  simp only [List.cons_append, List.nil_append, List.cons.injEq, true_and, and_true] at h
  obtain ⟨h0, h1, h2, h3, h4, h5, h6, h7⟩ := h
  have e0 := ofNat_inj_of_lt (Nat.mod_lt _ (by decide)) (Nat.mod_lt _ (by decide)) h0
  have e1 := ofNat_inj_of_lt (Nat.mod_lt _ (by decide)) (Nat.mod_lt _ (by decide)) h1
  have e2 := ofNat_inj_of_lt (Nat.mod_lt _ (by decide)) (Nat.mod_lt _ (by decide)) h2
  have e3 := ofNat_inj_of_lt (Nat.mod_lt _ (by decide)) (Nat.mod_lt _ (by decide)) h3
  have e4 := ofNat_inj_of_lt (Nat.mod_lt _ (by decide)) (Nat.mod_lt _ (by decide)) h4
  have e5 := ofNat_inj_of_lt (Nat.mod_lt _ (by decide)) (Nat.mod_lt _ (by decide)) h5
  have e6 := ofNat_inj_of_lt (Nat.mod_lt _ (by decide)) (Nat.mod_lt _ (by decide)) h6
  have e7 := ofNat_inj_of_lt (Nat.mod_lt _ (by decide)) (Nat.mod_lt _ (by decide)) h7
  unfold TimeOK at ht hu
  have hT : (t + unixToInternal).toNat < 18446744073709551616 := by omega
  have hU : (u + unixToInternal).toNat < 18446744073709551616 := by omega
  have hTU : (t + unixToInternal).toNat = (u + unixToInternal).toNat := by
    generalize (t + unixToInternal).toNat = T at *
    generalize (u + unixToInternal).toNat = U at *
    omega
  omega

def labOf : Nat → String
  | 0 => "\nJoiner:" | 1 => "\nRemainer:" | _ => "\nLeaver:"

/-- the participants of the three lists in the order they are written, each with the number of its list -/
def tagged (t : Terms) : List (Nat × Participant) :=
  t.joining.map (fun p => (0, p)) ++ t.remaining.map (fun p => (1, p)) ++ t.leaving.map (fun p => (2, p))

def tagSegs (kp : Nat × Participant) : List Seg := [Seg.str (labOf kp.1 ++ kp.2.addr ++ "\nSig:"), Seg.bytes kp.2.sig]

def termHead (t : Terms) : List Seg :=
  [.str "Proposal:\n", .str (t.beaconID ++ "\n"), .u32 t.epoch, .str ("\nLeader:" ++ t.leader.addr ++ "\n"),
   .bytes t.leader.sig, .u32 t.threshold, .time t.timeout, .u32 t.catchupSec, .u32 t.periodSec,
   .str ("\nScheme: " ++ t.schemeID ++ "\n"), .time t.genesisTime]

def pktHead (b : String) (p : Packet) : List Seg :=
  [.str ("beaconID:" ++ b ++ "\n")] ++
  (match p with
   | .proposal pt => [.str "Proposal:", .str (pt.beaconID ++ "\n"), .u32 pt.epoch,
                      .str ("\nLeader:" ++ pt.leader.addr ++ "\n"), .bytes pt.leader.sig]
   | .accept a => [.str ("Accepted:" ++ a.addr ++ "\n")]
   | .reject r => [.str ("Rejected:" ++ r.addr ++ "\n")]
   | .abort reason => [.str ("Aborted:" ++ reason ++ "\n")]
   | .execute tm => [.str "Execute:", .time tm])

private theorem mfs_split (b : String) (pk : Packet) (t : Terms) :
    messageForSigning b pk t = pktHead b pk ++ (termHead t ++ (tagged t).flatMap tagSegs) := by
  unfold messageForSigning pktHead termHead tagged tagSegs labOf
  simp only [List.append_assoc, List.flatMap_append, List.flatMap_map, List.cons_append, List.nil_append]
  rfl

private theorem encodeSegs_append (a b : List Seg) : encodeSegs (a ++ b) = encodeSegs a ++ encodeSegs b := by
  simp [encodeSegs]

private theorem encodeSegs_cons (a : Seg) (b : List Seg) : encodeSegs (a :: b) = a.encode ++ encodeSegs b := by
  simp [encodeSegs]

private theorem strBytes_nl : strBytes "\n" = [10] := by decide
private theorem strBytes_sig : strBytes "\nSig:" = [10, 83, 105, 103, 58] := by decide
private theorem strBytes_lab0 : strBytes "\nJoiner:" = [10, 74, 111, 105, 110, 101, 114, 58] := by decide
private theorem strBytes_lab1 : strBytes "\nRemainer:" = [10, 82, 101, 109, 97, 105, 110, 101, 114, 58] := by decide
private theorem strBytes_lab2 : strBytes "\nLeaver:" = [10, 76, 101, 97, 118, 101, 114, 58] := by decide

private theorem tag_encode (kp : Nat × Participant) (rest : List Seg) :
    encodeSegs (tagSegs kp ++ rest) =
      strBytes (labOf kp.1) ++ (strBytes kp.2.addr ++ (10 :: ([83, 105, 103, 58] ++ (kp.2.sig ++ encodeSegs rest)))) := by
  unfold tagSegs
  simp only [List.cons_append, List.nil_append, encodeSegs_cons, Seg.encode, strBytes_append, strBytes_sig, List.append_assoc]

structure TagOK (L : Nat) (kp : Nat × Participant) : Prop where
  tag : kp.1 ≤ 2
  sig : kp.2.sig.length = L
  addr : Plain kp.2.addr

private theorem region_inj (L : Nat) : ∀ (x y : List (Nat × Participant)), (∀ kp ∈ x, TagOK L kp) → (∀ kp ∈ y, TagOK L kp) →
    encodeSegs (x.flatMap tagSegs) = encodeSegs (y.flatMap tagSegs) → x.flatMap tagSegs = y.flatMap tagSegs
  | [], [], _, _, _ => rfl
  | [], kp :: ys, _, hy, h => by
    exfalso
    simp only [List.flatMap_nil, List.flatMap_cons] at h
    rw [tag_encode] at h
    have := (hy kp List.mem_cons_self).tag
    obtain ⟨k, p⟩ := kp
    have hk : k = 0 ∨ k = 1 ∨ k = 2 := by simp only at this; omega
    rcases hk with rfl | rfl | rfl <;> simp [labOf, strBytes_lab0, strBytes_lab1, strBytes_lab2, encodeSegs] at h
  | kp :: xs, [], hx, _, h => by
    exfalso
    simp only [List.flatMap_nil, List.flatMap_cons] at h
    rw [tag_encode] at h
    have := (hx kp List.mem_cons_self).tag
    obtain ⟨k, p⟩ := kp
    have hk : k = 0 ∨ k = 1 ∨ k = 2 := by simp only at this; omega
    rcases hk with rfl | rfl | rfl <;> simp [labOf, strBytes_lab0, strBytes_lab1, strBytes_lab2, encodeSegs] at h
  | kp :: xs, kq :: ys, hx, hy, h => by
    simp only [List.flatMap_cons] at h ⊢
    rw [tag_encode, tag_encode] at h
    have ox := hx kp List.mem_cons_self
    have oy := hy kq List.mem_cons_self
    obtain ⟨k, p⟩ := kp
    obtain ⟨k', q⟩ := kq
    have hk : k = 0 ∨ k = 1 ∨ k = 2 := by have := ox.tag; simp only at this; omega
    have hk' : k' = 0 ∨ k' = 1 ∨ k' = 2 := by have := oy.tag; simp only at this; omega
    have hkk : k = k' := by
      rcases hk with rfl | rfl | rfl <;> rcases hk' with rfl | rfl | rfl <;>
        first
          | rfl
          | (exfalso; simp [labOf, strBytes_lab0, strBytes_lab1, strBytes_lab2] at h)
    subst hkk
    have h := List.append_cancel_left h
    obtain ⟨ha, h⟩ := delim_split 10 _ _ _ _ (nl_not_mem _ ox.addr) (nl_not_mem _ oy.addr) h
    have haddr : p.addr = q.addr := strBytes_inj _ _ ox.addr oy.addr ha
    have h := List.append_cancel_left h
    obtain ⟨hs, hr⟩ := List.append_inj h (by rw [ox.sig, oy.sig])
    have ih := region_inj L xs ys (fun kp hm => hx kp (List.mem_cons_of_mem _ hm)) (fun kp hm => hy kp (List.mem_cons_of_mem _ hm)) hr
    simp only at haddr hs
    rw [ih]
    simp only [tagSegs, haddr, hs]


/-- what the injectivity of the layout needs of a term record: every signature written into the message has the same known
length L, the text fields are plain 7-bit text without line feeds, the numbers fit their 4 bytes, the times are encodable -/
structure WFTerms (L : Nat) (t : Terms) : Prop where
  leaderSig : t.leader.sig.length = L
  parts : ∀ p ∈ t.joining ++ t.remaining ++ t.leaving, p.sig.length = L ∧ Plain p.addr
  leaderAddr : Plain t.leader.addr
  bid : Plain t.beaconID
  sch : Plain t.schemeID
  epoch : t.epoch < 4294967296
  threshold : t.threshold < 4294967296
  catchup : t.catchupSec < 4294967296
  period : t.periodSec < 4294967296
  timeout : TimeOK t.timeout
  genesis : TimeOK t.genesisTime

private theorem head_encode (t : Terms) (R : List Seg) :
    encodeSegs (termHead t ++ R) =
      strBytes "Proposal:\n" ++ (strBytes t.beaconID ++ (10 :: (le32 t.epoch ++ (strBytes "\nLeader:" ++
        (strBytes t.leader.addr ++ (10 :: (t.leader.sig ++ (le32 t.threshold ++ (timeBytes t.timeout ++
          (le32 t.catchupSec ++ (le32 t.periodSec ++ (strBytes "\nScheme: " ++ (strBytes t.schemeID ++
            (10 :: (timeBytes t.genesisTime ++ encodeSegs R))))))))))))))) := by
  unfold termHead
  simp only [List.cons_append, List.nil_append, encodeSegs_cons, Seg.encode, strBytes_append, strBytes_nl, List.append_assoc]

private theorem tagged_ok (L : Nat) (t : Terms) (w : WFTerms L t) : ∀ kp ∈ tagged t, TagOK L kp := by
  intro kp hm
  unfold tagged at hm
  simp only [List.mem_append, List.mem_map] at hm
  rcases hm with (⟨p, hp, rfl⟩ | ⟨p, hp, rfl⟩) | ⟨p, hp, rfl⟩
  · have := w.parts p (by simp [hp]); exact ⟨by simp, this.1, this.2⟩
  · have := w.parts p (by simp [hp]); exact ⟨by simp, this.1, this.2⟩
  · have := w.parts p (by simp [hp]); exact ⟨by simp, this.1, this.2⟩

/-- BYTE-LEVEL INJECTIVITY OF THE SIGNED LAYOUT, under the hypothesis the proof forces: both records are well formed for the
same signature length L (`WFTerms`). Then equal signed bytes mean equal signed messages field by field, and
`c09_every_term_and_boundary_covered` applies. This is the `_partial` statement for the code as it is — which does NOT
enforce the hypothesis for the leader's, the remaining and the leaving participants' signature fields
(`c09_layout_boundary_counterexample`) — and the full statement for the variant with reports/dkg_fix_1.diff, whose
`validateForAllDKGs` refuses any proposal with a signature of another length (`c09_fixed_enforces_sig_lengths`). -/
theorem c09_signed_bytes_injective_partial (L : Nat) (b : String) (pk : Packet) (t t' : Terms) (w : WFTerms L t) (w' : WFTerms L t')
    (h : signedBytes b pk t = signedBytes b pk t') : messageForSigning b pk t = messageForSigning b pk t' := by
  unfold signedBytes at h
  rw [mfs_split, mfs_split] at h ⊢
  rw [encodeSegs_append (pktHead b pk), encodeSegs_append (pktHead b pk)] at h
  have h := List.append_cancel_left h
  rw [head_encode, head_encode] at h
  have h := List.append_cancel_left h
  obtain ⟨eBid, h⟩ := delim_split 10 _ _ _ _ (nl_not_mem _ w.bid) (nl_not_mem _ w'.bid) h
  obtain ⟨eEp, h⟩ := List.append_inj h (by rw [le32_length, le32_length])
  have h := List.append_cancel_left h
  obtain ⟨eLa, h⟩ := delim_split 10 _ _ _ _ (nl_not_mem _ w.leaderAddr) (nl_not_mem _ w'.leaderAddr) h
  obtain ⟨eLs, h⟩ := List.append_inj h (by rw [w.leaderSig, w'.leaderSig])
  obtain ⟨eThr, h⟩ := List.append_inj h (by rw [le32_length, le32_length])
  obtain ⟨eTo, h⟩ := List.append_inj h (by rw [timeBytes_length, timeBytes_length])
  obtain ⟨eCu, h⟩ := List.append_inj h (by rw [le32_length, le32_length])
  obtain ⟨ePe, h⟩ := List.append_inj h (by rw [le32_length, le32_length])
  have h := List.append_cancel_left h
  obtain ⟨eSch, h⟩ := delim_split 10 _ _ _ _ (nl_not_mem _ w.sch) (nl_not_mem _ w'.sch) h
  obtain ⟨eGe, h⟩ := List.append_inj h (by rw [timeBytes_length, timeBytes_length])
  have hreg := region_inj L _ _ (tagged_ok L t w) (tagged_ok L t' w') h
  have f1 := strBytes_inj _ _ w.bid w'.bid eBid
  have f2 := le32_inj _ _ w.epoch w'.epoch eEp
  have f3 := strBytes_inj _ _ w.leaderAddr w'.leaderAddr eLa
  have f4 := le32_inj _ _ w.threshold w'.threshold eThr
  have f5 := timeBytes_inj _ _ w.timeout w'.timeout eTo
  have f6 := le32_inj _ _ w.catchup w'.catchup eCu
  have f7 := le32_inj _ _ w.period w'.period ePe
  have f8 := strBytes_inj _ _ w.sch w'.sch eSch
  have f9 := timeBytes_inj _ _ w.genesis w'.genesis eGe
  rw [hreg]
  unfold termHead
  rw [f1, f2, f3, eLs, f4, f5, f6, f7, f8, f9]


/-! ### the code as it is: a list boundary can sit inside a signature field -/

def lbA : Participant := { addr := "a:1", key := [1], sig := [1, 1] }
def lbB : Participant := { addr := "b:1", key := [2], sig := [2, 2] }
/-- participant `a:1` again, its signature field holding: its signature, the framing of a leaver entry for `b:1`, and
`b:1`'s signature -/
def lbA' : Participant := { addr := "a:1", key := [1], sig := [1, 1] ++ strBytes "\nLeaver:b:1\nSig:" ++ [2, 2] }
def lbTerms : Terms :=
  { beaconID := "default", epoch := 2, threshold := 1, timeout := 100, schemeID := "pedersen-bls-chained", genesisTime := 5,
    genesisSeed := [9], catchupSec := 1, periodSec := 3, leader := lbA, joining := [], remaining := [lbA], leaving := [lbB] }
def lbTerms' : Terms := { lbTerms with remaining := [lbA'], leaving := [] }

/-- COUNTEREXAMPLE (the code as it is). `messageForSigning` writes variable-length signature fields without their length:
the terms "a:1 remains, b:1 leaves" and the terms "a:1 remains (with a long signature field), nobody leaves" have the
SAME signed bytes, for every packet type and beacon id — a signature made on one verifies on the other. Replayed on the
real dkg.Process (a joiner stores the second although the leader signed the first): finding
"signature-does-not-cover:list-boundary-inside-signature-field". -/
theorem c09_layout_boundary_counterexample :
    lbTerms.leaving.map (·.addr) ≠ lbTerms'.leaving.map (·.addr) ∧ lbTerms.remaining.map (·.sig) ≠ lbTerms'.remaining.map (·.sig) ∧
    ∀ b pk, signedBytes b pk lbTerms = signedBytes b pk lbTerms' := by
  refine ⟨by decide, by decide, ?_⟩
  intro b pk
  unfold signedBytes
  rw [mfs_split, mfs_split, encodeSegs_append (pktHead b pk), encodeSegs_append (pktHead b pk)]
  congr 1 <;> decide

def lbL : Participant := { addr := "l:1", key := [9], sig := [9, 9], scheme := "pedersen-bls-chained" }
def lbJ : Participant := { addr := "j:1", key := [5], sig := [5, 5], scheme := "pedersen-bls-chained" }
def lbSigned : Terms :=
  { beaconID := "default", epoch := 2, threshold := 3, timeout := 100, schemeID := "pedersen-bls-chained", genesisTime := 5,
    genesisSeed := [9], catchupSec := 1, periodSec := 3, leader := lbL, joining := [lbJ], remaining := [lbL, lbA], leaving := [lbB] }
def lbRelayed : Terms := { lbSigned with remaining := [lbL, lbA'], leaving := [] }

set_option maxRecDepth 8000 in
/-- … and on the process. Before the repair (validation without the length test) a newcomer shown `lbRelayed` with the
signature the leader made on `lbSigned` passed validation and stored `lbRelayed` — nobody leaving — as the leader's proposal
(replayed on the real dkg.Process at the time: corpus/C09/boundary_inside_signature_field.json). With the length test the
relayed terms are refused and the process is unchanged. -/
theorem c09_boundary_replay_counterexample :
    (validateForAllDKGsV false (newFreshState "default") lbRelayed 0).toOption = some () ∧
    (validateForAllDKGsV true (newFreshState "default") lbRelayed 0).toOption = none ∧
    (let p : Proc := { beaconID := "default", me := lbJ }
     let m : Meta := { beaconID := "default", addr := "l:1", sigId := "0011223344", sigKey := lbL.key,
                       sigMsg := messageForSigning "default" (.proposal lbSigned) lbSigned }
     (p.packet m (.proposal lbRelayed) 0).1.current.isNone = true) := by
  decide

/-- what acceptance means at the byte level (the `_partial` form): if the signature on an accepted packet was made by an
honest holder of terms `t0` for the same kind of packet, and `t0` and the stored terms are well formed for one signature
length, then the stored terms ARE `t0` in every signed field and every list boundary -/
theorem c09_accepted_terms_bound_partial (L : Nat) (p : Proc) (m : Meta) (pk : Packet) (now : Int) (t0 : Terms)
    (hch : (p.packet m pk now).1 ≠ p) (hs : m.sigMsg = messageForSigning m.beaconID pk t0) (w0 : WFTerms L t0)
    (hw : ∀ next, (p.packet m pk now).1.current = some next → WFTerms L (termsFromState next)) :
    ∃ next, (p.packet m pk now).1.current = some next ∧
      t0.epoch = next.epoch ∧ t0.threshold = next.threshold ∧ t0.timeout = next.timeout ∧ t0.catchupSec = next.catchupSec ∧
      t0.periodSec = next.periodSec ∧ t0.schemeID = next.schemeID ∧ t0.genesisTime = next.genesisTime ∧
      t0.joining.map (fun q => (q.addr, q.sig)) = next.joining.map (fun q => (q.addr, q.sig)) ∧
      t0.remaining.map (fun q => (q.addr, q.sig)) = next.remaining.map (fun q => (q.addr, q.sig)) ∧
      t0.leaving.map (fun q => (q.addr, q.sig)) = next.leaving.map (fun q => (q.addr, q.sig)) := by
  obtain ⟨next, part, hc, -, -, -, hb⟩ := c09_signed_by_listed p m pk now hch
  rw [hs] at hb
  have hseg := c09_signed_bytes_injective_partial L m.beaconID pk t0 (termsFromState next) w0 (hw next hc) hb
  obtain ⟨-, e1, e2, e3, e4, e5, e6, e7, -, -, e8, e9, e10⟩ := c09_every_term_and_boundary_covered _ _ _ _ hseg
  exact ⟨next, hc, e1, e2, e3, e4, e5, e6, e7, e8, e9, e10⟩

/-! ### the variant with reports/dkg_fix_1.diff -/

/-- with the check of the repair, a proposal that passes `validateForAllDKGs` has only signatures of the scheme's length -/
theorem c09_fixed_enforces_sig_lengths (cur : DBState) (t : Terms) (now : Int) (u : Unit)
    (h : validateForAllDKGsV true cur t now = .ok u) :
    t.leader.sig.length = schemeSigLen t.schemeID ∧
    ∀ p ∈ t.joining ++ t.remaining ++ t.leaving, p.sig.length = schemeSigLen t.schemeID := by
  have hs : sigLengthsOK t = true := by
    cases hv : sigLengthsOK t with
    | true => rfl
    | false =>
      exfalso
      unfold validateForAllDKGsV at h
      simp only [hv, Bool.true_and, Bool.not_false, if_true] at h
      simp only [bind, Except.bind, throw, throwThe, MonadExceptOf.throw] at h
      repeat' split at h
      all_goals (first | cases h | skip)
  unfold sigLengthsOK at hs
  rw [List.all_eq_true] at hs
  refine ⟨by simpa using hs t.leader (by simp), fun p hp => ?_⟩
  have := hs p (List.mem_append_left _ hp)
  simpa using this

/-- FULL STATEMENT for the repaired variant: two proposals that both pass the repaired validation, under schemes with the same
signature length, whose text fields are plain and whose numbers are in range, and whose signed BYTES are equal, agree on
every term and every list boundary. -/
theorem c09_signed_bytes_bind_terms_fixed (b : String) (pk : Packet) (cur cur' : DBState) (t t' : Terms) (now : Int)
    (hv : validateForAllDKGsV true cur t now = .ok ()) (hv' : validateForAllDKGsV true cur' t' now = .ok ())
    (hL : schemeSigLen t.schemeID = schemeSigLen t'.schemeID)
    (hp : ∀ p ∈ t.joining ++ t.remaining ++ t.leaving, Plain p.addr) (hp' : ∀ p ∈ t'.joining ++ t'.remaining ++ t'.leaving, Plain p.addr)
    (ht : Plain t.leader.addr ∧ Plain t.beaconID ∧ Plain t.schemeID ∧ t.epoch < 4294967296 ∧ t.threshold < 4294967296 ∧
          t.catchupSec < 4294967296 ∧ t.periodSec < 4294967296 ∧ TimeOK t.timeout ∧ TimeOK t.genesisTime)
    (ht' : Plain t'.leader.addr ∧ Plain t'.beaconID ∧ Plain t'.schemeID ∧ t'.epoch < 4294967296 ∧ t'.threshold < 4294967296 ∧
          t'.catchupSec < 4294967296 ∧ t'.periodSec < 4294967296 ∧ TimeOK t'.timeout ∧ TimeOK t'.genesisTime)
    (h : signedBytes b pk t = signedBytes b pk t') :
    t.beaconID = t'.beaconID ∧ t.epoch = t'.epoch ∧ t.threshold = t'.threshold ∧ t.timeout = t'.timeout ∧
    t.catchupSec = t'.catchupSec ∧ t.periodSec = t'.periodSec ∧ t.schemeID = t'.schemeID ∧ t.genesisTime = t'.genesisTime ∧
    t.leader.addr = t'.leader.addr ∧ t.leader.sig = t'.leader.sig ∧
    t.joining.map (fun p => (p.addr, p.sig)) = t'.joining.map (fun p => (p.addr, p.sig)) ∧
    t.remaining.map (fun p => (p.addr, p.sig)) = t'.remaining.map (fun p => (p.addr, p.sig)) ∧
    t.leaving.map (fun p => (p.addr, p.sig)) = t'.leaving.map (fun p => (p.addr, p.sig)) := by
  obtain ⟨l1, l2⟩ := c09_fixed_enforces_sig_lengths cur t now () hv
  obtain ⟨l1', l2'⟩ := c09_fixed_enforces_sig_lengths cur' t' now () hv'
  obtain ⟨a1, a2, a3, a4, a5, a6, a7, a8, a9⟩ := ht
  obtain ⟨b1, b2, b3, b4, b5, b6, b7, b8, b9⟩ := ht'
  have w : WFTerms (schemeSigLen t.schemeID) t := ⟨l1, fun p hm => ⟨l2 p hm, hp p hm⟩, a1, a2, a3, a4, a5, a6, a7, a8, a9⟩
  have w' : WFTerms (schemeSigLen t.schemeID) t' :=
    ⟨hL ▸ l1', fun p hm => ⟨hL ▸ l2' p hm, hp' p hm⟩, b1, b2, b3, b4, b5, b6, b7, b8, b9⟩
  exact c09_every_term_and_boundary_covered b pk t t' (c09_signed_bytes_injective_partial _ b pk t t' w w' h)


/-! ### non-vacuity -/

def wfL : Participant := { addr := "l:1", key := [2], sig := List.replicate 96 7, scheme := "pedersen-bls-chained" }
def wfM : Participant := { addr := "m:1", key := [3], sig := List.replicate 96 8, scheme := "pedersen-bls-chained" }
def wfTerms : Terms :=
  { beaconID := "default", epoch := 2, threshold := 2, timeout := 100, schemeID := "pedersen-bls-chained", genesisTime := 5,
    genesisSeed := [9], catchupSec := 1, periodSec := 3, leader := wfL, joining := [], remaining := [wfL, wfM], leaving := [] }
def wfState : DBState := { beaconID := "default", epoch := 1, state := .complete }

private theorem wfTerms_wf : WFTerms 96 wfTerms := by
  refine ⟨by decide, ?_, by decide, by decide, by decide, by decide, by decide, by decide, by decide, by decide, by decide⟩
  intro p hp
  simp only [wfTerms, List.nil_append, List.append_nil, List.mem_cons, List.not_mem_nil, or_false] at hp
  rcases hp with rfl | rfl <;> exact ⟨by decide, by decide⟩

/-- a well-formed record exists, the repaired validation accepts it, and the theorems apply to it -/
example : validateForAllDKGsV true wfState wfTerms 0 = .ok () := by rfl
example : messageForSigning "default" (.abort "x") wfTerms = messageForSigning "default" (.abort "x") wfTerms :=
  c09_signed_bytes_injective_partial 96 _ _ _ _ wfTerms_wf wfTerms_wf rfl
/-- … and the repaired validation refuses the record of the counterexample (a 20-byte "signature") -/
example : (validateForAllDKGsV true { beaconID := "default", epoch := 1, state := .complete } lbTerms' 0).toOption = none := by
  decide

end Drand.DKG
