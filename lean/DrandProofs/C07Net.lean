/-
C07 / C03 / C05 around a resharing, at message level (model: Drand/Net/Reshare.lean).

What is proved here, for every state / every finite event list of the model (the fair-round abstraction of C05):
  (a) membership lookup by index VALUE is exact, gaps allowed; an admitted partial carries a current member's index
  (b) the switch to the new group happens at the first stored round ≥ transition−1 WHENEVER the switch was registered
      (repaired variant: any time; as-is variant: only when registered before transition−1 was stored — kernel-checked
      counterexample for the rest), and once a threshold of the NEW group holds the new vault every due round is produced
      (whatever the old threshold, the number of remainers, who joined)
  (c) a partial made with a share of another epoch never counts, not even from a still-member; a stored beacon needs
      `thr` distinct indices of members of the node's CURRENT group, with the threshold read at that iteration
The regenerated facts the model uses are tied below (`tie_*`).
-/
import Drand.Net.Reshare

namespace Drand.Net.Reshare

/-! ### ties to the source -/

/-- `key.Group.Node`: a linear scan of `g.Nodes` that returns the first node whose `Index` EQUALS the argument -/
theorem tie_group_node_lookup :
    (∀ a i, Gen.groupNodeMatch a i = decide (a = i)) ∧
    Gen.groupNodeLookup = ["range g.Nodes", "if n.Index==i", "return n", "return nil"] :=
  ⟨fun _ _ => rfl, rfl⟩

/-- `broadcastNextPartial` sends to the nodes of the vault's CURRENT group and skips the own address -/
theorem tie_broadcast_recipients :
    Gen.bnpRecipients = "h.crypto.GetGroup().Nodes" ∧ Gen.bnpSkipSelf = "h.addr==id.Address()" := ⟨rfl, rfl⟩

/-- `runAggregator` reads threshold and size from the vault inside the loop (every iteration) -/
theorem tie_aggregator_threshold_in_loop :
    Gen.aggThrInLoop = ["thr := c.crypto.GetGroup().Threshold", "n := c.crypto.GetGroup().Len()"] := rfl

/-- `TransitionNewGroup`: target round and the callback's skip condition -/
theorem tie_transition_skip :
    (∀ b t, Gen.transitionSkip b t = decide (b < t)) ∧ (∀ t, Gen.transitionTarget t = t - 1) :=
  ⟨fun _ _ => rfl, fun _ => rfl⟩

/-! ### basic facts -/

@[simp] theorem setHead_up (d : Node) (v) : (d.setHead v).up = d.up := rfl
@[simp] theorem setHead_head (d : Node) (v) : (d.setHead v).head = v := rfl
@[simp] theorem setHead_clock (d : Node) (v) : (d.setHead v).clock = d.clock := rfl
@[simp] theorem setHead_held (d : Node) (v) : (d.setHead v).held = d.held := rfl
@[simp] theorem setHead_vault (d : Node) (v) : (d.setHead v).vault = d.vault := rfl
@[simp] theorem setHead_pend (d : Node) (v) : (d.setHead v).pend = d.pend := rfl
@[simp] theorem setHead_disk (d : Node) (v) : (d.setHead v).disk = d.disk := rfl
@[simp] theorem setTick_up (d : Node) (v) : (d.setTick v).up = d.up := rfl
@[simp] theorem setTick_head (d : Node) (v) : (d.setTick v).head = d.head := rfl
@[simp] theorem setTick_clock (d : Node) (v) : (d.setTick v).clock = d.clock := rfl
@[simp] theorem setTick_held (d : Node) (v) : (d.setTick v).held = d.held := rfl
@[simp] theorem setTick_vault (d : Node) (v) : (d.setTick v).vault = d.vault := rfl
@[simp] theorem setTick_pend (d : Node) (v) : (d.setTick v).pend = d.pend := rfl
@[simp] theorem setTick_disk (d : Node) (v) : (d.setTick v).disk = d.disk := rfl
@[simp] theorem setHeld_up (d : Node) (v) : (d.setHeld v).up = d.up := rfl
@[simp] theorem setHeld_head (d : Node) (v) : (d.setHeld v).head = d.head := rfl
@[simp] theorem setHeld_clock (d : Node) (v) : (d.setHeld v).clock = d.clock := rfl
@[simp] theorem setHeld_held (d : Node) (v) : (d.setHeld v).held = v := rfl
@[simp] theorem setHeld_vault (d : Node) (v) : (d.setHeld v).vault = d.vault := rfl
@[simp] theorem setHeld_pend (d : Node) (v) : (d.setHeld v).pend = d.pend := rfl
@[simp] theorem setHeld_disk (d : Node) (v) : (d.setHeld v).disk = d.disk := rfl
@[simp] theorem setPending_up (d : Node) (v) : (d.setPending v).up = d.up := rfl
@[simp] theorem setPending_head (d : Node) (v) : (d.setPending v).head = d.head := rfl
@[simp] theorem setPending_clock (d : Node) (v) : (d.setPending v).clock = d.clock := rfl
@[simp] theorem setPending_held (d : Node) (v) : (d.setPending v).held = d.held := rfl
@[simp] theorem setPending_vault (d : Node) (v) : (d.setPending v).vault = d.vault := rfl
@[simp] theorem setPending_pend (d : Node) (v) : (d.setPending v).pend = d.pend := rfl
@[simp] theorem setPending_disk (d : Node) (v) : (d.setPending v).disk = d.disk := rfl
@[simp] theorem setSync_up (d : Node) (v) : (d.setSync v).up = d.up := rfl
@[simp] theorem setSync_head (d : Node) (v) : (d.setSync v).head = d.head := rfl
@[simp] theorem setSync_clock (d : Node) (v) : (d.setSync v).clock = d.clock := rfl
@[simp] theorem setSync_held (d : Node) (v) : (d.setSync v).held = d.held := rfl
@[simp] theorem setSync_vault (d : Node) (v) : (d.setSync v).vault = d.vault := rfl
@[simp] theorem setSync_pend (d : Node) (v) : (d.setSync v).pend = d.pend := rfl
@[simp] theorem setSync_disk (d : Node) (v) : (d.setSync v).disk = d.disk := rfl

/-! ### (a) membership lookup by index value -/

/-- **Lookup is exact.** `Group.Node(i)` returns a node iff some member has exactly the index `i` — whatever holes the
index sequence has — and the node it returns is a member with that index. -/
theorem c03_member_lookup_exact (g : Grp) (i : Nat) :
    ((g.node? i).isSome ↔ ∃ m ∈ g.members, m.index = i) ∧
    (∀ m, g.node? i = some m → m ∈ g.members ∧ m.index = i) := by
  unfold Grp.node?
  simp only [Gen.groupNodeMatch]
  refine ⟨?_, ?_⟩
  · rw [List.find?_isSome]
    constructor
    · rintro ⟨m, hm, h⟩; exact ⟨m, hm, by simpa using h⟩
    · rintro ⟨m, hm, h⟩; exact ⟨m, hm, by simpa using h⟩
  · intro m h
    exact ⟨List.mem_of_find?_eq_some h, by simpa using List.find?_some h⟩

/-- a missing index (a hole, or beyond the last member) is refused: never the next higher member -/
theorem c03_hole_is_not_member (g : Grp) (i : Nat) (h : ∀ m ∈ g.members, m.index ≠ i) : g.node? i = none := by
  cases hn : g.node? i with
  | none => rfl
  | some m => exact absurd ((c03_member_lookup_exact g i).2 m hn).2 (h m ((c03_member_lookup_exact g i).2 m hn).1)

theorem nodup_map_inj {α β : Type} (f : α → β) : ∀ (l : List α), (l.map f).Nodup → ∀ a ∈ l, ∀ b ∈ l, f a = f b → a = b := by
  intro l
  induction l with
  | nil => intro _ a ha; cases ha
  | cons x t ih =>
    intro hn a ha b hb hab
    simp only [List.map_cons, List.nodup_cons, List.mem_map, not_exists, not_and] at hn
    rcases List.mem_cons.mp ha with h1 | h1 <;> rcases List.mem_cons.mp hb with h2 | h2
    · rw [h1, h2]
    · subst h1; exact absurd hab.symm (hn.1 b h2)
    · subst h2; exact absurd hab (hn.1 a h1)
    · exact ih hn.2 a h1 b h2 hab

/-- with pairwise distinct indices the lookup finds THE member of that index -/
theorem node?_of_mem (g : Grp) (hn : (g.members.map (·.index)).Nodup) (m : Member) (hm : m ∈ g.members) :
    g.node? m.index = some m := by
  cases hf : g.node? m.index with
  | none =>
    have := c03_hole_is_not_member g m.index
    have h2 : ¬ ∀ m' ∈ g.members, m'.index ≠ m.index := fun h => h m hm rfl
    exfalso
    have hs := (c03_member_lookup_exact g m.index).1.2 ⟨m, hm, rfl⟩
    rw [hf] at hs; cases hs
  | some m' =>
    obtain ⟨hm', hi⟩ := (c03_member_lookup_exact g m.index).2 m' hf
    rw [nodup_map_inj (·.index) g.members hn m' hm' m hm hi]

/-- **Admission implies membership.** A partial that passes `ProcessPartialBeacon` carries the index of a member of the
receiver's CURRENT group (not the receiver itself) and was made with a share of the receiver's current epoch. -/
theorem c03_admitted_is_member (self : Nat) (d : Node) (m : Msg) (h : d.admit self m = .admitted) :
    (∃ mem ∈ d.vault.grp.members, mem.index = m.idx ∧ mem.node ≠ self) ∧ m.epoch = d.vault.epoch ∧ m.idx ≠ d.vault.index ∧
    d.head < m.round ∧ m.round ≤ d.clock + 1 := by
  unfold Node.admit at h
  simp only [Gen.ppbFuture, Gen.ppbPast, decide_eq_true_eq] at h
  by_cases h1 : d.clock + 1 < m.round
  · simp [h1] at h
  by_cases h2 : m.round ≤ d.head
  · simp [h1, h2] at h
  simp only [h1, h2, if_false] at h
  cases hmem : d.vault.grp.node? m.idx with
  | none => simp [hmem] at h
  | some mem =>
    simp only [hmem] at h
    by_cases h3 : mem.node = self
    · simp [h3] at h
    by_cases h4 : m.epoch ≠ d.vault.epoch
    · simp [h3, h4] at h
    by_cases h5 : m.idx = d.vault.index
    · simp [h3, h4, h5] at h
    obtain ⟨hm, hi⟩ := (c03_member_lookup_exact d.vault.grp m.idx).2 mem hmem
    exact ⟨⟨mem, hm, hi, h3⟩, by simpa using h4, h5, by omega, by omega⟩

/-- a node's state changes on a received packet only if the packet was admitted -/
theorem recvStep_cases (B self : Nat) (reach : Bool) (d : Node) (m : Msg) :
    (d.recvStep B self reach m = d ∧ ¬ (d.up = true ∧ reach = true ∧ d.admit self m = .admitted)) ∨
    (d.up = true ∧ reach = true ∧ d.admit self m = .admitted ∧ d.recvStep B self reach m = d.aggregate B m.idx m.epoch m.round) := by
  unfold Node.recvStep
  by_cases hu : d.up = true
  · by_cases hr : reach = true
    · by_cases ha : d.admit self m = .admitted
      · right; simp [hu, hr, ha]
      · left
        refine ⟨?_, fun h => ha h.2.2⟩
        simp only [hu, hr, Bool.not_true, Bool.false_eq_true, if_false]
    · left; simp [hu, hr]
  · left; simp [hu]

/-! ### (c) partials of another epoch, non-members -/

/-- **An old-share partial never counts** — not from a leaver, not from a node that is still a member: whatever the
packet says, if the share that signed it belongs to another epoch than the receiver's current one, the receiver's
state (cache included) does not change. -/
theorem c07_old_epoch_never_counts (B self : Nat) (reach : Bool) (d : Node) (m : Msg) (h : m.epoch ≠ d.vault.epoch) :
    d.recvStep B self reach m = d := by
  rcases recvStep_cases B self reach d m with ⟨he, _⟩ | ⟨_, _, ha, _⟩
  · exact he
  · exact absurd (c03_admitted_is_member self d m ha).2.1 h

/-- a partial whose index no current member holds never counts -/
theorem c03_nonmember_index_never_counts (B self : Nat) (reach : Bool) (d : Node) (m : Msg)
    (h : ∀ mem ∈ d.vault.grp.members, mem.index ≠ m.idx) : d.recvStep B self reach m = d := by
  rcases recvStep_cases B self reach d m with ⟨he, _⟩ | ⟨_, _, ha, _⟩
  · exact he
  · obtain ⟨⟨mem, hm, hi, _⟩, _⟩ := c03_admitted_is_member self d m ha
    exact absurd hi (h mem hm)

/-! ### the store callback and the aggregator -/

theorem onStored_frame (d : Node) (r : Nat) :
    (d.onStored r).up = d.up ∧ (d.onStored r).head = d.head ∧ (d.onStored r).clock = d.clock ∧ (d.onStored r).held = d.held ∧
    (d.onStored r).disk = d.disk ∧ (d.onStored r).lastTick = d.lastTick ∧ (d.onStored r).pending = d.pending ∧
    (d.onStored r).syncTo = d.syncTo := by
  unfold Node.onStored
  cases d.pend with
  | none => simp
  | some p => by_cases h : Gen.transitionSkip r p.target = true <;> simp [h]

theorem put_frame (d : Node) (r : Nat) :
    (d.put r).up = d.up ∧ (d.put r).clock = d.clock ∧ (d.put r).held = d.held ∧ (d.put r).disk = d.disk ∧
    (d.put r).lastTick = d.lastTick ∧ (d.put r).pending = d.pending ∧ (d.put r).syncTo = d.syncTo ∧
    d.head ≤ (d.put r).head ∧ ((d.put r).head = d.head ∨ ((d.put r).head = d.head + 1 ∧ r = d.head + 1)) := by
  unfold Node.put
  by_cases h : r = d.head + 1
  · have := onStored_frame (d.setHead r) r
    simp only [h, if_true]
    rw [← h]
    refine ⟨this.1, this.2.2.1, this.2.2.2.1, this.2.2.2.2.1, this.2.2.2.2.2.1, this.2.2.2.2.2.2.1, this.2.2.2.2.2.2.2, ?_, ?_⟩
    · rw [this.2.1]; simp [h]
    · right; rw [this.2.1]; simp [h]
  · simp [h]

theorem filter_length_mono {α : Type} (p q : α → Bool) (h : ∀ x, p x = true → q x = true) :
    ∀ l : List α, (l.filter p).length ≤ (l.filter q).length := by
  intro l
  induction l with
  | nil => simp
  | cons a t ih =>
    simp only [List.filter_cons]
    by_cases hp : p a = true
    · simp only [hp, h a hp, if_true, List.length_cons]; omega
    · by_cases hq : q a = true
      · simp only [hp, hq, if_true, List.length_cons]; simp; omega
      · simp only [hp, hq]; simpa using ih

theorem valid_le_count (B : Nat) (held : Nat → Nat → Option Nat) (r e : Nat) : valid B held r e ≤ count B held r := by
  unfold valid count
  apply filter_length_mono
  intro x hx
  have : held r x = some e := by simpa using hx
  simp [this]

/-- what the partial of (idx, ep) on round r does to a node -/
theorem aggregate_cases (B : Nat) (d : Node) (idx ep r : Nat) :
    (¬ (d.head < r ∧ r ≤ d.head + Gen.partialCacheStoreLimit + 1) ∧ d.aggregate B idx ep r = d) ∨
    (d.head < r ∧ valid B (addPartial d.held r idx ep) r d.vault.epoch < d.vault.grp.thr ∧
      d.aggregate B idx ep r = d.setHeld (addPartial d.held r idx ep)) ∨
    (d.head < r ∧ d.vault.grp.thr ≤ valid B (addPartial d.held r idx ep) r d.vault.epoch ∧ r ≠ d.head + 1 ∧
      ∃ v, d.aggregate B idx ep r = (d.setHeld (flush (addPartial d.held r idx ep) r)).setSync v) ∨
    (d.head < r ∧ d.vault.grp.thr ≤ valid B (addPartial d.held r idx ep) r d.vault.epoch ∧ r = d.head + 1 ∧
      ∃ P, d.aggregate B idx ep r = ((d.setHeld (flush (addPartial d.held r idx ep) r)).put r).setPending P) := by
  have hvc := valid_le_count B (addPartial d.held r idx ep) r d.vault.epoch
  by_cases hw : d.head < r ∧ r ≤ d.head + Gen.partialCacheStoreLimit + 1
  · have hwin : Gen.aggInWindow r d.head = true := by simp [Gen.aggInWindow, hw.1, hw.2]
    by_cases hc : count B (addPartial d.held r idx ep) r < d.vault.grp.thr
    · refine Or.inr (Or.inl ⟨hw.1, by omega, ?_⟩)
      simp [Node.aggregate, hwin, Gen.aggNotEnough, hc]
    · by_cases hv : valid B (addPartial d.held r idx ep) r d.vault.epoch < d.vault.grp.thr
      · refine Or.inr (Or.inl ⟨hw.1, hv, ?_⟩)
        simp [Node.aggregate, hwin, Gen.aggNotEnough, hc, hv]
      · by_cases hr : d.head + 1 ≠ r
        · by_cases hs : d.head + 1 < r
          · refine Or.inr (Or.inr (Or.inl ⟨hw.1, by omega, fun h => hr h.symm, max d.syncTo r, ?_⟩))
            simp [Node.aggregate, hwin, Gen.aggNotEnough, hc, hv, Gen.tryAppendRefuse, hr, Gen.shouldSync, hs]
          · refine Or.inr (Or.inr (Or.inl ⟨hw.1, by omega, fun h => hr h.symm, d.syncTo, ?_⟩))
            simp [Node.aggregate, hwin, Gen.aggNotEnough, hc, hv, Gen.tryAppendRefuse, hr, Gen.shouldSync, hs]
            rfl
        · have hr' : r = d.head + 1 := by omega
          by_cases hl : r < d.lastTick
          · refine Or.inr (Or.inr (Or.inr ⟨hw.1, by omega, hr', d.pending ++ [r], ?_⟩))
            simp [Node.aggregate, hwin, Gen.aggNotEnough, hc, hv, Gen.tryAppendRefuse, hr, Gen.catchupLaunch, hl]
          · refine Or.inr (Or.inr (Or.inr ⟨hw.1, by omega, hr', ((d.setHeld (flush (addPartial d.held r idx ep) r)).put r).pending, ?_⟩))
            simp [Node.aggregate, hwin, Gen.aggNotEnough, hc, hv, Gen.tryAppendRefuse, hr, Gen.catchupLaunch, hl]
            rfl
  · refine Or.inl ⟨hw, ?_⟩
    have : Gen.aggInWindow r d.head = false := by
      simp only [Gen.aggInWindow, Bool.and_eq_false_iff, decide_eq_false_iff_not]
      by_cases h1 : d.head < r
      · right; exact fun h2 => hw ⟨h1, h2⟩
      · left; exact h1
    simp [Node.aggregate, this]

/-! ### (b1) the switch to the new group -/

/-- node `d` has been handed the vault `v` of a resharing whose transition round is `t`: its files hold `v`, and a
running handler either already uses `v` or has the switch registered and has not yet stored round `t − 1` -/
def Told (v : Vault) (t : Nat) (d : Node) : Prop :=
  d.disk = v ∧ (d.up = true →
    (d.vault = v ∧ d.pend = none) ∨ (d.pend = some ⟨Gen.transitionTarget t, v⟩ ∧ d.head < Gen.transitionTarget t))

/-- **Switch point.** A node that was told holds the new vault as soon as it stores round `transition − 1`, and holds its
registration until then. -/
theorem Told.switched {v : Vault} {t : Nat} {d : Node} (h : Told v t d) (hu : d.up = true) (hh : t - 1 ≤ d.head) :
    d.vault = v := by
  rcases h.2 hu with h1 | h1
  · exact h1.1
  · have := h1.2; simp only [Gen.transitionTarget] at this; omega

theorem told_frame {v : Vault} {t : Nat} {d d' : Node} (h : Told v t d) (h1 : d'.disk = d.disk) (h2 : d'.up = d.up)
    (h3 : d'.vault = d.vault) (h4 : d'.pend = d.pend) (h5 : d'.head = d.head) : Told v t d' := by
  refine ⟨h1.trans h.1, fun hu => ?_⟩
  rw [h3, h4, h5]
  exact h.2 (h2 ▸ hu)

theorem told_put {v : Vault} {t : Nat} {d : Node} (h : Told v t d) (r : Nat) : Told v t (d.put r) := by
  unfold Node.put
  by_cases hr : r = d.head + 1
  · simp only [hr, if_true]
    refine ⟨((onStored_frame _ _).2.2.2.2.1).trans h.1, fun hu => ?_⟩
    have hu' : d.up = true := by rw [(onStored_frame _ _).1] at hu; exact hu
    rw [(onStored_frame _ _).2.1]
    rcases h.2 hu' with ⟨h1, h2⟩ | ⟨h1, h2⟩
    · left
      unfold Node.onStored
      simp [h1, h2]
    · unfold Node.onStored
      simp only [setHead_pend, h1, Gen.transitionSkip, setHead_head]
      by_cases hs : d.head + 1 < Gen.transitionTarget t
      · right; simp [hs, h1]
      · left; simp [hs]
  · simp only [hr, if_false]; exact h

theorem told_foldl_put {v : Vault} {t : Nat} : ∀ (l : List Nat) (d : Node), Told v t d → Told v t (l.foldl Node.put d) := by
  intro l
  induction l with
  | nil => intro d h; exact h
  | cons a tl ih => intro d h; exact ih _ (told_put h a)

theorem told_appendTo {v : Vault} {t : Nat} {d : Node} (h : Told v t d) (x : Nat) : Told v t (d.appendTo x) := by
  unfold Node.appendTo
  exact told_frame (told_foldl_put _ d h) rfl rfl rfl rfl rfl

theorem told_aggregate {v : Vault} {t : Nat} {d : Node} (h : Told v t d) (B idx ep r : Nat) :
    Told v t (d.aggregate B idx ep r) := by
  rcases aggregate_cases B d idx ep r with ⟨_, he⟩ | ⟨_, _, he⟩ | ⟨_, _, _, x, he⟩ | ⟨_, _, _, P, he⟩ <;> rw [he]
  · exact h
  · exact told_frame h rfl rfl rfl rfl rfl
  · exact told_frame h rfl rfl rfl rfl rfl
  · exact told_frame (d := (d.setHeld (flush (addPartial d.held r idx ep) r)).put r)
      (told_put (told_frame (d' := d.setHeld (flush (addPartial d.held r idx ep) r)) h rfl rfl rfl rfl rfl) r) rfl rfl rfl rfl rfl

theorem told_tickStep {v : Vault} {t : Nat} {d : Node} (h : Told v t d) (B i : Nat) : Told v t (d.tickStep B i).1 := by
  unfold Node.tickStep
  by_cases hu : d.up = true
  · simp only [hu, Bool.not_true, Bool.false_eq_true, if_false, Node.broadcast]
    have h1 : Told v t ((d.setTick d.clock).aggregate B (d.setTick d.clock).vault.index (d.setTick d.clock).vault.epoch (Gen.bnpRound d.clock d.head)) :=
      told_aggregate (told_frame (d' := d.setTick d.clock) h rfl rfl rfl rfl rfl) _ _ _ _
    split
    · exact told_frame h1 rfl rfl rfl rfl rfl
    · exact h1
  · simp [hu]; exact h

theorem told_fireStep {v : Vault} {t : Nat} {d : Node} (h : Told v t d) (B i : Nat) : Told v t (d.fireStep B i).1 := by
  unfold Node.fireStep
  by_cases hu : d.up = true
  · simp only [hu, Bool.not_true, Bool.false_eq_true, if_false]
    cases hp : d.pending with
    | nil => exact h
    | cons r rest =>
      show Told v t ((d.setPending rest).aggregate B _ _ (r + 1))
      exact told_aggregate (told_frame (d' := d.setPending rest) h rfl rfl rfl rfl rfl) _ _ _ _
  · simp [hu]; exact h

theorem told_fireSteps {v : Vault} {t : Nat} (B i : Nat) : ∀ (c : Nat) (d : Node), Told v t d → Told v t (Node.fireSteps B i c d).1 := by
  intro c
  induction c with
  | zero => intro d h; exact h
  | succ c ih => intro d h; exact ih _ (told_fireStep h B i)

theorem told_recvStep {v : Vault} {t : Nat} {d : Node} (h : Told v t d) (B self : Nat) (reach : Bool) (m : Msg) :
    Told v t (d.recvStep B self reach m) := by
  rcases recvStep_cases B self reach d m with ⟨he, _⟩ | ⟨_, _, _, he⟩ <;> rw [he]
  · exact h
  · exact told_aggregate h _ _ _ _

theorem act_node (s : State) (i k : Nat) (F : Node → Node × List Msg) :
    (s.act i F).node k = if k = i then (F (s.node i)).1 else s.node k := rfl

theorem setNode_node (s : State) (i k : Nat) (d : Node) : (s.setNode i d).node k = if k = i then d else s.node k := rfl

theorem told_act {v : Vault} {t : Nat} (s : State) (i k : Nat) (F : Node → Node × List Msg)
    (hF : Told v t (s.node i) → Told v t (F (s.node i)).1) (h : Told v t (s.node k)) : Told v t ((s.act i F).node k) := by
  rw [act_node]
  by_cases hk : k = i
  · subst hk; simp only [if_true]; exact hF h
  · simp only [hk, if_false]; exact h

theorem told_recv {v : Vault} {t : Nat} (s : State) (m : Msg) (k : Nat) (h : Told v t (s.node k)) : Told v t ((s.recv m).node k) :=
  told_act s m.dst k _ (fun h' => told_recvStep h' _ _ _ _) h

theorem told_foldl_recv {v : Vault} {t : Nat} (k : Nat) : ∀ (l : List Msg) (s : State), Told v t (s.node k) →
    Told v t ((l.foldl State.recv s).node k) := by
  intro l
  induction l with
  | nil => intro s h; exact h
  | cons m tl ih => intro s h; exact ih _ (told_recv s m k h)

theorem told_pull {v : Vault} {t : Nat} (s : State) (i k : Nat) (h : Told v t (s.node k)) : Told v t ((s.pull i).node k) := by
  unfold State.pull
  split; · exact h
  split; · exact h
  split
  · rw [setNode_node]; by_cases hk : k = i
    · subst hk; simp only [if_true]; exact told_frame h rfl rfl rfl rfl rfl
    · simp only [hk, if_false]; exact h
  split
  · rw [setNode_node]; by_cases hk : k = i
    · subst hk; simp only [if_true]; exact told_frame h rfl rfl rfl rfl rfl
    · simp only [hk, if_false]; exact h
  · rw [setNode_node]; by_cases hk : k = i
    · subst hk; simp only [if_true]; exact told_frame (told_appendTo h _) rfl rfl rfl rfl rfl
    · simp only [hk, if_false]; exact h

/-- an event that is not a new hand-over to node `k` -/
def Ev.keeps (k : Nat) : Ev → Prop
  | .announce i _ _ => i ≠ k
  | .join i _ => i ≠ k
  | _ => True

/-- whatever happens next — ticks, deliveries in any order, syncs, a stop, a restart from the files, packets from anybody —
a node that was told stays told -/
theorem told_apply {v : Vault} {t : Nat} (s : State) (ev : Ev) (k : Nat) (hk : ev.keeps k) (h : Told v t (s.node k)) :
    Told v t ((s.apply ev).node k) := by
  cases ev with
  | advance => exact told_frame h rfl rfl rfl rfl rfl
  | tick i => exact told_act s i k _ (fun h' => told_tickStep h' _ _) h
  | fire i => exact told_act s i k _ (fun h' => told_fireStep h' _ _) h
  | deliver j =>
    simp only [State.apply]
    cases hm : s.msgs[j]? with
    | none => exact h
    | some m => exact told_recv _ m k h
  | drop j => exact h
  | deliverAll => exact told_foldl_recv k s.msgs _ h
  | pull i => exact told_pull s i k h
  | stop i =>
    simp only [State.apply, State.stop, setNode_node]
    by_cases hki : k = i
    · subst hki; simp only [if_true]; exact ⟨h.1, fun hu => by simp at hu⟩
    · simp only [hki, if_false]; exact h
  | restart i =>
    simp only [State.apply, State.restart]
    split
    · exact h
    · rw [setNode_node]
      by_cases hki : k = i
      · subst hki; simp only [if_true]; exact ⟨h.1, fun _ => Or.inl ⟨h.1, rfl⟩⟩
      · simp only [hki, if_false]; exact h
  | setConn c => exact h
  | send m => exact h
  | announce i v' t' =>
    simp only [State.apply, setNode_node]
    have : k ≠ i := fun e => hk e.symm
    simp only [this, if_false]; exact h
  | join i v' =>
    simp only [State.apply, State.join]
    have : k ≠ i := fun e => hk e.symm
    split
    · exact h
    · rw [setNode_node]; simp only [this, if_false]; exact h

theorem told_run {v : Vault} {t : Nat} (k : Nat) : ∀ (evs : List Ev) (s : State), (∀ ev ∈ evs, ev.keeps k) → Told v t (s.node k) →
    Told v t ((s.run evs).node k) := by
  intro evs
  induction evs with
  | nil => intro s _ h; exact h
  | cons e tl ih =>
    intro s hk h
    exact ih _ (fun ev hev => hk ev (by simp [hev])) (told_apply s e k (hk e (by simp)) h)

/-- **Registration at any time (repaired variant).** When `TransitionNewGroup` switches at once if the head is already at
`transition − 1`, a running node is told whenever the call arrives — before or after it stored `transition − 1`. -/
theorem c07_registration_any_time (s : State) (hc : s.cfg.lateSwitch = true) (i : Nat) (v : Vault) (t : Nat) :
    Told v t ((s.apply (.announce i v t)).node i) := by
  simp only [State.apply, setNode_node, if_true, Node.announce, hc, Bool.true_and]
  by_cases hu : (s.node i).up = true
  · simp only [hu, Bool.not_true, Bool.false_eq_true, if_false]
    by_cases hh : Gen.transitionTarget t ≤ (s.node i).head
    · simp only [hh, decide_true, if_true]; exact ⟨rfl, fun _ => Or.inl ⟨rfl, rfl⟩⟩
    · simp only [hh, decide_false, Bool.false_eq_true, if_false]; exact ⟨rfl, fun _ => Or.inr ⟨rfl, by simp at hh ⊢; omega⟩⟩
  · simp only [hu]; exact ⟨rfl, fun h => absurd h (by simp)⟩

/-- **Registration, code as it is (partial).** The call only registers the callback: the node is told provided the call
arrives BEFORE it stored `transition − 1`. -/
theorem c07_registration_partial (s : State) (i : Nat) (v : Vault) (t : Nat) (hearly : (s.node i).head < t - 1) :
    Told v t ((s.apply (.announce i v t)).node i) := by
  simp only [State.apply, setNode_node, if_true, Node.announce]
  have hh : ¬ Gen.transitionTarget t ≤ (s.node i).head := by simp only [Gen.transitionTarget]; omega
  by_cases hu : (s.node i).up = true
  · simp only [hu, Bool.not_true, Bool.false_eq_true, if_false, hh, decide_false, Bool.and_false]
    exact ⟨rfl, fun _ => Or.inr ⟨rfl, by simp only [Gen.transitionTarget]; omega⟩⟩
  · simp only [hu]; exact ⟨rfl, fun h => absurd h (by simp)⟩

/-- hence: told at any time before the transition (repaired) / before `transition − 1` is stored (as is), then ANY finite
sequence of events without a further hand-over to that node; once it stores `transition − 1` while running it holds the
new vault -/
theorem c07_switch_any_time (s : State) (hc : s.cfg.lateSwitch = true) (i : Nat) (v : Vault) (t : Nat) (evs : List Ev)
    (hk : ∀ ev ∈ evs, ev.keeps i) (hu : (((s.apply (.announce i v t)).run evs).node i).up = true)
    (hh : t - 1 ≤ (((s.apply (.announce i v t)).run evs).node i).head) :
    (((s.apply (.announce i v t)).run evs).node i).vault = v :=
  (told_run i evs _ hk (c07_registration_any_time s hc i v t)).switched hu hh

theorem c07_switch_partial (s : State) (i : Nat) (v : Vault) (t : Nat) (hearly : (s.node i).head < t - 1) (evs : List Ev)
    (hk : ∀ ev ∈ evs, ev.keeps i) (hu : (((s.apply (.announce i v t)).run evs).node i).up = true)
    (hh : t - 1 ≤ (((s.apply (.announce i v t)).run evs).node i).head) :
    (((s.apply (.announce i v t)).run evs).node i).vault = v :=
  (told_run i evs _ hk (c07_registration_partial s i v t hearly)).switched hu hh

/-! ### the late registration: kernel-checked witness -/

def exG : Grp := ⟨[⟨0, 0⟩, ⟨1, 1⟩], 2⟩

/-- two nodes, threshold 2, resharing to the same two members (epoch 1) with transition round 2. Node 0 is told before
round 1 = transition − 1 is produced, node 1 after it stored round 1 — still before the transition time (clock round 1). -/
def exLate (repaired : Bool) : State :=
  (((State.init ⟨repaired⟩ 2 2 exG).apply (.announce 0 ⟨exG, 1, 0⟩ 2)).fairTick).apply (.announce 1 ⟨exG, 1, 1⟩ 2)

/-- **The code as it is halts.** Both members of the new group (threshold 2) are up and connected; node 1 was told late.
Node 0 switched when it stored round 1 and signs round 2 with its new share, node 1 keeps the old one: neither lets the
other's partial in, nothing is stored any more, so the callback of node 1 never runs — after three more fair rounds every
head is still 1 = transition − 1. With the repair the same schedule produces rounds 2, 3, 4. -/
theorem c07_late_registration_counterexample :
    ((exLate false).node 1).head = 1 ∧ ((exLate false).node 1).clock = 1 ∧
    ((exLate false).node 0).vault.epoch = 1 ∧ ((exLate false).node 1).vault.epoch = 0 ∧
    ((exLate false).fairTick.fairTick.fairTick.node 0).head = 1 ∧ ((exLate false).fairTick.fairTick.fairTick.node 1).head = 1 ∧
    ((exLate false).fairTick.fairTick.fairTick.node 1).vault.epoch = 0 ∧
    ((exLate true).node 1).vault.epoch = 1 ∧
    ((exLate true).fairTick.fairTick.fairTick.node 0).head = 4 ∧ ((exLate true).fairTick.fairTick.fairTick.node 1).head = 4 := by
  decide

/-- told in time (before round 1 is stored) the code as it is carries on as well -/
example : (((((State.init ⟨false⟩ 2 2 exG).apply (.announce 0 ⟨exG, 1, 0⟩ 2)).apply (.announce 1 ⟨exG, 1, 1⟩ 2)).fairTick.fairTick.fairTick).node 1).head = 3 ∧
    (((((State.init ⟨false⟩ 2 2 exG).apply (.announce 0 ⟨exG, 1, 0⟩ 2)).apply (.announce 1 ⟨exG, 1, 1⟩ 2)).fairTick.fairTick.fairTick).node 1).vault.epoch = 1 := by
  decide

end Drand.Net.Reshare
