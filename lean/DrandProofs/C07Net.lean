/-
C07 / C03 / C05 around a resharing, at message level (model: Drand/Net/Reshare.lean).

What is proved here, for every state / every finite event list of the model (the fair-round abstraction of C05):
  (a) membership lookup by index VALUE is exact, gaps allowed; an admitted partial carries a current member's index
  (b) the switch to the new group happens at the first stored round ≥ transition−1 WHENEVER the switch was registered
      (repaired variant: any time; as-is variant: only when registered before transition−1 was stored — kernel-checked
      counterexample for the rest), and once a threshold of the NEW group holds the new vault every due round is produced
      (whatever the old threshold, the number of remainers, who joined)
  (c) a partial made with a share of another epoch never counts, not even from a still-member; a stored beacon needs
      `thr` distinct indices of members of the node's CURRENT group, with the threshold read at that iteration
The regenerated facts the model uses are tied below (`tie_*`).
-/
import Drand.Net.Reshare

namespace Drand.Net.Reshare

/-! ### ties to the source -/

/-- `key.Group.Node`: a linear scan of `g.Nodes` that returns the first node whose `Index` EQUALS the argument -/
theorem tie_group_node_lookup :
    (∀ a i, Gen.groupNodeMatch a i = decide (a = i)) ∧
    Gen.groupNodeLookup = ["range g.Nodes", "if n.Index==i", "return n", "return nil"] :=
  ⟨fun _ _ => rfl, rfl⟩

/-- `broadcastNextPartial` sends to the nodes of the vault's CURRENT group and skips the own address -/
theorem tie_broadcast_recipients :
    Gen.bnpRecipients = "h.crypto.GetGroup().Nodes" ∧ Gen.bnpSkipSelf = "h.addr==id.Address()" := ⟨rfl, rfl⟩

/-- `runAggregator` reads threshold and size from the vault inside the loop (every iteration) -/
theorem tie_aggregator_threshold_in_loop :
    Gen.aggThrInLoop = ["thr := c.crypto.GetGroup().Threshold", "n := c.crypto.GetGroup().Len()"] := rfl

/-- `TransitionNewGroup`: target round and the callback's skip condition -/
theorem tie_transition_skip :
    (∀ b t, Gen.transitionSkip b t = decide (b < t)) ∧ (∀ t, Gen.transitionTarget t = t - 1) :=
  ⟨fun _ _ => rfl, fun _ => rfl⟩

/-! ### basic facts -/

@[simp] theorem setHead_up (d : Node) (v) : (d.setHead v).up = d.up := rfl
@[simp] theorem setHead_head (d : Node) (v) : (d.setHead v).head = v := rfl
@[simp] theorem setHead_clock (d : Node) (v) : (d.setHead v).clock = d.clock := rfl
@[simp] theorem setHead_held (d : Node) (v) : (d.setHead v).held = d.held := rfl
@[simp] theorem setHead_vault (d : Node) (v) : (d.setHead v).vault = d.vault := rfl
@[simp] theorem setHead_pend (d : Node) (v) : (d.setHead v).pend = d.pend := rfl
@[simp] theorem setHead_disk (d : Node) (v) : (d.setHead v).disk = d.disk := rfl
@[simp] theorem setHead_replace (d : Node) (v) : (d.setHead v).replace = d.replace := rfl
@[simp] theorem setTick_replace (d : Node) (v) : (d.setTick v).replace = d.replace := rfl
@[simp] theorem setHeld_replace (d : Node) (v) : (d.setHeld v).replace = d.replace := rfl
@[simp] theorem setPending_replace (d : Node) (v) : (d.setPending v).replace = d.replace := rfl
@[simp] theorem setSync_replace (d : Node) (v) : (d.setSync v).replace = d.replace := rfl
@[simp] theorem setTick_up (d : Node) (v) : (d.setTick v).up = d.up := rfl
@[simp] theorem setTick_head (d : Node) (v) : (d.setTick v).head = d.head := rfl
@[simp] theorem setTick_clock (d : Node) (v) : (d.setTick v).clock = d.clock := rfl
@[simp] theorem setTick_held (d : Node) (v) : (d.setTick v).held = d.held := rfl
@[simp] theorem setTick_vault (d : Node) (v) : (d.setTick v).vault = d.vault := rfl
@[simp] theorem setTick_pend (d : Node) (v) : (d.setTick v).pend = d.pend := rfl
@[simp] theorem setTick_disk (d : Node) (v) : (d.setTick v).disk = d.disk := rfl
@[simp] theorem setHeld_up (d : Node) (v) : (d.setHeld v).up = d.up := rfl
@[simp] theorem setHeld_head (d : Node) (v) : (d.setHeld v).head = d.head := rfl
@[simp] theorem setHeld_clock (d : Node) (v) : (d.setHeld v).clock = d.clock := rfl
@[simp] theorem setHeld_held (d : Node) (v) : (d.setHeld v).held = v := rfl
@[simp] theorem setHeld_vault (d : Node) (v) : (d.setHeld v).vault = d.vault := rfl
@[simp] theorem setHeld_pend (d : Node) (v) : (d.setHeld v).pend = d.pend := rfl
@[simp] theorem setHeld_disk (d : Node) (v) : (d.setHeld v).disk = d.disk := rfl
@[simp] theorem setPending_up (d : Node) (v) : (d.setPending v).up = d.up := rfl
@[simp] theorem setPending_head (d : Node) (v) : (d.setPending v).head = d.head := rfl
@[simp] theorem setPending_clock (d : Node) (v) : (d.setPending v).clock = d.clock := rfl
@[simp] theorem setPending_held (d : Node) (v) : (d.setPending v).held = d.held := rfl
@[simp] theorem setPending_vault (d : Node) (v) : (d.setPending v).vault = d.vault := rfl
@[simp] theorem setPending_pend (d : Node) (v) : (d.setPending v).pend = d.pend := rfl
@[simp] theorem setPending_disk (d : Node) (v) : (d.setPending v).disk = d.disk := rfl
@[simp] theorem setSync_up (d : Node) (v) : (d.setSync v).up = d.up := rfl
@[simp] theorem setSync_head (d : Node) (v) : (d.setSync v).head = d.head := rfl
@[simp] theorem setSync_clock (d : Node) (v) : (d.setSync v).clock = d.clock := rfl
@[simp] theorem setSync_held (d : Node) (v) : (d.setSync v).held = d.held := rfl
@[simp] theorem setSync_vault (d : Node) (v) : (d.setSync v).vault = d.vault := rfl
@[simp] theorem setSync_pend (d : Node) (v) : (d.setSync v).pend = d.pend := rfl
@[simp] theorem setSync_disk (d : Node) (v) : (d.setSync v).disk = d.disk := rfl

/-! ### (a) membership lookup by index value -/

/-- **Lookup is exact.** `Group.Node(i)` returns a node iff some member has exactly the index `i` — whatever holes the
index sequence has — and the node it returns is a member with that index. -/
theorem c03_member_lookup_exact (g : Grp) (i : Nat) :
    ((g.node? i).isSome ↔ ∃ m ∈ g.members, m.index = i) ∧
    (∀ m, g.node? i = some m → m ∈ g.members ∧ m.index = i) := by
  unfold Grp.node?
  simp only [Gen.groupNodeMatch]
  refine ⟨?_, ?_⟩
  · rw [List.find?_isSome]
    constructor
    · rintro ⟨m, hm, h⟩; exact ⟨m, hm, by simpa using h⟩
    · rintro ⟨m, hm, h⟩; exact ⟨m, hm, by simpa using h⟩
  · intro m h
    exact ⟨List.mem_of_find?_eq_some h, by simpa using List.find?_some h⟩

/-- a missing index (a hole, or beyond the last member) is refused: never the next higher member -/
theorem c03_hole_is_not_member (g : Grp) (i : Nat) (h : ∀ m ∈ g.members, m.index ≠ i) : g.node? i = none := by
  cases hn : g.node? i with
  | none => rfl
  | some m => exact absurd ((c03_member_lookup_exact g i).2 m hn).2 (h m ((c03_member_lookup_exact g i).2 m hn).1)

theorem nodup_map_inj {α β : Type} (f : α → β) : ∀ (l : List α), (l.map f).Nodup → ∀ a ∈ l, ∀ b ∈ l, f a = f b → a = b := by
  intro l
  induction l with
  | nil => intro _ a ha; cases ha
  | cons x t ih =>
    intro hn a ha b hb hab
    simp only [List.map_cons, List.nodup_cons, List.mem_map, not_exists, not_and] at hn
    rcases List.mem_cons.mp ha with h1 | h1 <;> rcases List.mem_cons.mp hb with h2 | h2
    · rw [h1, h2]
    · subst h1; exact absurd hab.symm (hn.1 b h2)
    · subst h2; exact absurd hab (hn.1 a h1)
    · exact ih hn.2 a h1 b h2 hab

/-- with pairwise distinct indices the lookup finds THE member of that index -/
theorem node?_of_mem (g : Grp) (hn : (g.members.map (·.index)).Nodup) (m : Member) (hm : m ∈ g.members) :
    g.node? m.index = some m := by
  cases hf : g.node? m.index with
  | none =>
    have := c03_hole_is_not_member g m.index
    have h2 : ¬ ∀ m' ∈ g.members, m'.index ≠ m.index := fun h => h m hm rfl
    exfalso
    have hs := (c03_member_lookup_exact g m.index).1.2 ⟨m, hm, rfl⟩
    rw [hf] at hs; cases hs
  | some m' =>
    obtain ⟨hm', hi⟩ := (c03_member_lookup_exact g m.index).2 m' hf
    rw [nodup_map_inj (·.index) g.members hn m' hm' m hm hi]

/-- **Admission implies membership.** A partial that passes `ProcessPartialBeacon` carries the index of a member of the
receiver's CURRENT group (not the receiver itself) and was made with a share of the receiver's current epoch. -/
theorem c03_admitted_is_member (self : Nat) (d : Node) (m : Msg) (h : d.admission self m = .admitted) :
    (∃ mem ∈ d.vault.grp.members, mem.index = m.idx ∧ mem.node ≠ self) ∧ m.epoch = d.vault.epoch ∧ m.idx ≠ d.vault.index ∧
    d.head < m.round ∧ m.round ≤ d.clock + 1 := by
  unfold Node.admission at h
  simp only [Gen.ppbFuture, Gen.ppbPast, decide_eq_true_eq] at h
  by_cases h1 : d.clock + 1 < m.round
  · simp [h1] at h
  by_cases h2 : m.round ≤ d.head
  · simp [h1, h2] at h
  simp only [h1, h2, if_false] at h
  cases hmem : d.vault.grp.node? m.idx with
  | none => simp [hmem] at h
  | some mem =>
    simp only [hmem] at h
    by_cases h3 : mem.node = self
    · simp [h3] at h
    by_cases h4 : m.epoch ≠ d.vault.epoch
    · simp [h3, h4] at h
    by_cases h5 : m.idx = d.vault.index
    · simp [h3, h4, h5] at h
    obtain ⟨hm, hi⟩ := (c03_member_lookup_exact d.vault.grp m.idx).2 mem hmem
    exact ⟨⟨mem, hm, hi, h3⟩, by simpa using h4, h5, by omega, by omega⟩

/-- a node's state changes on a received packet only if the packet was admitted -/
theorem recvStep_cases (B self : Nat) (reach : Bool) (d : Node) (m : Msg) :
    (d.recvStep B self reach m = d ∧ ¬ (d.up = true ∧ reach = true ∧ d.admission self m = .admitted)) ∨
    (d.up = true ∧ reach = true ∧ d.admission self m = .admitted ∧ d.recvStep B self reach m = d.aggregate B m.idx m.epoch m.round) := by
  unfold Node.recvStep
  by_cases hu : d.up = true
  · by_cases hr : reach = true
    · by_cases ha : d.admission self m = .admitted
      · right; simp [hu, hr, ha]
      · left
        refine ⟨?_, fun h => ha h.2.2⟩
        simp only [hu, hr, Bool.not_true, Bool.false_eq_true, if_false]
    · left; simp [hu, hr]
  · left; simp [hu]

/-! ### (c) partials of another epoch, non-members -/

/-- **An old-share partial never counts** — not from a leaver, not from a node that is still a member: whatever the
packet says, if the share that signed it belongs to another epoch than the receiver's current one, the receiver's
state (cache included) does not change. -/
theorem c07_old_epoch_never_counts (B self : Nat) (reach : Bool) (d : Node) (m : Msg) (h : m.epoch ≠ d.vault.epoch) :
    d.recvStep B self reach m = d := by
  rcases recvStep_cases B self reach d m with ⟨he, _⟩ | ⟨_, _, ha, _⟩
  · exact he
  · exact absurd (c03_admitted_is_member self d m ha).2.1 h

/-- a partial whose index no current member holds never counts -/
theorem c03_nonmember_index_never_counts (B self : Nat) (reach : Bool) (d : Node) (m : Msg)
    (h : ∀ mem ∈ d.vault.grp.members, mem.index ≠ m.idx) : d.recvStep B self reach m = d := by
  rcases recvStep_cases B self reach d m with ⟨he, _⟩ | ⟨_, _, ha, _⟩
  · exact he
  · obtain ⟨⟨mem, hm, hi, _⟩, _⟩ := c03_admitted_is_member self d m ha
    exact absurd hi (h mem hm)

/-! ### the store callback and the aggregator -/

theorem onStored_frame (d : Node) (r : Nat) :
    (d.onStored r).up = d.up ∧ (d.onStored r).head = d.head ∧ (d.onStored r).clock = d.clock ∧ (d.onStored r).held = d.held ∧
    (d.onStored r).disk = d.disk ∧ (d.onStored r).lastTick = d.lastTick ∧ (d.onStored r).pending = d.pending ∧
    (d.onStored r).syncTo = d.syncTo := by
  unfold Node.onStored
  cases d.pend with
  | none => simp
  | some p => by_cases h : Gen.transitionSkip r p.target = true <;> simp [h]

theorem put_frame (d : Node) (r : Nat) :
    (d.put r).up = d.up ∧ (d.put r).clock = d.clock ∧ (d.put r).held = d.held ∧ (d.put r).disk = d.disk ∧
    (d.put r).lastTick = d.lastTick ∧ (d.put r).pending = d.pending ∧ (d.put r).syncTo = d.syncTo ∧
    d.head ≤ (d.put r).head ∧ ((d.put r).head = d.head ∨ ((d.put r).head = d.head + 1 ∧ r = d.head + 1)) := by
  unfold Node.put
  by_cases h : r = d.head + 1
  · have := onStored_frame (d.setHead r) r
    simp only [h, if_true]
    rw [← h]
    refine ⟨this.1, this.2.2.1, this.2.2.2.1, this.2.2.2.2.1, this.2.2.2.2.2.1, this.2.2.2.2.2.2.1, this.2.2.2.2.2.2.2, ?_, ?_⟩
    · rw [this.2.1]; simp [h]
    · right; rw [this.2.1]; simp [h]
  · simp [h]

theorem filter_length_mono {α : Type} (p q : α → Bool) (h : ∀ x, p x = true → q x = true) :
    ∀ l : List α, (l.filter p).length ≤ (l.filter q).length := by
  intro l
  induction l with
  | nil => simp
  | cons a t ih =>
    simp only [List.filter_cons]
    by_cases hp : p a = true
    · simp only [hp, h a hp, if_true, List.length_cons]; omega
    · by_cases hq : q a = true
      · simp only [hp, hq, if_true, List.length_cons]; simp; omega
      · simp only [hp, hq]; simpa using ih

theorem valid_le_count (B : Nat) (held : Nat → Nat → Option Nat) (r e : Nat) : valid B held r e ≤ count B held r := by
  unfold valid count
  apply filter_length_mono
  intro x hx
  have : held r x = some e := by simpa using hx
  simp [this]

/-- what the partial of (idx, ep) on round r does to a node -/
theorem aggregate_cases (B : Nat) (d : Node) (idx ep r : Nat) :
    (¬ (d.head < r ∧ r ≤ d.head + Gen.partialCacheStoreLimit + 1) ∧ d.aggregate B idx ep r = d) ∨
    (d.head < r ∧ valid B (d.cacheAdd r idx ep) r d.vault.epoch < d.vault.grp.thr ∧
      d.aggregate B idx ep r = d.setHeld (d.cacheAdd r idx ep)) ∨
    (d.head < r ∧ d.vault.grp.thr ≤ valid B (d.cacheAdd r idx ep) r d.vault.epoch ∧ r ≠ d.head + 1 ∧
      ∃ v, d.aggregate B idx ep r = (d.setHeld (flush (d.cacheAdd r idx ep) r)).setSync v) ∨
    (d.head < r ∧ d.vault.grp.thr ≤ valid B (d.cacheAdd r idx ep) r d.vault.epoch ∧ r = d.head + 1 ∧
      ∃ P, d.aggregate B idx ep r = ((d.setHeld (flush (d.cacheAdd r idx ep) r)).put r).setPending P) := by
  have hvc := valid_le_count B (d.cacheAdd r idx ep) r d.vault.epoch
  by_cases hw : d.head < r ∧ r ≤ d.head + Gen.partialCacheStoreLimit + 1
  · have hwin : Gen.aggInWindow r d.head = true := by simp [Gen.aggInWindow, hw.1, hw.2]
    by_cases hc : count B (d.cacheAdd r idx ep) r < d.vault.grp.thr
    · refine Or.inr (Or.inl ⟨hw.1, by omega, ?_⟩)
      simp [Node.aggregate, hwin, Gen.aggNotEnough, hc]
    · by_cases hv : valid B (d.cacheAdd r idx ep) r d.vault.epoch < d.vault.grp.thr
      · refine Or.inr (Or.inl ⟨hw.1, hv, ?_⟩)
        simp [Node.aggregate, hwin, Gen.aggNotEnough, hc, hv]
      · by_cases hr : d.head + 1 ≠ r
        · by_cases hs : d.head + 1 < r
          · refine Or.inr (Or.inr (Or.inl ⟨hw.1, by omega, fun h => hr h.symm, max d.syncTo r, ?_⟩))
            simp [Node.aggregate, hwin, Gen.aggNotEnough, hc, hv, Gen.tryAppendRefuse, hr, Gen.shouldSync, hs]
          · refine Or.inr (Or.inr (Or.inl ⟨hw.1, by omega, fun h => hr h.symm, d.syncTo, ?_⟩))
            simp [Node.aggregate, hwin, Gen.aggNotEnough, hc, hv, Gen.tryAppendRefuse, hr, Gen.shouldSync, hs]
            rfl
        · have hr' : r = d.head + 1 := by omega
          by_cases hl : r < d.lastTick
          · refine Or.inr (Or.inr (Or.inr ⟨hw.1, by omega, hr', d.pending ++ [r], ?_⟩))
            simp [Node.aggregate, hwin, Gen.aggNotEnough, hc, hv, Gen.tryAppendRefuse, hr, Gen.catchupLaunch, hl]
          · refine Or.inr (Or.inr (Or.inr ⟨hw.1, by omega, hr', ((d.setHeld (flush (d.cacheAdd r idx ep) r)).put r).pending, ?_⟩))
            simp [Node.aggregate, hwin, Gen.aggNotEnough, hc, hv, Gen.tryAppendRefuse, hr, Gen.catchupLaunch, hl]
            rfl
  · refine Or.inl ⟨hw, ?_⟩
    have : Gen.aggInWindow r d.head = false := by
      simp only [Gen.aggInWindow, Bool.and_eq_false_iff, decide_eq_false_iff_not]
      by_cases h1 : d.head < r
      · right; exact fun h2 => hw ⟨h1, h2⟩
      · left; exact h1
    simp [Node.aggregate, this]

/-! ### (b1) the switch to the new group -/

/-- node `d` has been handed the vault `v` of a resharing whose transition round is `t`: its files hold `v`, and a
running handler either already uses `v` or has the switch registered and has not yet stored round `t − 1` -/
def Told (v : Vault) (t : Nat) (d : Node) : Prop :=
  d.disk = v ∧ (d.up = true →
    (d.vault = v ∧ d.pend = none) ∨ (d.pend = some ⟨Gen.transitionTarget t, v⟩ ∧ d.head < Gen.transitionTarget t))

/-- **Switch point.** A node that was told holds the new vault as soon as it stores round `transition − 1`, and holds its
registration until then. -/
theorem Told.switched {v : Vault} {t : Nat} {d : Node} (h : Told v t d) (hu : d.up = true) (hh : t - 1 ≤ d.head) :
    d.vault = v := by
  rcases h.2 hu with h1 | h1
  · exact h1.1
  · have := h1.2; simp only [Gen.transitionTarget] at this; omega

theorem told_frame {v : Vault} {t : Nat} {d d' : Node} (h : Told v t d) (h1 : d'.disk = d.disk) (h2 : d'.up = d.up)
    (h3 : d'.vault = d.vault) (h4 : d'.pend = d.pend) (h5 : d'.head = d.head) : Told v t d' := by
  refine ⟨h1.trans h.1, fun hu => ?_⟩
  rw [h3, h4, h5]
  exact h.2 (h2 ▸ hu)

theorem told_put {v : Vault} {t : Nat} {d : Node} (h : Told v t d) (r : Nat) : Told v t (d.put r) := by
  unfold Node.put
  by_cases hr : r = d.head + 1
  · simp only [hr, if_true]
    refine ⟨((onStored_frame _ _).2.2.2.2.1).trans h.1, fun hu => ?_⟩
    have hu' : d.up = true := by rw [(onStored_frame _ _).1] at hu; exact hu
    rw [(onStored_frame _ _).2.1]
    rcases h.2 hu' with ⟨h1, h2⟩ | ⟨h1, h2⟩
    · left
      unfold Node.onStored
      simp [h1, h2]
    · unfold Node.onStored
      simp only [setHead_pend, h1, Gen.transitionSkip, setHead_head]
      by_cases hs : d.head + 1 < Gen.transitionTarget t
      · right; simp [hs, h1]
      · left; simp [hs]
  · simp only [hr, if_false]; exact h

theorem told_foldl_put {v : Vault} {t : Nat} : ∀ (l : List Nat) (d : Node), Told v t d → Told v t (l.foldl Node.put d) := by
  intro l
  induction l with
  | nil => intro d h; exact h
  | cons a tl ih => intro d h; exact ih _ (told_put h a)

theorem told_appendTo {v : Vault} {t : Nat} {d : Node} (h : Told v t d) (x : Nat) : Told v t (d.appendTo x) := by
  unfold Node.appendTo
  exact told_frame (told_foldl_put _ d h) rfl rfl rfl rfl rfl

theorem told_aggregate {v : Vault} {t : Nat} {d : Node} (h : Told v t d) (B idx ep r : Nat) :
    Told v t (d.aggregate B idx ep r) := by
  rcases aggregate_cases B d idx ep r with ⟨_, he⟩ | ⟨_, _, he⟩ | ⟨_, _, _, x, he⟩ | ⟨_, _, _, P, he⟩ <;> rw [he]
  · exact h
  · exact told_frame h rfl rfl rfl rfl rfl
  · exact told_frame h rfl rfl rfl rfl rfl
  · exact told_frame (d := (d.setHeld (flush (d.cacheAdd r idx ep) r)).put r)
      (told_put (told_frame (d' := d.setHeld (flush (d.cacheAdd r idx ep) r)) h rfl rfl rfl rfl rfl) r) rfl rfl rfl rfl rfl

theorem told_tickStep {v : Vault} {t : Nat} {d : Node} (h : Told v t d) (B i : Nat) : Told v t (d.tickStep B i).1 := by
  unfold Node.tickStep
  by_cases hu : d.up = true
  · simp only [hu, Bool.not_true, Bool.false_eq_true, if_false, Node.broadcast]
    have h1 : Told v t ((d.setTick d.clock).aggregate B (d.setTick d.clock).vault.index (d.setTick d.clock).vault.epoch (Gen.bnpRound d.clock d.head)) :=
      told_aggregate (told_frame (d' := d.setTick d.clock) h rfl rfl rfl rfl rfl) _ _ _ _
    split
    · exact told_frame h1 rfl rfl rfl rfl rfl
    · exact h1
  · simp [hu]; exact h

theorem told_fireStep {v : Vault} {t : Nat} {d : Node} (h : Told v t d) (B i : Nat) : Told v t (d.fireStep B i).1 := by
  unfold Node.fireStep
  by_cases hu : d.up = true
  · simp only [hu, Bool.not_true, Bool.false_eq_true, if_false]
    cases hp : d.pending with
    | nil => exact h
    | cons r rest =>
      show Told v t ((d.setPending rest).aggregate B _ _ (r + 1))
      exact told_aggregate (told_frame (d' := d.setPending rest) h rfl rfl rfl rfl rfl) _ _ _ _
  · simp [hu]; exact h

theorem told_fireSteps {v : Vault} {t : Nat} (B i : Nat) : ∀ (c : Nat) (d : Node), Told v t d → Told v t (Node.fireSteps B i c d).1 := by
  intro c
  induction c with
  | zero => intro d h; exact h
  | succ c ih => intro d h; exact ih _ (told_fireStep h B i)

theorem told_recvStep {v : Vault} {t : Nat} {d : Node} (h : Told v t d) (B self : Nat) (reach : Bool) (m : Msg) :
    Told v t (d.recvStep B self reach m) := by
  rcases recvStep_cases B self reach d m with ⟨he, _⟩ | ⟨_, _, _, he⟩ <;> rw [he]
  · exact h
  · exact told_aggregate h _ _ _ _

theorem act_node (s : State) (i k : Nat) (F : Node → Node × List Msg) :
    (s.act i F).node k = if k = i then (F (s.node i)).1 else s.node k := rfl

theorem setNode_node (s : State) (i k : Nat) (d : Node) : (s.setNode i d).node k = if k = i then d else s.node k := rfl

theorem told_act {v : Vault} {t : Nat} (s : State) (i k : Nat) (F : Node → Node × List Msg)
    (hF : Told v t (s.node i) → Told v t (F (s.node i)).1) (h : Told v t (s.node k)) : Told v t ((s.act i F).node k) := by
  rw [act_node]
  by_cases hk : k = i
  · subst hk; simp only [if_true]; exact hF h
  · simp only [hk, if_false]; exact h

theorem told_recv {v : Vault} {t : Nat} (s : State) (m : Msg) (k : Nat) (h : Told v t (s.node k)) : Told v t ((s.recv m).node k) :=
  told_act s m.dst k _ (fun h' => told_recvStep h' _ _ _ _) h

theorem told_foldl_recv {v : Vault} {t : Nat} (k : Nat) : ∀ (l : List Msg) (s : State), Told v t (s.node k) →
    Told v t ((l.foldl State.recv s).node k) := by
  intro l
  induction l with
  | nil => intro s h; exact h
  | cons m tl ih => intro s h; exact ih _ (told_recv s m k h)

theorem told_pull {v : Vault} {t : Nat} (s : State) (i k : Nat) (h : Told v t (s.node k)) : Told v t ((s.pull i).node k) := by
  unfold State.pull
  split; · exact h
  split; · exact h
  split
  · rw [setNode_node]; by_cases hk : k = i
    · subst hk; simp only [if_true]; exact told_frame h rfl rfl rfl rfl rfl
    · simp only [hk, if_false]; exact h
  split
  · rw [setNode_node]; by_cases hk : k = i
    · subst hk; simp only [if_true]; exact told_frame h rfl rfl rfl rfl rfl
    · simp only [hk, if_false]; exact h
  · rw [setNode_node]; by_cases hk : k = i
    · subst hk; simp only [if_true]; exact told_frame (told_appendTo h _) rfl rfl rfl rfl rfl
    · simp only [hk, if_false]; exact h

/-- an event that is not a new hand-over to node `k` -/
def Ev.keeps (k : Nat) : Ev → Prop
  | .announce i _ _ => i ≠ k
  | .join i _ => i ≠ k
  | _ => True

/-- whatever happens next — ticks, deliveries in any order, syncs, a stop, a restart from the files, packets from anybody —
a node that was told stays told -/
theorem told_apply {v : Vault} {t : Nat} (s : State) (ev : Ev) (k : Nat) (hk : ev.keeps k) (h : Told v t (s.node k)) :
    Told v t ((s.apply ev).node k) := by
  cases ev with
  | advance => exact told_frame h rfl rfl rfl rfl rfl
  | tick i => exact told_act s i k _ (fun h' => told_tickStep h' _ _) h
  | fire i => exact told_act s i k _ (fun h' => told_fireStep h' _ _) h
  | deliver j =>
    simp only [State.apply]
    cases hm : s.msgs[j]? with
    | none => exact h
    | some m => exact told_recv _ m k h
  | drop j => exact h
  | deliverAll => exact told_foldl_recv k s.msgs _ h
  | pull i => exact told_pull s i k h
  | stop i =>
    simp only [State.apply, State.stop, setNode_node]
    by_cases hki : k = i
    · subst hki; simp only [if_true]; exact ⟨h.1, fun hu => by simp at hu⟩
    · simp only [hki, if_false]; exact h
  | restart i =>
    simp only [State.apply, State.restart]
    split
    · exact h
    · rw [setNode_node]
      by_cases hki : k = i
      · subst hki; simp only [if_true]; exact ⟨h.1, fun _ => Or.inl ⟨h.1, rfl⟩⟩
      · simp only [hki, if_false]; exact h
  | setConn c => exact h
  | send m => exact h
  | announce i v' t' =>
    simp only [State.apply, setNode_node]
    have : k ≠ i := fun e => hk e.symm
    simp only [this, if_false]; exact h
  | join i v' =>
    simp only [State.apply, State.join]
    have : k ≠ i := fun e => hk e.symm
    split
    · exact h
    · rw [setNode_node]; simp only [this, if_false]; exact h

theorem told_run {v : Vault} {t : Nat} (k : Nat) : ∀ (evs : List Ev) (s : State), (∀ ev ∈ evs, ev.keeps k) → Told v t (s.node k) →
    Told v t ((s.run evs).node k) := by
  intro evs
  induction evs with
  | nil => intro s _ h; exact h
  | cons e tl ih =>
    intro s hk h
    exact ih _ (fun ev hev => hk ev (by simp [hev])) (told_apply s e k (hk e (by simp)) h)

/-- **Registration at any time (repaired variant).** When `TransitionNewGroup` switches at once if the head is already at
`transition − 1`, a running node is told whenever the call arrives — before or after it stored `transition − 1`. -/
theorem c07_registration_any_time (s : State) (hc : s.cfg.lateSwitch = true) (i : Nat) (v : Vault) (t : Nat) :
    Told v t ((s.apply (.announce i v t)).node i) := by
  simp only [State.apply, setNode_node, if_true, Node.announce, hc, Bool.true_and]
  by_cases hu : (s.node i).up = true
  · simp only [hu, Bool.not_true, Bool.false_eq_true, if_false]
    by_cases hh : Gen.transitionTarget t ≤ (s.node i).head
    · simp only [hh, decide_true, if_true]; exact ⟨rfl, fun _ => Or.inl ⟨rfl, rfl⟩⟩
    · simp only [hh, decide_false, Bool.false_eq_true, if_false]; exact ⟨rfl, fun _ => Or.inr ⟨rfl, by simp at hh ⊢; omega⟩⟩
  · simp only [hu]; exact ⟨rfl, fun h => absurd h (by simp)⟩

/-- **Registration, code as it is (partial).** The call only registers the callback: the node is told provided the call
arrives BEFORE it stored `transition − 1`. -/
theorem c07_registration_partial (s : State) (i : Nat) (v : Vault) (t : Nat) (hearly : (s.node i).head < t - 1) :
    Told v t ((s.apply (.announce i v t)).node i) := by
  simp only [State.apply, setNode_node, if_true, Node.announce]
  have hh : ¬ Gen.transitionTarget t ≤ (s.node i).head := by simp only [Gen.transitionTarget]; omega
  by_cases hu : (s.node i).up = true
  · simp only [hu, Bool.not_true, Bool.false_eq_true, if_false, hh, decide_false, Bool.and_false]
    exact ⟨rfl, fun _ => Or.inr ⟨rfl, by simp only [Gen.transitionTarget]; omega⟩⟩
  · simp only [hu]; exact ⟨rfl, fun h => absurd h (by simp)⟩

/-- hence: told at any time before the transition (repaired) / before `transition − 1` is stored (as is), then ANY finite
sequence of events without a further hand-over to that node; once it stores `transition − 1` while running it holds the
new vault -/
theorem c07_switch_any_time (s : State) (hc : s.cfg.lateSwitch = true) (i : Nat) (v : Vault) (t : Nat) (evs : List Ev)
    (hk : ∀ ev ∈ evs, ev.keeps i) (hu : (((s.apply (.announce i v t)).run evs).node i).up = true)
    (hh : t - 1 ≤ (((s.apply (.announce i v t)).run evs).node i).head) :
    (((s.apply (.announce i v t)).run evs).node i).vault = v :=
  (told_run i evs _ hk (c07_registration_any_time s hc i v t)).switched hu hh

theorem c07_switch_partial (s : State) (i : Nat) (v : Vault) (t : Nat) (hearly : (s.node i).head < t - 1) (evs : List Ev)
    (hk : ∀ ev ∈ evs, ev.keeps i) (hu : (((s.apply (.announce i v t)).run evs).node i).up = true)
    (hh : t - 1 ≤ (((s.apply (.announce i v t)).run evs).node i).head) :
    (((s.apply (.announce i v t)).run evs).node i).vault = v :=
  (told_run i evs _ hk (c07_registration_partial s i v t hearly)).switched hu hh

/-! ### (c) a beacon needs a threshold of members of the CURRENT group -/

/-- `reg` maps an epoch (a polynomial) to the group it was dealt to; a vault is consistent with it when its group is the
group of its epoch and its own share index is a member index -/
def VOk (reg : Nat → Grp) (v : Vault) : Prop := v.grp = reg v.epoch ∧ ∃ m ∈ v.grp.members, m.index = v.index

/-- every cached partial was made with the share of a member of the group of its epoch -/
def HeldOk (reg : Nat → Grp) (held : Nat → Nat → Option Nat) : Prop :=
  ∀ r k e, held r k = some e → ∃ m ∈ (reg e).members, m.index = k

structure NodeOk (reg : Nat → Grp) (d : Node) : Prop where
  vault : VOk reg d.vault
  disk : VOk reg d.disk
  pend : ∀ p, d.pend = some p → VOk reg p.vault
  held : HeldOk reg d.held

theorem heldOk_add {reg : Nat → Grp} {held : Nat → Nat → Option Nat} (h : HeldOk reg held) (r idx ep : Nat)
    (hn : ∃ m ∈ (reg ep).members, m.index = idx) : HeldOk reg (addPartial held r idx ep) := by
  intro r' k e he
  unfold addPartial at he
  by_cases hc : r' = r ∧ k = idx
  · simp only [hc, and_self, if_true] at he
    cases hx : held r idx with
    | none => simp only [hx] at he; cases he; rw [hc.2]; exact hn
    | some x => simp only [hx] at he; cases he; rw [hc.2]; exact h r idx _ hx
  · simp only [hc, if_false] at he; exact h r' k e he

theorem cacheAdd_entry {d : Node} {r idx ep r' k x : Nat} (h : d.cacheAdd r idx ep r' k = some x) :
    d.held r' k = some x ∨ (r' = r ∧ k = idx ∧ x = ep) := by
  unfold Node.cacheAdd at h
  by_cases hc : r' = r ∧ k = idx
  · cases hrep : d.replace with
    | true =>
      simp only [hrep, if_true, setPartial, hc, and_self] at h
      right; exact ⟨hc.1, hc.2, by injection h with h; exact h.symm⟩
    | false =>
      simp only [hrep, Bool.false_eq_true, if_false, addPartial, hc, and_self, if_true] at h
      obtain ⟨h1, h2⟩ := hc
      subst h1; subst h2
      cases hy : d.held r' k with
      | none => rw [hy] at h; right; exact ⟨rfl, rfl, by injection h with h; exact h.symm⟩
      | some y => rw [hy] at h; left; exact h
  · cases hrep : d.replace <;> simp only [hrep, if_true, Bool.false_eq_true, if_false, setPartial, addPartial, hc] at h <;> exact Or.inl h

theorem heldOk_cacheAdd {reg : Nat → Grp} {d : Node} (h : HeldOk reg d.held) (r idx ep : Nat)
    (hn : ∃ m ∈ (reg ep).members, m.index = idx) : HeldOk reg (d.cacheAdd r idx ep) := by
  intro r' k e he
  rcases cacheAdd_entry he with ho | ⟨_, e2, e3⟩
  · exact h r' k e ho
  · rw [e2, e3]; exact hn

theorem heldOk_flush {reg : Nat → Grp} {held : Nat → Nat → Option Nat} (h : HeldOk reg held) (r : Nat) : HeldOk reg (flush held r) := by
  intro r' k e he
  unfold flush at he
  by_cases hc : r < r'
  · simp only [hc, if_true] at he; exact h r' k e he
  · simp only [hc, if_false] at he; cases he

theorem nodeOk_frame {reg : Nat → Grp} {d d' : Node} (h : NodeOk reg d) (h1 : d'.vault = d.vault) (h2 : d'.disk = d.disk)
    (h3 : d'.pend = d.pend) (h4 : HeldOk reg d'.held) : NodeOk reg d' :=
  ⟨h1 ▸ h.vault, h2 ▸ h.disk, fun p hp => h.pend p (h3 ▸ hp), h4⟩

theorem nodeOk_put {reg : Nat → Grp} {d : Node} (h : NodeOk reg d) (r : Nat) : NodeOk reg (d.put r) := by
  unfold Node.put
  by_cases hr : r = d.head + 1
  · simp only [hr, if_true]
    unfold Node.onStored
    simp only [setHead_pend]
    cases hp : d.pend with
    | none => exact nodeOk_frame h rfl rfl rfl h.held
    | some p =>
      simp only
      split
      · exact nodeOk_frame h rfl rfl rfl h.held
      · exact ⟨h.pend p hp, h.disk, (fun q hq => by cases hq), h.held⟩
  · simp only [hr, if_false]; exact h

theorem nodeOk_foldl_put {reg : Nat → Grp} : ∀ (l : List Nat) (d : Node), NodeOk reg d → NodeOk reg (l.foldl Node.put d) := by
  intro l
  induction l with
  | nil => intro d h; exact h
  | cons a tl ih => intro d h; exact ih _ (nodeOk_put h a)

theorem nodeOk_appendTo {reg : Nat → Grp} {d : Node} (h : NodeOk reg d) (x : Nat) : NodeOk reg (d.appendTo x) := by
  unfold Node.appendTo
  have h1 := nodeOk_foldl_put (List.range' (d.head + 1) (x - d.head)) d h
  exact nodeOk_frame h1 rfl rfl rfl (heldOk_flush h1.held _)

theorem nodeOk_aggregate {reg : Nat → Grp} {d : Node} (h : NodeOk reg d) (B idx ep r : Nat)
    (hn : ∃ m ∈ (reg ep).members, m.index = idx) : NodeOk reg (d.aggregate B idx ep r) := by
  have ha := heldOk_cacheAdd h.held r idx ep hn
  rcases aggregate_cases B d idx ep r with ⟨_, he⟩ | ⟨_, _, he⟩ | ⟨_, _, _, x, he⟩ | ⟨_, _, _, P, he⟩ <;> rw [he]
  · exact h
  · exact nodeOk_frame h rfl rfl rfl ha
  · exact nodeOk_frame h rfl rfl rfl (heldOk_flush ha r)
  · have h1 : NodeOk reg (d.setHeld (flush (d.cacheAdd r idx ep) r)) := nodeOk_frame h rfl rfl rfl (heldOk_flush ha r)
    have h2 := nodeOk_put h1 r
    exact nodeOk_frame h2 rfl rfl rfl h2.held

theorem nodeOk_own {reg : Nat → Grp} {d : Node} (h : NodeOk reg d) : ∃ m ∈ (reg d.vault.epoch).members, m.index = d.vault.index := by
  rw [← h.vault.1]; exact h.vault.2

theorem nodeOk_tickStep {reg : Nat → Grp} {d : Node} (h : NodeOk reg d) (B i : Nat) : NodeOk reg (d.tickStep B i).1 := by
  unfold Node.tickStep
  by_cases hu : d.up = true
  · simp only [hu, Bool.not_true, Bool.false_eq_true, if_false, Node.broadcast]
    have h0 : NodeOk reg (d.setTick d.clock) := nodeOk_frame h rfl rfl rfl h.held
    have h1 := nodeOk_aggregate h0 B (d.setTick d.clock).vault.index (d.setTick d.clock).vault.epoch (Gen.bnpRound d.clock d.head) (nodeOk_own h0)
    split
    · exact nodeOk_frame h1 rfl rfl rfl h1.held
    · exact h1
  · simp [hu]; exact h

theorem nodeOk_fireStep {reg : Nat → Grp} {d : Node} (h : NodeOk reg d) (B i : Nat) : NodeOk reg (d.fireStep B i).1 := by
  unfold Node.fireStep
  by_cases hu : d.up = true
  · simp only [hu, Bool.not_true, Bool.false_eq_true, if_false]
    cases hp : d.pending with
    | nil => exact h
    | cons r rest =>
      have h0 : NodeOk reg (d.setPending rest) := nodeOk_frame h rfl rfl rfl h.held
      show NodeOk reg ((d.setPending rest).aggregate B _ _ (r + 1))
      exact nodeOk_aggregate h0 B _ _ _ (nodeOk_own h0)
  · simp [hu]; exact h

theorem nodeOk_fireSteps {reg : Nat → Grp} (B i : Nat) : ∀ (c : Nat) (d : Node), NodeOk reg d → NodeOk reg (Node.fireSteps B i c d).1 := by
  intro c
  induction c with
  | zero => intro d h; exact h
  | succ c ih => intro d h; exact ih _ (nodeOk_fireStep h B i)

theorem nodeOk_recvStep {reg : Nat → Grp} {d : Node} (h : NodeOk reg d) (B self : Nat) (reach : Bool) (m : Msg) :
    NodeOk reg (d.recvStep B self reach m) := by
  rcases recvStep_cases B self reach d m with ⟨he, _⟩ | ⟨_, _, ha, he⟩ <;> rw [he]
  · exact h
  · obtain ⟨⟨mem, hm, hi, _⟩, hep, _⟩ := c03_admitted_is_member self d m ha
    refine nodeOk_aggregate h B _ _ _ ⟨mem, ?_, hi⟩
    rw [hep, ← h.vault.1]; exact hm

/-- the vaults an event hands out are consistent with the registry -/
def Ev.ok (reg : Nat → Grp) : Ev → Prop
  | .announce _ v _ => VOk reg v
  | .join _ v => VOk reg v
  | _ => True

theorem nodeOk_act {reg : Nat → Grp} (s : State) (i : Nat) (F : Node → Node × List Msg)
    (hF : NodeOk reg (s.node i) → NodeOk reg (F (s.node i)).1) (h : ∀ k, NodeOk reg (s.node k)) : ∀ k, NodeOk reg ((s.act i F).node k) := by
  intro k
  rw [act_node]
  by_cases hk : k = i
  · simp only [hk, if_true]; exact hF (h i)
  · simp only [hk, if_false]; exact h k

theorem nodeOk_recv {reg : Nat → Grp} (s : State) (m : Msg) (h : ∀ k, NodeOk reg (s.node k)) : ∀ k, NodeOk reg ((s.recv m).node k) :=
  nodeOk_act s m.dst _ (fun h' => nodeOk_recvStep h' _ _ _ _) h

theorem nodeOk_foldl_recv {reg : Nat → Grp} : ∀ (l : List Msg) (s : State), (∀ k, NodeOk reg (s.node k)) →
    ∀ k, NodeOk reg ((l.foldl State.recv s).node k) := by
  intro l
  induction l with
  | nil => intro s h; exact h
  | cons m tl ih => intro s h; exact ih _ (nodeOk_recv s m h)

theorem nodeOk_setNode {reg : Nat → Grp} (s : State) (i : Nat) (d : Node) (hd : NodeOk reg d) (h : ∀ k, NodeOk reg (s.node k)) :
    ∀ k, NodeOk reg ((s.setNode i d).node k) := by
  intro k
  rw [setNode_node]
  by_cases hk : k = i
  · simp only [hk, if_true]; exact hd
  · simp only [hk, if_false]; exact h k

theorem heldOk_empty (reg : Nat → Grp) : HeldOk reg (fun _ _ => none) := fun _ _ _ he => by cases he

theorem nodeOk_pull {reg : Nat → Grp} (s : State) (i : Nat) (h : ∀ k, NodeOk reg (s.node k)) : ∀ k, NodeOk reg ((s.pull i).node k) := by
  unfold State.pull
  split; · exact h
  split; · exact h
  split; · exact nodeOk_setNode s i _ (nodeOk_frame (h i) rfl rfl rfl (h i).held) h
  split; · exact nodeOk_setNode s i _ (nodeOk_frame (h i) rfl rfl rfl (h i).held) h
  · have h1 := nodeOk_appendTo (h i) (min (s.node i).syncTo (s.maxPeerHead i))
    exact nodeOk_setNode s i _ (nodeOk_frame h1 rfl rfl rfl h1.held) h

theorem nodeOk_apply {reg : Nat → Grp} (s : State) (ev : Ev) (hev : ev.ok reg) (h : ∀ k, NodeOk reg (s.node k)) :
    ∀ k, NodeOk reg ((s.apply ev).node k) := by
  cases ev with
  | advance => intro k; exact nodeOk_frame (h k) rfl rfl rfl (h k).held
  | tick i => exact nodeOk_act s i _ (fun h' => nodeOk_tickStep h' _ _) h
  | fire i => exact nodeOk_act s i _ (fun h' => nodeOk_fireStep h' _ _) h
  | deliver j =>
    simp only [State.apply]
    cases hm : s.msgs[j]? with
    | none => exact h
    | some m => exact nodeOk_recv _ m h
  | drop j => exact h
  | deliverAll => exact nodeOk_foldl_recv s.msgs _ h
  | pull i => exact nodeOk_pull s i h
  | stop i => exact nodeOk_setNode s i _ (nodeOk_frame (h i) rfl rfl rfl (heldOk_empty reg)) h
  | restart i =>
    simp only [State.apply, State.restart]
    split
    · exact h
    · exact nodeOk_setNode s i _ ⟨(h i).disk, (h i).disk, (fun p hp => by cases hp), heldOk_empty reg⟩ h
  | setConn c => exact h
  | send m => exact h
  | announce i v t =>
    simp only [State.apply]
    refine nodeOk_setNode s i _ ?_ h
    unfold Node.announce
    by_cases hu : (s.node i).up = true
    · simp only [hu, Bool.not_true, Bool.false_eq_true, if_false]
      by_cases hc : (s.cfg.lateSwitch && decide (Gen.transitionTarget t ≤ (s.node i).head)) = true
      · simp only [hc, if_true]
        exact ⟨hev, hev, (fun p hp => by cases hp), (h i).held⟩
      · simp only [hc, if_false]
        exact ⟨(h i).vault, hev, (fun p hp => by cases hp; exact hev), (h i).held⟩
    · simp only [hu, Bool.not_false, if_true]
      exact ⟨(h i).vault, hev, (h i).pend, (h i).held⟩
  | join i v =>
    simp only [State.apply, State.join]
    split
    · exact h
    · exact nodeOk_setNode s i _ ⟨hev, hev, (fun p hp => by cases hp), heldOk_empty reg⟩ h

/-- **Invariant of every run.** From a consistent state, after ANY finite list of events — including arbitrary packets
put on the wire by anybody (`send`), deliveries in any order, stops, restarts, hand-overs of consistent vaults at any
time — every cached partial of every node was made with the share of a member of the group of its epoch. -/
theorem c07_held_members_run (reg : Nat → Grp) : ∀ (evs : List Ev) (s : State), (∀ ev ∈ evs, ev.ok reg) →
    (∀ k, NodeOk reg (s.node k)) → ∀ k, NodeOk reg ((s.run evs).node k) := by
  intro evs
  induction evs with
  | nil => intro s _ h; exact h
  | cons e tl ih =>
    intro s hev h
    exact ih _ (fun ev hm => hev ev (by simp [hm])) (nodeOk_apply s e (hev e (by simp)) h)

theorem nodeOk_init (reg : Nat → Grp) (cfg : Cfg) (n nIdx : Nat) (g : Grp) (hg : reg 0 = g) (h0 : ∃ m ∈ g.members, m.index = 0) :
    ∀ k, NodeOk reg ((State.init cfg n nIdx g).node k) := by
  intro k
  simp only [State.init]
  cases hf : g.members.find? (fun m => m.node == k) with
  | none => exact ⟨⟨hg.symm, h0⟩, ⟨hg.symm, h0⟩, (fun p hp => by cases hp), heldOk_empty reg⟩
  | some m =>
    have hm : m ∈ g.members := List.mem_of_find?_eq_some hf
    exact ⟨⟨hg.symm, m, hm, rfl⟩, ⟨hg.symm, m, hm, rfl⟩, (fun p hp => by cases hp), heldOk_empty reg⟩

theorem aggregate_head_same_or_put (B : Nat) (d : Node) (idx ep r : Nat) (hne : (d.aggregate B idx ep r).head ≠ d.head) :
    r = d.head + 1 ∧ d.vault.grp.thr ≤ valid B (d.cacheAdd r idx ep) r d.vault.epoch := by
  rcases aggregate_cases B d idx ep r with ⟨_, he⟩ | ⟨_, _, he⟩ | ⟨_, _, _, x, he⟩ | ⟨_, hv, hr, P, he⟩
  · rw [he] at hne; exact absurd rfl hne
  · rw [he] at hne; exact absurd rfl hne
  · rw [he] at hne; exact absurd rfl hne
  · exact ⟨hr, hv⟩

/-- **A beacon needs `thr` distinct CURRENT members, with the threshold of the current vault.** Whenever the aggregator
of a consistent node stores a round, its cache holds, for exactly that round, partials of at least `thr` pairwise
distinct indices — `thr` being the threshold of the vault at this very iteration — each made with a share of the node's
CURRENT epoch and each the index of a member of its CURRENT group. Old-share partials and non-member indices are not among
them, whoever sent them. -/
theorem c07_beacon_needs_new_members (reg : Nat → Grp) (B : Nat) (d : Node) (hok : NodeOk reg d) (idx ep r : Nat)
    (hn : ∃ m ∈ (reg ep).members, m.index = idx) (hput : (d.aggregate B idx ep r).head ≠ d.head) :
    r = d.head + 1 ∧ ∃ L : List Nat, L.Nodup ∧ d.vault.grp.thr ≤ L.length ∧
      ∀ k ∈ L, d.cacheAdd r idx ep r k = some d.vault.epoch ∧ ∃ m ∈ d.vault.grp.members, m.index = k := by
  obtain ⟨hr, hv⟩ := aggregate_head_same_or_put B d idx ep r hput
  refine ⟨hr, (List.range B).filter (fun k => d.cacheAdd r idx ep r k == some d.vault.epoch), ?_, hv, ?_⟩
  · exact List.Nodup.sublist List.filter_sublist List.nodup_range
  · intro k hk
    have hk' : d.cacheAdd r idx ep r k = some d.vault.epoch := by
      have := (List.mem_filter.mp hk).2; simpa using this
    refine ⟨hk', ?_⟩
    have := heldOk_cacheAdd hok.held r idx ep hn r k _ hk'
    rw [← hok.vault.1] at this
    exact this

/-! ### (b2) progress once a threshold of the new group holds the new vault -/

theorem nodup_subset_length : ∀ (l₁ l₂ : List Nat), l₁.Nodup → (∀ x ∈ l₁, x ∈ l₂) → l₁.length ≤ l₂.length := by
  intro l₁
  induction l₁ with
  | nil => intro l₂ _ _; simp
  | cons a t ih =>
    intro l₂ hn hs
    have ha : a ∈ l₂ := hs a (by simp)
    have hn' := List.nodup_cons.mp hn
    have hsub : ∀ x ∈ t, x ∈ l₂.erase a := by
      intro x hx
      have hne : x ≠ a := fun h => hn'.1 (h ▸ hx)
      exact (List.mem_erase_of_ne hne).mpr (hs x (by simp [hx]))
    have h1 := ih (l₂.erase a) hn'.2 hsub
    have h2 := List.length_erase_of_mem ha
    have h3 : 0 < l₂.length := List.length_pos_of_mem ha
    simp only [List.length_cons]
    omega

/-- if every index of a duplicate-free list has a partial of epoch `e` on `r` in the cache, `Recover` has that many -/
theorem valid_ge (B : Nat) (held : Nat → Nat → Option Nat) (r e : Nat) (L : List Nat) (hn : L.Nodup)
    (h : ∀ k ∈ L, k < B ∧ held r k = some e) : L.length ≤ valid B held r e := by
  unfold valid
  apply nodup_subset_length L _ hn
  intro x hx
  simp [List.mem_filter, h x hx]

theorem put_next (d : Node) (r : Nat) (h : r = d.head + 1) : (d.put r).head = r := by
  unfold Node.put
  simp only [h, if_true]
  rw [(onStored_frame _ _).2.1]; rfl

theorem aggregate_frame (B : Nat) (d : Node) (idx ep r : Nat) :
    (d.aggregate B idx ep r).up = d.up ∧ (d.aggregate B idx ep r).clock = d.clock ∧ d.head ≤ (d.aggregate B idx ep r).head := by
  rcases aggregate_cases B d idx ep r with ⟨_, he⟩ | ⟨_, _, he⟩ | ⟨_, _, _, x, he⟩ | ⟨_, _, _, P, he⟩ <;> rw [he]
  · exact ⟨rfl, rfl, Nat.le_refl _⟩
  · exact ⟨rfl, rfl, Nat.le_refl _⟩
  · exact ⟨rfl, rfl, Nat.le_refl _⟩
  · have := put_frame (d.setHeld (flush (d.cacheAdd r idx ep) r)) r
    exact ⟨this.1, this.2.1, this.2.2.2.2.2.2.2.1⟩

private theorem foldPut_head : ∀ (len : Nat) (d : Node),
    ((List.range' (d.head + 1) len).foldl Node.put d).head = d.head + len := by
  intro len
  induction len with
  | zero => intro d; simp
  | succ k ih =>
    intro d
    rw [List.range'_succ, List.foldl_cons]
    have h1 : (d.put (d.head + 1)).head = d.head + 1 := put_next d _ rfl
    have := ih (d.put (d.head + 1))
    rw [h1] at this
    rw [this]; omega

private theorem foldPut_fields : ∀ (l : List Nat) (d : Node),
    (l.foldl Node.put d).up = d.up ∧ (l.foldl Node.put d).clock = d.clock := by
  intro l
  induction l with
  | nil => intro d; simp
  | cons a t ih =>
    intro d
    simp only [List.foldl_cons]
    have := ih (d.put a)
    have hp := put_frame d a
    exact ⟨this.1.trans hp.1, this.2.trans hp.2.1⟩

theorem appendTo_frame (d : Node) (t : Nat) :
    (d.appendTo t).head = d.head + (t - d.head) ∧ (d.appendTo t).up = d.up ∧ (d.appendTo t).clock = d.clock := by
  unfold Node.appendTo
  exact ⟨by simp [foldPut_head], (foldPut_fields _ d).1, (foldPut_fields _ d).2⟩

@[simp] theorem act_n (s : State) (i : Nat) (F) : (s.act i F).n = s.n := rfl
@[simp] theorem act_nIdx (s : State) (i : Nat) (F) : (s.act i F).nIdx = s.nIdx := rfl
@[simp] theorem act_conn (s : State) (i : Nat) (F) : (s.act i F).conn = s.conn := rfl
@[simp] theorem act_msgs (s : State) (i : Nat) (F) : (s.act i F).msgs = s.msgs ++ (F (s.node i)).2 := rfl
@[simp] theorem setNode_n (s : State) (i : Nat) (d : Node) : (s.setNode i d).n = s.n := rfl
@[simp] theorem setNode_nIdx (s : State) (i : Nat) (d : Node) : (s.setNode i d).nIdx = s.nIdx := rfl
@[simp] theorem setNode_conn (s : State) (i : Nat) (d : Node) : (s.setNode i d).conn = s.conn := rfl
@[simp] theorem setNode_msgs (s : State) (i : Nat) (d : Node) : (s.setNode i d).msgs = s.msgs := rfl

private theorem flatMap_congr' {α β : Type} (f g : α → List β) : ∀ (l : List α), (∀ i ∈ l, f i = g i) → l.flatMap f = l.flatMap g := by
  intro l
  induction l with
  | nil => intro _; rfl
  | cons a t ih =>
    intro h
    simp only [List.flatMap_cons]
    rw [h a (by simp), ih (fun i hi => h i (by simp [hi]))]

theorem foldl_act (G : Nat → Nat → Node → Node × List Msg) :
    ∀ (l : List Nat) (s : State), l.Nodup →
      (l.foldl (fun s i => s.act i (G s.nIdx i)) s).n = s.n ∧
      (l.foldl (fun s i => s.act i (G s.nIdx i)) s).nIdx = s.nIdx ∧
      (l.foldl (fun s i => s.act i (G s.nIdx i)) s).conn = s.conn ∧
      (∀ k, (l.foldl (fun s i => s.act i (G s.nIdx i)) s).node k =
        if k ∈ l then (G s.nIdx k (s.node k)).1 else s.node k) ∧
      (l.foldl (fun s i => s.act i (G s.nIdx i)) s).msgs = s.msgs ++ l.flatMap (fun i => (G s.nIdx i (s.node i)).2) := by
  intro l
  induction l with
  | nil => intro s _; simp
  | cons a t ih =>
    intro s hn
    have hn' := List.nodup_cons.mp hn
    obtain ⟨h1, h2, h3, h4, h5⟩ := ih (s.act a (G s.nIdx a)) hn'.2
    simp only [List.foldl_cons]
    refine ⟨by rw [h1]; rfl, by rw [h2]; rfl, by rw [h3]; rfl, ?_, ?_⟩
    · intro k
      rw [h4 k]
      simp only [act_nIdx, act_node]
      by_cases hk : k = a
      · subst hk; simp [hn'.1]
      · simp [hk]
    · rw [h5]
      simp only [act_nIdx, act_msgs, List.flatMap_cons, List.append_assoc]
      congr 2
      apply flatMap_congr'
      intro i hi
      have : i ≠ a := fun h => hn'.1 (h ▸ hi)
      simp [act_node, this]

/-- node j's view of a batch of deliveries: only the messages addressed to it matter -/
theorem foldl_recv (j : Nat) : ∀ (l : List Msg) (s : State),
    (l.foldl State.recv s).n = s.n ∧ (l.foldl State.recv s).nIdx = s.nIdx ∧ (l.foldl State.recv s).conn = s.conn ∧
    (l.foldl State.recv s).node j =
      l.foldl (fun d m => if m.dst = j then d.recvStep s.nIdx j (s.conn m.src m.dst) m else d) (s.node j) := by
  intro l
  induction l with
  | nil => intro s; simp
  | cons m t ih =>
    intro s
    obtain ⟨h1, h2, h3, h4⟩ := ih (s.recv m)
    simp only [List.foldl_cons]
    refine ⟨by rw [h1]; rfl, by rw [h2]; rfl, by rw [h3]; rfl, ?_⟩
    rw [h4]
    have e2 : (s.recv m).nIdx = s.nIdx := rfl
    have e3 : (s.recv m).conn = s.conn := rfl
    rw [e2, e3]
    congr 1
    by_cases hj : m.dst = j
    · subst hj; simp [State.recv, act_node]
    · have : j ≠ m.dst := fun h => hj h.symm
      simp [State.recv, act_node, this, hj]

/-- the partial of `m` would pass `ProcessPartialBeacon` at a node `self` that sits at head `h` with vault `V` -/
def Adm (V : Vault) (h self : Nat) (m : Msg) : Prop :=
  m.round = h + 1 ∧ (∃ mem, V.grp.node? m.idx = some mem ∧ mem.node ≠ self) ∧ m.epoch = V.epoch ∧ m.idx ≠ V.index

theorem admission_of_adm {V : Vault} {h c self : Nat} {d : Node} {m : Msg} (hh : d.head = h) (hv : d.vault = V) (hcl : d.clock = c)
    (hc : h < c) (ha : Adm V h self m) : d.admission self m = .admitted := by
  obtain ⟨hr, ⟨mem, hm, hne⟩, he, hi⟩ := ha
  unfold Node.admission
  simp only [Gen.ppbFuture, Gen.ppbPast, hh, hv, hcl, hr, hm]
  have h1 : ¬ (c + 1 < h + 1) := by omega
  have h2 : ¬ (h + 1 ≤ h) := by omega
  simp [h1, h2, hne, he, hi]

/-- progress invariant of one node of the healthy side while round `h + 1` is being signed: either it already stores
`h + 1`, or it sits at `h` with the vault `V`, `Recover` does not have enough yet, the partial of every index in `S` is
there and — for a node whose cache keeps the FIRST partial of an index — every cached partial on `h + 1` is of the current
epoch (with "newest wins" a stale one is overwritten by the member's partial, nothing is required) -/
def Prog (B h c : Nat) (V : Vault) (S : Nat → Prop) (d : Node) : Prop :=
  d.up = true ∧ d.clock = c ∧
  (h + 1 ≤ d.head ∨
    (d.head = h ∧ d.vault = V ∧ valid B d.held (h + 1) V.epoch < V.grp.thr ∧
      (d.replace = false → ∀ k x, d.held (h + 1) k = some x → x = V.epoch) ∧ ∀ k, S k → d.held (h + 1) k = some V.epoch))

theorem Prog.weaken {B h c : Nat} {V : Vault} {S S' : Nat → Prop} {d : Node} (hp : Prog B h c V S d) (hs : ∀ k, S' k → S k) :
    Prog B h c V S' d := by
  obtain ⟨hu, hc, hd⟩ := hp
  refine ⟨hu, hc, ?_⟩
  rcases hd with hd | ⟨h1, h2, h3, h5, h6⟩
  · exact Or.inl hd
  · exact Or.inr ⟨h1, h2, h3, h5, fun k hk => h6 k (hs k hk)⟩

theorem Prog.head_ge {B h c : Nat} {V : Vault} {S : Nat → Prop} {d : Node} (hp : Prog B h c V S d) : h ≤ d.head := by
  rcases hp.2.2 with hd | ⟨h1, _⟩ <;> omega

theorem addPartial_at_none (held : Nat → Nat → Option Nat) (r idx ep : Nat) (h : held r idx = none) :
    addPartial held r idx ep r idx = some ep := by
  simp [addPartial, h]

theorem addPartial_at_some (held : Nat → Nat → Option Nat) (r idx ep x : Nat) (h : held r idx = some x) :
    addPartial held r idx ep r idx = some x := by
  simp [addPartial, h]

theorem addPartial_other (held : Nat → Nat → Option Nat) (r idx ep r' k : Nat) (h : ¬ (r' = r ∧ k = idx)) :
    addPartial held r idx ep r' k = held r' k := by
  simp [addPartial, h]

theorem cacheAdd_other (d : Node) (r idx ep r' k : Nat) (h : ¬ (r' = r ∧ k = idx)) : d.cacheAdd r idx ep r' k = d.held r' k := by
  unfold Node.cacheAdd
  cases d.replace <;> simp [setPartial, addPartial, h]

/-- "newest wins": the slot of the index holds the new partial whatever was there -/
theorem cacheAdd_replace (d : Node) (r idx ep : Nat) (h : d.replace = true) : d.cacheAdd r idx ep r idx = some ep := by
  simp [Node.cacheAdd, h, setPartial]

/-- "first wins": an empty slot takes the partial, an occupied one keeps what it has -/
theorem cacheAdd_keep (d : Node) (r idx ep : Nat) (h : d.replace = false) :
    d.cacheAdd r idx ep r idx = (match d.held r idx with | some x => some x | none => some ep) := by
  simp only [Node.cacheAdd, h, addPartial, Bool.false_eq_true, if_false, and_self, if_true]
  cases d.held r idx <;> rfl

theorem put_replace (d : Node) (r : Nat) : (d.put r).replace = d.replace := by
  unfold Node.put
  split
  · unfold Node.onStored
    split
    · rfl
    · split <;> rfl
  · rfl

theorem aggregate_replace (B : Nat) (d : Node) (idx ep r : Nat) : (d.aggregate B idx ep r).replace = d.replace := by
  rcases aggregate_cases B d idx ep r with ⟨_, he⟩ | ⟨_, _, he⟩ | ⟨_, _, _, x, he⟩ | ⟨_, _, _, P, he⟩ <;> rw [he]
  · rfl
  · rfl
  · show ((d.setHeld _).put r).replace = d.replace
    rw [put_replace]; rfl

/-- a partial of the current epoch on `h + 1` enters the aggregator of a node that sits at `h` with the vault `V` -/
theorem prog_aggregate' {B h c : Nat} {V : Vault} {S : Nat → Prop} {d : Node} (hu : d.up = true) (hc : d.clock = c)
    (h1 : d.head = h) (h2 : d.vault = V)
    (h5 : d.replace = false → ∀ k x, d.held (h + 1) k = some x → x = V.epoch) (h6 : ∀ k, S k → d.held (h + 1) k = some V.epoch) (idx : Nat) :
    Prog B h c V (fun k => S k ∨ k = idx) (d.aggregate B idx V.epoch (h + 1)) := by
  have hf := aggregate_frame B d idx V.epoch (h + 1)
  refine ⟨hf.1.trans hu, hf.2.1.trans hc, ?_⟩
  have hnew5 : d.replace = false → ∀ k x, d.cacheAdd (h + 1) idx V.epoch (h + 1) k = some x → x = V.epoch := by
    intro hrep k x hx
    rcases cacheAdd_entry hx with ho | ⟨_, _, e3⟩
    · exact h5 hrep k x ho
    · exact e3
  have hnew6 : ∀ k, (S k ∨ k = idx) → d.cacheAdd (h + 1) idx V.epoch (h + 1) k = some V.epoch := by
    intro k hk
    by_cases hki : k = idx
    · subst hki
      cases hrep : d.replace with
      | true => exact cacheAdd_replace d _ _ _ hrep
      | false =>
        rw [cacheAdd_keep d _ _ _ hrep]
        cases hy : d.held (h + 1) k with
        | none => rfl
        | some y => simp only; rw [h5 hrep k y hy]
    · rw [cacheAdd_other _ _ _ _ _ _ (fun hc' => hki hc'.2)]
      rcases hk with hk | hk
      · exact h6 k hk
      · exact absurd hk hki
  rcases aggregate_cases B d idx V.epoch (h + 1) with ⟨hw, _⟩ | ⟨_, hv, he⟩ | ⟨_, _, hne, _⟩ | ⟨_, _, _, P, he⟩
  · exfalso; apply hw; omega
  · right
    rw [he]
    rw [h2] at hv
    exact ⟨h1, h2, hv, hnew5, hnew6⟩
  · omega
  · left
    rw [he]
    show h + 1 ≤ ((d.setHeld _).put (h + 1)).head
    rw [put_next _ _ (by simp [h1])]
    exact Nat.le_refl _

theorem prog_aggregate {B h c : Nat} {V : Vault} {S : Nat → Prop} {d : Node} (hp : Prog B h c V S d) (idx : Nat) :
    Prog B h c V (fun k => S k ∨ k = idx) (d.aggregate B idx V.epoch (h + 1)) := by
  obtain ⟨hu, hc, hd⟩ := hp
  rcases hd with hd | ⟨h1, h2, _, h5, h6⟩
  · have hf := aggregate_frame B d idx V.epoch (h + 1)
    exact ⟨hf.1.trans hu, hf.2.1.trans hc, Or.inl (by have := hf.2.2; omega)⟩
  · exact prog_aggregate' hu hc h1 h2 h5 h6 idx

/-- `ProcessPartialBeacon` on a message that, if it was made with a share of the epoch of `V`, is not above `h + 1` -/
theorem prog_recvStep {B h c self : Nat} {V : Vault} {S : Nat → Prop} {d : Node} (hc : h < c) (hp : Prog B h c V S d)
    (reach : Bool) (m : Msg) (hm : reach = true → m.epoch = V.epoch → m.round ≤ h + 1) :
    Prog B h c V (fun k => S k ∨ (reach = true ∧ Adm V h self m ∧ k = m.idx)) (d.recvStep B self reach m) := by
  rcases recvStep_cases B self reach d m with ⟨he, hne⟩ | ⟨hu, hr, ha, he⟩
  · rw [he]
    obtain ⟨hu, hcl, hd⟩ := hp
    refine ⟨hu, hcl, ?_⟩
    rcases hd with hd | ⟨h1, h2, h3, h5, h6⟩
    · exact Or.inl hd
    · right
      refine ⟨h1, h2, h3, h5, ?_⟩
      intro k hk
      rcases hk with hk | ⟨hr, hadm, _⟩
      · exact h6 k hk
      · exfalso; exact hne ⟨hu, hr, admission_of_adm h1 h2 hcl hc hadm⟩
  · rw [he]
    obtain ⟨_, hep, _, hlow, _⟩ := c03_admitted_is_member self d m ha
    rcases hp.2.2 with hd | ⟨h1, h2, _⟩
    · have hf := aggregate_frame B d m.idx m.epoch m.round
      exact ⟨hf.1.trans hp.1, hf.2.1.trans hp.2.1, Or.inl (Nat.le_trans hd hf.2.2)⟩
    · have hrd : m.round = h + 1 := by have := hm hr (by rw [hep, h2]); omega
      rw [hrd, hep, h2]
      exact (prog_aggregate hp m.idx).weaken (fun k hk => by
        rcases hk with hk | ⟨_, _, hk⟩
        · exact Or.inl hk
        · exact Or.inr hk)

theorem prog_deliver {B h c : Nat} {V : Vault} (conn : Nat → Nat → Bool) (j : Nat) (hc : h < c) :
    ∀ (L : List Msg) (d : Node) (S : Nat → Prop), Prog B h c V S d →
      (∀ m ∈ L, m.dst = j → conn m.src m.dst = true → m.epoch = V.epoch → m.round ≤ h + 1) →
      Prog B h c V (fun k => S k ∨ ∃ m ∈ L, m.dst = j ∧ conn m.src j = true ∧ Adm V h j m ∧ k = m.idx)
        (L.foldl (fun d m => if m.dst = j then d.recvStep B j (conn m.src m.dst) m else d) d) := by
  intro L
  induction L with
  | nil => intro d S hp _; exact hp.weaken (fun k hk => by rcases hk with hk | ⟨m, hm, _⟩; exact hk; cases hm)
  | cons m t ih =>
    intro d S hp hq
    simp only [List.foldl_cons]
    have hq' : ∀ m' ∈ t, m'.dst = j → conn m'.src m'.dst = true → m'.epoch = V.epoch → m'.round ≤ h + 1 :=
      fun m' hm' => hq m' (by simp [hm'])
    by_cases hj : m.dst = j
    · simp only [hj, if_true]
      have h1 := prog_recvStep (self := j) hc hp (conn m.src j) m (fun hr => hq m (by simp) hj (by rw [hj]; exact hr))
      refine (ih _ _ h1 hq').weaken ?_
      intro k hk
      rcases hk with hk | ⟨m', hm', h1, h2, h3, h4⟩
      · exact Or.inl (Or.inl hk)
      · rcases List.mem_cons.mp hm' with he | hm''
        · subst he
          left; right
          exact ⟨h2, h3, h4⟩
        · right; exact ⟨m', hm'', h1, h2, h3, h4⟩
    · simp only [hj, if_false]
      refine (ih _ _ hp hq').weaken ?_
      intro k hk
      rcases hk with hk | ⟨m', hm', h1, h2, h3, h4⟩
      · exact Or.inl hk
      · rcases List.mem_cons.mp hm' with he | hm''
        · subst he; exact absurd h1 hj
        · right; exact ⟨m', hm'', h1, h2, h3, h4⟩

/-- once the partial of every index of a duplicate-free list of at least `thr` indices is in, `Recover` cannot still be
short -/
theorem Prog.done {B h c : Nat} {V : Vault} {S : Nat → Prop} {d : Node} (hp : Prog B h c V S d) (L : List Nat)
    (hn : L.Nodup) (hlt : ∀ k ∈ L, k < B) (hthr : V.grp.thr ≤ L.length) (hS : ∀ k ∈ L, S k) : h + 1 ≤ d.head := by
  rcases hp.2.2 with hd | ⟨_, _, h3, _, h6⟩
  · exact hd
  · exfalso
    have := valid_ge B d.held (h + 1) V.epoch L hn (fun k hk => ⟨hlt k hk, h6 k (hS k hk)⟩)
    omega

theorem pull_cases (s : State) (i : Nat) :
    s.pull i = s ∨ s.pull i = s.setNode i ((s.node i).setSync 0) ∨
    ((s.node i).up = true ∧ (s.node i).head < min (s.node i).syncTo (s.maxPeerHead i) ∧
      ∃ v, s.pull i = s.setNode i (((s.node i).appendTo (min (s.node i).syncTo (s.maxPeerHead i))).setSync v)) := by
  unfold State.pull
  simp only [Gen.syncFilled]
  by_cases hu : (s.node i).up = true
  · by_cases h0 : (s.node i).syncTo = 0
    · left; simp [hu, h0]
    · by_cases hf : (s.node i).syncTo ≤ (s.node i).head
      · right; left
        have : 0 < (s.node i).syncTo := by omega
        simp [hu, h0, hf, this]
      · by_cases hm : s.maxPeerHead i ≤ (s.node i).head
        · right; left
          simp [hu, h0, hf, hm]
        · right; right
          refine ⟨hu, by omega, (if ((s.node i).appendTo (min (s.node i).syncTo (s.maxPeerHead i))).head < (s.node i).syncTo then (s.node i).syncTo else 0), ?_⟩
          simp [hu, h0, hf, hm]
  · left; simp [hu]

theorem prog_pull {B h c : Nat} {V : Vault} {S : Nat → Prop} (s : State) (i j : Nat) (hp : Prog B h c V S (s.node j)) :
    Prog B h c V S ((s.pull i).node j) := by
  rcases pull_cases s i with he | he | ⟨_, hlt, v, he⟩ <;> rw [he]
  · exact hp
  · rw [setNode_node]
    by_cases hj : j = i
    · subst hj; simp only [if_true]; exact ⟨hp.1, hp.2.1, hp.2.2⟩
    · simp only [hj, if_false]; exact hp
  · rw [setNode_node]
    by_cases hj : j = i
    · subst hj
      simp only [if_true]
      have hf := appendTo_frame (s.node j) (min (s.node j).syncTo (s.maxPeerHead j))
      refine ⟨hf.2.1.trans hp.1, hf.2.2.trans hp.2.1, Or.inl ?_⟩
      have := hp.head_ge
      show h + 1 ≤ ((s.node j).appendTo _).head
      rw [hf.1]
      omega
    · simp only [hj, if_false]; exact hp

theorem prog_foldl_pull {B h c : Nat} {V : Vault} {S : Nat → Prop} (j : Nat) : ∀ (l : List Nat) (s : State),
    Prog B h c V S (s.node j) → Prog B h c V S ((l.foldl State.pull s).node j) := by
  intro l
  induction l with
  | nil => intro s hp; exact hp
  | cons a t ih => intro s hp; exact ih _ (prog_pull s a j hp)

theorem pull_frame (s : State) (i : Nat) :
    (s.pull i).n = s.n ∧ (s.pull i).nIdx = s.nIdx ∧ (s.pull i).conn = s.conn ∧ (s.pull i).msgs = s.msgs := by
  rcases pull_cases s i with he | he | ⟨_, _, v, he⟩ <;> rw [he] <;> simp

theorem foldl_pull_frame : ∀ (l : List Nat) (s : State),
    (l.foldl State.pull s).n = s.n ∧ (l.foldl State.pull s).nIdx = s.nIdx ∧ (l.foldl State.pull s).conn = s.conn ∧
    (l.foldl State.pull s).msgs = s.msgs := by
  intro l
  induction l with
  | nil => intro s; simp
  | cons a t ih =>
    intro s
    obtain ⟨h1, h2, h3, h4⟩ := ih (s.pull a)
    obtain ⟨g1, g2, g3, g4⟩ := pull_frame s a
    simp only [List.foldl_cons]
    exact ⟨h1.trans g1, h2.trans g2, h3.trans g3, h4.trans g4⟩

theorem pull_head_le (s : State) (i j : Nat) : (s.node j).head ≤ ((s.pull i).node j).head := by
  rcases pull_cases s i with he | he | ⟨_, _, v, he⟩ <;> rw [he]
  · exact Nat.le_refl _
  · rw [setNode_node]; by_cases hj : j = i
    · subst hj; simp
    · simp [hj]
  · rw [setNode_node]; by_cases hj : j = i
    · subst hj; simp only [if_true, setSync_head]; rw [(appendTo_frame _ _).1]; omega
    · simp [hj]

theorem foldl_pull_head_le (j : Nat) : ∀ (l : List Nat) (s : State), (s.node j).head ≤ ((l.foldl State.pull s).node j).head := by
  intro l
  induction l with
  | nil => intro s; exact Nat.le_refl _
  | cons a t ih => intro s; exact Nat.le_trans (pull_head_le s a j) (ih (s.pull a))

theorem bnpRound_behind {c h : Nat} (hc : h < c) : Gen.bnpRound c h = h + 1 := by
  have : c ≠ h := by omega
  simp [Gen.bnpRound, this]

theorem bnpRound_le (c h : Nat) : Gen.bnpRound c h ≤ h + 1 := by
  unfold Gen.bnpRound; split <;> simp_all

/-- the tick of a node that sits at `h < c` with the vault `V`: its own partial goes to its aggregator, one packet to every
other member of ITS CURRENT group -/
theorem prog_tickStep {B h c i : Nat} {V : Vault} {d : Node} (hu : d.up = true) (hcl : d.clock = c) (hh : d.head = h) (hc : h < c)
    (hv : d.vault = V) (hq2 : d.replace = false → ∀ k x, d.held (h + 1) k = some x → x = V.epoch) :
    Prog B h c V (fun k => k = V.index) (d.tickStep B i).1 ∧
    (d.tickStep B i).2 = (d.recipients i).map (fun j => ⟨i, V.index, V.epoch, h + 1, j⟩) := by
  unfold Node.tickStep
  simp only [hu, Bool.not_true, Bool.false_eq_true, if_false, Node.broadcast, hcl, hh, bnpRound_behind hc, setTick_vault, hv]
  have h1 : Prog B h c V (fun k => k = V.index) ((d.setTick c).aggregate B V.index V.epoch (h + 1)) :=
    (prog_aggregate' (S := fun _ => False) (d := d.setTick c) hu hcl hh hv hq2 (fun _ hk => absurd hk id) V.index).weaken
      (fun k hk => Or.inr hk)
  have hrec : (d.setTick c).recipients i = d.recipients i := rfl
  split
  · exact ⟨⟨h1.1, h1.2.1, h1.2.2⟩, by rw [hrec]⟩
  · exact ⟨h1, by rw [hrec]⟩

theorem tickStep_msgs {B i : Nat} {d : Node} {m : Msg} (hm : m ∈ (d.tickStep B i).2) :
    d.up = true ∧ m.src = i ∧ m.round = Gen.bnpRound d.clock d.head ∧ m.epoch = d.vault.epoch := by
  unfold Node.tickStep at hm
  by_cases hu : d.up = true
  · simp only [hu, Bool.not_true, Bool.false_eq_true, if_false, Node.broadcast] at hm
    have : m ∈ ((d.setTick d.clock).recipients i).map (fun j => (⟨i, (d.setTick d.clock).vault.index, (d.setTick d.clock).vault.epoch, Gen.bnpRound d.clock d.head, j⟩ : Msg)) := by
      split at hm <;> exact hm
    obtain ⟨j, _, rfl⟩ := List.mem_map.mp this
    exact ⟨hu, rfl, rfl, rfl⟩
  · simp [hu] at hm

/-- the healthy side after (or at) a transition: `U` are running nodes, pairwise connected, that all hold the vault of
group `G` / epoch `e` (node `i` with share index `ix i`, a member of `G`), the indices of `G` are pairwise distinct, and
no running node HOLDING A SHARE OF EPOCH `e` that can reach `U` is ahead of `h`. Nothing is assumed about the previous
group, its threshold, how many of `U` were in it, or about the other nodes (leavers that keep signing — wherever their
heads are —, nodes still on the old vault). -/
structure Side (s : State) (U : List Nat) (G : Grp) (e : Nat) (ix : Nat → Nat) (h : Nat) : Prop where
  nodup : U.Nodup
  lt : ∀ i ∈ U, i < s.n
  up : ∀ i ∈ U, (s.node i).up = true
  conn : ∀ i ∈ U, ∀ j ∈ U, s.conn i j = true
  vault : ∀ i ∈ U, (s.node i).vault = ⟨G, e, ix i⟩
  member : ∀ i ∈ U, (⟨i, ix i⟩ : Member) ∈ G.members
  idxLt : ∀ i ∈ U, ix i < s.nIdx
  idxNodup : (G.members.map (·.index)).Nodup
  behind : ∀ k, k < s.n → (s.node k).up = true → (s.node k).vault.epoch = e → (∃ j ∈ U, s.conn k j = true) → (s.node k).head ≤ h

/-- no partial made with a share of epoch `e` for a round above `h + 1` is in flight towards `U` (partials of other
epochs are refused by `U` whatever their round), and — at the members of `U` whose cache keeps the FIRST partial of an
index — what is cached for `h + 1` is of epoch `e` (with "newest wins", `replace = true`, nothing is required: a stale
partial is overwritten by the member's) -/
def Quiet (s : State) (U : List Nat) (h e : Nat) : Prop :=
  (∀ m ∈ s.msgs, m.dst ∈ U → s.conn m.src m.dst = true → m.epoch = e → m.round ≤ h + 1) ∧
  (∀ j ∈ U, (s.node j).replace = false → ∀ k x, (s.node j).held (h + 1) k = some x → x = e)

/-- the static part of a side: who is in it and with which index of `G` -/
structure Frame (U : List Nat) (G : Grp) (ix : Nat → Nat) (B : Nat) : Prop where
  nodup : U.Nodup
  member : ∀ i ∈ U, (⟨i, ix i⟩ : Member) ∈ G.members
  idxLt : ∀ i ∈ U, ix i < B
  idxNodup : (G.members.map (·.index)).Nodup

theorem Side.frame {s : State} {U : List Nat} {G : Grp} {e : Nat} {ix : Nat → Nat} {h : Nat} (hU : Side s U G e ix h) :
    Frame U G ix s.nIdx := ⟨hU.nodup, hU.member, hU.idxLt, hU.idxNodup⟩

theorem ix_inj {U : List Nat} {G : Grp} {ix : Nat → Nat} {B : Nat} (hU : Frame U G ix B)
    {i j : Nat} (hi : i ∈ U) (hj : j ∈ U) (he : ix i = ix j) : i = j := by
  have := nodup_map_inj (·.index) G.members hU.idxNodup ⟨i, ix i⟩ (hU.member i hi) ⟨j, ix j⟩ (hU.member j hj) he
  exact congrArg Member.node this

theorem nodup_map_ix {U : List Nat} {G : Grp} {ix : Nat → Nat} {B : Nat} (hU : Frame U G ix B) :
    ∀ (L : List Nat), L.Nodup → (∀ i ∈ L, i ∈ U) → (L.map ix).Nodup := by
  intro L
  induction L with
  | nil => intro _ _; simp
  | cons a t ih =>
    intro hn hs
    have hn' := List.nodup_cons.mp hn
    simp only [List.map_cons, List.nodup_cons, List.mem_map, not_exists, not_and]
    refine ⟨fun x hx he => ?_, ih hn'.2 (fun i hi => hs i (by simp [hi]))⟩
    have : x = a := ix_inj hU (hs x (by simp [hx])) (hs a (by simp)) he
    exact hn'.1 (this ▸ hx)

/-- the settle phase of a sub-round in which every member of the healthy side has just broadcast its partial on `h + 1` -/
theorem settle_progress (s : State) (U : List Nat) (G : Grp) (e : Nat) (ix : Nat → Nat) (h c : Nat) (hU : Frame U G ix s.nIdx)
    (hconn : ∀ i ∈ U, ∀ j ∈ U, s.conn i j = true)
    (hthr : G.thr ≤ U.length) (hc : h < c) (j : Nat) (hj : j ∈ U)
    (hp : Prog s.nIdx h c ⟨G, e, ix j⟩ (fun k => k = ix j) (s.node j))
    (hq : ∀ m ∈ s.msgs, m.dst = j → s.conn m.src m.dst = true → m.epoch = e → m.round ≤ h + 1)
    (hm : ∀ i ∈ U, i ≠ j → (⟨i, ix i, e, h + 1, j⟩ : Msg) ∈ s.msgs) :
    h + 1 ≤ (s.settle.node j).head := by
  have hB := prog_foldl_pull j (List.range s.n) s hp
  obtain ⟨b1, b2, b3, b4⟩ := foldl_pull_frame (List.range s.n) s
  obtain ⟨c1, c2, c3, c4⟩ := foldl_recv j ((List.range s.n).foldl State.pull s).msgs { ((List.range s.n).foldl State.pull s) with msgs := [] }
  have hC : h + 1 ≤ (((List.range s.n).foldl State.pull s).deliverAll.node j).head := by
    unfold State.deliverAll
    rw [c4]
    simp only [b2, b3, b4]
    have hD := prog_deliver (B := s.nIdx) (V := ⟨G, e, ix j⟩) s.conn j hc s.msgs _ _ hB hq
    refine hD.done (U.map ix) (nodup_map_ix hU U hU.nodup (fun _ hi => hi)) ?_ (by simpa using hthr) ?_
    · intro k hk
      obtain ⟨i, hi, rfl⟩ := List.mem_map.mp hk
      exact hU.idxLt i hi
    · intro k hk
      obtain ⟨i, hi, rfl⟩ := List.mem_map.mp hk
      by_cases hij : i = j
      · exact Or.inl (by rw [hij])
      · right
        refine ⟨⟨i, ix i, e, h + 1, j⟩, hm i hi hij, rfl, hconn i hi j hj, ⟨rfl, ⟨⟨i, ix i⟩, ?_, hij⟩, rfl, ?_⟩, rfl⟩
        · exact node?_of_mem G hU.idxNodup ⟨i, ix i⟩ (hU.member i hi)
        · exact fun he => hij (ix_inj hU hi hj he)
  have hfin := foldl_pull_head_le j (List.range ((List.range s.n).foldl State.pull s).deliverAll.n) ((List.range s.n).foldl State.pull s).deliverAll
  exact Nat.le_trans hC hfin

/-- **Progress across a resharing.** In a fair round, let `U` be running, pairwise connected nodes that hold the vault of the
new group `G` (epoch `e`) — remainers that switched, whenever they were told, and joiners alike — with `|U| ≥ G.thr`, all at
head `h` below the round `c` their clocks are about to show, nobody who can reach them ahead of `h`. Then every member of
`U` stores round `h + 1`: the transition round when `h = transition − 1`, and every later due round. The old threshold,
the number of remainers (possibly fewer than the old threshold), a raised or lowered threshold, holes in the indices of
`G` and what non-members keep sending play no role. -/
theorem c07_reshare_step_progress (s : State) (U : List Nat) (G : Grp) (e : Nat) (ix : Nat → Nat) (h c : Nat)
    (hU : Side s U G e ix h) (hthr : G.thr ≤ U.length)
    (hhead : ∀ i ∈ U, (s.node i).head = h) (hclk : ∀ i ∈ U, (s.node i).clock + 1 = c) (hc : h < c)
    (hq : Quiet s U h e) :
    ∀ j ∈ U, h + 1 ≤ (s.fairTick.node j).head := by
  intro j hj
  obtain ⟨a1, a2, a3, a4, a5⟩ := foldl_act (fun B i => Node.tickStep B i) (List.range s.advance.n) s.advance List.nodup_range
  have e0 : ∀ k, (s.advance.node k).up = (s.node k).up ∧ (s.advance.node k).head = (s.node k).head ∧
      (s.advance.node k).clock = (s.node k).clock + 1 ∧ (s.advance.node k).held = (s.node k).held ∧
      (s.advance.node k).vault = (s.node k).vault := fun k => ⟨rfl, rfl, rfl, rfl, rfl⟩
  have hstep : ∀ i ∈ U, Prog s.nIdx h c ⟨G, e, ix i⟩ (fun k => k = ix i) (Node.tickStep s.nIdx i (s.advance.node i)).1 ∧
      (Node.tickStep s.nIdx i (s.advance.node i)).2 = ((s.advance.node i).recipients i).map (fun j => ⟨i, ix i, e, h + 1, j⟩) := by
    intro i hi
    exact prog_tickStep (V := ⟨G, e, ix i⟩) ((e0 i).1.trans (hU.up i hi)) ((e0 i).2.2.1.trans (hclk i hi)) ((e0 i).2.1.trans (hhead i hi)) hc
      ((e0 i).2.2.2.2.trans (hU.vault i hi))
      (fun hrep k x hk => hq.2 i hi hrep k x hk)
  have hn : (s.advance.forAll State.tick).n = s.n := a1
  have hni : (s.advance.forAll State.tick).nIdx = s.nIdx := a2
  have hcn : (s.advance.forAll State.tick).conn = s.conn := a3
  have hres := settle_progress (s.advance.forAll State.tick) U G e ix h c (by rw [hni]; exact hU.frame)
    (fun i hi j hj => by rw [hcn]; exact hU.conn i hi j hj) hthr hc j hj ?_ ?_ ?_
  · exact hres
  · -- node j after its tick
    rw [hni]
    have := a4 j
    have hlt : j ∈ List.range s.advance.n := List.mem_range.mpr (hU.lt j hj)
    simp only [hlt, if_true] at this
    show Prog s.nIdx h c ⟨G, e, ix j⟩ (fun k => k = ix j) (((List.range s.advance.n).foldl State.tick s.advance).node j)
    rw [show ((List.range s.advance.n).foldl State.tick s.advance).node j = _ from this]
    exact (hstep j hj).1
  · -- nothing deliverable to j is above h + 1
    intro m hm hdst hconn hep
    rw [hcn] at hconn
    have hm' : m ∈ s.advance.msgs ++ (List.range s.advance.n).flatMap (fun i => (Node.tickStep s.advance.nIdx i (s.advance.node i)).2) := by
      rw [← a5]; exact hm
    rcases List.mem_append.mp hm' with h1 | h1
    · exact hq.1 m h1 (hdst ▸ hj) hconn hep
    · obtain ⟨i, hi, hmi⟩ := List.mem_flatMap.mp h1
      have hts := tickStep_msgs hmi
      have hbe : (s.node i).head ≤ h := hU.behind i (List.mem_range.mp hi) ((e0 i).1.symm.trans hts.1)
        (hts.2.2.2.symm.trans hep) ⟨j, hj, by rw [← hts.2.1, ← hdst]; exact hconn⟩
      rw [hts.2.2.1]
      have := bnpRound_le (s.advance.node i).clock (s.advance.node i).head
      have h2 : (s.advance.node i).head = (s.node i).head := (e0 i).2.1
      omega
  · -- every other member's partial on h + 1 is in flight towards j
    intro i hi hij
    have : (⟨i, ix i, e, h + 1, j⟩ : Msg) ∈ s.advance.msgs ++ (List.range s.advance.n).flatMap (fun i => (Node.tickStep s.advance.nIdx i (s.advance.node i)).2) := by
      apply List.mem_append.mpr; right
      apply List.mem_flatMap.mpr
      refine ⟨i, List.mem_range.mpr (hU.lt i hi), ?_⟩
      show (⟨i, ix i, e, h + 1, j⟩ : Msg) ∈ (Node.tickStep s.nIdx i (s.advance.node i)).2
      rw [(hstep i hi).2]
      apply List.mem_map.mpr
      refine ⟨j, ?_, rfl⟩
      unfold Node.recipients
      rw [(e0 i).2.2.2.2, hU.vault i hi]
      apply List.mem_map.mpr
      refine ⟨⟨j, ix j⟩, ?_, rfl⟩
      apply List.mem_filter.mpr
      exact ⟨hU.member j hj, by simpa using fun he => hij he.symm⟩
    rw [← a5] at this
    exact this

/-- **The transition round and every later one.** The same, stated from the hand-over: every node of `U` was TOLD
(`Told`: it was handed the new vault at some earlier time — any time before the transition in the repaired variant,
before it stored `transition − 1` in the code as it is, see `c07_registration_any_time` / `c07_registration_partial` —
or it joined with it) and sits at a head `h ≥ transition − 1`. -/
theorem c07_transition_round_produced (s : State) (U : List Nat) (G : Grp) (e : Nat) (ix : Nat → Nat) (t h c : Nat)
    (htold : ∀ i ∈ U, Told ⟨G, e, ix i⟩ t (s.node i)) (hge : t - 1 ≤ h)
    (hup : ∀ i ∈ U, (s.node i).up = true) (hhead : ∀ i ∈ U, (s.node i).head = h)
    (hU : (∀ i ∈ U, (s.node i).vault = ⟨G, e, ix i⟩) → Side s U G e ix h) (hthr : G.thr ≤ U.length)
    (hclk : ∀ i ∈ U, (s.node i).clock + 1 = c) (hc : h < c) (hq : Quiet s U h e) :
    ∀ j ∈ U, h + 1 ≤ (s.fairTick.node j).head :=
  c07_reshare_step_progress s U G e ix h c
    (hU (fun i hi => (htold i hi).switched (hup i hi) (by rw [hhead i hi]; exact hge))) hthr hhead hclk hc hq

/-! ### non-vacuity -/

/-- two members, threshold 2 -/
def exG : Grp := ⟨[⟨0, 0⟩, ⟨1, 1⟩], 2⟩

/-- a group with holes in its indices: 0, 2, 3 -/
def exGap : Grp := ⟨[⟨0, 0⟩, ⟨1, 2⟩, ⟨2, 3⟩], 3⟩

example : exGap.node? 1 = none ∧ exGap.node? 2 = some ⟨1, 2⟩ ∧ exGap.node? 4 = none ∧ exGap.node? 3 = some ⟨2, 3⟩ := by decide

/-- node 0 of `exGap` (epoch 1) at head 4, clock 5 -/
def exNode : Node := { up := true, head := 4, clock := 5, vault := ⟨exGap, 1, 0⟩, disk := ⟨exGap, 1, 0⟩ }

/-- the partial of member index 2 made with a share of epoch 1 is admitted; the same index with a share of epoch 0, the
missing index 1 and the own index are not -/
example : exNode.admission 0 ⟨1, 2, 1, 5, 0⟩ = .admitted ∧ exNode.admission 0 ⟨1, 2, 0, 5, 0⟩ = .invalid ∧
    exNode.admission 0 ⟨1, 1, 1, 5, 0⟩ = .notMember ∧ exNode.admission 0 ⟨1, 0, 1, 5, 0⟩ = .ownAddress := by decide

example : (exNode.recvStep 8 0 true ⟨1, 2, 1, 5, 0⟩).held 5 2 = some 1 ∧ (exNode.recvStep 8 0 true ⟨1, 2, 0, 5, 0⟩).held 5 2 = none := by
  decide

/-- two admitted partials and the own one reach the threshold 3 of the CURRENT vault: round 5 is stored; with an old-share
partial in place of one of them it is not -/
example : ((((exNode.aggregate 8 0 1 5).recvStep 8 0 true ⟨1, 2, 1, 5, 0⟩).recvStep 8 0 true ⟨2, 3, 1, 5, 0⟩).head = 5) ∧
    ((((exNode.aggregate 8 0 1 5).recvStep 8 0 true ⟨1, 2, 1, 5, 0⟩).recvStep 8 0 true ⟨2, 3, 0, 5, 0⟩).head = 4) := by decide

/-- after a resharing {0,1,2} threshold 3 → {0 (index 0), joiner 3 (index 2), joiner 4 (index 5)} threshold 3: ONE remainer
(fewer than the old threshold), two joiners needed, holes in the new indices; nodes 1 and 2 have left -/
def exNew : Grp := ⟨[⟨0, 0⟩, ⟨3, 2⟩, ⟨4, 5⟩], 3⟩
def exIx (i : Nat) : Nat := if i = 0 then 0 else if i = 3 then 2 else 5
def exT : State :=
  { cfg := ⟨false, false⟩, n := 5, nIdx := 8,
    node := fun k =>
      if k = 0 ∨ k = 3 ∨ k = 4 then { up := true, head := 4, clock := 4, vault := ⟨exNew, 1, exIx k⟩, disk := ⟨exNew, 1, exIx k⟩ }
      else { up := false, head := 4, clock := 4, vault := ⟨exGap, 0, 0⟩, disk := ⟨exGap, 0, 0⟩ },
    conn := fun _ _ => true, msgs := [] }

private theorem exT_side : Side exT [0, 3, 4] exNew 1 exIx 4 := by
  refine ⟨by decide, ?_, ?_, fun _ _ _ _ => rfl, ?_, ?_, ?_, by decide, ?_⟩
  · intro i hi; simp at hi; show i < 5; omega
  · intro i hi; simp at hi; rcases hi with h | h | h <;> subst h <;> rfl
  · intro i hi; simp at hi; rcases hi with h | h | h <;> subst h <;> rfl
  · intro i hi; simp at hi; rcases hi with h | h | h <;> subst h <;> decide
  · intro i hi; simp at hi; rcases hi with h | h | h <;> subst h <;> decide
  · intro k _ _ _ _
    show (exT.node k).head ≤ 4
    unfold exT
    simp only
    split <;> exact Nat.le_refl _

private theorem exT_held (j r k : Nat) : (exT.node j).held r k = none := by
  unfold exT; simp only; split <;> rfl

private theorem exT_quiet : Quiet exT [0, 3, 4] 4 1 :=
  ⟨fun m hm _ _ _ => (by cases hm), fun j _ _ k x hx => (by rw [exT_held] at hx; cases hx)⟩

example : ∀ j ∈ [0, 3, 4], 4 + 1 ≤ (exT.fairTick.node j).head :=
  c07_reshare_step_progress exT [0, 3, 4] exNew 1 exIx 4 5 exT_side (by decide)
    (fun i hi => by simp at hi; rcases hi with h | h | h <;> subst h <;> rfl)
    (fun i hi => by simp at hi; rcases hi with h | h | h <;> subst h <;> rfl) (by decide)
    exT_quiet

example : (exT.fairTick.node 0).head = 5 ∧ (exT.fairTick.node 3).head = 5 ∧ (exT.fairTick.node 4).head = 5 := by decide

private theorem exInit_head : ((State.init ⟨false, false⟩ 2 2 exG).node 0).head < 3 - 1 := by decide

/-- the switch registered in time fires when round `transition − 1` is stored; `Told` is then the new vault -/
example : Told ⟨exNew, 1, 0⟩ 3 ((((State.init ⟨false, false⟩ 2 2 exG).apply (.announce 0 ⟨exNew, 1, 0⟩ 3)).run [.advance, .tick 0, .tick 1, .deliverAll]).node 0) :=
  told_run 0 _ _ (by intro ev hev; simp at hev; rcases hev with h | h | h | h <;> subst h <;> trivial)
    (c07_registration_partial (State.init ⟨false, false⟩ 2 2 exG) 0 ⟨exNew, 1, 0⟩ 3 exInit_head)

/-! ### the late registration: kernel-checked witness -/


/-- two nodes, threshold 2, resharing to the same two members (epoch 1) with transition round 2. Node 0 is told before
round 1 = transition − 1 is produced, node 1 after it stored round 1 — still before the transition time (clock round 1). -/
def exLate (repaired : Bool) : State :=
  (((State.init ⟨repaired, false⟩ 2 2 exG).apply (.announce 0 ⟨exG, 1, 0⟩ 2)).fairTick).apply (.announce 1 ⟨exG, 1, 1⟩ 2)

/-- **The code as it is halts.** Both members of the new group (threshold 2) are up and connected; node 1 was told late.
Node 0 switched when it stored round 1 and signs round 2 with its new share, node 1 keeps the old one: neither lets the
other's partial in, nothing is stored any more, so the callback of node 1 never runs — after three more fair rounds every
head is still 1 = transition − 1. With the repair the same schedule produces rounds 2, 3, 4. -/
theorem c07_late_registration_counterexample :
    ((exLate false).node 1).head = 1 ∧ ((exLate false).node 1).clock = 1 ∧
    ((exLate false).node 0).vault.epoch = 1 ∧ ((exLate false).node 1).vault.epoch = 0 ∧
    ((exLate false).fairTick.fairTick.fairTick.node 0).head = 1 ∧ ((exLate false).fairTick.fairTick.fairTick.node 1).head = 1 ∧
    ((exLate false).fairTick.fairTick.fairTick.node 1).vault.epoch = 0 ∧
    ((exLate true).node 1).vault.epoch = 1 ∧
    ((exLate true).fairTick.fairTick.fairTick.node 0).head = 4 ∧ ((exLate true).fairTick.fairTick.fairTick.node 1).head = 4 := by
  decide

/-- told in time (before round 1 is stored) the code as it is carries on as well -/
example : (((((State.init ⟨false, false⟩ 2 2 exG).apply (.announce 0 ⟨exG, 1, 0⟩ 2)).apply (.announce 1 ⟨exG, 1, 1⟩ 2)).fairTick.fairTick.fairTick).node 1).head = 3 ∧
    (((((State.init ⟨false, false⟩ 2 2 exG).apply (.announce 0 ⟨exG, 1, 0⟩ 2)).apply (.announce 1 ⟨exG, 1, 1⟩ 2)).fairTick.fairTick.fairTick).node 1).vault.epoch = 1 := by
  decide

end Drand.Net.Reshare
