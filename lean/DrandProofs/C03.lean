/-
C03 — no beacon without a threshold of valid partials from distinct members.
Model: Drand/Beacon/Node.lean (`processPartial` = ProcessPartialBeacon, `aggCheck`/`aggOne` = runAggregator) over the
partial cache of Drand/Beacon/Cache.lean. The cache-level statements `c03_distinct`, `c03_duplicate_ignored`,
`c03_malformed_ignored` live in DrandProofs/C12Cache.lean.
All theorems quantify over the cryptographic oracle and over every finite list of events.
-/
import DrandProofs.C07Net
import Drand.Beacon.Node
import Gen.DKGRun
import DrandProofs.C01
import DrandProofs.C12Cache

namespace Drand.Beacon
open Drand Drand.Chain Drand.Store

/-! ### ties to the regenerated facts -/

theorem tie_processPartial : Gen.BeaconNode.processPartialSteps = processPartialSteps := rfl
theorem tie_aggregator_partial : Gen.BeaconNode.aggregatorPartialSteps = aggregatorPartialSteps := rfl
theorem tie_aggregator_init : Gen.BeaconNode.aggregatorInitSteps =
    [.bind "var lastBeacon *common.Beacon", .bind "var cache=newPartialCache(c.l,c.crypto.Scheme)"] := rfl
theorem tie_window : Gen.partialCacheStoreLimit = 3 := rfl

/-- the conditions of the top-level guards of a skeleton, in order, and whether a given call comes after all of them -/
def guardConds : List Gen.BeaconNode.Step → List String
  | [] => []
  | .guard cond _ :: t => cond :: guardConds t
  | _ :: t => guardConds t

def callsAfterGuards : List Gen.BeaconNode.Step → List String
  | [] => []
  | .guard _ _ :: t => callsAfterGuards t
  | .call s :: t => if (guardConds t).isEmpty then s :: callsAfterGuards t else callsAfterGuards t
  | _ :: t => callsAfterGuards t

/-- `ProcessPartialBeacon`: the seven checks, in this order, all precede the hand-over to the aggregator -/
theorem tie_processPartial_guards :
    guardConds Gen.BeaconNode.processPartialSteps =
      ["pRound>nextRound", "latest,err:=h.chain.Last(ctx);err==nil&&pRound<=latest.GetRound()", "err!=nil", "idx<0",
       "node==nil", "nodeName==h.addr", "err!=nil", "idx==h.crypto.Index()"] ∧
    callsAfterGuards Gen.BeaconNode.processPartialSteps = ["h.chain.NewValidPartial(ctx,addr,p)"] := by decide

/-- `runAggregator`: window, Append error, missing round cache, `Len() < thr`, Recover error, VerifyRecovered error —
each leaves the iteration — all precede `tryAppend` -/
theorem tie_aggregator_guards :
    guardConds Gen.BeaconNode.aggregatorPartialSteps =
      ["!shouldStore", "err!=nil", "roundCache==nil", "roundCache.Len()<thr", "err!=nil",
       "err:=c.crypto.ThresholdScheme.VerifyRecovered(c.crypto.GetPub().Commit(),msg,finalSig);err!=nil",
       "c.tryAppend(ctx,lastBeacon,newBeacon)"] := by decide

/-- "current group members" is what the vault holds when the partial is admitted and when the round is aggregated
(`setInfo` events of the model). In the code the vault switches to the reshared group in the callback that
`TransitionNewGroup` registers: it fires on the first stored round at or after `transition round − 1` (also when it
was registered late) and assigns share, group and public polynomial together. -/
theorem tie_live_group_switch :
    Gen.tngTargetRound = "tRound - 1" ∧ Gen.tngCallbackSkipIf = "closed || b.Round < targetRound" ∧
    Gen.tngCallbackThen.head? = some "h.crypto.SetInfo(newGroup, newShare)" ∧
    Gen.vaultSetInfoAssigns = ["share = ks", "group = newGroup", "pub = newGroup.PublicKey.PubPoly(v.Scheme)"] := by decide

/-! ### the partial cache keeps only what it was given -/

section assoc
variable {κ ν : Type} [DecidableEq κ]

theorem aget_aset (k k' : κ) (v : ν) (l : List (κ × ν)) :
    aget k (aset k' v l) = if k = k' then some v else aget k l := by
  induction l with
  | nil => simp [aset, aget]
  | cons a t ih =>
    obtain ⟨k'', v''⟩ := a
    by_cases h1 : k' = k'' <;> by_cases h2 : k = k' <;> by_cases h3 : k = k'' <;> simp_all [aset, aget]

theorem aget_adel (k k' : κ) (l : List (κ × ν)) :
    aget k (adel k' l) = if k = k' then none else aget k l := by
  induction l with
  | nil => simp [adel, aget]
  | cons a t ih =>
    obtain ⟨k'', v''⟩ := a
    by_cases h1 : k' = k'' <;> by_cases h2 : k = k' <;> by_cases h3 : k = k'' <;> simp_all [adel, aget]

theorem mem_adel (k : κ) (l : List (κ × ν)) (e : κ × ν) (h : e ∈ adel k l) : e ∈ l := by
  induction l with
  | nil => simp [adel] at h
  | cons a t ih =>
    obtain ⟨k'', v''⟩ := a
    simp only [adel] at h
    split at h
    · exact List.mem_cons_of_mem _ (ih h)
    · rcases List.mem_cons.1 h with h | h
      · rw [h]; exact List.mem_cons_self
      · exact List.mem_cons_of_mem _ (ih h)
theorem mem_aset (k : κ) (v : ν) (l : List (κ × ν)) (e : κ × ν) (h : e ∈ aset k v l) : e = (k, v) ∨ e ∈ l := by
  induction l with
  | nil => simp [aset] at h; exact Or.inl h
  | cons a t ih =>
    obtain ⟨k'', v''⟩ := a
    simp only [aset] at h
    split at h
    · rcases List.mem_cons.1 h with h | h
      · exact Or.inl h
      · exact Or.inr (List.mem_cons_of_mem _ h)
    · rcases List.mem_cons.1 h with h | h
      · rw [h]; exact Or.inr List.mem_cons_self
      · rcases ih h with h | h
        · exact Or.inl h
        · exact Or.inr (List.mem_cons_of_mem _ h)
end assoc

/-- what a round-cache entry must satisfy: it sits under its own id, every cached partial is filed under the index
its first two bytes name, and every cached partial satisfies `P` as a packet for exactly this (round, prev) -/
def EntryOk (P : Partial → Prop) (sl : Nat) (id : RId) (rc : RoundCache) : Prop :=
  (rc.round, rc.prev) = id ∧ ∀ e ∈ rc.sigs, indexOf sl e.2 = some e.1 ∧ P ⟨id.1, id.2, e.2⟩

def CInv (P : Partial → Prop) (sl : Nat) (c : Cache) : Prop :=
  c.sigLen = sl ∧ ∀ id rc, aget id c.rounds = some rc → EntryOk P sl id rc

/-- the eviction step of `getCache`, named so that it can be reasoned about on its own -/
def evictE (c : Cache) (idx : Nat) : Except AppendRes Cache :=
  let l := c.rcvdOf idx
  if l.length ≥ maxPartials then
    match l with
    | [] => .error .errEvicted
    | toEvict :: rest =>
      match aget toEvict c.rounds with
      | none => .error .errEvicted
      | some er =>
        let er' : RoundCache := { er with sigs := adel idx er.sigs }
        let rounds' := if er'.sigs.length = 0 then adel toEvict c.rounds else aset toEvict er' c.rounds
        .ok { c with rounds := rounds', rcvd := aset idx rest c.rcvd }
  else .ok c

theorem getCache_unfold (c : Cache) (id : RId) (p : Partial) : c.getCache id p =
    match indexOf c.sigLen p.psig with
    | none => (c, .error .errIndex)
    | some idx =>
      let existing := aget id c.rounds
      let seen : Bool := match existing with
        | some r => (aget idx r.sigs).isSome
        | none => false
      if seen then
        match existing with
        | some r => (c, .ok r)
        | none => (c, .error .errEvicted)
      else
        match evictE c idx with
        | .error e => (c, .error e)
        | .ok c1 =>
          match aget id c1.rounds with
          | some r => (c1, .ok r)
          | none => ({ c1 with rounds := aset id ⟨p.round, p.prev, []⟩ c1.rounds }, .ok ⟨p.round, p.prev, []⟩) := rfl

theorem evict_inv (P : Partial → Prop) (sl : Nat) (c : Cache) (idx : Nat) (h : CInv P sl c) (c1 : Cache)
    (he : evictE c idx = .ok c1) : CInv P sl c1 := by
  unfold evictE at he
  simp only at he
  split at he
  · split at he
    · cases he
    · next toEvict rest _ =>
      split at he
      · cases he
      · next er her =>
        simp only [Except.ok.injEq] at he
        subst he
        refine ⟨h.1, ?_⟩
        intro id rc hrc
        simp only at hrc
        have hev := h.2 _ _ her
        split at hrc
        · rw [aget_adel] at hrc
          split at hrc
          · cases hrc
          · exact h.2 _ _ hrc
        · rw [aget_aset] at hrc
          split at hrc
          · next hid =>
            cases hrc
            subst hid
            exact ⟨hev.1, fun e hm => hev.2 e (mem_adel _ _ _ hm)⟩
          · exact h.2 _ _ hrc
  · cases he; exact h

theorem getCache_inv (P : Partial → Prop) (sl : Nat) (c : Cache) (p : Partial) (h : CInv P sl c) :
    CInv P sl (c.getCache (p.round, p.prev) p).1 ∧
    ∀ r, (c.getCache (p.round, p.prev) p).2 = .ok r →
      aget (p.round, p.prev) (c.getCache (p.round, p.prev) p).1.rounds = some r := by
  rw [getCache_unfold]
  cases hi : indexOf c.sigLen p.psig with
  | none => exact ⟨h, fun r hr => by cases hr⟩
  | some idx =>
    simp only
    have tail : ∀ c1, evictE c idx = .ok c1 →
        CInv P sl (match aget (p.round, p.prev) c1.rounds with
          | some r => (c1, (Except.ok r : Except AppendRes RoundCache))
          | none => ({ c1 with rounds := aset (p.round, p.prev) ⟨p.round, p.prev, []⟩ c1.rounds }, .ok ⟨p.round, p.prev, []⟩)).1 ∧
        ∀ r, (match aget (p.round, p.prev) c1.rounds with
          | some r => (c1, (Except.ok r : Except AppendRes RoundCache))
          | none => ({ c1 with rounds := aset (p.round, p.prev) ⟨p.round, p.prev, []⟩ c1.rounds }, .ok ⟨p.round, p.prev, []⟩)).2 = .ok r →
          aget (p.round, p.prev) (match aget (p.round, p.prev) c1.rounds with
          | some r => (c1, (Except.ok r : Except AppendRes RoundCache))
          | none => ({ c1 with rounds := aset (p.round, p.prev) ⟨p.round, p.prev, []⟩ c1.rounds }, .ok ⟨p.round, p.prev, []⟩)).1.rounds = some r := by
      intro c1 hev
      have h1 := evict_inv P sl c idx h c1 hev
      cases he1 : aget (p.round, p.prev) c1.rounds with
      | some r => exact ⟨h1, fun r' hr => by cases hr; exact he1⟩
      | none =>
        refine ⟨⟨h1.1, ?_⟩, fun r hr => by cases hr; simp [aget_aset]⟩
        intro id rc hrc
        simp only at hrc
        rw [aget_aset] at hrc
        split at hrc
        · next hid => cases hrc; subst hid; exact ⟨rfl, fun e hm => by cases hm⟩
        · exact h1.2 _ _ hrc
    have tail' : CInv P sl (match evictE c idx with
        | .error e => (c, (Except.error e : Except AppendRes RoundCache))
        | .ok c1 =>
          match aget (p.round, p.prev) c1.rounds with
          | some r => (c1, .ok r)
          | none => ({ c1 with rounds := aset (p.round, p.prev) ⟨p.round, p.prev, []⟩ c1.rounds }, .ok ⟨p.round, p.prev, []⟩)).1 ∧
        ∀ r, (match evictE c idx with
        | .error e => (c, (Except.error e : Except AppendRes RoundCache))
        | .ok c1 =>
          match aget (p.round, p.prev) c1.rounds with
          | some r => (c1, .ok r)
          | none => ({ c1 with rounds := aset (p.round, p.prev) ⟨p.round, p.prev, []⟩ c1.rounds }, .ok ⟨p.round, p.prev, []⟩)).2 = .ok r →
          aget (p.round, p.prev) (match evictE c idx with
        | .error e => (c, (Except.error e : Except AppendRes RoundCache))
        | .ok c1 =>
          match aget (p.round, p.prev) c1.rounds with
          | some r => (c1, .ok r)
          | none => ({ c1 with rounds := aset (p.round, p.prev) ⟨p.round, p.prev, []⟩ c1.rounds }, .ok ⟨p.round, p.prev, []⟩)).1.rounds = some r := by
      cases hev : evictE c idx with
      | error e => exact ⟨h, fun r hr => by cases hr⟩
      | ok c1 => exact tail c1 hev
    cases he : aget (p.round, p.prev) c.rounds with
    | none => simpa using tail'
    | some r0 =>
      simp only
      by_cases hs : (aget idx r0.sigs).isSome = true
      · rw [if_pos hs]
        exact ⟨h, fun r hr => by cases hr; exact he⟩
      · rw [if_neg hs]
        exact tail'

theorem append_inv (P : Partial → Prop) (sl : Nat) (c : Cache) (p : Partial) (h : CInv P sl c) (hp : P p) :
    CInv P sl (c.append p).1 := by
  unfold Cache.append
  simp only
  cases hi : indexOf c.sigLen p.psig with
  | none => exact h
  | some idx =>
    simp only
    have hg := getCache_inv P sl c p h
    cases hgc : c.getCache (p.round, p.prev) p with
    | mk c' res =>
      rw [hgc] at hg
      cases res with
      | error e => exact hg.1
      | ok r =>
        simp only
        have hr := hg.2 r rfl
        unfold RoundCache.append
        rw [hi]
        have hro := hg.1.2 _ _ hr
        have hnew : indexOf sl p.psig = some idx ∧ P ⟨p.round, p.prev, p.psig⟩ := ⟨by rw [← h.1]; exact hi, hp⟩
        cases hsg : aget idx r.sigs with
        | some x =>
          cases hrep : c.replace with
          | false => simp only [hsg, Bool.false_eq_true, if_false]; exact hg.1
          | true =>
            simp only [hsg, if_true, Bool.false_eq_true, if_false]
            refine ⟨hg.1.1, ?_⟩
            intro id rc hrc
            simp only at hrc
            rw [aget_aset] at hrc
            split at hrc
            · next hid =>
              cases hrc
              subst hid
              refine ⟨hro.1, ?_⟩
              intro e hm
              rcases mem_aset _ _ _ _ hm with hm | hm
              · rw [hm]; exact hnew
              · exact hro.2 e hm
            · exact hg.1.2 _ _ hrc
        | none =>
          simp only [hsg, if_true]
          refine ⟨hg.1.1, ?_⟩
          intro id rc hrc
          simp only at hrc
          rw [aget_aset] at hrc
          split at hrc
          · next hid =>
            cases hrc
            subst hid
            refine ⟨hro.1, ?_⟩
            intro e hm
            simp only [List.mem_append, List.mem_singleton] at hm
            rcases hm with hm | hm
            · exact hro.2 e hm
            · subst hm
              exact hnew
          · exact hg.1.2 _ _ hrc

theorem flush_inv (P : Partial → Prop) (sl : Nat) (c : Cache) (round : Nat) (h : CInv P sl c) :
    CInv P sl (c.flush round) := by
  unfold Cache.flush
  have : ∀ (l : List (RId × RoundCache)) (acc : Cache), CInv P sl acc →
      CInv P sl (l.foldl (fun acc e =>
        if e.2.round > round then acc
        else { acc with rounds := adel e.1 acc.rounds, rcvd := dropId e.1 e.2.sigs acc.rcvd }) acc) := by
    intro l
    induction l with
    | nil => intro acc ha; exact ha
    | cons e t ih =>
      intro acc ha
      simp only [List.foldl_cons]
      apply ih
      split
      · exact ha
      · refine ⟨ha.1, ?_⟩
        intro id rc hrc
        simp only at hrc
        rw [aget_adel] at hrc
        split at hrc
        · cases hrc
        · exact ha.2 _ _ hrc
  exact this _ _ h


/-! ### where a cached partial came from -/

/-- a packet in the aggregator's hands was either admitted by `ProcessPartialBeacon` under a group view that was live
at that moment — well-formed index, a member of that group, not listed under this node's address, not this node's
share index, valid under that group's public polynomial for the digest of exactly the packet's (round, prev) — or is
the node's own partial, signed with its share of a group that was live -/
def Origin (c : Crypto) (seen : List GroupView) (sl : Nat) (addr : String) (chained : Bool) (p : Partial) : Prop :=
  (∃ g ∈ seen, ∃ idx nodeAddr, indexOf sl p.psig = some idx ∧ aget idx g.members = some nodeAddr ∧ nodeAddr ≠ addr ∧
      idx ≠ g.ownIndex ∧ c.verifyPartial g.poly (digest c chained p.round p.prev) p.psig = true)
  ∨ (∃ g ∈ seen, p.psig = c.signPartial g.poly (digest c chained p.round p.prev))

def Node.origin (c : Crypto) (s : Node) : Partial → Prop := Origin c s.seen s.sigLen s.addr s.chained

/-- the aggregator's cache is only ever touched by `Append` and `FlushRounds`, starting from the empty cache: it is a
state of the cache machine of DrandProofs/C12Cache.lean, so that file's invariants apply to it -/
def IsRun (sl : Nat) (ca : Cache) : Prop := ∃ ops rep, ca = Cache.run sl ops rep

private theorem isRun_append (sl : Nat) (ca : Cache) (p : Partial) (h : IsRun sl ca) : IsRun sl (ca.append p).1 := by
  obtain ⟨ops, rep, rfl⟩ := h
  exact ⟨ops ++ [.append p], rep, by simp [Cache.run, Cache.apply, List.foldl_append]⟩

private theorem isRun_flush (sl : Nat) (ca : Cache) (r : Nat) (h : IsRun sl ca) : IsRun sl (ca.flush r) := by
  obtain ⟨ops, rep, rfl⟩ := h
  exact ⟨ops ++ [.flush r], rep, by simp [Cache.run, Cache.apply, List.foldl_append]⟩

structure Inv3 (c : Crypto) (sl : Nat) (ad : String) (ch : Bool) (s : Node) : Prop where
  consts : s.sigLen = sl ∧ s.addr = ad ∧ s.chained = ch
  live : s.group ∈ s.seen
  queued : ∀ p ∈ s.newPartials, s.origin c p
  cached : CInv (s.origin c) s.sigLen s.cache
  isRun : IsRun s.sigLen s.cache

variable {sl : Nat} {ad : String} {ch : Bool}

private theorem origin_mono (c : Crypto) (seen : List GroupView) (g : GroupView) (sl : Nat) (addr : String) (ch : Bool)
    (p : Partial) (h : Origin c seen sl addr ch p) : Origin c (seen ++ [g]) sl addr ch p := by
  rcases h with ⟨g', hg, rest⟩ | ⟨g', hg, rest⟩
  · exact Or.inl ⟨g', List.mem_append_left _ hg, rest⟩
  · exact Or.inr ⟨g', List.mem_append_left _ hg, rest⟩

private theorem cinv_mono {P Q : Partial → Prop} (sl : Nat) (c : Cache) (hpq : ∀ p, P p → Q p) (h : CInv P sl c) :
    CInv Q sl c :=
  ⟨h.1, fun id rc hrc => ⟨(h.2 id rc hrc).1, fun e he => ⟨((h.2 id rc hrc).2 e he).1, hpq _ ((h.2 id rc hrc).2 e he).2⟩⟩⟩

private theorem inv3_of_fields {c : Crypto} {s s' : Node} (h : Inv3 c sl ad ch s) (h1 : s'.seen = s.seen) (h2 : s'.sigLen = s.sigLen)
    (h3 : s'.addr = s.addr) (h4 : s'.chained = s.chained) (h5 : s'.group = s.group)
    (h6 : s'.newPartials = s.newPartials) (h7 : s'.cache = s.cache) : Inv3 c sl ad ch s' := by
  have ho : s'.origin c = s.origin c := by unfold Node.origin; rw [h1, h2, h3, h4]
  exact ⟨by rw [h2, h3, h4]; exact h.consts, by rw [h5, h1]; exact h.live, by rw [h6, ho]; exact h.queued, by rw [ho, h2, h7]; exact h.cached,
    by rw [h2, h7]; exact h.isRun⟩

/-- what the admission function established when it hands a packet over -/
theorem processPartial_admitted (c : Crypto) (s : Node) (p : Partial) (h : (processPartial c s p).2 = .admitted) :
    p.round ≤ s.nextRound ∧ s.last.round < p.round ∧
    ∃ idx nodeAddr, indexOf s.sigLen p.psig = some idx ∧ aget idx s.group.members = some nodeAddr ∧ nodeAddr ≠ s.addr ∧
      idx ≠ s.group.ownIndex ∧ c.verifyPartial s.group.poly (digest c s.chained p.round p.prev) p.psig = true := by
  unfold processPartial at h
  split at h
  · cases h
  next h1 =>
  split at h
  · cases h
  next h2 =>
  split at h
  · cases h
  next idx hi =>
  split at h
  · cases h
  next nodeAddr hm =>
  simp only at h
  split at h
  · cases h
  next h3 =>
  split at h
  · cases h
  next h4 =>
  split at h
  · cases h
  next h5 =>
  exact ⟨by omega, by omega, idx, nodeAddr, hi, hm, h3, h5, by simpa using h4⟩

private theorem put_fields (c : Crypto) (s : Node) (src : Src) (b : Beacon) :
    (Node.put c s src b).1.seen = s.seen ∧ (Node.put c s src b).1.sigLen = s.sigLen ∧
    (Node.put c s src b).1.addr = s.addr ∧ (Node.put c s src b).1.chained = s.chained ∧
    (Node.put c s src b).1.group = s.group ∧ (Node.put c s src b).1.newPartials = s.newPartials ∧
    (Node.put c s src b).1.cache = s.cache := by
  unfold Node.put
  split <;> simp [Node.notify]

private theorem put_inv3 (c : Crypto) (s : Node) (src : Src) (b : Beacon) (h : Inv3 c sl ad ch s) : Inv3 c sl ad ch (Node.put c s src b).1 := by
  obtain ⟨h1, h2, h3, h4, h5, h6, h7⟩ := put_fields c s src b
  exact inv3_of_fields h h1 h2 h3 h4 h5 h6 h7

private theorem tryAppend_inv3 (c : Crypto) (s : Node) (last nb : Beacon) (h : Inv3 c sl ad ch s) : Inv3 c sl ad ch (tryAppend c s last nb).1 := by
  unfold tryAppend
  split
  · exact h
  · have := put_inv3 c s .agg nb h
    split <;> simp_all

/-- the cache after the checks of one iteration is the old cache or the old cache with the packet appended -/
theorem aggCheck_cache (c : Crypto) (chained : Bool) (g : GroupView) (cache : Cache) (last : Beacon) (p : Partial) :
    (aggCheck c chained g cache last p).1 = cache ∨ (aggCheck c chained g cache last p).1 = (cache.append p).1 := by
  unfold aggCheck
  simp only
  split
  · left; rfl
  · right
    cases hap : cache.append p with
    | mk ca' res =>
      cases res with
      | ok =>
        simp only
        split
        · rfl
        · split
          · rfl
          · split
            · rfl
            · split <;> rfl
      | errIndex => rfl
      | errEvicted => rfl

private theorem aggOne_inv3 (c : Crypto) (s : Node) (p : Partial) (h : Inv3 c sl ad ch s) (hp : s.origin c p) :
    Inv3 c sl ad ch (aggOne c s p).1 := by
  have hcache : ∀ last, CInv (s.origin c) s.sigLen (aggCheck c s.chained s.group s.cache last p).1 := by
    intro last
    rcases aggCheck_cache c s.chained s.group s.cache last p with he | he <;> rw [he]
    · exact h.cached
    · exact append_inv _ _ _ _ h.cached hp
  have hrun : ∀ last, IsRun s.sigLen (aggCheck c s.chained s.group s.cache last p).1 := by
    intro last
    rcases aggCheck_cache c s.chained s.group s.cache last p with he | he <;> rw [he]
    · exact h.isRun
    · exact isRun_append _ _ _ h.isRun
  have base : ∀ (s0 : Node) (ca : Cache), s0.seen = s.seen → s0.sigLen = s.sigLen → s0.addr = s.addr →
      s0.chained = s.chained → s0.group = s.group → s0.newPartials = s.newPartials → s0.cache = ca →
      CInv (s.origin c) s.sigLen ca → IsRun s.sigLen ca → Inv3 c sl ad ch s0 := by
    intro s0 ca h1 h2 h3 h4 h5 h6 h7 hca hru
    have ho : s0.origin c = s.origin c := by unfold Node.origin; rw [h1, h2, h3, h4]
    exact ⟨by rw [h2, h3, h4]; exact h.consts, by rw [h5, h1]; exact h.live, by rw [h6, ho]; exact h.queued, by rw [ho, h2, h7]; exact hca,
      by rw [h2, h7]; exact hru⟩
  unfold aggOne
  simp only
  split
  · next cache' rc sig hck =>
    have hca : CInv (s.origin c) s.sigLen cache' := by
      have e := congrArg Prod.fst hck
      simp only at e
      rw [← e]; exact hcache _
    have hru : IsRun s.sigLen cache' := by
      have e := congrArg Prod.fst hck
      simp only at e
      rw [← e]; exact hrun _
    have key : ∀ (sArg : Node) (last : Beacon), Inv3 c sl ad ch sArg → ∀ s' b,
        tryAppend c sArg last ⟨rc.round, sig, rc.prev⟩ = (s', b) → Inv3 c sl ad ch s' := by
      intro sArg last hI s' b hh
      have := tryAppend_inv3 c sArg last ⟨rc.round, sig, rc.prev⟩ hI
      rw [hh] at this; exact this
    have harg : ∀ last : Beacon, Inv3 c sl ad ch ({ s with aggLast := some last, cache := cache'.flush p.round } : Node) :=
      fun last => base _ _ rfl rfl rfl rfl rfl rfl rfl (flush_inv _ _ _ _ hca) (isRun_flush _ _ _ hru)
    split
    · next s' hta => exact inv3_of_fields (key _ _ (harg _) _ _ hta) rfl rfl rfl rfl rfl rfl rfl
    · next s' hta =>
      have : Inv3 c sl ad ch s' := key _ _ (harg _) _ _ hta
      split <;> first | exact inv3_of_fields this rfl rfl rfl rfl rfl rfl rfl | exact this
  all_goals
    next cache' hck =>
    have hca : CInv (s.origin c) s.sigLen cache' := by
      have e := congrArg Prod.fst hck
      simp only at e
      rw [← e]; exact hcache _
    have hru : IsRun s.sigLen cache' := by
      have e := congrArg Prod.fst hck
      simp only at e
      rw [← e]; exact hrun _
    exact base _ _ rfl rfl rfl rfl rfl rfl rfl hca hru

private theorem tryNodeLoop_inv3 (c : Crypto) (upTo : Nat) (pkts : List SyncPkt) :
    ∀ (s : Node) (last : Beacon), Inv3 c sl ad ch s → Inv3 c sl ad ch (tryNodeLoop c s upTo last pkts).1 := by
  induction pkts with
  | nil => intro s last h; exact h
  | cons pk rest ih =>
    intro s last h
    unfold tryNodeLoop
    split
    · exact h
    · split
      · exact h
      · split
        · exact h
        · have hp := put_inv3 c s .sync pk.b h
          split
          · next s' hh =>
            rw [hh] at hp
            split
            · exact hp
            · exact ih s' pk.b hp
          · next s' hh => rw [hh] at hp; exact hp
          · next s' r _ _ hh => rw [hh] at hp; exact hp

private theorem tryNode_inv3 (c : Crypto) (upTo : Nat) (pkts : List SyncPkt) :
    ∀ s : Node, Inv3 c sl ad ch s → Inv3 c sl ad ch (tryNode c s upTo pkts).1 :=
  fun s h => tryNodeLoop_inv3 c upTo pkts s s.last h

theorem step_inv3 (c : Crypto) (s : Node) (ev : Ev) (h : Inv3 c sl ad ch s) : Inv3 c sl ad ch (s.step c ev) := by
  cases ev with
  | tick n => exact inv3_of_fields h rfl rfl rfl rfl rfl rfl rfl
  | setInfo g =>
    show Inv3 c sl ad ch { s with group := g, seen := s.seen ++ [g] }
    refine ⟨h.consts, List.mem_append_right _ (List.mem_singleton.2 rfl), ?_, ?_, h.isRun⟩
    · intro p hp; exact origin_mono c _ g _ _ _ p (h.queued p hp)
    · exact cinv_mono _ _ (fun p hp => origin_mono c _ g _ _ _ p hp) h.cached
  | deliver p =>
    show Inv3 c sl ad ch (processPartial c s p).1
    rcases processPartial_cases c s p with ⟨_, he⟩ | ⟨ha, he⟩ <;> rw [he]
    · exact h
    · refine ⟨h.consts, h.live, ?_, h.cached, h.isRun⟩
      intro q hq
      rcases List.mem_append.1 hq with hq | hq
      · exact h.queued q hq
      · simp at hq; subst hq
        obtain ⟨_, _, idx, na, h1, h2, h3, h4, h5⟩ := processPartial_admitted c s q ha
        exact Or.inl ⟨s.group, h.live, idx, na, h1, h2, h3, h4, h5⟩
  | own cur =>
    show Inv3 c sl ad ch (match ownPartial c s cur with | some p => { s with newPartials := s.newPartials ++ [p] } | none => s)
    split
    · next p hp =>
      refine ⟨h.consts, h.live, ?_, h.cached, h.isRun⟩
      intro q hq
      rcases List.mem_append.1 hq with hq | hq
      · exact h.queued q hq
      · simp at hq; subst hq
        unfold ownPartial at hp
        simp only at hp
        split at hp
        · cases hp
        · cases hp
          exact Or.inr ⟨s.group, h.live, rfl⟩
    · exact h
  | aggPartial =>
    show Inv3 c sl ad ch (aggPartial c s).1
    unfold aggPartial
    split
    · exact h
    · next p rest hq =>
      have hp : s.origin c p := h.queued p (by rw [hq]; exact List.mem_cons_self)
      have h' : Inv3 c sl ad ch { s with newPartials := rest } :=
        ⟨h.consts, h.live, fun q hq' => h.queued q (by rw [hq]; exact List.mem_cons_of_mem _ hq'), h.cached, h.isRun⟩
      exact aggOne_inv3 c _ p h' hp
  | aggStored =>
    show Inv3 c sl ad ch (aggStored s)
    unfold aggStored
    split
    · exact h
    · exact ⟨h.consts, h.live, h.queued, flush_inv _ _ _ _ h.cached, isRun_flush _ _ _ h.isRun⟩
  | swapStored =>
    show Inv3 c sl ad ch (match s.storedQ with | a :: b :: q => { s with storedQ := b :: a :: q } | _ => s)
    split
    · exact inv3_of_fields h rfl rfl rfl rfl rfl rfl rfl
    · exact h
  | tryNode upTo pkts => exact tryNode_inv3 c upTo pkts s h
  | publicRand proxy wanted =>
    show Inv3 c sl ad ch (publicRand c s proxy wanted).1
    unfold publicRand
    simp only
    split
    · exact inv3_of_fields h rfl rfl rfl rfl rfl rfl rfl
    · split
      · exact h
      · exact inv3_of_fields h rfl rfl rfl rfl rfl rfl rfl
  | waiterTimeout => exact inv3_of_fields h rfl rfl rfl rfl rfl rfl rfl
  | serve pub from_ =>
    show Inv3 c sl ad ch (syncServe c s pub from_).1
    unfold syncServe
    split
    · exact h
    · exact inv3_of_fields h rfl rfl rfl rfl rfl rfl rfl
  | stopStreams => exact inv3_of_fields h rfl rfl rfl rfl rfl rfl rfl

theorem run_inv3 (c : Crypto) (evs : List Ev) : ∀ s : Node, Inv3 c sl ad ch s → Inv3 c sl ad ch (Node.run c s evs) := by
  induction evs with
  | nil => intro s h; exact h
  | cons ev evs ih => intro s h; exact ih _ (step_inv3 c s ev h)

theorem init_inv3 (c : Crypto) (chained : Bool) (sigLen : Nat) (addr : String) (key : Nat) (g : GroupView) (seed : Bytes) :
    Inv3 c sigLen addr chained (Node.init chained sigLen addr key g seed) :=
  ⟨⟨rfl, rfl, rfl⟩, List.mem_singleton.2 rfl, fun p hp => (by cases hp), ⟨rfl, fun id rc hrc => (by simp [Node.init, Cache.empty, aget] at hrc)⟩,
    ⟨[], Gen.replaceSameIndex, rfl⟩⟩

/-! ### the theorems -/

/-- **C03 (admitted)**: after any sequence of events, every packet waiting for the aggregator and every partial
signature in any round cache is filed under the index it names, under exactly the (round, previous signature) it was
sent for, and was admitted by `ProcessPartialBeacon` (member of the group live at that time, valid under that group's
polynomial for that (round, prev), neither the node's address nor its share index) or is the node's own partial -/
theorem c03_admitted (c : Crypto) (chained : Bool) (sigLen : Nat) (addr : String) (key : Nat) (g : GroupView) (seed : Bytes)
    (evs : List Ev) :
    let s := Node.run c (Node.init chained sigLen addr key g seed) evs
    (∀ p ∈ s.newPartials, Origin c s.seen sigLen addr chained p) ∧
    ∀ id rc, aget id s.cache.rounds = some rc → (rc.round, rc.prev) = id ∧
      ∀ e ∈ rc.sigs, indexOf sigLen e.2 = some e.1 ∧ Origin c s.seen sigLen addr chained ⟨id.1, id.2, e.2⟩ := by
  intro s
  have hi : Inv3 c sigLen addr chained s := run_inv3 c evs _ (init_inv3 c chained sigLen addr key g seed)
  obtain ⟨h1, h2, h3⟩ := hi.consts
  have ho : s.origin c = Origin c s.seen sigLen addr chained := by unfold Node.origin; rw [h1, h2, h3]
  refine ⟨fun p hp => by rw [← ho]; exact hi.queued p hp, ?_⟩
  intro id rc hrc
  have := hi.cached.2 id rc hrc
  rw [ho, h1] at this
  exact this

/-- **C03 (distinct)** at node level: in every reachable state, within every round cache each signer index occurs at
most once — `roundCache.Len()` counts distinct signers (`c03_distinct` of the cache machine applied to the node's
cache, which is a state of that machine) -/
theorem c03_len_counts_distinct (c : Crypto) (chained : Bool) (sigLen : Nat) (addr : String) (key : Nat) (g : GroupView)
    (seed : Bytes) (evs : List Ev) :
    let s := Node.run c (Node.init chained sigLen addr key g seed) evs
    ∀ id rc, aget id s.cache.rounds = some rc → ((rc.sigs.map (·.1)).Nodup ∧ CacheInv s.cache) := by
  intro s id rc hrc
  have hi : Inv3 c sigLen addr chained s := run_inv3 c evs _ (init_inv3 c chained sigLen addr key g seed)
  obtain ⟨ops, rep, hops⟩ := hi.isRun
  rw [hops] at hrc
  exact ⟨c03_distinct _ ops id rc rep hrc, by rw [hops]; exact c12_cache_inv _ ops rep⟩

/-- what is assumed of `ThresholdScheme.Recover`: if it returns a signature then at least `t` of the supplied partials
verify under the supplied polynomial for the supplied message, at pairwise distinct indices (kyber: it keeps the first
`t` partials that verify and interpolates only if they carry `t` distinct indices). Nothing is assumed about when it
succeeds or about what it returns — the aggregator re-verifies the result (C01). -/
def RecoverSpec (c : Crypto) (sl : Nat) : Prop :=
  ∀ poly msg sigs thr n sig, c.recover poly msg sigs thr n = some sig →
    ∃ l : List Bytes, l.Sublist sigs ∧ thr ≤ l.length ∧ (l.map (indexOf sl)).Nodup ∧
      ∀ x ∈ l, c.verifyPartial poly msg x = true

/-- the result of an aggregator iteration names a beacon only if the checks produced it as a candidate -/
private theorem aggOne_candidate (c : Crypto) (s : Node) (p : Partial) (nb : Beacon)
    (hres : (aggOne c s p).2 = .appended nb ∨ ∃ sy, (aggOne c s p).2 = .notAppendable nb sy) :
    ∃ cache' rc sig, aggCheck c s.chained s.group s.cache s.aggView p = (cache', .candidate rc sig) ∧
      nb = ⟨rc.round, sig, rc.prev⟩ := by
  unfold aggOne at hres
  simp only at hres
  split at hres
  · next cache' rc sig hck =>
    refine ⟨cache', rc, sig, hck, ?_⟩
    split at hres
    · rcases hres with h1 | ⟨sy, h1⟩
      · simp only [AggRes.appended.injEq] at h1; exact h1.symm
      · cases h1
    · split at hres
      · rcases hres with h1 | ⟨sy, h1⟩
        · cases h1
        · simp only [AggRes.notAppendable.injEq] at h1; exact h1.1.symm
      · rcases hres with h1 | ⟨sy, h1⟩
        · cases h1
        · simp only [AggRes.notAppendable.injEq] at h1; exact h1.1.symm
  all_goals (rcases hres with h1 | ⟨sy, h1⟩ <;> cases h1)

/-- **C03 (threshold)**: whenever an aggregator iteration gets as far as `tryAppend` with a new beacon — in particular
whenever aggregation Puts a beacon — that beacon is for exactly the (round, previous signature) of the packet just
processed, and the round cache for that pair holds at least the live group's threshold of partial signatures, at
pairwise distinct signer indices, each verifying under the live public polynomial for the digest of that (round, prev),
each admitted as a member's partial (or the node's own) for exactly that pair. -/
theorem c03_threshold (c : Crypto) (hR : RecoverSpec c sl) (s : Node) (h : Inv3 c sl ad ch s) (p : Partial)
    (hp : s.origin c p) (nb : Beacon)
    (hres : (aggOne c s p).2 = .appended nb ∨ ∃ sy, (aggOne c s p).2 = .notAppendable nb sy) :
    nb.round = p.round ∧ nb.prev = p.prev ∧
    ∃ rc, aget (p.round, p.prev) (s.cache.append p).1.rounds = some rc ∧
    ∃ l : List (Nat × Bytes), l.Sublist rc.sigs ∧ s.group.thr ≤ l.length ∧ (l.map (·.1)).Nodup ∧
      ∀ e ∈ l, indexOf sl e.2 = some e.1 ∧
        c.verifyPartial s.group.poly (digest c ch p.round p.prev) e.2 = true ∧
        Origin c s.seen sl ad ch ⟨p.round, p.prev, e.2⟩ := by
  obtain ⟨cache', rc, sig, hck, hnb⟩ := aggOne_candidate c s p nb hres
  obtain ⟨hc1, _, hrc, _, hrec, _, _, _⟩ := aggCheck_candidate c _ _ _ _ _ _ _ _ hck
  obtain ⟨h1, h2, h3⟩ := h.consts
  have ho : s.origin c = Origin c s.seen sl ad ch := by unfold Node.origin; rw [h1, h2, h3]
  have hci : CInv (s.origin c) s.sigLen (s.cache.append p).1 := append_inv _ _ _ _ h.cached hp
  rw [hc1] at hrc
  obtain ⟨hid, hent⟩ := hci.2 _ _ hrc
  have hr : rc.round = p.round := congrArg Prod.fst hid
  have hpv : rc.prev = p.prev := congrArg Prod.snd hid
  subst hnb
  refine ⟨hr, hpv, rc, hrc, ?_⟩
  obtain ⟨l', hsub, hlen, hnd, hver⟩ := hR _ _ _ _ _ _ hrec
  obtain ⟨l, hl, hl'⟩ := List.sublist_map_iff.1 hsub
  subst hl'
  refine ⟨l, hl, by simpa using hlen, ?_, ?_⟩
  · -- distinct indices: each cached partial is filed under the index its bytes name
    have hmap : (l.map (·.2)).map (indexOf sl) = (l.map (·.1)).map some := by
      rw [List.map_map, List.map_map]
      apply List.map_congr_left
      intro e he
      have := (hent e (hl.subset he)).1
      rw [h1] at this
      simpa using this
    rw [hmap] at hnd
    exact List.Pairwise.of_map some (fun a b hne hab => hne (by rw [hab])) hnd
  · intro e he
    have hx := hent e (hl.subset he)
    rw [h1] at hx
    refine ⟨hx.1, ?_, ?_⟩
    · have := hver e.2 (List.mem_map.2 ⟨e, he, rfl⟩)
      rw [h3, hr, hpv] at this
      exact this
    · have := hx.2
      rw [ho] at this
      exact this

/-- the same, for every reachable state: at any point of any run, if the aggregator's next iteration creates a beacon,
the threshold of distinct valid member partials for exactly its (round, prev) is in the cache -/
theorem c03_threshold_reachable (c : Crypto) (chained : Bool) (sigLen : Nat) (addr : String) (key : Nat) (g : GroupView)
    (seed : Bytes) (hR : RecoverSpec c sigLen) (evs : List Ev) :
    let s := Node.run c (Node.init chained sigLen addr key g seed) evs
    ∀ p rest, s.newPartials = p :: rest → ∀ nb,
      ((aggPartial c s).2 = .appended nb ∨ ∃ sy, (aggPartial c s).2 = .notAppendable nb sy) →
      nb.round = p.round ∧ nb.prev = p.prev ∧
      ∃ rc, aget (p.round, p.prev) (s.cache.append p).1.rounds = some rc ∧
      ∃ l : List (Nat × Bytes), l.Sublist rc.sigs ∧ s.group.thr ≤ l.length ∧ (l.map (·.1)).Nodup ∧
        ∀ e ∈ l, indexOf sigLen e.2 = some e.1 ∧
          c.verifyPartial s.group.poly (digest c chained p.round p.prev) e.2 = true ∧
          Origin c s.seen sigLen addr chained ⟨p.round, p.prev, e.2⟩ := by
  intro s p rest hq nb hres
  have hi : Inv3 c sigLen addr chained s := run_inv3 c evs _ (init_inv3 c chained sigLen addr key g seed)
  have hp : s.origin c p := hi.queued p (by rw [hq]; exact List.mem_cons_self)
  have h' : Inv3 c sigLen addr chained { s with newPartials := rest } :=
    ⟨hi.consts, hi.live, fun q hq' => hi.queued q (by rw [hq]; exact List.mem_cons_of_mem _ hq'), hi.cached, hi.isRun⟩
  have he : aggPartial c s = aggOne c { s with newPartials := rest } p := by unfold aggPartial; rw [hq]
  rw [he] at hres
  exact c03_threshold c hR _ h' p hp nb hres

/-- fewer than the threshold of cached partials: the iteration stops at `roundCache.Len() < thr`, nothing is recovered,
nothing is put -/
theorem c03_below_threshold (c : Crypto) (s : Node) (p : Partial) (rc : RoundCache)
    (hwin : s.aggView.round < p.round ∧ p.round ≤ s.aggView.round + Gen.partialCacheStoreLimit + 1)
    (hap : (s.cache.append p).2 = .ok) (hrc : aget (p.round, p.prev) (s.cache.append p).1.rounds = some rc)
    (hlt : rc.sigs.length < s.group.thr) :
    (aggOne c s p).2 = .belowThr ∧ (aggOne c s p).1.puts = s.puts ∧ (aggOne c s p).1.stack = s.stack := by
  have hck : aggCheck c s.chained s.group s.cache s.aggView p = ((s.cache.append p).1, .belowThr) := by
    unfold aggCheck
    simp only
    rw [if_neg (by simp; omega)]
    cases hh : s.cache.append p with
    | mk ca res =>
      rw [hh] at hap hrc
      simp only at hap hrc
      subst hap
      simp only
      rw [hrc]
      simp only
      rw [if_pos hlt]
  unfold aggOne
  simp only
  rw [hck]
  exact ⟨rfl, rfl, rfl⟩

/-- the node's own contribution: nothing is signed or queued when the stored head is ahead of the tick's round;
otherwise it is for the tick's round (re-broadcast of the head) or for head+1, never beyond the tick's round + 1 -/
theorem c03_own_partial_round (c : Crypto) (s : Node) (cur : Nat) :
    (s.last.round > cur → ownPartial c s cur = none) ∧
    (∀ p, ownPartial c s cur = some p → s.last.round ≤ cur ∧ p.round ≤ cur + 1 ∧
      (p.round = s.last.round + 1 ∨ (p.round = cur ∧ cur = s.last.round))) := by
  unfold ownPartial
  simp only
  constructor
  · intro h; rw [if_pos h]
  · intro p hp
    split at hp
    · cases hp
    · next hle =>
      cases hp
      simp only
      split
      · next he => exact ⟨by omega, by omega, Or.inr ⟨rfl, he⟩⟩
      · exact ⟨by omega, by omega, Or.inl rfl⟩

/-! ### what never counts -/

/-- **invalid**: a partial that does not verify under the live polynomial for the digest of its claimed
(round, prev) is refused and changes nothing — no cache, no queue, no `Len()` -/
theorem c03_invalid_never_counts (c : Crypto) (s : Node) (p : Partial)
    (hv : c.verifyPartial s.group.poly (digest c s.chained p.round p.prev) p.psig = false) :
    (processPartial c s p).1 = s ∧ (processPartial c s p).2 ≠ .admitted := by
  rcases processPartial_cases c s p with ⟨hna, he⟩ | ⟨ha, _⟩
  · exact ⟨he, hna⟩
  · have := (processPartial_admitted c s p ha).2.2
    obtain ⟨_, _, _, _, _, _, h5⟩ := this
    rw [hv] at h5; cases h5

/-- **malformed** (truncated, wrong length): no index can be read -/
theorem c03_malformed_never_counts (c : Crypto) (s : Node) (p : Partial) (hi : indexOf s.sigLen p.psig = none) :
    (processPartial c s p).1 = s ∧ (processPartial c s p).2 ≠ .admitted := by
  rcases processPartial_cases c s p with ⟨hna, he⟩ | ⟨ha, _⟩
  · exact ⟨he, hna⟩
  · obtain ⟨_, _, idx, _, h1, _⟩ := processPartial_admitted c s p ha
    rw [hi] at h1; cases h1

/-- **non-member index**: the index is not in the live group -/
theorem c03_nonmember_never_counts (c : Crypto) (s : Node) (p : Partial) (idx : Nat)
    (hi : indexOf s.sigLen p.psig = some idx) (hm : aget idx s.group.members = none) :
    (processPartial c s p).1 = s ∧ (processPartial c s p).2 ≠ .admitted := by
  rcases processPartial_cases c s p with ⟨hna, he⟩ | ⟨ha, _⟩
  · exact ⟨he, hna⟩
  · obtain ⟨_, _, idx', na, h1, h2, _⟩ := processPartial_admitted c s p ha
    rw [hi] at h1; cases h1
    rw [hm] at h2; cases h2

/-- **own address**: a partial whose index is listed with this node's address (a replay of the node's own partial) -/
theorem c03_own_address_never_counts (c : Crypto) (s : Node) (p : Partial) (idx : Nat)
    (hi : indexOf s.sigLen p.psig = some idx) (hm : aget idx s.group.members = some s.addr) :
    (processPartial c s p).1 = s ∧ (processPartial c s p).2 ≠ .admitted := by
  rcases processPartial_cases c s p with ⟨hna, he⟩ | ⟨ha, _⟩
  · exact ⟨he, hna⟩
  · obtain ⟨_, _, idx', na, h1, h2, h3, _⟩ := processPartial_admitted c s p ha
    rw [hi] at h1; cases h1
    rw [hm] at h2; cases h2
    exact absurd rfl h3

/-- **own index**: a partial carrying this node's share index -/
theorem c03_own_index_never_counts (c : Crypto) (s : Node) (p : Partial)
    (hi : indexOf s.sigLen p.psig = some s.group.ownIndex) :
    (processPartial c s p).1 = s ∧ (processPartial c s p).2 ≠ .admitted := by
  rcases processPartial_cases c s p with ⟨hna, he⟩ | ⟨ha, _⟩
  · exact ⟨he, hna⟩
  · obtain ⟨_, _, idx', na, h1, _, _, h4, _⟩ := processPartial_admitted c s p ha
    rw [hi] at h1; cases h1
    exact absurd rfl h4

/-- **too early / already stored**: a round beyond the clock's next round, or a round not above the stored head -/
theorem c03_out_of_window_never_counts (c : Crypto) (s : Node) (p : Partial)
    (hw : p.round > s.nextRound ∨ p.round ≤ s.last.round) :
    (processPartial c s p).1 = s ∧ (processPartial c s p).2 ≠ .admitted := by
  rcases processPartial_cases c s p with ⟨hna, he⟩ | ⟨ha, _⟩
  · exact ⟨he, hna⟩
  · obtain ⟨h1, h2, _⟩ := processPartial_admitted c s p ha
    omega

/-- a signature made for one message verifies for no other (EUF-CMA idealised): `m₀` is what the signer signed -/
def SignedOnly (c : Crypto) (poly : Nat) (psig m₀ : Bytes) : Prop := ∀ m, c.verifyPartial poly m psig = true → m = m₀

/-- **wrong round**: a partial signed for round r' but sent as round r ≠ r' (hash collision-free on the two
preimages) -/
theorem c03_wrong_round_never_counts (c : Crypto) (s : Node) (p : Partial) (r' : Nat) (pv' : Bytes)
    (hs : SignedOnly c s.group.poly p.psig (digest c s.chained r' pv'))
    (S : Bytes → Prop) (hcf : CollisionFreeOn c.hash S) (h1 : S (preimage s.chained p.round p.prev))
    (h2 : S (preimage s.chained r' pv')) (hr : p.round < 2^64) (hr' : r' < 2^64) (hne : p.round ≠ r') :
    (processPartial c s p).1 = s ∧ (processPartial c s p).2 ≠ .admitted := by
  apply c03_invalid_never_counts
  cases hv : c.verifyPartial s.group.poly (digest c s.chained p.round p.prev) p.psig with
  | false => rfl
  | true => exact absurd (c01_digest_binds c s.chained _ _ _ _ hr hr' S hcf h1 h2 (hs _ hv)).1 hne

/-- **wrong previous signature** (chained schemes): signed over another previous signature than the one sent -/
theorem c03_wrong_prev_never_counts (c : Crypto) (s : Node) (p : Partial) (pv' : Bytes) (hch : s.chained = true)
    (hs : SignedOnly c s.group.poly p.psig (digest c s.chained p.round pv'))
    (S : Bytes → Prop) (hcf : CollisionFreeOn c.hash S) (h1 : S (preimage s.chained p.round p.prev))
    (h2 : S (preimage s.chained p.round pv')) (hr : p.round < 2^64) (hne : p.prev ≠ pv') :
    (processPartial c s p).1 = s ∧ (processPartial c s p).2 ≠ .admitted := by
  apply c03_invalid_never_counts
  cases hv : c.verifyPartial s.group.poly (digest c s.chained p.round p.prev) p.psig with
  | false => rfl
  | true => exact absurd ((c01_digest_binds c s.chained _ _ _ _ hr hr S hcf h1 h2 (hs _ hv)).2 hch) hne

/-- **duplicate / replay**: a second partial from an index already cached for that (round, prev) is answered ok and
leaves every `Len()` unchanged — it still counts once; with "first wins" (`replace = false`) the whole cache is unchanged,
with "newest wins" only the bytes cached under that index in that round cache change -/
theorem c03_duplicate_never_counts (ca : Cache) (p : Partial) (idx : Nat) (r : RoundCache) (sg : Bytes)
    (hi : indexOf ca.sigLen p.psig = some idx) (hr : aget (p.round, p.prev) ca.rounds = some r)
    (hs : aget idx r.sigs = some sg) :
    (ca.append p).2 = .ok ∧ (ca.replace = false → (ca.append p).1 = ca) ∧
    ∀ rd pv, (ca.append p).1.roundLen rd pv = ca.roundLen rd pv := by
  have hso : ca.sigOf (p.round, p.prev) idx = some sg := by unfold Cache.sigOf; rw [hr]; exact hs
  have := append_duplicate ca p idx sg hi hso
  exact ⟨this.1, this.2.1, this.2.2.2.1⟩

/-- refused packets never reach the aggregator: the cache changes only through packets that passed admission or are
the node's own -/
theorem c03_refused_changes_no_len (c : Crypto) (s : Node) (p : Partial) (h : (processPartial c s p).2 ≠ .admitted) :
    ∀ r pv, (processPartial c s p).1.cache.roundLen r pv = s.cache.roundLen r pv := by
  rcases processPartial_cases c s p with ⟨_, he⟩ | ⟨ha, _⟩
  · intro r pv; rw [he]
  · exact absurd ha h

/-! ### non-vacuity: an oracle that satisfies `RecoverSpec`, a run that reaches the threshold, one packet per class -/

def dedupIdx (sl : Nat) : List Bytes → List Bytes
  | [] => []
  | x :: t => if indexOf sl x ∈ (dedupIdx sl t).map (indexOf sl) then dedupIdx sl t else x :: dedupIdx sl t

private theorem dedup_sublist (sl : Nat) (l : List Bytes) : (dedupIdx sl l).Sublist l := by
  induction l with
  | nil => exact List.Sublist.slnil
  | cons x t ih =>
    unfold dedupIdx
    split
    · exact List.Sublist.cons _ ih
    · exact List.Sublist.cons_cons _ ih

private theorem dedup_nodup (sl : Nat) (l : List Bytes) : ((dedupIdx sl l).map (indexOf sl)).Nodup := by
  induction l with
  | nil => exact List.nodup_nil
  | cons x t ih =>
    unfold dedupIdx
    split
    · exact ih
    · next hn => rw [List.map_cons]; exact List.nodup_cons.2 ⟨hn, ih⟩

/-- like `toyCrypto` (C01), with a `Recover` that does what kyber does: keep the partials that verify, one per index,
and succeed when there are `thr` of them -/
def toy3 : Crypto :=
  { toyCrypto with
    recover := fun poly msg sigs thr _ =>
      if thr ≤ (dedupIdx 1 (sigs.filter fun s => toyCrypto.verifyPartial poly msg s)).length then some (0xAA :: msg) else none }

theorem toy3_recoverSpec : RecoverSpec toy3 1 := by
  intro poly msg sigs thr n sig h
  simp only [toy3] at h
  split at h
  · next hle =>
    refine ⟨_, (dedup_sublist 1 _).trans List.filter_sublist, hle, dedup_nodup 1 _, ?_⟩
    intro x hx
    have := (dedup_sublist 1 _).subset hx
    exact (List.mem_filter.1 this).2
  · cases h

def toy3Start : Node := Node.init true 1 "a0" 0 ⟨0, 2, 3, [(0, "a0"), (1, "a1"), (2, "a2")], 0⟩ [5]

/-- a peer's partial for round 1 is cached (below the threshold: nothing happens), a second member's partial arrives -/
def toy3Evs : List Ev := [.tick 2, .deliver ⟨1, [5], [0, 1, 1]⟩, .aggPartial, .deliver ⟨1, [5], [0, 2, 1]⟩]

example : (aggPartial toy3 (Node.run toy3 toy3Start [.tick 2, .deliver ⟨1, [5], [0, 1, 1]⟩])).2 = .belowThr := by decide
example : (aggPartial toy3 (Node.run toy3 toy3Start toy3Evs)).2 =
    .appended ⟨1, [0xAA, 5, 0, 0, 0, 0, 0, 0, 0, 1], [5]⟩ := by decide
example : ((aggPartial toy3 (Node.run toy3 toy3Start toy3Evs)).1.stack.base.map (·.1)) = [0, 1] := by decide
/-- the hypotheses of `c03_threshold_reachable` are met by this run, so its conclusion is a statement about real data -/
example : ∃ p rest, (Node.run toy3 toy3Start toy3Evs).newPartials = p :: rest :=
  ⟨⟨1, [5], [0, 2, 1]⟩, [], by decide⟩

-- one packet per class, judged against the state after the first partial of round 1 was cached
def toy3Mid : Node := Node.run toy3 toy3Start [.tick 2, .deliver ⟨1, [5], [0, 1, 1]⟩, .aggPartial]
example : (processPartial toy3 toy3Mid ⟨1, [5], [0, 2, 9]⟩).2 = .invalid := by decide          -- does not verify
example : (processPartial toy3 toy3Mid ⟨1, [5], [0, 2]⟩).2 = .badIndex := by decide            -- truncated
example : (processPartial toy3 toy3Mid ⟨1, [5], [0, 7, 1]⟩).2 = .notMember := by decide        -- index 7 is in no group
example : (processPartial toy3 toy3Mid ⟨1, [5], [0, 0, 1]⟩).2 = .ownAddr := by decide          -- the node's own index/address
example : (processPartial toy3 toy3Mid ⟨3, [5], [0, 2, 3]⟩).2 = .future := by decide           -- beyond the next round
example : (processPartial toy3 toy3Mid ⟨0, [5], [0, 2, 0]⟩).2 = .past := by decide             -- already stored
example : (processPartial toy3 toy3Mid ⟨2, [5], [0, 2, 1]⟩).2 = .invalid := by decide          -- signed for round 1, sent as round 2
example : (processPartial toy3 { toyStart true with group := ⟨0, 2, 3, [(0, "a1"), (1, "a0")], 0⟩, nextRound := 2 }
    ⟨1, [5], [0, 0, 1]⟩).2 = .ownIndex := by decide                                           -- listed under another address, but our share index
-- replay of the cached packet: the cache does not change (in either variant: the bytes that would replace the cached ones are the same)
set_option maxRecDepth 10000 in
example : (toy3Mid.cache.append ⟨1, [5], [0, 1, 1]⟩).1 = toy3Mid.cache := by decide
example : toy3Mid.cache.roundLen 1 [5] = some 1 := by decide

end Drand.Beacon
