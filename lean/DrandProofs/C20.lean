/-
C20 — persisted and transmitted state round-trips without loss.
Model: Drand/Codec/Mirror.lean (conversions mirrored from the Go bodies; leaves abstract in `Leaf`, their
round-trip facts explicit in `LeafOK`). Regenerated facts: Gen/Mirrors.lean.
-/
import Drand.Codec.Mirror

namespace Drand.Codec
open Drand

/-! ### helpers -/

private theorem empty_not_scheme : "" ∉ Gen.schemeNames := by decide

private theorem getSchemeByID_known {s : String} (h : s ∈ Gen.schemeNames) : getSchemeByID s = .ok s := by
  have hne : s ≠ "" := fun e => empty_not_scheme (e ▸ h)
  simp [getSchemeByID, schemeFromName, hne, h]

private theorem getSchemeByID_empty : getSchemeByID "" = .ok Gen.defaultSchemeID := by
  simp [getSchemeByID, schemeFromName, Gen.schemeNames, Gen.defaultSchemeID]

private theorem schemeFromName_known {s : String} (h : s ∈ Gen.schemeNames) : schemeFromName s = .ok s := by
  simp [schemeFromName, h]

private theorem decPoint_enc {L : Leaf} (ok : LeafOK L) {sch : String} {b : Bytes} (h : L.pointOk sch b = true) :
    decPoint L sch (L.hexEnc b) = .ok b := by
  simp [decPoint, ok.hex_rt, h]

private theorem decScalar_enc {L : Leaf} (ok : LeafOK L) {sch : String} {b : Bytes} (h : L.scalarOk sch b = true) :
    decScalar L sch (L.hexEnc b) = .ok b := by
  simp [decScalar, ok.hex_rt, h]

private theorem mapE_map {α β γ : Type} (f : β → Dec γ) (g : α → β) (h : α → γ) (l : List α)
    (hh : ∀ a ∈ l, f (g a) = .ok (h a)) : mapE f (l.map g) = .ok (l.map h) := by
  induction l with
  | nil => rfl
  | cons a t ih =>
    have h1 := hh a List.mem_cons_self
    have h2 := ih (fun x hx => hh x (List.mem_cons_of_mem _ hx))
    simp [mapE, h1, h2]

private theorem mapE_length {α β : Type} (f : α → Dec β) (l : List α) (r : List β) (h : mapE f l = .ok r) :
    r.length = l.length := by
  induction l generalizing r with
  | nil => simp [mapE] at h; subst h; rfl
  | cons a t ih =>
    unfold mapE at h
    split at h
    · cases h
    · split at h
      · cases h
      · rename_i bs hbs
        cases h
        simp [ih _ hbs]

/-! ### Identity, Node -/

/-- an identity file written by `Identity.TOML` reads back as the same identity -/
theorem c20_identity (L : Leaf) (ok : LeafOK L) (i : Identity) (wf : i.WF L) :
    Identity.fromTOML L Identity.zero (i.toTOML L) = .ok i ∧ i.equal i = true := by
  obtain ⟨s, hs, hk, hp⟩ := wf
  obtain ⟨key, addr, sig, scheme⟩ := i
  simp only at hs hp
  subst hs
  refine ⟨?_, by simp [Identity.equal]⟩
  simp only [Identity.fromTOML, Identity.toTOML, getSchemeByID_known hk, decPoint_enc ok hp]
  by_cases he : L.hexEnc sig = ""
  · have : sig = [] := by
      by_cases h0 : sig = []
      · exact h0
      · exact absurd he (ok.hex_nonempty _ h0)
    subst this
    simp [he, Identity.zero]
  · simp [he, ok.hex_rt]

private theorem node_rt (L : Leaf) (ok : LeafOK L) (n : Node) (wf : n.ident.WF L) :
    Node.fromTOML L (n.toTOML L) = .ok n := by
  simp [Node.fromTOML, Node.toTOML, (c20_identity L ok n.ident wf).1]

/-! ### Group: TOML path (group file, DKG database record) -/

private theorem idPart_canon (id : Bytes) : idPart (canonId id) = idPart id := by
  have hd : isDefaultId defaultId = true := by decide
  unfold idPart canonId
  by_cases h : isDefaultId id = true
  · simp [h, hd]
  · simp [h]

private theorem compareBeaconIDs_canon (id : Bytes) : compareBeaconIDs id (canonId id) = true := by
  have hd : isDefaultId defaultId = true := by decide
  unfold compareBeaconIDs canonId
  by_cases h : isDefaultId id = true
  · simp [h, hd]
  · simp [h]

private theorem nodesEqual_refl (l : List Node) : nodesEqual l l = true := by
  induction l with
  | nil => rfl
  | cons a t ih => simp [nodesEqual, ih, Node.equal, Identity.equal]

private theorem seed_ne_nil (L : Leaf) (ok : LeafOK L) (g : Group) (h : g.genesisSeed ≠ some []) : g.seed L ≠ [] := by
  unfold Group.seed
  cases hs : g.genesisSeed with
  | none => simpa using ok.ghash_nonempty _
  | some s =>
    simp only
    intro e
    exact h (by rw [hs, e])

/-- Full statement, TOML path: a group written by `Group.TOML` (group file, `FinalGroup` of a DKG record) reads
back through `Group.FromTOML` as a group that is `Equal` to the original and has the same hash preimage; the
result is given explicitly: only the id is canonicalised and the genesis seed materialised. -/
theorem c20_group_toml (L : Leaf) (ok : LeafOK L) (g : Group) (wf : g.WFTOML L) :
    Group.fromTOML L (g.toTOML L) = .ok (g.canonTOML L) ∧
    ((g.genesisSeed ≠ none ∨ sortByIndex g.nodes = g.nodes) → Group.equal L g (g.canonTOML L) = true) ∧
    groupToks (g.canonTOML L).params = groupToks g.params := by
  refine ⟨?_, ?_, ?_⟩
  · have hn : mapE (Node.fromTOML L) (g.nodes.map (Node.toTOML L)) = .ok (g.nodes.map id) :=
      mapE_map _ _ _ _ (fun n hn => node_rt L ok n (wf.nodes n hn))
    have hpk : optE (distPublicFromTOML L g.scheme) (g.publicKey.map (distPublicToTOML L)) = .ok g.publicKey := by
      cases hp : g.publicKey with
      | none => rfl
      | some cs =>
        have : distPublicFromTOML L g.scheme (distPublicToTOML L cs) = .ok (cs.map id) :=
          mapE_map _ _ _ _ (fun c hc => decPoint_enc ok (wf.coeffs cs hp c hc))
        simp [optE, this]
    have hseed : L.hexEnc (g.seed L) ≠ "" := ok.hex_nonempty _ (seed_ne_nil L ok g wf.seed)
    have h1 : ¬ g.threshold < (Gen.minimumT g.nodes.length : Nat) := Int.not_lt.2 wf.thrLow
    have h2 : ¬ g.threshold > (g.nodes.length : Nat) := Int.not_lt.2 wf.thrHigh
    simp only [Group.fromTOML, Group.toTOML, getSchemeByID_known wf.scheme, hn, List.length_map, List.map_id, h1, h2,
      if_false, hpk, ok.dur_rt, ok.dur_nonempty, hseed, ok.hex_rt, ne_eq, not_false_eq_true, if_true, Option.map_some,
      Group.canonTOML]
    by_cases ht : g.transitionTime = 0 <;> simp [ht]
  · intro hs
    have hn : g.nodesForEqual = g.nodes := by
      unfold Group.nodesForEqual
      rcases hs with h | h
      · cases hg : g.genesisSeed with
        | none => exact absurd hg h
        | some s => simp
      · split <;> simp [h]
    have hc : (g.canonTOML L).nodesForEqual = g.nodes := by simp [Group.nodesForEqual, Group.canonTOML]
    unfold Group.equal
    rw [hn, hc]
    simp [Group.canonTOML, compareBeaconIDs_canon, nodesEqual_refl, Group.seed]
  · unfold groupToks
    rw [show (g.canonTOML L).params = { g.params with id := canonId g.id } from rfl]
    simp only [idPart_canon]
    rfl

/-! ### Group: protobuf path -/

private theorem minimumT_eq (n : Nat) : Gen.minimumT n = n / 2 + 1 := by
  simp [Gen.minimumT, Nat.shiftRight_eq_div_pow]

private theorem i64_u64 (x : Int) (h : -9223372036854775808 ≤ x ∧ x < 9223372036854775808) :
    i64OfU64 (u64OfInt x) = x := by
  unfold i64OfU64 u64OfInt
  by_cases hx : 0 ≤ x
  · have : x % 18446744073709551616 = x := Int.emod_eq_of_lt hx (by omega)
    rw [this]
    have h2 : (x.toNat : Int) = x := Int.toNat_of_nonneg hx
    split <;> omega
  · have : x % 18446744073709551616 = x + 18446744073709551616 := by
      rw [← Int.add_mul_emod_self_left x 18446744073709551616 1]
      exact Int.emod_eq_of_lt (by omega) (by omega)
    rw [this]
    have h2 : ((x + 18446744073709551616).toNat : Int) = x + 18446744073709551616 := Int.toNat_of_nonneg (by omega)
    split <;> omega

private theorem u32_small (x : Int) (h0 : 0 ≤ x) (h1 : x < 4294967296) : u32 x = x.toNat := by
  unfold u32
  rw [Int.emod_eq_of_lt h0 h1]

private theorem secondsU32_whole (k : Nat) (h : k < 4294967296) : secondsU32 ((k : Int) * 1000000000) = k := by
  unfold secondsU32
  rw [Int.mul_ediv_cancel _ (by decide : (1000000000 : Int) ≠ 0), u32_small _ (by omega) (by omega)]
  simp

private theorem mapE_points (L : Leaf) (sch : String) (cs : List Bytes) (h : ∀ c ∈ cs, L.pointOk sch c = true) :
    mapE (fun c => if L.pointOk sch c then (.ok c : Dec Bytes) else .error .badPoint) cs = .ok cs := by
  have := mapE_map (fun c => if L.pointOk sch c then (.ok c : Dec Bytes) else .error .badPoint) id id cs
    (fun c hc => by simp [h c hc])
  simpa using this

/-- Full statement, protobuf path: a group sent by `Group.ToProto` is accepted by `GroupFromProto` (in either
variant, with no target scheme or the group's own) and the result is `Equal` to the original with the same hash
preimage; explicitly: id canonicalised, seed materialised, member identities carry the group's scheme. -/
theorem c20_group_proto (strict : Bool) (L : Leaf) (ok : LeafOK L) (g : Group) (wf : g.WFProto L)
    (target : Option String) (ht : target = none ∨ target = some g.scheme) :
    Group.fromProto strict L (g.toProto L) target = .ok (g.canonProto L) ∧
    ((g.genesisSeed ≠ none ∨ sortByIndex g.nodes = g.nodes) → Group.equal L g (g.canonProto L) = true) ∧
    groupToks (g.canonProto L).params = groupToks g.params := by
  refine ⟨?_, ?_, ?_⟩
  · have htgt : targetMismatch target g.scheme = false := by
      rcases ht with h | h <;> simp [h, targetMismatch]
    have hn : mapE (nodeFromProto L g.scheme) (g.nodes.map fun n => (⟨n.ident.toProto, n.index⟩ : PNode)) =
        .ok (g.nodes.map fun n => { n with ident := { n.ident with scheme := some g.scheme } }) :=
      mapE_map _ _ _ _ (fun n hn => by
        obtain ⟨ha, hp⟩ := wf.nodes n hn
        simp [nodeFromProto, identityFromProto, Identity.toProto, ha, hp])
    have hmin := minimumT_eq g.nodes.length
    have hthr0 : 0 ≤ g.threshold := by have := wf.thrLow; omega
    have hmax : max g.threshold 0 = g.threshold := by omega
    have hthr : u32 g.threshold = g.threshold.toNat := u32_small _ hthr0 (by have := wf.thrHigh; have := wf.nodesFit; omega)
    have hthrI : (g.threshold.toNat : Int) = g.threshold := Int.toNat_of_nonneg hthr0
    have h1 : ¬ g.threshold.toNat < Gen.minimumT g.nodes.length := by have := wf.thrLow; omega
    have h2 : ¬ g.threshold.toNat > g.nodes.length := by have := wf.thrHigh; omega
    obtain ⟨kp, hkp0, hkp, hperiod⟩ := wf.period
    obtain ⟨kc, hkc, hcatchup⟩ := wf.catchup
    have hseed : g.seed L ≠ [] := seed_ne_nil L ok g wf.seed
    have hper0 : ¬ ((kp : Int) * 1000000000 = 0) := by omega
    simp only [Group.fromProto, Group.toProto, schemeFromName_known wf.scheme, htgt, hn, List.length_map, hthr, h1, h2,
      i64_u64 _ wf.genesis64, i64_u64 _ wf.transition64, wf.genesisNZ, hperiod, hcatchup, secondsU32_whole _ hkp,
      secondsU32_whole _ hkc, hper0, hseed, if_false, if_true, decide_false, Bool.and_false, Bool.false_eq_true,
      ne_eq, not_false_eq_true, Group.canonProto]
    cases hpk : g.publicKey with
    | none => simp [mapE, hmax]
    | some cs =>
      obtain ⟨hlen, hpts⟩ := wf.coeffs cs hpk
      have hpos : cs.length > 0 := by have := wf.thrLow; omega
      have hleq : ¬ cs.length ≠ g.threshold.toNat := by omega
      simp only [mapE_points L g.scheme cs hpts, hpos, hleq, if_true, if_false]
      simp [hmax]
  · intro hs
    have hn : g.nodesForEqual = g.nodes := by
      unfold Group.nodesForEqual
      rcases hs with h | h
      · cases hg : g.genesisSeed with
        | none => exact absurd hg h
        | some s => simp
      · split <;> simp [h]
    have hc : (g.canonProto L).nodesForEqual = (g.canonProto L).nodes := by simp [Group.nodesForEqual, Group.canonProto]
    unfold Group.equal
    rw [hn, hc]
    simp only [Group.canonProto, compareBeaconIDs_canon, Group.seed, List.length_map, beq_self_eq_true, Bool.and_true,
      Bool.true_and]
    generalize g.nodes = l
    induction l with
    | nil => rfl
    | cons a t ih => simp [nodesEqual, Node.equal, Identity.equal, ih]
  · unfold groupToks
    have hp : (g.canonProto L).params = { g.params with id := canonId g.id } := by
      simp [Group.canonProto, Group.params]
    rw [hp]
    simp only [idPart_canon]
    rfl

/-! ### decoding rejects out-of-range thresholds and unknown schemes -/

/-- the range the property speaks of: `n/2+1 ≤ thr ≤ n` -/
def thresholdInRange (thr : Int) (n : Nat) : Prop := (Gen.minimumT n : Int) ≤ thr ∧ thr ≤ (n : Int)

/-- TOML path (group file, DKG record): every mirror whose threshold is out of range for its node list is rejected -/
theorem c20_reject_threshold_toml (L : Leaf) (gt : GroupTOML) (h : ¬ thresholdInRange gt.threshold gt.nodes.length) :
    ∃ e, Group.fromTOML L gt = .error e := by
  unfold Group.fromTOML
  cases getSchemeByID gt.schemeID with
  | error e => exact ⟨e, rfl⟩
  | ok sch =>
    simp only
    cases hm : mapE (Node.fromTOML L) gt.nodes with
    | error e => exact ⟨e, rfl⟩
    | ok nodes =>
      simp only
      have hl := mapE_length _ _ _ hm
      by_cases h1 : gt.threshold < (Gen.minimumT gt.nodes.length : Nat)
      · exact ⟨.thresholdLow, by simp [h1]⟩
      · by_cases h2 : gt.threshold > (nodes.length : Nat)
        · exact ⟨.thresholdHigh, by simp [h1, h2]⟩
        · exfalso
          apply h
          unfold thresholdInRange
          rw [hl] at h2
          omega

/-- Full statement, protobuf path — proved for the corrected variant (`strict = true`):
every packet whose threshold is out of range for its node list is rejected. -/
theorem c20_reject_threshold_proto (L : Leaf) (p : GroupPacket) (target : Option String)
    (h : ¬ thresholdInRange p.threshold p.nodes.length) :
    ∃ e, Group.fromProto true L p target = .error e := by
  unfold Group.fromProto
  cases schemeFromName p.schemeID with
  | error e => exact ⟨e, rfl⟩
  | ok sch =>
    simp only
    by_cases ht : targetMismatch target sch = true
    · exact ⟨.schemeMismatch, by simp [ht]⟩
    · simp only [ht]
      cases hm : mapE (nodeFromProto L sch) p.nodes with
      | error e => exact ⟨e, rfl⟩
      | ok nodes =>
        simp only
        have hl := mapE_length _ _ _ hm
        by_cases h1 : p.threshold < Gen.minimumT nodes.length
        · exact ⟨.thresholdLow, by simp [h1]⟩
        · by_cases h2 : p.threshold > nodes.length
          · exact ⟨.thresholdHigh, by simp [h1, h2]⟩
          · exfalso
            apply h
            unfold thresholdInRange
            rw [hl] at h1 h2
            omega

/-- The code as it is (`strict = false`) only satisfies the statement above for packets that carry at least one
node: that is the hypothesis the proof forces. -/
theorem c20_reject_threshold_proto_partial (L : Leaf) (p : GroupPacket) (target : Option String)
    (hne : p.nodes ≠ []) (h : ¬ thresholdInRange p.threshold p.nodes.length) :
    ∃ e, Group.fromProto false L p target = .error e := by
  unfold Group.fromProto
  cases schemeFromName p.schemeID with
  | error e => exact ⟨e, rfl⟩
  | ok sch =>
    simp only
    by_cases ht : targetMismatch target sch = true
    · exact ⟨.schemeMismatch, by simp [ht]⟩
    · simp only [ht]
      cases hm : mapE (nodeFromProto L sch) p.nodes with
      | error e => exact ⟨e, rfl⟩
      | ok nodes =>
        simp only
        have hl := mapE_length _ _ _ hm
        have hpos : nodes.length > 0 := by
          rw [hl]; exact List.length_pos_iff.2 hne
        by_cases h1 : p.threshold < Gen.minimumT nodes.length
        · exact ⟨.thresholdLow, by simp [h1]⟩
        · by_cases h2 : p.threshold > nodes.length
          · exact ⟨.thresholdHigh, by simp [h1, h2, hpos]⟩
          · exfalso
            apply h
            unfold thresholdInRange
            rw [hl] at h1 h2
            omega

/-- a permissive leaf for concrete witnesses -/
def Leaf.permissive : Leaf :=
  { hexEnc := fun _ => "", hexDec := fun _ => some [], durEnc := fun _ => "", durDec := fun _ => some 0,
    pointOk := fun _ _ => true, scalarOk := fun _ _ => true, addrOk := fun _ => true,
    gHash := fun _ => [0], cHash := fun _ => [0] }

/-- the witness: no nodes, threshold 1 (out of range: the range for n = 0 is empty), otherwise sane -/
def emptyNodesPacket : GroupPacket :=
  { nodes := [], threshold := 1, period := 30, genesisTime := 1700000000, transitionTime := 0, genesisSeed := [],
    distKey := [], catchupPeriod := 0, schemeID := "pedersen-bls-chained", beaconID := [] }

/-- Counterexample to the full statement for the code as it is: a node-less packet with threshold 1 is out of
range and accepted (any threshold ≥ 1 is). Replayed on the real `GroupFromProto` by the check
(known finding `group-proto:threshold-above-n:empty-node-list`). -/
theorem c20_reject_threshold_proto_counterexample :
    ¬ thresholdInRange emptyNodesPacket.threshold emptyNodesPacket.nodes.length ∧
    ∃ g, Group.fromProto false Leaf.permissive emptyNodesPacket none = .ok g ∧ g.threshold = 1 ∧ g.nodes = [] := by
  refine ⟨by unfold thresholdInRange; decide, ?_⟩
  refine ⟨{ threshold := 1, period := 30000000000, scheme := "pedersen-bls-chained", id := [], catchup := 0, nodes := [],
            genesisTime := 1700000000, genesisSeed := none, transitionTime := 0, publicKey := none }, ?_, rfl, rfl⟩
  simp [Group.fromProto, emptyNodesPacket, schemeFromName, Gen.schemeNames, targetMismatch, mapE, Gen.minimumT, i64OfU64]

/-- an unknown scheme name is rejected on the TOML path (the empty name means the default scheme there) -/
theorem c20_reject_scheme_toml (L : Leaf) (gt : GroupTOML) (h0 : gt.schemeID ≠ "") (h : gt.schemeID ∉ Gen.schemeNames) :
    Group.fromTOML L gt = .error .badScheme := by
  simp [Group.fromTOML, getSchemeByID, schemeFromName, h0, h]

/-- an unknown scheme name (including the empty one) is rejected on the protobuf path, in both variants -/
theorem c20_reject_scheme_proto (strict : Bool) (L : Leaf) (p : GroupPacket) (target : Option String)
    (h : p.schemeID ∉ Gen.schemeNames) : Group.fromProto strict L p target = .error .badScheme := by
  simp [Group.fromProto, schemeFromName, h]

/-! ### Share, key pair -/

/-- a private share file written by `Share.TOML` reads back as the same share -/
theorem c20_share (L : Leaf) (ok : LeafOK L) (s : Share) (wf : s.WF L) :
    Share.fromTOML L (s.toTOML L) = .ok s := by
  have hc : mapE (decPoint L s.scheme) (s.commits.map L.hexEnc) = .ok (s.commits.map id) :=
    mapE_map _ _ _ _ (fun c hc => decPoint_enc ok (wf.commits c hc))
  simp [Share.fromTOML, Share.toTOML, getSchemeByID_known wf.scheme, hc, decScalar_enc ok wf.share]

/-- `Pair.FromTOML (p.TOML())` alone returns only the private scalar and the scheme; the key pair is persisted as
two files (`SaveKeyPair`) and `LoadKeyPair` of both gives the pair back -/
theorem c20_pair (L : Leaf) (ok : LeafOK L) (p : Pair) (wf : p.WF L) :
    loadKeyPair L (saveKeyPair L p) = .ok p := by
  obtain ⟨s, hs, hk, hp, hsc⟩ := wf.pub
  obtain ⟨key, pub⟩ := p
  obtain ⟨pk, addr, sig, scheme⟩ := pub
  simp only at hs hp hsc
  subst hs
  simp only [loadKeyPair, saveKeyPair, Pair.fromTOML, Pair.toTOML, Option.getD_some, getSchemeByID_known hk,
    decScalar_enc ok hsc, Identity.fromTOML, Identity.toTOML, decPoint_enc ok hp, Identity.zero]
  by_cases he : L.hexEnc sig = ""
  · have : sig = [] := by
      by_cases h0 : sig = []
      · exact h0
      · exact absurd he (ok.hex_nonempty _ h0)
    subst this
    simp [he]
  · simp [he, ok.hex_rt]

/-! ### chain.Info -/

private theorem secondsU64_whole (k : Nat) (h : k < 4294967296) : secondsU64 ((k : Int) * 1000000000) = k := by
  unfold secondsU64 u64OfInt
  rw [Int.mul_ediv_cancel _ (by decide : (1000000000 : Int) ≠ 0), Int.emod_eq_of_lt (by omega) (by omega)]
  simp

/-- chain info served as JSON (`MarshalJSON`) and read by `UnmarshalJSON` is the same info (so `Equal`, same hash) -/
theorem c20_info_json (L : Leaf) (ok : LeafOK L) (i : Info) (wf : i.WF L) :
    Info.unmarshalJSON L (jsonWire (i.marshalJSON L)) = .ok i ∧ i.equal i = true := by
  obtain ⟨k, hk, hper⟩ := wf.period
  have hw : wrapI64 ((k : Int) * 1000000000) = (k : Int) * 1000000000 := i64_u64 _ (by omega)
  refine ⟨?_, by simp [Info.equal, compareBeaconIDs]⟩
  obtain ⟨pk, id, period, scheme, gt, seed⟩ := i
  simp only at hper
  subst hper
  have hne : scheme ≠ "" := fun e => empty_not_scheme (e ▸ wf.scheme)
  simp only [Info.unmarshalJSON, jsonWire, Info.marshalJSON, ok.hex_rt, secondsU64_whole k hk, hw]
  simp [hne, getSchemeByID_known wf.scheme, wf.key]

/-- chain info sent as a `ChainInfoPacket` and read by `InfoFromProto` is the same info -/
theorem c20_info_proto (L : Leaf) (i : Info) (wf : i.WF L) :
    infoFromProto L (i.toProto L) = .ok i ∧ i.equal i = true := by
  obtain ⟨k, hk, hper⟩ := wf.period
  refine ⟨?_, by simp [Info.equal, compareBeaconIDs]⟩
  obtain ⟨pk, id, period, scheme, gt, seed⟩ := i
  simp only at hper
  subst hper
  simp [infoFromProto, Info.toProto, getSchemeByID_known wf.scheme, wf.key, secondsU32_whole k hk]

/-- the asymmetry the scheme hypothesis of `c20_info_proto` excludes: an info whose scheme name is empty (as read
from a legacy JSON document) comes back from the protobuf path with the default scheme's name, and `Info.Equal`
compares names literally -/
theorem c20_info_proto_empty_scheme (L : Leaf) (i : Info) (hs : i.scheme = "")
    (hk : L.pointOk Gen.defaultSchemeID i.publicKey = true) :
    ∃ i', infoFromProto L (i.toProto L) = .ok i' ∧ i'.scheme = Gen.defaultSchemeID ∧ i.equal i' = false := by
  refine ⟨{ i with scheme := Gen.defaultSchemeID, period := (secondsU32 i.period : Int) * 1000000000 }, ?_, rfl, ?_⟩
  · simp [infoFromProto, Info.toProto, hs, getSchemeByID_empty, hk]
  · have : ("" == Gen.defaultSchemeID) = false := by decide
    simp [Info.equal, hs, this]

/-! ### Beacon -/

/-- a beacon stored / served as JSON reads back as the same beacon (absent previous signature = empty) -/
theorem c20_beacon_json (L : Leaf) (ok : LeafOK L) (b : Beacon) :
    beaconFromJSON L (beaconToJSON L b) = .ok b := by
  obtain ⟨r, s, p⟩ := b
  by_cases hp : p = []
  · subst hp; simp [beaconFromJSON, beaconToJSON, ok.hex_rt]
  · simp [beaconFromJSON, beaconToJSON, ok.hex_rt, hp]

/-- a beacon sent as a `BeaconPacket` is the same beacon, whatever the beacon id on the packet -/
theorem c20_beacon_proto (b : Beacon) (id : Bytes) : protoToBeacon (beaconToProto b id) = b := rfl

/-! ### DBState -/

private theorem optE_map {α β γ : Type} (f : β → Dec γ) (g : α → β) (h : α → γ) (o : Option α)
    (hh : ∀ a, o = some a → f (g a) = .ok (h a)) : optE f (o.map g) = .ok (o.map h) := by
  cases o with
  | none => rfl
  | some a => simp [optE, hh a rfl]

/-- Full statement for the DKG database record: `DBStateTOML.FromTOML (d.TOML())` succeeds and the result is, field
for field, the original with the genesis time in UTC and the final group as it comes back from the group TOML path
(`c20_group_toml`: id canonical, seed materialised, same hash). `DBState.Equals` (a test helper) agrees whenever it
can: no key share (see `c20_dbstate_equals_share_counterexample`) and a final group on which `Group.Equal` is pure. -/
theorem c20_dbstate (L : Leaf) (ok : LeafOK L) (d : DBState) (wf : d.WF L) :
    DBStateTOML.fromTOML L (d.toTOML L) = .ok (d.canon L) ∧
    (d.keyShare = none → (∀ g, d.finalGroup = some g → g.genesisSeed ≠ none ∨ sortByIndex g.nodes = g.nodes) →
      DBState.equals L d (d.canon L) = true) := by
  refine ⟨?_, ?_⟩
  · have hs : optE (Share.fromTOML L) (d.keyShare.map (Share.toTOML L)) = .ok (d.keyShare.map id) :=
      optE_map _ _ _ _ (fun s hs => c20_share L ok s (wf.share s hs))
    have hg : optE (finalGroupFromTOML L d.schemeID) (d.finalGroup.map (Group.toTOML L)) =
        .ok (d.finalGroup.map (Group.canonTOML L)) :=
      optE_map _ _ _ _ (fun g hg => by
        obtain ⟨hw, hsch⟩ := wf.group g hg
        have : ∃ s, getSchemeByID d.schemeID = .ok s := by
          rcases hsch with h | h
          · exact ⟨Gen.defaultSchemeID, by rw [h]; exact getSchemeByID_empty⟩
          · exact ⟨_, getSchemeByID_known h⟩
        obtain ⟨s, hs⟩ := this
        simp [finalGroupFromTOML, hs, (c20_group_toml L ok g hw).1])
    simp [DBStateTOML.fromTOML, DBState.toTOML, hs, hg, DBState.canon, GoTime.utc]
  · intro hks hgs
    have hgr : (match d.finalGroup, d.finalGroup.map (Group.canonTOML L) with
               | none, none => true
               | some g, some g2 => g.equal L g2
               | _, _ => false) = true := by
      cases hg : d.finalGroup with
      | none => rfl
      | some g => simpa using (c20_group_toml L ok g (wf.group g hg).1).2.1 (hgs g hg)
    simp only [DBState.equals, DBState.canon, GoTime.utc, GoTime.unix, beq_self_eq_true, Bool.and_true, Bool.true_and,
      hks, Option.isNone_none]
    exact hgr

/-- `DBState.Equals` can never hold between a state with a key share and its reloaded copy (reflect.DeepEqual over
`*crypto.Scheme`); the reloaded state is nevertheless the field-exact `canon` of `c20_dbstate`. -/
theorem c20_dbstate_equals_share_counterexample (L : Leaf) (d : DBState) (h : d.keyShare ≠ none) :
    DBState.equals L d (d.canon L) = false := by
  cases hk : d.keyShare with
  | none => exact absurd hk h
  | some s => simp [DBState.equals, hk]

/-! ### regenerated facts: every field of every mirror is carried (the hand-maintained-mirror hazard) -/

/-- For every (type, mirror, to, from) conversion pair regenerated from the source: every field of the type is read by
the to-function, every field of the mirror is written by it, every field of the mirror is read by the from-function
and every field of the type is written by it — except the commented `coverageExemptions`. -/
theorem c20_fields_covered : Gen.mirrors.all (Mirror.covered coverageExemptions) = true := by decide

/-- no stale exemption: each one names a field that exists and really is not touched -/
theorem c20_exemptions_needed : coverageExemptions.all (exemptionNeeded Gen.mirrors) = true := by decide

/-- the pairs analysed are the ones listed, and their struct field lists are the ones the Lean model has -/
theorem tie_mirror_fields :
    Gen.mirrors.map (fun m => (m.name, m.typeFields, m.mirrorFieldsFrom)) = modelFields := by decide

/-- named mirrors have one field list; the JSON mirror's decode side has every encode-side entry under the same tag -/
theorem c20_info_json_tags :
    (Gen.mInfo_JSON.mirrorFieldsTo.zip Gen.mInfo_JSON_toTags).all
      (fun ft => (Gen.mInfo_JSON.mirrorFieldsFrom.zip Gen.mInfo_JSON_fromTags).contains ft) = true ∧
    (Gen.mirrors.all fun m => m.name == "Info/JSON" || m.mirrorFieldsTo == m.mirrorFieldsFrom) = true := by decide

theorem tie_beacon_json : Gen.beaconFields = ["PreviousSig", "Round", "Signature"] ∧ Gen.beaconJsonTags = beaconJsonTags := by
  decide

theorem tie_guards :
    Gen.groupFromTOMLGuards = groupFromTOMLGuards ∧ Gen.groupFromProtoGuards = groupFromProtoGuards ∧
    Gen.identityFromProtoGuards = identityFromProtoGuards ∧ Gen.infoUnmarshalJSONGuards = infoUnmarshalJSONGuards ∧
    Gen.dbStateFromTOMLGuards = dbStateFromTOMLGuards := by decide

theorem tie_minimumT (n : Nat) : Gen.minimumT n = n / 2 + 1 := minimumT_eq n

theorem tie_schemes : Gen.defaultSchemeID ∈ Gen.schemeNames ∧ "" ∉ Gen.schemeNames ∧ Gen.schemeNames.length = 5 := by decide

/-! ### the demo leaf satisfies `LeafOK` (the hypotheses are satisfiable; hex is the real encoding) -/

private theorem hexVal_hexDigit : ∀ n : Fin 16, hexVal (hexDigit n.val) = some n.val := by decide

private theorem byte_split (x : UInt8) : UInt8.ofNat (x.toNat / 16 * 16 + x.toNat % 16) = x := by
  have : x.toNat / 16 * 16 + x.toNat % 16 = x.toNat := by omega
  rw [this]; simp

private theorem fromHexAux_enc (b : Bytes) :
    fromHexAux (b.flatMap fun x => [hexDigit (x.toNat / 16), hexDigit (x.toNat % 16)]) = some b := by
  induction b with
  | nil => rfl
  | cons x t ih =>
    have h1 := hexVal_hexDigit ⟨x.toNat / 16, by have := x.toNat_lt; omega⟩
    have h2 := hexVal_hexDigit ⟨x.toNat % 16, by omega⟩
    simp only at h1 h2
    simp only [List.flatMap_cons, List.cons_append, List.nil_append, fromHexAux, h1, h2, ih, byte_split]

/-- lower-case hex decodes to what was encoded -/
theorem c20_hex_roundtrip (b : Bytes) : hexDecC (hexEncC b) = some b := by
  simp [hexDecC, hexEncC, fromHexAux_enc]

theorem c20_leaf_demo_ok : LeafOK Leaf.demo where
  hex_rt := c20_hex_roundtrip
  hex_nonempty := by
    intro b h e
    have := congrArg String.toList e
    cases b with
    | nil => exact h rfl
    | cons x t => simp [Leaf.demo, hexEncC] at this
  dur_rt := by
    intro d
    by_cases h : 0 ≤ d
    · simp [Leaf.demo, durEncU, durDecU, h, Int.toNat_of_nonneg h]
    · have h' : 0 ≤ -d := by omega
      simp [Leaf.demo, durEncU, durDecU, h, Int.toNat_of_nonneg h']
  dur_nonempty := by
    intro d e
    have := congrArg String.toList e
    by_cases h : 0 ≤ d <;> simp [Leaf.demo, durEncU, h] at this
  ghash_nonempty := by intro p; simp [Leaf.demo]

/-! ### non-vacuity: the hypotheses hold on concrete, non-trivial values (demo leaf) -/

def sch0 : String := "pedersen-bls-unchained"
def demoIdent (k : UInt8) : Identity := ⟨[k, k + 1], "127.0.0.1:8080", [9, k], some sch0⟩
/-- 3 nodes with sparse, unsorted indices, threshold 2, no stored seed, empty id, a distributed key -/
def demoGroup : Group :=
  { threshold := 2, period := 30000000000, scheme := sch0, id := [], catchup := 5000000000,
    nodes := [⟨demoIdent 1, 7⟩, ⟨demoIdent 3, 0⟩, ⟨demoIdent 5, 2⟩], genesisTime := 1700000000, genesisSeed := none,
    transitionTime := 1700000500, publicKey := some [[5, 6], [7, 8]] }

private theorem demoGroup_wfTOML : demoGroup.WFTOML Leaf.demo where
  scheme := by decide
  nodes := by
    intro n hn
    simp only [demoGroup, List.mem_cons, List.not_mem_nil, or_false] at hn
    rcases hn with rfl | rfl | rfl <;> exact ⟨sch0, rfl, by decide, by decide⟩
  thrLow := by decide
  thrHigh := by decide
  coeffs := by
    intro cs h c hc
    simp only [demoGroup, Option.some.injEq] at h
    subst h
    simp only [List.mem_cons, List.not_mem_nil, or_false] at hc
    rcases hc with rfl | rfl <;> decide
  seed := by decide

private theorem demoGroup_wfProto : demoGroup.WFProto Leaf.demo where
  scheme := by decide
  nodes := by
    intro n hn
    simp only [demoGroup, List.mem_cons, List.not_mem_nil, or_false] at hn
    rcases hn with rfl | rfl | rfl <;> exact ⟨by decide, by decide⟩
  thrLow := by decide
  thrHigh := by decide
  nodesFit := by decide
  period := ⟨30, by decide, by decide, by decide⟩
  catchup := ⟨5, by decide, by decide⟩
  genesisNZ := by decide
  genesis64 := by decide
  transition64 := by decide
  coeffs := by
    intro cs h
    simp only [demoGroup, Option.some.injEq] at h
    subst h
    refine ⟨by decide, ?_⟩
    intro c hc
    simp only [List.mem_cons, List.not_mem_nil, or_false] at hc
    rcases hc with rfl | rfl <;> decide
  seed := by decide

example : Group.fromTOML Leaf.demo (demoGroup.toTOML Leaf.demo) = .ok (demoGroup.canonTOML Leaf.demo) :=
  (c20_group_toml _ c20_leaf_demo_ok _ demoGroup_wfTOML).1
-- the result is not literally the original: the seed was materialised and the id canonicalised
example : (demoGroup.canonTOML Leaf.demo).genesisSeed = some [2, 7] ∧ (demoGroup.canonTOML Leaf.demo).id = defaultId ∧
    demoGroup.canonTOML Leaf.demo ≠ demoGroup := by decide
example : Group.fromProto false Leaf.demo (demoGroup.toProto Leaf.demo) (some sch0) = .ok (demoGroup.canonProto Leaf.demo) :=
  (c20_group_proto false _ c20_leaf_demo_ok _ demoGroup_wfProto _ (Or.inr rfl)).1
example : (demoIdent 1).WF Leaf.demo := ⟨sch0, rfl, by decide, by decide⟩
example : Identity.fromTOML Leaf.demo Identity.zero ((demoIdent 1).toTOML Leaf.demo) = .ok (demoIdent 1) :=
  (c20_identity _ c20_leaf_demo_ok _ ⟨sch0, rfl, by decide, by decide⟩).1

/-- `Group.Equal` is not pure: on a group without a stored seed it sorts the receiver's node list (via `Hash`) before
comparing positionally. The demo group (no seed, indices 7,0,2 in that order) round-trips to a group with the very
same node list, and `Equal` says false. -/
theorem c20_group_equal_impure_counterexample :
    (demoGroup.canonTOML Leaf.demo).nodes = demoGroup.nodes ∧ demoGroup.genesisSeed = none ∧
    sortByIndex demoGroup.nodes ≠ demoGroup.nodes ∧ Group.equal Leaf.demo demoGroup (demoGroup.canonTOML Leaf.demo) = false := by
  refine ⟨rfl, rfl, by decide, ?_⟩
  have : nodesEqual demoGroup.nodesForEqual (demoGroup.canonTOML Leaf.demo).nodesForEqual = false := by decide
  simp [Group.equal, this]

-- rejection: 3 nodes, threshold 4 / 1 are out of range; an unknown scheme
example : ¬ thresholdInRange 4 ((demoGroup.toTOML Leaf.demo).nodes.length) := by unfold thresholdInRange; decide
example : ¬ thresholdInRange 1 ((demoGroup.toProto Leaf.demo).nodes.length) := by unfold thresholdInRange; decide
example : ∃ e, Group.fromTOML Leaf.demo { demoGroup.toTOML Leaf.demo with threshold := 4 } = .error e :=
  c20_reject_threshold_toml _ _ (by unfold thresholdInRange; decide)
example : ∃ e, Group.fromProto false Leaf.demo { demoGroup.toProto Leaf.demo with threshold := 10 } none = .error e :=
  c20_reject_threshold_proto_partial _ _ _ (by decide) (by unfold thresholdInRange; decide)
example : Group.fromTOML Leaf.demo { demoGroup.toTOML Leaf.demo with schemeID := "bls-unknown" } = .error .badScheme :=
  c20_reject_scheme_toml _ _ (by decide) (by decide)
example : Group.fromProto false Leaf.demo { demoGroup.toProto Leaf.demo with schemeID := "" } none = .error .badScheme :=
  c20_reject_scheme_proto _ _ _ _ (by decide)

private def demoShare : Share := { commits := [[5, 6], [7, 8]], shareI := 3, shareV := [42], scheme := sch0 }
private theorem demoShare_wf : demoShare.WF Leaf.demo where
  scheme := by decide
  commits := by
    intro c hc
    simp only [demoShare, List.mem_cons, List.not_mem_nil, or_false] at hc
    rcases hc with rfl | rfl <;> decide
  share := by decide
example : Share.fromTOML Leaf.demo (demoShare.toTOML Leaf.demo) = .ok demoShare := c20_share _ c20_leaf_demo_ok _ demoShare_wf

private def demoPair : Pair := ⟨[77], demoIdent 1⟩
example : loadKeyPair Leaf.demo (saveKeyPair Leaf.demo demoPair) = .ok demoPair :=
  c20_pair _ c20_leaf_demo_ok _ ⟨⟨sch0, rfl, by decide, by decide, by decide⟩⟩
-- the private file alone does not carry the public part
example : ∃ p, Pair.fromTOML Leaf.demo (demoPair.toTOML Leaf.demo) = .ok p ∧ p ≠ demoPair :=
  ⟨⟨[77], { Identity.zero with scheme := some sch0 }⟩, by
    simp [Pair.fromTOML, Pair.toTOML, demoPair, demoIdent, getSchemeByID_known (by decide : sch0 ∈ Gen.schemeNames),
      decScalar, Leaf.demo, c20_hex_roundtrip], by decide⟩

private def demoInfo : Info :=
  { publicKey := [5, 6], id := [99, 104], period := 3000000000, scheme := sch0, genesisTime := 1700000000, genesisSeed := [2, 7] }
private theorem demoInfo_wf : demoInfo.WF Leaf.demo := ⟨by decide, by decide, ⟨3, by decide, by decide⟩⟩
example : Info.unmarshalJSON Leaf.demo (jsonWire (demoInfo.marshalJSON Leaf.demo)) = .ok demoInfo :=
  (c20_info_json _ c20_leaf_demo_ok _ demoInfo_wf).1
example : infoFromProto Leaf.demo (demoInfo.toProto Leaf.demo) = .ok demoInfo := (c20_info_proto _ _ demoInfo_wf).1
example : beaconFromJSON Leaf.demo (beaconToJSON Leaf.demo ⟨5, [1, 2], []⟩) = .ok ⟨5, [1, 2], []⟩ :=
  c20_beacon_json _ c20_leaf_demo_ok _

private def demoState : DBState :=
  { beaconID := [100], epoch := 2, state := 7, threshold := 2, timeout := ⟨1700000000123456789, 7200⟩, schemeID := sch0,
    genesisTime := ⟨1700000000000000000, 3600⟩, genesisSeed := [2, 7], catchupPeriod := 5000000000,
    beaconPeriod := 30000000000, leader := some ⟨"a:1", [1], [2]⟩, remaining := [⟨"a:1", [1], [2]⟩], joining := [⟨"b:1", [3], []⟩],
    leaving := [], acceptors := [⟨"a:1", [1], [2]⟩], rejectors := [], finalGroup := some demoGroup, keyShare := some demoShare }
private theorem demoState_wf : demoState.WF Leaf.demo where
  share := by intro s h; simp only [demoState, Option.some.injEq] at h; subst h; exact demoShare_wf
  group := by
    intro g h; simp only [demoState, Option.some.injEq] at h; subst h
    exact ⟨demoGroup_wfTOML, Or.inr (by decide)⟩
example : DBStateTOML.fromTOML Leaf.demo (demoState.toTOML Leaf.demo) = .ok (demoState.canon Leaf.demo) :=
  (c20_dbstate _ c20_leaf_demo_ok _ demoState_wf).1
example : (demoState.canon Leaf.demo).genesisTime = ⟨1700000000000000000, 0⟩ := rfl

-- coverage: a conversion that forgets a field is NOT covered (the theorem is not vacuous)
example : Mirror.covered coverageExemptions
    { Gen.mDBState_TOML with toReads := Gen.mDBState_TOML.toReads.erase "CatchupPeriod" } = false := by decide

end Drand.Codec
