/-
C20 — persisted and transmitted state round-trips without loss.
Model: Drand/Codec/Mirror.lean (conversions mirrored from the Go bodies; leaves abstract in `Leaf`, their
round-trip facts explicit in `LeafOK`). Regenerated facts: Gen/Mirrors.lean.
-/
import Drand.Codec.Mirror

namespace Drand.Codec
open Drand

/-! ### helpers -/

private theorem empty_not_scheme : "" ∉ Gen.schemeNames := by decide

private theorem getSchemeByID_known {s : String} (h : s ∈ Gen.schemeNames) : getSchemeByID s = .ok s := by
  have hne : s ≠ "" := fun e => empty_not_scheme (e ▸ h)
  simp [getSchemeByID, schemeFromName, hne, h]

private theorem schemeFromName_known {s : String} (h : s ∈ Gen.schemeNames) : schemeFromName s = .ok s := by
  simp [schemeFromName, h]

private theorem decPoint_enc {L : Leaf} (ok : LeafOK L) {sch : String} {b : Bytes} (h : L.pointOk sch b = true) :
    decPoint L sch (L.hexEnc b) = .ok b := by
  simp [decPoint, ok.hex_rt, h]

private theorem decScalar_enc {L : Leaf} (ok : LeafOK L) {sch : String} {b : Bytes} (h : L.scalarOk sch b = true) :
    decScalar L sch (L.hexEnc b) = .ok b := by
  simp [decScalar, ok.hex_rt, h]

private theorem mapE_map {α β γ : Type} (f : β → Dec γ) (g : α → β) (h : α → γ) (l : List α)
    (hh : ∀ a ∈ l, f (g a) = .ok (h a)) : mapE f (l.map g) = .ok (l.map h) := by
  induction l with
  | nil => rfl
  | cons a t ih =>
    have h1 := hh a List.mem_cons_self
    have h2 := ih (fun x hx => hh x (List.mem_cons_of_mem _ hx))
    simp [mapE, h1, h2]

private theorem mapE_length {α β : Type} (f : α → Dec β) (l : List α) (r : List β) (h : mapE f l = .ok r) :
    r.length = l.length := by
  induction l generalizing r with
  | nil => simp [mapE] at h; subst h; rfl
  | cons a t ih =>
    unfold mapE at h
    split at h
    · cases h
    · split at h
      · cases h
      · rename_i bs hbs
        cases h
        simp [ih _ hbs]

/-! ### Identity, Node -/

/-- an identity file written by `Identity.TOML` reads back as the same identity -/
theorem c20_identity (L : Leaf) (ok : LeafOK L) (i : Identity) (wf : i.WF L) :
    Identity.fromTOML L Identity.zero (i.toTOML L) = .ok i ∧ i.equal i = true := by
  obtain ⟨s, hs, hk, hp⟩ := wf
  obtain ⟨key, addr, sig, scheme⟩ := i
  simp only at hs hp
  subst hs
  refine ⟨?_, by simp [Identity.equal]⟩
  simp only [Identity.fromTOML, Identity.toTOML, getSchemeByID_known hk, decPoint_enc ok hp]
  by_cases he : L.hexEnc sig = ""
  · have : sig = [] := by
      by_cases h0 : sig = []
      · exact h0
      · exact absurd he (ok.hex_nonempty _ h0)
    subst this
    simp [he, Identity.zero]
  · simp [he, ok.hex_rt]

private theorem node_rt (L : Leaf) (ok : LeafOK L) (n : Node) (wf : n.ident.WF L) :
    Node.fromTOML L (n.toTOML L) = .ok n := by
  simp [Node.fromTOML, Node.toTOML, (c20_identity L ok n.ident wf).1]

/-! ### Group: TOML path (group file, DKG database record) -/

private theorem idPart_canon (id : Bytes) : idPart (canonId id) = idPart id := by
  have hd : isDefaultId defaultId = true := by decide
  unfold idPart canonId
  by_cases h : isDefaultId id = true
  · simp [h, hd]
  · simp [h]

private theorem compareBeaconIDs_canon (id : Bytes) : compareBeaconIDs id (canonId id) = true := by
  have hd : isDefaultId defaultId = true := by decide
  unfold compareBeaconIDs canonId
  by_cases h : isDefaultId id = true
  · simp [h, hd]
  · simp [h]

private theorem nodesEqual_refl (l : List Node) : nodesEqual l l = true := by
  induction l with
  | nil => rfl
  | cons a t ih => simp [nodesEqual, ih, Node.equal, Identity.equal]

private theorem seed_ne_nil (L : Leaf) (ok : LeafOK L) (g : Group) (h : g.genesisSeed ≠ some []) : g.seed L ≠ [] := by
  unfold Group.seed
  cases hs : g.genesisSeed with
  | none => simpa using ok.ghash_nonempty _
  | some s =>
    simp only
    intro e
    exact h (by rw [hs, e])

/-- Full statement, TOML path: a group written by `Group.TOML` (group file, `FinalGroup` of a DKG record) reads
back through `Group.FromTOML` as a group that is `Equal` to the original and has the same hash preimage; the
result is given explicitly: only the id is canonicalised and the genesis seed materialised. -/
theorem c20_group_toml (L : Leaf) (ok : LeafOK L) (g : Group) (wf : g.WFTOML L) :
    Group.fromTOML L (g.toTOML L) = .ok (g.canonTOML L) ∧
    Group.equal L g (g.canonTOML L) = true ∧
    groupToks (g.canonTOML L).params = groupToks g.params := by
  refine ⟨?_, ?_, ?_⟩
  · have hn : mapE (Node.fromTOML L) (g.nodes.map (Node.toTOML L)) = .ok (g.nodes.map id) :=
      mapE_map _ _ _ _ (fun n hn => node_rt L ok n (wf.nodes n hn))
    have hpk : optE (distPublicFromTOML L g.scheme) (g.publicKey.map (distPublicToTOML L)) = .ok g.publicKey := by
      cases hp : g.publicKey with
      | none => rfl
      | some cs =>
        have : distPublicFromTOML L g.scheme (distPublicToTOML L cs) = .ok (cs.map id) :=
          mapE_map _ _ _ _ (fun c hc => decPoint_enc ok (wf.coeffs cs hp c hc))
        simp [optE, this]
    have hseed : L.hexEnc (g.seed L) ≠ "" := ok.hex_nonempty _ (seed_ne_nil L ok g wf.seed)
    have h1 : ¬ g.threshold < (Gen.minimumT g.nodes.length : Nat) := Int.not_lt.2 wf.thrLow
    have h2 : ¬ g.threshold > (g.nodes.length : Nat) := Int.not_lt.2 wf.thrHigh
    simp only [Group.fromTOML, Group.toTOML, getSchemeByID_known wf.scheme, hn, List.length_map, List.map_id, h1, h2,
      if_false, hpk, ok.dur_rt, ok.dur_nonempty, hseed, ok.hex_rt, ne_eq, not_false_eq_true, if_true, Option.map_some,
      Group.canonTOML]
    by_cases ht : g.transitionTime = 0 <;> simp [ht]
  · simp [Group.equal, Group.canonTOML, compareBeaconIDs_canon, nodesEqual_refl, Group.seed]
  · unfold groupToks
    rw [show (g.canonTOML L).params = { g.params with id := canonId g.id } from rfl]
    simp only [idPart_canon]
    rfl

/-! ### Group: protobuf path -/

private theorem minimumT_eq (n : Nat) : Gen.minimumT n = n / 2 + 1 := by
  simp [Gen.minimumT, Nat.shiftRight_eq_div_pow]

private theorem i64_u64 (x : Int) (h : -9223372036854775808 ≤ x ∧ x < 9223372036854775808) :
    i64OfU64 (u64OfInt x) = x := by
  unfold i64OfU64 u64OfInt
  by_cases hx : 0 ≤ x
  · have : x % 18446744073709551616 = x := Int.emod_eq_of_lt hx (by omega)
    rw [this]
    have h2 : (x.toNat : Int) = x := Int.toNat_of_nonneg hx
    split <;> omega
  · have : x % 18446744073709551616 = x + 18446744073709551616 := by
      rw [← Int.add_mul_emod_self_left x 18446744073709551616 1]
      exact Int.emod_eq_of_lt (by omega) (by omega)
    rw [this]
    have h2 : ((x + 18446744073709551616).toNat : Int) = x + 18446744073709551616 := Int.toNat_of_nonneg (by omega)
    split <;> omega

private theorem u32_small (x : Int) (h0 : 0 ≤ x) (h1 : x < 4294967296) : u32 x = x.toNat := by
  unfold u32
  rw [Int.emod_eq_of_lt h0 h1]

private theorem secondsU32_whole (k : Nat) (h : k < 4294967296) : secondsU32 ((k : Int) * 1000000000) = k := by
  unfold secondsU32
  rw [Int.mul_ediv_cancel _ (by decide : (1000000000 : Int) ≠ 0), u32_small _ (by omega) (by omega)]
  simp

private theorem mapE_points (L : Leaf) (sch : String) (cs : List Bytes) (h : ∀ c ∈ cs, L.pointOk sch c = true) :
    mapE (fun c => if L.pointOk sch c then (.ok c : Dec Bytes) else .error .badPoint) cs = .ok cs := by
  have := mapE_map (fun c => if L.pointOk sch c then (.ok c : Dec Bytes) else .error .badPoint) id id cs
    (fun c hc => by simp [h c hc])
  simpa using this

/-- Full statement, protobuf path: a group sent by `Group.ToProto` is accepted by `GroupFromProto` (in either
variant, with no target scheme or the group's own) and the result is `Equal` to the original with the same hash
preimage; explicitly: id canonicalised, seed materialised, member identities carry the group's scheme. -/
theorem c20_group_proto (strict : Bool) (L : Leaf) (ok : LeafOK L) (g : Group) (wf : g.WFProto L)
    (target : Option String) (ht : target = none ∨ target = some g.scheme) :
    Group.fromProto strict L (g.toProto L) target = .ok (g.canonProto L) ∧
    Group.equal L g (g.canonProto L) = true ∧
    groupToks (g.canonProto L).params = groupToks g.params := by
  refine ⟨?_, ?_, ?_⟩
  · have htgt : targetMismatch target g.scheme = false := by
      rcases ht with h | h <;> simp [h, targetMismatch]
    have hn : mapE (nodeFromProto L g.scheme) (g.nodes.map fun n => (⟨n.ident.toProto, n.index⟩ : PNode)) =
        .ok (g.nodes.map fun n => { n with ident := { n.ident with scheme := some g.scheme } }) :=
      mapE_map _ _ _ _ (fun n hn => by
        obtain ⟨ha, hp⟩ := wf.nodes n hn
        simp [nodeFromProto, identityFromProto, Identity.toProto, ha, hp])
    have hmin := minimumT_eq g.nodes.length
    have hthr0 : 0 ≤ g.threshold := by have := wf.thrLow; omega
    have hmax : max g.threshold 0 = g.threshold := by omega
    have hthr : u32 g.threshold = g.threshold.toNat := u32_small _ hthr0 (by have := wf.thrHigh; have := wf.nodesFit; omega)
    have hthrI : (g.threshold.toNat : Int) = g.threshold := Int.toNat_of_nonneg hthr0
    have h1 : ¬ g.threshold.toNat < Gen.minimumT g.nodes.length := by have := wf.thrLow; omega
    have h2 : ¬ g.threshold.toNat > g.nodes.length := by have := wf.thrHigh; omega
    obtain ⟨kp, hkp0, hkp, hperiod⟩ := wf.period
    obtain ⟨kc, hkc, hcatchup⟩ := wf.catchup
    have hseed : g.seed L ≠ [] := seed_ne_nil L ok g wf.seed
    have hper0 : ¬ ((kp : Int) * 1000000000 = 0) := by omega
    simp only [Group.fromProto, Group.toProto, schemeFromName_known wf.scheme, htgt, hn, List.length_map, hthr, h1, h2,
      i64_u64 _ wf.genesis64, i64_u64 _ wf.transition64, wf.genesisNZ, hperiod, hcatchup, secondsU32_whole _ hkp,
      secondsU32_whole _ hkc, hper0, hseed, if_false, if_true, decide_false, Bool.and_false, Bool.false_eq_true,
      ne_eq, not_false_eq_true, Group.canonProto]
    cases hpk : g.publicKey with
    | none => simp [mapE, hmax]
    | some cs =>
      obtain ⟨hlen, hpts⟩ := wf.coeffs cs hpk
      have hpos : cs.length > 0 := by have := wf.thrLow; omega
      have hleq : ¬ cs.length ≠ g.threshold.toNat := by omega
      simp only [mapE_points L g.scheme cs hpts, hpos, hleq, if_true, if_false]
      simp [hmax]
  · simp only [Group.equal, Group.canonProto, compareBeaconIDs_canon, Group.seed, List.length_map, beq_self_eq_true,
      Bool.and_true, Bool.true_and]
    induction g.nodes with
    | nil => rfl
    | cons a t ih => simp [nodesEqual, Node.equal, Identity.equal, ih]
  · unfold groupToks
    have hp : (g.canonProto L).params = { g.params with id := canonId g.id } := by
      simp [Group.canonProto, Group.params]
    rw [hp]
    simp only [idPart_canon]
    rfl

end Drand.Codec
