/-
C06 (echo broadcast part) — every node that completes a DKG holds the same group "independent of … message timing":
that rests on every honest node seeing the same set of deal / response / justification bundles, which is the job of
`echoBroadcast` (internal/dkg/broadcast.go).  Model: Drand/DKG/Broadcast.lean.  Proved here, for every finite list of
events (pushes, calls from anybody with any packet, link deliveries and link failures, request contexts ending, stops,
the application reading):

* `c06_bcast_deliver_valid_once`   a bundle is handed to the application at most once per hash, and a bundle that came
                                   from the network only if it decoded and its signature verified;
* `c06_bcast_invalid_harmless`     a packet that does not verify changes nothing — in particular not the seen-set — so
                                   the genuine bundle with the same hash that follows is accepted, handed over and relayed
                                   (`c06_bcast_poison_counterexample`: not so if the seen-set is written first);
* `c06_bcast_relayed` / `c06_bcast_agreement`   whenever a node has accepted a bundle, every other node has accepted it
                                   too, or the relay to it is still waiting in the sender's queue, or that one
                                   transmission was lost for a named reason (link failure, full queue, destination
                                   stopped / refusing);
* `c06_bcast_workers_live`         the relay workers of a node run until `Stop`, whatever happens to the context of the
                                   request that created them (regenerated fact `tie_bcast_worker_lifetime`), so "still
                                   waiting" always means "a send is in progress"
                                   (`c06_bcast_ctx_bound_workers_counterexample`: not so for workers that follow the context);
* `c06_bcast_no_overflow`          a relay is dropped on a full queue only after the node has accepted more distinct
                                   bundles than the queue holds (`c06_bcast_overflow_counterexample`: a participant that
                                   signs many bundles can make that happen — agreement needs the hypothesis).
-/
import Drand.DKG.Broadcast

namespace Drand.DKG.Bcast

/-! ### ties: the switches of the model are the regenerated facts -/

theorem tie_bcast_recv_order :
    Gen.Bcast.recvSteps = ["Lock", "defer:Unlock", "protoToDKGPacket", "hashes.exists:if:!return-nil",
      "VerifyPacketSignature:if:!return-err", "sendout(bypass=false)", "passToApplication"] ∧
    Gen.Bcast.seenPutBeforeVerify = false := ⟨rfl, rfl⟩

theorem tie_bcast_sendout :
    Gen.Bcast.sendoutSteps = ["isStopped!return", "dkgPacketToProto", "hashes.put", "if-bypass",
      "  then:go:dispatcher.broadcastDirect", "  else:dispatcher.broadcast"] ∧
    Gen.Bcast.stopSteps = ["Lock", "isStopped=true", "Unlock", "dispatcher.stop"] := ⟨rfl, rfl⟩

theorem tie_bcast_push :
    Gen.Bcast.stepsPushDeals = ["chan-send:b.dealCh", "Lock", "defer:Unlock", "sendout(bypass=true)"] ∧
    Gen.Bcast.stepsPushResponses = ["chan-send:b.respCh", "Lock", "defer:Unlock", "sendout(bypass=true)"] ∧
    Gen.Bcast.stepsPushJustifications = ["chan-send:b.justCh", "Lock", "defer:Unlock", "sendout(bypass=true)"] :=
  ⟨rfl, rfl, rfl⟩

/-- the relay workers live until their queue is closed (`dispatcher.stop`), not until the context they were started
with — the context of the request that started the execution — is done -/
theorem tie_bcast_worker_lifetime :
    Gen.Bcast.senderRunLoop = "range s.newCh" ∧ Gen.Bcast.senderRunStopsOnCtxDone = false ∧
    Gen.Bcast.workerCtxChain = ["run:param", "newDispatcher:param", "newEchoBroadcast:param", "setupDKG:param"] :=
  ⟨rfl, rfl, rfl⟩

theorem tie_bcast_queues :
    Gen.Bcast.sendPacketNonBlocking = true ∧ (∀ n, Gen.Bcast.senderQueueSize n = if n > 1000 then 1000 else n * 3) ∧
    Gen.Bcast.appChanCaps = ["dealCh:len(to)", "respCh:len(to)", "justCh:len(to)"] ∧
    Gen.Bcast.dispatcherFacts = ["queue:=senderQueueSize(len(to))", "skip-if:node.Address==us",
      "sender:=newSender(dkgClient,node,l,queue)", "newSender.newCh:queueSize"] := ⟨rfl, fun _ => rfl, rfl, rfl⟩

/-- the configuration the driver runs is the one the theorems below are about -/
theorem tie_bcast_cfg (n : Nat) : Cfg.asIs n = { n, putBeforeVerify := false, workersFollowCtx := false } := rfl

/-! ### proof infrastructure: what each method of a node does to each field -/

@[simp] private theorem setChan_seen (n : Node) (k l) : (n.setChan k l).seen = n.seen := by cases k <;> rfl
@[simp] private theorem setChan_id (n : Node) (k l) : (n.setChan k l).id = n.id := by cases k <;> rfl
@[simp] private theorem setChan_workers (n : Node) (k l) : (n.setChan k l).workers = n.workers := by cases k <;> rfl
@[simp] private theorem setChan_direct (n : Node) (k l) : (n.setChan k l).direct = n.direct := by cases k <;> rfl
@[simp] private theorem setChan_stopped (n : Node) (k l) : (n.setChan k l).stopped = n.stopped := by cases k <;> rfl
@[simp] private theorem setChan_ctxEnded (n : Node) (k l) : (n.setChan k l).ctxEnded = n.ctxEnded := by cases k <;> rfl
@[simp] private theorem setChan_appLog (n : Node) (k l) : (n.setChan k l).appLog = n.appLog := by cases k <;> rfl

@[simp] private theorem pass_seen (c : Cfg) (n : Node) (p) : (n.pass c p).1.seen = n.seen := by unfold Node.pass; split <;> simp
@[simp] private theorem pass_id (c : Cfg) (n : Node) (p) : (n.pass c p).1.id = n.id := by unfold Node.pass; split <;> simp
@[simp] private theorem pass_workers (c : Cfg) (n : Node) (p) : (n.pass c p).1.workers = n.workers := by unfold Node.pass; split <;> simp
@[simp] private theorem pass_direct (c : Cfg) (n : Node) (p) : (n.pass c p).1.direct = n.direct := by unfold Node.pass; split <;> simp
@[simp] private theorem pass_stopped (c : Cfg) (n : Node) (p) : (n.pass c p).1.stopped = n.stopped := by unfold Node.pass; split <;> simp
@[simp] private theorem pass_ctxEnded (c : Cfg) (n : Node) (p) : (n.pass c p).1.ctxEnded = n.ctxEnded := by unfold Node.pass; split <;> simp

@[simp] private theorem sendout_id (c : Cfg) (n : Node) (p b) : (n.sendout c p b).1.id = n.id := by
  unfold Node.sendout Node.enqueueAll; split <;> (try split) <;> rfl
@[simp] private theorem sendout_stopped (c : Cfg) (n : Node) (p b) : (n.sendout c p b).1.stopped = n.stopped := by
  unfold Node.sendout Node.enqueueAll; split <;> (try split) <;> rfl
@[simp] private theorem sendout_ctxEnded (c : Cfg) (n : Node) (p b) : (n.sendout c p b).1.ctxEnded = n.ctxEnded := by
  unfold Node.sendout Node.enqueueAll; split <;> (try split) <;> rfl
@[simp] private theorem sendout_appLog (c : Cfg) (n : Node) (p b) : (n.sendout c p b).1.appLog = n.appLog := by
  unfold Node.sendout Node.enqueueAll; split <;> (try split) <;> rfl
private theorem sendout_seen (c : Cfg) (n : Node) (p b) : (n.sendout c p b).1.seen = if n.stopped then n.seen else put n.seen p.hash := by
  unfold Node.sendout Node.enqueueAll; split <;> (try split) <;> rfl
private theorem sendout_direct_relay (c : Cfg) (n : Node) (p) : (n.sendout c p false).1.direct = n.direct := by
  unfold Node.sendout Node.enqueueAll; split <;> rfl
private theorem sendout_workers_relay (c : Cfg) (n : Node) (p) (d : Nat) :
    (n.sendout c p false).1.workers d =
      if !n.stopped && c.isPeer n.id d then ((n.workers d).offer c.qcap p).1 else n.workers d := by
  unfold Node.sendout Node.enqueueAll
  split
  · rename_i h; simp [h]
  · rename_i h; simp [h]
private theorem sendout_full_relay (c : Cfg) (n : Node) (p) :
    (n.sendout c p false).2 = if n.stopped then [] else (c.peers n.id).filter fun d => !((n.workers d).offer c.qcap p).2 := by
  unfold Node.sendout Node.enqueueAll
  split <;> rfl
private theorem sendout_direct_push (c : Cfg) (n : Node) (p) :
    (n.sendout c p true).1.direct = if n.stopped then n.direct else n.direct ++ (c.peers n.id).map (fun d => (d, p)) := by
  unfold Node.sendout; split <;> rfl
private theorem sendout_workers_push (c : Cfg) (n : Node) (p) : (n.sendout c p true).1.workers = n.workers := by
  unfold Node.sendout; split <;> rfl

/-- the condition under which `BroadcastDKG` accepts a packet -/
def Node.accepts (n : Node) (p : Pkt) : Bool := p.decodes && !n.seen.contains p.hash && p.verifies

private theorem recv_eq (c : Cfg) (hc : c.putBeforeVerify = false) (n : Node) (p : Pkt) :
    n.recv c p =
      if n.accepts p then (((n.sendout c p false).1.pass c p).1, .ok ((n.sendout c p false).1.pass c p).2 (n.sendout c p false).2)
      else (n, if !p.decodes then .badPacket else if n.seen.contains p.hash then .dup else .badSig) := by
  unfold Node.recv Node.accepts
  simp only [hc]
  cases p.decodes <;> cases n.seen.contains p.hash <;> cases p.verifies <;> simp
/-- hash `h` is waiting in worker `w`: buffered, or being sent -/
def Worker.has (w : Worker) (h : Nat) : Prop := (∃ p ∈ w.queue, p.hash = h) ∨ (∃ p, w.inflight = some p ∧ p.hash = h)

private theorem offer_has (w : Worker) (q : Nat) (p : Pkt) (h : Nat) (hw : w.has h) : (w.offer q p).1.has h := by
  unfold Worker.offer
  split
  · rename_i hc
    simp only [Bool.and_eq_true, Option.isNone_iff_eq_none, List.isEmpty_iff] at hc
    rcases hw with ⟨x, hx, _⟩ | ⟨x, hx, _⟩
    · rw [hc.2] at hx; cases hx
    · rw [hc.1.2] at hx; cases hx
  · split
    · rcases hw with ⟨x, hx, he⟩ | hw
      · exact .inl ⟨x, List.mem_append_left _ hx, he⟩
      · exact .inr hw
    · exact hw

private theorem offer_true_has (w : Worker) (q : Nat) (p : Pkt) (hb : (w.offer q p).2 = true) : (w.offer q p).1.has p.hash := by
  unfold Worker.offer at hb ⊢
  split
  · exact .inr ⟨p, rfl, rfl⟩
  · split
    · exact .inl ⟨p, List.mem_append_right _ (List.mem_singleton.2 rfl), rfl⟩
    · rename_i h1 h2; simp [h1, h2] at hb

private theorem next_has (w : Worker) (l cl : Bool) (p : Pkt) (hp : w.inflight = some p) (h : Nat) (hw : w.has h) :
    h = p.hash ∨ (w.next l cl).has h := by
  rcases hw with ⟨x, hx, he⟩ | ⟨x, hx, he⟩
  · right
    unfold Worker.next
    split
    · exact .inl ⟨x, hx, he⟩
    · split
      · rename_i y rest hq
        rw [hq] at hx
        rcases List.mem_cons.1 hx with rfl | hx
        · exact .inr ⟨x, rfl, he⟩
        · exact .inl ⟨x, hx, he⟩
      · rename_i hq; rw [hq] at hx; cases hx
  · left; rw [hp] at hx; cases hx; exact he.symm

private theorem deliver_nodes (c : Cfg) (s : Net) (src d : Nat) (p : Pkt) (j : Nat) :
    (s.deliver c src d p).1.nodes j = if j = d then ((s.nodes d).recv c p).1 else s.nodes j := by
  unfold Net.deliver
  simp only []
  split <;> rfl

private theorem deliver_out (c : Cfg) (s : Net) (src d : Nat) (p : Pkt) :
    (s.deliver c src d p).2 = ((s.nodes d).recv c p).2 := by
  unfold Net.deliver
  simp only []
  split <;> simp_all

private theorem deliver_lost (c : Cfg) (s : Net) (src d : Nat) (p : Pkt) :
    (s.deliver c src d p).1.lost = s.lost ++
      (match ((s.nodes d).recv c p).2 with
       | .badPacket | .badSig => [(src, d, p.hash, Loss.destRefused)]
       | .dup => []
       | .ok _ full => (if (s.nodes d).stopped then [(src, d, p.hash, Loss.destStopped)] else []) ++
                        full.map (fun x => (d, x, p.hash, Loss.queueFull))) := by
  unfold Net.deliver
  simp only []
  split <;> simp_all [Net.setNode]

def pending (s : Net) (i d h : Nat) : Prop :=
  ((s.nodes i).workers d).has h ∨ ∃ p, (d, p) ∈ (s.nodes i).direct ∧ p.hash = h
def isLost (s : Net) (i d h : Nat) : Prop := ∃ w, (i, d, h, w) ∈ s.lost
def WF (s : Net) : Prop := ∀ i, (s.nodes i).id = i

structure Trans (c : Cfg) (s s' : Net) : Prop where
  seen : ∀ j h, h ∈ (s.nodes j).seen → h ∈ (s'.nodes j).seen
  lost : ∀ x, x ∈ s.lost → x ∈ s'.lost
  pend : ∀ i d h, pending s i d h → pending s' i d h ∨ h ∈ (s'.nodes d).seen ∨ isLost s' i d h
  fresh : ∀ i d h, c.isPeer i d = true → h ∈ (s'.nodes i).seen → h ∉ (s.nodes i).seen →
            h ∈ (s'.nodes d).seen ∨ pending s' i d h ∨ isLost s' i d h

private theorem mem_peers (c : Cfg) (me d : Nat) : d ∈ c.peers me ↔ c.isPeer me d = true := by
  unfold Cfg.peers Cfg.isPeer
  simp [List.mem_filter, List.mem_range]

private theorem put_mem (l : List Nat) (h x : Nat) : x ∈ put l h ↔ x ∈ l ∨ x = h := by
  unfold put
  split
  · rename_i hc
    simp only [List.contains_iff_mem] at hc
    constructor
    · exact .inl
    · rintro (h1 | rfl); exact h1; exact hc
  · simp

private theorem deliver_trans (c : Cfg) (hc : c.putBeforeVerify = false) (s : Net) (hwf : WF s) (src d : Nat) (p : Pkt) :
    Trans c s (s.deliver c src d p).1 := by
  constructor
  · intro j h hh
    rw [deliver_nodes]; split
    · subst j; rw [recv_eq c hc]; split
      · simp only [pass_seen, sendout_seen]; split
        · exact hh
        · exact (put_mem _ _ _).2 (.inl hh)
      · exact hh
    · exact hh
  · intro x hx; rw [deliver_lost]; exact List.mem_append_left _ hx
  · intro i d' h hp
    left
    unfold pending at hp ⊢
    rw [deliver_nodes]; split
    · subst i
      rw [recv_eq c hc]; split
      · simp only [pass_workers, pass_direct, sendout_direct_relay, sendout_workers_relay]
        rcases hp with hp | hp
        · left; split
          · exact offer_has _ _ _ _ hp
          · exact hp
        · right; exact hp
      · exact hp
    · exact hp
  · intro i d' h hpeer hs' hs
    rw [deliver_nodes] at hs'
    split at hs'
    · subst i
      rw [recv_eq c hc] at hs'
      split at hs'
      · rename_i hacc
        simp only [pass_seen, sendout_seen] at hs'
        split at hs'
        · exact absurd hs' hs
        · rename_i hst
          have hh : h = p.hash := by
            rcases (put_mem _ _ _).1 hs' with h1 | h1
            · exact absurd h1 hs
            · exact h1
          subst hh
          by_cases hb : (((s.nodes d).workers d').offer c.qcap p).2 = true
          · right; left; unfold pending
            rw [deliver_nodes, if_pos rfl, recv_eq c hc, if_pos hacc]
            simp only [pass_workers, sendout_workers_relay]
            left
            rw [if_pos]
            · exact offer_true_has _ _ _ hb
            · simp [hst, hwf d, hpeer]
          · right; right; refine ⟨.queueFull, ?_⟩
            rw [deliver_lost, recv_eq c hc, if_pos hacc]
            simp only [sendout_full_relay, if_neg hst]
            apply List.mem_append_right
            apply List.mem_append_right
            apply List.mem_map.2
            refine ⟨d', ?_, rfl⟩
            rw [List.mem_filter, mem_peers, hwf d]
            exact ⟨hpeer, by simpa using hb⟩
      · exact absurd hs' hs
    · exact absurd hs' hs


private theorem recv_id (c : Cfg) (n : Node) (p : Pkt) : (n.recv c p).1.id = n.id := by
  unfold Node.recv
  repeat' split
  all_goals simp

private theorem Trans.refl (c : Cfg) (s : Net) : Trans c s s :=
  ⟨fun _ _ h => h, fun _ h => h, fun _ _ _ h => .inl h, fun _ _ _ _ h1 h2 => absurd h1 h2⟩

private theorem Trans.trans {c : Cfg} {s1 s2 s3 : Net} (a : Trans c s1 s2) (b : Trans c s2 s3) : Trans c s1 s3 := by
  have lostMono : ∀ i d h, isLost s2 i d h → isLost s3 i d h := fun i d h ⟨w, hw⟩ => ⟨w, b.lost _ hw⟩
  constructor
  · exact fun j h hh => b.seen j h (a.seen j h hh)
  · exact fun x hx => b.lost x (a.lost x hx)
  · intro i d h hp
    rcases a.pend i d h hp with h1 | h1 | h1
    · exact b.pend i d h h1
    · exact .inr (.inl (b.seen d h h1))
    · exact .inr (.inr (lostMono _ _ _ h1))
  · intro i d h hpeer hs3 hs1
    by_cases hs2 : h ∈ (s2.nodes i).seen
    · rcases a.fresh i d h hpeer hs2 hs1 with h1 | h1 | h1
      · exact .inl (b.seen d h h1)
      · rcases b.pend i d h h1 with h2 | h2 | h2
        · exact .inr (.inl h2)
        · exact .inl h2
        · exact .inr (.inr h2)
      · exact .inr (.inr (lostMono _ _ _ h1))
    · exact b.fresh i d h hpeer hs3 hs2

private theorem deliver_wf (c : Cfg) (s : Net) (hwf : WF s) (src d : Nat) (p : Pkt) : WF (s.deliver c src d p).1 := by
  intro i
  rw [deliver_nodes]; split
  · subst i; rw [recv_id]; exact hwf d
  · exact hwf i

private theorem deliver_outcome (c : Cfg) (hc : c.putBeforeVerify = false) (s : Net) (src d : Nat) (p : Pkt) :
    p.hash ∈ ((s.deliver c src d p).1.nodes d).seen ∨ isLost (s.deliver c src d p).1 src d p.hash := by
  unfold isLost
  rw [deliver_nodes, if_pos rfl, deliver_lost, recv_eq c hc]
  split
  · simp only [pass_seen, sendout_seen]
    cases hst : (s.nodes d).stopped
    · left; simp [put_mem]
    · right; exact ⟨.destStopped, by simp⟩
  · rename_i hacc
    cases hd : p.decodes
    · right; exact ⟨.destRefused, by simp⟩
    · by_cases hs : (s.nodes d).seen.contains p.hash = true
      · left; simpa using hs
      · right
        have hs' : p.hash ∉ (s.nodes d).seen := by simpa using hs
        exact ⟨.destRefused, by simp [hs']⟩

/-- the step `s → s1` takes one waiting transmission (i → d of hash hh) out of the sender; `s1 → s2` carries it out -/
private theorem trans_of_pre (c : Cfg) (s s1 s2 : Net) (i d hh : Nat)
    (hseen : ∀ j, (s1.nodes j).seen = (s.nodes j).seen) (hlost : s1.lost = s.lost)
    (hpend : ∀ i' d' h, pending s i' d' h → pending s1 i' d' h ∨ (i' = i ∧ d' = d ∧ h = hh))
    (T : Trans c s1 s2) (hout : hh ∈ (s2.nodes d).seen ∨ isLost s2 i d hh) : Trans c s s2 := by
  constructor
  · intro j h hj; exact T.seen j h (by rw [hseen]; exact hj)
  · intro x hx; exact T.lost x (by rw [hlost]; exact hx)
  · intro i' d' h hp
    rcases hpend i' d' h hp with h1 | ⟨rfl, rfl, rfl⟩
    · exact T.pend _ _ _ h1
    · exact .inr hout
  · intro i' d' h hpeer h2 h0
    exact T.fresh i' d' h hpeer h2 (by rw [hseen]; exact h0)

private theorem trans_lost_append (c : Cfg) (s : Net) (l : List (Nat × Nat × Nat × Loss)) : Trans c s { s with lost := s.lost ++ l } :=
  ⟨fun _ _ h => h, fun _ h => List.mem_append_left _ h, fun _ _ _ h => .inl h, fun _ _ _ _ h1 h2 => absurd h1 h2⟩

def pendingN (n : Node) (d h : Nat) : Prop := (n.workers d).has h ∨ ∃ p, (d, p) ∈ n.direct ∧ p.hash = h

private theorem trans_setNode (c : Cfg) (s : Net) (i : Nat) (n' : Node)
    (hseen : ∀ h, h ∈ (s.nodes i).seen → h ∈ n'.seen)
    (hpend : ∀ d h, pendingN (s.nodes i) d h → pendingN n' d h)
    (hfresh : ∀ d h, c.isPeer i d = true → h ∈ n'.seen → h ∉ (s.nodes i).seen → pendingN n' d h) :
    Trans c s (s.setNode i n') := by
  constructor
  · intro j h hj; unfold Net.setNode; simp only; split
    · subst j; exact hseen h hj
    · exact hj
  · exact fun _ h => h
  · intro i' d h hp; left; unfold pending Net.setNode at *; simp only; split
    · subst i'; exact hpend d h hp
    · exact hp
  · intro i' d h hpeer h2 h0
    unfold Net.setNode at h2; simp only at h2
    split at h2
    · subst i'; right; left; unfold pending Net.setNode; simp only [if_pos]; exact hfresh d h hpeer h2 h0
    · exact absurd h2 h0


private theorem removeFirst_spec (l : List (Nat × Pkt)) (d h : Nat) (p : Pkt) (rest : List (Nat × Pkt))
    (hr : removeFirst l d h = some (p, rest)) :
    p.hash = h ∧ ∀ d' q, (d', q) ∈ l → (d', q) ∈ rest ∨ (d' = d ∧ q = p) := by
  induction l generalizing p rest with
  | nil => simp [removeFirst] at hr
  | cons x xs ih =>
    obtain ⟨d0, p0⟩ := x
    unfold removeFirst at hr
    split at hr
    · rename_i hc
      simp only [Option.some.injEq, Prod.mk.injEq] at hr
      obtain ⟨rfl, rfl⟩ := hr
      refine ⟨hc.2, ?_⟩
      intro d' q hm
      rcases List.mem_cons.1 hm with h1 | h1
      · simp only [Prod.mk.injEq] at h1; exact .inr ⟨h1.1.trans hc.1, h1.2⟩
      · exact .inl h1
    · cases hrec : removeFirst xs d h with
      | none => simp [hrec] at hr
      | some r =>
        obtain ⟨p1, rest1⟩ := r
        simp only [hrec, Option.map_some, Option.some.injEq, Prod.mk.injEq] at hr
        obtain ⟨rfl, rfl⟩ := hr
        obtain ⟨h1, h2⟩ := ih p1 rest1 hrec
        refine ⟨h1, ?_⟩
        intro d' q hm
        rcases List.mem_cons.1 hm with h3 | h3
        · left; rw [h3]; exact List.mem_cons_self
        · rcases h2 d' q h3 with h4 | h4
          · exact .inl (List.mem_cons_of_mem _ h4)
          · exact .inr h4

private theorem advance_props (c : Cfg) (s : Net) (hwf : WF s) (i d : Nat) (p : Pkt) (hin : ((s.nodes i).workers d).inflight = some p) :
    WF (s.advance c i d) ∧ (∀ j, ((s.advance c i d).nodes j).seen = (s.nodes j).seen) ∧ (s.advance c i d).lost = s.lost ∧
    (∀ i' d' h, pending s i' d' h → pending (s.advance c i d) i' d' h ∨ (i' = i ∧ d' = d ∧ h = p.hash)) := by
  refine ⟨?_, ?_, rfl, ?_⟩
  · intro j; unfold Net.advance Net.setNode; simp only; split
    · subst j; exact hwf i
    · exact hwf j
  · intro j; unfold Net.advance Net.setNode; simp only; split
    · subst j; rfl
    · rfl
  · intro i' d' h hp
    unfold pending Net.advance Net.setNode at *; simp only
    by_cases hi : i' = i
    · subst hi; simp only [if_pos]
      by_cases hd : d' = d
      · subst hd; simp only [if_pos]
        rcases hp with hp | hp
        · rcases next_has _ (c.workersFollowCtx && (s.nodes i').ctxEnded) (s.nodes i').stopped p hin h hp with h1 | h1
          · exact .inr (by simpa using h1)
          · exact .inl (.inl h1)
        · exact .inl (.inr hp)
      · simp only [if_neg hd]; exact .inl hp
    · simp only [if_neg hi]; exact .inl hp

private theorem step_trans (c : Cfg) (hc : c.putBeforeVerify = false) (s : Net) (hwf : WF s) (e : Ev) :
    Trans c s (s.step c e).1 ∧ WF (s.step c e).1 := by
  cases e with
  | push i p =>
    simp only [Net.step]
    cases hpush : (s.nodes i).push c p with
    | none => exact ⟨Trans.refl c s, hwf⟩
    | some n' =>
      simp only
      unfold Node.push at hpush
      split at hpush
      · simp only [Option.some.injEq] at hpush
        subst hpush
        refine ⟨trans_setNode c s i _ ?_ ?_ ?_, ?_⟩
        · intro h hh
          rw [sendout_seen]; split
          · simpa using hh
          · exact (put_mem _ _ _).2 (.inl (by simpa using hh))
        · intro d h hp
          unfold pendingN at *
          rw [sendout_workers_push, sendout_direct_push]
          rcases hp with hp | ⟨q, hq, hh⟩
          · left; simpa using hp
          · right; refine ⟨q, ?_, hh⟩; split
            · simpa using hq
            · exact List.mem_append_left _ (by simpa using hq)
        · intro d h hpeer h2 h0
          rw [sendout_seen] at h2
          unfold pendingN
          rw [sendout_direct_push]
          split at h2
          · exact absurd (by simpa using h2) h0
          · rename_i hst
            rcases (put_mem _ _ _).1 h2 with h1 | h1
            · exact absurd (by simpa using h1) h0
            · subst h1
              right; refine ⟨p, ?_, rfl⟩
              rw [if_neg hst]
              apply List.mem_append_right
              apply List.mem_map.2
              refine ⟨d, ?_, rfl⟩
              rw [mem_peers]
              simpa [hwf i] using hpeer
        · intro j; unfold Net.setNode; simp only; split
          · subst j; simp [hwf i]
          · exact hwf j
      · cases hpush
  | inject j p =>
    exact ⟨deliver_trans c hc s hwf _ _ _, deliver_wf c s hwf _ _ _⟩
  | relay i d ok =>
    simp only [Net.step]
    cases hin : ((s.nodes i).workers d).inflight with
    | none => exact ⟨Trans.refl c s, hwf⟩
    | some p =>
      simp only
      obtain ⟨hwf1, hseen1, hlost1, hpend1⟩ := advance_props c s hwf i d p hin
      cases ok with
      | true =>
        simp only [if_pos]
        exact ⟨trans_of_pre c s _ _ i d p.hash hseen1 hlost1 hpend1 (deliver_trans c hc _ hwf1 i d p)
                 (deliver_outcome c hc _ i d p), deliver_wf c _ hwf1 i d p⟩
      | false =>
        simp only [Bool.false_eq_true, if_false]
        refine ⟨trans_of_pre c s _ _ i d p.hash hseen1 hlost1 hpend1 (trans_lost_append c _ _) (.inr ⟨.linkDown, ?_⟩), hwf1⟩
        simp
  | direct i d h ok =>
    simp only [Net.step]
    cases hrm : removeFirst (s.nodes i).direct d h with
    | none => exact ⟨Trans.refl c s, hwf⟩
    | some r =>
      obtain ⟨p, rest⟩ := r
      simp only
      obtain ⟨hph, hmem⟩ := removeFirst_spec _ _ _ _ _ hrm
      generalize hs1 : s.setNode i { s.nodes i with direct := rest } = s1
      have hwf1 : WF s1 := by
        subst hs1; intro j; unfold Net.setNode; simp only; split
        · subst j; exact hwf i
        · exact hwf j
      have hseen1 : ∀ j, (s1.nodes j).seen = (s.nodes j).seen := by
        subst hs1; intro j; unfold Net.setNode; simp only; split
        · subst j; rfl
        · rfl
      have hlost1 : s1.lost = s.lost := by subst hs1; rfl
      have hpend1 : ∀ i' d' h', pending s i' d' h' → pending s1 i' d' h' ∨ (i' = i ∧ d' = d ∧ h' = p.hash) := by
        subst hs1; intro i' d' h' hp
        unfold pending Net.setNode at *; simp only
        by_cases hi : i' = i
        · subst hi; simp only [if_pos]
          rcases hp with hp | ⟨q, hq, hh⟩
          · exact .inl (.inl hp)
          · rcases hmem d' q hq with h1 | ⟨h1, h2⟩
            · exact .inl (.inr ⟨q, h1, hh⟩)
            · subst h2; exact .inr (by simpa using ⟨h1, hh.symm⟩)
        · simp only [if_neg hi]; exact .inl hp
      cases ok with
      | true =>
        simp only [if_pos]
        exact ⟨trans_of_pre c s s1 _ i d p.hash hseen1 hlost1 hpend1 (deliver_trans c hc s1 hwf1 i d p)
                 (deliver_outcome c hc s1 i d p), deliver_wf c s1 hwf1 i d p⟩
      | false =>
        simp only [Bool.false_eq_true, if_false]
        refine ⟨trans_of_pre c s s1 _ i d p.hash hseen1 hlost1 hpend1 (trans_lost_append c s1 _) (.inr ⟨.linkDown, ?_⟩), hwf1⟩
        simp
  | ctxEnd i =>
    simp only [Net.step]
    refine ⟨trans_setNode c s i _ (fun _ h => h) ?_ (fun _ _ _ h1 h0 => absurd h1 h0), ?_⟩
    · intro d h hp
      unfold pendingN Node.ctxEnd Worker.has at *
      simp only
      split <;> exact hp
    · intro j; unfold Net.setNode; simp only; split
      · subst j; exact hwf i
      · exact hwf j
  | stop i =>
    simp only [Net.step]
    refine ⟨trans_setNode c s i _ (fun _ h => h) ?_ (fun _ _ _ h1 h0 => absurd h1 h0), ?_⟩
    · intro d h hp
      unfold pendingN Node.stop Worker.has at *
      simp only
      split <;> exact hp
    · intro j; unfold Net.setNode; simp only; split
      · subst j; exact hwf i
      · exact hwf j
  | take i k =>
    simp only [Net.step]
    have hn : ∀ n : Node, (n.take k).1.seen = n.seen ∧ (n.take k).1.workers = n.workers ∧ (n.take k).1.direct = n.direct ∧ (n.take k).1.id = n.id := by
      intro n; unfold Node.take; split <;> simp
    obtain ⟨h1, h2, h3, h4⟩ := hn (s.nodes i)
    refine ⟨trans_setNode c s i _ (fun _ h => by rw [h1]; exact h) ?_ (fun _ _ _ ha h0 => absurd (by rw [h1] at ha; exact ha) h0), ?_⟩
    · intro d h hp; unfold pendingN at *; rw [h2, h3]; exact hp
    · intro j; unfold Net.setNode; simp only; split
      · subst j; rw [h4]; exact hwf i
      · exact hwf j


/-! ### (3) relay: the invariant over every event list -/

def Relayed (c : Cfg) (s : Net) : Prop :=
  ∀ i d h, c.isPeer i d = true → h ∈ (s.nodes i).seen → h ∈ (s.nodes d).seen ∨ pending s i d h ∨ isLost s i d h

private theorem relayed_of_trans {c : Cfg} {s s' : Net} (hr : Relayed c s) (t : Trans c s s') : Relayed c s' := by
  intro i d h hpeer hs'
  by_cases hs : h ∈ (s.nodes i).seen
  · rcases hr i d h hpeer hs with h1 | h1 | ⟨w, hw⟩
    · exact .inl (t.seen d h h1)
    · rcases t.pend i d h h1 with h2 | h2 | h2
      · exact .inr (.inl h2)
      · exact .inl h2
      · exact .inr (.inr h2)
    · exact .inr (.inr ⟨w, t.lost _ hw⟩)
  · exact t.fresh i d h hpeer hs' hs

private theorem run_cons (c : Cfg) (s : Net) (e : Ev) (es : List Ev) : Net.run c s (e :: es) = Net.run c (s.step c e).1 es := rfl

private theorem run_relayed (c : Cfg) (hc : c.putBeforeVerify = false) (evs : List Ev) (s : Net) (hwf : WF s) (hr : Relayed c s) :
    WF (Net.run c s evs) ∧ Relayed c (Net.run c s evs) := by
  induction evs generalizing s with
  | nil => exact ⟨hwf, hr⟩
  | cons e es ih =>
    rw [run_cons]
    obtain ⟨t, hwf'⟩ := step_trans c hc s hwf e
    exact ih _ hwf' (relayed_of_trans hr t)

private theorem init_wf : WF Net.init := fun _ => rfl
private theorem init_relayed (c : Cfg) : Relayed c Net.init := by
  intro i d h _ hs
  simp [Net.init] at hs

/-- RELAY. After any list of events, for any two distinct participants i and d and any bundle hash h that i has accepted
(recorded as seen — which it does exactly when it hands a network bundle to its application or pushes its own): d has
accepted it as well, or the transmission i → d of h is still waiting (in worker i→d's queue, in its hands, or among
i's direct sends), or that transmission was lost for one of the four reasons of `Loss`. Nothing is silently dropped. -/
theorem c06_bcast_relayed (c : Cfg) (hc : c.putBeforeVerify = false) (evs : List Ev) :
    Relayed c (Net.run c Net.init evs) :=
  (run_relayed c hc evs Net.init init_wf (init_relayed c)).2

/-- AGREEMENT (reliable-broadcast totality), with the fairness hypotheses spelled out: if node i has accepted h, its relay
to d has been carried out (`hquiet`: nothing for h is waiting at i for d — the relay workers ran) and that one
transmission was not lost (`hlink`: the link i→d delivered it, the queue had room, d was neither stopped nor refusing),
then d has accepted h — whatever happened on every other link, in particular if the originator could not reach d. -/
theorem c06_bcast_agreement (c : Cfg) (hc : c.putBeforeVerify = false) (evs : List Ev) (i d h : Nat)
    (hd : d < c.n) (hne : d ≠ i) (hseen : h ∈ ((Net.run c Net.init evs).nodes i).seen)
    (hquiet : ¬ pending (Net.run c Net.init evs) i d h) (hlink : ¬ isLost (Net.run c Net.init evs) i d h) :
    h ∈ ((Net.run c Net.init evs).nodes d).seen := by
  have hpeer : c.isPeer i d = true := by simp [Cfg.isPeer, hd, hne]
  rcases c06_bcast_relayed c hc evs i d h hpeer hseen with h1 | h1 | h1
  · exact h1
  · exact absurd h1 hquiet
  · exact absurd h1 hlink


/-! ### invariants lifted to every event -/

/-- every event is a composition of these primitive updates -/
private theorem net_inv_step (c : Cfg) (J : Net → Prop) (Q : Node → Pkt → Prop)
    (hpush : ∀ s i p n', J s → Q (s.nodes i) p → (s.nodes i).push c p = some n' → J (s.setNode i n'))
    (hdel : ∀ s src d p, J s → J (s.deliver c src d p).1)
    (hadv : ∀ s i d p, J s → ((s.nodes i).workers d).inflight = some p → J (s.advance c i d))
    (hundir : ∀ s i d h p rest, J s → removeFirst (s.nodes i).direct d h = some (p, rest) →
                J (s.setNode i { s.nodes i with direct := rest }))
    (hcut : ∀ (s : Net) i d h, J s → J { s with lost := s.lost ++ [(i, d, h, Loss.linkDown)] })
    (hstop : ∀ s i, J s → J (s.setNode i (s.nodes i).stop)) (hctx : ∀ s i, J s → J (s.setNode i ((s.nodes i).ctxEnd c)))
    (htake : ∀ s i k, J s → J (s.setNode i ((s.nodes i).take k).1))
    (s : Net) (e : Ev) (hf : ∀ i p, e = .push i p → Q (s.nodes i) p) (hJ : J s) : J (s.step c e).1 := by
  cases e with
  | push i p =>
    simp only [Net.step]
    cases hp : (s.nodes i).push c p with
    | none => exact hJ
    | some n' => exact hpush s i p n' hJ (hf i p rfl) hp
  | inject j p => exact hdel s _ _ _ hJ
  | relay i d ok =>
    simp only [Net.step]
    cases hin : ((s.nodes i).workers d).inflight with
    | none => exact hJ
    | some p =>
      simp only
      have h1 := hadv s i d p hJ hin
      cases ok with
      | true => simp only [if_pos]; exact hdel _ _ _ _ h1
      | false => simp only [Bool.false_eq_true, if_false]; exact hcut _ _ _ _ h1
  | direct i d h ok =>
    simp only [Net.step]
    cases hrm : removeFirst (s.nodes i).direct d h with
    | none => exact hJ
    | some r =>
      obtain ⟨p, rest⟩ := r
      simp only
      have h1 := hundir s i d h p rest hJ hrm
      cases ok with
      | true => simp only [if_pos]; exact hdel _ _ _ _ h1
      | false => simp only [Bool.false_eq_true, if_false]; exact hcut _ _ _ _ h1
  | ctxEnd i => exact hctx s i hJ
  | stop i => exact hstop s i hJ
  | take i k => exact htake s i k hJ

/-- a hypothesis on the pushes of a trace, evaluated in the state each push happens in -/
def TraceQ (c : Cfg) (Q : Node → Pkt → Prop) : Net → List Ev → Prop
  | _, [] => True
  | s, e :: es => (∀ i p, e = .push i p → Q (s.nodes i) p) ∧ TraceQ c Q (s.step c e).1 es

private theorem traceQ_true (c : Cfg) (s : Net) (evs : List Ev) : TraceQ c (fun _ _ => True) s evs := by
  induction evs generalizing s with
  | nil => trivial
  | cons e es ih => exact ⟨fun _ _ _ => trivial, ih _⟩

/-- own bundles are new when they are pushed (nobody else can have signed them) -/
def PushFresh (c : Cfg) : Net → List Ev → Prop := TraceQ c (fun n p => p.hash ∉ n.seen)

private theorem net_inv_run (c : Cfg) (J : Net → Prop) (Q : Node → Pkt → Prop)
    (hstep : ∀ s e, (∀ i p, e = .push i p → Q (s.nodes i) p) → J s → J (s.step c e).1)
    (evs : List Ev) (s : Net) (hf : TraceQ c Q s evs) (hJ : J s) : J (Net.run c s evs) := by
  induction evs generalizing s with
  | nil => exact hJ
  | cons e es ih =>
    rw [run_cons]
    exact ih _ hf.2 (hstep s e hf.1 hJ)

/-- node-level invariants: preserved by every method of the node ⇒ hold at every node after every event -/
private theorem node_inv_step (c : Cfg) (P : Node → Prop) (Q : Node → Pkt → Prop)
    (hrecv : ∀ n p, P n → P (n.recv c p).1)
    (hpush : ∀ n p n', P n → Q n p → n.push c p = some n' → P n')
    (hstop : ∀ n, P n → P n.stop) (hctx : ∀ n, P n → P (n.ctxEnd c)) (htake : ∀ n k, P n → P (n.take k).1)
    (hadv : ∀ (n : Node) d p, P n → (n.workers d).inflight = some p →
      P { n with workers := fun x => if x = d then (n.workers d).next (c.workersFollowCtx && n.ctxEnded) n.stopped else n.workers x })
    (hd : ∀ (n : Node) l, P n → P { n with direct := l })
    (s : Net) (e : Ev) (hf : ∀ i p, e = .push i p → Q (s.nodes i) p) (hall : ∀ j, P (s.nodes j)) :
    ∀ j, P ((s.step c e).1.nodes j) := by
  have hset : ∀ (s : Net) i n', (∀ j, P (s.nodes j)) → P n' → ∀ j, P ((s.setNode i n').nodes j) := by
    intro s i n' hs hn j
    unfold Net.setNode; simp only; split
    · exact hn
    · exact hs j
  refine net_inv_step c (fun s => ∀ j, P (s.nodes j)) Q ?_ ?_ ?_ ?_ ?_ ?_ ?_ ?_ s e hf hall
  · exact fun s i p n' hs hq hp => hset s i n' hs (hpush _ _ _ (hs i) hq hp)
  · intro s src d p hs j
    rw [deliver_nodes]; split
    · exact hrecv _ _ (hs d)
    · exact hs j
  · exact fun s i d p hs hin => hset s i _ hs (hadv _ d p (hs i) hin)
  · exact fun s i d h p rest hs _ => hset s i _ hs (hd _ _ (hs i))
  · exact fun s i d h hs => hs
  · exact fun s i hs => hset s i _ hs (hstop _ (hs i))
  · exact fun s i hs => hset s i _ hs (hctx _ (hs i))
  · exact fun s i k hs => hset s i _ hs (htake _ _ (hs i))

private theorem node_inv_run (c : Cfg) (P : Node → Prop) (Q : Node → Pkt → Prop)
    (hrecv : ∀ n p, P n → P (n.recv c p).1)
    (hpush : ∀ n p n', P n → Q n p → n.push c p = some n' → P n')
    (hstop : ∀ n, P n → P n.stop) (hctx : ∀ n, P n → P (n.ctxEnd c)) (htake : ∀ n k, P n → P (n.take k).1)
    (hadv : ∀ (n : Node) d p, P n → (n.workers d).inflight = some p →
      P { n with workers := fun x => if x = d then (n.workers d).next (c.workersFollowCtx && n.ctxEnded) n.stopped else n.workers x })
    (hd : ∀ (n : Node) l, P n → P { n with direct := l })
    (evs : List Ev) (s : Net) (hf : TraceQ c Q s evs) (hall : ∀ j, P (s.nodes j)) : ∀ j, P ((Net.run c s evs).nodes j) :=
  net_inv_run c (fun s => ∀ j, P (s.nodes j)) Q
    (fun s e hq hs => node_inv_step c P Q hrecv hpush hstop hctx htake hadv hd s e hq hs) evs s hf hall

/-! ### (1) handed to the application at most once per hash, and only if valid -/

def LogOK (n : Node) : Prop :=
  (∀ e ∈ n.appLog, e.2 = false → e.1.verifies = true ∧ e.1.decodes = true) ∧
  (n.stopped = false → (n.appLog.map (·.1.hash)).Nodup ∧ ∀ e ∈ n.appLog, e.1.hash ∈ n.seen)

private theorem pass_appLog (c : Cfg) (n : Node) (p : Pkt) :
    (n.pass c p).1.appLog = if (n.pass c p).2 then n.appLog ++ [(p, false)] else n.appLog := by
  unfold Node.pass; split <;> simp

private theorem nodup_snoc (l : List Nat) (x : Nat) (hl : l.Nodup) (hx : x ∉ l) : (l ++ [x]).Nodup := by
  rw [List.nodup_append]
  refine ⟨hl, by simp, ?_⟩
  intro a ha b hb
  rw [List.mem_singleton] at hb
  subst hb
  intro hab; subst hab; exact hx ha

private theorem logOK_recv (c : Cfg) (hc : c.putBeforeVerify = false) (n : Node) (p : Pkt) (h : LogOK n) : LogOK (n.recv c p).1 := by
  rw [recv_eq c hc]
  split
  · rename_i hacc
    unfold Node.accepts at hacc
    simp only [Bool.and_eq_true, Bool.not_eq_true', List.contains_eq_mem, decide_eq_false_iff_not] at hacc
    obtain ⟨⟨hdec, hfresh⟩, hver⟩ := hacc
    unfold LogOK
    simp only [pass_appLog, pass_stopped, pass_seen, sendout_stopped, sendout_appLog, sendout_seen]
    cases hb : ((n.sendout c p false).1.pass c p).2
    · simp only [Bool.false_eq_true, if_false]
      refine ⟨h.1, fun hst => ?_⟩
      obtain ⟨h1, h2⟩ := h.2 hst
      simp only [hst, Bool.false_eq_true, if_false]
      exact ⟨h1, fun e he => (put_mem _ _ _).2 (.inl (h2 e he))⟩
    · simp only [if_true]
      refine ⟨?_, fun hst => ?_⟩
      · intro e he hnet
        rcases List.mem_append.1 he with he | he
        · exact h.1 e he hnet
        · rw [List.mem_singleton] at he; subst he; exact ⟨hver, hdec⟩
      · obtain ⟨h1, h2⟩ := h.2 hst
        simp only [hst, Bool.false_eq_true, if_false, List.map_append, List.map_cons, List.map_nil]
        refine ⟨nodup_snoc _ _ h1 ?_, ?_⟩
        · intro hm
          rw [List.mem_map] at hm
          obtain ⟨e, he, hh⟩ := hm
          exact hfresh (hh ▸ h2 e he)
        · intro e he
          rcases List.mem_append.1 he with he | he
          · exact (put_mem _ _ _).2 (.inl (h2 e he))
          · rw [List.mem_singleton] at he; subst he; exact (put_mem _ _ _).2 (.inr rfl)
  · exact h

private theorem logOK_push (c : Cfg) (n : Node) (p : Pkt) (n' : Node) (h : LogOK n) (hf : p.hash ∉ n.seen) (hp : n.push c p = some n') :
    LogOK n' := by
  unfold Node.push at hp
  split at hp
  · simp only [Option.some.injEq] at hp
    subst hp
    unfold LogOK
    simp only [sendout_appLog, sendout_stopped, sendout_seen, setChan_stopped, setChan_seen]
    refine ⟨?_, fun hst => ?_⟩
    · intro e he hnet
      rcases List.mem_append.1 he with he | he
      · exact h.1 e he hnet
      · rw [List.mem_singleton] at he; subst he; cases hnet
    · obtain ⟨h1, h2⟩ := h.2 hst
      simp only [hst, Bool.false_eq_true, if_false, List.map_append, List.map_cons, List.map_nil]
      refine ⟨nodup_snoc _ _ h1 ?_, ?_⟩
      · intro hm
        rw [List.mem_map] at hm
        obtain ⟨e, he, hh⟩ := hm
        exact hf (hh ▸ h2 e he)
      · intro e he
        rcases List.mem_append.1 he with he | he
        · exact (put_mem _ _ _).2 (.inl (h2 e he))
        · rw [List.mem_singleton] at he; subst he; exact (put_mem _ _ _).2 (.inr rfl)
  · cases hp

private theorem take_fields (n : Node) (k : Kind) :
    (n.take k).1.appLog = n.appLog ∧ (n.take k).1.seen = n.seen ∧ (n.take k).1.stopped = n.stopped ∧
    (n.take k).1.appFull = n.appFull ∧ (n.take k).1.workers = n.workers := by
  unfold Node.take; split <;> simp
    <;> cases k <;> simp [Node.setChan]

/-- HANDED AT MOST ONCE, AND ONLY IF VALID. After any list of events in which a node only pushes bundles it has not seen
before: every bundle a node handed to its application from the network decoded and carried a valid signature, and as
long as the node is not stopped no two bundles it handed over (its own included) have the same hash. -/
theorem c06_bcast_deliver_valid_once (c : Cfg) (hc : c.putBeforeVerify = false) (evs : List Ev)
    (hf : PushFresh c Net.init evs) (i : Nat) :
    (∀ e ∈ ((Net.run c Net.init evs).nodes i).appLog, e.2 = false → e.1.verifies = true ∧ e.1.decodes = true) ∧
    (((Net.run c Net.init evs).nodes i).stopped = false →
      (((Net.run c Net.init evs).nodes i).appLog.map (·.1.hash)).Nodup) := by
  have h := node_inv_run c LogOK (fun n p => p.hash ∉ n.seen) (fun n p => logOK_recv c hc n p) (fun n p n' => logOK_push c n p n')
    (fun n h => ⟨h.1, fun hst => by simp [Node.stop] at hst⟩)
    (fun n h => h)
    (fun n k h => by
      obtain ⟨h1, h2, h3, _, _⟩ := take_fields n k
      unfold LogOK; rw [h1, h2, h3]; exact h)
    (fun n d p h _ => h) (fun n l h => h) evs Net.init hf
    (fun j => ⟨fun e he => by simp [Net.init] at he, fun _ => ⟨by simp [Net.init], fun e he => by simp [Net.init] at he⟩⟩) i
  exact ⟨h.1, fun hst => (h.2 hst).1⟩


/-- every hash a node has recorded was handed to its application (own pushes included), unless the application channel
was full at that moment (the non-blocking `passToApplication` then drops it, and says so) -/
def SeenHanded (n : Node) : Prop := ∀ h ∈ n.seen, (∃ e ∈ n.appLog, e.1.hash = h) ∨ h ∈ n.appFull

@[simp] private theorem setChan_appFull (n : Node) (k l) : (n.setChan k l).appFull = n.appFull := by cases k <;> rfl

private theorem pass_appFull (c : Cfg) (n : Node) (p : Pkt) :
    (n.pass c p).1.appFull = if (n.pass c p).2 then n.appFull else n.appFull ++ [p.hash] := by
  unfold Node.pass; split <;> simp

@[simp] private theorem sendout_appFull (c : Cfg) (n : Node) (p b) : (n.sendout c p b).1.appFull = n.appFull := by
  unfold Node.sendout Node.enqueueAll; split <;> (try split) <;> rfl

private theorem seenHanded_recv (c : Cfg) (hc : c.putBeforeVerify = false) (n : Node) (p : Pkt) (h : SeenHanded n) :
    SeenHanded (n.recv c p).1 := by
  rw [recv_eq c hc]
  split
  · intro x hx
    simp only [pass_seen, sendout_seen, pass_appLog, pass_appFull, sendout_appLog, sendout_appFull] at hx ⊢
    have hold : ∀ y, y ∈ n.seen → (∃ e ∈ (if ((n.sendout c p false).1.pass c p).2 = true then n.appLog ++ [(p, false)] else n.appLog), e.1.hash = y) ∨
        y ∈ (if ((n.sendout c p false).1.pass c p).2 = true then n.appFull else n.appFull ++ [p.hash]) := by
      intro y hy
      rcases h y hy with ⟨e, he, hh⟩ | h1
      · left; refine ⟨e, ?_, hh⟩; split
        · exact List.mem_append_left _ he
        · exact he
      · right; split
        · exact h1
        · exact List.mem_append_left _ h1
    split at hx
    · exact hold x hx
    · rcases (put_mem _ _ _).1 hx with h1 | h1
      · exact hold x h1
      · subst h1
        cases hb : ((n.sendout c p false).1.pass c p).2
        · right; simp
        · left; exact ⟨(p, false), by simp, rfl⟩
  · exact h

private theorem seenHanded_push (c : Cfg) (n : Node) (p : Pkt) (n' : Node) (h : SeenHanded n) (hp : n.push c p = some n') :
    SeenHanded n' := by
  unfold Node.push at hp
  split at hp
  · simp only [Option.some.injEq] at hp
    subst hp
    intro x hx
    simp only [sendout_seen, sendout_appLog, sendout_appFull, setChan_seen, setChan_appFull] at hx ⊢
    have hold : ∀ y, y ∈ n.seen → (∃ e ∈ n.appLog ++ [(p, true)], e.1.hash = y) ∨ y ∈ n.appFull := by
      intro y hy
      rcases h y hy with ⟨e, he, hh⟩ | h1
      · exact .inl ⟨e, List.mem_append_left _ he, hh⟩
      · exact .inr h1
    split at hx
    · exact hold x hx
    · rcases (put_mem _ _ _).1 hx with h1 | h1
      · exact hold x h1
      · subst h1; left; exact ⟨(p, true), by simp, rfl⟩
  · cases hp

/-- … so agreement on the seen-sets is agreement on what the applications were given -/
theorem c06_bcast_seen_handed (c : Cfg) (hc : c.putBeforeVerify = false) (evs : List Ev) (i h : Nat)
    (hs : h ∈ ((Net.run c Net.init evs).nodes i).seen) :
    (∃ e ∈ ((Net.run c Net.init evs).nodes i).appLog, e.1.hash = h) ∨ h ∈ ((Net.run c Net.init evs).nodes i).appFull := by
  have := node_inv_run c SeenHanded (fun _ _ => True) (fun n p => seenHanded_recv c hc n p)
    (fun n p n' hn _ hp => seenHanded_push c n p n' hn hp) (fun n h => h) (fun n h => h)
    (fun n k h => by
      obtain ⟨h1, h2, _, h4, _⟩ := take_fields n k
      unfold SeenHanded; rw [h1, h2, h4]; exact h)
    (fun n d p h _ => h) (fun n l h => h) evs Net.init (traceQ_true c _ _)
    (fun j x hx => by simp [Net.init] at hx) i
  exact this h hs

/-! ### worker lifetime -/

/-- a worker that is not sending has nothing buffered, and only a stopped node has a worker that returned -/
def WLive (n : Node) : Prop :=
  ∀ d, ((n.workers d).inflight = none → (n.workers d).queue = []) ∧ ((n.workers d).alive = false → n.stopped = true)

private theorem wlive_offer (w : Worker) (q : Nat) (p : Pkt) (h1 : w.inflight = none → w.queue = []) (h2 : w.alive = true) :
    ((w.offer q p).1.inflight = none → (w.offer q p).1.queue = []) ∧ (w.offer q p).1.alive = true := by
  unfold Worker.offer
  split
  · exact ⟨fun h => by simp at h, h2⟩
  · rename_i hc
    have hin : w.inflight ≠ none := by
      intro hn
      apply hc
      simp [h2, hn, h1 hn]
    split
    · exact ⟨fun h => absurd h hin, h2⟩
    · exact ⟨fun h => absurd h hin, h2⟩

private theorem wlive_recv (c : Cfg) (hc : c.putBeforeVerify = false) (n : Node) (p : Pkt) (h : WLive n) : WLive (n.recv c p).1 := by
  rw [recv_eq c hc]
  split
  · intro d
    simp only [pass_workers, pass_stopped, sendout_workers_relay, sendout_stopped]
    split
    · rename_i hcond
      simp only [Bool.and_eq_true, Bool.not_eq_true'] at hcond
      have hal : (n.workers d).alive = true := by
        cases ha : (n.workers d).alive
        · have := (h d).2 ha; rw [hcond.1] at this; cases this
        · rfl
      obtain ⟨h1, h2⟩ := wlive_offer (n.workers d) c.qcap p (h d).1 hal
      exact ⟨h1, fun hf => by rw [h2] at hf; cases hf⟩
    · exact h d
  · exact h

/-- WORKER LIFETIME. With workers that do not follow the request context (the code as regenerated), after any list of
events — request contexts ending included — every relay worker of a node that was not stopped is running, and a worker
that is not in the middle of a send has an empty queue: whatever is waiting in worker i→d is being sent, i.e. a
`relay i d` event is enabled for it. -/
theorem c06_bcast_workers_live (c : Cfg) (hc : c.putBeforeVerify = false) (hf : c.workersFollowCtx = false)
    (evs : List Ev) (i d : Nat) :
    let w := ((Net.run c Net.init evs).nodes i).workers d
    (w.inflight = none → w.queue = []) ∧ (w.alive = false → ((Net.run c Net.init evs).nodes i).stopped = true) := by
  have := node_inv_run c WLive (fun _ _ => True) (fun n p => wlive_recv c hc n p)
    (fun n p n' hn _ hp => by
      unfold Node.push at hp
      split at hp
      · simp only [Option.some.injEq] at hp; subst hp
        intro d; rw [sendout_workers_push, sendout_stopped]; simpa using hn d
      · cases hp)
    (fun n hn d => by
      unfold Node.stop; simp only
      split
      · rename_i hc2
        simp only [Bool.and_eq_true, Option.isNone_iff_eq_none, List.isEmpty_iff] at hc2
        exact ⟨fun _ => hc2.2, fun _ => trivial⟩
      · exact ⟨(hn d).1, fun _ => trivial⟩)
    (fun n hn d => by unfold Node.ctxEnd; simp only [hf, Bool.false_and, Bool.false_eq_true, if_false]; exact hn d)
    (fun n k hn d => by
      obtain ⟨_, _, h3, _, h5⟩ := take_fields n k
      rw [h5, h3]; exact hn d)
    (fun n d p hn hin x => by
      simp only
      split
      · rename_i hx; subst hx
        unfold Worker.next
        simp only [hf, Bool.false_and, Bool.false_eq_true, if_false]
        split
        · exact ⟨fun h => by simp at h, (hn x).2⟩
        · rename_i hq
          refine ⟨fun _ => hq, fun ha => ?_⟩
          simpa using ha
      · exact hn x)
    (fun n l hn => hn) evs Net.init (traceQ_true c _ _)
    (fun j d => ⟨fun _ => rfl, fun h => by simp [Net.init] at h⟩) i d
  exact this


/-! ### (4) bounded queues -/

def QInv (c : Cfg) (s : Net) : Prop :=
  (∀ i d, ((s.nodes i).workers d).queue.length ≤ (s.nodes i).seen.length) ∧
  (∀ i d h, (i, d, h, Loss.queueFull) ∈ s.lost → c.qcap < (s.nodes i).seen.length)

private theorem offer_queue_le (w : Worker) (q : Nat) (p : Pkt) : (w.offer q p).1.queue.length ≤ w.queue.length + 1 := by
  unfold Worker.offer; split
  · simp
  · split <;> simp

private theorem offer_false_full (w : Worker) (q : Nat) (p : Pkt) (h : (w.offer q p).2 = false) : q ≤ w.queue.length := by
  unfold Worker.offer at h; split at h
  · cases h
  · split at h
    · cases h
    · rename_i h2; exact Nat.le_of_not_lt h2

private theorem put_length (l : List Nat) (h : Nat) : l.length ≤ (put l h).length := by
  unfold put; split <;> simp

private theorem qinv_setNode (c : Cfg) (s : Net) (i : Nat) (n' : Node) (hq : QInv c s)
    (h1 : (s.nodes i).seen.length ≤ n'.seen.length)
    (h2 : ∀ d, (n'.workers d).queue.length ≤ ((s.nodes i).workers d).queue.length) : QInv c (s.setNode i n') := by
  constructor
  · intro j d; unfold Net.setNode; simp only; split
    · subst j; exact Nat.le_trans (h2 d) (Nat.le_trans (hq.1 i d) h1)
    · exact hq.1 j d
  · intro j d h hm
    have := hq.2 j d h hm
    unfold Net.setNode; simp only; split
    · subst j; exact Nat.lt_of_lt_of_le this h1
    · exact this

private theorem qinv_step (c : Cfg) (hc : c.putBeforeVerify = false) (s : Net) (_hwf : WF s) (e : Ev) (hq : QInv c s) :
    QInv c (s.step c e).1 := by
  refine net_inv_step c (QInv c) (fun _ _ => True) ?_ ?_ ?_ ?_ ?_ ?_ ?_ ?_ s e (fun _ _ _ => trivial) hq
  · intro s i p n' hs _ hp
    unfold Node.push at hp; split at hp
    · simp only [Option.some.injEq] at hp; subst hp
      refine qinv_setNode c s i _ hs ?_ ?_
      · rw [sendout_seen]; split
        · simp
        · simpa using put_length _ _
      · intro d; rw [sendout_workers_push]; simp
    · cases hp
  · intro s src d p hs
    constructor
    · intro j x
      rw [deliver_nodes]; split
      · subst j
        rw [recv_eq c hc]; split
        · simp only [pass_workers, pass_seen, sendout_workers_relay, sendout_seen]
          cases hst : (s.nodes d).stopped
          · simp only [Bool.not_false, Bool.true_and, Bool.false_eq_true, if_false]
            rename_i hacc
            have hfresh : p.hash ∉ (s.nodes d).seen := by
              unfold Node.accepts at hacc; simp at hacc; exact hacc.1.2
            have hlen : (put (s.nodes d).seen p.hash).length = (s.nodes d).seen.length + 1 := by
              unfold put; rw [if_neg (by simpa using hfresh)]; simp
            rw [hlen]
            split
            · exact Nat.le_trans (offer_queue_le _ _ _) (Nat.succ_le_succ (hs.1 d x))
            · exact Nat.le_succ_of_le (hs.1 d x)
          · simp only [Bool.not_true, Bool.false_and, Bool.false_eq_true, if_false, if_true]; exact hs.1 d x
        · exact hs.1 d x
      · exact hs.1 j x
    · intro j x h hm
      rw [deliver_lost] at hm
      have hmono : ∀ j, (s.nodes j).seen.length ≤ ((s.deliver c src d p).1.nodes j).seen.length := by
        intro j; rw [deliver_nodes]; split
        · subst j; rw [recv_eq c hc]; split
          · simp only [pass_seen, sendout_seen]; split
            · exact Nat.le_refl _
            · exact put_length _ _
          · exact Nat.le_refl _
        · exact Nat.le_refl _
      rcases List.mem_append.1 hm with hm | hm
      · exact Nat.lt_of_lt_of_le (hs.2 j x h hm) (hmono j)
      · by_cases hacc : (s.nodes d).accepts p = true
        · rw [recv_eq c hc, if_pos hacc] at hm
          simp only [sendout_full_relay] at hm
          rcases List.mem_append.1 hm with hm | hm
          · split at hm <;> simp at hm
          · cases hst : (s.nodes d).stopped
            · simp only [hst, Bool.false_eq_true, if_false, List.mem_map, List.mem_filter, Prod.mk.injEq, and_true] at hm
              obtain ⟨y, ⟨_, hy⟩, hj, hx, _⟩ := hm
              subst hj; subst hx
              have hfull := offer_false_full _ _ _ (by simpa using hy)
              have hfresh : p.hash ∉ (s.nodes d).seen := by
                unfold Node.accepts at hacc; simp at hacc; exact hacc.1.2
              rw [deliver_nodes, if_pos rfl, recv_eq c hc, if_pos hacc]
              simp only [pass_seen, sendout_seen, hst, Bool.false_eq_true, if_false]
              unfold put; rw [if_neg (by simpa using hfresh)]
              simp only [List.length_append, List.length_cons, List.length_nil]
              exact Nat.lt_succ_of_le (Nat.le_trans hfull (hs.1 d y))
            · simp [hst] at hm
        · rw [recv_eq c hc, if_neg hacc] at hm
          by_cases h1 : p.decodes = false
          · simp [h1] at hm
          · by_cases h2 : p.hash ∈ (s.nodes d).seen
            · simp [h1, h2] at hm
            · simp [h1, h2] at hm
  · intro s i d p hs hin
    unfold Net.advance
    refine qinv_setNode c s i _ hs (Nat.le_refl _) ?_
    intro x; simp only; split
    · rename_i hx; subst hx
      unfold Worker.next; split
      · exact Nat.le_refl _
      · split
        · rename_i hq2; rw [hq2]; simp
        · simp
    · exact Nat.le_refl _
  · intro s i d h p rest hs _
    exact qinv_setNode c s i _ hs (Nat.le_refl _) (fun _ => Nat.le_refl _)
  · intro s i d h hs
    refine ⟨hs.1, ?_⟩
    intro j x y hm
    rcases List.mem_append.1 hm with hm | hm
    · exact hs.2 j x y hm
    · simp at hm
  · intro s i hs
    refine qinv_setNode c s i _ hs (Nat.le_refl _) ?_
    intro d; unfold Node.stop; simp only; split <;> exact Nat.le_refl _
  · intro s i hs
    refine qinv_setNode c s i _ hs (Nat.le_refl _) ?_
    intro d; unfold Node.ctxEnd; simp only; split <;> exact Nat.le_refl _
  · intro s i k hs
    obtain ⟨_, h2, _, _, h5⟩ := take_fields (s.nodes i) k
    exact qinv_setNode c s i _ hs (by rw [h2]; exact Nat.le_refl _) (fun d => by rw [h5]; exact Nat.le_refl _)

/-- BOUNDED QUEUES. What is dropped when a relay queue is full is the relay of that one bundle to that one destination
(recorded as `Loss.queueFull`); after any list of events, a node has dropped a relay on a full queue only if it has
accepted more distinct bundles than a queue holds (`senderQueueSize(n)`). In a run in which every participant signs one
bundle per phase a node accepts at most 3·n bundles, so nothing is dropped; see `c06_bcast_overflow_counterexample` for
why this is a hypothesis of agreement and not a theorem. -/
theorem c06_bcast_no_overflow (c : Cfg) (hc : c.putBeforeVerify = false) (evs : List Ev) (i d h : Nat)
    (hl : (i, d, h, Loss.queueFull) ∈ (Net.run c Net.init evs).lost) :
    c.qcap < ((Net.run c Net.init evs).nodes i).seen.length := by
  have : WF (Net.run c Net.init evs) ∧ QInv c (Net.run c Net.init evs) := by
    refine net_inv_run c (fun s => WF s ∧ QInv c s) (fun _ _ => True) ?_ evs Net.init (traceQ_true c _ _) ?_
    · intro s e _ hs
      exact ⟨(step_trans c hc s hs.1 e).2, qinv_step c hc s hs.1 e hs.2⟩
    · exact ⟨init_wf, fun _ _ => Nat.le_refl _, fun _ _ _ hm => by simp [Net.init] at hm⟩
  exact this.2.2 i d h hl


/-! ### (2) no poisoning -/

private theorem inject_bad_nodes (c : Cfg) (hc : c.putBeforeVerify = false) (s : Net) (j : Nat) (p : Pkt)
    (hbad : (p.decodes && p.verifies) = false) : (s.step c (.inject j p)).1.nodes = s.nodes := by
  funext k
  simp only [Net.step]
  rw [deliver_nodes]; split
  · rename_i hk; subst hk
    rw [recv_eq c hc, if_neg]
    unfold Node.accepts
    cases hd : p.decodes <;> cases hv : p.verifies <;> simp_all
  · rfl

/-- NO POISONING. A packet that does not decode or does not verify leaves every node exactly as it was — in particular
the seen-set of the node it was sent to — whatever its hash. So when the genuine bundle `q` (possibly with the very same
hash: the hash does not cover the signature) arrives afterwards at a node that has not seen it, it is recorded, handed to
the application (or dropped on a full application channel, and recorded as such) and a relay to every other participant
is set up (waiting, or dropped on a full queue and recorded as such, or the destination has it already). -/
theorem c06_bcast_invalid_harmless (c : Cfg) (hc : c.putBeforeVerify = false) (s : Net) (hwf : WF s) (j : Nat) (p q : Pkt)
    (hbad : (p.decodes && p.verifies) = false) (hq : q.decodes = true ∧ q.verifies = true)
    (hfresh : q.hash ∉ (s.nodes j).seen) (hst : (s.nodes j).stopped = false) :
    let s1 := (s.step c (.inject j p)).1
    let s2 := (s1.step c (.inject j q)).1
    s1.nodes = s.nodes ∧ q.hash ∈ (s2.nodes j).seen ∧
    ((q, false) ∈ (s2.nodes j).appLog ∨ q.hash ∈ (s2.nodes j).appFull) ∧
    ∀ d, c.isPeer j d = true → q.hash ∈ (s2.nodes d).seen ∨ pending s2 j d q.hash ∨ isLost s2 j d q.hash := by
  intro s1 s2
  have h1 : s1.nodes = s.nodes := inject_bad_nodes c hc s j p hbad
  have hwf1 : WF s1 := fun i => by rw [h1]; exact hwf i
  have hacc : (s1.nodes j).accepts q = true := by
    rw [h1]; unfold Node.accepts
    simp [hq.1, hq.2, hfresh]
  have hseen : q.hash ∈ (s2.nodes j).seen := by
    show q.hash ∈ ((s1.deliver c c.n j q).1.nodes j).seen
    rw [deliver_nodes, if_pos rfl, recv_eq c hc, if_pos hacc]
    simp only [pass_seen, sendout_seen, h1, hst, Bool.false_eq_true, if_false]
    exact (put_mem _ _ _).2 (.inr rfl)
  refine ⟨h1, hseen, ?_, ?_⟩
  · show (q, false) ∈ ((s1.deliver c c.n j q).1.nodes j).appLog ∨ q.hash ∈ ((s1.deliver c c.n j q).1.nodes j).appFull
    rw [deliver_nodes, if_pos rfl, recv_eq c hc, if_pos hacc]
    simp only [pass_appLog, pass_appFull]
    cases ((s1.nodes j).sendout c q false).1.pass c q |>.2
    · right; simp
    · left; simp
  · intro d hpeer
    have t := deliver_trans c hc s1 hwf1 c.n j q
    exact t.fresh j d q.hash hpeer hseen (by rw [h1]; exact hfresh)

/-- … and it is the order "look up, verify, only then record" that gives this: with the seen-set written before the
signature is verified, one copy of a bundle with a broken signature makes the node drop the genuine bundle for good -/
theorem c06_bcast_poison_counterexample :
    let c : Cfg := { n := 3, putBeforeVerify := true }
    let forged : Pkt := { hash := 7, sigValid := false }
    let genuine : Pkt := { hash := 7 }
    let s := Net.run c Net.init [.inject 2 forged, .inject 2 genuine]
    (s.nodes 2).appLog = [] ∧ (s.nodes 2).seen = [7] ∧ ((s.nodes 2).workers 0).inflight = none := by
  decide

/-- non-vacuity of `c06_bcast_invalid_harmless`: the same two packets under the code's order -/
example :
    let c : Cfg := Cfg.asIs 3
    let forged : Pkt := { hash := 7, sigValid := false }
    let genuine : Pkt := { hash := 7 }
    let s := Net.run c Net.init [.inject 2 forged, .inject 2 genuine]
    (s.nodes 2).appLog = [(genuine, false)] ∧ (s.nodes 2).seen = [7] ∧ ((s.nodes 2).workers 0).inflight = some genuine := by
  decide


/-! ### counterexamples for the hypotheses, and non-vacuity -/

/-- why `c06_bcast_deliver_valid_once` speaks about nodes that are not stopped: `sendout` returns before recording the
hash once `isStopped` is set, `BroadcastDKG` still passes the bundle on — a stopped broadcaster hands the same bundle to
its (no longer read) channel every time it arrives -/
theorem c06_bcast_after_stop_counterexample :
    let c : Cfg := Cfg.asIs 3
    let g : Pkt := { hash := 7 }
    let s := Net.run c Net.init [.stop 2, .inject 2 g, .inject 2 g]
    (s.nodes 2).appLog = [(g, false), (g, false)] ∧ (s.nodes 2).seen = [] := by
  decide

/-- the scenario of the relay property: node 1's deal reaches node 0 but not node 2 (one-way failure of the link 1→2);
node 0's relay worker carries it over. Both configurations run the same eight events; node 0's request context has ended
before any bundle flows, as it always has over gRPC. -/
def relayScenario : List Ev :=
  [.ctxEnd 0, .ctxEnd 1, .ctxEnd 2, .push 1 { hash := 7 }, .direct 1 0 7 true, .direct 1 2 7 false,
   .relay 0 2 true, .relay 0 1 true]

/-- with workers that leave when the request context ends, node 2 never gets the deal: it sits in node 0's queue for
node 2, whose worker is gone — no `relay` event can move it (here: the `relay 0 2` event finds the worker idle) -/
theorem c06_bcast_ctx_bound_workers_counterexample :
    let c : Cfg := { n := 3, workersFollowCtx := true }
    let s := Net.run c Net.init relayScenario
    (s.nodes 0).seen = [7] ∧ (s.nodes 2).seen = [] ∧ ((s.nodes 0).workers 2).queue = [{ hash := 7 }] ∧
    ((s.nodes 0).workers 2).inflight = none ∧ ((s.nodes 0).workers 2).alive = false ∧
    (s.step c (.relay 0 2 true)).2 = .idle := by
  decide

/-- the code as it is: same events, node 2 has the deal and was handed it -/
example :
    let c : Cfg := Cfg.asIs 3
    let s := Net.run c Net.init relayScenario
    (s.nodes 0).seen = [7] ∧ (s.nodes 2).seen = [7] ∧ (s.nodes 2).appLog = [({ hash := 7 }, false)] ∧
    s.lost = [(1, 2, 7, .linkDown)] := by
  decide

/-- non-vacuity of `c06_bcast_agreement`: its hypotheses hold in that run for i = 0, d = 2, h = 7 -/
example : (7 : Nat) ∈ ((Net.run (Cfg.asIs 3) Net.init relayScenario).nodes 2).seen := by
  refine c06_bcast_agreement (Cfg.asIs 3) rfl relayScenario 0 2 7 (by decide) (by decide) (by decide) ?_ ?_
  · have h1 : (((Net.run (Cfg.asIs 3) Net.init relayScenario).nodes 0).workers 2).queue = [] := by decide
    have h2 : (((Net.run (Cfg.asIs 3) Net.init relayScenario).nodes 0).workers 2).inflight = none := by decide
    have h3 : ((Net.run (Cfg.asIs 3) Net.init relayScenario).nodes 0).direct = [] := by decide
    unfold pending Worker.has
    rw [h1, h2, h3]
    simp
  · have h1 : (Net.run (Cfg.asIs 3) Net.init relayScenario).lost = [(1, 2, 7, .linkDown)] := by decide
    unfold isLost
    rw [h1]
    simp

/-- non-vacuity of `c06_bcast_deliver_valid_once` and `c06_bcast_workers_live`: the hypotheses hold for that trace -/
example : PushFresh (Cfg.asIs 3) Net.init relayScenario := by
  unfold relayScenario PushFresh
  simp only [TraceQ]
  refine ⟨?_, ?_, ?_, ?_, ?_, ?_, ?_, ?_, trivial⟩
  all_goals (intro i p h; first | cases h | skip)
  decide

/-- why agreement needs "no relay was dropped on a full queue" as a hypothesis. Two participants (queues of 6): one of
them signs eight bundles instead of one per phase; node 0 accepts them all, the worker to node 1 holds one and its queue
six, the eighth — and the honest bundle 100 that follows — find the queue full. Every link delivers, every queued relay is
carried out, and node 1 never gets bundle 100. -/
theorem c06_bcast_overflow_counterexample :
    let c : Cfg := Cfg.asIs 2
    let flood : List Ev := (List.range 8).map fun k => .inject 0 { hash := k }
    let s := Net.run c Net.init (flood ++ [.inject 0 { hash := 100 }] ++ (List.range 8).map fun _ => .relay 0 1 true)
    c.qcap = 6 ∧ (0, 1, 100, Loss.queueFull) ∈ s.lost ∧ (s.nodes 0).seen.length = 9 ∧ 100 ∈ (s.nodes 0).seen ∧
    100 ∉ (s.nodes 1).seen ∧ ((s.nodes 0).workers 1).queue = [] ∧ ((s.nodes 0).workers 1).inflight = none := by
  decide

/-- non-vacuity of `c06_bcast_no_overflow` (its hypothesis holds there, and its conclusion 6 < 9) -/
example :
    let c : Cfg := Cfg.asIs 2
    let flood : List Ev := (List.range 8).map fun k => .inject 0 { hash := k }
    c.qcap < ((Net.run c Net.init (flood ++ [.inject 0 { hash := 100 }])).nodes 0).seen.length :=
  c06_bcast_no_overflow (Cfg.asIs 2) rfl _ 0 1 100 (by decide)


end Drand.DKG.Bcast
