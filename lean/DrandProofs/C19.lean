/-
C19 — requests reach only the beacon chain they name.
Property theorems (names listed in vlib/props/C19.py). Model: Drand/Daemon/Routing.lean.
-/
import Drand.Daemon.Routing
import Gen.Routing

namespace Drand.Daemon
open Drand

/-! ### Go maps as association lists -/
section Assoc
variable {κ β : Type} [DecidableEq κ]

private theorem aget_adel (k k' : κ) (l : List (κ × β)) :
    aget k (adel k' l) = if k = k' then none else aget k l := by
  induction l with
  | nil => simp [adel, aget]
  | cons a t ih =>
    obtain ⟨k1, v1⟩ := a
    by_cases h1 : k' = k1
    · subst h1
      by_cases h2 : k = k'
      · subst h2; simp [adel, ih]
      · simp [adel, aget, ih, h2]
    · by_cases h2 : k = k'
      · subst h2; simp [adel, aget, h1, ih]
      · simp only [adel, if_neg h1, aget, ih, if_neg h2]

private theorem aget_aset (k k' : κ) (v : β) (l : List (κ × β)) :
    aget k (aset k' v l) = if k = k' then some v else aget k l := by
  by_cases h : k = k'
  · subst h; simp [aset, aget]
  · simp [aset, aget, h, aget_adel]

private theorem aget_aset_self (k : κ) (v : β) (l : List (κ × β)) : aget k (aset k v l) = some v := by
  simp [aget_aset]

private theorem aget_aset_ne {k k' : κ} (h : k ≠ k') (v : β) (l : List (κ × β)) :
    aget k (aset k' v l) = aget k l := by
  simp [aget_aset, h]

private theorem aget_adel_self (k : κ) (l : List (κ × β)) : aget k (adel k l) = none := by
  simp [aget_adel]

private theorem aget_adel_ne {k k' : κ} (h : k ≠ k') (l : List (κ × β)) : aget k (adel k' l) = aget k l := by
  simp [aget_adel, h]

private theorem aget_adel_some {k k' : κ} {l : List (κ × β)} {v : β} (h : aget k (adel k' l) = some v) :
    k ≠ k' ∧ aget k l = some v := by
  by_cases hk : k = k'
  · subst hk; simp [aget_adel] at h
  · exact ⟨hk, by simpa [aget_adel, hk] using h⟩

end Assoc

/-! ### ties to the regenerated source facts -/

theorem tie_defaultBeaconID : Gen.Routing.defaultBeaconID = defaultBeaconID := rfl
theorem tie_defaultChainHash : Gen.Routing.defaultChainHash = defaultChainHash := rfl
theorem tie_isDefaultBeaconID : Gen.Routing.isDefaultBeaconID = isDefaultBeaconID := rfl
theorem tie_canon : Gen.Routing.getCanonicalBeaconID = canon := rfl
theorem tie_compareBeaconIDs : Gen.Routing.compareBeaconIDs = compareBeaconIDs := rfl

/-! ### beacon ids and chain-hash keys -/

private theorem isDefault_iff (id : Id) : isDefaultBeaconID id = true ↔ (id = "default" ∨ id = "") := by
  simp [isDefaultBeaconID, defaultBeaconID]

private theorem canon_of_default {id : Id} (h : isDefaultBeaconID id = true) : canon id = defaultBeaconID := by
  simp [canon, h]

private theorem canon_of_not_default {id : Id} (h : isDefaultBeaconID id = false) : canon id = id := by
  simp [canon, h]

private theorem isDefault_defaultBeaconID : isDefaultBeaconID defaultBeaconID = true := by
  simp [isDefaultBeaconID]

private theorem isDefault_canon (id : Id) : isDefaultBeaconID (canon id) = isDefaultBeaconID id := by
  cases h : isDefaultBeaconID id
  · rw [canon_of_not_default h, h]
  · rw [canon_of_default h, isDefault_defaultBeaconID]

private theorem canon_idem (id : Id) : canon (canon id) = canon id := by
  cases h : isDefaultBeaconID id
  · rw [canon_of_not_default h, canon_of_not_default h]
  · rw [canon_of_default h, canon_of_default isDefault_defaultBeaconID]

private theorem canon_eq_default_iff (id : Id) : canon id = defaultBeaconID ↔ isDefaultBeaconID id = true := by
  constructor
  · intro h
    cases hd : isDefaultBeaconID id
    · rw [canon_of_not_default hd] at h; rw [h, isDefault_defaultBeaconID] at hd; cases hd
    · rfl
  · exact canon_of_default

private theorem compare_iff (a b : Id) : compareBeaconIDs a b = true ↔ canon a = canon b := by
  unfold compareBeaconIDs
  cases ha : isDefaultBeaconID a <;> cases hb : isDefaultBeaconID b
  · simp [canon_of_not_default ha, canon_of_not_default hb]
  · simp only [Bool.false_and, Bool.false_eq_true, if_false, canon_of_not_default ha, canon_of_default hb]
    have : a ≠ b := by intro h; rw [h, hb] at ha; cases ha
    have h2 : a ≠ defaultBeaconID := by intro h; rw [h, isDefault_defaultBeaconID] at ha; cases ha
    simp [this, h2]
  · simp only [Bool.and_false, Bool.false_eq_true, if_false, canon_of_default ha, canon_of_not_default hb]
    have : a ≠ b := by intro h; rw [h, hb] at ha; cases ha
    have h2 : defaultBeaconID ≠ b := by intro h; rw [← h, isDefault_defaultBeaconID] at hb; cases hb
    simp [this, h2]
  · simp [canon_of_default ha, canon_of_default hb]

private theorem hexChars_length (b : Bytes) : (hexChars b).length = 2 * b.length := by
  induction b with
  | nil => rfl
  | cons x t ih =>
    have : hexChars (x :: t) = [hexDigit (x.toNat / 16), hexDigit (x.toNat % 16)] ++ hexChars t := by
      simp [hexChars]
    rw [this]; simp [ih]; omega

/-- `fmt.Sprintf("%x", bytes)` never yields the reserved key "default" (it has an even number of characters):
the `default` entries of both tables cannot be addressed by a chain hash. -/
theorem c19_hex_ne_default (b : Bytes) : hexStr b ≠ defaultChainHash := by
  intro h
  have h1 : (hexStr b).length = defaultChainHash.length := by rw [h]
  have h2 : defaultChainHash.length = 7 := by decide
  rw [h2] at h1
  simp [hexStr, hexChars_length] at h1
  omega

private theorem hexStr_eq_empty_iff (b : Bytes) : hexStr b = "" ↔ b = [] := by
  constructor
  · intro h
    have h1 : (hexStr b).length = 0 := by rw [h]; rfl
    simp [hexStr, hexChars_length] at h1
    cases b with
    | nil => rfl
    | cons x t => simp at h1
  · intro h; subst h; rfl

example : hexStr [0xde, 0xfa] = "defa" := by decide
example : c19_hex_ne_default [0x64, 0x65] = c19_hex_ne_default [0x64, 0x65] := rfl


/-! ### the consistency of the tables -/

/-- What the two routing tables say is true of the running processes: an entry of `chainHashes` names a running
process whose group has exactly that chain hash (the `default` key: the default process, which has a group); an HTTP
handler proxies a running process object (same incarnation) whose group has the hash it is registered under. -/
structure Inv (s : State) : Prop where
  procKey : ∀ i p, aget i s.procs = some p → canon i = i
  hashOk : ∀ k id, aget k s.hashes = some id →
    ∃ p g, aget (canon id) s.procs = some p ∧ p.group = some g ∧
      (k = hexStr g.hash ∨ (k = defaultChainHash ∧ canon id = defaultBeaconID))
  httpOk : ∀ k r, aget k s.http = some r →
    ∃ p g, aget r.id s.procs = some p ∧ p.gen = r.gen ∧ p.group = some g ∧
      (k = hexStr g.hash ∨ (k = defaultChainHash ∧ r.id = defaultBeaconID))

/-! ### resolving one request -/

private theorem rb_none (s : State) : readBeaconID s none = .ok defaultBeaconID := by
  simp [readBeaconID, canon, isDefaultBeaconID]

private theorem rb_nohash (s : State) (m : Req) (hh : m.hash = []) :
    readBeaconID s (some m) = .ok (canon m.id) := by
  simp [readBeaconID, hh]

private theorem rb_known (s : State) (m : Req) (hh : m.hash ≠ []) (id' : Id)
    (hk : aget (hexStr m.hash) s.hashes = some id') :
    readBeaconID s (some m) =
      if m.id ≠ "" ∧ compareBeaconIDs m.id id' = false then .error .mismatch else .ok (canon id') := by
  simp only [readBeaconID, hh, ne_eq, not_false_eq_true, if_true, hk]
  by_cases h1 : m.id = ""
  · simp [h1]
  · cases h2 : compareBeaconIDs m.id id' <;> simp [h1]

private theorem rb_unknown (s : State) (m : Req) (hh : m.hash ≠ [])
    (hk : aget (hexStr m.hash) s.hashes = none) :
    readBeaconID s (some m) =
      match aget (canon m.id) s.procs with
      | some bp => if bp.group = none then .ok (canon m.id) else .error .unknownHash
      | none => .error .unknownHash := by
  simp only [readBeaconID, hh, ne_eq, not_false_eq_true, if_true, hk]
  cases aget (canon m.id) s.procs with
  | none => rfl
  | some bp => cases hg : bp.group <;> simp

private theorem route_eq (s : State) (md : Option Req) :
    route s md = match readBeaconID s md with
      | .error e => .error e
      | .ok id => match aget id s.procs with
        | some bp => .ok (id, bp)
        | none => .error .notRunning := by
  unfold route getBeaconProcessByID
  cases hr : readBeaconID s md with
  | error e => rfl
  | ok id =>
    simp only []
    cases hp : aget id s.procs <;> simp

private theorem route_ok_iff {s : State} {md : Option Req} {id : Id} {p : Proc} :
    route s md = .ok (id, p) ↔ readBeaconID s md = .ok id ∧ aget id s.procs = some p := by
  rw [route_eq]
  cases hr : readBeaconID s md with
  | error e => simp
  | ok i =>
    simp only []
    cases hp : aget i s.procs with
    | none =>
      simp only [Except.ok.injEq]
      constructor
      · intro h; cases h
      · rintro ⟨h1, h2⟩; subst h1; rw [hp] at h2; cases h2
    | some q =>
      simp only [Except.ok.injEq, Prod.mk.injEq]
      constructor
      · rintro ⟨h1, h2⟩; subst h1; subst h2; exact ⟨rfl, hp⟩
      · rintro ⟨h1, h2⟩; subst h1; rw [hp] at h2; cases h2; exact ⟨rfl, rfl⟩

private theorem readBeaconID_canon {s : State} {md : Option Req} {id : Id} (h : readBeaconID s md = .ok id) :
    canon id = id := by
  cases md with
  | none => rw [rb_none] at h; cases h; exact canon_of_default isDefault_defaultBeaconID
  | some m =>
    by_cases hh : m.hash = []
    · rw [rb_nohash s m hh] at h; cases h; exact canon_idem _
    · cases hk : aget (hexStr m.hash) s.hashes with
      | some id' =>
        rw [rb_known s m hh id' hk] at h
        split at h
        · cases h
        · cases h; exact canon_idem _
      | none =>
        rw [rb_unknown s m hh hk] at h
        split at h
        · split at h
          · cases h; exact canon_idem _
          · cases h
        · cases h

/-- **Soundness of routing.** If a request is handed to a process, that process is running under the id the request
resolved to; a non-empty id in the request is that id; a chain hash present in the table means the answering
process is the one the table names *and its own group has exactly that chain hash*; a chain hash absent from the
table is only accepted for a process without a group (pending DKG) named by the id; without a hash the id alone
(canonicalised) decides; a nil metadata goes to the default chain. -/
theorem c19_sound (s : State) (hs : Inv s) (md : Option Req) (id : Id) (p : Proc)
    (h : route s md = .ok (id, p)) :
    aget id s.procs = some p ∧
    (∀ m, md = some m → m.id ≠ "" → canon m.id = id) ∧
    (∀ m, md = some m → m.hash ≠ [] → ∀ id', aget (hexStr m.hash) s.hashes = some id' →
        id = canon id' ∧ ∃ g, p.group = some g ∧ hexStr g.hash = hexStr m.hash) ∧
    (∀ m, md = some m → m.hash ≠ [] → aget (hexStr m.hash) s.hashes = none →
        p.group = none ∧ id = canon m.id) ∧
    (∀ m, md = some m → m.hash = [] → id = canon m.id) ∧
    (md = none → id = defaultBeaconID) := by
  obtain ⟨hr, hp⟩ := route_ok_iff.1 h
  refine ⟨hp, ?_, ?_, ?_, ?_, ?_⟩
  · intro m hm hne
    subst hm
    by_cases hh : m.hash = []
    · rw [rb_nohash s m hh] at hr; cases hr; rfl
    · cases hk : aget (hexStr m.hash) s.hashes with
      | some id' =>
        rw [rb_known s m hh id' hk] at hr
        split at hr
        · cases hr
        · rename_i hc
          cases hr
          cases hcmp : compareBeaconIDs m.id id'
          · exact absurd ⟨hne, hcmp⟩ hc
          · exact (compare_iff _ _).1 hcmp
      | none =>
        rw [rb_unknown s m hh hk] at hr
        split at hr
        · split at hr
          · cases hr; rfl
          · cases hr
        · cases hr
  · intro m hm hne id' hk
    subst hm
    rw [rb_known s m hne id' hk] at hr
    split at hr
    · cases hr
    · cases hr
      obtain ⟨q, g, hq, hg, hkg⟩ := hs.hashOk _ _ hk
      rw [hq] at hp
      cases hp
      refine ⟨rfl, g, hg, ?_⟩
      rcases hkg with hkg | ⟨hkd, _⟩
      · exact hkg.symm
      · exact absurd hkd (c19_hex_ne_default _)
  · intro m hm hne hk
    subst hm
    rw [rb_unknown s m hne hk] at hr
    split at hr
    · rename_i bp hbp
      split at hr
      · rename_i hnone
        cases hr
        rw [hbp] at hp
        cases hp
        exact ⟨hnone, rfl⟩
      · cases hr
    · cases hr
  · intro m hm he
    subst hm
    rw [rb_nohash s m he] at hr
    cases hr; rfl
  · intro hm
    subst hm
    rw [rb_none] at hr
    cases hr; rfl

/-- **A mismatching id / hash pair is rejected**: the hash is in the table for another id than the (non-empty) one
the request carries. -/
theorem c19_mismatch_rejected (s : State) (m : Req) (id' : Id) (hh : m.hash ≠ [])
    (hk : aget (hexStr m.hash) s.hashes = some id') (hid : m.id ≠ "") (hne : canon m.id ≠ canon id') :
    route s (some m) = .error .mismatch := by
  have hc : compareBeaconIDs m.id id' = false := by
    cases h : compareBeaconIDs m.id id'
    · rfl
    · exact absurd ((compare_iff _ _).1 h) hne
  rw [route_eq, rb_known s m hh id' hk, if_pos ⟨hid, hc⟩]

/-- **A known hash alone selects its chain** (also together with the matching id): the request reaches the process
the table names, and that process' group has the requested chain hash. -/
theorem c19_hash_alone_selects (s : State) (hs : Inv s) (m : Req) (id' : Id) (hh : m.hash ≠ [])
    (hk : aget (hexStr m.hash) s.hashes = some id') (hid : m.id = "" ∨ canon m.id = canon id') :
    ∃ p g, route s (some m) = .ok (canon id', p) ∧ p.group = some g ∧ hexStr g.hash = hexStr m.hash := by
  obtain ⟨q, g, hq, hg, hkg⟩ := hs.hashOk _ _ hk
  refine ⟨q, g, ?_, hg, ?_⟩
  · apply route_ok_iff.2
    refine ⟨?_, hq⟩
    rw [rb_known s m hh id' hk, if_neg]
    rintro ⟨h1, h2⟩
    rcases hid with hid | hid
    · exact h1 hid
    · rw [(compare_iff _ _).2 hid] at h2; cases h2
  · rcases hkg with hkg | ⟨hkd, _⟩
    · exact hkg.symm
    · exact absurd hkd (c19_hex_ne_default _)

/-- **Neither id nor hash goes to the default chain only** (nil metadata, or empty id and empty hash). -/
theorem c19_neither_is_default (s : State) (md : Option Req) (h : md = none ∨ md = some ⟨"", []⟩) :
    route s md = match aget defaultBeaconID s.procs with
      | some p => .ok (defaultBeaconID, p)
      | none => .error .notRunning := by
  have hr : readBeaconID s md = .ok defaultBeaconID := by
    rcases h with h | h
    · subst h; exact rb_none s
    · subst h; rw [rb_nohash s _ rfl]; rfl
  rw [route_eq, hr]

/-- **HTTP paths under a chain hash serve only that chain.** The handler selected for a (decoded) chain hash proxies a
running process object whose group has that hash; without a hash in the path it is the default process. -/
theorem c19_http (s : State) (hs : Inv s) (h : Bytes) (r : Ref) (hr : getBeaconHandler s h = some r) :
    ∃ p g, aget r.id s.procs = some p ∧ p.gen = r.gen ∧ p.group = some g ∧
      (h = [] → r.id = defaultBeaconID) ∧ (h ≠ [] → hexStr g.hash = hexStr h) := by
  unfold getBeaconHandler at hr
  by_cases he : h = []
  · subst he
    have : hexStr [] = "" := rfl
    simp only [this, beq_self_eq_true, if_true] at hr
    obtain ⟨p, g, hp, hgen, hg, hk⟩ := hs.httpOk _ _ hr
    refine ⟨p, g, hp, hgen, hg, fun _ => ?_, fun h => absurd rfl h⟩
    rcases hk with hk | ⟨_, hd⟩
    · exact absurd hk.symm (c19_hex_ne_default _)
    · exact hd
  · have hne : hexStr h ≠ "" := fun hh => he ((hexStr_eq_empty_iff h).1 hh)
    have : (hexStr h == "") = false := by simpa using hne
    simp only [this, Bool.false_eq_true, if_false] at hr
    obtain ⟨p, g, hp, hgen, hg, hk⟩ := hs.httpOk _ _ hr
    refine ⟨p, g, hp, hgen, hg, fun h' => absurd h' he, fun _ => ?_⟩
    rcases hk with hk | ⟨hkd, _⟩
    · exact hk.symm
    · exact absurd hkd (c19_hex_ne_default _)

/-- The `default` entry of the HTTP table is reachable only by a path without chain hash: a decoded non-empty hash is
looked up under its own hex string, which is never "default". -/
theorem c19_http_default_only (s : State) (h : Bytes) :
    (h = [] → getBeaconHandler s h = aget defaultChainHash s.http) ∧
    (h ≠ [] → getBeaconHandler s h = aget (hexStr h) s.http ∧ hexStr h ≠ defaultChainHash) := by
  constructor
  · intro he; subst he; rfl
  · intro he
    have hne : hexStr h ≠ "" := fun hh => he ((hexStr_eq_empty_iff h).1 hh)
    have : (hexStr h == "") = false := by simpa using hne
    exact ⟨by simp [getBeaconHandler, this], c19_hex_ne_default h⟩

end Drand.Daemon
