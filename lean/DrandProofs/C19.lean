/-
C19 — requests reach only the beacon chain they name.
Property theorems (names listed in vlib/props/C19.py). Model: Drand/Daemon/Routing.lean.
-/
import Drand.Daemon.Routing
import Gen.Routing

namespace Drand.Daemon
open Drand

/-! ### Go maps as association lists -/
section Assoc
variable {κ β : Type} [DecidableEq κ]

private theorem aget_adel (k k' : κ) (l : List (κ × β)) :
    aget k (adel k' l) = if k = k' then none else aget k l := by
  induction l with
  | nil => simp [adel, aget]
  | cons a t ih =>
    obtain ⟨k1, v1⟩ := a
    by_cases h1 : k' = k1
    · subst h1
      by_cases h2 : k = k'
      · subst h2; simp [adel, ih]
      · simp [adel, aget, ih, h2]
    · by_cases h2 : k = k'
      · subst h2; simp [adel, aget, h1, ih]
      · simp only [adel, if_neg h1, aget, ih, if_neg h2]

private theorem aget_aset (k k' : κ) (v : β) (l : List (κ × β)) :
    aget k (aset k' v l) = if k = k' then some v else aget k l := by
  by_cases h : k = k'
  · subst h; simp [aset, aget]
  · simp [aset, aget, h, aget_adel]

private theorem aget_aset_self (k : κ) (v : β) (l : List (κ × β)) : aget k (aset k v l) = some v := by
  simp [aget_aset]

private theorem aget_aset_ne {k k' : κ} (h : k ≠ k') (v : β) (l : List (κ × β)) :
    aget k (aset k' v l) = aget k l := by
  simp [aget_aset, h]

private theorem aget_adel_self (k : κ) (l : List (κ × β)) : aget k (adel k l) = none := by
  simp [aget_adel]

private theorem aget_adel_ne {k k' : κ} (h : k ≠ k') (l : List (κ × β)) : aget k (adel k' l) = aget k l := by
  simp [aget_adel, h]

private theorem aget_adel_some {k k' : κ} {l : List (κ × β)} {v : β} (h : aget k (adel k' l) = some v) :
    k ≠ k' ∧ aget k l = some v := by
  by_cases hk : k = k'
  · subst hk; simp [aget_adel] at h
  · exact ⟨hk, by simpa [aget_adel, hk] using h⟩

end Assoc

/-! ### ties to the regenerated source facts -/

theorem tie_defaultBeaconID : Gen.Routing.defaultBeaconID = defaultBeaconID := rfl
theorem tie_defaultChainHash : Gen.Routing.defaultChainHash = defaultChainHash := rfl
theorem tie_isDefaultBeaconID : Gen.Routing.isDefaultBeaconID = isDefaultBeaconID := rfl
theorem tie_canon : Gen.Routing.getCanonicalBeaconID = canon := rfl
theorem tie_compareBeaconIDs : Gen.Routing.compareBeaconIDs = compareBeaconIDs := rfl


/-! ### ties: the anchored functions, statement by statement

Golden copies of the normalised source of every function that reads or writes the routing tables (regenerated from
/repo by tools/go2lean/routing.go on every run; tracing, logging and metrics statements are dropped). The model in
Drand/Daemon/Routing.lean was written against exactly these statements; a change of any of them breaks the
corresponding `rfl` and the check then searches for a concrete misrouted request with the thorough budget. -/

theorem tie_script_readBeaconID : Gen.Routing.script_readBeaconID = [
  "rcvBeaconID:=metadata.GetBeaconID()",
  "if chainHashBytes:=metadata.GetChainHash(); len(chainHashBytes)!=0 {",
  " chainHash:=fmt.Sprintf(\"%x\",chainHashBytes)",
  " dd.state.RLock()",
  " defer dd.state.RUnlock()",
  " beaconIDByHash,isChainHashFound:=dd.chainHashes[chainHash]",
  " if isChainHashFound {",
  "  if rcvBeaconID!=\"\"&&!common.CompareBeaconIDs(rcvBeaconID,beaconIDByHash) {",
  "   return \"\",fmt.Errorf(\"invalid chain hash: %q != %q\",rcvBeaconID,beaconIDByHash)",
  "  }",
  "  rcvBeaconID=beaconIDByHash",
  " } else {",
  "  rcvBeaconID=common.GetCanonicalBeaconID(rcvBeaconID)",
  "  for id,bp := range dd.beaconProcesses {",
  "   bp.state.RLock()",
  "   group:=bp.group",
  "   bp.state.RUnlock()",
  "   if id==rcvBeaconID&&group==nil {",
  "    metadata.BeaconID=rcvBeaconID",
  "    return id,nil",
  "   }",
  "  }",
  "  return \"\",fmt.Errorf(\"%w: %s out of %v\",common.ErrUnknownChainhash,chainHash,dd.chainHashes)",
  " }",
  "}",
  "rcvBeaconID=common.GetCanonicalBeaconID(rcvBeaconID)",
  "if metadata==nil {",
  " metadata=&drand.Metadata{}",
  "}",
  "metadata.BeaconID=rcvBeaconID",
  "return rcvBeaconID,nil"
] := rfl

theorem tie_script_getBeaconProcessByID : Gen.Routing.script_getBeaconProcessByID = [
  "dd.state.Lock()",
  "bp,isBeaconIDFound:=dd.beaconProcesses[beaconID]",
  "dd.state.Unlock()",
  "if isBeaconIDFound {",
  " return bp,nil",
  "}",
  "return nil,fmt.Errorf(\"beacon id [%s] is not running\",beaconID)"
] := rfl

theorem tie_script_getBeaconProcessFromRequest : Gen.Routing.script_getBeaconProcessFromRequest = [
  "beaconID,err:=dd.readBeaconID(metadata)",
  "if err!=nil {",
  " return nil,err",
  "}",
  "return dd.getBeaconProcessByID(beaconID)"
] := rfl

theorem tie_script_InstantiateBeaconProcess : Gen.Routing.script_InstantiateBeaconProcess = [
  "beaconID=common.GetCanonicalBeaconID(beaconID)",
  "bp,err:=NewBeaconProcess(ctx,logger,store,dd.completedDKGs,beaconID,dd.opts,dd.privGateway)",
  "if err!=nil {",
  " return nil,err",
  "}",
  "go bp.StartListeningForDKGUpdates(ctx)",
  "dd.state.Lock()",
  "dd.beaconProcesses[beaconID]=bp",
  "dd.state.Unlock()",
  "return bp,nil"
] := rfl

theorem tie_script_AddBeaconHandler : Gen.Routing.script_AddBeaconHandler = [
  "chainHash:=chain2.NewChainInfo(bp.group).HashString()",
  "bh:=dd.handler.RegisterNewBeaconHandler(&drandProxy{bp},chainHash)",
  "dd.state.Lock()",
  "dd.chainHashes[chainHash]=beaconID",
  "dd.state.Unlock()",
  "if common.IsDefaultBeaconID(beaconID) {",
  " dd.handler.RegisterDefaultBeaconHandler(bh)",
  " dd.state.Lock()",
  " dd.chainHashes[common.DefaultChainHash]=beaconID",
  " dd.state.Unlock()",
  "}"
] := rfl

theorem tie_script_RemoveBeaconHandler : Gen.Routing.script_RemoveBeaconHandler = [
  "if bp.group==nil {",
  " return ",
  "}",
  "info:=chain2.NewChainInfo(bp.group)",
  "dd.handler.RemoveBeaconHandler(info.HashString())",
  "if common.IsDefaultBeaconID(beaconID) {",
  " dd.handler.RemoveBeaconHandler(common.DefaultChainHash)",
  "}"
] := rfl

theorem tie_script_RemoveBeaconProcess : Gen.Routing.script_RemoveBeaconProcess = [
  "beaconID=common.GetCanonicalBeaconID(beaconID)",
  "chainHash:=\"\"",
  "if bp.group!=nil {",
  " info:=chain2.NewChainInfo(bp.group)",
  " chainHash=info.HashString()",
  "}",
  "dd.state.Lock()",
  "delete(dd.beaconProcesses,beaconID)",
  "delete(dd.chainHashes,chainHash)",
  "if common.IsDefaultBeaconID(beaconID) {",
  " delete(dd.chainHashes,common.DefaultChainHash)",
  "}",
  "dd.state.Unlock()"
] := rfl

/-- two reviewed texts: the as-is start-up path and the one that reconciles the key files with the completed DKG record before
`bp.Load` (reports/crash2_fix_1.diff, C13 `Gen.startupVariant`); the inserted call passes on the same `beaconID` and `store`, the
registration under `beaconID` (`AddBeaconHandler`) is the same statement in both -/
theorem tie_script_LoadBeaconFromStore :
    Gen.Routing.script_LoadBeaconFromStore = [
  "bp,err:=dd.InstantiateBeaconProcess(ctx,beaconID,store)",
  "if err!=nil {",
  " return nil,err",
  "}",
  "status,err:=dd.dkg.DKGStatus(ctx,&pdkg.DKGStatusRequest{BeaconID:beaconID})",
  "if err!=nil {",
  " return nil,err",
  "}",
  "freshRun:=status.Complete==nil",
  "if freshRun {",
  " g,err:=store.LoadGroup()",
  " if err!=nil&&!errors.Is(err,fs.ErrNotExist) {",
  "  return nil,err",
  " }",
  " if g==nil {",
  "  return bp,nil",
  " }",
  " if gFP:=key.GroupFilePath(store); gFP!=\"\" {",
  " }",
  " share,err:=store.LoadShare()",
  " if err!=nil {",
  "  return nil,err",
  " }",
  " if err:=dd.dkg.Migrate(beaconID,g,share); err!=nil {",
  "  return nil,err",
  " }",
  "}",
  "if err:=bp.Load(ctx); err!=nil {",
  " return nil,err",
  "}",
  "dd.AddBeaconHandler(ctx,beaconID,bp)",
  "err=bp.StartBeacon(ctx,true)",
  "if err!=nil {",
  "}",
  "return bp,err"
] ∨
    Gen.Routing.script_LoadBeaconFromStore = [
  "bp,err:=dd.InstantiateBeaconProcess(ctx,beaconID,store)",
  "if err!=nil {",
  " return nil,err",
  "}",
  "status,err:=dd.dkg.DKGStatus(ctx,&pdkg.DKGStatusRequest{BeaconID:beaconID})",
  "if err!=nil {",
  " return nil,err",
  "}",
  "freshRun:=status.Complete==nil",
  "if freshRun {",
  " g,err:=store.LoadGroup()",
  " if err!=nil&&!errors.Is(err,fs.ErrNotExist) {",
  "  return nil,err",
  " }",
  " if g==nil {",
  "  return bp,nil",
  " }",
  " if gFP:=key.GroupFilePath(store); gFP!=\"\" {",
  " }",
  " share,err:=store.LoadShare()",
  " if err!=nil {",
  "  return nil,err",
  " }",
  " if err:=dd.dkg.Migrate(beaconID,g,share); err!=nil {",
  "  return nil,err",
  " }",
  "} else if err:=dd.reconcileKeyFiles(beaconID,bp,store); err!=nil {",
  " return nil,err",
  "}",
  "if err:=bp.Load(ctx); err!=nil {",
  " return nil,err",
  "}",
  "dd.AddBeaconHandler(ctx,beaconID,bp)",
  "err=bp.StartBeacon(ctx,true)",
  "if err!=nil {",
  "}",
  "return bp,err"
] := by
  first | exact Or.inl rfl | exact Or.inr rfl

theorem tie_script_LoadBeaconFromDisk : Gen.Routing.script_LoadBeaconFromDisk = [
  "store:=key.NewFileStore(dd.opts.ConfigFolderMB(),beaconID)",
  "return dd.LoadBeaconFromStore(ctx,beaconID,store)"
] := rfl

theorem tie_script_LoadBeaconsFromDisk : Gen.Routing.script_LoadBeaconsFromDisk = [
  "if singleBeacon&&singleBeaconName==\"\" {",
  " return nil",
  "}",
  "stores,err:=key.NewFileStores(dd.opts.ConfigFolderMB())",
  "if err!=nil {",
  " return err",
  "}",
  "startedAtLeastOne:=false",
  "for beaconID,fileStore := range stores {",
  " if singleBeacon&&singleBeaconName!=beaconID {",
  "  continue",
  " }",
  " _,err:=dd.LoadBeaconFromStore(ctx,beaconID,fileStore)",
  " if err!=nil {",
  "  return err",
  " }",
  " startedAtLeastOne=true",
  "}",
  "if !startedAtLeastOne {",
  "}",
  "return nil"
] := rfl

theorem tie_script_LoadBeacon : Gen.Routing.script_LoadBeacon = [
  "beaconID,err:=dd.readBeaconID(in.GetMetadata())",
  "if err!=nil {",
  " return nil,err",
  "}",
  "_,err=dd.getBeaconProcessByID(beaconID)",
  "if err==nil {",
  " return nil,fmt.Errorf(\"beacon id [%s] is already running\",beaconID)",
  "}",
  "_,err=dd.LoadBeaconFromDisk(ctx,beaconID)",
  "if err!=nil {",
  " return nil,err",
  "}",
  "metadata:=drand.NewMetadata(dd.version.ToProto())",
  "return &drand.LoadBeaconResponse{Metadata:metadata},nil"
] := rfl

theorem tie_script_Shutdown : Gen.Routing.script_Shutdown = [
  "if in.GetMetadata().GetBeaconID()==\"\" {",
  " dd.Stop(ctx)",
  "} else {",
  " beaconID,err:=dd.readBeaconID(in.GetMetadata())",
  " if err!=nil {",
  "  return nil,err",
  " }",
  " bp,err:=dd.getBeaconProcessByID(beaconID)",
  " if err!=nil {",
  "  return nil,err",
  " }",
  " dd.RemoveBeaconHandler(ctx,beaconID,bp)",
  " bp.Stop(ctx)",
  " <-bp.WaitExit()",
  " dd.RemoveBeaconProcess(ctx,beaconID,bp)",
  "}",
  "metadata:=drand.NewMetadata(dd.version.ToProto())",
  "metadata.BeaconID=in.GetMetadata().GetBeaconID()",
  "return &drand.ShutdownResponse{Metadata:metadata},nil"
] := rfl

theorem tie_script_storeDKGOutput : Gen.Routing.script_storeDKGOutput = [
  "bp.state.Lock()",
  "defer bp.state.Unlock()",
  "bp.group=group",
  "bp.share=share",
  "bp.chainHash=public.NewChainInfo(bp.group).Hash()",
  "err:=bp.store.SaveGroup(group)",
  "if err!=nil {",
  " return err",
  "}",
  "err=bp.store.SaveShare(share)",
  "if err!=nil {",
  " return err",
  "}",
  "bp.opts.dkgCallback(ctx,group)",
  "return nil"
] := rfl

theorem tie_script_dkgCallback : Gen.Routing.script_dkgCallback = ["beaconID:=common.GetCanonicalBeaconID(group.ID)", "drandDaemon.state.Lock()", "bp,isPresent:=drandDaemon.beaconProcesses[beaconID]", "drandDaemon.state.Unlock()", "if isPresent {", " drandDaemon.AddBeaconHandler(ctx,beaconID,bp)", "}"] := rfl

theorem tie_serviceMethods : Gen.Routing.serviceMethods = ["PartialBeacon", "PublicRand", "PublicRandStream", "ChainInfo", "SyncChain", "GetIdentity", "Status", "PublicKey", "GroupFile", "Shutdown", "BackupDatabase", "StartFollowChain", "StartCheckChain", "KeypairFor", "Stop"] := rfl

theorem tie_serviceMethodsBypassingRouting : Gen.Routing.serviceMethodsBypassingRouting = [] := rfl

theorem tie_script_http_RegisterNewBeaconHandler : Gen.Routing.script_http_RegisterNewBeaconHandler = [
  "h.state.Lock()",
  "defer h.state.Unlock()",
  "bh:=&BeaconHandler{context:h.context,client:c,latestRound:0,pending:nil,chainInfo:nil,version:h.version,log:h.log}",
  "h.beacons[chainHash]=bh",
  "return bh"
] := rfl

theorem tie_script_http_RemoveBeaconHandler : Gen.Routing.script_http_RemoveBeaconHandler = [
  "h.state.Lock()",
  "defer h.state.Unlock()",
  "delete(h.beacons,chainHash)"
] := rfl

theorem tie_script_http_RegisterDefaultBeaconHandler : Gen.Routing.script_http_RegisterDefaultBeaconHandler = [
  "h.state.Lock()",
  "defer h.state.Unlock()",
  "h.beacons[common.DefaultChainHash]=bh"
] := rfl

theorem tie_script_http_getBeaconHandler : Gen.Routing.script_http_getBeaconHandler = [
  "chainHashStr:=fmt.Sprintf(\"%x\",chainHash)",
  "if chainHashStr==\"\" {",
  " chainHashStr=common.DefaultChainHash",
  "}",
  "h.state.RLock()",
  "defer h.state.RUnlock()",
  "bh,exists:=h.beacons[chainHashStr]",
  "if !exists {",
  " return nil,fmt.Errorf(\"there is no BeaconHandler for beaconHash [%s] in our beacons [%v]. \"+\"Is the chain hash correct?. Please check it\",chainHashStr,h.beacons)",
  "}",
  "return bh,nil"
] := rfl

theorem tie_script_http_readChainHash : Gen.Routing.script_http_readChainHash = [
  "var err error=",
  "chainHashHex:=make([]byte,0)",
  "chainHash:=chi.URLParam(r,chainHashParamKey)",
  "if chainHash!=\"\" {",
  " chainHashHex,err=hex.DecodeString(chainHash)",
  " if err!=nil {",
  "  return nil,fmt.Errorf(\"unable to decode chain hash %s: %w\",chainHash,err)",
  " }",
  "}",
  "return chainHashHex,nil"
] := rfl

/-! ### beacon ids and chain-hash keys -/

private theorem isDefault_iff (id : Id) : isDefaultBeaconID id = true ↔ (id = "default" ∨ id = "") := by
  simp [isDefaultBeaconID, defaultBeaconID]

private theorem canon_of_default {id : Id} (h : isDefaultBeaconID id = true) : canon id = defaultBeaconID := by
  simp [canon, h]

private theorem canon_of_not_default {id : Id} (h : isDefaultBeaconID id = false) : canon id = id := by
  simp [canon, h]

private theorem isDefault_defaultBeaconID : isDefaultBeaconID defaultBeaconID = true := by
  simp [isDefaultBeaconID]

private theorem isDefault_canon (id : Id) : isDefaultBeaconID (canon id) = isDefaultBeaconID id := by
  cases h : isDefaultBeaconID id
  · rw [canon_of_not_default h, h]
  · rw [canon_of_default h, isDefault_defaultBeaconID]

private theorem canon_idem (id : Id) : canon (canon id) = canon id := by
  cases h : isDefaultBeaconID id
  · rw [canon_of_not_default h, canon_of_not_default h]
  · rw [canon_of_default h, canon_of_default isDefault_defaultBeaconID]

private theorem canon_eq_default_iff (id : Id) : canon id = defaultBeaconID ↔ isDefaultBeaconID id = true := by
  constructor
  · intro h
    cases hd : isDefaultBeaconID id
    · rw [canon_of_not_default hd] at h; rw [h, isDefault_defaultBeaconID] at hd; cases hd
    · rfl
  · exact canon_of_default

private theorem compare_iff (a b : Id) : compareBeaconIDs a b = true ↔ canon a = canon b := by
  unfold compareBeaconIDs
  cases ha : isDefaultBeaconID a <;> cases hb : isDefaultBeaconID b
  · simp [canon_of_not_default ha, canon_of_not_default hb]
  · simp only [Bool.false_and, Bool.false_eq_true, if_false, canon_of_not_default ha, canon_of_default hb]
    have : a ≠ b := by intro h; rw [h, hb] at ha; cases ha
    have h2 : a ≠ defaultBeaconID := by intro h; rw [h, isDefault_defaultBeaconID] at ha; cases ha
    simp [this, h2]
  · simp only [Bool.and_false, Bool.false_eq_true, if_false, canon_of_default ha, canon_of_not_default hb]
    have : a ≠ b := by intro h; rw [h, hb] at ha; cases ha
    have h2 : defaultBeaconID ≠ b := by intro h; rw [← h, isDefault_defaultBeaconID] at hb; cases hb
    simp [this, h2]
  · simp [canon_of_default ha, canon_of_default hb]

private theorem hexChars_length (b : Bytes) : (hexChars b).length = 2 * b.length := by
  induction b with
  | nil => rfl
  | cons x t ih =>
    have : hexChars (x :: t) = [hexDigit (x.toNat / 16), hexDigit (x.toNat % 16)] ++ hexChars t := by
      simp [hexChars]
    rw [this]; simp [ih]; omega

/-- `fmt.Sprintf("%x", bytes)` never yields the reserved key "default" (it has an even number of characters):
the `default` entries of both tables cannot be addressed by a chain hash. -/
theorem c19_hex_ne_default (b : Bytes) : hexStr b ≠ defaultChainHash := by
  intro h
  have h1 : (hexStr b).length = defaultChainHash.length := by rw [h]
  have h2 : defaultChainHash.length = 7 := by decide
  rw [h2] at h1
  simp [hexStr, hexChars_length] at h1
  omega

private theorem hexStr_eq_empty_iff (b : Bytes) : hexStr b = "" ↔ b = [] := by
  constructor
  · intro h
    have h1 : (hexStr b).length = 0 := by rw [h]; rfl
    simp [hexStr, hexChars_length] at h1
    cases b with
    | nil => rfl
    | cons x t => simp at h1
  · intro h; subst h; rfl

example : hexStr [0xde, 0xfa] = "defa" := by decide
example : c19_hex_ne_default [0x64, 0x65] = c19_hex_ne_default [0x64, 0x65] := rfl


/-! ### the consistency of the tables -/

/-- What the two routing tables say is true of the running processes: an entry of `chainHashes` names a running
process whose group has exactly that chain hash (the `default` key: the default process, which has a group); an HTTP
handler proxies a running process object (same incarnation) whose group has the hash it is registered under. -/
structure Inv (s : State) : Prop where
  procKey : ∀ i p, aget i s.procs = some p → canon i = i
  hashOk : ∀ k id, aget k s.hashes = some id →
    ∃ p g, aget (canon id) s.procs = some p ∧ p.group = some g ∧
      (k = hexStr g.hash ∨ (k = defaultChainHash ∧ canon id = defaultBeaconID))
  httpOk : ∀ k r, aget k s.http = some r →
    ∃ p g, aget r.id s.procs = some p ∧ p.gen = r.gen ∧ p.group = some g ∧
      (k = hexStr g.hash ∨ (k = defaultChainHash ∧ r.id = defaultBeaconID))

/-! ### resolving one request -/

private theorem rb_none (s : State) : readBeaconID s none = .ok defaultBeaconID := by
  simp [readBeaconID, canon, isDefaultBeaconID]

private theorem rb_nohash (s : State) (m : Req) (hh : m.hash = []) :
    readBeaconID s (some m) = .ok (canon m.id) := by
  simp [readBeaconID, hh]

private theorem rb_known (s : State) (m : Req) (hh : m.hash ≠ []) (id' : Id)
    (hk : aget (hexStr m.hash) s.hashes = some id') :
    readBeaconID s (some m) =
      if m.id ≠ "" ∧ compareBeaconIDs m.id id' = false then .error .mismatch else .ok (canon id') := by
  simp only [readBeaconID, hh, ne_eq, not_false_eq_true, if_true, hk]
  by_cases h1 : m.id = ""
  · simp [h1]
  · cases h2 : compareBeaconIDs m.id id' <;> simp [h1]

private theorem rb_unknown (s : State) (m : Req) (hh : m.hash ≠ [])
    (hk : aget (hexStr m.hash) s.hashes = none) :
    readBeaconID s (some m) =
      match aget (canon m.id) s.procs with
      | some bp => if bp.group = none then .ok (canon m.id) else .error .unknownHash
      | none => .error .unknownHash := by
  simp only [readBeaconID, hh, ne_eq, not_false_eq_true, if_true, hk]
  cases aget (canon m.id) s.procs with
  | none => rfl
  | some bp => cases hg : bp.group <;> simp

private theorem route_eq (s : State) (md : Option Req) :
    route s md = match readBeaconID s md with
      | .error e => .error e
      | .ok id => match aget id s.procs with
        | some bp => .ok (id, bp)
        | none => .error .notRunning := by
  unfold route getBeaconProcessByID
  cases hr : readBeaconID s md with
  | error e => rfl
  | ok id =>
    simp only []
    cases hp : aget id s.procs <;> simp

private theorem route_ok_iff {s : State} {md : Option Req} {id : Id} {p : Proc} :
    route s md = .ok (id, p) ↔ readBeaconID s md = .ok id ∧ aget id s.procs = some p := by
  rw [route_eq]
  cases hr : readBeaconID s md with
  | error e => simp
  | ok i =>
    simp only []
    cases hp : aget i s.procs with
    | none =>
      simp only [Except.ok.injEq]
      constructor
      · intro h; cases h
      · rintro ⟨h1, h2⟩; subst h1; rw [hp] at h2; cases h2
    | some q =>
      simp only [Except.ok.injEq, Prod.mk.injEq]
      constructor
      · rintro ⟨h1, h2⟩; subst h1; subst h2; exact ⟨rfl, hp⟩
      · rintro ⟨h1, h2⟩; subst h1; rw [hp] at h2; cases h2; exact ⟨rfl, rfl⟩

private theorem readBeaconID_canon {s : State} {md : Option Req} {id : Id} (h : readBeaconID s md = .ok id) :
    canon id = id := by
  cases md with
  | none => rw [rb_none] at h; cases h; exact canon_of_default isDefault_defaultBeaconID
  | some m =>
    by_cases hh : m.hash = []
    · rw [rb_nohash s m hh] at h; cases h; exact canon_idem _
    · cases hk : aget (hexStr m.hash) s.hashes with
      | some id' =>
        rw [rb_known s m hh id' hk] at h
        split at h
        · cases h
        · cases h; exact canon_idem _
      | none =>
        rw [rb_unknown s m hh hk] at h
        split at h
        · split at h
          · cases h; exact canon_idem _
          · cases h
        · cases h

/-- **Soundness of routing.** If a request is handed to a process, that process is running under the id the request
resolved to; a non-empty id in the request is that id; a chain hash present in the table means the answering
process is the one the table names *and its own group has exactly that chain hash*; a chain hash absent from the
table is only accepted for a process without a group (pending DKG) named by the id; without a hash the id alone
(canonicalised) decides; a nil metadata goes to the default chain. -/
theorem c19_sound (s : State) (hs : Inv s) (md : Option Req) (id : Id) (p : Proc)
    (h : route s md = .ok (id, p)) :
    aget id s.procs = some p ∧
    (∀ m, md = some m → m.id ≠ "" → canon m.id = id) ∧
    (∀ m, md = some m → m.hash ≠ [] → ∀ id', aget (hexStr m.hash) s.hashes = some id' →
        id = canon id' ∧ ∃ g, p.group = some g ∧ hexStr g.hash = hexStr m.hash) ∧
    (∀ m, md = some m → m.hash ≠ [] → aget (hexStr m.hash) s.hashes = none →
        p.group = none ∧ id = canon m.id) ∧
    (∀ m, md = some m → m.hash = [] → id = canon m.id) ∧
    (md = none → id = defaultBeaconID) := by
  obtain ⟨hr, hp⟩ := route_ok_iff.1 h
  refine ⟨hp, ?_, ?_, ?_, ?_, ?_⟩
  · intro m hm hne
    subst hm
    by_cases hh : m.hash = []
    · rw [rb_nohash s m hh] at hr; cases hr; rfl
    · cases hk : aget (hexStr m.hash) s.hashes with
      | some id' =>
        rw [rb_known s m hh id' hk] at hr
        split at hr
        · cases hr
        · rename_i hc
          cases hr
          cases hcmp : compareBeaconIDs m.id id'
          · exact absurd ⟨hne, hcmp⟩ hc
          · exact (compare_iff _ _).1 hcmp
      | none =>
        rw [rb_unknown s m hh hk] at hr
        split at hr
        · split at hr
          · cases hr; rfl
          · cases hr
        · cases hr
  · intro m hm hne id' hk
    subst hm
    rw [rb_known s m hne id' hk] at hr
    split at hr
    · cases hr
    · cases hr
      obtain ⟨q, g, hq, hg, hkg⟩ := hs.hashOk _ _ hk
      rw [hq] at hp
      cases hp
      refine ⟨rfl, g, hg, ?_⟩
      rcases hkg with hkg | ⟨hkd, _⟩
      · exact hkg.symm
      · exact absurd hkd (c19_hex_ne_default _)
  · intro m hm hne hk
    subst hm
    rw [rb_unknown s m hne hk] at hr
    split at hr
    · rename_i bp hbp
      split at hr
      · rename_i hnone
        cases hr
        rw [hbp] at hp
        cases hp
        exact ⟨hnone, rfl⟩
      · cases hr
    · cases hr
  · intro m hm he
    subst hm
    rw [rb_nohash s m he] at hr
    cases hr; rfl
  · intro hm
    subst hm
    rw [rb_none] at hr
    cases hr; rfl

/-- **A mismatching id / hash pair is rejected**: the hash is in the table for another id than the (non-empty) one
the request carries. -/
theorem c19_mismatch_rejected (s : State) (m : Req) (id' : Id) (hh : m.hash ≠ [])
    (hk : aget (hexStr m.hash) s.hashes = some id') (hid : m.id ≠ "") (hne : canon m.id ≠ canon id') :
    route s (some m) = .error .mismatch := by
  have hc : compareBeaconIDs m.id id' = false := by
    cases h : compareBeaconIDs m.id id'
    · rfl
    · exact absurd ((compare_iff _ _).1 h) hne
  rw [route_eq, rb_known s m hh id' hk, if_pos ⟨hid, hc⟩]

/-- **A known hash alone selects its chain** (also together with the matching id): the request reaches the process
the table names, and that process' group has the requested chain hash. -/
theorem c19_hash_alone_selects (s : State) (hs : Inv s) (m : Req) (id' : Id) (hh : m.hash ≠ [])
    (hk : aget (hexStr m.hash) s.hashes = some id') (hid : m.id = "" ∨ canon m.id = canon id') :
    ∃ p g, route s (some m) = .ok (canon id', p) ∧ p.group = some g ∧ hexStr g.hash = hexStr m.hash := by
  obtain ⟨q, g, hq, hg, hkg⟩ := hs.hashOk _ _ hk
  refine ⟨q, g, ?_, hg, ?_⟩
  · apply route_ok_iff.2
    refine ⟨?_, hq⟩
    rw [rb_known s m hh id' hk, if_neg]
    rintro ⟨h1, h2⟩
    rcases hid with hid | hid
    · exact h1 hid
    · rw [(compare_iff _ _).2 hid] at h2; cases h2
  · rcases hkg with hkg | ⟨hkd, _⟩
    · exact hkg.symm
    · exact absurd hkd (c19_hex_ne_default _)

/-- **Neither id nor hash goes to the default chain only** (nil metadata, or empty id and empty hash). -/
theorem c19_neither_is_default (s : State) (md : Option Req) (h : md = none ∨ md = some ⟨"", []⟩) :
    route s md = match aget defaultBeaconID s.procs with
      | some p => .ok (defaultBeaconID, p)
      | none => .error .notRunning := by
  have hr : readBeaconID s md = .ok defaultBeaconID := by
    rcases h with h | h
    · subst h; exact rb_none s
    · subst h; rw [rb_nohash s _ rfl]; rfl
  rw [route_eq, hr]

/-- **HTTP paths under a chain hash serve only that chain.** The handler selected for a (decoded) chain hash proxies a
running process object whose group has that hash; without a hash in the path it is the default process. -/
theorem c19_http (s : State) (hs : Inv s) (h : Bytes) (r : Ref) (hr : getBeaconHandler s h = some r) :
    ∃ p g, aget r.id s.procs = some p ∧ p.gen = r.gen ∧ p.group = some g ∧
      (h = [] → r.id = defaultBeaconID) ∧ (h ≠ [] → hexStr g.hash = hexStr h) := by
  unfold getBeaconHandler at hr
  by_cases he : h = []
  · subst he
    have : hexStr [] = "" := rfl
    simp only [this, beq_self_eq_true, if_true] at hr
    obtain ⟨p, g, hp, hgen, hg, hk⟩ := hs.httpOk _ _ hr
    refine ⟨p, g, hp, hgen, hg, fun _ => ?_, fun h => absurd rfl h⟩
    rcases hk with hk | ⟨_, hd⟩
    · exact absurd hk.symm (c19_hex_ne_default _)
    · exact hd
  · have hne : hexStr h ≠ "" := fun hh => he ((hexStr_eq_empty_iff h).1 hh)
    have : (hexStr h == "") = false := by simpa using hne
    simp only [this, Bool.false_eq_true, if_false] at hr
    obtain ⟨p, g, hp, hgen, hg, hk⟩ := hs.httpOk _ _ hr
    refine ⟨p, g, hp, hgen, hg, fun h' => absurd h' he, fun _ => ?_⟩
    rcases hk with hk | ⟨hkd, _⟩
    · exact hk.symm
    · exact absurd hkd (c19_hex_ne_default _)

/-- The `default` entry of the HTTP table is reachable only by a path without chain hash: a decoded non-empty hash is
looked up under its own hex string, which is never "default". -/
theorem c19_http_default_only (s : State) (h : Bytes) :
    (h = [] → getBeaconHandler s h = aget defaultChainHash s.http) ∧
    (h ≠ [] → getBeaconHandler s h = aget (hexStr h) s.http ∧ hexStr h ≠ defaultChainHash) := by
  constructor
  · intro he; subst he; rfl
  · intro he
    have hne : hexStr h ≠ "" := fun hh => he ((hexStr_eq_empty_iff h).1 hh)
    have : (hexStr h == "") = false := by simpa using hne
    exact ⟨by simp [getBeaconHandler, this], c19_hex_ne_default h⟩


/-! ### table maintenance keeps the tables consistent -/

/-- `Inv` only looks at the three tables, through `aget` -/
private theorem inv_congr {s s' : State} (h1 : ∀ j, aget j s'.procs = aget j s.procs)
    (h2 : ∀ k, aget k s'.hashes = aget k s.hashes) (h3 : ∀ k, aget k s'.http = aget k s.http)
    (hs : Inv s) : Inv s' := by
  constructor
  · intro i p h; rw [h1] at h; exact hs.procKey i p h
  · intro k id h; rw [h2] at h; rw [h1]; exact hs.hashOk k id h
  · intro k r h; rw [h3] at h; rw [h1]; exact hs.httpOk k r h

/-- a (new) process object is put under an id that is not running: no table entry can refer to it -/
private theorem inv_newproc {s s' : State} (hs : Inv s) (i : Id) (hi : canon i = i) (hn : aget i s.procs = none)
    (p : Proc) (h1 : ∀ j, aget j s'.procs = if j = i then some p else aget j s.procs)
    (h2 : ∀ k, aget k s'.hashes = aget k s.hashes) (h3 : ∀ k, aget k s'.http = aget k s.http) : Inv s' := by
  constructor
  · intro j q h
    rw [h1] at h
    by_cases hj : j = i
    · subst hj; exact hi
    · rw [if_neg hj] at h; exact hs.procKey j q h
  · intro k id h
    rw [h2] at h
    obtain ⟨q, g, hq, hg, hk⟩ := hs.hashOk k id h
    have : canon id ≠ i := by intro e; rw [e, hn] at hq; cases hq
    exact ⟨q, g, by rw [h1, if_neg this]; exact hq, hg, hk⟩
  · intro k r h
    rw [h3] at h
    obtain ⟨q, g, hq, hgen, hg, hk⟩ := hs.httpOk k r h
    have : r.id ≠ i := by intro e; rw [e, hn] at hq; cases hq
    exact ⟨q, g, by rw [h1, if_neg this]; exact hq, hgen, hg, hk⟩

private theorem inv_add {s : State} (hs : Inv s) (beaconID own : Id) (bp : Proc) (g : Group)
    (hbp : aget own s.procs = some bp) (hg : bp.group = some g) (hc : canon beaconID = own) :
    Inv (addBeaconHandler s beaconID own bp) := by
  unfold addBeaconHandler
  rw [hg]
  simp only
  have hown : ∃ p g', aget (canon beaconID) s.procs = some p ∧ p.group = some g' ∧ g' = g :=
    ⟨bp, g, by rw [hc]; exact hbp, hg, rfl⟩
  split
  · rename_i hd
    have hcd : canon beaconID = defaultBeaconID := canon_of_default hd
    constructor
    · intro i p h; exact hs.procKey i p h
    · intro k id h
      simp only [aget_aset] at h
      split at h
      · cases h
        exact ⟨bp, g, by rw [hc]; exact hbp, hg, Or.inr ⟨by assumption, hcd⟩⟩
      · split at h
        · cases h
          exact ⟨bp, g, by rw [hc]; exact hbp, hg, Or.inl (by assumption)⟩
        · exact hs.hashOk k id h
    · intro k r h
      simp only [aget_aset] at h
      split at h
      · cases h
        exact ⟨bp, g, hbp, rfl, hg, Or.inr ⟨by assumption, by rw [← hc]; exact hcd⟩⟩
      · split at h
        · cases h
          exact ⟨bp, g, hbp, rfl, hg, Or.inl (by assumption)⟩
        · exact hs.httpOk k r h
  · constructor
    · intro i p h; exact hs.procKey i p h
    · intro k id h
      simp only [aget_aset] at h
      split at h
      · cases h
        exact ⟨bp, g, by rw [hc]; exact hbp, hg, Or.inl (by assumption)⟩
      · exact hs.hashOk k id h
    · intro k r h
      simp only [aget_aset] at h
      split at h
      · cases h
        exact ⟨bp, g, hbp, rfl, hg, Or.inl (by assumption)⟩
      · exact hs.httpOk k r h

private theorem inv_removeHandler {s : State} (hs : Inv s) (beaconID : Id) (bp : Proc) :
    Inv (removeBeaconHandler s beaconID bp) := by
  unfold removeBeaconHandler
  cases hg : bp.group with
  | none => exact hs
  | some g =>
    simp only
    split
    · constructor
      · exact hs.procKey
      · exact hs.hashOk
      · intro k r h
        exact hs.httpOk k r (aget_adel_some (aget_adel_some h).2).2
    · constructor
      · exact hs.procKey
      · exact hs.hashOk
      · intro k r h
        exact hs.httpOk k r (aget_adel_some h).2

/-- after `RemoveBeaconHandler(beaconID, bp)` for the process registered under `beaconID`, no HTTP handler proxies it -/
private theorem removeHandler_unref {s : State} (hs : Inv s) (x : Id) (bp : Proc)
    (hbp : aget x s.procs = some bp) :
    ∀ k r, aget k (removeBeaconHandler s x bp).http = some r → r.id ≠ x := by
  intro k r h hrx
  unfold removeBeaconHandler at h
  cases hg : bp.group with
  | none =>
    rw [hg] at h
    obtain ⟨q, g, hq, _, hqg, _⟩ := hs.httpOk k r h
    rw [hrx, hbp] at hq; cases hq; rw [hg] at hqg; cases hqg
  | some g =>
    rw [hg] at h
    simp only at h
    split at h
    · obtain ⟨hk1, h⟩ := aget_adel_some h
      obtain ⟨hk2, h⟩ := aget_adel_some h
      obtain ⟨q, g', hq, _, hqg, hk⟩ := hs.httpOk k r h
      rw [hrx, hbp] at hq; cases hq; rw [hg] at hqg; cases hqg
      rcases hk with hk | ⟨hk, _⟩
      · exact hk2 hk
      · exact hk1 hk
    · rename_i hd
      obtain ⟨hk2, h⟩ := aget_adel_some h
      obtain ⟨q, g', hq, _, hqg, hk⟩ := hs.httpOk k r h
      rw [hrx, hbp] at hq; cases hq; rw [hg] at hqg; cases hqg
      rcases hk with hk | ⟨_, hdx⟩
      · exact hk2 hk
      · rw [hrx] at hdx
        rw [hdx, isDefault_defaultBeaconID] at hd
        exact hd rfl

private theorem inv_removeProcess {s : State} (hs : Inv s) (x : Id) (hx : canon x = x) (bp : Proc)
    (hbp : aget x s.procs = some bp) (hun : ∀ k r, aget k s.http = some r → r.id ≠ x) :
    Inv (removeBeaconProcess s x bp) := by
  unfold removeBeaconProcess
  simp only [hx]
  have key : ∀ (hashes' : List (Key × Id)),
      (∀ k id, aget k hashes' = some id → aget k s.hashes = some id ∧
        k ≠ (match bp.group with | some g => hexStr g.hash | none => "") ∧
        (isDefaultBeaconID x = true → k ≠ defaultChainHash)) →
      Inv { s with procs := adel x s.procs, hashes := hashes' } := by
    intro hashes' hh
    constructor
    · intro i p h; exact hs.procKey i p (aget_adel_some h).2
    · intro k id h
      obtain ⟨hold, hk1, hk2⟩ := hh k id h
      obtain ⟨q, g, hq, hg, hk⟩ := hs.hashOk k id hold
      have hne : canon id ≠ x := by
        intro e
        rw [e, hbp] at hq; cases hq
        rw [hg] at hk1
        rcases hk with hk | ⟨hk, hcd⟩
        · exact hk1 hk
        · rw [e] at hcd
          exact hk2 (by rw [hcd]; exact isDefault_defaultBeaconID) hk
      exact ⟨q, g, by simp only; rw [aget_adel_ne hne]; exact hq, hg, hk⟩
    · intro k r h
      obtain ⟨q, g, hq, hgen, hg, hk⟩ := hs.httpOk k r h
      exact ⟨q, g, by simp only; rw [aget_adel_ne (hun k r h)]; exact hq, hgen, hg, hk⟩
  split
  · rename_i hd
    apply key
    intro k id h
    obtain ⟨h1, h⟩ := aget_adel_some h
    obtain ⟨h2, h⟩ := aget_adel_some h
    exact ⟨h, h2, fun _ => h1⟩
  · rename_i hd
    apply key
    intro k id h
    obtain ⟨h2, h⟩ := aget_adel_some h
    exact ⟨h, h2, fun hd' => absurd hd' hd⟩


/-! ### control calls keep the tables consistent -/

private theorem instantiate_procs (s : State) (i : Id) (j : Id) :
    aget j (instantiate s i).1.procs = if j = canon i then some (instantiate s i).2 else aget j s.procs := by
  simp [instantiate, aget_aset]

private theorem instantiate_group (s : State) (i : Id) : (instantiate s i).2.group = none := rfl
private theorem instantiate_hashes (s : State) (i : Id) : (instantiate s i).1.hashes = s.hashes := rfl
private theorem instantiate_http (s : State) (i : Id) : (instantiate s i).1.http = s.http := rfl

private theorem inv_loadFromStore {s : State} (hs : Inv s) (i : Id) (hn : aget (canon i) s.procs = none) :
    Inv (loadBeaconFromStore s i).1 := by
  unfold loadBeaconFromStore
  simp only
  split
  · refine inv_congr (s := s) ?_ ?_ ?_ hs <;> intro _ <;> rfl
  · exact hs
  · exact inv_newproc hs (canon i) (canon_idem i) hn (instantiate s i).2 (instantiate_procs s i)
      (fun _ => rfl) (fun _ => rfl)
  · rename_i g _
    -- the process object with its group loaded, registered under the canonical id
    have h1 : Inv { (instantiate s i).1 with
        procs := aset (canon i) ({ (instantiate s i).2 with group := some g } : Proc) (instantiate s i).1.procs } :=
      inv_newproc hs (canon i) (canon_idem i) hn ({ (instantiate s i).2 with group := some g } : Proc)
        (fun j => by
          simp only [aget_aset, instantiate_procs]
          by_cases h : j = canon i <;> simp [h]) (fun _ => rfl) (fun _ => rfl)
    exact inv_add h1 i (canon i) ({ (instantiate s i).2 with group := some g } : Proc) g
      (by simp [aget_aset]) rfl rfl
  · rename_i g _
    exact inv_newproc hs (canon i) (canon_idem i) hn ({ (instantiate s i).2 with group := some g } : Proc)
      (fun j => by
        simp only [aget_aset, instantiate_procs]
        by_cases h : j = canon i <;> simp [h]) (fun _ => rfl) (fun _ => rfl)

private theorem loadFromStore_procs_other (s : State) (i j : Id) (hj : j ≠ canon i) :
    aget j (loadBeaconFromStore s i).1.procs = aget j s.procs := by
  unfold loadBeaconFromStore
  simp only
  split
  · rfl
  · rfl
  · simp [instantiate_procs, hj]
  · simp only [addBeaconHandler]
    split <;> simp [aget_aset, instantiate_procs, hj]
  · simp [aget_aset, instantiate_procs, hj]

private theorem inv_loadBeacon {s : State} (hs : Inv s) (md : Option Req) : Inv (loadBeacon s md).1 := by
  unfold loadBeacon
  cases hr : readBeaconID s md with
  | error e => exact hs
  | ok id =>
    simp only
    unfold getBeaconProcessByID
    cases hp : aget id s.procs with
    | some bp => exact hs
    | none =>
      simp only
      exact inv_loadFromStore hs id (by rw [readBeaconID_canon hr]; exact hp)

private theorem inv_shutdown {s : State} (hs : Inv s) (md : Option Req) : Inv (shutdown s md).1 := by
  unfold shutdown
  cases hr : readBeaconID s md with
  | error e => exact hs
  | ok id =>
    simp only
    unfold getBeaconProcessByID
    cases hp : aget id s.procs with
    | none => exact hs
    | some bp =>
      simp only
      have hc := readBeaconID_canon hr
      have h1 := inv_removeHandler hs id bp
      have hp' : aget id (removeBeaconHandler s id bp).procs = some bp := by
        unfold removeBeaconHandler
        cases bp.group with
        | none => exact hp
        | some g => simp only; split <;> exact hp
      exact inv_removeProcess h1 id hc bp hp' (removeHandler_unref hs id bp hp)

/-- the hypothesis under which a DKG completion keeps the tables consistent: a process that already has a group keeps
its chain hash (the distributed key and the scheme are unchanged by a resharing) -/
def DkgKeepsHash (s : State) (id : Id) (g : Group) : Prop :=
  ∀ p g0, aget id s.procs = some p → p.group = some g0 → hexStr g0.hash = hexStr g.hash

private theorem inv_dkg {s : State} (hs : Inv s) (id : Id) (g : Group) (hk : DkgKeepsHash s id g) :
    Inv (dkgCompleted s id g).1 := by
  unfold dkgCompleted
  cases hp : aget id s.procs with
  | none => exact hs
  | some bp =>
    simp only
    have hid : canon id = id := hs.procKey id bp hp
    -- storeDKGOutput: the group of the registered object changes
    have h1 : Inv { s with procs := aset id { bp with group := some g } s.procs,
                           disk := aset id (.group g) s.disk } := by
      constructor
      · intro j q h
        simp only [aget_aset] at h
        split at h
        · rename_i e; rw [e]; exact hid
        · exact hs.procKey j q h
      · intro k i h
        obtain ⟨q, g0, hq, hg0, hkk⟩ := hs.hashOk k i h
        by_cases hi : canon i = id
        · rw [hi, hp] at hq; cases hq
          refine ⟨{ bp with group := some g }, g, by simp [hi, aget_aset], rfl, ?_⟩
          rcases hkk with hkk | hkk
          · exact Or.inl (by rw [hkk]; exact hk bp g0 hp hg0)
          · exact Or.inr hkk
        · exact ⟨q, g0, by simp only [aget_aset, if_neg hi]; exact hq, hg0, hkk⟩
      · intro k r h
        obtain ⟨q, g0, hq, hgen, hg0, hkk⟩ := hs.httpOk k r h
        by_cases hi : r.id = id
        · rw [hi, hp] at hq; cases hq
          refine ⟨{ bp with group := some g }, g, by simp [hi, aget_aset], hgen, rfl, ?_⟩
          rcases hkk with hkk | hkk
          · exact Or.inl (by rw [hkk]; exact hk bp g0 hp hg0)
          · exact Or.inr hkk
        · exact ⟨q, g0, by simp only [aget_aset, if_neg hi]; exact hq, hgen, hg0, hkk⟩
    -- the daemon's dkgCallback
    split
    · rename_i bp' hbp'
      split
      · exact h1
      · rename_i hsome
        cases hg' : bp'.group with
        | none => simp [hg'] at hsome
        | some g' => exact inv_add h1 (canon g.gid) (canon g.gid) bp' g' hbp' hg' (canon_idem _)
    · exact h1

/-- `LoadBeaconsFromDisk` is the start-up path: the store folders are pairwise different beacon ids and none of them is
running -/
def BootOK (s : State) : Prop :=
  ((bootStores s).map canon).Nodup ∧ ∀ i ∈ bootStores s, aget (canon i) s.procs = none

private theorem inv_loadEach (single : Bool) (name : Id) (ids : List Id) :
    ∀ s : State, Inv s → (ids.map canon).Nodup → (∀ i ∈ ids, aget (canon i) s.procs = none) →
      Inv (loadEach single name s ids).1 := by
  induction ids with
  | nil => intro s hs _ _; exact hs
  | cons i rest ih =>
    intro s hs hnd hnone
    have hnd' : (rest.map canon).Nodup := (List.nodup_cons.1 hnd).2
    have hni : ∀ j ∈ rest, canon j ≠ canon i := by
      intro j hj e
      exact (List.nodup_cons.1 hnd).1 (by rw [← e]; exact List.mem_map_of_mem hj)
    unfold loadEach
    split
    · exact ih s hs hnd' (fun j hj => hnone j (List.mem_cons_of_mem _ hj))
    · have h1 := inv_loadFromStore hs i (hnone i List.mem_cons_self)
      split
      · rename_i s' e heq
        rw [heq] at h1; exact h1
      · rename_i s' u heq
        rw [heq] at h1
        refine ih s' h1 hnd' ?_
        intro j hj
        have := loadFromStore_procs_other s i (canon j) (hni j hj)
        rw [heq] at this
        rw [this]
        exact hnone j (List.mem_cons_of_mem _ hj)

private theorem inv_boot {s : State} (hs : Inv s) (single : Bool) (name : Id) (hb : BootOK s) :
    Inv (loadBeaconsFromDisk s single name).1 := by
  unfold loadBeaconsFromDisk
  split
  · exact hs
  · simp only
    split
    · exact inv_loadEach single name (bootStores s) _
        (inv_congr (s := s) (fun _ => rfl) (fun _ => rfl) (fun _ => rfl) hs) hb.1 hb.2
    · exact inv_loadEach single name (bootStores s) s hs hb.1 hb.2

/-- what a history must satisfy beyond the guards the code itself applies -/
def EvOK (s : State) : Ev → Prop
  | .dkg id g => DkgKeepsHash s id g
  | .boot _ _ => BootOK s
  | _ => True

def RunOK : State → List Ev → Prop
  | _, [] => True
  | s, e :: es => EvOK s e ∧ RunOK (step s e).1 es

private theorem inv_step {s : State} (hs : Inv s) (e : Ev) (he : EvOK s e) : Inv (step s e).1 := by
  cases e with
  | disk id e =>
    cases e <;> (refine inv_congr (s := s) ?_ ?_ ?_ hs <;> intro _ <;> rfl)
  | load md => exact inv_loadBeacon hs md
  | boot single name => exact inv_boot hs single name he
  | stop md => exact inv_shutdown hs md
  | dkg id g => exact inv_dkg hs id g he

private theorem inv_init : Inv State.init := by
  constructor <;> intro _ _ h <;> simp [State.init, aget] at h

private theorem inv_run (evs : List Ev) : ∀ s, Inv s → RunOK s evs → Inv (run s evs) := by
  induction evs with
  | nil => intro s hs _; exact hs
  | cons e es ih =>
    intro s hs hr
    exact ih (step s e).1 (inv_step hs e hr.1) hr.2

/-
Full statement (DESIGN.md §3 C19, `c19_table_inv`): for EVERY history of table operations the tables stay
consistent (`Inv`): `hashes[h] = id ⇒ id ∈ procs ∧ procs[id].chainHash = h` (or h = "default" ∧ id = "default"),
and likewise for the HTTP handler table, so no stale entry survives a stop.

As coded this holds
 * unconditionally for every history of key-folder changes, `LoadBeacon` and `Shutdown` control calls — the
   load / stop / reload histories the property quantifies over (`c19_table_inv`);
 * for histories that also contain DKG completions and start-up loads only under `RunOK`
   (`c19_table_inv_partial`): a DKG completion on a process that has a group must keep its chain hash, and
   `LoadBeaconsFromDisk` must run while none of the stored beacons is running. Neither is checked by the code:
   `storeDKGOutput` / `dkgCallback` register the new hash and leave the old one, `LoadBeaconsFromDisk` has no
   "already running" guard. `c19_table_inv_counterexample` is the concrete stale entry.
-/

def isLoadStop : Ev → Bool
  | .disk _ _ | .load _ | .stop _ => true
  | _ => false

private theorem runOK_of_loadStop (evs : List Ev) : ∀ s, (∀ e ∈ evs, isLoadStop e = true) → RunOK s evs := by
  induction evs with
  | nil => intro _ _; trivial
  | cons e es ih =>
    intro s h
    refine ⟨?_, ih _ (fun e' he' => h e' (List.mem_cons_of_mem _ he'))⟩
    have := h e List.mem_cons_self
    cases e <;> simp [isLoadStop] at this <;> trivial

/-- **No stale routing entry, for every load / stop / reload history.** -/
theorem c19_table_inv (evs : List Ev) (h : ∀ e ∈ evs, isLoadStop e = true) : Inv (run State.init evs) :=
  inv_run evs _ inv_init (runOK_of_loadStop evs _ h)

/-- The same for histories with DKG completions and start-up loads, under the hypotheses the proof forces. -/
theorem c19_table_inv_partial (s : State) (hs : Inv s) (evs : List Ev) (h : RunOK s evs) : Inv (run s evs) :=
  inv_run evs s hs h

private instance {ε α : Type} [DecidableEq ε] [DecidableEq α] : DecidableEq (Except ε α) := fun a b =>
  match a, b with
  | .ok x, .ok y => if h : x = y then isTrue (by rw [h]) else isFalse (by intro e; cases e; exact h rfl)
  | .error x, .error y => if h : x = y then isTrue (by rw [h]) else isFalse (by intro e; cases e; exact h rfl)
  | .ok _, .error _ => isFalse (by intro e; cases e)
  | .error _, .ok _ => isFalse (by intro e; cases e)

/-- Witness that `DkgKeepsHash` is needed: load `foo` with a group of chain hash `aa`, then complete a DKG on it whose
group has chain hash `bb`. The old key still routes to `foo`, whose chain is now `bb`: a request naming chain `aa`
is answered by a process of chain `bb`. (Replayed on the real code by the check: `assumption_witness`.) -/
theorem c19_table_inv_counterexample :
    let evs := [Ev.disk "foo" (some (.group ⟨"foo", [0xaa]⟩)), .load (some ⟨"foo", []⟩), .dkg "foo" ⟨"foo", [0xbb]⟩]
    let s := run State.init evs
    route s (some ⟨"", [0xaa]⟩) = .ok ("foo", ⟨1, some ⟨"foo", [0xbb]⟩⟩) ∧ ¬ Inv s := by
  refine ⟨by decide, ?_⟩
  intro hinv
  have h : aget "aa" (run State.init
      [Ev.disk "foo" (some (.group ⟨"foo", [0xaa]⟩)), .load (some ⟨"foo", []⟩), .dkg "foo" ⟨"foo", [0xbb]⟩]).hashes
      = some "foo" := by decide
  obtain ⟨p, g, hp, hg, hk⟩ := hinv.hashOk _ _ h
  have hp' : aget (canon "foo") (run State.init
      [Ev.disk "foo" (some (.group ⟨"foo", [0xaa]⟩)), .load (some ⟨"foo", []⟩), .dkg "foo" ⟨"foo", [0xbb]⟩]).procs
      = some ⟨1, some ⟨"foo", [0xbb]⟩⟩ := by decide
  rw [hp'] at hp
  cases hp
  cases hg
  rcases hk with hk | ⟨hk, _⟩
  · exact absurd hk (by decide)
  · exact absurd hk (by decide)


/-! ### stopping a chain: its id and hash stop resolving, the others keep working -/

private theorem shutdown_eq {s : State} {md : Option Req} {x : Id} {bp : Proc} (hr : route s md = .ok (x, bp)) :
    shutdown s md = (removeBeaconProcess (removeBeaconHandler s x bp) x bp, .ok ()) := by
  obtain ⟨h1, h2⟩ := route_ok_iff.1 hr
  unfold shutdown getBeaconProcessByID
  rw [h1]; simp only; rw [h2]

private theorem removeHandler_procs (s : State) (x : Id) (bp : Proc) :
    (removeBeaconHandler s x bp).procs = s.procs := by
  unfold removeBeaconHandler
  cases bp.group with
  | none => rfl
  | some g => simp only; split <;> rfl

private theorem removeHandler_hashes (s : State) (x : Id) (bp : Proc) :
    (removeBeaconHandler s x bp).hashes = s.hashes := by
  unfold removeBeaconHandler
  cases bp.group with
  | none => rfl
  | some g => simp only; split <;> rfl

private theorem removeProcess_procs (s : State) (x : Id) (hx : canon x = x) (bp : Proc) (j : Id) :
    aget j (removeBeaconProcess s x bp).procs = if j = x then none else aget j s.procs := by
  unfold removeBeaconProcess
  simp only [hx]
  split <;> simp [aget_adel]

/-- **After a chain is stopped its id and hash stop resolving.** If `Shutdown` is called with a request that resolves to
the process `x`, the call succeeds, `x` is not running afterwards, no request whatsoever is handed to `x`, no entry of
either routing table refers to `x`, and the chain hash of its group is a key of neither table. -/
theorem c19_stop_unresolves (s : State) (hs : Inv s) (md : Option Req) (x : Id) (bp : Proc)
    (hr : route s md = .ok (x, bp)) :
    (shutdown s md).2 = .ok () ∧
    aget x (shutdown s md).1.procs = none ∧
    (∀ md' q, route (shutdown s md).1 md' ≠ .ok (x, q)) ∧
    (∀ k id, aget k (shutdown s md).1.hashes = some id → canon id ≠ x) ∧
    (∀ k r, aget k (shutdown s md).1.http = some r → r.id ≠ x) ∧
    (∀ g, bp.group = some g → aget (hexStr g.hash) (shutdown s md).1.hashes = none ∧
        aget (hexStr g.hash) (shutdown s md).1.http = none) := by
  have hinv : Inv (shutdown s md).1 := inv_shutdown hs md
  have hx : canon x = x := readBeaconID_canon (route_ok_iff.1 hr).1
  have hgone : aget x (shutdown s md).1.procs = none := by
    rw [shutdown_eq hr]; simp only [removeProcess_procs _ x hx]; simp
  refine ⟨by rw [shutdown_eq hr], hgone, ?_, ?_, ?_, ?_⟩
  · intro md' q h
    have := (route_ok_iff.1 h).2
    rw [hgone] at this; cases this
  · intro k id h e
    obtain ⟨p, _, hp, _⟩ := hinv.hashOk k id h
    rw [e, hgone] at hp; cases hp
  · intro k r h e
    obtain ⟨p, _, hp, _⟩ := hinv.httpOk k r h
    rw [e, hgone] at hp; cases hp
  · intro g hg
    rw [shutdown_eq hr]
    constructor
    · unfold removeBeaconProcess
      simp only [hg, hx]
      split <;> simp [aget_adel]
    · have : (removeBeaconProcess (removeBeaconHandler s x bp) x bp).http = (removeBeaconHandler s x bp).http := by
        unfold removeBeaconProcess; simp only; split <;> rfl
      rw [this]
      unfold removeBeaconHandler
      simp only [hg]
      split <;> simp [aget_adel]

/-- distinct running processes have distinct, non-empty chain hashes (the beacon id is part of the chain-hash preimage,
C17, SHA-256 is collision free on the chains in play, and a digest has 32 bytes) -/
structure HashesOK (s : State) : Prop where
  unique : ∀ i j p q g g', aget i s.procs = some p → aget j s.procs = some q → p.group = some g →
    q.group = some g' → hexStr g.hash = hexStr g'.hash → i = j
  nonempty : ∀ i p g, aget i s.procs = some p → p.group = some g → g.hash ≠ []

/-- a request keeps its answer when the process that answers it and the table entry of its chain hash are unchanged -/
private theorem route_stable {s s' : State} {md : Option Req} {y : Id} {q : Proc} (h : route s md = .ok (y, q))
    (hp : aget y s'.procs = aget y s.procs)
    (hh : ∀ m, md = some m → m.hash ≠ [] → aget (hexStr m.hash) s'.hashes = aget (hexStr m.hash) s.hashes) :
    route s' md = .ok (y, q) := by
  obtain ⟨hr, hq⟩ := route_ok_iff.1 h
  apply route_ok_iff.2
  refine ⟨?_, by rw [hp]; exact hq⟩
  cases md with
  | none => rw [rb_none] at hr ⊢; exact hr
  | some m =>
    by_cases he : m.hash = []
    · rw [rb_nohash s m he] at hr; rw [rb_nohash s' m he]; exact hr
    · have hh' := hh m rfl he
      cases hk : aget (hexStr m.hash) s.hashes with
      | some id' =>
        rw [rb_known s m he id' hk] at hr
        rw [rb_known s' m he id' (by rw [hh', hk])]
        exact hr
      | none =>
        rw [rb_unknown s m he hk] at hr
        rw [rb_unknown s' m he (by rw [hh', hk])]
        have hy : canon m.id = y := by
          split at hr
          · split at hr
            · cases hr; rfl
            · cases hr
          · cases hr
        rw [hy] at hr ⊢
        rw [hp]
        exact hr

/-- **The others keep working.** Stopping `x` leaves every other running process in place, every request that was
answered by another process `y` is still answered by the same process object, and every HTTP path that selected a
handler of another process still selects it. -/
theorem c19_remove_local (s : State) (hs : Inv s) (hu : HashesOK s) (md : Option Req) (x : Id) (bp : Proc)
    (hr : route s md = .ok (x, bp)) :
    (∀ y, y ≠ x → aget y (shutdown s md).1.procs = aget y s.procs) ∧
    (∀ md' y q, y ≠ x → route s md' = .ok (y, q) → route (shutdown s md).1 md' = .ok (y, q)) ∧
    (∀ h r, r.id ≠ x → getBeaconHandler s h = some r → getBeaconHandler (shutdown s md).1 h = some r) := by
  have hx : canon x = x := readBeaconID_canon (route_ok_iff.1 hr).1
  have hbp : aget x s.procs = some bp := (route_ok_iff.1 hr).2
  have hprocs : ∀ y, y ≠ x → aget y (shutdown s md).1.procs = aget y s.procs := by
    intro y hy
    rw [shutdown_eq hr]
    simp only [removeProcess_procs _ x hx, if_neg hy, removeHandler_procs]
  -- a chain-hash key whose entry belongs to another process is not among the deleted keys
  have hkeep : ∀ k id, aget k s.hashes = some id → canon id ≠ x →
      aget k (shutdown s md).1.hashes = some id := by
    intro k id hk hne
    obtain ⟨p, g, hp, hg, hkg⟩ := hs.hashOk k id hk
    rw [shutdown_eq hr]
    have hk2 : isDefaultBeaconID x = true → k ≠ defaultChainHash := by
      intro hd e
      rcases hkg with hkg | ⟨_, hcd⟩
      · rw [e] at hkg; exact absurd hkg.symm (c19_hex_ne_default _)
      · have : x = defaultBeaconID := by rw [← hx]; exact canon_of_default hd
        exact hne (by rw [hcd, this])
    cases hbg : bp.group with
    | none =>
      have hk1 : k ≠ "" := by
        intro e
        rcases hkg with hkg | ⟨hkg, _⟩
        · rw [e] at hkg
          exact hu.nonempty _ p g hp hg ((hexStr_eq_empty_iff _).1 hkg.symm)
        · rw [e] at hkg; exact absurd hkg (by decide)
      unfold removeBeaconProcess
      simp only [hx, removeHandler_hashes, hbg]
      split
      · rename_i hd
        simp only [aget_adel, if_neg (hk2 hd), if_neg hk1]; exact hk
      · simp only [aget_adel, if_neg hk1]; exact hk
    | some gx =>
      have hk1 : k ≠ hexStr gx.hash := by
        intro e
        rcases hkg with hkg | ⟨hkg, _⟩
        · exact hne (hu.unique (canon id) x p bp g gx hp hbp hg hbg (by rw [← hkg, e]))
        · rw [e] at hkg; exact absurd hkg (c19_hex_ne_default _)
      unfold removeBeaconProcess
      simp only [hx, removeHandler_hashes, hbg]
      split
      · rename_i hd
        simp only [aget_adel, if_neg (hk2 hd), if_neg hk1]; exact hk
      · simp only [aget_adel, if_neg hk1]; exact hk
  refine ⟨hprocs, ?_, ?_⟩
  · intro md' y q hy hroute
    refine route_stable hroute (hprocs y hy) ?_
    intro m hm hne
    subst hm
    cases hk : aget (hexStr m.hash) s.hashes with
    | some id' =>
      have hy' : canon id' = y := by
        have := (c19_sound s hs _ _ _ hroute).2.2.1 m rfl hne id' hk
        exact this.1.symm
      exact hkeep _ _ hk (by rw [hy']; exact hy)
    | none =>
      -- deletions do not create entries
      cases hk' : aget (hexStr m.hash) (shutdown s md).1.hashes with
      | none => rfl
      | some id'' =>
        rw [shutdown_eq hr] at hk'
        unfold removeBeaconProcess at hk'
        simp only [hx, removeHandler_hashes] at hk'
        split at hk'
        · have := (aget_adel_some (aget_adel_some hk').2).2
          rw [hk] at this; cases this
        · have := (aget_adel_some hk').2
          rw [hk] at this; cases this
  · intro h r hrid hsel
    obtain ⟨p, g, hp, hgen, hg, hdef, hhash⟩ := c19_http s hs h r hsel
    have hhttp : (shutdown s md).1.http = (removeBeaconHandler s x bp).http := by
      rw [shutdown_eq hr]; unfold removeBeaconProcess; simp only; split <;> rfl
    -- the key looked up is not one of the deleted keys
    have hkeepHttp : ∀ key, aget key s.http = some r → (key = defaultChainHash → r.id = defaultBeaconID) →
        (key ≠ defaultChainHash → hexStr g.hash = key) →
        aget key (removeBeaconHandler s x bp).http = some r := by
      intro key hsel' hd1 hd2
      unfold removeBeaconHandler
      cases hbg : bp.group with
      | none => exact hsel'
      | some gx =>
        simp only
        have hk1 : key ≠ hexStr gx.hash := by
          intro e
          by_cases hkd : key = defaultChainHash
          · rw [hkd] at e; exact absurd e.symm (c19_hex_ne_default _)
          · exact hrid (hu.unique r.id x p bp g gx hp hbp hg hbg (by rw [hd2 hkd, e]))
        split
        · rename_i hd
          have hk2 : key ≠ defaultChainHash := by
            intro e
            have : x = defaultBeaconID := by rw [← hx]; exact canon_of_default hd
            exact hrid (by rw [hd1 e, this])
          simp only [aget_adel, if_neg hk2, if_neg hk1]; exact hsel'
        · simp only [aget_adel, if_neg hk1]; exact hsel'
    by_cases he : h = []
    · rw [(c19_http_default_only _ h).1 he, hhttp]
      rw [(c19_http_default_only _ h).1 he] at hsel
      exact hkeepHttp _ hsel (fun _ => hdef he) (fun hne => absurd rfl hne)
    · rw [((c19_http_default_only _ h).2 he).1, hhttp]
      rw [((c19_http_default_only _ h).2 he).1] at hsel
      exact hkeepHttp _ hsel (fun e => absurd e (c19_hex_ne_default _)) (fun _ => hhash he)


/-! ### loading a chain registers it -/

/-- **A successful load makes the chain reachable by its id, by its hash, and by both.** When `LoadBeacon` resolves to
an id `x` that is not running and whose key folder holds a group `g` (with this node as a member), the call succeeds,
a new process object with group `g` runs under `x`, both tables get the entry of `g`'s chain hash (and the `default`
entries when `x` is the default id), and requests naming `x`, the hash, or both are handed to that object; the HTTP
handler table selects it for the hash. -/
theorem c19_load_registers (s : State) (md : Option Req) (x : Id) (g : Group)
    (hr : readBeaconID s md = .ok x) (hn : aget x s.procs = none) (hd : aget x s.disk = some (.group g)) :
    (loadBeacon s md).2 = .ok () ∧
    ∃ p, aget x (loadBeacon s md).1.procs = some p ∧ p.group = some g ∧
      aget (hexStr g.hash) (loadBeacon s md).1.hashes = some x ∧
      aget (hexStr g.hash) (loadBeacon s md).1.http = some ⟨x, p.gen⟩ ∧
      (x = defaultBeaconID → aget defaultChainHash (loadBeacon s md).1.hashes = some x ∧
        aget defaultChainHash (loadBeacon s md).1.http = some ⟨x, p.gen⟩) ∧
      route (loadBeacon s md).1 (some ⟨x, []⟩) = .ok (x, p) ∧
      (g.hash ≠ [] →
        route (loadBeacon s md).1 (some ⟨"", g.hash⟩) = .ok (x, p) ∧
        route (loadBeacon s md).1 (some ⟨x, g.hash⟩) = .ok (x, p) ∧
        getBeaconHandler (loadBeacon s md).1 g.hash = some ⟨x, p.gen⟩) := by
  have hx : canon x = x := readBeaconID_canon hr
  let bp : Proc := { (instantiate s x).2 with group := some g }
  have hload : loadBeacon s md =
      (addBeaconHandler { (instantiate s x).1 with procs := aset x bp (instantiate s x).1.procs } x x bp, .ok ()) := by
    unfold loadBeacon getBeaconProcessByID
    rw [hr]; simp only; rw [hn]; simp only
    unfold loadBeaconFromStore
    simp only [hx, hd]
    rfl
  have hprocs : aget x (loadBeacon s md).1.procs = some bp := by
    rw [hload]; unfold addBeaconHandler
    simp only [bp]; split <;> simp [aget_aset]
  have hhash : aget (hexStr g.hash) (loadBeacon s md).1.hashes = some x := by
    rw [hload]; unfold addBeaconHandler
    simp only [bp]; split
    · simp only [aget_aset]; split <;> rfl
    · simp [aget_aset]
  have hhttp : aget (hexStr g.hash) (loadBeacon s md).1.http = some ⟨x, bp.gen⟩ := by
    rw [hload]; unfold addBeaconHandler
    simp only [bp]; split
    · simp only [aget_aset]; split <;> rfl
    · simp [aget_aset]
  have hroute_id : route (loadBeacon s md).1 (some ⟨x, []⟩) = .ok (x, bp) :=
    route_ok_iff.2 ⟨by rw [rb_nohash _ _ rfl]; simp [hx], hprocs⟩
  refine ⟨by rw [hload], bp, hprocs, rfl, hhash, hhttp, ?_, hroute_id, ?_⟩
  · intro hdx
    have hdef : isDefaultBeaconID x = true := by rw [hdx]; exact isDefault_defaultBeaconID
    rw [hload]; unfold addBeaconHandler
    simp only [bp, hdef, if_true]
    exact ⟨by simp [aget_aset], by simp [aget_aset]⟩
  · intro hne
    refine ⟨?_, ?_, ?_⟩
    · apply route_ok_iff.2
      refine ⟨?_, hprocs⟩
      rw [rb_known _ ⟨"", g.hash⟩ hne x hhash]
      simp [hx]
    · apply route_ok_iff.2
      refine ⟨?_, hprocs⟩
      rw [rb_known _ ⟨x, g.hash⟩ hne x hhash]
      have : compareBeaconIDs x x = true := (compare_iff x x).2 rfl
      simp [this, hx]
    · rw [((c19_http_default_only _ g.hash).2 hne).1]
      exact hhttp


private theorem loadFromStore_tables_other (s : State) (i : Id) (k : Key)
    (hk : ∀ g, aget (canon i) s.disk = some (.group g) → k ≠ hexStr g.hash)
    (hkd : k ≠ defaultChainHash ∨ isDefaultBeaconID i = false) :
    aget k (loadBeaconFromStore s i).1.hashes = aget k s.hashes ∧
    aget k (loadBeaconFromStore s i).1.http = aget k s.http := by
  unfold loadBeaconFromStore
  simp only
  split
  · exact ⟨rfl, rfl⟩
  · exact ⟨rfl, rfl⟩
  · exact ⟨rfl, rfl⟩
  · rename_i g hdisk
    have h1 := hk g hdisk
    unfold addBeaconHandler
    simp only
    split
    · rename_i hd
      have h2 : k ≠ defaultChainHash := by
        rcases hkd with h | h
        · exact h
        · rw [hd] at h; cases h
      simp only [aget_aset, if_neg h1, if_neg h2]
      exact ⟨rfl, rfl⟩
    · simp only [aget_aset, if_neg h1]
      exact ⟨rfl, rfl⟩
  · exact ⟨rfl, rfl⟩

/-- **Loading a chain does not disturb the others.** A `LoadBeacon` that resolves to the (not running) id `x` leaves
every other process in place; every request that was answered — and does not name the chain hash of the group being
loaded — is still answered by the same process object, and so is every HTTP path. -/
theorem c19_local (s : State) (hs : Inv s) (md : Option Req) (x : Id)
    (hr : readBeaconID s md = .ok x) (hn : aget x s.procs = none) :
    (∀ y, y ≠ x → aget y (loadBeacon s md).1.procs = aget y s.procs) ∧
    (∀ md' y q, route s md' = .ok (y, q) →
      (∀ m g, md' = some m → aget x s.disk = some (.group g) → hexStr m.hash ≠ hexStr g.hash) →
      route (loadBeacon s md).1 md' = .ok (y, q)) ∧
    (∀ h r, getBeaconHandler s h = some r →
      (∀ g, aget x s.disk = some (.group g) → hexStr h ≠ hexStr g.hash) →
      getBeaconHandler (loadBeacon s md).1 h = some r) := by
  have hx : canon x = x := readBeaconID_canon hr
  have hload : loadBeacon s md = loadBeaconFromStore s x := by
    unfold loadBeacon getBeaconProcessByID
    rw [hr]; simp only; rw [hn]
  have hprocs : ∀ y, y ≠ x → aget y (loadBeacon s md).1.procs = aget y s.procs := by
    intro y hy
    rw [hload]
    exact loadFromStore_procs_other s x y (by rw [hx]; exact hy)
  refine ⟨hprocs, ?_, ?_⟩
  · intro md' y q hroute hnh
    have hy : y ≠ x := by
      intro e
      have := (route_ok_iff.1 hroute).2
      rw [e, hn] at this; cases this
    refine route_stable hroute (hprocs y hy) ?_
    intro m hm hne
    rw [hload]
    exact (loadFromStore_tables_other s x _ (fun g hg => hnh m g hm (by rw [hx] at hg; exact hg))
      (Or.inl (c19_hex_ne_default _))).1
  · intro h r hsel hnh
    by_cases he : h = []
    · rw [(c19_http_default_only _ h).1 he] at hsel ⊢
      rw [hload]
      have hnd : isDefaultBeaconID x = false := by
        cases hd : isDefaultBeaconID x
        · rfl
        · -- the default entry exists, so the default process is running: x cannot be the default id
          obtain ⟨p, g, hp, _, _, hdef, _⟩ := c19_http s hs h r (by rw [(c19_http_default_only _ h).1 he]; exact hsel)
          have : x = defaultBeaconID := by rw [← hx]; exact canon_of_default hd
          rw [hdef he, ← this, hn] at hp; cases hp
      rw [(loadFromStore_tables_other s x _ (fun g _ e => absurd e.symm (c19_hex_ne_default _)) (Or.inr hnd)).2]
      exact hsel
    · rw [((c19_http_default_only _ h).2 he).1] at hsel ⊢
      rw [hload]
      rw [(loadFromStore_tables_other s x _ (fun g hg => hnh g (by rw [hx] at hg; exact hg))
        (Or.inl (c19_hex_ne_default _))).2]
      exact hsel


/-! ### non-vacuity: the hypotheses of every theorem are met by a concrete daemon -/

section Examples

private def gD : Group := ⟨"default", [0xdd]⟩
private def gF : Group := ⟨"foo", [0xff]⟩
/-- default and foo loaded from group files, bar waiting for its first DKG -/
private def exEvs : List Ev :=
  [.disk "default" (some (.group gD)), .load none, .disk "foo" (some (.group gF)), .load (some ⟨"foo", []⟩),
   .disk "bar" (some .fresh), .load (some ⟨"bar", []⟩)]
private def exS : State := run State.init exEvs
private def pD : Proc := ⟨1, some gD⟩
private def pF : Proc := ⟨1, some gF⟩
private def pB : Proc := ⟨1, none⟩

private theorem exS_procs : exS.procs = [("bar", pB), ("foo", pF), ("default", pD)] := by decide
private theorem exS_inv : Inv exS := c19_table_inv exEvs (by decide)

private theorem exS_hashesOK : HashesOK exS := by
  have key : ∀ i p, aget i exS.procs = some p →
      (i = "bar" ∧ p = pB) ∨ (i = "foo" ∧ p = pF) ∨ (i = "default" ∧ p = pD) := by
    intro i p h
    rw [exS_procs] at h
    simp only [aget] at h
    split at h
    · cases h; exact Or.inl ⟨by assumption, rfl⟩
    · split at h
      · cases h; exact Or.inr (Or.inl ⟨by assumption, rfl⟩)
      · split at h
        · cases h; exact Or.inr (Or.inr ⟨by assumption, rfl⟩)
        · cases h
  constructor
  · intro i j p q g g' hi hj hg hg' he
    rcases key i p hi with ⟨rfl, rfl⟩ | ⟨rfl, rfl⟩ | ⟨rfl, rfl⟩ <;>
    rcases key j q hj with ⟨rfl, rfl⟩ | ⟨rfl, rfl⟩ | ⟨rfl, rfl⟩ <;>
    first
    | rfl
    | (cases hg; done)
    | (cases hg'; done)
    | (cases hg; cases hg'; exact absurd he (by decide))
  · intro i p g hi hg
    rcases key i p hi with ⟨rfl, rfl⟩ | ⟨rfl, rfl⟩ | ⟨rfl, rfl⟩
    · cases hg
    · cases hg; decide
    · cases hg; decide

-- c19_table_inv / c19_table_inv_partial (with a DKG completion that keeps, resp. sets for the first time, the hash)
example : Inv exS := exS_inv
example : Inv (run exS [.dkg "bar" ⟨"bar", [0xbb]⟩, .dkg "foo" gF]) := by
  refine c19_table_inv_partial exS exS_inv _ ⟨?_, ?_, trivial⟩
  · intro p g0 hp hg0
    have : aget "bar" exS.procs = some pB := by decide
    rw [this] at hp; cases hp; cases hg0
  · intro p g0 hp hg0
    have : aget "foo" (step exS (.dkg "bar" ⟨"bar", [0xbb]⟩)).1.procs = some pF := by decide
    rw [this] at hp; cases hp; cases hg0; rfl
-- c19_sound: a request that is answered, and what the theorem says about it
example : route exS (some ⟨"", [0xff]⟩) = .ok ("foo", pF) := by decide
example : ∃ g, pF.group = some g ∧ hexStr g.hash = "ff" :=
  ((c19_sound exS exS_inv _ _ _ (by decide : route exS (some ⟨"", [0xff]⟩) = .ok ("foo", pF))).2.2.1
    ⟨"", [0xff]⟩ rfl (by decide) "foo" (by decide)).2
-- the pending-DKG exception: unknown hash, process without group named by the id
example : route exS (some ⟨"bar", [0x01]⟩) = .ok ("bar", pB) := by decide
example : route exS (some ⟨"foo", [0x01]⟩) = .error .unknownHash := by decide
-- c19_mismatch_rejected
example : route exS (some ⟨"bar", [0xff]⟩) = .error .mismatch :=
  c19_mismatch_rejected exS ⟨"bar", [0xff]⟩ "foo" (by decide) (by decide) (by decide) (by decide)
-- c19_hash_alone_selects
example : ∃ p g, route exS (some ⟨"", [0xdd]⟩) = .ok (canon "default", p) ∧ p.group = some g ∧ hexStr g.hash = "dd" :=
  c19_hash_alone_selects exS exS_inv ⟨"", [0xdd]⟩ "default" (by decide) (by decide) (Or.inl rfl)
-- c19_neither_is_default
example : route exS none = .ok ("default", pD) := by rw [c19_neither_is_default exS none (Or.inl rfl)]; decide
example : route exS (some ⟨"", []⟩) = .ok ("default", pD) := by
  rw [c19_neither_is_default exS _ (Or.inr rfl)]; decide
-- c19_http / c19_http_default_only
example : getBeaconHandler exS [0xff] = some ⟨"foo", 1⟩ := by decide
example : getBeaconHandler exS [] = some ⟨"default", 1⟩ := by decide
example : getBeaconHandler exS [0x64, 0x65] = none := by decide
example : ∃ p g, aget "foo" exS.procs = some p ∧ p.gen = 1 ∧ p.group = some g ∧
    (([0xff] : Bytes) = [] → "foo" = defaultBeaconID) ∧ (([0xff] : Bytes) ≠ [] → hexStr g.hash = hexStr [0xff]) :=
  c19_http exS exS_inv [0xff] ⟨"foo", 1⟩ (by decide)
-- c19_stop_unresolves / c19_remove_local: stop foo by its hash
example : aget "foo" (shutdown exS (some ⟨"foo", [0xff]⟩)).1.procs = none :=
  (c19_stop_unresolves exS exS_inv (some ⟨"foo", [0xff]⟩) "foo" pF (by decide)).2.1
example : route (shutdown exS (some ⟨"foo", [0xff]⟩)).1 (some ⟨"", [0xdd]⟩) = .ok ("default", pD) :=
  (c19_remove_local exS exS_inv exS_hashesOK (some ⟨"foo", [0xff]⟩) "foo" pF (by decide)).2.1
    _ "default" pD (by decide) (by decide)
example : route (shutdown exS (some ⟨"foo", [0xff]⟩)).1 (some ⟨"", [0xff]⟩) = .error .unknownHash := by decide
-- c19_load_registers / c19_local: reload foo with another group after the stop
private def gF2 : Group := ⟨"foo", [0xf2]⟩
private def exS2 : State := run exS [.stop (some ⟨"foo", []⟩), .disk "foo" (some (.group gF2))]
example : (loadBeacon exS2 (some ⟨"foo", []⟩)).2 = .ok () :=
  (c19_load_registers exS2 (some ⟨"foo", []⟩) "foo" gF2 (by decide) (by decide) (by decide)).1
example : route (loadBeacon exS2 (some ⟨"foo", []⟩)).1 (some ⟨"", [0xf2]⟩) = .ok ("foo", ⟨2, some gF2⟩) := by decide
example : route (loadBeacon exS2 (some ⟨"foo", []⟩)).1 (some ⟨"", [0xff]⟩) = .error .unknownHash := by decide
example : route (loadBeacon exS2 (some ⟨"foo", []⟩)).1 (some ⟨"default", [0xdd]⟩) = .ok ("default", pD) :=
  (c19_local exS2 (c19_table_inv_partial exS exS_inv _ ⟨trivial, trivial, trivial⟩) (some ⟨"foo", []⟩) "foo"
    (by decide) (by decide)).2.1 _ "default" pD (by decide)
    (by intro m g hm hg; cases hm; have : aget "foo" exS2.disk = some (.group gF2) := by decide
        rw [this] at hg; cases hg; decide)

end Examples

end Drand.Daemon
