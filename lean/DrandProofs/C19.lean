/-
C19 — requests reach only the beacon chain they name.
Property theorems (names listed in vlib/props/C19.py). Model: Drand/Daemon/Routing.lean.
-/
import Drand.Daemon.Routing
import Gen.Routing

namespace Drand.Daemon
open Drand

/-! ### Go maps as association lists -/
section Assoc
variable {κ β : Type} [DecidableEq κ]

private theorem aget_adel (k k' : κ) (l : List (κ × β)) :
    aget k (adel k' l) = if k = k' then none else aget k l := by
  induction l with
  | nil => simp [adel, aget]
  | cons a t ih =>
    obtain ⟨k1, v1⟩ := a
    by_cases h1 : k' = k1
    · subst h1
      by_cases h2 : k = k'
      · subst h2; simp [adel, ih]
      · simp [adel, aget, ih, h2]
    · by_cases h2 : k = k'
      · subst h2; simp [adel, aget, h1, ih]
      · simp only [adel, if_neg h1, aget, ih, if_neg h2]

private theorem aget_aset (k k' : κ) (v : β) (l : List (κ × β)) :
    aget k (aset k' v l) = if k = k' then some v else aget k l := by
  by_cases h : k = k'
  · subst h; simp [aset, aget]
  · simp [aset, aget, h, aget_adel]

private theorem aget_aset_self (k : κ) (v : β) (l : List (κ × β)) : aget k (aset k v l) = some v := by
  simp [aget_aset]

private theorem aget_aset_ne {k k' : κ} (h : k ≠ k') (v : β) (l : List (κ × β)) :
    aget k (aset k' v l) = aget k l := by
  simp [aget_aset, h]

private theorem aget_adel_self (k : κ) (l : List (κ × β)) : aget k (adel k l) = none := by
  simp [aget_adel]

private theorem aget_adel_ne {k k' : κ} (h : k ≠ k') (l : List (κ × β)) : aget k (adel k' l) = aget k l := by
  simp [aget_adel, h]

private theorem aget_adel_some {k k' : κ} {l : List (κ × β)} {v : β} (h : aget k (adel k' l) = some v) :
    k ≠ k' ∧ aget k l = some v := by
  by_cases hk : k = k'
  · subst hk; simp [aget_adel] at h
  · exact ⟨hk, by simpa [aget_adel, hk] using h⟩

end Assoc

/-! ### ties to the regenerated source facts -/

theorem tie_defaultBeaconID : Gen.Routing.defaultBeaconID = defaultBeaconID := rfl
theorem tie_defaultChainHash : Gen.Routing.defaultChainHash = defaultChainHash := rfl
theorem tie_isDefaultBeaconID : Gen.Routing.isDefaultBeaconID = isDefaultBeaconID := rfl
theorem tie_canon : Gen.Routing.getCanonicalBeaconID = canon := rfl
theorem tie_compareBeaconIDs : Gen.Routing.compareBeaconIDs = compareBeaconIDs := rfl

/-! ### beacon ids and chain-hash keys -/

private theorem isDefault_iff (id : Id) : isDefaultBeaconID id = true ↔ (id = "default" ∨ id = "") := by
  simp [isDefaultBeaconID, defaultBeaconID]

private theorem canon_of_default {id : Id} (h : isDefaultBeaconID id = true) : canon id = defaultBeaconID := by
  simp [canon, h]

private theorem canon_of_not_default {id : Id} (h : isDefaultBeaconID id = false) : canon id = id := by
  simp [canon, h]

private theorem isDefault_defaultBeaconID : isDefaultBeaconID defaultBeaconID = true := by
  simp [isDefaultBeaconID]

private theorem isDefault_canon (id : Id) : isDefaultBeaconID (canon id) = isDefaultBeaconID id := by
  cases h : isDefaultBeaconID id
  · rw [canon_of_not_default h, h]
  · rw [canon_of_default h, isDefault_defaultBeaconID]

private theorem canon_idem (id : Id) : canon (canon id) = canon id := by
  cases h : isDefaultBeaconID id
  · rw [canon_of_not_default h, canon_of_not_default h]
  · rw [canon_of_default h, canon_of_default isDefault_defaultBeaconID]

private theorem canon_eq_default_iff (id : Id) : canon id = defaultBeaconID ↔ isDefaultBeaconID id = true := by
  constructor
  · intro h
    cases hd : isDefaultBeaconID id
    · rw [canon_of_not_default hd] at h; rw [h, isDefault_defaultBeaconID] at hd; cases hd
    · rfl
  · exact canon_of_default

private theorem compare_iff (a b : Id) : compareBeaconIDs a b = true ↔ canon a = canon b := by
  unfold compareBeaconIDs
  cases ha : isDefaultBeaconID a <;> cases hb : isDefaultBeaconID b
  · simp [canon_of_not_default ha, canon_of_not_default hb]
  · simp only [Bool.false_and, Bool.false_eq_true, if_false, canon_of_not_default ha, canon_of_default hb]
    have : a ≠ b := by intro h; rw [h, hb] at ha; cases ha
    have h2 : a ≠ defaultBeaconID := by intro h; rw [h, isDefault_defaultBeaconID] at ha; cases ha
    simp [this, h2]
  · simp only [Bool.and_false, Bool.false_eq_true, if_false, canon_of_default ha, canon_of_not_default hb]
    have : a ≠ b := by intro h; rw [h, hb] at ha; cases ha
    have h2 : defaultBeaconID ≠ b := by intro h; rw [← h, isDefault_defaultBeaconID] at hb; cases hb
    simp [this, h2]
  · simp [canon_of_default ha, canon_of_default hb]

private theorem hexChars_length (b : Bytes) : (hexChars b).length = 2 * b.length := by
  induction b with
  | nil => rfl
  | cons x t ih =>
    have : hexChars (x :: t) = [hexDigit (x.toNat / 16), hexDigit (x.toNat % 16)] ++ hexChars t := by
      simp [hexChars]
    rw [this]; simp [ih]; omega

/-- `fmt.Sprintf("%x", bytes)` never yields the reserved key "default" (it has an even number of characters):
the `default` entries of both tables cannot be addressed by a chain hash. -/
theorem c19_hex_ne_default (b : Bytes) : hexStr b ≠ defaultChainHash := by
  intro h
  have h1 : (hexStr b).length = defaultChainHash.length := by rw [h]
  have h2 : defaultChainHash.length = 7 := by decide
  rw [h2] at h1
  simp [hexStr, hexChars_length] at h1
  omega

private theorem hexStr_eq_empty_iff (b : Bytes) : hexStr b = "" ↔ b = [] := by
  constructor
  · intro h
    have h1 : (hexStr b).length = 0 := by rw [h]; rfl
    simp [hexStr, hexChars_length] at h1
    cases b with
    | nil => rfl
    | cons x t => simp at h1
  · intro h; subst h; rfl

example : hexStr [0xde, 0xfa] = "defa" := by decide
example : c19_hex_ne_default [0x64, 0x65] = c19_hex_ne_default [0x64, 0x65] := rfl


/-! ### the consistency of the tables -/

/-- What the two routing tables say is true of the running processes: an entry of `chainHashes` names a running
process whose group has exactly that chain hash (the `default` key: the default process, which has a group); an HTTP
handler proxies a running process object (same incarnation) whose group has the hash it is registered under. -/
structure Inv (s : State) : Prop where
  procKey : ∀ i p, aget i s.procs = some p → canon i = i
  hashOk : ∀ k id, aget k s.hashes = some id →
    ∃ p g, aget (canon id) s.procs = some p ∧ p.group = some g ∧
      (k = hexStr g.hash ∨ (k = defaultChainHash ∧ canon id = defaultBeaconID))
  httpOk : ∀ k r, aget k s.http = some r →
    ∃ p g, aget r.id s.procs = some p ∧ p.gen = r.gen ∧ p.group = some g ∧
      (k = hexStr g.hash ∨ (k = defaultChainHash ∧ r.id = defaultBeaconID))

/-! ### resolving one request -/

private theorem rb_none (s : State) : readBeaconID s none = .ok defaultBeaconID := by
  simp [readBeaconID, canon, isDefaultBeaconID]

private theorem rb_nohash (s : State) (m : Req) (hh : m.hash = []) :
    readBeaconID s (some m) = .ok (canon m.id) := by
  simp [readBeaconID, hh]

private theorem rb_known (s : State) (m : Req) (hh : m.hash ≠ []) (id' : Id)
    (hk : aget (hexStr m.hash) s.hashes = some id') :
    readBeaconID s (some m) =
      if m.id ≠ "" ∧ compareBeaconIDs m.id id' = false then .error .mismatch else .ok (canon id') := by
  simp only [readBeaconID, hh, ne_eq, not_false_eq_true, if_true, hk]
  by_cases h1 : m.id = ""
  · simp [h1]
  · cases h2 : compareBeaconIDs m.id id' <;> simp [h1]

private theorem rb_unknown (s : State) (m : Req) (hh : m.hash ≠ [])
    (hk : aget (hexStr m.hash) s.hashes = none) :
    readBeaconID s (some m) =
      match aget (canon m.id) s.procs with
      | some bp => if bp.group = none then .ok (canon m.id) else .error .unknownHash
      | none => .error .unknownHash := by
  simp only [readBeaconID, hh, ne_eq, not_false_eq_true, if_true, hk]
  cases aget (canon m.id) s.procs with
  | none => rfl
  | some bp => cases hg : bp.group <;> simp

private theorem route_eq (s : State) (md : Option Req) :
    route s md = match readBeaconID s md with
      | .error e => .error e
      | .ok id => match aget id s.procs with
        | some bp => .ok (id, bp)
        | none => .error .notRunning := by
  unfold route getBeaconProcessByID
  cases hr : readBeaconID s md with
  | error e => rfl
  | ok id =>
    simp only []
    cases hp : aget id s.procs <;> simp

private theorem route_ok_iff {s : State} {md : Option Req} {id : Id} {p : Proc} :
    route s md = .ok (id, p) ↔ readBeaconID s md = .ok id ∧ aget id s.procs = some p := by
  rw [route_eq]
  cases hr : readBeaconID s md with
  | error e => simp
  | ok i =>
    simp only []
    cases hp : aget i s.procs with
    | none =>
      simp only [Except.ok.injEq]
      constructor
      · intro h; cases h
      · rintro ⟨h1, h2⟩; subst h1; rw [hp] at h2; cases h2
    | some q =>
      simp only [Except.ok.injEq, Prod.mk.injEq]
      constructor
      · rintro ⟨h1, h2⟩; subst h1; subst h2; exact ⟨rfl, hp⟩
      · rintro ⟨h1, h2⟩; subst h1; rw [hp] at h2; cases h2; exact ⟨rfl, rfl⟩

private theorem readBeaconID_canon {s : State} {md : Option Req} {id : Id} (h : readBeaconID s md = .ok id) :
    canon id = id := by
  cases md with
  | none => rw [rb_none] at h; cases h; exact canon_of_default isDefault_defaultBeaconID
  | some m =>
    by_cases hh : m.hash = []
    · rw [rb_nohash s m hh] at h; cases h; exact canon_idem _
    · cases hk : aget (hexStr m.hash) s.hashes with
      | some id' =>
        rw [rb_known s m hh id' hk] at h
        split at h
        · cases h
        · cases h; exact canon_idem _
      | none =>
        rw [rb_unknown s m hh hk] at h
        split at h
        · split at h
          · cases h; exact canon_idem _
          · cases h
        · cases h

/-- **Soundness of routing.** If a request is handed to a process, that process is running under the id the request
resolved to; a non-empty id in the request is that id; a chain hash present in the table means the answering
process is the one the table names *and its own group has exactly that chain hash*; a chain hash absent from the
table is only accepted for a process without a group (pending DKG) named by the id; without a hash the id alone
(canonicalised) decides; a nil metadata goes to the default chain. -/
theorem c19_sound (s : State) (hs : Inv s) (md : Option Req) (id : Id) (p : Proc)
    (h : route s md = .ok (id, p)) :
    aget id s.procs = some p ∧
    (∀ m, md = some m → m.id ≠ "" → canon m.id = id) ∧
    (∀ m, md = some m → m.hash ≠ [] → ∀ id', aget (hexStr m.hash) s.hashes = some id' →
        id = canon id' ∧ ∃ g, p.group = some g ∧ hexStr g.hash = hexStr m.hash) ∧
    (∀ m, md = some m → m.hash ≠ [] → aget (hexStr m.hash) s.hashes = none →
        p.group = none ∧ id = canon m.id) ∧
    (∀ m, md = some m → m.hash = [] → id = canon m.id) ∧
    (md = none → id = defaultBeaconID) := by
  obtain ⟨hr, hp⟩ := route_ok_iff.1 h
  refine ⟨hp, ?_, ?_, ?_, ?_, ?_⟩
  · intro m hm hne
    subst hm
    by_cases hh : m.hash = []
    · rw [rb_nohash s m hh] at hr; cases hr; rfl
    · cases hk : aget (hexStr m.hash) s.hashes with
      | some id' =>
        rw [rb_known s m hh id' hk] at hr
        split at hr
        · cases hr
        · rename_i hc
          cases hr
          cases hcmp : compareBeaconIDs m.id id'
          · exact absurd ⟨hne, hcmp⟩ hc
          · exact (compare_iff _ _).1 hcmp
      | none =>
        rw [rb_unknown s m hh hk] at hr
        split at hr
        · split at hr
          · cases hr; rfl
          · cases hr
        · cases hr
  · intro m hm hne id' hk
    subst hm
    rw [rb_known s m hne id' hk] at hr
    split at hr
    · cases hr
    · cases hr
      obtain ⟨q, g, hq, hg, hkg⟩ := hs.hashOk _ _ hk
      rw [hq] at hp
      cases hp
      refine ⟨rfl, g, hg, ?_⟩
      rcases hkg with hkg | ⟨hkd, _⟩
      · exact hkg.symm
      · exact absurd hkd (c19_hex_ne_default _)
  · intro m hm hne hk
    subst hm
    rw [rb_unknown s m hne hk] at hr
    split at hr
    · rename_i bp hbp
      split at hr
      · rename_i hnone
        cases hr
        rw [hbp] at hp
        cases hp
        exact ⟨hnone, rfl⟩
      · cases hr
    · cases hr
  · intro m hm he
    subst hm
    rw [rb_nohash s m he] at hr
    cases hr; rfl
  · intro hm
    subst hm
    rw [rb_none] at hr
    cases hr; rfl

/-- **A mismatching id / hash pair is rejected**: the hash is in the table for another id than the (non-empty) one
the request carries. -/
theorem c19_mismatch_rejected (s : State) (m : Req) (id' : Id) (hh : m.hash ≠ [])
    (hk : aget (hexStr m.hash) s.hashes = some id') (hid : m.id ≠ "") (hne : canon m.id ≠ canon id') :
    route s (some m) = .error .mismatch := by
  have hc : compareBeaconIDs m.id id' = false := by
    cases h : compareBeaconIDs m.id id'
    · rfl
    · exact absurd ((compare_iff _ _).1 h) hne
  rw [route_eq, rb_known s m hh id' hk, if_pos ⟨hid, hc⟩]

/-- **A known hash alone selects its chain** (also together with the matching id): the request reaches the process
the table names, and that process' group has the requested chain hash. -/
theorem c19_hash_alone_selects (s : State) (hs : Inv s) (m : Req) (id' : Id) (hh : m.hash ≠ [])
    (hk : aget (hexStr m.hash) s.hashes = some id') (hid : m.id = "" ∨ canon m.id = canon id') :
    ∃ p g, route s (some m) = .ok (canon id', p) ∧ p.group = some g ∧ hexStr g.hash = hexStr m.hash := by
  obtain ⟨q, g, hq, hg, hkg⟩ := hs.hashOk _ _ hk
  refine ⟨q, g, ?_, hg, ?_⟩
  · apply route_ok_iff.2
    refine ⟨?_, hq⟩
    rw [rb_known s m hh id' hk, if_neg]
    rintro ⟨h1, h2⟩
    rcases hid with hid | hid
    · exact h1 hid
    · rw [(compare_iff _ _).2 hid] at h2; cases h2
  · rcases hkg with hkg | ⟨hkd, _⟩
    · exact hkg.symm
    · exact absurd hkd (c19_hex_ne_default _)

/-- **Neither id nor hash goes to the default chain only** (nil metadata, or empty id and empty hash). -/
theorem c19_neither_is_default (s : State) (md : Option Req) (h : md = none ∨ md = some ⟨"", []⟩) :
    route s md = match aget defaultBeaconID s.procs with
      | some p => .ok (defaultBeaconID, p)
      | none => .error .notRunning := by
  have hr : readBeaconID s md = .ok defaultBeaconID := by
    rcases h with h | h
    · subst h; exact rb_none s
    · subst h; rw [rb_nohash s _ rfl]; rfl
  rw [route_eq, hr]

/-- **HTTP paths under a chain hash serve only that chain.** The handler selected for a (decoded) chain hash proxies a
running process object whose group has that hash; without a hash in the path it is the default process. -/
theorem c19_http (s : State) (hs : Inv s) (h : Bytes) (r : Ref) (hr : getBeaconHandler s h = some r) :
    ∃ p g, aget r.id s.procs = some p ∧ p.gen = r.gen ∧ p.group = some g ∧
      (h = [] → r.id = defaultBeaconID) ∧ (h ≠ [] → hexStr g.hash = hexStr h) := by
  unfold getBeaconHandler at hr
  by_cases he : h = []
  · subst he
    have : hexStr [] = "" := rfl
    simp only [this, beq_self_eq_true, if_true] at hr
    obtain ⟨p, g, hp, hgen, hg, hk⟩ := hs.httpOk _ _ hr
    refine ⟨p, g, hp, hgen, hg, fun _ => ?_, fun h => absurd rfl h⟩
    rcases hk with hk | ⟨_, hd⟩
    · exact absurd hk.symm (c19_hex_ne_default _)
    · exact hd
  · have hne : hexStr h ≠ "" := fun hh => he ((hexStr_eq_empty_iff h).1 hh)
    have : (hexStr h == "") = false := by simpa using hne
    simp only [this, Bool.false_eq_true, if_false] at hr
    obtain ⟨p, g, hp, hgen, hg, hk⟩ := hs.httpOk _ _ hr
    refine ⟨p, g, hp, hgen, hg, fun h' => absurd h' he, fun _ => ?_⟩
    rcases hk with hk | ⟨hkd, _⟩
    · exact hk.symm
    · exact absurd hkd (c19_hex_ne_default _)

/-- The `default` entry of the HTTP table is reachable only by a path without chain hash: a decoded non-empty hash is
looked up under its own hex string, which is never "default". -/
theorem c19_http_default_only (s : State) (h : Bytes) :
    (h = [] → getBeaconHandler s h = aget defaultChainHash s.http) ∧
    (h ≠ [] → getBeaconHandler s h = aget (hexStr h) s.http ∧ hexStr h ≠ defaultChainHash) := by
  constructor
  · intro he; subst he; rfl
  · intro he
    have hne : hexStr h ≠ "" := fun hh => he ((hexStr_eq_empty_iff h).1 hh)
    have : (hexStr h == "") = false := by simpa using hne
    exact ⟨by simp [getBeaconHandler, this], c19_hex_ne_default h⟩


/-! ### table maintenance keeps the tables consistent -/

/-- `Inv` only looks at the three tables, through `aget` -/
private theorem inv_congr {s s' : State} (h1 : ∀ j, aget j s'.procs = aget j s.procs)
    (h2 : ∀ k, aget k s'.hashes = aget k s.hashes) (h3 : ∀ k, aget k s'.http = aget k s.http)
    (hs : Inv s) : Inv s' := by
  constructor
  · intro i p h; rw [h1] at h; exact hs.procKey i p h
  · intro k id h; rw [h2] at h; rw [h1]; exact hs.hashOk k id h
  · intro k r h; rw [h3] at h; rw [h1]; exact hs.httpOk k r h

/-- a (new) process object is put under an id that is not running: no table entry can refer to it -/
private theorem inv_newproc {s s' : State} (hs : Inv s) (i : Id) (hi : canon i = i) (hn : aget i s.procs = none)
    (p : Proc) (h1 : ∀ j, aget j s'.procs = if j = i then some p else aget j s.procs)
    (h2 : ∀ k, aget k s'.hashes = aget k s.hashes) (h3 : ∀ k, aget k s'.http = aget k s.http) : Inv s' := by
  constructor
  · intro j q h
    rw [h1] at h
    by_cases hj : j = i
    · subst hj; exact hi
    · rw [if_neg hj] at h; exact hs.procKey j q h
  · intro k id h
    rw [h2] at h
    obtain ⟨q, g, hq, hg, hk⟩ := hs.hashOk k id h
    have : canon id ≠ i := by intro e; rw [e, hn] at hq; cases hq
    exact ⟨q, g, by rw [h1, if_neg this]; exact hq, hg, hk⟩
  · intro k r h
    rw [h3] at h
    obtain ⟨q, g, hq, hgen, hg, hk⟩ := hs.httpOk k r h
    have : r.id ≠ i := by intro e; rw [e, hn] at hq; cases hq
    exact ⟨q, g, by rw [h1, if_neg this]; exact hq, hgen, hg, hk⟩

private theorem inv_add {s : State} (hs : Inv s) (beaconID own : Id) (bp : Proc) (g : Group)
    (hbp : aget own s.procs = some bp) (hg : bp.group = some g) (hc : canon beaconID = own) :
    Inv (addBeaconHandler s beaconID own bp) := by
  unfold addBeaconHandler
  rw [hg]
  simp only
  have hown : ∃ p g', aget (canon beaconID) s.procs = some p ∧ p.group = some g' ∧ g' = g :=
    ⟨bp, g, by rw [hc]; exact hbp, hg, rfl⟩
  split
  · rename_i hd
    have hcd : canon beaconID = defaultBeaconID := canon_of_default hd
    constructor
    · intro i p h; exact hs.procKey i p h
    · intro k id h
      simp only [aget_aset] at h
      split at h
      · cases h
        exact ⟨bp, g, by rw [hc]; exact hbp, hg, Or.inr ⟨by assumption, hcd⟩⟩
      · split at h
        · cases h
          exact ⟨bp, g, by rw [hc]; exact hbp, hg, Or.inl (by assumption)⟩
        · exact hs.hashOk k id h
    · intro k r h
      simp only [aget_aset] at h
      split at h
      · cases h
        exact ⟨bp, g, hbp, rfl, hg, Or.inr ⟨by assumption, by rw [← hc]; exact hcd⟩⟩
      · split at h
        · cases h
          exact ⟨bp, g, hbp, rfl, hg, Or.inl (by assumption)⟩
        · exact hs.httpOk k r h
  · constructor
    · intro i p h; exact hs.procKey i p h
    · intro k id h
      simp only [aget_aset] at h
      split at h
      · cases h
        exact ⟨bp, g, by rw [hc]; exact hbp, hg, Or.inl (by assumption)⟩
      · exact hs.hashOk k id h
    · intro k r h
      simp only [aget_aset] at h
      split at h
      · cases h
        exact ⟨bp, g, hbp, rfl, hg, Or.inl (by assumption)⟩
      · exact hs.httpOk k r h

private theorem inv_removeHandler {s : State} (hs : Inv s) (beaconID : Id) (bp : Proc) :
    Inv (removeBeaconHandler s beaconID bp) := by
  unfold removeBeaconHandler
  cases hg : bp.group with
  | none => exact hs
  | some g =>
    simp only
    split
    · constructor
      · exact hs.procKey
      · exact hs.hashOk
      · intro k r h
        exact hs.httpOk k r (aget_adel_some (aget_adel_some h).2).2
    · constructor
      · exact hs.procKey
      · exact hs.hashOk
      · intro k r h
        exact hs.httpOk k r (aget_adel_some h).2

/-- after `RemoveBeaconHandler(beaconID, bp)` for the process registered under `beaconID`, no HTTP handler proxies it -/
private theorem removeHandler_unref {s : State} (hs : Inv s) (x : Id) (bp : Proc)
    (hbp : aget x s.procs = some bp) :
    ∀ k r, aget k (removeBeaconHandler s x bp).http = some r → r.id ≠ x := by
  intro k r h hrx
  unfold removeBeaconHandler at h
  cases hg : bp.group with
  | none =>
    rw [hg] at h
    obtain ⟨q, g, hq, _, hqg, _⟩ := hs.httpOk k r h
    rw [hrx, hbp] at hq; cases hq; rw [hg] at hqg; cases hqg
  | some g =>
    rw [hg] at h
    simp only at h
    split at h
    · obtain ⟨hk1, h⟩ := aget_adel_some h
      obtain ⟨hk2, h⟩ := aget_adel_some h
      obtain ⟨q, g', hq, _, hqg, hk⟩ := hs.httpOk k r h
      rw [hrx, hbp] at hq; cases hq; rw [hg] at hqg; cases hqg
      rcases hk with hk | ⟨hk, _⟩
      · exact hk2 hk
      · exact hk1 hk
    · rename_i hd
      obtain ⟨hk2, h⟩ := aget_adel_some h
      obtain ⟨q, g', hq, _, hqg, hk⟩ := hs.httpOk k r h
      rw [hrx, hbp] at hq; cases hq; rw [hg] at hqg; cases hqg
      rcases hk with hk | ⟨_, hdx⟩
      · exact hk2 hk
      · rw [hrx] at hdx
        rw [hdx, isDefault_defaultBeaconID] at hd
        exact hd rfl

private theorem inv_removeProcess {s : State} (hs : Inv s) (x : Id) (hx : canon x = x) (bp : Proc)
    (hbp : aget x s.procs = some bp) (hun : ∀ k r, aget k s.http = some r → r.id ≠ x) :
    Inv (removeBeaconProcess s x bp) := by
  unfold removeBeaconProcess
  simp only [hx]
  have key : ∀ (hashes' : List (Key × Id)),
      (∀ k id, aget k hashes' = some id → aget k s.hashes = some id ∧
        k ≠ (match bp.group with | some g => hexStr g.hash | none => "") ∧
        (isDefaultBeaconID x = true → k ≠ defaultChainHash)) →
      Inv { s with procs := adel x s.procs, hashes := hashes' } := by
    intro hashes' hh
    constructor
    · intro i p h; exact hs.procKey i p (aget_adel_some h).2
    · intro k id h
      obtain ⟨hold, hk1, hk2⟩ := hh k id h
      obtain ⟨q, g, hq, hg, hk⟩ := hs.hashOk k id hold
      have hne : canon id ≠ x := by
        intro e
        rw [e, hbp] at hq; cases hq
        rw [hg] at hk1
        rcases hk with hk | ⟨hk, hcd⟩
        · exact hk1 hk
        · rw [e] at hcd
          exact hk2 (by rw [hcd]; exact isDefault_defaultBeaconID) hk
      exact ⟨q, g, by simp only; rw [aget_adel_ne hne]; exact hq, hg, hk⟩
    · intro k r h
      obtain ⟨q, g, hq, hgen, hg, hk⟩ := hs.httpOk k r h
      exact ⟨q, g, by simp only; rw [aget_adel_ne (hun k r h)]; exact hq, hgen, hg, hk⟩
  split
  · rename_i hd
    apply key
    intro k id h
    obtain ⟨h1, h⟩ := aget_adel_some h
    obtain ⟨h2, h⟩ := aget_adel_some h
    exact ⟨h, h2, fun _ => h1⟩
  · rename_i hd
    apply key
    intro k id h
    obtain ⟨h2, h⟩ := aget_adel_some h
    exact ⟨h, h2, fun hd' => absurd hd' hd⟩


/-! ### control calls keep the tables consistent -/

private theorem instantiate_procs (s : State) (i : Id) (j : Id) :
    aget j (instantiate s i).1.procs = if j = canon i then some (instantiate s i).2 else aget j s.procs := by
  simp [instantiate, aget_aset]

private theorem instantiate_group (s : State) (i : Id) : (instantiate s i).2.group = none := rfl
private theorem instantiate_hashes (s : State) (i : Id) : (instantiate s i).1.hashes = s.hashes := rfl
private theorem instantiate_http (s : State) (i : Id) : (instantiate s i).1.http = s.http := rfl

private theorem inv_loadFromStore {s : State} (hs : Inv s) (i : Id) (hn : aget (canon i) s.procs = none) :
    Inv (loadBeaconFromStore s i).1 := by
  unfold loadBeaconFromStore
  simp only
  split
  · refine inv_congr (s := s) ?_ ?_ ?_ hs <;> intro _ <;> rfl
  · exact hs
  · exact inv_newproc hs (canon i) (canon_idem i) hn (instantiate s i).2 (instantiate_procs s i)
      (fun _ => rfl) (fun _ => rfl)
  · rename_i g _
    -- the process object with its group loaded, registered under the canonical id
    have h1 : Inv { (instantiate s i).1 with
        procs := aset (canon i) ({ (instantiate s i).2 with group := some g } : Proc) (instantiate s i).1.procs } :=
      inv_newproc hs (canon i) (canon_idem i) hn ({ (instantiate s i).2 with group := some g } : Proc)
        (fun j => by
          simp only [aget_aset, instantiate_procs]
          by_cases h : j = canon i <;> simp [h]) (fun _ => rfl) (fun _ => rfl)
    exact inv_add h1 i (canon i) ({ (instantiate s i).2 with group := some g } : Proc) g
      (by simp [aget_aset]) rfl rfl
  · rename_i g _
    exact inv_newproc hs (canon i) (canon_idem i) hn ({ (instantiate s i).2 with group := some g } : Proc)
      (fun j => by
        simp only [aget_aset, instantiate_procs]
        by_cases h : j = canon i <;> simp [h]) (fun _ => rfl) (fun _ => rfl)

private theorem loadFromStore_procs_other (s : State) (i j : Id) (hj : j ≠ canon i) :
    aget j (loadBeaconFromStore s i).1.procs = aget j s.procs := by
  unfold loadBeaconFromStore
  simp only
  split
  · rfl
  · rfl
  · simp [instantiate_procs, hj]
  · simp only [addBeaconHandler]
    split <;> simp [aget_aset, instantiate_procs, hj]
  · simp [aget_aset, instantiate_procs, hj]

private theorem inv_loadBeacon {s : State} (hs : Inv s) (md : Option Req) : Inv (loadBeacon s md).1 := by
  unfold loadBeacon
  cases hr : readBeaconID s md with
  | error e => exact hs
  | ok id =>
    simp only
    unfold getBeaconProcessByID
    cases hp : aget id s.procs with
    | some bp => exact hs
    | none =>
      simp only
      exact inv_loadFromStore hs id (by rw [readBeaconID_canon hr]; exact hp)

private theorem inv_shutdown {s : State} (hs : Inv s) (md : Option Req) : Inv (shutdown s md).1 := by
  unfold shutdown
  cases hr : readBeaconID s md with
  | error e => exact hs
  | ok id =>
    simp only
    unfold getBeaconProcessByID
    cases hp : aget id s.procs with
    | none => exact hs
    | some bp =>
      simp only
      have hc := readBeaconID_canon hr
      have h1 := inv_removeHandler hs id bp
      have hp' : aget id (removeBeaconHandler s id bp).procs = some bp := by
        unfold removeBeaconHandler
        cases bp.group with
        | none => exact hp
        | some g => simp only; split <;> exact hp
      exact inv_removeProcess h1 id hc bp hp' (removeHandler_unref hs id bp hp)

/-- the hypothesis under which a DKG completion keeps the tables consistent: a process that already has a group keeps
its chain hash (the distributed key and the scheme are unchanged by a resharing) -/
def DkgKeepsHash (s : State) (id : Id) (g : Group) : Prop :=
  ∀ p g0, aget id s.procs = some p → p.group = some g0 → hexStr g0.hash = hexStr g.hash

private theorem inv_dkg {s : State} (hs : Inv s) (id : Id) (g : Group) (hk : DkgKeepsHash s id g) :
    Inv (dkgCompleted s id g).1 := by
  unfold dkgCompleted
  cases hp : aget id s.procs with
  | none => exact hs
  | some bp =>
    simp only
    have hid : canon id = id := hs.procKey id bp hp
    -- storeDKGOutput: the group of the registered object changes
    have h1 : Inv { s with procs := aset id { bp with group := some g } s.procs,
                           disk := aset id (.group g) s.disk } := by
      constructor
      · intro j q h
        simp only [aget_aset] at h
        split at h
        · rename_i e; rw [e]; exact hid
        · exact hs.procKey j q h
      · intro k i h
        obtain ⟨q, g0, hq, hg0, hkk⟩ := hs.hashOk k i h
        by_cases hi : canon i = id
        · rw [hi, hp] at hq; cases hq
          refine ⟨{ bp with group := some g }, g, by simp [hi, aget_aset], rfl, ?_⟩
          rcases hkk with hkk | hkk
          · exact Or.inl (by rw [hkk]; exact hk bp g0 hp hg0)
          · exact Or.inr hkk
        · exact ⟨q, g0, by simp only [aget_aset, if_neg hi]; exact hq, hg0, hkk⟩
      · intro k r h
        obtain ⟨q, g0, hq, hgen, hg0, hkk⟩ := hs.httpOk k r h
        by_cases hi : r.id = id
        · rw [hi, hp] at hq; cases hq
          refine ⟨{ bp with group := some g }, g, by simp [hi, aget_aset], hgen, rfl, ?_⟩
          rcases hkk with hkk | hkk
          · exact Or.inl (by rw [hkk]; exact hk bp g0 hp hg0)
          · exact Or.inr hkk
        · exact ⟨q, g0, by simp only [aget_aset, if_neg hi]; exact hq, hgen, hg0, hkk⟩
    -- the daemon's dkgCallback
    split
    · rename_i bp' hbp'
      split
      · exact h1
      · rename_i hsome
        cases hg' : bp'.group with
        | none => simp [hg'] at hsome
        | some g' => exact inv_add h1 (canon g.gid) (canon g.gid) bp' g' hbp' hg' (canon_idem _)
    · exact h1

/-- `LoadBeaconsFromDisk` is the start-up path: the store folders are pairwise different beacon ids and none of them is
running -/
def BootOK (s : State) : Prop :=
  ((bootStores s).map canon).Nodup ∧ ∀ i ∈ bootStores s, aget (canon i) s.procs = none

private theorem inv_loadEach (single : Bool) (name : Id) (ids : List Id) :
    ∀ s : State, Inv s → (ids.map canon).Nodup → (∀ i ∈ ids, aget (canon i) s.procs = none) →
      Inv (loadEach single name s ids).1 := by
  induction ids with
  | nil => intro s hs _ _; exact hs
  | cons i rest ih =>
    intro s hs hnd hnone
    have hnd' : (rest.map canon).Nodup := (List.nodup_cons.1 hnd).2
    have hni : ∀ j ∈ rest, canon j ≠ canon i := by
      intro j hj e
      exact (List.nodup_cons.1 hnd).1 (by rw [← e]; exact List.mem_map_of_mem hj)
    unfold loadEach
    split
    · exact ih s hs hnd' (fun j hj => hnone j (List.mem_cons_of_mem _ hj))
    · have h1 := inv_loadFromStore hs i (hnone i List.mem_cons_self)
      split
      · rename_i s' e heq
        rw [heq] at h1; exact h1
      · rename_i s' u heq
        rw [heq] at h1
        refine ih s' h1 hnd' ?_
        intro j hj
        have := loadFromStore_procs_other s i (canon j) (hni j hj)
        rw [heq] at this
        rw [this]
        exact hnone j (List.mem_cons_of_mem _ hj)

private theorem inv_boot {s : State} (hs : Inv s) (single : Bool) (name : Id) (hb : BootOK s) :
    Inv (loadBeaconsFromDisk s single name).1 := by
  unfold loadBeaconsFromDisk
  split
  · exact hs
  · exact inv_loadEach single name (bootStores s) s hs hb.1 hb.2

/-- what a history must satisfy beyond the guards the code itself applies -/
def EvOK (s : State) : Ev → Prop
  | .dkg id g => DkgKeepsHash s id g
  | .boot _ _ => BootOK s
  | _ => True

def RunOK : State → List Ev → Prop
  | _, [] => True
  | s, e :: es => EvOK s e ∧ RunOK (step s e).1 es

private theorem inv_step {s : State} (hs : Inv s) (e : Ev) (he : EvOK s e) : Inv (step s e).1 := by
  cases e with
  | disk id e =>
    cases e <;> (refine inv_congr (s := s) ?_ ?_ ?_ hs <;> intro _ <;> rfl)
  | load md => exact inv_loadBeacon hs md
  | boot single name => exact inv_boot hs single name he
  | stop md => exact inv_shutdown hs md
  | dkg id g => exact inv_dkg hs id g he

private theorem inv_init : Inv State.init := by
  constructor <;> intro _ _ h <;> simp [State.init, aget] at h

private theorem inv_run (evs : List Ev) : ∀ s, Inv s → RunOK s evs → Inv (run s evs) := by
  induction evs with
  | nil => intro s hs _; exact hs
  | cons e es ih =>
    intro s hs hr
    exact ih (step s e).1 (inv_step hs e hr.1) hr.2

/-
Full statement (DESIGN.md §3 C19, `c19_table_inv`): for EVERY history of table operations the tables stay
consistent (`Inv`): `hashes[h] = id ⇒ id ∈ procs ∧ procs[id].chainHash = h` (or h = "default" ∧ id = "default"),
and likewise for the HTTP handler table, so no stale entry survives a stop.

As coded this holds
 * unconditionally for every history of key-folder changes, `LoadBeacon` and `Shutdown` control calls — the
   load / stop / reload histories the property quantifies over (`c19_table_inv`);
 * for histories that also contain DKG completions and start-up loads only under `RunOK`
   (`c19_table_inv_partial`): a DKG completion on a process that has a group must keep its chain hash, and
   `LoadBeaconsFromDisk` must run while none of the stored beacons is running. Neither is checked by the code:
   `storeDKGOutput` / `dkgCallback` register the new hash and leave the old one, `LoadBeaconsFromDisk` has no
   "already running" guard. `c19_table_inv_counterexample` is the concrete stale entry.
-/

def isLoadStop : Ev → Bool
  | .disk _ _ | .load _ | .stop _ => true
  | _ => false

private theorem runOK_of_loadStop (evs : List Ev) : ∀ s, (∀ e ∈ evs, isLoadStop e = true) → RunOK s evs := by
  induction evs with
  | nil => intro _ _; trivial
  | cons e es ih =>
    intro s h
    refine ⟨?_, ih _ (fun e' he' => h e' (List.mem_cons_of_mem _ he'))⟩
    have := h e List.mem_cons_self
    cases e <;> simp [isLoadStop] at this <;> trivial

/-- **No stale routing entry, for every load / stop / reload history.** -/
theorem c19_table_inv (evs : List Ev) (h : ∀ e ∈ evs, isLoadStop e = true) : Inv (run State.init evs) :=
  inv_run evs _ inv_init (runOK_of_loadStop evs _ h)

/-- The same for histories with DKG completions and start-up loads, under the hypotheses the proof forces. -/
theorem c19_table_inv_partial (s : State) (hs : Inv s) (evs : List Ev) (h : RunOK s evs) : Inv (run s evs) :=
  inv_run evs s hs h

private instance {ε α : Type} [DecidableEq ε] [DecidableEq α] : DecidableEq (Except ε α) := fun a b =>
  match a, b with
  | .ok x, .ok y => if h : x = y then isTrue (by rw [h]) else isFalse (by intro e; cases e; exact h rfl)
  | .error x, .error y => if h : x = y then isTrue (by rw [h]) else isFalse (by intro e; cases e; exact h rfl)
  | .ok _, .error _ => isFalse (by intro e; cases e)
  | .error _, .ok _ => isFalse (by intro e; cases e)

/-- Witness that `DkgKeepsHash` is needed: load `foo` with a group of chain hash `aa`, then complete a DKG on it whose
group has chain hash `bb`. The old key still routes to `foo`, whose chain is now `bb`: a request naming chain `aa`
is answered by a process of chain `bb`. (Replayed on the real code by the check: `assumption_witness`.) -/
theorem c19_table_inv_counterexample :
    let evs := [Ev.disk "foo" (some (.group ⟨"foo", [0xaa]⟩)), .load (some ⟨"foo", []⟩), .dkg "foo" ⟨"foo", [0xbb]⟩]
    let s := run State.init evs
    route s (some ⟨"", [0xaa]⟩) = .ok ("foo", ⟨1, some ⟨"foo", [0xbb]⟩⟩) ∧ ¬ Inv s := by
  refine ⟨by decide, ?_⟩
  intro hinv
  have h : aget "aa" (run State.init
      [Ev.disk "foo" (some (.group ⟨"foo", [0xaa]⟩)), .load (some ⟨"foo", []⟩), .dkg "foo" ⟨"foo", [0xbb]⟩]).hashes
      = some "foo" := by decide
  obtain ⟨p, g, hp, hg, hk⟩ := hinv.hashOk _ _ h
  have hp' : aget (canon "foo") (run State.init
      [Ev.disk "foo" (some (.group ⟨"foo", [0xaa]⟩)), .load (some ⟨"foo", []⟩), .dkg "foo" ⟨"foo", [0xbb]⟩]).procs
      = some ⟨1, some ⟨"foo", [0xbb]⟩⟩ := by decide
  rw [hp'] at hp
  cases hp
  cases hg
  rcases hk with hk | ⟨hk, _⟩
  · exact absurd hk (by decide)
  · exact absurd hk (by decide)

end Drand.Daemon
