/-
Algebraic specification of the output of a Pedersen DKG and of a resharing
(C06 / C07).  drand uses kyber's Pedersen DKG; threshold BLS partial signatures
are `share • H(m)` in a group written additively.  Everything here is pure
algebra over an arbitrary scalar field `F` and an arbitrary `F`-module `G`.
-/
import Mathlib.LinearAlgebra.Lagrange

namespace Drand.DKG.Pedersen

open Polynomial

noncomputable section

-- No decidable equality on `F` is needed anywhere; decidable equality on the
-- dealers `ι` is only needed for resharing (where dealers carry Lagrange
-- coefficients), so it is introduced in that section only.
variable {F : Type*} [Field F]                       -- scalar field of the pairing group
variable {G : Type*} [AddCommGroup G] [Module F G]   -- the key group / signature group, additively
variable {ι : Type*}                                 -- dealers
variable {κ : Type*} [DecidableEq κ]                -- share holders

/-! ### Definitions -/

/-- The group's secret polynomial: the sum of the qualified dealers' polynomials. -/
def sumPoly (Q : Finset ι) (f : ι → F[X]) : F[X] := ∑ i ∈ Q, f i

/-- What the share holder with evaluation point `x` holds: the sum of the
sub-shares dealt to it by the qualified dealers. -/
def share (Q : Finset ι) (f : ι → F[X]) (x : F) : F := ∑ i ∈ Q, (f i).eval x

/-- The `k`-th public coefficient (commitment) `C_k` of the distributed key. -/
def pubCoeff (Q : Finset ι) (f : ι → F[X]) (g : G) (k : ℕ) : G :=
  ∑ i ∈ Q, (f i).coeff k • g

/-- Evaluation of the public polynomial of length `t` at `x`
(kyber's `PubPoly.Eval`). -/
def evalPub (C : ℕ → G) (t : ℕ) (x : F) : G := ∑ k ∈ Finset.range t, x ^ k • C k

/-- The Lagrange coefficient `λ_j^S` used to recover the value at `0`. -/
def lagrangeAt0 (S : Finset κ) (x : κ → F) (j : κ) : F := (Lagrange.basis S x j).eval 0

/-! ### Fresh DKG (C06) -/

variable {Q : Finset ι} {f : ι → F[X]}

/-- The share held at evaluation point `x` is the value at `x` of the group's
secret polynomial. -/
theorem c06_share_eq_eval (Q : Finset ι) (f : ι → F[X]) (x : F) :
    share Q f x = (sumPoly Q f).eval x := by
  simp [share, sumPoly, eval_finsetSum]

/-- The share lies on the public polynomial: `share • base = PubPoly.Eval(x)`.
This is the check every node performs on its own share after the DKG. -/
theorem c06_share_on_poly (t : ℕ) (hdeg : ∀ i ∈ Q, (f i).natDegree < t) (g : G) (x : F) :
    share Q f x • g = evalPub (pubCoeff Q f g) t x := by
  unfold share evalPub pubCoeff
  rw [Finset.sum_smul]
  simp_rw [Finset.smul_sum]
  rw [Finset.sum_comm]
  refine Finset.sum_congr rfl fun i hi => ?_
  rw [eval_eq_sum_range' (hdeg i hi) x, Finset.sum_smul]
  refine Finset.sum_congr rfl fun k _ => ?_
  rw [smul_smul, mul_comm]

/-- The distributed public key (the constant public coefficient) is `f(0) • g`
where `f` is the group's secret polynomial. -/
theorem c06_pub_constant (Q : Finset ι) (f : ι → F[X]) (g : G) :
    pubCoeff Q f g 0 = (sumPoly Q f).eval 0 • g := by
  unfold pubCoeff sumPoly
  rw [← Finset.sum_smul, ← coeff_zero_eq_eval_zero, finsetSum_coeff]

/-- Lagrange recovery at `0`: for a polynomial of degree `< #S`, the values at
the `#S` distinct points `x j` combine with the coefficients `λ_j^S` to the
value at `0`. -/
private theorem lagrange_recover (S : Finset κ) (x : κ → F) (hinj : Set.InjOn x S)
    (p : F[X]) (hdeg : p.degree < S.card) :
    ∑ j ∈ S, lagrangeAt0 S x j * p.eval (x j) = p.eval 0 := by
  conv_rhs => rw [Lagrange.eq_interpolate hinj hdeg]
  rw [Lagrange.interpolate_apply, eval_finsetSum]
  refine Finset.sum_congr rfl fun j _ => ?_
  rw [eval_mul, eval_C, lagrangeAt0, mul_comm]

/-- A sum of polynomials of degree `< t` has degree `< t`. -/
private theorem degree_sum_lt (Q : Finset ι) (f : ι → F[X]) (t : ℕ)
    (hdeg : ∀ i ∈ Q, (f i).degree < t) : (∑ i ∈ Q, f i).degree < t := by
  rw [← mem_degreeLT]
  exact Submodule.sum_mem _ fun i hi => mem_degreeLT.mpr (hdeg i hi)

/-- Any `t` shares at distinct points combine (Lagrange) to the group signature
`f(0) • h` on the message point `h`. -/
theorem c06_threshold_signs (t : ℕ) (S : Finset κ) (x : κ → F) (hinj : Set.InjOn x S)
    (hcard : S.card = t) (hdeg : ∀ i ∈ Q, (f i).degree < t) (h : G) :
    ∑ j ∈ S, lagrangeAt0 S x j • (share Q f (x j) • h) = (sumPoly Q f).eval 0 • h := by
  have hp : (sumPoly Q f).degree < S.card := by
    rw [hcard]; exact degree_sum_lt Q f t hdeg
  rw [← lagrange_recover S x hinj (sumPoly Q f) hp, Finset.sum_smul]
  refine Finset.sum_congr rfl fun j _ => ?_
  rw [smul_smul, c06_share_eq_eval]

/-- The combined threshold signature is `s • h` for the very scalar `s` whose
image `s • g` is the distributed public key; for a bilinear pairing `e` this is
exactly the BLS verification equation `e(g, s • h) = e(s • g, h)`. -/
theorem c06_threshold_verifies (t : ℕ) (S : Finset κ) (x : κ → F) (hinj : Set.InjOn x S)
    (hcard : S.card = t) (hdeg : ∀ i ∈ Q, (f i).degree < t) (g h : G) :
    ∃ s : F, pubCoeff Q f g 0 = s • g ∧
      ∑ j ∈ S, lagrangeAt0 S x j • (share Q f (x j) • h) = s • h :=
  ⟨(sumPoly Q f).eval 0, c06_pub_constant Q f g,
    c06_threshold_signs t S x hinj hcard hdeg h⟩

/-! ### Resharing (C07) -/

variable [DecidableEq ι]

/-- The new secret polynomial after a resharing by the old members `D`. -/
def newPoly (D : Finset ι) (xo : ι → F) (gi : ι → F[X]) : F[X] :=
  ∑ i ∈ D, C (lagrangeAt0 D xo i) * gi i

/-- The new share of a holder with evaluation point `x'` after a resharing. -/
def newShare (D : Finset ι) (xo : ι → F) (gi : ι → F[X]) (x' : F) : F :=
  ∑ i ∈ D, lagrangeAt0 D xo i * (gi i).eval x'

variable {D : Finset ι} {xo : ι → F} {gi : ι → F[X]} {fo : F[X]}

/-- The new share at evaluation point `x'` is the value at `x'` of the new
secret polynomial. -/
theorem c07_newshare_eq_eval (D : Finset ι) (xo : ι → F) (gi : ι → F[X]) (x' : F) :
    newShare D xo gi x' = (newPoly D xo gi).eval x' := by
  simp [newShare, newPoly, eval_finsetSum]

/-- A resharing by `told` old members (each re-dealing its old share as the
constant term of a fresh polynomial) preserves the secret `fo(0)`. -/
theorem c07_secret_preserved {told : ℕ} (hdeg : fo.degree < told) (hcard : D.card = told)
    (hinj : Set.InjOn xo D) (h0 : ∀ i ∈ D, (gi i).eval 0 = fo.eval (xo i)) :
    (newPoly D xo gi).eval 0 = fo.eval 0 := by
  rw [← c07_newshare_eq_eval, ← lagrange_recover D xo hinj fo (by rw [hcard]; exact hdeg)]
  exact Finset.sum_congr rfl fun i hi => by rw [h0 i hi]

/-- The distributed public key (the constant public coefficient) is unchanged
by a resharing. -/
theorem c07_pk_preserved {told : ℕ} (hdeg : fo.degree < told) (hcard : D.card = told)
    (hinj : Set.InjOn xo D) (h0 : ∀ i ∈ D, (gi i).eval 0 = fo.eval (xo i)) (g : G) :
    (newPoly D xo gi).coeff 0 • g = fo.coeff 0 • g := by
  rw [coeff_zero_eq_eval_zero, coeff_zero_eq_eval_zero,
    c07_secret_preserved hdeg hcard hinj h0]

/-- Any `tnew` new shares at distinct points sign under the OLD public key:
they combine to `fo(0) • h`. -/
theorem c07_new_threshold_signs {told : ℕ} (hdeg : fo.degree < told) (hcard : D.card = told)
    (hinj : Set.InjOn xo D) (h0 : ∀ i ∈ D, (gi i).eval 0 = fo.eval (xo i))
    (tnew : ℕ) (hdegnew : ∀ i ∈ D, (gi i).degree < tnew)
    (S : Finset κ) (x' : κ → F) (hinj' : Set.InjOn x' S) (hcard' : S.card = tnew) (h : G) :
    ∑ j ∈ S, lagrangeAt0 S x' j • (newShare D xo gi (x' j) • h) = fo.eval 0 • h := by
  have hp : (newPoly D xo gi).degree < S.card := by
    rw [hcard']
    refine degree_sum_lt D _ tnew fun i hi => ?_
    rw [← smul_eq_C_mul, ← mem_degreeLT]
    exact Submodule.smul_mem _ _ (mem_degreeLT.mpr (hdegnew i hi))
  rw [← c07_secret_preserved hdeg hcard hinj h0,
    ← lagrange_recover S x' hinj' (newPoly D xo gi) hp, Finset.sum_smul]
  refine Finset.sum_congr rfl fun j _ => ?_
  rw [smul_smul, c07_newshare_eq_eval]

/-- Old shares are in general NOT on the new polynomial: there is a resharing
satisfying all the hypotheses above (old polynomial `3 + X` over `ℚ`, two
dealers at points `1, 2`, dealer `0` re-deals with `4 + X`, dealer `1` with the
constant `5`) and a point (`x = 1`) at which the old share `fo(x) = 4` differs
from the new share `5`. -/
theorem c07_old_share_off_new_poly :
    ∃ (fo : ℚ[X]) (told : ℕ) (D : Finset ℕ) (xo : ℕ → ℚ) (gi : ℕ → ℚ[X]) (x : ℚ),
      fo.degree < told ∧ D.card = told ∧ Set.InjOn xo D ∧
      (∀ i ∈ D, (gi i).eval 0 = fo.eval (xo i)) ∧
      fo.eval x ≠ (newPoly D xo gi).eval x := by
  refine ⟨X + C 3, 2, {0, 1}, fun i => (i : ℚ) + 1,
    fun i => if i = 0 then X + C 4 else C 5, 1, ?_, rfl, ?_, ?_, ?_⟩
  · rw [degree_X_add_C]; exact_mod_cast one_lt_two
  · intro a _ b _ hab
    simpa using hab
  · intro i hi
    rcases Finset.mem_insert.mp hi with rfl | hi
    · norm_num
    · rw [Finset.mem_singleton.mp hi]; norm_num
  · rw [← c07_newshare_eq_eval]
    have h01 : (0 : ℕ) ≠ 1 := by decide
    simp only [newShare, lagrangeAt0, Finset.sum_pair h01, Lagrange.basis_pair_left h01,
      Lagrange.basis_pair_right h01, Lagrange.basisDivisor]
    norm_num

/-! ### Non-vacuity of the hypotheses -/

/-- `c06_share_on_poly` applies to two dealers with polynomials `X + i` and `t = 2`. -/
example :
    share ({0, 1} : Finset ℕ) (fun i => (X + C (i : ℚ) : ℚ[X])) 5 • (1 : ℚ)
      = evalPub (pubCoeff {0, 1} (fun i => (X + C (i : ℚ) : ℚ[X])) (1 : ℚ)) 2 (5 : ℚ) :=
  c06_share_on_poly 2 (fun i _ => by rw [natDegree_X_add_C]; exact one_lt_two) 1 5

/-- `c06_threshold_signs` applies to two dealers with polynomials `X + i`, `t = 2`
and the two holders at points `1, 2`. -/
example :
    ∑ j ∈ ({0, 1} : Finset ℕ), lagrangeAt0 {0, 1} (fun j : ℕ => (j : ℚ) + 1) j •
        (share ({0, 1} : Finset ℕ) (fun i => (X + C (i : ℚ) : ℚ[X])) ((j : ℚ) + 1) • (1 : ℚ))
      = (sumPoly ({0, 1} : Finset ℕ) (fun i => (X + C (i : ℚ) : ℚ[X]))).eval 0 • (1 : ℚ) :=
  c06_threshold_signs 2 {0, 1} (fun j : ℕ => (j : ℚ) + 1)
    (fun a _ b _ hab => by simpa using hab) rfl
    (fun i _ => by rw [degree_X_add_C]; exact_mod_cast one_lt_two) 1

/-- `c07_secret_preserved` applies to the resharing used in
`c07_old_share_off_new_poly`. -/
example :
    (newPoly ({0, 1} : Finset ℕ) (fun i => (i : ℚ) + 1)
        (fun i => if i = 0 then (X + C 4 : ℚ[X]) else C 5)).eval 0
      = (X + C 3 : ℚ[X]).eval 0 :=
  c07_secret_preserved (told := 2)
    (by rw [degree_X_add_C]; exact_mod_cast one_lt_two) rfl
    (fun a _ b _ hab => by simpa using hab)
    (fun i hi => by
      rcases Finset.mem_insert.mp hi with rfl | hi
      · norm_num
      · rw [Finset.mem_singleton.mp hi]; norm_num)

end

end Drand.DKG.Pedersen
