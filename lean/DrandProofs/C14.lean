/-
C14 — no message from the network can crash or wedge a node.        (level: PARTIAL, see below)

Full statement (kept visible): for every request a remote party can send to a peer-facing or public endpoint, in every
node state and for every sequence of such requests, the node answers or rejects in bounded time, the process survives
(an internal fault is contained and reported to the caller as an error), afterwards the node still serves valid
requests on the same and on other endpoints, and no request leaves an internal lock held or a service loop stopped.

What is proved here
  (A) exactly, on facts regenerated from the Go sources on every run (Gen.LockCalls, Gen.Listeners, Gen.NilDerefs):
      no method of dkg.Process, echoBroadcast, dispatcher, BoltStore, appendStore, schemeStore, callbackStore,
      beacon.Handler, core.BeaconProcess, core.DrandDaemon, http.DrandHandler re-acquires (directly or through calls on its own
      receiver) a mutex it holds; every acquisition is released on every path; the explicitly released regions of
      the peer-facing handlers contain only calls reviewed as non-panicking; the peer-facing listener installs the
      recovery interceptor for unary and stream calls, the control listener installs none.
  (B) about the hand-derived dispatch model (Drand/Daemon/Dispatch.lean; correspondence with the real handlers is
      checked differentially on a request lattice by the harness engine `dispatch`): totality, containment,
      state preservation on panic, the single wire-reachable panic site, legal phase moves, and `still serves`.

Where the code as it is does not satisfy the full statement (two genuine defects, both replayed on the real code):
  (1) echoBroadcast.passToApplication does a blocking send on a channel of capacity = number of participants that
      nobody reads before the kyber protocol starts and after it has ended (entries of Process.Executions are never
      removed): the (cap+1)-th validly signed bundle of a participant blocks forever while holding the broadcaster's
      mutex and — through Process.Packet — the process-wide d.lock.  Model variant switch `Cfg.echoNonBlocking`:
      `c14_still_serves` is the full theorem for the corrected variant, `c14_still_serves_partial` the as-is theorem
      under the hypothesis the proof forces, `c14_still_serves_counterexample` the concrete witness.
  (2) Protocol.Status dials every address of the request-supplied CheckConn list sequentially (3 s health timeout
      each, no cap, no de-duplication) while holding BeaconProcess.state read-locked.  Not part of the Lean model
      (it is a duration, not an outcome class); demonstrated by the harness (`tarpit`) and listed as a known finding.
-/
import Drand.Daemon.Locks
import Drand.Daemon.Dispatch
import Gen.Echo

namespace Drand.Daemon
open Gen.LockCalls Drand.Daemon.Locks

/-! ## ties: the hand-written expectations are exactly what go2lean regenerated from the source -/

theorem tie_nilDerefs : Gen.nilDerefs = expectedNilDerefs := rfl

theorem tie_listeners :
    Gen.Listeners.peerUnaryChain = ["grpcprometheus.UnaryServerInterceptor", "s.NodeVersionValidator", "grpcrecovery.UnaryServerInterceptor()"] ∧
    Gen.Listeners.peerStreamChain = ["grpcprometheus.StreamServerInterceptor", "s.NodeVersionStreamValidator", "grpcrecovery.StreamServerInterceptor()"] ∧
    Gen.Listeners.controlServerArgs = [] ∧
    Gen.Listeners.peerServices = ["healthgrpc.RegisterHealthServer", "drand.RegisterPublicServer", "drand.RegisterProtocolServer",
                                  "pdkg.RegisterDKGPublicServer", "drand.RegisterMetricsServer"] ∧
    Gen.Listeners.controlServices = ["proto.RegisterControlServer", "pdkg.RegisterDKGControlServer"] :=
  ⟨rfl, rfl, rfl, rfl, rfl⟩

/-- the functions reachable from a peer-facing gRPC handler in which a mutex is released explicitly -/
def peerFns : List Fn :=
  [.Process_BroadcastDKG, .Process_startDKGExecution, .echoBroadcast_Stop, .BeaconProcess_ChainInfo,
   .BeaconProcess_PublicRandStream, .BeaconProcess_SyncChain, .DrandDaemon_getBeaconProcessByID, .DrandDaemon_readBeaconID]

set_option maxRecDepth 65536 in
/-- the explicitly released critical sections of those functions, with every call made inside them -/
theorem tie_explicit_regions :
    ((explicitRegions.filter fun a => peerFns.contains a.fn).map fun a => (fnName a.fn, mxName a.mutex, a.regionCalls)) =
    [("Process.BroadcastDKG", "Process.lock", []),
     ("Process.startDKGExecution", "Process.lock", []),
     ("echoBroadcast.Stop", "echoBroadcast.(embedded)", []),
     ("BeaconProcess.ChainInfo", "BeaconProcess.state", []),
     ("BeaconProcess.PublicRandStream", "BeaconProcess.state", ["len"]),
     ("BeaconProcess.SyncChain", "BeaconProcess.state", ["bp.log.Named", "len", "logger.Errorw", "b.Store"]),
     ("DrandDaemon.getBeaconProcessByID", "DrandDaemon.state", []),
     ("DrandDaemon.readBeaconID", "~bp.state", [])] := by decide

/-! ## (A) lock discipline, decided on the regenerated relation -/

set_option maxRecDepth 65536 in
/-- **c14_no_self_deadlock**: no method holds a mutex and reaches — directly or through any chain of calls on its
own receiver, on the same goroutine — a Lock/RLock of the same mutex in a combination that blocks
(Lock→Lock, Lock→RLock, RLock→Lock). -/
theorem c14_no_self_deadlock : selfDeadlocks = [] := by decide

set_option maxRecDepth 65536 in
/-- RLock→RLock re-entries (they block only when a writer is queued in between) — reported separately: none. -/
theorem c14_read_reentries : readReentries = [] := by decide

set_option maxRecDepth 65536 in
/-- **c14_locks_released**: every acquisition is released by a deferred unlock, or explicitly on every path: no
return statement and no function end is reached with an explicitly released mutex still held. -/
theorem c14_locks_released :
    leaking = [] ∧ ∀ a ∈ acqs, a.release = .deferred ∨ (a.release = .explicit ∧ a.leaks = 0) := by decide

/-- calls that may appear inside an explicitly released critical section of a peer-facing handler: reviewed, none of
them panics for any input (`len`, logger methods, `(*Handler).Store` on a handler checked non-nil just before) -/
def reviewedRegionCalls : List String := ["len", "bp.log.Named", "logger.Errorw", "b.Store"]

set_option maxRecDepth 65536 in
/-- a panic between `Lock()` and an explicit `Unlock()` would be recovered by the interceptor with the mutex still
held; the explicit regions of the peer-facing handlers contain only reviewed calls -/
theorem c14_peer_regions_panic_free :
    ∀ a ∈ explicitRegions, peerFns.contains a.fn = true → ∀ c ∈ a.regionCalls, c ∈ reviewedRegionCalls := by decide

set_option maxRecDepth 65536 in
/-- Non-vacuity of the detector, and the defect this project repaired in /repo (commit "fix: Packet no longer
self-deadlocks…"): with the pre-fix fact `Packet holds d.lock (deferred) and calls BroadcastDKG` the relation contains
the forbidden pair, because `BroadcastDKG` locks `d.lock`. -/
theorem c14_detector_sees_prefix_deadlock :
    (reentriesOf [{ fn := .Process_Packet, mutex := .Process_lock, kind := .lock, release := .deferred,
                    callsHeld := [.Process_BroadcastDKG], regionCalls := [], leaks := 0 }]).filter
      (fun r => blocks r.held r.again) =
    [⟨.Process_Packet, .Process_lock, .lock, .Process_BroadcastDKG, .lock, .Process_BroadcastDKG⟩] := by decide

example : (acqs.filter fun a => a.fn = .Process_Packet).length = 1 := by decide
example : acqs.length > 40 := by decide

/-! ## listeners -/

theorem c14_peer_recovers : Listener.peer.recovers = true := by decide
theorem c14_control_does_not_recover : Listener.control.recovers = false := by decide

/-! ## (B) the dispatch model: DKG endpoints -/

private theorem serve_peer_not_panic (o : Outcome) : (serve .peer o).isPanic = false := by
  cases o <;> simp [serve, c14_peer_recovers, Outcome.isPanic]

/-- **c14_total** (peer-facing listener): whatever the request and the node state, the caller of a peer-facing DKG
endpoint never takes the process down — a handler panic is turned into an error by the recovery interceptor. -/
theorem c14_total_peer (cfg : Cfg) (n : Node) (r : DkgReq) (h : r.listener = .peer) :
    (handle cfg .grpc n r).2.isPanic = false := by
  simp only [handle, h]
  exact serve_peer_not_panic _

/-- **c14_total** (control listener, no recovery interceptor): for every request that can come off the wire the handler
does not panic at all. -/
theorem c14_total_control_wire (cfg : Cfg) (n : Node) (r : DkgReq) (h : r.listener = .control) (hw : r.wire = true) :
    (handle cfg .grpc n r).2.isPanic = false := by
  cases r with
  | packet p => simp [DkgReq.listener] at h
  | broadcast p => simp [DkgReq.listener] at h
  | status q =>
    cases q with
    | none => simp [DkgReq.wire] at hw
    | some q =>
      simp only [handle, daemonHandle, processStatus, DkgReq.listener]
      split <;> (try split) <;> simp [serve, Outcome.isPanic]

/-- the panic sites of the model; each is a function with an unguarded direct dereference in `expectedNilDerefs` -/
def panicSites : List String :=
  ["dkg.(*Process).BroadcastDKG", "dkg.(*Process).DKGStatus", "dkg.(*DBState).Apply", "dkg.(*DBState).Proposed",
   "dkg.protoToDeal", "dkg.protoToResp", "dkg.protoToJustif", "core.(*DrandDaemon).Packet", "core.(*DrandDaemon).DKGStatus"]

/-- what every in-process handler result satisfies: a panic is at a listed site and leaves the node unchanged;
`contained` and `stream` are never produced by the DKG handlers themselves -/
def Good (n : Node) (r : Node × Outcome) : Prop :=
  (∀ s, r.2 = .panic s → s ∈ panicSites ∧ r.1 = n) ∧ r.2 ≠ .contained ∧ (∀ k, r.2 ≠ .stream k)

def GoodA (r : Phase × Outcome) : Prop :=
  (∀ s, r.2 = .panic s → s ∈ panicSites) ∧ r.2 ≠ .contained ∧ r.2 ≠ .deadlock ∧ (∀ k, r.2 ≠ .stream k)

private theorem decode_sites (p : DKGPacket) (s : String) : decodeBundle p = .panic s → s ∈ panicSites := by
  simp only [decodeBundle]
  repeat' split
  all_goals (intro h; simp at h; try (subst h; simp [panicSites]))

private theorem good_echo (cfg : Cfg) (n : Node) (b : Bool) (p : DKGPacket) : Good n (echoBroadcast cfg n b p) := by
  simp only [echoBroadcast]
  repeat' split
  all_goals first
    | (have := decode_sites p ‹String› ‹_›; simp_all [Good])
    | simp_all [Good]

private theorem good_tail (cfg : Cfg) (n : Node) (b : Bool) (id : IdC) (p : DKGPacket) :
    Good n (broadcastTail cfg n b id p) := by
  unfold broadcastTail
  split
  · exact good_echo cfg n b p
  · simp [Good]

private theorem good_apply (n : Node) (m : GMeta) (b : GBody) : GoodA (applyBody n m b) := by
  simp only [applyBody]
  repeat' split
  all_goals simp_all [GoodA, panicSites]

private theorem good_packet (cfg : Cfg) (n : Node) (p : Option GossipPacket) : Good n (processPacket cfg n p) := by
  simp only [processPacket]
  repeat' split
  all_goals first
    | exact good_tail cfg n true _ _
    | (have := good_apply n ‹GMeta› ‹GossipPacket›.body; simp_all [Good, GoodA])
    | simp_all [Good]

private theorem good_broadcast (cfg : Cfg) (n : Node) (p : Option DKGPacket) : Good n (processBroadcast cfg n p) := by
  simp only [processBroadcast]
  repeat' split
  all_goals first
    | exact good_tail cfg n false _ _
    | simp_all [Good, panicSites]

private theorem good_status (n : Node) (r : Option StatusReq) : Good n (processStatus n r) := by
  simp only [processStatus]
  repeat' split
  all_goals simp_all [Good, panicSites]

private theorem good_process (cfg : Cfg) (n : Node) (r : DkgReq) : Good n (processHandle cfg n r) := by
  cases r with
  | packet p => exact good_packet cfg n p
  | broadcast p => exact good_broadcast cfg n p
  | status q => exact good_status n q

private theorem good_daemon (cfg : Cfg) (n : Node) (r : DkgReq) : Good n (daemonHandle cfg n r) := by
  cases r with
  | packet p =>
    simp only [daemonHandle]
    repeat' split
    all_goals first
      | exact good_packet cfg n _
      | simp_all [Good, panicSites]
  | broadcast p =>
    simp only [daemonHandle]
    repeat' split
    all_goals first
      | exact good_broadcast cfg n _
      | simp_all [Good, panicSites]
  | status q =>
    simp only [daemonHandle]
    repeat' split
    all_goals first
      | exact good_status n _
      | simp_all [Good, panicSites]

/-- every panic the model can produce is at one of the listed functions (those with an unguarded direct dereference) -/
theorem c14_panic_sites (cfg : Cfg) (l : Layer) (n : Node) (r : DkgReq) (s : String)
    (h : (handle cfg l n r).2 = .panic s) : s ∈ panicSites := by
  cases l with
  | proc => exact ((good_process cfg n r).1 s h).1
  | daemon => exact ((good_daemon cfg n r).1 s h).1
  | grpc =>
    simp only [handle] at h
    cases ho : (daemonHandle cfg n r).2 with
    | panic s' =>
      simp only [ho, serve] at h
      split at h
      · simp at h
      · simp at h; subst h; exact ((good_daemon cfg n r).1 s' ho).1
    | _ => simp [ho, serve] at h

/-- **panic ⇒ contained ∧ all locks released**: a handler that panics (and is then recovered by the interceptor) leaves
the node exactly as it was — no state change, in particular `d.lock` and the broadcaster's mutex are not left held
(all unlocks on these paths are deferred: c14_locks_released). -/
theorem c14_panic_keeps_state (cfg : Cfg) (l : Layer) (n : Node) (r : DkgReq)
    (h : (handle cfg l n r).2.isPanic = true ∨ (handle cfg l n r).2 = .contained) : (handle cfg l n r).1 = n := by
  cases l with
  | proc =>
    have g := good_process cfg n r
    rcases h with h | h
    · cases ho : (processHandle cfg n r).2 with
      | panic s => exact (g.1 s ho).2
      | _ => simp [handle, ho, Outcome.isPanic] at h
    · exact absurd h g.2.1
  | daemon =>
    have g := good_daemon cfg n r
    rcases h with h | h
    · cases ho : (daemonHandle cfg n r).2 with
      | panic s => exact (g.1 s ho).2
      | _ => simp [handle, ho, Outcome.isPanic] at h
    · exact absurd h g.2.1
  | grpc =>
    have g := good_daemon cfg n r
    simp only [handle] at h ⊢
    cases ho : (daemonHandle cfg n r).2 with
    | panic s => exact (g.1 s ho).2
    | contained => exact absurd ho g.2.1
    | ok => simp [ho, serve, Outcome.isPanic] at h
    | err => simp [ho, serve, Outcome.isPanic] at h
    | deadlock => simp [ho, serve, Outcome.isPanic] at h
    | stream k => simp [ho, serve, Outcome.isPanic] at h

private theorem decode_wire (p : DKGPacket) (hw : p.wire = true) (s : String) : decodeBundle p ≠ .panic s := by
  revert hw
  simp only [decodeBundle, DKGPacket.wire]
  repeat' split
  all_goals simp_all

private theorem echo_wire (cfg : Cfg) (n : Node) (b : Bool) (p : DKGPacket) (hw : p.wire = true) (s : String) :
    (echoBroadcast cfg n b p).2 ≠ .panic s := by
  simp only [echoBroadcast]
  repeat' split
  all_goals first
    | (have := decode_wire p hw ‹String›; simp_all)
    | simp_all

private theorem tail_wire (cfg : Cfg) (n : Node) (b : Bool) (id : IdC) (p : DKGPacket) (hw : p.wire = true) (s : String) :
    (broadcastTail cfg n b id p).2 ≠ .panic s := by
  simp only [broadcastTail]
  split
  · exact echo_wire cfg n b p hw s
  · simp

/-- bodies that can come off the wire: a set oneof always carries a (possibly empty) message -/
def GBody.wire : GBody → Bool
  | .none => true
  | .proposal t => t.isSome
  | .accept a => a.isSome
  | .reject a => a.isSome
  | .abort a => a.isSome
  | .execute e => e.isSome
  | .dkg d => match d with | Option.none => false | Option.some d => d.wire

private theorem apply_wire (n : Node) (m : GMeta) (b : GBody) (hw : b.wire = true) (s : String)
    (h : (applyBody n m b).2 = .panic s) : s = "dkg.(*DBState).Proposed" := by
  revert h hw
  simp only [applyBody, GBody.wire]
  repeat' split
  all_goals simp_all

private theorem packet_wire (cfg : Cfg) (n : Node) (p : GossipPacket) (hw : p.body.wire = true) (s : String)
    (h : (processPacket cfg n (some p)).2 = .panic s) : s = "dkg.(*DBState).Proposed" := by
  revert h
  simp only [processPacket]
  repeat' split
  all_goals first
    | (intro h
       have hd : DKGPacket.wire ‹DKGPacket› = true := by simp_all [GBody.wire]
       exact absurd h (tail_wire cfg n true _ _ hd s))
    | (intro h; exact apply_wire n _ _ hw s h)
    | simp_all

/-- the only panic a request that can come off the wire reaches is `terms.Leader.Address` in `DBState.Proposed`
(a proposal without a leader, in a state from which a proposal is acceptable) — on the peer-facing listener,
where it is recovered -/
theorem c14_wire_panics_peer_only (cfg : Cfg) (n : Node) (r : DkgReq) (s : String) (hw : r.wire = true)
    (h : (daemonHandle cfg n r).2 = .panic s) : s = "dkg.(*DBState).Proposed" ∧ r.listener = .peer := by
  cases r with
  | packet p =>
    cases p with
    | none => simp [DkgReq.wire] at hw
    | some p =>
      refine ⟨?_, rfl⟩
      have hb : p.body.wire = true := by
        simp only [DkgReq.wire] at hw
        cases hbd : p.body <;> simp_all [GBody.wire]
        all_goals (split at hw <;> simp_all)
      revert h
      simp only [daemonHandle]
      repeat' split
      all_goals first
        | (intro h; exact packet_wire cfg n p hb s h)
        | simp_all
  | broadcast p =>
    cases p with
    | none => simp [DkgReq.wire] at hw
    | some p =>
      exfalso
      have hp : p.wire = true := by simpa [DkgReq.wire] using hw
      revert h
      simp only [daemonHandle, processBroadcast]
      repeat' split
      all_goals first
        | (intro h; exact absurd h (tail_wire cfg n false _ _ hp s))
        | simp_all
  | status q =>
    cases q with
    | none => simp [DkgReq.wire] at hw
    | some q =>
      exfalso
      revert h
      simp only [daemonHandle, processStatus]
      repeat' split
      all_goals simp_all

/-! ### still serves -/

abbrev Healthy (n : Node) : Prop := n.wedged = false ∧ n.echoWedged = false

/-- the hypothesis the as-is code forces: the broadcaster's application channel has room, or somebody reads it -/
def Safe (cfg : Cfg) (n : Node) : Prop := cfg.echoNonBlocking = true ∨ n.consumer = true ∨ n.backlog < cfg.echoCap

def LegalMove (a b : Phase) : Prop := b = a ∨ (a = .fresh ∧ b = .proposed) ∨ (a = .joined ∧ b = .executing)

def StepOK (n : Node) (r : Node × Outcome) : Prop :=
  Healthy r.1 ∧ r.2 ≠ .deadlock ∧ r.1.consumer = n.consumer ∧ LegalMove n.phase r.1.phase

private theorem apply_ok (n : Node) (m : GMeta) (b : GBody) (h : (applyBody n m b).2 = .ok) :
    LegalMove n.phase (applyBody n m b).1 := by
  revert h
  simp only [applyBody]
  repeat' split
  all_goals simp_all [LegalMove]
  all_goals (cases hp : n.phase <;> simp_all [Phase.status, canExecute, timedOut])

private theorem stepok_echo (cfg : Cfg) (n : Node) (b : Bool) (p : DKGPacket) (hh : Healthy n) (hs : Safe cfg n) :
    StepOK n (echoBroadcast cfg n b p) := by
  obtain ⟨h1, h2⟩ := hh
  simp only [echoBroadcast]
  repeat' split
  all_goals simp_all [StepOK, Healthy, LegalMove, Safe]
  all_goals omega

private theorem stepok_tail (cfg : Cfg) (n : Node) (b : Bool) (id : IdC) (p : DKGPacket) (hh : Healthy n) (hs : Safe cfg n) :
    StepOK n (broadcastTail cfg n b id p) := by
  simp only [broadcastTail]
  split
  · exact stepok_echo cfg n b p hh hs
  · exact ⟨hh, by simp, rfl, Or.inl rfl⟩

private theorem stepok_packet (cfg : Cfg) (n : Node) (p : Option GossipPacket) (hh : Healthy n) (hs : Safe cfg n) :
    StepOK n (processPacket cfg n p) := by
  have hh' := hh
  obtain ⟨h1, h2⟩ := hh
  simp only [processPacket]
  repeat' split
  all_goals first
    | exact stepok_tail cfg n true _ _ hh' hs
    | (have := apply_ok n ‹GMeta› ‹GossipPacket›.body ‹_›; simp_all [StepOK, Healthy, LegalMove])
    | (have := (good_apply n ‹GMeta› ‹GossipPacket›.body).2.2.1; simp_all [StepOK, Healthy, LegalMove])
    | simp_all [StepOK, Healthy, LegalMove]

private theorem stepok_broadcast (cfg : Cfg) (n : Node) (p : Option DKGPacket) (hh : Healthy n) (hs : Safe cfg n) :
    StepOK n (processBroadcast cfg n p) := by
  have hh' := hh
  obtain ⟨h1, h2⟩ := hh
  simp only [processBroadcast]
  repeat' split
  all_goals first
    | exact stepok_tail cfg n false _ _ hh' hs
    | simp_all [StepOK, Healthy, LegalMove]

private theorem stepok_status (n : Node) (r : Option StatusReq) (hh : Healthy n) : StepOK n (processStatus n r) := by
  obtain ⟨h1, h2⟩ := hh
  simp only [processStatus]
  repeat' split
  all_goals simp_all [StepOK, Healthy, LegalMove]

private theorem stepok_daemon (cfg : Cfg) (n : Node) (r : DkgReq) (hh : Healthy n) (hs : Safe cfg n) :
    StepOK n (daemonHandle cfg n r) := by
  have hh' := hh
  obtain ⟨h1, h2⟩ := hh
  cases r with
  | packet p =>
    simp only [daemonHandle]
    repeat' split
    all_goals first
      | exact stepok_packet cfg n _ hh' hs
      | simp_all [StepOK, Healthy, LegalMove]
  | broadcast p =>
    simp only [daemonHandle]
    repeat' split
    all_goals first
      | exact stepok_broadcast cfg n _ hh' hs
      | simp_all [StepOK, Healthy, LegalMove]
  | status q =>
    simp only [daemonHandle]
    repeat' split
    all_goals first
      | exact stepok_status n _ hh'
      | simp_all [StepOK, Healthy, LegalMove]

private theorem serve_ne_deadlock (l : Listener) (o : Outcome) (h : o ≠ .deadlock) : serve l o ≠ .deadlock := by
  cases o <;> simp_all [serve]
  split <;> simp

private theorem stepok_handle (cfg : Cfg) (l : Layer) (n : Node) (r : DkgReq) (hh : Healthy n) (hs : Safe cfg n) :
    StepOK n (handle cfg l n r) := by
  cases l with
  | proc =>
    cases r with
    | packet p => exact stepok_packet cfg n p hh hs
    | broadcast p => exact stepok_broadcast cfg n p hh hs
    | status q => exact stepok_status n q hh
  | daemon => exact stepok_daemon cfg n r hh hs
  | grpc =>
    have := stepok_daemon cfg n r hh hs
    simp only [handle]
    exact ⟨this.1, serve_ne_deadlock _ _ this.2.1, this.2.2⟩

/-- a request moves the DKG phase only along the two legal arrows (valid proposal: fresh→proposed; valid execute:
joined→executing), on every layer, in both variants -/
theorem c14_phase_moves_legal (cfg : Cfg) (l : Layer) (n : Node) (r : DkgReq) (hh : Healthy n) (hs : Safe cfg n) :
    LegalMove n.phase (handle cfg l n r).1.phase := (stepok_handle cfg l n r hh hs).2.2.2

private theorem storeOpen_legal (a b : Phase) (h : LegalMove a b) : b.storeOpen = a.storeOpen := by
  rcases h with h | ⟨h1, h2⟩ | ⟨h1, h2⟩ <;> simp_all [Phase.storeOpen]

private theorem serve_ok (l : Listener) : serve l .ok = .ok := rfl
private theorem serve_err (l : Listener) : serve l .err = .err := rfl

private theorem probes_proc (cfg : Cfg) (n : Node) (hh : Healthy n) :
    (processHandle cfg n probeStatus).2 = (if n.phase.storeOpen then .ok else .err) ∧
    (processHandle cfg n probePacket).2 = .err ∧ (processHandle cfg n probeBroadcast).2 = .err := by
  obtain ⟨h1, h2⟩ := hh
  refine ⟨?_, ?_, ?_⟩
  · simp [processHandle, processStatus, probeStatus]
    split <;> simp
  · simp [processHandle, processPacket, probePacket, h1, sigIdent, SigC.len, applyBody]
    repeat' split
    all_goals simp_all
  · simp [processHandle, processBroadcast, probeBroadcast, h1, broadcastTail, echoBroadcast, h2, decodeBundle]
    repeat' split
    all_goals simp_all

private theorem probes_daemon (cfg : Cfg) (n : Node) (hh : Healthy n) :
    (daemonHandle cfg n probeStatus).2 = (if n.phase.storeOpen then .ok else .err) ∧
    (daemonHandle cfg n probePacket).2 = .err ∧ (daemonHandle cfg n probeBroadcast).2 = .err := by
  have pp := probes_proc cfg n hh
  simp only [processHandle, probeStatus, probePacket, probeBroadcast] at pp
  refine ⟨?_, ?_, ?_⟩
  · simp only [daemonHandle, probeStatus]
    simpa using pp.1
  · simp only [daemonHandle, probePacket]
    simpa using pp.2.1
  · simp only [daemonHandle, probeBroadcast]
    simpa using pp.2.2

/-- what the three probes answer on a healthy node: it depends only on whether the store is open -/
private theorem probes_healthy (cfg : Cfg) (l : Layer) (n : Node) (hh : Healthy n) :
    (handle cfg l n probeStatus).2 = (if n.phase.storeOpen then .ok else .err) ∧
    (handle cfg l n probePacket).2 = .err ∧ (handle cfg l n probeBroadcast).2 = .err := by
  cases l with
  | proc => exact probes_proc cfg n hh
  | daemon => exact probes_daemon cfg n hh
  | grpc =>
    have pd := probes_daemon cfg n hh
    simp only [handle]
    refine ⟨?_, ?_, ?_⟩
    · rw [pd.1]; split <;> rfl
    · rw [pd.2.1]; rfl
    · rw [pd.2.2]; rfl

/-- **c14_still_serves** (full statement, corrected variant `echoNonBlocking = true`): from a node on which no lock is
stuck, after ANY request on ANY layer the call has returned, no lock is stuck, the phase is unchanged or moved along a
legal arrow, and each probe request (DKGStatus, a gossip packet, a DKG broadcast) gets exactly the answer it would have
got before. -/
theorem c14_still_serves (cfg : Cfg) (hfix : cfg.echoNonBlocking = true) (l l' : Layer) (n : Node) (r : DkgReq)
    (hh : Healthy n) :
    (handle cfg l n r).2 ≠ .deadlock ∧ Healthy (handle cfg l n r).1 ∧ LegalMove n.phase (handle cfg l n r).1.phase ∧
    ∀ q ∈ [probeStatus, probePacket, probeBroadcast],
      (handle cfg l' (handle cfg l n r).1 q).2 = (handle cfg l' n q).2 := by
  have hs : Safe cfg n := Or.inl hfix
  have st := stepok_handle cfg l n r hh hs
  refine ⟨st.2.1, st.1, st.2.2.2, ?_⟩
  have p0 := probes_healthy cfg l' n hh
  have p1 := probes_healthy cfg l' _ st.1
  have so := storeOpen_legal _ _ st.2.2.2
  intro q hq
  simp only [List.mem_cons, List.mem_nil_iff, or_false] at hq
  rcases hq with rfl | rfl | rfl
  · rw [p1.1, p0.1, so]
  · rw [p1.2.1, p0.2.1]
  · rw [p1.2.2, p0.2.2]

/-- the same for every finite history of requests (corrected variant) -/
def runReqs (cfg : Cfg) (n : Node) : List (Layer × DkgReq) → Node
  | [] => n
  | (l, r) :: rest => runReqs cfg (handle cfg l n r).1 rest

theorem c14_still_serves_histories (cfg : Cfg) (hfix : cfg.echoNonBlocking = true) (n : Node) (hh : Healthy n)
    (rs : List (Layer × DkgReq)) : Healthy (runReqs cfg n rs) ∧ (runReqs cfg n rs).phase.storeOpen = n.phase.storeOpen := by
  induction rs generalizing n with
  | nil => exact ⟨hh, rfl⟩
  | cons x rest ih =>
    obtain ⟨l, r⟩ := x
    have st := stepok_handle cfg l n r hh (Or.inl hfix)
    have := ih _ st.1
    simp only [runReqs]
    exact ⟨this.1, by rw [this.2, storeOpen_legal _ _ st.2.2.2]⟩


/-- the configuration the source currently has: whether `passToApplication` blocks is regenerated from internal/dkg/broadcast.go -/
def codeCfg : Cfg := { echoNonBlocking := Gen.echoPassNonBlocking, echoCap := 3 }

/-- tie: the source is the corrected variant (sends inside `select … default`); reverting the repair breaks this theorem -/
theorem tie_echo_nonblocking : Gen.echoPassNonBlocking = true ∧ Gen.echoPassSends = 3 := ⟨rfl, rfl⟩

/-- **c14_code_still_serves**: the full statement for the code as it is now, for every finite history of requests -/
theorem c14_code_still_serves (n : Node) (hh : Healthy n) (rs : List (Layer × DkgReq)) :
    Healthy (runReqs codeCfg n rs) ∧ (runReqs codeCfg n rs).phase.storeOpen = n.phase.storeOpen :=
  c14_still_serves_histories codeCfg tie_echo_nonblocking.1 n hh rs

/-- **c14_still_serves_partial** (the code as it is): the same conclusion under the hypothesis the proof forces —
the broadcaster's application channel has room or is being read. -/
theorem c14_still_serves_partial (cfg : Cfg) (l l' : Layer) (n : Node) (r : DkgReq) (hh : Healthy n)
    (hs : n.consumer = true ∨ n.backlog < cfg.echoCap) :
    (handle cfg l n r).2 ≠ .deadlock ∧ Healthy (handle cfg l n r).1 ∧ LegalMove n.phase (handle cfg l n r).1.phase ∧
    ∀ q ∈ [probeStatus, probePacket, probeBroadcast],
      (handle cfg l' (handle cfg l n r).1 q).2 = (handle cfg l' n q).2 := by
  have hs : Safe cfg n := Or.inr hs
  have st := stepok_handle cfg l n r hh hs
  refine ⟨st.2.1, st.1, st.2.2.2, ?_⟩
  have p0 := probes_healthy cfg l' n hh
  have p1 := probes_healthy cfg l' _ st.1
  have so := storeOpen_legal _ _ st.2.2.2
  intro q hq
  simp only [List.mem_cons, List.mem_nil_iff, or_false] at hq
  rcases hq with rfl | rfl | rfl
  · rw [p1.1, p0.1, so]
  · rw [p1.2.1, p0.2.1]
  · rw [p1.2.2, p0.2.2]

def asIs : Cfg := { echoNonBlocking := false, echoCap := 3 }
def fixed : Cfg := { echoNonBlocking := true, echoCap := 3 }

/-- a validly signed, not yet seen response bundle of a participant for the known beacon, wrapped in a gossip packet -/
def signedBundlePacket : DkgReq :=
  .packet (some ⟨some ⟨.known, .stranger, .b4⟩, .dkg (some ⟨some ⟨some .known, .resp (some ⟨false, true, true⟩)⟩⟩)⟩)

/-- the node after a completed DKG and three accepted bundles -/
def n3 : Node := runReqs asIs (Node.init .complete) (List.replicate 3 (.proc, signedBundlePacket))

/-- **c14_still_serves_counterexample** (the code as it is): after a completed DKG, three such bundles are accepted; the
fourth never returns, leaves `d.lock` and the broadcaster's mutex held, and from then on a gossip packet and a DKG
broadcast that were answered before are never answered again. The corrected variant answers all of them. -/
theorem c14_still_serves_counterexample :
    Healthy n3 ∧
    (handle asIs .proc n3 signedBundlePacket).2 = .deadlock ∧
    (handle asIs .proc n3 signedBundlePacket).1.wedged = true ∧
    (handle asIs .proc (handle asIs .proc n3 signedBundlePacket).1 probePacket).2 = .deadlock ∧
    (handle asIs .proc (handle asIs .proc n3 signedBundlePacket).1 probeBroadcast).2 = .deadlock ∧
    (handle asIs .proc n3 probePacket).2 = .err ∧
    (handle fixed .proc (runReqs fixed (Node.init .complete) (List.replicate 3 (.proc, signedBundlePacket))) signedBundlePacket).2 = .ok := by
  decide

/-- the overflow of the broadcaster's channel is the ONLY way a request wedges the model (as-is variant): if a healthy
node is not healthy after a request, then the blocking variant is in force, nobody reads the channel, it is full, and
an execution entry exists -/
theorem c14_wedge_only_by_overflow (cfg : Cfg) (l : Layer) (n : Node) (r : DkgReq) (hh : Healthy n)
    (hw : ¬ Healthy (handle cfg l n r).1 ∨ (handle cfg l n r).2 = .deadlock) :
    cfg.echoNonBlocking = false ∧ n.consumer = false ∧ cfg.echoCap ≤ n.backlog := by
  refine Classical.byContradiction fun hc => ?_
  have hs : Safe cfg n := by
    simp only [Safe]
    cases h1 : cfg.echoNonBlocking <;> cases h2 : n.consumer <;> simp_all
    all_goals (try omega)
  have st := stepok_handle cfg l n r hh hs
  rcases hw with hw | hw
  · exact hw st.1
  · exact st.2.1 hw

example : Healthy (Node.init .fresh) := by decide
example : (handle asIs .grpc (Node.init .fresh)
    (.packet (some ⟨some ⟨.known, .leader, .b4⟩, .proposal (some ⟨none, false⟩)⟩))).2 = .contained := by decide
example : (handle asIs .proc (Node.init .fresh)
    (.packet (some ⟨some ⟨.known, .leader, .tpl⟩, .proposal (some ⟨some ⟨.leader⟩, true⟩)⟩))).1.phase = .proposed := by decide
example : (handle asIs .daemon (Node.init .joined)
    (.packet (some ⟨some ⟨.known, .leader, .tpl⟩, .execute (some true)⟩))).1.phase = .executing := by decide
example : DkgReq.wire (.packet (some ⟨some ⟨.known, .leader, .b4⟩, .proposal (some ⟨none, false⟩)⟩)) = true := by decide

/-! ## (B) the dispatch model: beacon endpoints -/

/-- **c14_total** for the beacon / public endpoints on the peer-facing listener -/
theorem c14_beacon_total (ph : BPhase) (r : BReq) : (bHandle .grpc ph r).isPanic = false := by
  simp only [bHandle]
  split
  · rfl
  · exact serve_peer_not_panic _

private theorem bp_wire (ph : BPhase) (r : BReq) (hw : bWire r = true) (s : String) : bpHandle ph r ≠ .panic s := by
  revert hw
  cases r <;> simp only [bpHandle, processPartial, syncChain, bWire]
  all_goals (repeat' split)
  all_goals simp_all

private theorem partial_no_panic (p : Option PartialReq) (s : String) : processPartial p ≠ .panic s := by
  simp only [processPartial]
  repeat' split
  all_goals simp_all

private theorem sync_no_panic (r : Option RoundReq) (s : String) : syncChain r ≠ .panic s := by
  simp only [syncChain]
  repeat' split
  all_goals simp_all

private theorem daemonB_wire (ph : BPhase) (r : BReq) (hw : bWire r = true) (s : String) : daemonBHandle ph r ≠ .panic s := by
  simp only [daemonBHandle]
  split
  · exact bp_wire ph r hw s
  · simp

private theorem isPanic_false_of (o : Outcome) (h : ∀ s, o ≠ .panic s) : o.isPanic = false := by
  cases o <;> simp_all [Outcome.isPanic]

/-- no request that can come off the wire makes a beacon / public handler panic at all, on any layer -/
theorem c14_beacon_wire_no_panic (l : BLayer) (ph : BPhase) (r : BReq) (hw : bWire r = true) :
    (bHandle l ph r).isPanic = false := by
  cases l with
  | direct =>
    apply isPanic_false_of
    intro s
    simp only [bHandle]
    split
    · exact partial_no_panic _ s
    · exact sync_no_panic _ s
    · simp
  | bp => exact isPanic_false_of _ (bp_wire ph r hw)
  | daemon => exact isPanic_false_of _ (daemonB_wire ph r hw)
  | grpc => exact c14_beacon_total ph r

private theorem bp_never_blocks (ph : BPhase) (r : BReq) : bpHandle ph r ≠ .deadlock := by
  cases r <;> simp only [bpHandle, processPartial, syncChain]
  all_goals (repeat' split)
  all_goals simp_all

/-- the beacon-side model has no outcome `deadlock` and no state: every request is answered and later requests are
answered as if it had not been sent (what the real handlers do beyond that — the aggregator, the callback workers —
is the subject of C03 / C11 / C12) -/
theorem c14_beacon_never_blocks (l : BLayer) (ph : BPhase) (r : BReq) : bHandle l ph r ≠ .deadlock := by
  have hd : daemonBHandle ph r ≠ .deadlock := by
    simp only [daemonBHandle]
    split
    · exact bp_never_blocks ph r
    · simp
  cases l with
  | direct =>
    simp only [bHandle]
    split
    · simp only [processPartial]; repeat' split
      all_goals simp_all
    · simp only [syncChain]; repeat' split
      all_goals simp_all
    · simp
  | bp => exact bp_never_blocks ph r
  | daemon => exact hd
  | grpc =>
    simp only [bHandle]
    split
    · simp
    · exact serve_ne_deadlock _ _ hd

/-- the public HTTP API: every path class in every phase is answered with a status code — the model has no panic and no
blocking outcome (and a handler panic the model does not predict would be recovered per connection by net/http) -/
theorem c14_http_total (ph : BPhase) (pre : HPrefix) (ep : HEp) :
    (httpHandle ph pre ep = .ok ∨ httpHandle ph pre ep = .err) ∧ (serve .http (httpHandle ph pre ep)).isPanic = false := by
  have h : httpHandle ph pre ep = .ok ∨ httpHandle ph pre ep = .err := by
    simp only [httpHandle]
    repeat' split
    all_goals simp
  refine ⟨h, ?_⟩
  rcases h with h | h <;> simp [h, serve, Outcome.isPanic]

example : httpHandle .running .known (.round .last) = .ok := by decide
example : httpHandle .running .malformed .latest = .err := by decide
example : bHandle .grpc .running (.status (some ⟨none, .self⟩)) = .ok := by decide
example : bHandle .daemon .running (.status (some ⟨none, .nilelem⟩)) = .panic "core.(*BeaconProcess).Status" := by decide
example : bHandle .bp .running (.sync (some ⟨none, .one⟩)) = .stream 5 := by decide
example : bHandle .direct .running (.partialBeacon (some ⟨none, .next, .valid, .right⟩)) = .ok := by decide

end Drand.Daemon
