/-
C12 / C11 — the repaired callbackStore (`stepR` in Drand/Chain/CallbackStore.lean; patch reports/cb_fix_1.diff).

Which machine the tree under test is, is read off the source on every run (`tie_callback_variant`: exactly one of the two
known shapes, go2lean refuses everything else — in particular a `select` whose `default` branch merely skips the callback).

For the repaired store, for EVERY schedule:
  C12  `c12r_put_never_waits`           a Put in progress can always take its next step when the consumer it has to reach is a
                                        stream consumer (`AddStreamCallback`), whatever that consumer does
       `c12r_put_completes_alone`       … and returns after |rem| sends and the unlock with no step of anybody else
       `c12r_put_begins`                a Put waits for the lock only while another Put's dispatch loop runs
       `c12_addcallback_never_waits`    AddCallback / AddStreamCallback / RemoveCallback are single steps, enabled whenever no
                                        dispatch loop holds the lock; no writer is ever parked inside the lock
       `c12r_queue_bound`               at most CallbackWorkerQueue jobs per registered queue (+ the close notice once ended)
  C11  `c11_dispatch_reaches_or_ends`   a dispatch step never skips: the beacon goes to the tail of the consumer's queue, or the
                                        consumer is ended (deregistered; close notice behind everything queued)
       `c11_never_dropped`              no job is ever dropped
       `c11_closed_is_last`             a registered queue holds no close notice; an ended one holds it once, at the very end
       `c11_fifo_or_ended`              any step: a registered queue stays, grows at the tail by the beacon being dispatched, loses
                                        its head, is replaced by a fresh registration, or is ended / removed
       `c11_table_frozen_during_put`    while a dispatch loop runs nobody registers or deregisters: the ids a Put reaches are
                                        exactly the ids registered when its beacon was stored
The composition with the stream machine (ended ⇒ close notice ⇒ SyncChain returns ⇒ the client asks again) is in C11R.lean.
For the code as it was the statements are false: `c12_stall_counterexample`, `c12_addcallback_stall_counterexample` (C12.lean).
-/
import DrandProofs.C12

namespace Drand.Chain.Callback
open Drand

/-! ### which machine is the code -/

/-- exactly one of the two known shapes: the code as it was (plain sends under the read lock, close signal sent through the
queue under the write lock, SyncChain registers with AddCallback) or the repaired store -/
theorem tie_callback_variant :
    (Gen.callbackPutDispatchBlocking = true ∧ Gen.callbackAddCloseSendBlocking = true ∧ Gen.callbackOverflowEndsConsumer = false ∧
      Gen.callbackPutHoldsReadLock = true ∧ Gen.callbackPutHoldsWriteLock = false ∧ Gen.callbackCloseOutOfBand = false ∧
      Gen.syncChainRegistersStream = false) ∨
    (Gen.callbackPutDispatchBlocking = false ∧ Gen.callbackAddCloseSendBlocking = false ∧ Gen.callbackOverflowEndsConsumer = true ∧
      Gen.callbackPutHoldsReadLock = false ∧ Gen.callbackPutHoldsWriteLock = true ∧ Gen.callbackCloseOutOfBand = true ∧
      Gen.syncChainRegistersStream = true ∧ Gen.callbackInternalDispatchBlocking = true) := by decide

/-- the configuration of the tree under test; `ids` = the ids its stream handlers register under -/
def codeCfg (ids : List String) : Cfg :=
  { cap := Gen.callbackWorkerQueue, blocking := Gen.callbackPutDispatchBlocking, closeBlocking := Gen.callbackAddCloseSendBlocking,
    ends := Gen.callbackOverflowEndsConsumer, streamIds := ids }

/-- the repaired store -/
def repairedCfg (ids : List String) : Cfg :=
  { cap := Gen.callbackWorkerQueue, blocking := false, closeBlocking := false, ends := true, streamIds := ids }

/-- the re-tie: the tree is the machine the stall theorems speak about, or the machine the theorems below speak about -/
theorem tie_code_is_known_variant (ids : List String) :
    (codeCfg ids = { stallCfg with streamIds := ids } ∧ stepV (codeCfg ids) = step (codeCfg ids)) ∨
    (codeCfg ids = repairedCfg ids ∧ stepV (codeCfg ids) = stepR (codeCfg ids)) := by
  rcases tie_callback_variant with ⟨h1, h2, h3, _⟩ | ⟨h1, h2, h3, _⟩
  · left
    refine ⟨by simp [codeCfg, stallCfg, h1, h2, h3], ?_⟩
    funext s e; simp [stepV, codeCfg, h3]
  · right
    refine ⟨by simp [codeCfg, repairedCfg, h1, h2, h3], ?_⟩
    funext s e; simp [stepV, codeCfg, h3]

/-! ### the invariant of the repaired store -/

/-- the close notice, if any, is the very last job -/
def ClosedLast (q : List Job) : Prop := Job.close ∉ q.dropLast

theorem closedLast_concat (q : List Job) (h : Job.close ∉ q) : ClosedLast (q ++ [.close]) := by
  simpa [ClosedLast] using h

theorem mem_of_mem_dropLast' {α : Type} (a : α) : ∀ (l : List α), a ∈ l.dropLast → a ∈ l
  | [], h => by simp at h
  | [_], h => by simp at h
  | x :: y :: t, h => by
    simp only [List.dropLast_cons_cons, List.mem_cons] at h
    rcases h with h | h
    · simp [h]
    · exact List.mem_cons_of_mem _ (mem_of_mem_dropLast' a (y :: t) h)

theorem closedLast_of_not_mem (q : List Job) (h : Job.close ∉ q) : ClosedLast q :=
  fun hm => h (mem_of_mem_dropLast' _ _ hm)

theorem closedLast_tail (j : Job) (q : List Job) (h : ClosedLast (j :: q)) : ClosedLast q := by
  cases q with
  | nil => simp [ClosedLast]
  | cons y t =>
    simp only [ClosedLast, List.dropLast_cons_cons, List.mem_cons, not_or] at h
    exact h.2

structure RInv (cfg : Cfg) (s : St) : Prop where
  writer : s.writer = none
  dropped : s.dropped = []
  one : s.puts.length ≤ 1
  chans : ∀ e ∈ s.chans, e.2.queue.length ≤ cfg.cap ∧ Job.close ∉ e.2.queue
  orphans : ∀ e ∈ s.orphans, e.2.queue.length ≤ cfg.cap + 1 ∧ ClosedLast e.2.queue

theorem rinv_init (cfg : Cfg) : RInv cfg {} := ⟨rfl, rfl, by simp, by simp, by simp⟩

private theorem length_set_le {α : Type} (l : List α) (i : Nat) (a : α) : (l.set i a).length = l.length := by simp

theorem rinv_step {cfg : Cfg} {s s' : St} (e : Ev) (h : RInv cfg s) (hs : stepR cfg s e = some s') : RInv cfg s' := by
  obtain ⟨hw, hd, h1, hc, ho⟩ := h
  cases e with
  | putBegin b =>
    simp only [stepR, step] at hs
    split at hs
    · cases hs
    · rename_i hemp
      have hemp' : s.puts = [] := by
        cases hp : s.puts with
        | nil => rfl
        | cons a t => simp [hp] at hemp
      split at hs
      · cases hs
      · split at hs <;> cases hs
        · exact ⟨hw, hd, h1, hc, ho⟩
        · exact ⟨hw, hd, by simp [hemp'], hc, ho⟩
  | putSend i =>
    simp only [stepR] at hs
    split at hs
    · cases hs
    · rename_i p hp
      split at hs
      · cases hs
      · rename_i id rest hrem
        split at hs
        · cases hs; exact ⟨hw, hd, by simpa using h1, hc, ho⟩
        · rename_i c hcid
          obtain ⟨i0, hi0⟩ := chanOf_mem hcid
          have hcc := hc _ hi0
          split at hs
          · rename_i hlt
            cases hs
            refine ⟨hw, hd, by simpa [setChan] using h1, ?_, ho⟩
            intro e he
            rcases mem_setChan (s := s) he with h2 | h2
            · exact hc e h2
            · subst h2
              refine ⟨by simp; omega, ?_⟩
              simp only [List.mem_append, List.mem_singleton, not_or]
              exact ⟨hcc.2, by simp⟩
          · split at hs
            · cases hs
            · cases hs
              refine ⟨hw, hd, by simpa [endChan] using h1, ?_, ?_⟩
              · intro e he
                exact hc e (List.mem_filter.mp he).1
              · intro e he
                simp only [endChan, List.mem_append, List.mem_filter, List.mem_singleton] at he
                rcases he with h2 | h2
                · exact ho e h2.1
                · subst h2
                  refine ⟨by simp; exact hcc.1, closedLast_concat _ hcc.2⟩
  | putEnd i =>
    simp only [stepR, step] at hs
    split at hs
    · split at hs
      · cases hs
        refine ⟨hw, hd, ?_, hc, ho⟩
        have := List.length_eraseIdx_le s.puts i
        simp only at this ⊢; omega
      · cases hs
    · cases hs
  | take id =>
    simp only [stepR, step] at hs
    split at hs
    · rename_i c hcid
      split at hs
      · cases hs
      · split at hs
        · cases hs
        · rename_i j q hq
          cases hs
          refine ⟨hw, hd, h1, ?_, ho⟩
          intro e he
          rcases mem_setChan (s := s) he with h2 | h2
          · exact hc e h2
          · subst h2
            obtain ⟨i0, hi0⟩ := chanOf_mem hcid
            have := hc _ hi0
            simp only [hq, List.length_cons, List.mem_cons, not_or] at this
            exact ⟨by simp; omega, this.2.2⟩
    · cases hs
  | done id =>
    simp only [stepR, step] at hs
    split at hs
    · rename_i c hcid
      split at hs
      · cases hs
        refine ⟨hw, hd, h1, ?_, ho⟩
        intro e he
        rcases mem_setChan (s := s) he with h2 | h2
        · exact hc e h2
        · subst h2
          obtain ⟨i0, hi0⟩ := chanOf_mem hcid
          simpa using hc _ hi0
      · cases hs
    · cases hs
  | takeO id =>
    simp only [stepR, step] at hs
    split at hs
    · rename_i c hcid
      split at hs
      · cases hs
      · split at hs
        · cases hs
        · rename_i j q hq
          cases hs
          refine ⟨hw, hd, h1, hc, ?_⟩
          intro e he
          rcases mem_setOrphan (s := s) he with h2 | h2
          · exact ho e h2
          · subst h2
            obtain ⟨i0, hi0⟩ := orphanOf_mem hcid
            have := ho _ hi0
            simp only [hq, List.length_cons] at this
            exact ⟨by simp; omega, closedLast_tail j q this.2⟩
    · cases hs
  | doneO id =>
    simp only [stepR, step] at hs
    split at hs
    · rename_i c hcid
      split at hs
      · cases hs
        refine ⟨hw, hd, h1, hc, ?_⟩
        intro e he
        rcases mem_setOrphan (s := s) he with h2 | h2
        · exact ho e h2
        · subst h2
          obtain ⟨i0, hi0⟩ := orphanOf_mem hcid
          simpa using ho _ hi0
      · cases hs
    · cases hs
  | remove id =>
    simp only [stepR] at hs
    split at hs
    · cases hs
    · split at hs
      · rename_i c hcid
        cases hs
        obtain ⟨i0, hi0⟩ := chanOf_mem hcid
        have hcc := hc _ hi0
        refine ⟨hw, hd, h1, ?_, ?_⟩
        · intro e he
          exact hc e (List.mem_filter.mp he).1
        · intro e he
          simp only [List.mem_append, List.mem_filter, List.mem_singleton] at he
          rcases he with h2 | h2
          · exact ho e h2.1
          · subst h2
            have hl : c.queue.length ≤ cfg.cap := hcc.1
            exact ⟨by simp; omega, closedLast_of_not_mem _ hcc.2⟩
      · cases hs; exact ⟨hw, hd, h1, hc, ho⟩
  | add id =>
    simp only [stepR] at hs
    split at hs
    · cases hs
    · split at hs
      · rename_i c hcid
        cases hs
        obtain ⟨i0, hi0⟩ := chanOf_mem hcid
        have hcc := hc _ hi0
        refine ⟨hw, hd, h1, ?_, ?_⟩
        · intro e he
          rcases mem_setChan (s := s) he with h2 | h2
          · exact hc e h2
          · subst h2; simp
        · intro e he
          simp only [setChan, List.mem_append, List.mem_filter, List.mem_singleton] at he
          rcases he with h2 | h2
          · exact ho e h2.1
          · subst h2
            exact ⟨by simp; exact hcc.1, closedLast_concat _ hcc.2⟩
      · cases hs
        refine ⟨hw, hd, h1, ?_, ho⟩
        intro e he
        simp only [List.mem_append, List.mem_singleton] at he
        rcases he with h2 | h2
        · exact hc e h2
        · subst h2; simp
  | addResume => simp [stepR] at hs

theorem rinv_run (cfg : Cfg) (es : List Ev) (s : St) (h : RInv cfg s) : RInv cfg (runSkipR cfg s es) := by
  induction es generalizing s with
  | nil => exact h
  | cons e es ih =>
    simp only [runSkipR, List.foldl_cons]
    apply ih
    cases hs : stepR cfg s e with
    | none => simpa using h
    | some s' => simpa using rinv_step e h hs

/-- **C12 (bounded state), repaired store.** Every schedule: a registered queue never holds more than `CallbackWorkerQueue`
jobs; the queue of a consumer that was ended or replaced holds at most that many jobs and its one close notice. -/
theorem c12r_queue_bound (cfg : Cfg) (es : List Ev) :
    let s := runSkipR cfg {} es
    (∀ e ∈ s.chans, e.2.queue.length ≤ cfg.cap) ∧ (∀ e ∈ s.orphans, e.2.queue.length ≤ cfg.cap + 1) := by
  have h := rinv_run cfg es {} (rinv_init cfg)
  exact ⟨fun e he => (h.chans e he).1, fun e he => (h.orphans e he).1⟩

/-- **C11, repaired store: nothing is ever dropped**, whatever the schedule -/
theorem c11_never_dropped (cfg : Cfg) (es : List Ev) : (runSkipR cfg {} es).dropped = [] :=
  (rinv_run cfg es {} (rinv_init cfg)).dropped

/-- **C11, repaired store: `closed` is the last thing a consumer hears.** Every schedule: no registered queue holds a close
notice (so no beacon is ever queued behind one: only registered queues receive beacons), and the queue of an ended,
replaced or removed consumer holds it at most once, as its very last job. -/
theorem c11_closed_is_last (cfg : Cfg) (es : List Ev) :
    let s := runSkipR cfg {} es
    (∀ e ∈ s.chans, Job.close ∉ e.2.queue) ∧ (∀ e ∈ s.orphans, ClosedLast e.2.queue) := by
  have h := rinv_run cfg es {} (rinv_init cfg)
  exact ⟨fun e he => (h.chans e he).2, fun e he => (h.orphans e he).2⟩

/-- no AddCallback is ever parked inside the write lock, and at most one dispatch loop runs -/
theorem c12r_lock_discipline (cfg : Cfg) (es : List Ev) :
    (runSkipR cfg {} es).writer = none ∧ (runSkipR cfg {} es).puts.length ≤ 1 :=
  ⟨(rinv_run cfg es {} (rinv_init cfg)).writer, (rinv_run cfg es {} (rinv_init cfg)).one⟩

/-! ### C12: nothing waits for a stream consumer -/

/-- **C12 (no stall), repaired store.** A Put in progress can take its next step whenever the consumer it has to reach next
is a stream consumer (or is gone, or has room): it needs no step of any other goroutine, whatever that consumer does. -/
theorem c12r_put_never_waits (cfg : Cfg) (s : St) (i : Nat) (p : InPut) (hp : s.puts[i]? = some p) :
    (∀ id rest, p.rem = id :: rest → (cfg.streamIds.contains id = true ∨ chanOf s id = none ∨
        ∃ c, chanOf s id = some c ∧ c.queue.length < cfg.cap) → (stepR cfg s (.putSend i)).isSome = true) ∧
    (p.rem = [] → (stepR cfg s (.putEnd i)).isSome = true) := by
  constructor
  · intro id rest hr hcase
    simp only [stepR, hp, hr]
    cases hc : chanOf s id with
    | none => simp
    | some c =>
      by_cases hl : c.queue.length < cfg.cap
      · simp [hl]
      · rcases hcase with h | h | ⟨c', h, hl'⟩
        · have h' : id ∈ cfg.streamIds := by simpa using h
          simp [hl, h']
        · simp [hc] at h
        · rw [hc] at h; cases h; exact absurd hl' hl
  · intro he
    simp [stepR, step, hp, he]

private theorem putSendR_puts {cfg : Cfg} {s s' : St} {i : Nat} {p : InPut} {id : String} {rest : List String}
    (hp : s.puts[i]? = some p) (hr : p.rem = id :: rest) (hs : stepR cfg s (.putSend i) = some s') :
    s'.puts = s.puts.set i { p with rem := rest } := by
  simp only [stepR, hp, hr] at hs
  split at hs
  · cases hs; rfl
  · split at hs
    · cases hs; rfl
    · split at hs
      · cases hs
      · cases hs; rfl

/-- … and when every consumer it still has to reach is a stream consumer, it returns after exactly `|rem|` sends and the
unlock, with no step of anybody else in between. -/
theorem c12r_put_completes_alone (cfg : Cfg) :
    ∀ (n : Nat) (s : St) (i : Nat) (p : InPut), s.puts[i]? = some p → p.rem.length = n →
      (∀ id ∈ p.rem, cfg.streamIds.contains id = true) →
      ∃ s', runR cfg s (List.replicate n (.putSend i) ++ [.putEnd i]) = some s' ∧ s'.puts = s.puts.eraseIdx i := by
  intro n
  induction n with
  | zero =>
    intro s i p hp hn _
    have he : p.rem = [] := List.eq_nil_of_length_eq_zero hn
    refine ⟨{ s with puts := s.puts.eraseIdx i }, ?_, rfl⟩
    simp [runR, stepR, step, hp, he]
  | succ n ih =>
    intro s i p hp hn hall
    cases hr : p.rem with
    | nil => simp [hr] at hn
    | cons id rest =>
      have hen := (c12r_put_never_waits cfg s i p hp).1 id rest hr (Or.inl (hall id (by simp [hr])))
      cases hs : stepR cfg s (.putSend i) with
      | none => simp [hs] at hen
      | some s1 =>
        have hp1 := putSendR_puts hp hr hs
        have hp1' : s1.puts[i]? = some { p with rem := rest } := by
          rw [hp1]; exact getElem?_set_self' _ _ _ _ hp
        obtain ⟨s', hrun, hpu⟩ := ih s1 i { p with rem := rest } hp1' (by simp [hr] at hn; simpa using hn)
          (fun x hx => hall x (by simp [hr, hx]))
        refine ⟨s', ?_, ?_⟩
        · simp only [List.replicate_succ, List.cons_append, runR, hs]; exact hrun
        · rw [hpu, hp1, eraseIdx_set]

/-- a Put takes the lock as soon as no other dispatch loop runs (and by `c12r_put_completes_alone` that loop ends by itself) -/
theorem c12r_put_begins (cfg : Cfg) (s : St) (b : Beacon) (hw : s.writer = none) (hp : s.puts = []) :
    (stepR cfg s (.putBegin b)).isSome = true := by
  simp only [stepR, step, hp, hw]
  by_cases h0 : b.round = 0 <;> simp [h0]

/-- **C12, repaired store: registering and deregistering never wait for a consumer.** `AddCallback` / `AddStreamCallback`
(also under an id that is registered, with a full queue and a callback that never returns) and `RemoveCallback` are single
steps, enabled whenever no dispatch loop holds the lock, and they leave nobody parked inside the lock. -/
theorem c12_addcallback_never_waits (cfg : Cfg) (s : St) (id : String) (hw : s.writer = none) (hp : s.puts = []) :
    (∃ s', stepR cfg s (.add id) = some s' ∧ s'.writer = none ∧ s'.puts = [] ∧ (chanOf s' id).map (·.queue) = some []) ∧
    (∃ s', stepR cfg s (.remove id) = some s' ∧ s'.writer = none ∧ s'.puts = [] ∧ chanOf s' id = none) := by
  constructor
  · cases hc : chanOf s id with
    | some c =>
      refine ⟨{ setChan s id {} with orphans := s.orphans.filter (·.1 != id) ++ [(id, { c with queue := c.queue ++ [.close] })] },
        by simp [stepR, hp, hc], hw, hp, ?_⟩
      have : chanOf (setChan s id {}) id = some {} := by rw [chanOf_setChan, hc]; simp
      simp only [chanOf] at this ⊢
      simpa [setChan] using congrArg (Option.map (·.queue)) this
    | none =>
      refine ⟨{ s with chans := s.chans ++ [(id, {})] }, by simp [stepR, hp, hc], hw, hp, ?_⟩
      simp only [chanOf] at hc ⊢
      simp only [Option.map_eq_none_iff] at hc
      simp [List.find?_append, hc]
  · cases hc : chanOf s id with
    | some c =>
      refine ⟨{ s with chans := s.chans.filter (·.1 != id), orphans := s.orphans.filter (·.1 != id) ++ [(id, c)] },
        by simp [stepR, hp, hc], hw, hp, ?_⟩
      simp only [chanOf, Option.map_eq_none_iff]
      rw [List.find?_eq_none]
      intro x hx
      have := (List.mem_filter.mp hx).2
      simpa using this
    | none => exact ⟨s, by simp [stepR, hp, hc], hw, hp, hc⟩

/-! ### C11: a dispatch reaches the consumer or ends it -/

/-- **C11, repaired store: no skip.** The dispatch step of a Put towards a registered consumer `id` has exactly two
outcomes: the beacon is appended at the tail of the consumer's queue (which stays registered), or — only for a stream
consumer whose queue is full — the consumer is ended: it is no longer registered (no later Put can reach it) and its
worker is left with what was queued followed by the close notice. Nothing is dropped in either case. -/
theorem c11_dispatch_reaches_or_ends (cfg : Cfg) (s s' : St) (i : Nat) (p : InPut) (id : String) (rest : List String) (c : Chan)
    (hp : s.puts[i]? = some p) (hr : p.rem = id :: rest) (hc : chanOf s id = some c)
    (hs : stepR cfg s (.putSend i) = some s') :
    s'.dropped = s.dropped ∧
    ((chanOf s' id = some { c with queue := c.queue ++ [.beacon p.b] } ∧ c.queue.length < cfg.cap) ∨
     (chanOf s' id = none ∧ (id, { c with queue := c.queue ++ [.close] }) ∈ s'.orphans ∧
        cfg.streamIds.contains id = true ∧ cfg.cap ≤ c.queue.length)) := by
  simp only [stepR, hp, hr, hc] at hs
  split at hs
  · rename_i hlt
    cases hs
    refine ⟨rfl, Or.inl ⟨?_, hlt⟩⟩
    have : chanOf (setChan s id { c with queue := c.queue ++ [.beacon p.b] }) id = some { c with queue := c.queue ++ [.beacon p.b] } := by
      rw [chanOf_setChan, hc]; simp
    simpa [chanOf, setChan] using this
  · rename_i hge
    split at hs
    · cases hs
    · rename_i hst
      cases hs
      refine ⟨rfl, Or.inr ⟨?_, ?_, by simpa using hst, by omega⟩⟩
      · simp only [chanOf, endChan, Option.map_eq_none_iff]
        rw [List.find?_eq_none]
        intro x hx
        have := (List.mem_filter.mp hx).2
        simpa using this
      · simp [endChan]

/-- **C11, repaired store: the ids a Put reaches are the ids registered when its beacon was stored.** While a dispatch loop
runs (it holds the write lock) no step registers, replaces or removes a callback — except the loop itself ending a
consumer whose queue is full. -/
theorem c11_table_frozen_during_put (cfg : Cfg) (s s' : St) (e : Ev) (hne : s.puts ≠ []) (hs : stepR cfg s e = some s')
    (hnot : ∀ i, e ≠ .putSend i) : s'.chans.map (·.1) = s.chans.map (·.1) := by
  have hemp : s.puts.isEmpty = false := by
    cases hp : s.puts with
    | nil => exact absurd hp hne
    | cons a t => rfl
  cases e with
  | putBegin b => simp [stepR, hemp] at hs
  | putSend i => exact absurd rfl (hnot i)
  | putEnd i =>
    simp only [stepR, step] at hs
    split at hs
    · split at hs
      · cases hs; rfl
      · cases hs
    · cases hs
  | take id =>
    simp only [stepR, step] at hs
    split at hs
    · split at hs
      · cases hs
      · split at hs
        · cases hs
        · cases hs
          simp only [setChan, List.map_map]
          apply List.map_congr_left
          intro x _
          by_cases hx : x.1 = id
          · simp [hx]
          · simp [hx]
    · cases hs
  | done id =>
    simp only [stepR, step] at hs
    split at hs
    · split at hs
      · cases hs
        simp only [setChan, List.map_map]
        apply List.map_congr_left
        intro x _
        by_cases hx : x.1 = id
        · simp [hx]
        · simp [hx]
      · cases hs
    · cases hs
  | takeO id =>
    simp only [stepR, step] at hs
    split at hs
    · split at hs
      · cases hs
      · split at hs
        · cases hs
        · cases hs; rfl
    · cases hs
  | doneO id =>
    simp only [stepR, step] at hs
    split at hs
    · split at hs
      · cases hs; rfl
      · cases hs
    · cases hs
  | remove id => simp [stepR, hemp] at hs
  | add id => simp [stepR, hemp] at hs
  | addResume => simp [stepR] at hs

/-! ### non-vacuity: the stall witnesses of the code as it was, run on the repaired store -/

/-- the consumers of the witnesses are stream consumers -/
def rCfg : Cfg := repairedCfg ["c"]

-- `stallPrefix` + the dispatch that was stuck: the Put returns, "c" is ended (101 jobs then the close notice), nothing dropped
set_option maxRecDepth 100000 in
example : (runR rCfg {} (stallPrefix ++ [.putSend 0, .putEnd 0])).map (fun s =>
    s.puts.isEmpty && s.dropped.isEmpty && (chanOf s "c").isNone && s.stored.length == Gen.callbackWorkerQueue + 2 &&
      ((orphanOf s "c").map fun c => (c.queue.length, c.queue.getLast?, c.busy))
        == some (Gen.callbackWorkerQueue + 1, some Job.close, true) &&
      (stepR rCfg s (.add "c")).isSome && (stepR rCfg s (.remove "c")).isSome && (stepR rCfg s (.putBegin (bcn 999))).isSome)
    = some true := by decide

-- `addStallPrefix`: the reconnect under a full queue is one step; the old worker keeps its 100 jobs and gets the notice last
set_option maxRecDepth 100000 in
example : (runR rCfg {} addStallPrefix).map (fun s =>
    s.writer.isNone && ((chanOf s "c").map (·.queue)) == some [] &&
      ((orphanOf s "c").map fun c => (c.queue.length, c.queue.getLast?)) == some (Gen.callbackWorkerQueue + 1, some Job.close) &&
      (stepR rCfg s (.putBegin (bcn 999))).isSome) = some true := by decide

-- a callback of the node itself is never ended: with a full queue the Put waits for it, as before
set_option maxRecDepth 100000 in
example : (runR (repairedCfg []) {} stallPrefix).map (fun s =>
    (stepR (repairedCfg []) s (.putSend 0)).isNone && (chanOf s "c").isSome) = some true := by decide

example : ∃ s p, s.puts[0]? = some p ∧ p.rem = ["c"] ∧ (stepR rCfg s (.putSend 0)).isSome = true :=
  ⟨{ puts := [⟨bcn 1, ["c"]⟩] }, _, rfl, rfl, ((c12r_put_never_waits rCfg _ 0 _ rfl).1 "c" [] rfl (Or.inl (by decide)))⟩

example : ∃ s', runR rCfg { puts := [⟨bcn 1, ["c", "c"]⟩] } (List.replicate 2 (.putSend 0) ++ [.putEnd 0]) = some s' ∧ s'.puts = [] := by
  obtain ⟨s', h1, h2⟩ := c12r_put_completes_alone rCfg 2 { puts := [⟨bcn 1, ["c", "c"]⟩] } 0 _ rfl rfl (by decide)
  exact ⟨s', h1, by simpa using h2⟩

example : RInv rCfg (runSkipR rCfg {} [.add "c", .putBegin (bcn 1), .putSend 0, .add "d", .putEnd 0, .take "c", .add "c"]) :=
  rinv_run _ _ _ (rinv_init _)

end Drand.Chain.Callback
