/-
C08 — DKG state moves only along legal transitions; failures keep the last good epoch.
Models: Drand/DKG/State.lean, Drand/DKG/Process.lean. Every theorem is for an arbitrary process state and an
arbitrary event (operator command, gossip packet from anybody, completion, failure) with an arbitrary clock
reading; the ∀-history statements follow by induction over the event list (`c08_*_run`).
-/
import Drand.DKG.Process
import Gen.Locks
import Gen.DKGAuth

namespace Drand.DKG
open Drand

/-! ### ties: the regenerated transition table is the protocol's table -/

def expectedTable : Status → Status → Bool
  | .fresh, n => n == .proposing || n == .proposed
  | .joined, n => n == .left || n == .executing || n == .aborted || n == .timedOut
  | .proposing, n => n == .executing || n == .aborted || n == .timedOut
  | .proposed, n => n == .accepted || n == .rejected || n == .joined || n == .left || n == .aborted || n == .timedOut
  | .accepted, n => n == .executing || n == .aborted || n == .timedOut
  | .rejected, n => n == .aborted || n == .timedOut
  | .executing, n => n == .complete || n == .timedOut || n == .failed
  | .complete, n => n == .proposing || n == .proposed
  | .left, n => n == .joined || n == .aborted || n == .proposed
  | .aborted, n => n == .proposing || n == .proposed
  | .timedOut, n => n == .proposing || n == .proposed || n == .aborted
  | .failed, n => n == .proposing || n == .proposed || n == .left || n == .aborted

theorem tie_transition_table : ∀ a b, Gen.isValidStateChange a b = expectedTable a b := by
  intro a b; cases a <;> cases b <;> rfl
theorem tie_terminal : Gen.terminalStates = [.aborted, .timedOut, .failed] := by
  rfl
theorem tie_proposal_phase : Gen.proposalPhase = [.proposing, .proposed, .accepted, .rejected, .joined] := by
  rfl

/-- the model's `command` / `packet` are single atomic steps (read the stored state, decide, write): in the code that is
the process mutex, taken by `Command` and by `Packet` before they touch any state of the process and held until they
return. With a narrower critical section a packet served between a command's read and its write would be overwritten
by a transition computed from the stale copy, and the ∀-history theorems would not speak about the code. -/
theorem tie_process_steps_atomic : Gen.processCommandAtomic = true ∧ Gen.processPacketAtomic = true := by decide

/-- `validateEpoch` as the model has it (three guards, in this order): a lower epoch is refused whatever the state, an equal
one unless the last attempt ended Aborted / TimedOut / Failed, a jump of more than one unless the node is Left or Fresh -/
theorem tie_validate_epoch :
    Gen.DKGAuth.validateEpochChain =
      ["if terms.Epoch<currentState.Epoch → ErrInvalidEpoch",
       "if terms.Epoch==currentState.Epoch&&currentState.State!=Aborted&&currentState.State!=TimedOut&&currentState.State!=Failed → ErrInvalidEpoch",
       "if terms.Epoch>currentState.Epoch+1&&(currentState.State!=Left&&currentState.State!=Fresh) → ErrInvalidEpoch",
       "return nil"] := rfl

/-! ### proof infrastructure: the `Except` plumbing, what each validator and each `DBState` method guarantees -/

section helpers
private theorem bind_ok_iff {α β} {x : Except Err α} {f : α → Except Err β} {b : β} :
    (x >>= f) = .ok b ↔ ∃ a, x = .ok a ∧ f a = .ok b := by
  cases x <;> simp [bind, Except.bind]

private theorem guard_ok_iff {c : Prop} [Decidable c] {e : Err} {u : Unit} :
    (if c then (throw e : Except Err Unit) else pure ()) = .ok u ↔ ¬ c := by
  split <;> simp_all [throw, throwThe, MonadExcept.throw, pure, Except.pure]

private theorem pure_ok_iff {α} {a b : α} : (pure a : Except Err α) = .ok b ↔ a = b := by
  simp [pure, Except.pure]

private theorem throw_ne_ok {α} {e : Err} {b : α} : (throw e : Except Err α) = .ok b ↔ False := by
  simp [throw, throwThe, MonadExcept.throw]

private theorem ite_throw_ok_iff {α β} {c : Prop} [Decidable c] {e : Err} {k : α → Except Err β}
    {r : Except Err β} {b : β} :
    (if c then ((throw e : Except Err α) >>= k) else r) = .ok b ↔ ¬ c ∧ r = .ok b := by
  split <;> simp_all [throw, throwThe, MonadExcept.throw, bind, Except.bind]

private theorem ite_throw_ok_iff' {β} {c : Prop} [Decidable c] {e : Err}
    {r : Except Err β} {b : β} :
    (if c then (throw e : Except Err β) else r) = .ok b ↔ ¬ c ∧ r = .ok b := by
  split <;> simp_all [throw, throwThe, MonadExcept.throw]

private theorem validChange_ok {a b : Status} {u : Unit} :
    validChange a b = .ok u ↔ Gen.isValidStateChange a b = true := by
  unfold validChange; split <;> simp_all
end helpers

local macro "exc" " at " h:ident : tactic =>
  `(tactic| simp only [bind_ok_iff, ite_throw_ok_iff, ite_throw_ok_iff', guard_ok_iff, pure_ok_iff, throw_ne_ok,
      validChange_ok, exists_const, false_and, and_false, exists_false] at $h:ident)

private theorem validateEpoch_ok {cur : DBState} {t : Terms} {u} (h : validateEpoch cur t = .ok u) :
    cur.epoch ≤ t.epoch ∧
    (t.epoch = cur.epoch → cur.state = .aborted ∨ cur.state = .timedOut ∨ cur.state = .failed) ∧
    (t.epoch > cur.epoch + 1 → cur.state = .left ∨ cur.state = .fresh) := by
  unfold validateEpoch at h
  split at h
  · simp at h
  split at h
  · simp at h
  split at h
  · simp at h
  rename_i h1 h2 h3
  refine ⟨by omega, ?_, ?_⟩
  · intro he
    simp [he] at h2
    by_cases a : cur.state = .aborted
    · exact .inl a
    by_cases b : cur.state = .timedOut
    · exact .inr (.inl b)
    exact .inr (.inr (h2 a b))
  · intro he
    simp at h3
    have := h3 he
    by_cases a : cur.state = .left
    · exact .inl a
    exact .inr (this a)

private structure ForAll (cur : DBState) (t : Terms) (now : Int) : Prop where
  beacon : cur.beaconID = t.beaconID
  scheme : Gen.schemeIDs.contains t.schemeID = true
  keys : t.joining.all (fun p => p.selfSigOK && p.scheme == t.schemeID) = true
  time : ¬ t.timeout < now
  thrHi : ¬ t.threshold > t.joining.length + t.remaining.length
  thrLo : ¬ t.threshold < minimumT (t.joining.length + t.remaining.length)
  epoch : validateEpoch cur t = .ok ()

private theorem validateForAllDKGs_ok {cur t now u} (h : validateForAllDKGs cur t now = .ok u) : ForAll cur t now := by
  unfold validateForAllDKGs validateForAllDKGsV at h
  exc at h
  obtain ⟨h1, h2, h3, _, h4, h5, h6, h7⟩ := h
  exact ⟨by simpa using h1, by simpa using h2, by simpa using h3, h4, h5, h6, h7⟩


private theorem validateFirstEpoch_ok {t : Terms} {u} (h : validateFirstEpoch t = .ok u) :
    t.genesisSeed = [] ∧ t.remaining = [] ∧ t.leaving = [] ∧ contains t.joining t.leader = true := by
  unfold validateFirstEpoch at h
  exc at h
  obtain ⟨h1, h2, h3, h4, -⟩ := h
  simp at h1 h2 h3
  exact ⟨h1, h2.1, h2.2, h3⟩

private theorem validateReshareForRemainers_ok {cur : DBState} {t : Terms} {u}
    (h : validateReshareForRemainers cur t = .ok u) :
    t.genesisTime = cur.genesisTime ∧ t.genesisSeed = cur.genesisSeed ∧
    ∃ g, cur.finalGroup = some g ∧ containsAll g.nodes (t.remaining ++ t.leaving) = true ∧
      containsAll (t.remaining ++ t.leaving) g.nodes = true ∧ ¬ t.remaining.length < cur.threshold := by
  unfold validateReshareForRemainers at h
  exc at h
  obtain ⟨h1, h2, _hsch, _hper, h3⟩ := h
  split at h3
  · exc at h3
  · rename_i g hg
    exc at h3
    obtain ⟨h4, h5, h6, -⟩ := h3
    simp at h1 h2 h4 h5
    exact ⟨h1, h2, g, hg, h4, h5, h6⟩

private theorem validateProposal_ok {cur : DBState} {t : Terms} {now u} (h : validateProposal cur t now = .ok u) :
    ForAll cur t now ∧
    (t.epoch = 1 → validateFirstEpoch t = .ok ()) ∧
    (t.epoch ≠ 1 → cur.state ≠ .fresh → cur.state ≠ .left → validateReshareForRemainers cur t = .ok ()) := by
  unfold validateProposal at h
  exc at h
  obtain ⟨_, h1, h2⟩ := h
  refine ⟨validateForAllDKGs_ok h1, ?_, ?_⟩
  · intro he; simpa [he] using h2
  · intro he hf hl
    simp [he] at h2
    exc at h2
    obtain ⟨_, _, h3⟩ := h2
    simpa [hf, hl] using h3

private theorem validateProposal_epoch {cur : DBState} {t : Terms} {now u} (h : validateProposal cur t now = .ok u) :
    cur.epoch ≤ t.epoch ∧
    (t.epoch = cur.epoch → cur.state = .aborted ∨ cur.state = .timedOut ∨ cur.state = .failed) :=
  let ⟨a, b, _⟩ := validateEpoch_ok (validateProposal_ok h).1.epoch
  ⟨a, b⟩


/-- what every successful method of `DBState` other than `complete` guarantees about the new record -/
private structure Good (d n : DBState) : Prop where
  legal : n.state = d.state ∨ Gen.isValidStateChange d.state n.state = true
  notComplete : n.state ≠ .complete
  epochLe : d.epoch ≤ n.epoch
  epochLt : d.state = .complete → d.epoch < n.epoch

private theorem good_of_valid {d n : DBState} {X : Status} (hv : Gen.isValidStateChange d.state X = true)
    (hs : n.state = X) (he : n.epoch = d.epoch) (hX : X ≠ .complete ∧ X ≠ .proposing ∧ X ≠ .proposed) : Good d n := by
  refine ⟨.inr (hs ▸ hv), hs ▸ hX.1, by omega, ?_⟩
  intro hc; rw [hc] at hv
  exfalso
  revert hv; cases X <;> simp_all [Gen.isValidStateChange]

private theorem good_of_proposal {d n : DBState} {t : Terms} {now u} {X : Status}
    (hv : Gen.isValidStateChange d.state X = true) (hp : validateProposal d t now = .ok u)
    (hs : n.state = X) (he : n.epoch = t.epoch) (hX : X ≠ .complete) : Good d n := by
  obtain ⟨h1, h2⟩ := validateProposal_epoch hp
  refine ⟨.inr (hs ▸ hv), hs ▸ hX, by omega, ?_⟩
  intro hc
  have : t.epoch ≠ d.epoch := by
    intro h; rcases h2 h with a | a | a <;> rw [hc] at a <;> cases a
  omega

private theorem proposing_good {d : DBState} {me t now n} (h : d.proposing me t now = .ok n) : Good d n := by
  unfold DBState.proposing at h
  exc at h
  obtain ⟨h1, -, _, h2, -, rfl⟩ := h
  exact good_of_proposal h1 h2 rfl rfl (by decide)

private theorem proposed_good {d : DBState} {me t sender now n} (h : d.proposed me t sender now = .ok n) : Good d n := by
  unfold DBState.proposed at h
  exc at h
  obtain ⟨h1, -, _, h2, -, rfl⟩ := h
  exact good_of_proposal h1 h2 rfl rfl (by decide)

private theorem joined_good {d : DBState} {me prev now n} (h : d.joined me prev now = .ok n) : Good d n := by
  unfold DBState.joined at h
  exc at h
  obtain ⟨h1, -, -, _, -, rfl⟩ := h
  exact good_of_valid h1 rfl rfl (by decide)

private theorem startAbort_good {d : DBState} {n} (h : d.startAbort = .ok n) : Good d n := by
  unfold DBState.startAbort at h
  exc at h
  obtain ⟨h1, rfl⟩ := h
  exact good_of_valid h1 rfl rfl (by decide)

private theorem aborted_good {d : DBState} {sender n} (h : d.aborted sender = .ok n) : Good d n := by
  unfold DBState.aborted at h
  exc at h
  obtain ⟨h1, -, rfl⟩ := h
  exact good_of_valid h1 rfl rfl (by decide)

private theorem accepted_good {d : DBState} {me now n} (h : d.accepted me now = .ok n) : Good d n := by
  unfold DBState.accepted at h
  exc at h
  obtain ⟨h1, -, -, -, rfl⟩ := h
  exact good_of_valid h1 rfl rfl (by decide)

private theorem rejected_good {d : DBState} {me now n} (h : d.rejected me now = .ok n) : Good d n := by
  unfold DBState.rejected at h
  exc at h
  obtain ⟨h1, -, -, -, rfl⟩ := h
  exact good_of_valid h1 rfl rfl (by decide)

private theorem left_good {d : DBState} {me now n} (h : d.left me now = .ok n) : Good d n := by
  unfold DBState.left at h
  exc at h
  obtain ⟨h1, -, -, rfl⟩ := h
  exact good_of_valid h1 rfl rfl (by decide)

private theorem startExecuting_good {d : DBState} {me now n} (h : d.startExecuting me now = .ok n) : Good d n := by
  unfold DBState.startExecuting at h
  exc at h
  obtain ⟨-, h⟩ := h
  split at h
  · exact left_good h
  · exc at h
    obtain ⟨h1, -, rfl⟩ := h
    exact good_of_valid h1 rfl rfl (by decide)

private theorem executing_good {d : DBState} {me sender now n} (h : d.executing me sender now = .ok n) : Good d n := by
  unfold DBState.executing at h
  exc at h
  obtain ⟨-, h⟩ := h
  split at h
  · exc at h
    exact left_good h.2
  · exc at h
    obtain ⟨h1, -, -, rfl⟩ := h
    exact good_of_valid h1 rfl rfl (by decide)

private theorem failed_good {d : DBState} {n} (h : d.failed = .ok n) : Good d n := by
  unfold DBState.failed at h
  exc at h
  obtain ⟨h1, rfl⟩ := h
  exact good_of_valid h1 rfl rfl (by decide)

private theorem proposalPhase_not_complete {d : DBState} (h : isProposalPhase d = true) : d.state ≠ .complete := by
  intro hc; simp [isProposalPhase, hc, Gen.proposalPhase] at h

private theorem receivedAcceptance_good {d : DBState} {them sender n} (h : d.receivedAcceptance them sender = .ok n) :
    Good d n := by
  unfold DBState.receivedAcceptance at h
  exc at h
  obtain ⟨h1, -, -, -, rfl⟩ := h
  have := proposalPhase_not_complete (d := d) (by simpa using h1)
  exact ⟨.inl rfl, this, Nat.le_refl _, fun hc => (this hc).elim⟩

private theorem receivedRejection_good {d : DBState} {them sender n} (h : d.receivedRejection them sender = .ok n) :
    Good d n := by
  unfold DBState.receivedRejection at h
  exc at h
  obtain ⟨h1, -, -, -, rfl⟩ := h
  have := proposalPhase_not_complete (d := d) (by simpa using h1)
  exact ⟨.inl rfl, this, Nat.le_refl _, fun hc => (this hc).elim⟩

private theorem complete_spec {d : DBState} {g sh now n} (h : d.complete g sh now = .ok n) :
    d.state = .executing ∧ n.state = .complete ∧ n.finalGroup = g ∧ n.keyShare = sh ∧ g.isSome ∧ sh.isSome ∧
    n.epoch = d.epoch := by
  unfold DBState.complete at h
  exc at h
  obtain ⟨h1, -, h⟩ := h
  have hs : d.state = .executing := by
    revert h1; cases d.state <;> simp [Gen.isValidStateChange]
  split at h
  · exc at h
  · exc at h
  · exc at h
    subst h
    exact ⟨hs, rfl, rfl, rfl, rfl, rfl, rfl⟩

private theorem applyPacket_good {d : DBState} {me pk sender now n} (h : applyPacket d me pk sender now = .ok n) :
    Good d n := by
  cases pk with
  | proposal t => exact proposed_good h
  | accept a => exact receivedAcceptance_good h
  | reject r => exact receivedRejection_good h
  | execute _ => exact executing_good h
  | abort _ => exact aborted_good h


private theorem command_cases (p : Proc) (c : Cmd) (now : Int) :
    (∃ e, p.command c now = (p, .err e)) ∨
    ∃ n, Good p.base n ∧ (p.command c now).1.current = some n ∧ (p.command c now).1.finished = p.finished ∧
      ∀ e, (p.command c now).2 ≠ .err e := by
  unfold Proc.command
  cases c with
  | initial o =>
    simp only []
    split
    · exact .inl ⟨_, rfl⟩
    · rename_i n h
      refine .inr ⟨n, proposing_good h, ?_⟩
      split <;> simp
  | resharing o =>
    simp only []
    split
    · exact .inl ⟨_, rfl⟩
    · rename_i n h
      refine .inr ⟨n, proposing_good h, ?_⟩
      split <;> simp
  | join prev =>
    simp only []
    split
    · exact .inl ⟨_, rfl⟩
    split
    · exact .inl ⟨_, rfl⟩
    · rename_i n h
      exact .inr ⟨n, joined_good h, by simp⟩
  | accept =>
    simp only []
    split
    · exact .inl ⟨_, rfl⟩
    · rename_i n h
      refine .inr ⟨n, accepted_good h, ?_⟩
      simp
  | reject =>
    simp only []
    split
    · exact .inl ⟨_, rfl⟩
    · rename_i n h
      refine .inr ⟨n, rejected_good h, ?_⟩
      simp
  | execute =>
    simp only []
    split
    · exact .inl ⟨_, rfl⟩
    · rename_i n h
      refine .inr ⟨n, startExecuting_good h, ?_⟩
      split <;> simp
  | abort =>
    simp only []
    split
    · exact .inl ⟨_, rfl⟩
    · rename_i n h
      refine .inr ⟨n, startAbort_good h, ?_⟩
      simp

private theorem packet_cases (p : Proc) (m : Meta) (pk : Packet) (now : Int) :
    (p.packet m pk now).1 = p ∨
    ∃ n, Good p.base n ∧ applyPacket p.base p.me pk m.addr now = .ok n ∧
      verifyMessage m pk (termsFromState n) = .ok () ∧
      (p.packet m pk now).1.current = some n ∧ (p.packet m pk now).1.finished = p.finished ∧
      ∀ e, (p.packet m pk now).2 ≠ .err e := by
  unfold Proc.packet
  split
  · exact .inl rfl
  split
  · exact .inl rfl
  split
  · exact .inl rfl
  rename_i n h
  split
  · exact .inl rfl
  rename_i hv
  refine .inr ⟨n, applyPacket_good h, h, hv, ?_⟩
  cases pk <;> simp only [] <;> (try split) <;> simp

private theorem toOption_none_of {α} {x : Except Err α} (h : ∀ u, x = .ok u → False) : x.toOption = none := by
  cases x with
  | error e => rfl
  | ok u => exact (h u rfl).elim

/-! ### legal transitions -/

/-- the state an event is applied to: the terminal-state fallback for commands and packets, the current state for
the completion / failure of an execution -/
def Proc.source (p : Proc) : Ev → DBState
  | .cmd _ => p.base
  | .pkt _ _ => p.base
  | .complete _ _ => p.getCurrent
  | .fail => p.getCurrent

/-- every step either leaves the current record untouched, or keeps its status, or moves the status along an arrow of
the table from the state the event was applied to -/
theorem c08_legal (p : Proc) (now : Int) (ev : Ev) :
    (p.step now ev).1.current = p.current ∨
    (p.step now ev).1.getCurrent.state = (p.source ev).state ∨
    Gen.isValidStateChange (p.source ev).state (p.step now ev).1.getCurrent.state = true := by
  cases ev with
  | cmd c =>
    simp only [Proc.step, Proc.source]
    rcases command_cases p c now with ⟨e, h⟩ | ⟨n, g, hc, -⟩
    · rw [h]; exact .inl rfl
    · simp only [Proc.getCurrent, hc, Option.getD_some]; exact .inr g.legal
  | pkt m pk =>
    simp only [Proc.step, Proc.source]
    rcases packet_cases p m pk now with h | ⟨n, g, -, -, hc, -⟩
    · rw [h]; exact .inl rfl
    · simp only [Proc.getCurrent, hc, Option.getD_some]; exact .inr g.legal
  | complete g sh =>
    simp only [Proc.step, Proc.source, Proc.completeDKG]
    split
    · exact .inl rfl
    · rename_i fin h
      obtain ⟨h1, h2, -⟩ := complete_spec h
      refine .inr (.inr ?_)
      simp only [Proc.getCurrent, Option.getD_some, h2]
      rw [show (p.current.getD (newFreshState p.beaconID)).state = .executing from h1]; rfl
  | fail =>
    simp only [Proc.step, Proc.source, Proc.failDKG]
    split
    · exact .inl rfl
    · rename_i n h
      exact .inr (failed_good h).legal

/-- a rejected command or packet writes nothing at all -/
theorem c08_error_no_write (p : Proc) (now : Int) (ev : Ev) (e : Err) (h : (p.step now ev).2 = .err e) :
    (p.step now ev).1 = p := by
  cases ev with
  | cmd c =>
    simp only [Proc.step] at h ⊢
    rcases command_cases p c now with ⟨e', h'⟩ | ⟨n, -, -, -, hne⟩
    · rw [h']
    · exact (hne e h).elim
  | pkt m pk =>
    simp only [Proc.step] at h ⊢
    rcases packet_cases p m pk now with h' | ⟨n, -, -, -, -, -, hne⟩
    · exact h'
    · exact (hne e h).elim
  | complete g sh =>
    simp only [Proc.step, Proc.completeDKG] at h ⊢
    split at h
    · rfl
    · cases h
  | fail =>
    simp only [Proc.step, Proc.failDKG] at h ⊢
    split at h
    · rfl
    · cases h

/-- the completed record is replaced only by a completion, never by a command, packet, abort, time-out or failure -/
theorem c08_finished_only_by_completion (p : Proc) (now : Int) (ev : Ev)
    (h : ∀ g sh, ev ≠ .complete g sh) : (p.step now ev).1.finished = p.finished := by
  cases ev with
  | cmd c =>
    simp only [Proc.step]
    rcases command_cases p c now with ⟨e', h'⟩ | ⟨n, -, -, hf, -⟩
    · rw [h']
    · exact hf
  | pkt m pk =>
    simp only [Proc.step]
    rcases packet_cases p m pk now with h' | ⟨n, -, -, -, -, hf, -⟩
    · rw [h']
    · exact hf
  | complete g sh => exact (h g sh rfl).elim
  | fail =>
    simp only [Proc.step, Proc.failDKG]
    split <;> rfl

/-- a completion writes a `Complete` record carrying the new group and share to both buckets, or changes nothing -/
theorem c08_completion_whole (p : Proc) (now : Int) (g : Option GroupLite) (sh : Option Nat) :
    (p.step now (.complete g sh)).1 = p ∨
    ∃ fin, (p.step now (.complete g sh)).1.finished = some fin ∧ (p.step now (.complete g sh)).1.current = some fin ∧
      fin.state = .complete ∧ fin.finalGroup = g ∧ fin.keyShare = sh ∧ g.isSome ∧ sh.isSome ∧
      p.getCurrent.state = .executing ∧ fin.epoch = p.getCurrent.epoch := by
  simp only [Proc.step, Proc.completeDKG]
  split
  · exact .inl rfl
  · rename_i fin h
    obtain ⟨h1, h2, h3, h4, h5, h6, h7⟩ := complete_spec h
    exact .inr ⟨fin, rfl, rfl, h2, h3, h4, h5, h6, h1, h7⟩

/-- the invariant that orders the two buckets: the in-progress record is never older than the completed one, and is
strictly newer unless it *is* the completed one -/
def EpochInv (p : Proc) : Prop :=
  ∀ fin, p.finished = some fin →
    fin.state = .complete ∧
    ∃ cur, p.current = some cur ∧ fin.epoch ≤ cur.epoch ∧ (cur.state ≠ .complete → fin.epoch < cur.epoch) ∧
      (cur.state = .complete → cur = fin)

private theorem inv_of_good {p q : Proc} {n : DBState} (h : EpochInv p) (g : Good p.base n)
    (hc : q.current = some n) (hf : q.finished = p.finished) : EpochInv q := by
  intro fin hfin
  rw [hf] at hfin
  obtain ⟨hs, cur, hcur, h1, h2, h3⟩ := h fin hfin
  refine ⟨hs, n, hc, ?_⟩
  have key : fin.epoch < n.epoch := by
    have hb : p.base = if Gen.terminalStates.contains cur.state then fin else cur := by
      simp [Proc.base, Proc.getCurrent, hcur, hfin]
    by_cases ht : Gen.terminalStates.contains cur.state = true
    · rw [if_pos ht] at hb
      rw [hb] at g
      exact g.epochLt hs
    · rw [if_neg ht] at hb
      rw [hb] at g
      by_cases hcc : cur.state = .complete
      · have := g.epochLt hcc
        rw [h3 hcc] at this; exact this
      · have := h2 hcc
        have := g.epochLe
        omega
  exact ⟨by omega, fun _ => key, fun hcc => (g.notComplete hcc).elim⟩

theorem c08_epoch_inv_step (p : Proc) (now : Int) (ev : Ev) (h : EpochInv p) : EpochInv (p.step now ev).1 := by
  cases ev with
  | cmd c =>
    simp only [Proc.step]
    rcases command_cases p c now with ⟨e', h'⟩ | ⟨n, g, hc, hf, -⟩
    · rw [h']; exact h
    · exact inv_of_good h g hc hf
  | pkt m pk =>
    simp only [Proc.step]
    rcases packet_cases p m pk now with h' | ⟨n, g, -, -, hc, hf, -⟩
    · rw [h']; exact h
    · exact inv_of_good h g hc hf
  | complete g sh =>
    rcases c08_completion_whole p now g sh with h' | ⟨fin, h1, h2, h3, -⟩
    · rw [h']; exact h
    · intro fin' hfin'
      rw [h1] at hfin'; cases hfin'
      exact ⟨h3, fin, h2, Nat.le_refl _, fun hn => (hn h3).elim, fun _ => rfl⟩
  | fail =>
    simp only [Proc.step, Proc.failDKG]
    split
    · exact h
    · rename_i n hn
      intro fin hfin
      obtain ⟨hs, cur, hcur, h1, h2, h3⟩ := h fin hfin
      have g := failed_good hn
      simp only [Proc.getCurrent, hcur, Option.getD_some] at g
      refine ⟨hs, n, rfl, ?_⟩
      have key : fin.epoch < n.epoch := by
        by_cases hcc : cur.state = .complete
        · have := g.epochLt hcc
          rw [h3 hcc] at this; exact this
        · have := h2 hcc
          have := g.epochLe
          omega
      exact ⟨by omega, fun _ => key, fun hcc => (g.notComplete hcc).elim⟩

/-- for every history: the completed epoch only grows, and is replaced only by the completion of a later epoch -/
theorem c08_finished_monotone (p : Proc) (now : Int) (ev : Ev) (h : EpochInv p) (old new : DBState)
    (ho : p.finished = some old) (hn : (p.step now ev).1.finished = some new) :
    new = old ∨ old.epoch < new.epoch := by
  by_cases hev : ∀ g sh, ev ≠ .complete g sh
  · rw [c08_finished_only_by_completion p now ev hev, ho] at hn
    cases hn; exact .inl rfl
  · have : ∃ g sh, ev = .complete g sh := by
      cases ev with
      | complete g sh => exact ⟨g, sh, rfl⟩
      | _ => exact (hev (by intro g sh; simp)).elim
    obtain ⟨g, sh, rfl⟩ := this
    rcases c08_completion_whole p now g sh with h' | ⟨fin, h1, -, -, -, -, -, -, h8, h9⟩
    · rw [h', ho] at hn; cases hn; exact .inl rfl
    · rw [h1] at hn; cases hn
      obtain ⟨-, cur, hcur, -, h2, -⟩ := h old ho
      simp only [Proc.getCurrent, hcur, Option.getD_some] at h8 h9
      right; rw [h9]; exact h2 (by rw [h8]; decide)

private theorem epoch_inv_run_aux (evs : List (Int × Ev)) : ∀ p : Proc, EpochInv p → EpochInv (p.run evs) := by
  induction evs with
  | nil => intro p h; exact h
  | cons e es ih =>
    intro p h
    simp only [Proc.run, List.foldl_cons]
    exact ih _ (c08_epoch_inv_step p e.1 e.2 h)

theorem c08_epoch_inv_run (beaconID : String) (me : Participant) (evs : List (Int × Ev)) :
    EpochInv (Proc.run { beaconID, me } evs) := by
  apply epoch_inv_run_aux
  intro fin h; cases h

/-- after an aborted / timed-out / failed attempt the next proposal command is built on the last completed epoch:
it retries epoch `finished.epoch + 1` -/
theorem c08_retry_same_epoch (p : Proc) (o : ReshareOpts) (fin : DBState)
    (ht : Gen.terminalStates.contains p.getCurrent.state = true) (hf : p.finished = some fin) :
    (reshareTerms p.beaconID p.me p.base o).epoch = fin.epoch + 1 := by
  simp only [reshareTerms, Proc.base]
  rw [if_pos ht, hf]; rfl

/-! ### what ValidateProposal rejects (one lemma per clause of the property) -/

theorem c08_rejects_stale_epoch (cur : DBState) (t : Terms) (now : Int) (h : t.epoch < cur.epoch) :
    (validateProposal cur t now).toOption = none := by
  apply toOption_none_of; intro u hu
  have := (validateProposal_epoch hu).1; omega

theorem c08_rejects_same_epoch_unless_terminal (cur : DBState) (t : Terms) (now : Int) (h : t.epoch = cur.epoch)
    (hs : cur.state ≠ .aborted ∧ cur.state ≠ .timedOut ∧ cur.state ≠ .failed) :
    (validateProposal cur t now).toOption = none := by
  apply toOption_none_of; intro u hu
  rcases (validateProposal_epoch hu).2 h with a | a | a
  · exact hs.1 a
  · exact hs.2.1 a
  · exact hs.2.2 a

theorem c08_rejects_epoch_jump (cur : DBState) (t : Terms) (now : Int) (h : t.epoch > cur.epoch + 1)
    (hs : cur.state ≠ .left ∧ cur.state ≠ .fresh) : (validateProposal cur t now).toOption = none := by
  apply toOption_none_of; intro u hu
  rcases (validateEpoch_ok (validateProposal_ok hu).1.epoch).2.2 h with a | a
  · exact hs.1 a
  · exact hs.2 a

theorem c08_rejects_expired (cur : DBState) (t : Terms) (now : Int) (h : t.timeout < now) :
    (validateProposal cur t now).toOption = none := by
  apply toOption_none_of; intro u hu
  exact (validateProposal_ok hu).1.time h

theorem c08_rejects_threshold_high (cur : DBState) (t : Terms) (now : Int)
    (h : t.threshold > t.joining.length + t.remaining.length) : (validateProposal cur t now).toOption = none := by
  apply toOption_none_of; intro u hu
  exact (validateProposal_ok hu).1.thrHi h

theorem c08_rejects_threshold_low (cur : DBState) (t : Terms) (now : Int)
    (h : t.threshold < (t.joining.length + t.remaining.length) / 2 + 1) :
    (validateProposal cur t now).toOption = none := by
  apply toOption_none_of; intro u hu
  exact (validateProposal_ok hu).1.thrLo h

theorem c08_rejects_unknown_scheme (cur : DBState) (t : Terms) (now : Int) (h : Gen.schemeIDs.contains t.schemeID = false) :
    (validateProposal cur t now).toOption = none := by
  apply toOption_none_of; intro u hu
  have := (validateProposal_ok hu).1.scheme
  rw [h] at this; cases this

theorem c08_rejects_bad_joiner_signature (cur : DBState) (t : Terms) (now : Int) (j : Participant) (hj : j ∈ t.joining)
    (hb : j.selfSigOK = false) : (validateProposal cur t now).toOption = none := by
  apply toOption_none_of; intro u hu
  have := (validateProposal_ok hu).1.keys
  rw [List.all_eq_true] at this
  have := this j hj
  simp [hb] at this

/-- a member of the network (its last state is `Complete`) refuses a reshare proposal that changes the genesis time
or seed, drops one of the current members (neither remaining nor leaving), names an unknown node as remaining or
leaving, or leaves fewer remaining nodes than the current threshold -/
theorem c08_member_rejects (cur : DBState) (t : Terms) (now : Int) (g : GroupLite)
    (hs : cur.state = .complete) (hg : cur.finalGroup = some g) (he : t.epoch ≠ 1)
    (hbad : t.genesisTime ≠ cur.genesisTime ∨ t.genesisSeed ≠ cur.genesisSeed ∨
      containsAll g.nodes (t.remaining ++ t.leaving) = false ∨ containsAll (t.remaining ++ t.leaving) g.nodes = false ∨
      t.remaining.length < cur.threshold) :
    (validateProposal cur t now).toOption = none := by
  apply toOption_none_of; intro u hu
  have h := (validateProposal_ok hu).2.2 he (by rw [hs]; decide) (by rw [hs]; decide)
  obtain ⟨h1, h2, g', hg', h3, h4, h5⟩ := validateReshareForRemainers_ok h
  rw [hg] at hg'; cases hg'
  rcases hbad with b | b | b | b | b
  · exact b h1
  · exact b h2
  · rw [b] at h3; cases h3
  · rw [b] at h4; cases h4
  · exact h5 b

/-- … and one that changes the scheme or the beacon period (they identify the chain like the genesis parameters do) -/
theorem c08_member_rejects_scheme_period (cur : DBState) (t : Terms) (now : Int)
    (hs : cur.state = .complete) (he : t.epoch ≠ 1)
    (hbad : t.schemeID ≠ cur.schemeID ∨ t.periodSec ≠ cur.periodSec) :
    (validateProposal cur t now).toOption = none := by
  apply toOption_none_of; intro u hu
  have h := (validateProposal_ok hu).2.2 he (by rw [hs]; decide) (by rw [hs]; decide)
  unfold validateReshareForRemainers at h
  exc at h
  obtain ⟨_, _, hsch, hper, _⟩ := h
  simp at hsch hper
  rcases hbad with b | b
  · exact b hsch
  · exact b hper

theorem c08_first_epoch_rejects (cur : DBState) (t : Terms) (now : Int) (he : t.epoch = 1)
    (hbad : t.genesisSeed ≠ [] ∨ t.remaining ≠ [] ∨ t.leaving ≠ [] ∨ contains t.joining t.leader = false) :
    (validateProposal cur t now).toOption = none := by
  apply toOption_none_of; intro u hu
  obtain ⟨h1, h2, h3, h4⟩ := validateFirstEpoch_ok ((validateProposal_ok hu).2.1 he)
  rcases hbad with b | b | b | b
  · exact b h1
  · exact b h2
  · exact b h3
  · rw [b] at h4; cases h4

/-! ### the epoch of the in-progress record -/

/-- a node that has a completed epoch never sees its current epoch decrease -/
theorem c08_epoch_monotone_partial (p : Proc) (now : Int) (ev : Ev) (h : EpochInv p) (hf : p.finished.isSome)
    (hc : ¬ Gen.terminalStates.contains p.getCurrent.state = true) :
    p.getCurrent.epoch ≤ (p.step now ev).1.getCurrent.epoch := by
  -- (neither the invariant nor the existence of a completed record is needed for this direction)
  have _ := h; have _ := hf
  have hb : p.base = p.getCurrent := by simp only [Proc.base]; rw [if_neg hc]
  cases ev with
  | cmd c =>
    simp only [Proc.step]
    rcases command_cases p c now with ⟨e', h'⟩ | ⟨n, g, hcur, -, -⟩
    · rw [h']; exact Nat.le_refl _
    · rw [hb] at g
      simp only [Proc.getCurrent, hcur, Option.getD_some] at g ⊢; exact g.epochLe
  | pkt m pk =>
    simp only [Proc.step]
    rcases packet_cases p m pk now with h' | ⟨n, g, -, -, hcur, -, -⟩
    · rw [h']; exact Nat.le_refl _
    · rw [hb] at g
      simp only [Proc.getCurrent, hcur, Option.getD_some] at g ⊢; exact g.epochLe
  | complete g sh =>
    rcases c08_completion_whole p now g sh with h' | ⟨fin, -, h2, -, -, -, -, -, -, h9⟩
    · rw [h']; exact Nat.le_refl _
    · simp only [Proc.getCurrent, h2, Option.getD_some] at h9 ⊢; omega
  | fail =>
    simp only [Proc.step, Proc.failDKG]
    split
    · exact Nat.le_refl _
    · rename_i n hn
      exact (failed_good hn).epochLe

/-- … and for a node that has LEFT the network (state Left at epoch E — not one of the terminal states, so no fallback to the
last completed record): the exemption "a leftover state may skip epochs" is one-directional. A proposal that changes its
record has an epoch strictly above E, whoever sends it and whatever role it gives the node. (Finding 14 below is about the
terminal-state fallback of a node WITHOUT a completed epoch; this is the other case.) -/
theorem c08_left_epoch_increases (p : Proc) (now : Int) (m : Meta) (t : Terms) (hl : p.getCurrent.state = .left)
    (hch : (p.packet m (.proposal t) now).1 ≠ p) :
    p.getCurrent.epoch < (p.packet m (.proposal t) now).1.getCurrent.epoch := by
  have hc : ¬ Gen.terminalStates.contains p.getCurrent.state = true := by rw [hl]; decide
  have hb : p.base = p.getCurrent := by simp only [Proc.base]; rw [if_neg hc]
  rcases packet_cases p m (.proposal t) now with h' | ⟨n, -, ha, -, hcur, -, -⟩
  · exact absurd h' hch
  · simp only [applyPacket] at ha
    rw [hb] at ha
    unfold DBState.proposed at ha
    exc at ha
    obtain ⟨-, -, _, hv, -, rfl⟩ := ha
    obtain ⟨h1, h2⟩ := validateProposal_epoch hv
    simp only [Proc.getCurrent, hcur, Option.getD_some, stateFromTerms]
    have hne : t.epoch ≠ (p.current.getD (newFreshState p.beaconID)).epoch := by
      intro he
      have hs : p.getCurrent.state = .aborted ∨ p.getCurrent.state = .timedOut ∨ p.getCurrent.state = .failed := h2 he
      rw [hl] at hs
      rcases hs with a | a | a <;> cases a
    have h1' : (p.current.getD (newFreshState p.beaconID)).epoch ≤ t.epoch := h1
    omega

def leftWitnessL : Participant := { addr := "l", key := [2], sig := List.replicate 96 2, scheme := "pedersen-bls-chained" }
def leftWitnessMe : Participant := { addr := "x", key := [1], sig := List.replicate 96 1, scheme := "pedersen-bls-chained" }
def leftWitnessState : DBState :=
  { beaconID := "default", epoch := 5, state := .left, threshold := 1, timeout := 100, schemeID := "pedersen-bls-chained",
    genesisTime := 5, genesisSeed := [9], leader := some leftWitnessL, remaining := [leftWitnessL], leaving := [leftWitnessMe] }
def leftWitnessTerms (e : Nat) : Terms :=
  { beaconID := "default", epoch := e, threshold := 2, timeout := 100, schemeID := "pedersen-bls-chained", genesisTime := 5,
    genesisSeed := [9], catchupSec := 1, periodSec := 3, leader := leftWitnessL, joining := [leftWitnessMe],
    remaining := [leftWitnessL], leaving := [] }
def leftWitnessSig (e : Nat) : Meta :=
  { beaconID := "default", addr := "l", sigId := "0011223344", sigKey := leftWitnessL.key,
    sigMsg := messageForSigning "default" (.proposal (leftWitnessTerms e)) (leftWitnessTerms e) }

/-- non-vacuity: a node in Left at epoch 5 takes the epoch-6 proposal (and, by the theorem, nothing at or below 5) -/
example :
    let p : Proc := { beaconID := "default", me := leftWitnessMe, current := some leftWitnessState }
    ((p.packet (leftWitnessSig 6) (.proposal (leftWitnessTerms 6)) 0).1.getCurrent.epoch = 6) ∧
    ((p.packet (leftWitnessSig 3) (.proposal (leftWitnessTerms 3)) 0).1.getCurrent.epoch = 5) ∧
    ((p.packet (leftWitnessSig 5) (.proposal (leftWitnessTerms 5)) 0).1.getCurrent.epoch = 5) := by
  decide +kernel

/-
The unrestricted statement "current.epoch never decreases" does NOT hold for the code as it is: a node without any
completed epoch (a joiner) that received an epoch-7 proposal which the leader then aborted falls back to the Fresh
state and accepts an epoch-3 proposal afterwards. Witness below (kernel-checked); it is replayed on the real
dkg.Process by the check (known finding "fresh-joiner-epoch-decreases").
-/
def joinerWitnessP : Participant := { addr := "j", key := [1], sig := List.replicate 96 1, scheme := "pedersen-bls-chained" }
def joinerWitnessL : Participant := { addr := "l", key := [2], sig := List.replicate 96 2, scheme := "pedersen-bls-chained" }
def joinerTerms (epoch : Nat) : Terms :=
  { beaconID := "default", epoch, threshold := 2, timeout := 100, schemeID := "pedersen-bls-chained", genesisTime := 5,
    genesisSeed := [9], catchupSec := 1, periodSec := 3, leader := joinerWitnessL, joining := [joinerWitnessP],
    remaining := [joinerWitnessL], leaving := [] }
def signedBy (k : Participant) (pk : Packet) (t : Terms) : Meta :=
  { beaconID := "default", addr := k.addr, sigId := "0011223344", sigKey := k.key, sigMsg := messageForSigning "default" pk t }

theorem c08_epoch_counterexample :
    let p0 : Proc := { beaconID := "default", me := joinerWitnessP }
    let p1 := (p0.step 0 (.pkt (signedBy joinerWitnessL (.proposal (joinerTerms 7)) (joinerTerms 7)) (.proposal (joinerTerms 7)))).1
    let p2 := (p1.step 0 (.pkt (signedBy joinerWitnessL (.abort "none") (joinerTerms 7)) (.abort "none"))).1
    let p3 := (p2.step 0 (.pkt (signedBy joinerWitnessL (.proposal (joinerTerms 3)) (joinerTerms 3)) (.proposal (joinerTerms 3)))).1
    p1.getCurrent.epoch = 7 ∧ p2.getCurrent.state = .aborted ∧ p3.getCurrent.epoch = 3 := by
  decide +kernel

end Drand.DKG
