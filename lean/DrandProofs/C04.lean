/-
C04 — unpredictability: an honest node never releases a partial signature for round r while its own clock is
earlier than the scheduled time of round r; it refuses partials more than one round ahead of its clock.

Model: Drand/Beacon/Handler.lean (the decisions are the regenerated Gen.Handler definitions).
Time: Drand/Time.lean with the C16 theorems.

The full statement

    c04_no_early_emit : ∀ trace allowed by ticker.go and the clock, ∀ Emit r clk in its output, timeOf r ≤ clk

holds for the corrected variant (`skipAhead = true`) and NOT for the code as it is: on a tick the code signs
`head+1` whenever `head ≠ tick round`, also when the stored head is already ahead of the tick's round
(a tick processed late, or a head moved by sync). For the as-is variant the file proves
`c04_no_early_emit_partial` under the hypothesis the proof forces (`head ≤ tick round` at every tick) and
`c04_counterexample` (replayed on the real Handler by the check: corpus/C04).
-/
import Drand.Beacon.Handler
import DrandProofs.C16

namespace Drand.Beacon.Handler
open Drand.Time

/-! ### ties to the regenerated source facts -/

theorem tie_bnp_round : Gen.Handler.bnpRound = fun _ u => u + 1 := rfl
theorem tie_bnp_resign : Gen.Handler.bnpResign = fun c u => decide (c = u) := rfl
theorem tie_bnp_resign_round : Gen.Handler.bnpResignRound = fun c _ => c := rfl
theorem tie_bnp_order : Gen.Handler.bnpOrder =
    ["define", "resign-if", "digest(round)", "sign", "packet(round)", "own-partial", "send"] := rfl
theorem tie_tick_branch : Gen.Handler.tickBroadcast = "h.broadcastNextPartial(ctx,current,lastBeacon)" ∧
    Gen.Handler.tickSyncCall = "h.chain.RunSync(ctx,current.round,nil)" ∧
    Gen.Handler.tickSyncGuard = fun l c => decide (l + 1 < c) := ⟨rfl, rfl, rfl⟩
theorem tie_catchup_branch : Gen.Handler.catchupGuard = (fun b c => decide (b < c)) ∧
    Gen.Handler.catchupCaptured = ["current", "*b"] ∧
    Gen.Handler.catchupParams = ["c roundInfo", "latest common.Beacon"] ∧
    Gen.Handler.catchupSeq = ["sleep(CatchupPeriod)", "h.broadcastNextPartial(ctx,c,&latest)"] := ⟨rfl, rfl, rfl, rfl⟩
theorem tie_process_partial : Gen.Handler.ppFuture = (fun p n => decide (p > n)) ∧
    Gen.Handler.ppPast = (fun p l => decide (p ≤ l)) ∧
    Gen.Handler.ppGuards = ["future", "past", "index-err", "index-neg", "not-in-group", "own-address", "verify",
      "own-index", "NewValidPartial"] := ⟨rfl, rfl, rfl⟩
theorem tie_ticker : Gen.Handler.tickRoundSrc = ["common.CurrentRound(nt.Unix(),t.period,t.genesis)"] ∧
    Gen.Handler.tickTimeSrc = ["nt.Unix()"] ∧ Gen.Handler.tickSkip = ["chinfo.startAt>ttime"] ∧
    Gen.Handler.tickFirst = ["_,ttime:=common.NextRound(now,t.period,t.genesis)",
      "if ttime>now{t.clock.Sleep(t.clock.Until(time.Unix(ttime,0)));}", "chanTime<-t.clock.Now()",
      "ticker:=t.clock.NewTicker(t.period)"] := ⟨rfl, rfl, rfl, rfl⟩

/-! ### time facts (from C16) -/

private theorem roundAt_closed (cfg : Cfg) (now : Int) (h : cfg.genesis ≤ now) :
    roundAt cfg now = (now - cfg.genesis).toNat / cfg.period + 1 := by
  simp only [roundAt, show ¬ now < cfg.genesis by omega, if_false, currentRoundZ, nextRoundZ]
  generalize (now - cfg.genesis).toNat / cfg.period = q
  split <;> omega

private theorem roundAt_mono (cfg : Cfg) (a b : Int) (h : a ≤ b) : roundAt cfg a ≤ roundAt cfg b := by
  by_cases ha : a < cfg.genesis
  · simp [roundAt, ha]
  · rw [roundAt_closed cfg a (by omega), roundAt_closed cfg b (by omega)]
    have : (a - cfg.genesis).toNat ≤ (b - cfg.genesis).toNat := by omega
    have := Nat.div_le_div_right (c := cfg.period) this
    omega

/-- a round that is not ahead of the clock's round has its scheduled time behind the clock -/
theorem c04_time_of_round_le (cfg : Cfg) (hp : 1 ≤ cfg.period) (now : Int) (r : Nat)
    (h1 : 1 ≤ r) (h : r ≤ roundAt cfg now) : timeOf cfg r ≤ now := by
  have hg : cfg.genesis ≤ now := by
    by_cases hlt : now < cfg.genesis
    · simp [roundAt, hlt] at h; omega
    · omega
  have hR : roundAt cfg now = currentRoundZ now cfg.period cfg.genesis := by
    simp [roundAt, show ¬ now < cfg.genesis by omega]
  obtain ⟨_, hle, _, _⟩ := c16_current_unique now cfg.period cfg.genesis hp hg
  rw [hR] at h
  unfold timeOf
  rcases Nat.lt_or_ge r (currentRoundZ now cfg.period cfg.genesis) with hlt | hge
  · have := c16_strict_mono cfg.period cfg.genesis r _ hp h1 hlt
    omega
  · have : r = currentRoundZ now cfg.period cfg.genesis := by omega
    rw [this]; exact hle

/-- `common.NextRound(now).round` is the clock's round + 1, before and after genesis -/
theorem c04_next_round (cfg : Cfg) (now : Int) : nextRound cfg now = roundAt cfg now + 1 := by
  unfold nextRound roundAt
  by_cases h : now < cfg.genesis
  · simp [h, (c16_next_before_genesis now cfg.period cfg.genesis h).1]
  · simp only [h, if_false]
    exact (c16_next now cfg.period cfg.genesis (by omega)).1

/-! ### the invariant of the run loop -/

/-- the run loop's `current` and every sleeping catch-up goroutine's captured tick are not ahead of the
clock, and a catch-up goroutine was launched only for a beacon behind its captured tick -/
def Inv (cfg : Cfg) (s : St) : Prop :=
  s.current.round ≤ roundAt cfg s.clock ∧
  ∀ sl ∈ s.sleepers, sl.latest < sl.c.round ∧ sl.c.round ≤ roundAt cfg s.clock

theorem c04_inv_init (cfg : Cfg) (clock : Int) (head : Nat) : Inv cfg (init clock head) := by
  simp [Inv, init]

theorem c04_inv_step (cfg : Cfg) (s : St) (e : Ev) (hi : Inv cfg s) (hok : evOk cfg s e = true) :
    Inv cfg (step cfg s e).1 := by
  obtain ⟨hc, hs⟩ := hi
  cases e with
  | tick info =>
    simp only [evOk, Bool.and_eq_true, decide_eq_true_eq] at hok
    exact ⟨hok.2, hs⟩
  | appended b =>
    simp only [step]
    split
    · rename_i hg
      refine ⟨hc, ?_⟩
      intro sl hsl
      simp only [List.mem_append, List.mem_singleton] at hsl
      rcases hsl with h | h
      · exact hs sl h
      · subst h
        simp only [Gen.Handler.catchupGuard, decide_eq_true_eq] at hg
        exact ⟨hg, hc⟩
    · exact ⟨hc, hs⟩
  | catchupFire i =>
    simp only [step]
    split
    · exact ⟨hc, hs⟩
    · have hsub : ∀ sl ∈ s.sleepers.eraseIdx i, sl ∈ s.sleepers := fun sl h => List.mem_of_mem_eraseIdx h
      split <;> exact ⟨hc, fun sl h => hs sl (hsub sl h)⟩
  | clockAdvance d =>
    have hm := roundAt_mono cfg s.clock (s.clock + d) (by omega)
    exact ⟨Nat.le_trans hc hm, fun sl h => ⟨(hs sl h).1, Nat.le_trans (hs sl h).2 hm⟩⟩
  | storeAdvance h =>
    simp only [step]
    split <;> exact ⟨hc, hs⟩
  | aggregated =>
    simp only [step]
    split <;> exact ⟨hc, hs⟩
  | partialIn p =>
    simp only [step]
    split <;> exact ⟨hc, hs⟩

/-! ### rule-level theorems -/

/-- Every emission is produced by one of the two rules of the code: on a tick, `tick round` if the stored
head is that round, else `head + 1` (corrected variant: only when the head is not ahead of the tick); or by a
catch-up goroutine, `latest + 1` for a beacon strictly behind the tick it captured. It is stamped with the
clock of that moment. -/
theorem c04_emit_rule (cfg : Cfg) (s : St) (hi : Inv cfg s) (e : Ev) (r : Nat) (clk : Int)
    (h : Out.emit r clk ∈ (step cfg s e).2) :
    clk = s.clock ∧
    ((∃ info, e = .tick info ∧ (cfg.skipAhead = true → s.head ≤ info.round) ∧
        r = if info.round = s.head then info.round else s.head + 1) ∨
     (∃ i sl, e = .catchupFire i ∧ s.sleepers[i]? = some sl ∧ sl.latest < sl.c.round ∧ r = sl.latest + 1)) := by
  cases e with
  | tick info =>
    simp only [step, List.mem_append] at h
    rcases h with h | h
    · cases hb : broadcastRound cfg info s.head with
      | none => simp [hb] at h
      | some r' =>
        simp only [hb, List.mem_singleton, Out.emit.injEq] at h
        obtain ⟨rfl, rfl⟩ := h
        refine ⟨rfl, Or.inl ⟨info, rfl, ?_, ?_⟩⟩
        · intro hf
          simp only [broadcastRound, hf, Bool.true_and] at hb
          by_cases hgt : s.head > info.round
          · simp [hgt] at hb
          · omega
        · simp only [broadcastRound, Gen.Handler.bnpResign, Gen.Handler.bnpResignRound, Gen.Handler.bnpRound] at hb
          split at hb
          · simp at hb
          · by_cases heq : info.round = s.head
            · simp [heq] at hb ⊢; omega
            · simp [heq] at hb ⊢; omega
    · split at h <;> simp at h
  | catchupFire i =>
    simp only [step] at h
    cases hsl : s.sleepers[i]? with
    | none => simp [hsl] at h
    | some sl =>
      simp only [hsl] at h
      have hmem : sl ∈ s.sleepers := List.mem_of_getElem? hsl
      have hlt := (hi.2 sl hmem).1
      cases hb : broadcastRound cfg sl.c sl.latest with
      | none => simp [hb] at h
      | some r' =>
        simp only [hb, List.mem_singleton, Out.emit.injEq] at h
        obtain ⟨rfl, rfl⟩ := h
        refine ⟨rfl, Or.inr ⟨i, sl, rfl, hsl, hlt, ?_⟩⟩
        simp only [broadcastRound, Gen.Handler.bnpResign, Gen.Handler.bnpResignRound, Gen.Handler.bnpRound] at hb
        split at hb
        · simp at hb
        · have : ¬ sl.c.round = sl.latest := by omega
          simp [this] at hb; omega
  | appended b => simp only [step] at h; split at h <;> simp at h
  | clockAdvance d => simp [step] at h
  | storeAdvance x => simp [step] at h
  | aggregated => simp [step] at h
  | partialIn p => simp [step] at h

/-- catch-up mode never signs ahead of the clock, in either variant: the emitted round is at most the round
of the tick the goroutine captured, which was not ahead of the clock when captured (and the clock only moves
forward). -/
theorem c04_catchup_safe (cfg : Cfg) (hp : 1 ≤ cfg.period) (s : St) (hi : Inv cfg s) (i r : Nat) (clk : Int)
    (h : Out.emit r clk ∈ (step cfg s (.catchupFire i)).2) :
    ∃ sl, s.sleepers[i]? = some sl ∧ r = sl.latest + 1 ∧ r ≤ sl.c.round ∧
      sl.c.round ≤ roundAt cfg s.clock ∧ clk = s.clock ∧ timeOf cfg r ≤ clk := by
  obtain ⟨hclk, hr⟩ := c04_emit_rule cfg s hi _ r clk h
  rcases hr with ⟨info, he, _⟩ | ⟨j, sl, he, hsl, hlt, hreq⟩
  · cases he
  · cases he
    have hmem : sl ∈ s.sleepers := List.mem_of_getElem? hsl
    have hle := (hi.2 sl hmem).2
    refine ⟨sl, hsl, hreq, by omega, hle, hclk, ?_⟩
    rw [hclk]
    exact c04_time_of_round_le cfg hp s.clock r (by omega) (by omega)

/-- a tick processed while the stored head is not ahead of the tick's round is safe (as-is code) -/
theorem c04_tick_safe_partial (cfg : Cfg) (hp : 1 ≤ cfg.period) (s : St) (info : RoundInfo)
    (hok : evOk cfg s (.tick info) = true) (hlevel : s.head ≤ info.round) (r : Nat) (clk : Int)
    (h : Out.emit r clk ∈ (step cfg s (.tick info)).2) :
    1 ≤ r ∧ r ≤ info.round ∧ info.round ≤ roundAt cfg s.clock ∧ clk = s.clock ∧ timeOf cfg r ≤ clk := by
  simp only [evOk, Bool.and_eq_true, decide_eq_true_eq] at hok
  have hr : clk = s.clock ∧ r = if info.round = s.head then info.round else s.head + 1 := by
    simp only [step, List.mem_append] at h
    rcases h with h | h
    · cases hb : broadcastRound cfg info s.head with
      | none => simp [hb] at h
      | some r' =>
        simp only [hb, List.mem_singleton, Out.emit.injEq] at h
        obtain ⟨rfl, rfl⟩ := h
        refine ⟨rfl, ?_⟩
        simp only [broadcastRound, Gen.Handler.bnpResign, Gen.Handler.bnpResignRound, Gen.Handler.bnpRound] at hb
        split at hb
        · simp at hb
        · by_cases heq : info.round = s.head
          · simp [heq] at hb ⊢; omega
          · simp [heq] at hb ⊢; omega
    · split at h <;> simp at h
  obtain ⟨hclk, hreq⟩ := hr
  have h1 : 1 ≤ r ∧ r ≤ info.round := by
    rw [hreq]; split <;> omega
  refine ⟨h1.1, h1.2, hok.2, hclk, ?_⟩
  rw [hclk]
  exact c04_time_of_round_le cfg hp s.clock r h1.1 (by omega)

/-- `ProcessPartialBeacon` hands a partial to the aggregator only if its round is at most one ahead of the
node's clock and above the stored head -/
theorem c04_accept_window (cfg : Cfg) (clock : Int) (head : Nat) (p : PartialLbl)
    (h : processPartial cfg clock head p = .accepted) :
    p.round ≤ roundAt cfg clock + 1 ∧ head < p.round ∧ p.sigOk = true ∧ p.inGroup = true ∧ p.ownAddr = false := by
  unfold processPartial at h
  simp only [Gen.Handler.ppFuture, Gen.Handler.ppPast, c04_next_round] at h
  by_cases h1 : p.round > roundAt cfg clock + 1
  · simp [h1] at h
  by_cases h2 : p.round ≤ head
  · simp [h1, h2] at h
  cases h3 : p.idxErr <;> cases h4 : p.idxNeg <;> cases h5 : p.inGroup <;> cases h6 : p.ownAddr <;>
    cases h7 : p.sigOk <;> cases h8 : p.ownIdx <;> simp [h1, h2, h3, h4, h5, h6, h7, h8] at h ⊢
  omega

/-- … and a partial two or more rounds ahead of the clock is refused before anything else is looked at -/
theorem c04_refuse_beyond_window (cfg : Cfg) (clock : Int) (head : Nat) (p : PartialLbl)
    (h : roundAt cfg clock + 2 ≤ p.round) : processPartial cfg clock head p = .future := by
  unfold processPartial
  simp only [Gen.Handler.ppFuture, c04_next_round]
  have : p.round > roundAt cfg clock + 1 := by omega
  simp [this]

/-! ### whole runs -/

private theorem mem_run_split (cfg : Cfg) (s : St) (e : Ev) (es : List Ev) (o : Out) :
    o ∈ run cfg s (e :: es) ↔ o ∈ (step cfg s e).2 ∨ o ∈ run cfg (step cfg s e).1 es := by
  simp [run, List.mem_append]

/-- Full statement, corrected variant (`skipAhead = true`): along every trace that ticker.go and a
forward-moving clock allow — any interleaving of ticks (fresh or stale), appended-beacon notifications,
catch-up wake-ups, clock advances of any size, head movements by sync or aggregation, incoming partials —
from any stored head and any clock (restart included), every partial the node emits for round r is emitted
when its own clock has reached the scheduled time of round r. -/
theorem c04_no_early_emit (cfg : Cfg) (hfix : cfg.skipAhead = true) (hp : 1 ≤ cfg.period)
    (s0 : St) (hi : Inv cfg s0) (evs : List Ev) (hok : traceOk cfg s0 evs = true)
    (r : Nat) (clk : Int) (h : Out.emit r clk ∈ run cfg s0 evs) :
    1 ≤ r ∧ timeOf cfg r ≤ clk := by
  induction evs generalizing s0 with
  | nil => simp [run] at h
  | cons e es ih =>
    simp only [traceOk, Bool.and_eq_true] at hok
    rw [mem_run_split] at h
    rcases h with h | h
    · obtain ⟨hclk, hr⟩ := c04_emit_rule cfg s0 hi e r clk h
      rcases hr with ⟨info, he, hlev, hreq⟩ | ⟨i, sl, he, hsl, hlt, hreq⟩
      · subst he
        have := c04_tick_safe_partial cfg hp s0 info hok.1 (hlev hfix) r clk h
        exact ⟨this.1, this.2.2.2.2⟩
      · subst he
        obtain ⟨_, _, _, _, _, _, ht⟩ := c04_catchup_safe cfg hp s0 hi i r clk h
        exact ⟨by omega, ht⟩
    · exact ih _ (c04_inv_step cfg s0 e hi hok.1) hok.2 h

/-- the configuration of the code as regenerated: the variant switch is the regenerated fact "there is a
`if upon.Round > current.round { return }` guard before anything is signed" -/
def codeCfg (period : Nat) (genesis : Int) (catchup : Nat) : Cfg := ⟨period, genesis, catchup, Gen.Handler.bnpSkipAhead⟩

/-- the day the source carries the guard, the full statement holds for the code's own configuration -/
theorem c04_code_no_early_emit (hsrc : Gen.Handler.bnpSkipAhead = true) (period : Nat) (genesis : Int) (catchup : Nat)
    (hp : 1 ≤ period) (s0 : St) (hi : Inv (codeCfg period genesis catchup) s0) (evs : List Ev)
    (hok : traceOk (codeCfg period genesis catchup) s0 evs = true)
    (r : Nat) (clk : Int) (h : Out.emit r clk ∈ run (codeCfg period genesis catchup) s0 evs) :
    1 ≤ r ∧ timeOf (codeCfg period genesis catchup) r ≤ clk :=
  c04_no_early_emit (codeCfg period genesis catchup) hsrc hp s0 hi evs hok r clk h

/-- The code as it is (any variant): the same conclusion under the hypothesis the proof forces — whenever a
tick is processed the stored head is not ahead of the tick's round. -/
theorem c04_no_early_emit_partial (cfg : Cfg) (hp : 1 ≤ cfg.period)
    (s0 : St) (hi : Inv cfg s0) (evs : List Ev) (hok : traceOk cfg s0 evs = true)
    (hlevel : ticksLevel cfg s0 evs = true)
    (r : Nat) (clk : Int) (h : Out.emit r clk ∈ run cfg s0 evs) :
    1 ≤ r ∧ timeOf cfg r ≤ clk := by
  induction evs generalizing s0 with
  | nil => simp [run] at h
  | cons e es ih =>
    simp only [traceOk, Bool.and_eq_true] at hok
    simp only [ticksLevel, Bool.and_eq_true] at hlevel
    rw [mem_run_split] at h
    rcases h with h | h
    · obtain ⟨hclk, hr⟩ := c04_emit_rule cfg s0 hi e r clk h
      rcases hr with ⟨info, he, _, hreq⟩ | ⟨i, sl, he, hsl, hlt, hreq⟩
      · subst he
        have hl : s0.head ≤ info.round := by simpa using hlevel.1
        have := c04_tick_safe_partial cfg hp s0 info hok.1 hl r clk h
        exact ⟨this.1, this.2.2.2.2⟩
      · subst he
        obtain ⟨_, _, _, _, _, _, ht⟩ := c04_catchup_safe cfg hp s0 hi i r clk h
        exact ⟨by omega, ht⟩
    · exact ih _ (c04_inv_step cfg s0 e hi hok.1) hok.2 hlevel.2 h

/-- the as-is configuration of the witness: period 10 s, genesis 0, catch-up 2 s -/
def cexCfg : Cfg := ⟨10, 0, 2, false⟩
/-- the witness: the node sits at genesis with head 0; sync stores rounds 1..3; the clock reaches round 2's
time; the tick of round 2 is processed: the code signs round 4, whose time is 30, at time 10. -/
def cexTrace : List Ev := [.storeAdvance 3, .clockAdvance 10, .tick ⟨2, 10⟩]

/-- The full statement fails for the code as it is: a 3-event trace that ticker.go and the clock allow, on
which the node emits a partial for round 4 twenty seconds (two rounds) before its time. -/
theorem c04_counterexample :
    traceOk cexCfg (init 0 0) cexTrace = true ∧
    run cexCfg (init 0 0) cexTrace = [.emit 4 10] ∧
    (10 : Int) < timeOf cexCfg 4 ∧ roundAt cexCfg 10 = 2 := by
  decide

/-- the same witness is harmless in the corrected variant: nothing is signed on that tick -/
theorem c04_counterexample_fixed :
    run { cexCfg with skipAhead := true } (init 0 0) cexTrace = [] := by
  decide

/-! ### what fewer than a threshold of fast or misbehaving members can do -/

private def HeadInv (cfg : Cfg) (s : St) : Prop :=
  s.head ≤ roundAt cfg s.clock + 1 ∧ ∀ r ∈ s.seen, r ≤ roundAt cfg s.clock + 1

private theorem setHead_seen (s : St) (h : Nat) : ∀ r ∈ (s.setHead h).seen, r ∈ s.seen := by
  intro r hr
  simp only [St.setHead, List.mem_filter] at hr
  exact hr.1

private theorem headInv_step (cfg : Cfg) (s : St) (e : Ev) (hns : noSync [e] = true) (hi : HeadInv cfg s) :
    HeadInv cfg (step cfg s e).1 := by
  obtain ⟨hh, hs⟩ := hi
  cases e with
  | tick info => exact ⟨hh, hs⟩
  | appended b => simp only [step]; split <;> exact ⟨hh, hs⟩
  | catchupFire i =>
    simp only [step]
    split
    · exact ⟨hh, hs⟩
    · split <;> exact ⟨hh, hs⟩
  | clockAdvance d =>
    have hm := roundAt_mono cfg s.clock (s.clock + d) (by omega)
    exact ⟨by simp only [step]; omega, fun r hr => by simp only [step]; have := hs r hr; omega⟩
  | storeAdvance h => simp [noSync] at hns
  | aggregated =>
    simp only [step]
    split
    · rename_i hm
      refine ⟨?_, fun r hr => hs r (setHead_seen s _ r hr)⟩
      simpa [St.setHead] using hs _ hm
    · exact ⟨hh, hs⟩
  | partialIn p =>
    simp only [step]
    split
    · rename_i hacc
      have := (c04_accept_window cfg s.clock s.head p hacc).1
      refine ⟨hh, ?_⟩
      intro r hr
      simp only [List.mem_cons] at hr
      rcases hr with rfl | hr
      · exact this
      · exact hs r hr
    · exact ⟨hh, hs⟩

private theorem noSync_cons (e : Ev) (es : List Ev) (h : noSync (e :: es) = true) :
    noSync [e] = true ∧ noSync es = true := by
  cases e <;> simp_all [noSync]

private theorem runSt_clock_head (cfg : Cfg) (s : St) (evs : List Ev) (hns : noSync evs = true)
    (hi : HeadInv cfg s) : HeadInv cfg (runSt cfg s evs) := by
  induction evs generalizing s with
  | nil => exact hi
  | cons e es ih =>
    obtain ⟨h1, h2⟩ := noSync_cons e es hns
    exact ih _ h2 (headInv_step cfg s e h1 hi)

/-- Without the sync path, the stored head of a node is never more than one round ahead of its own clock:
a round is aggregated only if a foreign partial for it was admitted (threshold ≥ 2; the node's own partial
is never enough), and `ProcessPartialBeacon` admits nothing beyond clock round + 1. So fewer than a
threshold of fast-clocked or misbehaving members cannot make a node store (and serve) a round two or more
periods early — whatever they send. -/
theorem c04_head_bound (cfg : Cfg) (clock : Int) (head : Nat) (hh : head ≤ roundAt cfg clock + 1)
    (evs : List Ev) (hns : noSync evs = true) :
    (runSt cfg (init clock head) evs).head ≤ roundAt cfg (runSt cfg (init clock head) evs).clock + 1 :=
  (runSt_clock_head cfg (init clock head) evs hns ⟨hh, by simp [init]⟩).1

/-- the ticks produced by ticker.go satisfy the model's side condition: a tick computed from a clock value
`t` at or after genesis and processed when the clock is at `now ≥ t` carries a round in 1..roundAt now -/
theorem c04_ticker_sound (cfg : Cfg) (s : St) (t : Int) (hg : cfg.genesis ≤ t) (hle : t ≤ s.clock) :
    evOk cfg s (.tick ⟨currentRoundZ t cfg.period cfg.genesis, t⟩) = true := by
  have h1 : roundAt cfg t = currentRoundZ t cfg.period cfg.genesis := by
    simp [roundAt, show ¬ t < cfg.genesis by omega]
  have h2 := roundAt_mono cfg t s.clock hle
  have h3 : 1 ≤ roundAt cfg t := by rw [roundAt_closed cfg t hg]; exact Nat.le_add_left 1 _
  simp only [evOk, Bool.and_eq_true, decide_eq_true_eq]
  omega

/-! ### non-vacuity -/

-- normal ticking: head 4, tick of round 5 at its time: signs round 5
example : run cexCfg (init 40 4) [.tick ⟨5, 40⟩] = [.emit 5 40] ∧ traceOk cexCfg (init 40 4) [.tick ⟨5, 40⟩] = true
    ∧ ticksLevel cexCfg (init 40 4) [.tick ⟨5, 40⟩] = true := by decide
-- the beacon of the current round is already stored: re-sign it
example : run cexCfg (init 40 5) [.tick ⟨5, 40⟩] = [.emit 5 40] := by decide
-- stall: head 1 at round 5: sign round 2 and ask for a sync; the aggregated beacon 2 launches catch-up,
-- which after its sleep signs round 3
example : run cexCfg (init 40 1) [.tick ⟨5, 40⟩, .appended 2, .clockAdvance 2, .catchupFire 0]
    = [.emit 2 40, .sync 5, .sleeping 2 42, .emit 3 42] := by decide
example : traceOk cexCfg (init 40 1) [.tick ⟨5, 40⟩, .appended 2, .clockAdvance 2, .catchupFire 0] = true := by decide
-- a beacon of the current round does not launch catch-up
example : run cexCfg (init 40 4) [.tick ⟨5, 40⟩, .appended 5] = [.emit 5 40] := by decide
-- acceptance window at clock 40 (round 5): 6 admitted, 7 refused, 3 (≤ head 4) ignored
example : processPartial cexCfg 40 4 { round := 6 } = .accepted ∧ processPartial cexCfg 40 4 { round := 7 } = .future
    ∧ processPartial cexCfg 40 4 { round := 3 } = .past ∧ processPartial cexCfg (-1) 0 { round := 1 } = .accepted
    ∧ processPartial cexCfg (-1) 0 { round := 2 } = .future := by decide
-- Inv is satisfiable with a sleeper, and the hypotheses of c04_no_early_emit hold on a run with emissions
example : Inv cexCfg ⟨42, 2, ⟨5, 40⟩, [⟨⟨5, 40⟩, 2, 42⟩], []⟩ := by
  refine ⟨by decide, ?_⟩
  intro sl h
  simp only [List.mem_singleton] at h
  subst h
  decide
example : run { cexCfg with skipAhead := true } (init 40 1) [.tick ⟨5, 40⟩, .appended 2, .clockAdvance 2, .catchupFire 0]
    = [.emit 2 40, .sync 5, .sleeping 2 42, .emit 3 42] := by decide
-- head bound: two admitted foreign partials for round 6 at round 5, aggregation stores 6 = clock round + 1
example : (runSt cexCfg (init 40 5) [.partialIn { round := 6 }, .aggregated]).head = 6 ∧
    noSync [.partialIn { round := 6 }, .aggregated] = true := by decide

end Drand.Beacon.Handler
