/-
C12 (part b) and C03 (distinctness): the partial-signature cache of internal/chain/beacon/cache.go.
Model: Drand/Beacon/Cache.lean. All statements are for every sequence of Append / FlushRounds operations.
-/
import Drand.Beacon.Cache
import Gen.CacheRules

namespace Drand.Beacon
open Drand

inductive COp where
  | append (p : Partial)
  | flush (round : Nat)

def Cache.apply (c : Cache) : COp → Cache
  | .append p => (c.append p).1
  | .flush r => c.flush r

/-- the cache machine from the empty cache; `replace` is the variant (what `roundCache.append` does on a cached index) -/
def Cache.run (sigLen : Nat) (ops : List COp) (replace : Bool := false) : Cache := ops.foldl Cache.apply (Cache.empty sigLen replace)

def keysNodup {κ ν : Type} (l : List (κ × ν)) : Prop := (l.map (·.1)).Nodup

/-- the partial signature cached for signer `idx` in round cache `id`, if any -/
def Cache.sigOf (c : Cache) (id : RId) (idx : Nat) : Option Bytes :=
  match aget id c.rounds with
  | some r => aget idx r.sigs
  | none => none

/-- bookkeeping consistency: the per-signer list `rcvd[idx]` names exactly the round caches that hold a partial of
`idx`, without repetition, and is never longer than the quota; no round cache is empty -/
structure CacheInv (c : Cache) : Prop where
  roundsNodup : keysNodup c.rounds
  rcvdNodup : keysNodup c.rcvd
  sigsNodup : ∀ id r, aget id c.rounds = some r → keysNodup r.sigs
  idOk : ∀ id r, aget id c.rounds = some r → (r.round, r.prev) = id
  listNodup : ∀ idx, (c.rcvdOf idx).Nodup
  listed : ∀ idx id, id ∈ c.rcvdOf idx ↔ (c.sigOf id idx).isSome
  bound : ∀ idx, (c.rcvdOf idx).length ≤ maxPartials
  /-- added (needed for `c12_rounds_listed`): every round cache holds at least one partial -/
  nonEmpty : ∀ id r, aget id c.rounds = some r → r.sigs ≠ []

/-! ### association lists -/

section assoc
variable {κ ν : Type} [DecidableEq κ]

private theorem aget_aset (k k' : κ) (v : ν) (l : List (κ × ν)) :
    aget k' (aset k v l) = if k' = k then some v else aget k' l := by
  induction l with
  | nil => simp [aset, aget]
  | cons h t ih =>
    obtain ⟨a, b⟩ := h
    simp only [aset]
    split <;> simp only [aget] <;> grind

private theorem aget_adel (k k' : κ) (l : List (κ × ν)) :
    aget k' (adel k l) = if k' = k then none else aget k' l := by
  induction l with
  | nil => simp [adel, aget]
  | cons h t ih =>
    obtain ⟨a, b⟩ := h
    simp only [adel]
    split <;> simp only [aget] <;> grind

private theorem aget_eq_none_iff (k : κ) (l : List (κ × ν)) :
    aget k l = none ↔ k ∉ l.map (·.1) := by
  induction l with
  | nil => simp [aget]
  | cons h t ih =>
    obtain ⟨a, b⟩ := h
    simp only [aget]
    split <;> simp_all

private theorem aget_isSome_iff (k : κ) (l : List (κ × ν)) :
    (aget k l).isSome ↔ k ∈ l.map (·.1) := by
  have := aget_eq_none_iff k l
  cases h : aget k l <;> simp_all

private theorem mem_keys_aset (k k' : κ) (v : ν) (l : List (κ × ν)) :
    k' ∈ (aset k v l).map (·.1) ↔ k' = k ∨ k' ∈ l.map (·.1) := by
  rw [← aget_isSome_iff, aget_aset, ← aget_isSome_iff]
  split <;> simp_all

private theorem keysNodup_aset (k : κ) (v : ν) (l : List (κ × ν)) (h : keysNodup l) :
    keysNodup (aset k v l) := by
  unfold keysNodup at *
  induction l with
  | nil => simp [aset]
  | cons hd t ih =>
    obtain ⟨a, b⟩ := hd
    simp only [aset]
    simp only [List.map_cons, List.nodup_cons] at h
    split
    · subst_vars; simpa using h
    · rename_i hne
      simp only [List.map_cons, List.nodup_cons]
      refine ⟨?_, ih h.2⟩
      rw [mem_keys_aset]
      intro hc
      rcases hc with hc | hc
      · exact hne hc.symm
      · exact h.1 hc

private theorem keys_adel (k : κ) (l : List (κ × ν)) :
    (adel k l).map (·.1) = (l.map (·.1)).filter (· ≠ k) := by
  induction l with
  | nil => simp [adel]
  | cons hd t ih =>
    obtain ⟨a, b⟩ := hd
    simp only [adel]
    split
    · subst_vars; simp [ih]
    · rename_i hne
      have : a ≠ k := fun h => hne h.symm
      simp [ih, this]

private theorem keysNodup_adel (k : κ) (l : List (κ × ν)) (h : keysNodup l) :
    keysNodup (adel k l) := by
  unfold keysNodup at *
  rw [keys_adel]
  exact h.filter _

private theorem aget_append_single (k k' : κ) (v : ν) (l : List (κ × ν)) :
    aget k (l ++ [(k', v)]) = (aget k l).or (if k = k' then some v else none) := by
  induction l with
  | nil => simp [aget]
  | cons hd t ih =>
    obtain ⟨a, b⟩ := hd
    simp only [List.cons_append, aget]
    split <;> simp [ih]

private theorem keysNodup_append_single (k : κ) (v : ν) (l : List (κ × ν)) (h : keysNodup l)
    (hk : aget k l = none) : keysNodup (l ++ [(k, v)]) := by
  unfold keysNodup at *
  rw [aget_eq_none_iff] at hk
  simp only [List.map_append, List.map_cons, List.map_nil]
  rw [List.nodup_append]
  refine ⟨h, by simp, ?_⟩
  intro a ha b hb
  simp at hb
  subst hb
  intro hab; subst hab; exact hk ha

end assoc

private structure Inv0 (c : Cache) : Prop where
  roundsNodup : keysNodup c.rounds
  rcvdNodup : keysNodup c.rcvd
  sigsNodup : ∀ id r, aget id c.rounds = some r → keysNodup r.sigs
  idOk : ∀ id r, aget id c.rounds = some r → (r.round, r.prev) = id
  listNodup : ∀ idx, (c.rcvdOf idx).Nodup
  listed : ∀ idx id, id ∈ c.rcvdOf idx ↔ (c.sigOf id idx).isSome

private def NonEmpty (c : Cache) : Prop := ∀ id r, aget id c.rounds = some r → r.sigs ≠ []

private theorem sigOf_eq (c : Cache) (id : RId) (idx : Nat) :
    c.sigOf id idx = (aget id c.rounds).bind (fun r => aget idx r.sigs) := by
  unfold Cache.sigOf; cases aget id c.rounds <;> rfl

private theorem rcvdOf_aset (sl : Nat) (rs : List (RId × RoundCache)) (rc : List (Nat × List RId)) (rp : Bool) (i j : Nat) (l : List RId) :
    (Cache.mk sl rs (aset i l rc) rp).rcvdOf j = if j = i then l else (aget j rc).getD [] := by
  simp only [Cache.rcvdOf, aget_aset]; split <;> simp

private theorem inv_addSig {c : Cache} (h : Inv0 c) {id : RId} {r : RoundCache} {i : Nat} (sig : Bytes)
    (hR : aget id c.rounds = some r) (hi : aget i r.sigs = none) :
    Inv0 { c with rounds := aset id { r with sigs := r.sigs ++ [(i, sig)] } c.rounds,
                  rcvd := aset i (c.rcvdOf i ++ [id]) c.rcvd } := by
  have hnot : id ∉ c.rcvdOf i := by
    rw [h.listed, sigOf_eq, hR]; simp [hi]
  refine ⟨keysNodup_aset _ _ _ h.roundsNodup, keysNodup_aset _ _ _ h.rcvdNodup, ?_, ?_, ?_, ?_⟩
  · intro id' r'
    simp only [aget_aset]
    split
    · intro h'; cases h'
      exact keysNodup_append_single _ _ _ (h.sigsNodup _ _ hR) hi
    · exact h.sigsNodup _ _
  · intro id' r'
    simp only [aget_aset]
    split
    · intro h'; cases h'; subst_vars
      exact h.idOk _ r hR
    · exact h.idOk _ _
  · intro j
    rw [rcvdOf_aset]
    split
    · rw [List.nodup_append]
      refine ⟨h.listNodup i, by simp, ?_⟩
      intro a ha b hb; simp at hb; subst hb; intro hab; subst hab; exact hnot ha
    · exact h.listNodup j
  · intro j id'
    have hl : id' ∈ (aget j c.rcvd).getD [] ↔ _ := h.listed j id'
    rw [rcvdOf_aset, sigOf_eq]
    rw [sigOf_eq] at hl
    simp only [aget_aset]
    by_cases hj : j = i <;> by_cases hid : id' = id
    · subst hj; subst hid; simp [aget_append_single]
    · subst hj; simp [hid]; exact hl
    · subst hid; simp [hj, aget_append_single]
      rw [hR] at hl; simpa using hl
    · simp [hj, hid]; exact hl

private theorem inv_addFresh {c : Cache} (h : Inv0 c) (rd : Nat) (pv : Bytes)
    (hR : aget (rd, pv) c.rounds = none) :
    Inv0 { c with rounds := aset (rd, pv) ⟨rd, pv, []⟩ c.rounds } := by
  refine ⟨keysNodup_aset _ _ _ h.roundsNodup, h.rcvdNodup, ?_, ?_, h.listNodup, ?_⟩
  · intro id' r'
    simp only [aget_aset]
    split
    · intro h'; cases h'; simp [keysNodup]
    · exact h.sigsNodup _ _
  · intro id' r'
    simp only [aget_aset]
    split
    · intro h'; cases h'; subst_vars; rfl
    · exact h.idOk _ _
  · intro j id'
    have hl : id' ∈ (aget j c.rcvd).getD [] ↔ _ := h.listed j id'
    show id' ∈ (aget j c.rcvd).getD [] ↔ _
    rw [sigOf_eq] at hl ⊢
    simp only [aget_aset]
    by_cases hid : id' = (rd, pv)
    · subst hid; rw [hR] at hl; simp [aget] at hl ⊢; exact hl
    · simp [hid]; exact hl

private theorem inv_evict {c : Cache} (h : Inv0 c) {i : Nat} {e : RId} {rest : List RId} {er : RoundCache}
    (hL : c.rcvdOf i = e :: rest) (hR : aget e c.rounds = some er) :
    Inv0 { c with
      rounds := if (adel i er.sigs).length = 0 then adel e c.rounds
                else aset e { er with sigs := adel i er.sigs } c.rounds,
      rcvd := aset i rest c.rcvd } := by
  have hnd := h.listNodup i
  rw [hL, List.nodup_cons] at hnd
  have haget : ∀ id', aget id' (if (adel i er.sigs).length = 0 then adel e c.rounds
                else aset e { er with sigs := adel i er.sigs } c.rounds) =
      if id' = e then (if (adel i er.sigs).length = 0 then none else some { er with sigs := adel i er.sigs })
      else aget id' c.rounds := by
    intro id'
    split <;> simp only [aget_adel, aget_aset]
  refine ⟨?_, keysNodup_aset _ _ _ h.rcvdNodup, ?_, ?_, ?_, ?_⟩
  · show keysNodup (if _ then _ else _)
    split
    · exact keysNodup_adel _ _ h.roundsNodup
    · exact keysNodup_aset _ _ _ h.roundsNodup
  · intro id' r'
    show aget id' (if _ then _ else _) = _ → _
    rw [haget]
    split
    · split
      · simp
      · intro h'; cases h'; exact keysNodup_adel _ _ (h.sigsNodup _ _ hR)
    · exact h.sigsNodup _ _
  · intro id' r'
    show aget id' (if _ then _ else _) = _ → _
    rw [haget]
    split
    · split
      · simp
      · intro h'; cases h'; subst_vars; exact h.idOk _ er hR
    · exact h.idOk _ _
  · intro j
    rw [rcvdOf_aset]
    split
    · exact hnd.2
    · exact h.listNodup j
  · intro j id'
    have hl : id' ∈ (aget j c.rcvd).getD [] ↔ _ := h.listed j id'
    rw [rcvdOf_aset, sigOf_eq]
    rw [sigOf_eq] at hl
    show _ ↔ (Option.bind (aget id' (if _ then _ else _)) _).isSome
    rw [haget]
    have hsig : (Option.bind (if (adel i er.sigs).length = 0 then none
        else some ({ er with sigs := adel i er.sigs } : RoundCache)) fun r => aget j r.sigs) =
        aget j (adel i er.sigs) := by
      split
      · rename_i h0
        rw [List.length_eq_zero_iff] at h0
        simp [h0, aget]
      · rfl
    by_cases hj : j = i <;> by_cases hid : id' = e
    · subst hj; subst hid; simp only [if_true, hsig, aget_adel]; simpa using hnd.1
    · subst hj; simp only [if_true, hid, if_false]
      rw [← hl]
      show id' ∈ rest ↔ id' ∈ c.rcvdOf j
      rw [hL]; simp [hid]
    · subst hid; simp only [hj, if_true, if_false, hsig, aget_adel]
      rw [hR] at hl; simpa using hl
    · simp only [hj, hid, if_false]; exact hl

private theorem dropId_getD (id : RId) (sigs : List (Nat × Bytes)) (rcvd : List (Nat × List RId)) (j : Nat) :
    (aget j (dropId id sigs rcvd)).getD [] =
      if j ∈ sigs.map (·.1) then ((aget j rcvd).getD []).filter (· ≠ id) else (aget j rcvd).getD [] := by
  unfold dropId
  induction sigs generalizing rcvd with
  | nil => simp
  | cons s t ih =>
    rw [List.foldl_cons, ih]
    have hstep : (aget j (if (((aget s.1 rcvd).getD []).filter (· ≠ id)).length > 0
          then aset s.1 (((aget s.1 rcvd).getD []).filter (· ≠ id)) rcvd else adel s.1 rcvd)).getD [] =
        if j = s.1 then ((aget j rcvd).getD []).filter (· ≠ id) else (aget j rcvd).getD [] := by
      split
      · rw [aget_aset]; split
        · subst_vars; simp
        · rfl
      · rename_i h0
        rw [aget_adel]; split
        · subst_vars
          have : (((aget s.1 rcvd).getD []).filter (· ≠ id)) = [] := by
            cases hh : (((aget s.1 rcvd).getD []).filter (· ≠ id)) with
            | nil => rfl
            | cons a b => rw [hh] at h0; simp at h0
          rw [this]; rfl
        · rfl
    rw [hstep]
    by_cases hj : j = s.1
    · subst hj; simp [List.filter_filter]
    · have hiff : (j ∈ List.map (·.1) (s :: t)) = (j ∈ List.map (·.1) t) := by simp [hj]
      simp only [hj, if_false, hiff]

private theorem dropId_keysNodup (id : RId) (sigs : List (Nat × Bytes)) (rcvd : List (Nat × List RId))
    (h : keysNodup rcvd) : keysNodup (dropId id sigs rcvd) := by
  unfold dropId
  induction sigs generalizing rcvd with
  | nil => simpa
  | cons s t ih =>
    rw [List.foldl_cons]
    apply ih
    show keysNodup (if _ then _ else _)
    split
    · exact keysNodup_aset _ _ _ h
    · exact keysNodup_adel _ _ h

private theorem inv_dropRound {c : Cache} (h : Inv0 c) {id : RId} {r : RoundCache}
    (hR : aget id c.rounds = some r) :
    Inv0 { c with rounds := adel id c.rounds, rcvd := dropId id r.sigs c.rcvd } := by
  refine ⟨keysNodup_adel _ _ h.roundsNodup, dropId_keysNodup _ _ _ h.rcvdNodup, ?_, ?_, ?_, ?_⟩
  · intro id' r'
    simp only [aget_adel]
    split
    · simp
    · exact h.sigsNodup _ _
  · intro id' r'
    simp only [aget_adel]
    split
    · simp
    · exact h.idOk _ _
  · intro j
    show ((aget j (dropId id r.sigs c.rcvd)).getD []).Nodup
    rw [dropId_getD]
    split
    · exact (h.listNodup j).filter _
    · exact h.listNodup j
  · intro j id'
    have hl : id' ∈ (aget j c.rcvd).getD [] ↔ _ := h.listed j id'
    show id' ∈ (aget j (dropId id r.sigs c.rcvd)).getD [] ↔ _
    rw [dropId_getD, sigOf_eq]
    rw [sigOf_eq] at hl
    simp only [aget_adel]
    by_cases hid : id' = id
    · subst hid
      rw [hR] at hl
      simp only [if_true, Option.bind_none, Option.isSome_none]
      split
      · simp
      · rename_i hj
        rw [← aget_isSome_iff] at hj
        simp at hl
        simp [hl]; simpa using hj
    · simp only [hid, if_false]
      rw [← hl]
      split
      · simp [hid]
      · rfl

private theorem nonEmpty_dropRound {c : Cache} (h : NonEmpty c) (id : RId) (rc : List (Nat × List RId)) :
    NonEmpty { c with rounds := adel id c.rounds, rcvd := rc } := by
  intro id' r'
  simp only [aget_adel]
  split
  · simp
  · exact h _ _

/-- one step of the `FlushRounds` loop -/
private def flushStep (round : Nat) (acc : Cache) (e : RId × RoundCache) : Cache :=
  if e.2.round > round then acc
  else { acc with rounds := adel e.1 acc.rounds, rcvd := dropId e.1 e.2.sigs acc.rcvd }

private theorem flush_eq (c : Cache) (round : Nat) : c.flush round = c.rounds.foldl (flushStep round) c := rfl

private theorem flush_fold_aget (round : Nat) (l : List (RId × RoundCache)) (hl : keysNodup l) (acc : Cache) (id : RId) :
    aget id (l.foldl (flushStep round) acc).rounds =
      match aget id l with
      | some r => if r.round > round then aget id acc.rounds else none
      | none => aget id acc.rounds := by
  induction l generalizing acc with
  | nil => simp [aget]
  | cons e t ih =>
    obtain ⟨k, v⟩ := e
    have hl' : k ∉ t.map (·.1) ∧ keysNodup t := by
      simpa [keysNodup] using hl
    rw [List.foldl_cons, ih hl'.2]
    by_cases hk : id = k
    · subst hk
      have : aget id t = none := (aget_eq_none_iff _ _).2 hl'.1
      simp only [this, aget, if_true, flushStep]
      split
      · rfl
      · simp [aget_adel]
    · simp only [aget, hk, if_false]
      have : aget id (flushStep round acc (k, v)).rounds = aget id acc.rounds := by
        unfold flushStep; split
        · rfl
        · simp [aget_adel, hk]
      rw [this]

private theorem flush_fold_inv (round : Nat) (l : List (RId × RoundCache)) (hl : keysNodup l) (acc : Cache)
    (h : Inv0 acc) (hne : NonEmpty acc) (hsub : ∀ e ∈ l, aget e.1 acc.rounds = some e.2) :
    Inv0 (l.foldl (flushStep round) acc) ∧ NonEmpty (l.foldl (flushStep round) acc) ∧
      ∀ j, ((l.foldl (flushStep round) acc).rcvdOf j).length ≤ (acc.rcvdOf j).length := by
  induction l generalizing acc with
  | nil => exact ⟨h, hne, fun _ => Nat.le_refl _⟩
  | cons e t ih =>
    obtain ⟨k, v⟩ := e
    have hl' : k ∉ t.map (·.1) ∧ keysNodup t := by
      simpa [keysNodup] using hl
    rw [List.foldl_cons]
    have hkv : aget k acc.rounds = some v := hsub (k, v) (by simp)
    unfold flushStep
    split
    · exact ih hl'.2 acc h hne (fun e he => hsub e (by simp [he]))
    · have hsub' : ∀ e ∈ t, aget e.1 (adel k acc.rounds) = some e.2 := by
        intro e he
        have hne' : e.1 ≠ k := by
          intro hc; apply hl'.1; rw [← hc]; exact List.mem_map_of_mem he
        simp only [aget_adel, hne', if_false]
        exact hsub e (by simp [he])
      obtain ⟨h1, h2, h3⟩ := ih hl'.2 _ (inv_dropRound h hkv) (nonEmpty_dropRound hne _ _) hsub'
      refine ⟨h1, h2, fun j => Nat.le_trans (h3 j) ?_⟩
      show ((aget j (dropId k v.sigs acc.rcvd)).getD []).length ≤ _
      rw [dropId_getD]
      split
      · exact List.length_filter_le _ _
      · exact Nat.le_refl _

private theorem aget_of_mem {κ ν : Type} [DecidableEq κ] (l : List (κ × ν)) (hl : keysNodup l) (e : κ × ν) (he : e ∈ l) :
    aget e.1 l = some e.2 := by
  induction l with
  | nil => simp at he
  | cons hd t ih =>
    obtain ⟨a, b⟩ := hd
    have hl' : a ∉ t.map (·.1) ∧ keysNodup t := by
      simpa [keysNodup] using hl
    simp only [aget]
    rcases List.mem_cons.1 he with rfl | he'
    · simp
    · have : e.1 ≠ a := by
        intro hc; apply hl'.1; rw [← hc]; exact List.mem_map_of_mem he'
      simp [this, ih hl'.2 he']

private theorem inv_flush {c : Cache} (round : Nat) (h : Inv0 c) (hne : NonEmpty c) :
    Inv0 (c.flush round) ∧ NonEmpty (c.flush round) ∧
      ∀ j, ((c.flush round).rcvdOf j).length ≤ (c.rcvdOf j).length := by
  rw [flush_eq]
  exact flush_fold_inv round c.rounds h.roundsNodup c h hne (fun e he => aget_of_mem _ h.roundsNodup e he)

private def openRound (c1 : Cache) (id : RId) (p : Partial) : Cache × Except AppendRes RoundCache :=
  match aget id c1.rounds with
  | some r => (c1, .ok r)
  | none => ({ c1 with rounds := aset id ⟨p.round, p.prev, []⟩ c1.rounds }, .ok ⟨p.round, p.prev, []⟩)

private def evictHead (c : Cache) (i : Nat) (e : RId) (rest : List RId) (er : RoundCache) : Cache :=
  { c with
      rounds := if (adel i er.sigs).length = 0 then adel e c.rounds
                else aset e { er with sigs := adel i er.sigs } c.rounds,
      rcvd := aset i rest c.rcvd }

private theorem getCache_seen {c : Cache} {id : RId} {p : Partial} {i : Nat} {r : RoundCache} {s : Bytes}
    (hi : indexOf c.sigLen p.psig = some i) (hR : aget id c.rounds = some r) (hs : aget i r.sigs = some s) :
    c.getCache id p = (c, .ok r) := by
  simp [Cache.getCache, hi, hR, hs]

private theorem getCache_unseen_noevict {c : Cache} {id : RId} {p : Partial} {i : Nat}
    (hi : indexOf c.sigLen p.psig = some i) (hs : c.sigOf id i = none)
    (hlen : ¬ (c.rcvdOf i).length ≥ maxPartials) :
    c.getCache id p = openRound c id p := by
  unfold Cache.sigOf at hs
  unfold Cache.getCache openRound
  cases hR : aget id c.rounds with
  | none => simp [hi, hlen, hR]
  | some r => rw [hR] at hs; simp at hs; simp [hi, hs, hlen, hR]

private theorem getCache_unseen_evict {c : Cache} {id : RId} {p : Partial} {i : Nat} {e : RId} {rest : List RId}
    {er : RoundCache}
    (hi : indexOf c.sigLen p.psig = some i) (hs : c.sigOf id i = none)
    (hlen : (c.rcvdOf i).length ≥ maxPartials) (hL : c.rcvdOf i = e :: rest) (hE : aget e c.rounds = some er) :
    c.getCache id p = openRound (evictHead c i e rest er) id p := by
  unfold Cache.sigOf at hs
  have hlen' : maxPartials ≤ rest.length + 1 := by rw [hL] at hlen; simpa using hlen
  unfold Cache.getCache openRound evictHead
  cases hR : aget id c.rounds with
  | none => simp [hi, hlen', hL, hE]; rfl
  | some r => rw [hR] at hs; simp at hs; simp [hi, hs, hlen', hL, hE]; rfl

private theorem maxPartials_pos : 0 < maxPartials := by decide

/-- what the quota step (nothing, or eviction of the oldest entry of signer `i`) guarantees -/
private structure StepSpec (c : Cache) (i : Nat) (c1 : Cache) : Prop where
  inv : Inv0 c1
  sigLen : c1.sigLen = c.sigLen
  others : ∀ j, j ≠ i → c1.rcvdOf j = c.rcvdOf j
  sub : ∀ x, x ∈ c1.rcvdOf i → x ∈ c.rcvdOf i
  len : (c.rcvdOf i).length ≤ maxPartials → (c1.rcvdOf i).length < maxPartials
  ne : NonEmpty c → NonEmpty c1
  iso : ∀ id' j s, j ≠ i → c.sigOf id' j = some s → c1.sigOf id' j = some s

/-- what `getCache` guarantees for a signer `i` not yet in round cache `id` -/
private structure GetSpec (c : Cache) (id : RId) (i : Nat) (c' : Cache) (r : RoundCache) : Prop where
  inv : Inv0 c'
  sigLen : c'.sigLen = c.sigLen
  got : aget id c'.rounds = some r
  others : ∀ j, j ≠ i → c'.rcvdOf j = c.rcvdOf j
  sub : ∀ x, x ∈ c'.rcvdOf i → x ∈ c.rcvdOf i
  len : (c.rcvdOf i).length ≤ maxPartials → (c'.rcvdOf i).length < maxPartials
  ne : NonEmpty c → ∀ id' r', aget id' c'.rounds = some r' → id' ≠ id → r'.sigs ≠ []
  iso : ∀ id' j s, j ≠ i → c.sigOf id' j = some s → c'.sigOf id' j = some s

private theorem stepSpec_refl {c : Cache} {i : Nat} (h : Inv0 c) (hlen : ¬ (c.rcvdOf i).length ≥ maxPartials) :
    StepSpec c i c :=
  ⟨h, rfl, fun _ _ => rfl, fun _ hx => hx, fun _ => by omega, fun hne => hne, fun _ _ _ _ hs => hs⟩

private theorem sigOf_evictHead (c : Cache) (i : Nat) (e : RId) (rest : List RId) (er : RoundCache)
    (id' : RId) (j : Nat) :
    (evictHead c i e rest er).sigOf id' j = if id' = e then aget j (adel i er.sigs) else c.sigOf id' j := by
  rw [sigOf_eq, sigOf_eq]
  unfold evictHead
  show Option.bind (aget id' (if _ then _ else _)) _ = _
  split
  · rename_i h0
    rw [List.length_eq_zero_iff] at h0
    rw [aget_adel]; split
    · simp [h0, aget]
    · rfl
  · rw [aget_aset]; split <;> rfl

private theorem stepSpec_evict {c : Cache} {i : Nat} {e : RId} {rest : List RId} {er : RoundCache} (h : Inv0 c)
    (hL : c.rcvdOf i = e :: rest) (hE : aget e c.rounds = some er) :
    StepSpec c i (evictHead c i e rest er) := by
  have hrc : ∀ j, (evictHead c i e rest er).rcvdOf j = if j = i then rest else c.rcvdOf j := by
    intro j; unfold evictHead; rw [rcvdOf_aset]; rfl
  refine ⟨inv_evict h hL hE, rfl, ?_, ?_, ?_, ?_, ?_⟩
  · intro j hj; rw [hrc]; simp [hj]
  · intro x hx; rw [hrc] at hx; simp at hx; rw [hL]; simp [hx]
  · intro hle; rw [hrc]; rw [hL] at hle; simp at hle ⊢; omega
  · intro hne id' r'
    unfold evictHead
    show aget id' (if _ then _ else _) = _ → _
    split
    · rw [aget_adel]; split
      · simp
      · exact hne _ _
    · rename_i h0
      rw [aget_aset]; split
      · intro h'; cases h'
        intro hc; apply h0
        have hc' : adel i er.sigs = [] := hc
        rw [hc']; rfl
      · exact hne _ _
  · intro id' j s hj hs
    rw [sigOf_evictHead]
    split
    · subst_vars
      rw [sigOf_eq, hE] at hs
      rw [aget_adel]; simp [hj]; simpa using hs
    · exact hs

private theorem openRound_spec {c c1 : Cache} {i : Nat} (p : Partial) (hst : StepSpec c i c1) :
    ∃ c' r, openRound c1 (p.round, p.prev) p = (c', .ok r) ∧ GetSpec c (p.round, p.prev) i c' r := by
  unfold openRound
  cases hR : aget (p.round, p.prev) c1.rounds with
  | some r =>
    exact ⟨c1, r, rfl, hst.inv, hst.sigLen, hR, hst.others, hst.sub, hst.len,
      fun hne id' r' h' _ => hst.ne hne id' r' h', hst.iso⟩
  | none =>
    refine ⟨_, _, rfl, inv_addFresh hst.inv p.round p.prev hR, hst.sigLen, ?_, hst.others, hst.sub, hst.len, ?_, ?_⟩
    · simp [aget_aset]
    · intro hne id' r' h' hid
      simp only [aget_aset, hid, if_false] at h'
      exact hst.ne hne id' r' h'
    · intro id' j s hj hs
      have := hst.iso id' j s hj hs
      rw [sigOf_eq] at this ⊢
      simp only [aget_aset]
      split
      · subst_vars; rw [hR] at this; simp at this
      · exact this

private theorem getCache_unseen {c : Cache} {p : Partial} {i : Nat} (h : Inv0 c)
    (hi : indexOf c.sigLen p.psig = some i) (hs : c.sigOf (p.round, p.prev) i = none) :
    ∃ c' r, c.getCache (p.round, p.prev) p = (c', .ok r) ∧ GetSpec c (p.round, p.prev) i c' r := by
  by_cases hlen : (c.rcvdOf i).length ≥ maxPartials
  · cases hL : c.rcvdOf i with
    | nil => rw [hL] at hlen; have := maxPartials_pos; simp at hlen; omega
    | cons e rest =>
      have he : (c.sigOf e i).isSome := by rw [← h.listed, hL]; simp
      rw [sigOf_eq] at he
      cases hE : aget e c.rounds with
      | none => rw [hE] at he; simp at he
      | some er =>
        rw [getCache_unseen_evict hi hs hlen hL hE]
        exact openRound_spec p (stepSpec_evict h hL hE)
  · rw [getCache_unseen_noevict hi hs hlen]
    exact openRound_spec p (stepSpec_refl h hlen)

private theorem getSpec_notin {c : Cache} {id : RId} {i : Nat} {c' : Cache} {r : RoundCache} (h : Inv0 c)
    (hs : c.sigOf id i = none) (g : GetSpec c id i c' r) : aget i r.sigs = none := by
  have h1 : id ∉ c.rcvdOf i := by rw [h.listed, hs]; simp
  have h2 : id ∉ c'.rcvdOf i := fun hx => h1 (g.sub _ hx)
  rw [g.inv.listed, sigOf_eq, g.got] at h2
  simpa using h2

/-- the cache after `Append` of a partial of signer `i` for a round cache `i` is not yet in -/
private def appended (c' : Cache) (id : RId) (r : RoundCache) (i : Nat) (sig : Bytes) : Cache :=
  { c' with rounds := aset id { r with sigs := r.sigs ++ [(i, sig)] } c'.rounds,
            rcvd := aset i (c'.rcvdOf i ++ [id]) c'.rcvd }

/-- the cache after `Append` of a partial of signer `i` that round cache `id` already holds, variant "newest wins" -/
private def replaced (c : Cache) (id : RId) (r : RoundCache) (i : Nat) (sig : Bytes) : Cache :=
  { c with rounds := aset id { r with sigs := aset i sig r.sigs } c.rounds }

private theorem append_seen {c : Cache} {p : Partial} {i : Nat} {s : Bytes}
    (hi : indexOf c.sigLen p.psig = some i) (hs : c.sigOf (p.round, p.prev) i = some s) :
    ∃ r, aget (p.round, p.prev) c.rounds = some r ∧ aget i r.sigs = some s ∧
      c.append p = (if c.replace then replaced c (p.round, p.prev) r i p.psig else c, .ok) := by
  rw [sigOf_eq] at hs
  cases hR : aget (p.round, p.prev) c.rounds with
  | none => rw [hR] at hs; simp at hs
  | some r =>
    rw [hR] at hs
    have hs' : aget i r.sigs = some s := hs
    refine ⟨r, rfl, hs', ?_⟩
    cases hrep : c.replace <;>
      simp [Cache.append, hi, getCache_seen hi hR hs', RoundCache.append, hs', hrep, replaced]

private theorem keys_aset_of_mem {κ ν : Type} [DecidableEq κ] (k : κ) (v : ν) (l : List (κ × ν)) (h : (aget k l).isSome) :
    (aset k v l).map (·.1) = l.map (·.1) := by
  induction l with
  | nil => simp [aget] at h
  | cons hd t ih =>
    obtain ⟨a, b⟩ := hd
    simp only [aset]
    split
    · subst_vars; rfl
    · rename_i hne
      simp only [aget, hne, if_false] at h
      simp [ih h]

/-- replacing the bytes cached for a signer that is already in the round cache changes nothing the bookkeeping reads -/
private theorem sigOf_replaced (c : Cache) (id : RId) (r : RoundCache) (i : Nat) (sig : Bytes) (id' : RId) (j : Nat) :
    (replaced c id r i sig).sigOf id' j = if id' = id then (if j = i then some sig else aget j r.sigs) else c.sigOf id' j := by
  rw [sigOf_eq, sigOf_eq]
  unfold replaced
  simp only [aget_aset]
  split
  · simp only [Option.bind, aget_aset]
  · rfl

private theorem inv_replaced {c : Cache} (h : Inv0 c) {id : RId} {r : RoundCache} {i : Nat} {s : Bytes} (sig : Bytes)
    (hR : aget id c.rounds = some r) (hs : aget i r.sigs = some s) : Inv0 (replaced c id r i sig) := by
  have hso : ∀ id' j, ((replaced c id r i sig).sigOf id' j).isSome = (c.sigOf id' j).isSome := by
    intro id' j
    rw [sigOf_replaced]
    split
    · subst_vars
      rw [sigOf_eq, hR]
      split
      · subst_vars; simp [hs]
      · rfl
    · rfl
  refine ⟨keysNodup_aset _ _ _ h.roundsNodup, h.rcvdNodup, ?_, ?_, h.listNodup, ?_⟩
  · intro id' r'
    unfold replaced
    simp only [aget_aset]
    split
    · intro h'; cases h'
      exact keysNodup_aset _ _ _ (h.sigsNodup _ _ hR)
    · exact h.sigsNodup _ _
  · intro id' r'
    unfold replaced
    simp only [aget_aset]
    split
    · intro h'; cases h'; subst_vars
      exact h.idOk _ r hR
    · exact h.idOk _ _
  · intro j id'
    rw [hso]
    exact h.listed j id'

private theorem nonEmpty_replaced {c : Cache} (hne : NonEmpty c) {id : RId} {r : RoundCache} {i : Nat} (sig : Bytes)
    (_hR : aget id c.rounds = some r) : NonEmpty (replaced c id r i sig) := by
  intro id' r'
  unfold replaced
  simp only [aget_aset]
  split
  · intro h'; cases h'
    intro hc
    have h1 : (aget i (aset i sig r.sigs)).isSome := by rw [aget_aset]; simp
    have hc' : aset i sig r.sigs = [] := hc
    rw [hc'] at h1; simp [aget] at h1
  · exact hne _ _

private theorem append_unseen_eq {c c' : Cache} {p : Partial} {i : Nat} {r : RoundCache}
    (hi : indexOf c.sigLen p.psig = some i) (hg : c.getCache (p.round, p.prev) p = (c', .ok r))
    (hn : aget i r.sigs = none) :
    c.append p = (appended c' (p.round, p.prev) r i p.psig, .ok) := by
  simp [Cache.append, hi, hg, RoundCache.append, hn, appended]

private structure AppendSpec (c : Cache) (id : RId) (i : Nat) (sig : Bytes) (c'' : Cache) : Prop where
  inv : Inv0 c''
  ne : NonEmpty c → NonEmpty c''
  bound : (∀ j, (c.rcvdOf j).length ≤ maxPartials) → ∀ j, (c''.rcvdOf j).length ≤ maxPartials
  iso : ∀ id' j s, j ≠ i → c.sigOf id' j = some s → c''.sigOf id' j = some s
  took : c''.sigOf id i = some sig

private theorem appended_spec {c c' : Cache} {id : RId} {i : Nat} {r : RoundCache} (sig : Bytes)
    (g : GetSpec c id i c' r) (hn : aget i r.sigs = none) :
    AppendSpec c id i sig (appended c' id r i sig) := by
  have hrc : ∀ j, (appended c' id r i sig).rcvdOf j = if j = i then c'.rcvdOf i ++ [id] else c'.rcvdOf j := by
    intro j; unfold appended; rw [rcvdOf_aset]; rfl
  have hso : ∀ id' j, (appended c' id r i sig).sigOf id' j =
      if id' = id then aget j (r.sigs ++ [(i, sig)]) else c'.sigOf id' j := by
    intro id' j
    rw [sigOf_eq, sigOf_eq]; unfold appended
    simp only [aget_aset]; split <;> rfl
  refine ⟨inv_addSig g.inv sig g.got hn, ?_, ?_, ?_, ?_⟩
  · intro hne id' r'
    unfold appended
    simp only [aget_aset]
    split
    · intro h'; cases h'; simp
    · rename_i hid; intro h'; exact g.ne hne id' r' h' hid
  · intro hb j
    rw [hrc]; split
    · subst_vars
      have := g.len (hb j)
      simp; omega
    · rename_i hj; rw [g.others j hj]; exact hb j
  · intro id' j s hj hs
    have h1 := g.iso id' j s hj hs
    rw [hso]; split
    · subst_vars
      rw [sigOf_eq, g.got] at h1
      have h1' : aget j r.sigs = some s := h1
      simp [aget_append_single, h1']
    · exact h1
  · rw [hso]; simp [aget_append_single, hn]

private theorem append_unseen {c : Cache} {p : Partial} {i : Nat} (h : Inv0 c)
    (hi : indexOf c.sigLen p.psig = some i) (hs : c.sigOf (p.round, p.prev) i = none) :
    ∃ c'', c.append p = (c'', .ok) ∧ AppendSpec c (p.round, p.prev) i p.psig c'' := by
  obtain ⟨c', r, hg, g⟩ := getCache_unseen h hi hs
  have hn := getSpec_notin h hs g
  exact ⟨_, append_unseen_eq hi hg hn, appended_spec p.psig g hn⟩

/-! ### the invariant is inductive -/

private theorem CacheInv.inv0 {c : Cache} (h : CacheInv c) : Inv0 c :=
  ⟨h.roundsNodup, h.rcvdNodup, h.sigsNodup, h.idOk, h.listNodup, h.listed⟩

private theorem cacheInv_of {c : Cache} (h : Inv0 c) (hne : NonEmpty c)
    (hb : ∀ idx, (c.rcvdOf idx).length ≤ maxPartials) : CacheInv c :=
  ⟨h.roundsNodup, h.rcvdNodup, h.sigsNodup, h.idOk, h.listNodup, h.listed, hb, hne⟩

private theorem append_malformed {c : Cache} {p : Partial} (hi : indexOf c.sigLen p.psig = none) :
    c.append p = (c, .errIndex) := by
  simp [Cache.append, hi]

private theorem cacheInv_append {c : Cache} (p : Partial) (h : CacheInv c) : CacheInv (c.append p).1 := by
  cases hi : indexOf c.sigLen p.psig with
  | none => rw [append_malformed hi]; exact h
  | some i =>
    cases hs : c.sigOf (p.round, p.prev) i with
    | some s =>
      obtain ⟨r, hR, hsr, he⟩ := append_seen hi hs
      rw [he]
      cases hrep : c.replace with
      | false => exact h
      | true =>
        exact cacheInv_of (inv_replaced h.inv0 p.psig hR hsr) (nonEmpty_replaced h.nonEmpty p.psig hR) h.bound
    | none =>
      obtain ⟨c'', he, sp⟩ := append_unseen h.inv0 hi hs
      rw [he]
      exact cacheInv_of sp.inv (sp.ne h.nonEmpty) (sp.bound h.bound)

private theorem cacheInv_flush {c : Cache} (round : Nat) (h : CacheInv c) : CacheInv (c.flush round) := by
  obtain ⟨h1, h2, h3⟩ := inv_flush round h.inv0 h.nonEmpty
  exact cacheInv_of h1 h2 (fun j => Nat.le_trans (h3 j) (h.bound j))

private theorem cacheInv_apply {c : Cache} (op : COp) (h : CacheInv c) : CacheInv (c.apply op) := by
  cases op with
  | append p => exact cacheInv_append p h
  | flush r => exact cacheInv_flush r h

private theorem cacheInv_empty (sigLen : Nat) (rep : Bool) : CacheInv (Cache.empty sigLen rep) := by
  refine ⟨?_, ?_, ?_, ?_, ?_, ?_, ?_, ?_⟩ <;>
    simp [Cache.empty, keysNodup, aget, Cache.rcvdOf, Cache.sigOf]

private theorem cacheInv_foldl (ops : List COp) (c : Cache) (h : CacheInv c) :
    CacheInv (ops.foldl Cache.apply c) := by
  induction ops generalizing c with
  | nil => exact h
  | cons op t ih => exact ih _ (cacheInv_apply op h)

theorem c12_cache_inv (sigLen : Nat) (ops : List COp) (rep : Bool := false) : CacheInv (Cache.run sigLen ops rep) :=
  cacheInv_foldl ops _ (cacheInv_empty sigLen rep)

/-- memory per signer is bounded by the quota, whatever rounds / previous signatures the signer signs -/
theorem c12_cache_bound (sigLen : Nat) (ops : List COp) (idx : Nat) (rep : Bool := false) :
    ((Cache.run sigLen ops rep).rcvdOf idx).length ≤ maxPartials :=
  (c12_cache_inv sigLen ops rep).bound idx

/-- the number of round caches is bounded by (number of signers seen) × quota: every round cache holds at least one
partial, so it is listed by at least one signer -/
theorem c12_rounds_listed (sigLen : Nat) (ops : List COp) (id : RId) (r : RoundCache) (rep : Bool := false)
    (h : aget id (Cache.run sigLen ops rep).rounds = some r) :
    ∃ idx, id ∈ (Cache.run sigLen ops rep).rcvdOf idx := by
  have hinv := c12_cache_inv sigLen ops rep
  have hne := hinv.nonEmpty id r h
  cases hsg : r.sigs with
  | nil => exact absurd hsg hne
  | cons kv t =>
    refine ⟨kv.1, ?_⟩
    rw [hinv.listed, sigOf_eq, h]
    simp [hsg, aget]

/-- the eviction branch never meets a missing round cache: a signer at its quota can always open a new round -/
theorem c12_no_wedge (c : Cache) (p : Partial) (h : CacheInv c) (hm : 0 < maxPartials) :
    (c.append p).2 ≠ .errEvicted := by
  have _ := hm
  cases hi : indexOf c.sigLen p.psig with
  | none => rw [append_malformed hi]; simp
  | some i =>
    cases hs : c.sigOf (p.round, p.prev) i with
    | some s => obtain ⟨r, _, _, he⟩ := append_seen hi hs; rw [he]; simp
    | none =>
      obtain ⟨c'', he, _⟩ := append_unseen h.inv0 hi hs
      rw [he]; simp

/-- a well-formed partial from a signer not yet cached for that (round, prev) is always taken -/
theorem c12_append_takes (c : Cache) (p : Partial) (idx : Nat) (h : CacheInv c) (hm : 0 < maxPartials)
    (hi : indexOf c.sigLen p.psig = some idx) (hnew : c.sigOf (p.round, p.prev) idx = none) :
    (c.append p).2 = .ok ∧ (c.append p).1.sigOf (p.round, p.prev) idx = some p.psig := by
  have _ := hm
  obtain ⟨c'', he, sp⟩ := append_unseen h.inv0 hi hnew
  rw [he]
  exact ⟨rfl, sp.took⟩

/-- flooding by one signer never removes a partial cached for another signer -/
theorem c12_isolation (c : Cache) (p : Partial) (i j : Nat) (id : RId) (s : Bytes) (h : CacheInv c)
    (hi : indexOf c.sigLen p.psig = some i) (hij : j ≠ i) (hs : c.sigOf id j = some s) :
    (c.append p).1.sigOf id j = some s := by
  cases hs' : c.sigOf (p.round, p.prev) i with
  | some s' =>
    obtain ⟨r, hR, _, he⟩ := append_seen hi hs'
    rw [he]
    cases hrep : c.replace with
    | false => exact hs
    | true =>
      simp only [if_true]
      rw [sigOf_replaced]
      split
      · subst_vars
        rw [sigOf_eq, hR] at hs
        exact hs
      · exact hs
  | none =>
    obtain ⟨c'', he, sp⟩ := append_unseen h.inv0 hi hs'
    rw [he]
    exact sp.iso id j s hij hs

/-- C03: within a round cache every signer index occurs at most once, so `Len()` counts distinct signers; a second
partial from the same index for the same (round, prev) changes nothing -/
theorem c03_distinct (sigLen : Nat) (ops : List COp) (id : RId) (r : RoundCache) (rep : Bool := false)
    (h : aget id (Cache.run sigLen ops rep).rounds = some r) : keysNodup r.sigs :=
  (c12_cache_inv sigLen ops rep).sigsNodup id r h

/-- a second partial from the same index for the same (round, prev) still counts once, in both variants: the answer is ok,
no per-signer list and no round cache changes its length, no other cached partial changes; "first wins": the cache is
unchanged; "newest wins": the bytes cached for that index in that round cache are now the new partial's -/
theorem append_duplicate (c : Cache) (p : Partial) (idx : Nat) (s : Bytes)
    (hi : indexOf c.sigLen p.psig = some idx) (hs : c.sigOf (p.round, p.prev) idx = some s) :
    (c.append p).2 = .ok ∧ (c.replace = false → (c.append p).1 = c) ∧
    (c.append p).1.rcvd = c.rcvd ∧
    (∀ rd pv, (c.append p).1.roundLen rd pv = c.roundLen rd pv) ∧
    (∀ id' j, ¬ (id' = (p.round, p.prev) ∧ j = idx) → (c.append p).1.sigOf id' j = c.sigOf id' j) ∧
    (c.replace = true → (c.append p).1.sigOf (p.round, p.prev) idx = some p.psig) := by
  obtain ⟨r, hR, hsr, he⟩ := append_seen hi hs
  rw [he]
  cases hrep : c.replace with
  | false => exact ⟨rfl, fun _ => rfl, rfl, fun _ _ => rfl, fun _ _ _ => rfl, fun hc => (by cases hc)⟩
  | true =>
    simp only [if_true]
    refine ⟨?_, ?_, ?_, ?_, ?_, ?_⟩
    · first | rfl | trivial
    · intro hc; cases hc
    · first | rfl | trivial
    · intro rd pv
      unfold Cache.roundLen replaced
      simp only [aget_aset]
      split
      · next hid =>
        rw [hid, hR]
        have hk := keys_aset_of_mem idx p.psig r.sigs (by rw [hsr]; rfl)
        have := congrArg List.length hk
        simpa using this
      · rfl
    · intro id' j hne
      rw [sigOf_replaced]
      split
      · next hid =>
        have hj : j ≠ idx := fun hj => hne ⟨hid, hj⟩
        simp only [hj, if_false]
        rw [hid, sigOf_eq, hR]; rfl
      · rfl
    · intro _
      rw [sigOf_replaced]; simp

theorem c03_duplicate_ignored (c : Cache) (p : Partial) (idx : Nat) (s : Bytes) (_h : CacheInv c)
    (hi : indexOf c.sigLen p.psig = some idx) (hs : c.sigOf (p.round, p.prev) idx = some s) :
    (c.append p).2 = .ok ∧ (c.replace = false → (c.append p).1 = c) ∧
    (c.append p).1.rcvd = c.rcvd ∧
    (∀ rd pv, (c.append p).1.roundLen rd pv = c.roundLen rd pv) ∧
    (∀ id' j, ¬ (id' = (p.round, p.prev) ∧ j = idx) → (c.append p).1.sigOf id' j = c.sigOf id' j) ∧
    (c.replace = true → (c.append p).1.sigOf (p.round, p.prev) idx = some p.psig) :=
  append_duplicate c p idx s hi hs

/-- a malformed partial signature (wrong length) is rejected and changes nothing -/
theorem c03_malformed_ignored (c : Cache) (p : Partial) (hi : indexOf c.sigLen p.psig = none) :
    (c.append p).1 = c ∧ (c.append p).2 = .errIndex := by
  rw [append_malformed hi]; exact ⟨rfl, rfl⟩

/-- `FlushRounds r` removes exactly the round caches of rounds ≤ r -/
theorem c12_flush_exact (c : Cache) (round : Nat) (h : CacheInv c) (id : RId) :
    aget id (c.flush round).rounds = (match aget id c.rounds with
      | some r => if r.round > round then some r else none
      | none => none) := by
  rw [flush_eq, flush_fold_aget round c.rounds h.roundsNodup c id]
  cases hR : aget id c.rounds with
  | none => rfl
  | some r => rfl

/-! ### the variant switch, regenerated -/

/-- `roundCache.append` has one of the two shapes the model knows, and `Gen.replaceSameIndex` says which: "if the index is
cached return false, else store and return true" (first wins) or "remember whether it was cached, store, return not
cached" (newest wins); `partialCache.Append` uses the result only to record the id (checked by the extractor) -/
theorem tie_cache_append_variant :
    Gen.cacheAppendShape = (if Gen.replaceSameIndex then
      ["idx,err:=r.scheme.ThresholdScheme.IndexOf(p.GetPartialSig())", "if err!=nil", "_,seen:=r.sigs[idx]",
       "r.sigs[idx]=p.GetPartialSig()", "return !seen"]
    else
      ["idx,err:=r.scheme.ThresholdScheme.IndexOf(p.GetPartialSig())", "if err!=nil", "if _,seen:=r.sigs[idx];seen",
       "r.sigs[idx]=p.GetPartialSig()", "return true"]) := by decide

/-! ### non-vacuity -/
/-- the two variants on a second partial of signer 7 for the same (round, prev): one entry either way, the first / the newest bytes -/
example : (Cache.run 1 [.append ⟨5, [1], [0, 7, 9]⟩, .append ⟨5, [1], [0, 7, 3]⟩] false).sigOf (5, [1]) 7 = some [0, 7, 9] ∧
    (Cache.run 1 [.append ⟨5, [1], [0, 7, 9]⟩, .append ⟨5, [1], [0, 7, 3]⟩] true).sigOf (5, [1]) 7 = some [0, 7, 3] ∧
    (Cache.run 1 [.append ⟨5, [1], [0, 7, 9]⟩, .append ⟨5, [1], [0, 7, 3]⟩] true).roundLen 5 [1] = some 1 ∧
    ((Cache.run 1 [.append ⟨5, [1], [0, 7, 9]⟩, .append ⟨5, [1], [0, 7, 3]⟩] true).rcvdOf 7).length = 1 := by decide
example : (Cache.run 1 [.append ⟨5, [1], [0, 7, 9]⟩, .append ⟨5, [1], [0, 8, 9]⟩, .append ⟨5, [1], [0, 7, 3]⟩]).roundLen 5 [1] = some 2 := by decide


/-- a signer at its quota that joins a round cache opened by another signer: its oldest entry is evicted, the list
stays at the quota (signer 0 opens rounds 1..100, signer 1 opens round 101, signer 0 joins round 101) -/
private def quotaJoin : List COp :=
  (List.range 100).map (fun k => COp.append ⟨k + 1, [], [0, 0, 7]⟩) ++
    [COp.append ⟨101, [], [0, 1, 7]⟩, COp.append ⟨101, [], [0, 0, 7]⟩]

set_option maxRecDepth 100000 in
example : ((Cache.run 1 quotaJoin).rcvdOf 0).length = 100 ∧ (Cache.run 1 quotaJoin).roundLen 101 [] = some 2 ∧
    (Cache.run 1 quotaJoin).roundLen 1 [] = none := by decide +kernel

/-
History (finding): before the repair of `getCache` (Go commit "fix: partial cache enforces the per-signer quota when
joining an existing round cache"), `getCache` returned an existing round cache without any quota check, and the model
mirrored that. `CacheInv.bound`, `c12_cache_bound` and `c12_cache_inv` were then FALSE: with the operations `quotaJoin`
above, `((Cache.run 1 quotaJoin).rcvdOf 0).length` evaluated to 101 > maxPartials = 100 (checked against the old model
with `decide +kernel`: `¬ ((Cache.run 1 quotaJoin).rcvdOf 0).length ≤ maxPartials`). With two colluding signers
alternating (signer 1 opens round k, signer 0 joins it, k = 1..500) the old model reached 500 entries in `rcvdOf 0`
and 500 round caches: signer 1's eviction never emptied a round cache because signer 0 was still in it, so memory
was unbounded until `FlushRounds`. The old model no longer exists; this note only documents the counterexample.
-/

end Drand.Beacon
