/-
C12 (part b) and C03 (distinctness): the partial-signature cache of internal/chain/beacon/cache.go.
Model: Drand/Beacon/Cache.lean. All statements are for every sequence of Append / FlushRounds operations.
-/
import Drand.Beacon.Cache

namespace Drand.Beacon
open Drand

inductive COp where
  | append (p : Partial)
  | flush (round : Nat)

def Cache.apply (c : Cache) : COp → Cache
  | .append p => (c.append p).1
  | .flush r => c.flush r

def Cache.run (sigLen : Nat) (ops : List COp) : Cache := ops.foldl Cache.apply (Cache.empty sigLen)

def keysNodup {κ ν : Type} (l : List (κ × ν)) : Prop := (l.map (·.1)).Nodup

/-- the partial signature cached for signer `idx` in round cache `id`, if any -/
def Cache.sigOf (c : Cache) (id : RId) (idx : Nat) : Option Bytes :=
  match aget id c.rounds with
  | some r => aget idx r.sigs
  | none => none

/-- bookkeeping consistency: the per-signer list `rcvd[idx]` names exactly the round caches that hold a partial of
`idx`, without repetition, and is never longer than the quota -/
structure CacheInv (c : Cache) : Prop where
  roundsNodup : keysNodup c.rounds
  rcvdNodup : keysNodup c.rcvd
  sigsNodup : ∀ id r, aget id c.rounds = some r → keysNodup r.sigs
  idOk : ∀ id r, aget id c.rounds = some r → (r.round, r.prev) = id
  listNodup : ∀ idx, (c.rcvdOf idx).Nodup
  listed : ∀ idx id, id ∈ c.rcvdOf idx ↔ (c.sigOf id idx).isSome
  bound : ∀ idx, (c.rcvdOf idx).length ≤ maxPartials

theorem c12_cache_inv (sigLen : Nat) (ops : List COp) : CacheInv (Cache.run sigLen ops) := by
  sorry

/-- memory per signer is bounded by the quota, whatever rounds / previous signatures the signer signs -/
theorem c12_cache_bound (sigLen : Nat) (ops : List COp) (idx : Nat) :
    ((Cache.run sigLen ops).rcvdOf idx).length ≤ maxPartials := by
  sorry

/-- the number of round caches is bounded by (number of signers seen) × quota: every round cache holds at least one
partial, so it is listed by at least one signer -/
theorem c12_rounds_listed (sigLen : Nat) (ops : List COp) (id : RId) (r : RoundCache)
    (h : aget id (Cache.run sigLen ops).rounds = some r) :
    ∃ idx, id ∈ (Cache.run sigLen ops).rcvdOf idx := by
  sorry

/-- the eviction branch never meets a missing round cache: a signer at its quota can always open a new round -/
theorem c12_no_wedge (c : Cache) (p : Partial) (h : CacheInv c) (hm : 0 < maxPartials) :
    (c.append p).2 ≠ .errEvicted := by
  sorry

/-- a well-formed partial from a signer not yet cached for that (round, prev) is always taken -/
theorem c12_append_takes (c : Cache) (p : Partial) (idx : Nat) (h : CacheInv c) (hm : 0 < maxPartials)
    (hi : indexOf c.sigLen p.psig = some idx) (hnew : c.sigOf (p.round, p.prev) idx = none) :
    (c.append p).2 = .ok ∧ (c.append p).1.sigOf (p.round, p.prev) idx = some p.psig := by
  sorry

/-- flooding by one signer never removes a partial cached for another signer -/
theorem c12_isolation (c : Cache) (p : Partial) (i j : Nat) (id : RId) (s : Bytes) (h : CacheInv c)
    (hi : indexOf c.sigLen p.psig = some i) (hij : j ≠ i) (hs : c.sigOf id j = some s) :
    (c.append p).1.sigOf id j = some s := by
  sorry

/-- C03: within a round cache every signer index occurs at most once, so `Len()` counts distinct signers; a second
partial from the same index for the same (round, prev) changes nothing -/
theorem c03_distinct (sigLen : Nat) (ops : List COp) (id : RId) (r : RoundCache)
    (h : aget id (Cache.run sigLen ops).rounds = some r) : keysNodup r.sigs := by
  sorry

theorem c03_duplicate_ignored (c : Cache) (p : Partial) (idx : Nat) (s : Bytes) (h : CacheInv c)
    (hi : indexOf c.sigLen p.psig = some idx) (hs : c.sigOf (p.round, p.prev) idx = some s) :
    (c.append p).1 = c ∧ (c.append p).2 = .ok := by
  sorry

/-- a malformed partial signature (wrong length) is rejected and changes nothing -/
theorem c03_malformed_ignored (c : Cache) (p : Partial) (hi : indexOf c.sigLen p.psig = none) :
    (c.append p).1 = c ∧ (c.append p).2 = .errIndex := by
  sorry

/-- `FlushRounds r` removes exactly the round caches of rounds ≤ r -/
theorem c12_flush_exact (c : Cache) (round : Nat) (h : CacheInv c) (id : RId) :
    aget id (c.flush round).rounds = (match aget id c.rounds with
      | some r => if r.round > round then some r else none
      | none => none) := by
  sorry

/-! ### non-vacuity -/
example : (Cache.run 1 [.append ⟨5, [1], [0, 7, 9]⟩, .append ⟨5, [1], [0, 8, 9]⟩, .append ⟨5, [1], [0, 7, 3]⟩]).roundLen 5 [1] = some 2 := by decide

end Drand.Beacon
