/-
C16 — round numbers and times convert consistently and never wrap.
Property theorems only (helper lemmas are private, above the theorem they serve).
-/
import Drand.Time
import DrandProofs.C16Float
import Gen.TimeCalls
import Mathlib.Tactic.IntervalCases
import Mathlib.Tactic.Linarith
import Mathlib.Tactic.NormNum

namespace Drand.Time

/-! ### exact layer -/

private theorem div_facts (a p : Nat) (hp : 1 ≤ p) :
    (a / p) * p ≤ a ∧ a < (a / p + 1) * p := by
  have h1 := Nat.div_add_mod a p
  have h2 := Nat.mod_lt a (show p > 0 by omega)
  constructor
  · rw [Nat.mul_comm]; omega
  · rw [Nat.add_mul, Nat.mul_comm (a / p) p]; omega

/-- the current round is the unique round whose scheduled time is ≤ now < next round's time -/
theorem c16_current_unique (now : Int) (p : Nat) (g : Int) (hp : 1 ≤ p) (hg : g ≤ now) :
    let r := currentRoundZ now p g
    1 ≤ r ∧ timeOfRoundZ p g r ≤ now ∧ now < timeOfRoundZ p g (r + 1) ∧
    ∀ r', 1 ≤ r' → timeOfRoundZ p g r' ≤ now → now < timeOfRoundZ p g (r' + 1) → r' = r := by
  intro r
  obtain ⟨a, ha⟩ : ∃ a : Nat, now - g = (a : Int) := ⟨(now - g).toNat, by omega⟩
  have hr : r = a / p + 1 := by
    simp only [r, currentRoundZ, nextRoundZ, show ¬ now < g by omega, if_false, ha, Int.toNat_natCast]
    generalize a / p = q
    split <;> omega
  obtain ⟨d1, d2⟩ := div_facts a p hp
  have e1 : timeOfRoundZ p g r = g + ((a / p * p : Nat) : Int) := by
    simp only [timeOfRoundZ, hr]; simp
  have e2 : timeOfRoundZ p g (r + 1) = g + (((a / p + 1) * p : Nat) : Int) := by
    simp only [timeOfRoundZ, hr]; simp
  generalize hq : a / p = q at *
  generalize q * p = m1 at *
  generalize (q + 1) * p = m2 at *
  refine ⟨by omega, by rw [e1]; omega, by rw [e2]; omega, ?_⟩
  intro r' h1 h2 h3
  obtain ⟨k, rfl⟩ : ∃ k, r' = k + 1 := ⟨r' - 1, by omega⟩
  have f1 : timeOfRoundZ p g (k + 1) = g + ((k * p : Nat) : Int) := by
    simp only [timeOfRoundZ]; simp
  have f2 : timeOfRoundZ p g (k + 1 + 1) = g + (((k + 1) * p : Nat) : Int) := by
    simp only [timeOfRoundZ]; simp
  rw [f1] at h2; rw [f2] at h3
  have g1 : k * p ≤ a := by omega
  have g2 : a < (k + 1) * p := by omega
  have : q = k := by
    rw [← hq]
    apply Nat.div_eq_of_lt_le
    · rw [Nat.mul_comm] at g1; rw [Nat.mul_comm]; exact g1
    · rw [Nat.mul_comm] at g2; rw [Nat.mul_comm]; exact g2
  omega

/-- NextRound returns current round + 1 together with exactly its scheduled time -/
theorem c16_next (now : Int) (p : Nat) (g : Int) (hg : g ≤ now) :
    (nextRoundZ now p g).1 = currentRoundZ now p g + 1 ∧
    (nextRoundZ now p g).2 = timeOfRoundZ p g (nextRoundZ now p g).1 := by
  simp only [currentRoundZ, nextRoundZ, show ¬ now < g by omega, if_false, timeOfRoundZ]
  generalize (now - g).toNat / p = q
  constructor
  · split <;> omega
  · simp

/-- before genesis: next round is 1 at genesis (documented special case) -/
theorem c16_next_before_genesis (now : Int) (p : Nat) (g : Int) (h : now < g) :
    nextRoundZ now p g = (1, g) ∧ currentRoundZ now p g = 1 := by
  simp [currentRoundZ, nextRoundZ, h]

/-- scheduled time is strictly increasing from round 1 on (rounds 0 and 1 both map to genesis:
round 0 is the fixed genesis beacon, not a scheduled round) -/
theorem c16_strict_mono (p : Nat) (g : Int) (r r' : Nat) (hp : 1 ≤ p) (h1 : 1 ≤ r) (h : r < r') :
    timeOfRoundZ p g r < timeOfRoundZ p g r' := by
  simp only [timeOfRoundZ, show r ≠ 0 by omega, show r' ≠ 0 by omega, if_false]
  have : (r - 1) * p < (r' - 1) * p := Nat.mul_lt_mul_of_lt_of_le (by omega) (Nat.le_refl p) (by omega)
  have : (((r - 1) * p : Nat) : Int) < (((r' - 1) * p : Nat) : Int) := by exact_mod_cast this
  push_cast at this
  omega

theorem c16_round0_is_genesis (p : Nat) (g : Int) : timeOfRoundZ p g 0 = g ∧ timeOfRoundZ p g 1 = g := by
  simp [timeOfRoundZ]


/-! ### machine layer (uint64 / int64 arithmetic as written in common/time.go) -/

private theorem key (pb p r1 : Nat) (hpb : pb ≤ 32) (hp : p + 1 < 2 ^ (pb + 1))
    (hr : r1 + 1 < (two64 - 1) / 2 ^ (pb + 2)) : r1 * p + 4294967296 < 9223372036854775808 := by
  unfold two64 at hr
  interval_cases pb <;> norm_num at hp hr <;> nlinarith [Nat.zero_le (r1 * p), Nat.zero_le r1, Nat.zero_le p]

private theorem pb_le (p : Nat) (hp : p < 4294967296) : periodBits p ≤ 32 := by
  unfold periodBits
  have : (p + 1).log2 < 33 := (Nat.log2_lt (by omega)).2 (by norm_num; omega)
  omega

private theorem delta_ok (p : Nat) (round : Nat) (hp2 : p < 4294967296)
    (h1 : round ≠ 0) (hlim : ¬ round ≥ roundLimit p) :
    (round - 1) * p + 4294967296 < 9223372036854775808 := by
  obtain ⟨r1, rfl⟩ : ∃ r1, round = r1 + 1 := ⟨round - 1, by omega⟩
  have hpb := pb_le p hp2
  have hlt : p + 1 < 2 ^ (periodBits p + 1) := Nat.lt_log2_self
  simp only [roundLimit, Gen.timeOfRoundShiftExtra, Nat.shiftRight_eq_div_pow] at hlim
  simpa using key (periodBits p) p r1 hpb hlt (by omega)

/-- Every result of the machine `TimeOfRound` is either the documented error value or the exact
scheduled time, and is never negative or wrapped: for every 64-bit round. -/
theorem c16_time_of_round_refines (p : Nat) (g : Int) (round : Nat)
    (hp2 : p < 4294967296) (hg0 : 0 ≤ g) (hg : g ≤ 4294967296) :
    (timeOfRoundM p g round = errorValue ∨ timeOfRoundM p g round = timeOfRoundZ p g round) ∧
    0 ≤ timeOfRoundM p g round ∧ timeOfRoundM p g round ≤ errorValue := by
  have herr : (0:Int) ≤ errorValue := by unfold errorValue maxI64 maxTimeBuffer Gen.timeBufferBits; norm_num
  unfold timeOfRoundM
  by_cases h0 : round = 0
  · have : g ≤ errorValue := by unfold errorValue maxI64 maxTimeBuffer Gen.timeBufferBits; norm_num; omega
    simp [h0, timeOfRoundZ, hg0, this]
  · by_cases hl : round ≥ roundLimit p
    · simp [h0, hl, herr]
    · have hd := delta_ok p round hp2 h0 hl
      simp only [h0, if_false, hl]
      have e1 : (round - 1) * p % two64 = (round - 1) * p := Nat.mod_eq_of_lt (by unfold two64; omega)
      have e2 : toI64 ((round - 1) * p) = (((round - 1) * p : Nat) : Int) := by
        unfold toI64 two63; split <;> omega
      have e3 : wrapI64 (g + (((round - 1) * p : Nat) : Int)) = g + (((round - 1) * p : Nat) : Int) := by
        unfold wrapI64 two63 two64; omega
      have ez : timeOfRoundZ p g round = g + (((round - 1) * p : Nat) : Int) := by
        simp [timeOfRoundZ, h0]
      simp only [e1, e2, e3, ez]
      have hb : maxI64 - maxTimeBuffer = errorValue := rfl
      rw [hb]
      split
      · exact ⟨Or.inl rfl, herr, Int.le_refl _⟩
      · exact ⟨Or.inr rfl, by omega, by omega⟩

/-- machine `NextRound` equals the exact layer on the property's domain -/
theorem c16_next_round_refines (now : Int) (p : Nat) (g : Int)
    (hp1 : 1 ≤ p) (hp2 : p < 4294967296) (hg0 : 0 ≤ g) (hg : g ≤ 4294967296)
    (hnow : now - g ≤ 1125899906842624) :
    nextRoundM now p g = nextRoundZ now p g := by
  unfold nextRoundM nextRoundZ
  by_cases hlt : now < g
  · simp [hlt]
  · simp only [hlt, if_false]
    have w1 : wrapI64 (now - g) = now - g := by unfold wrapI64 two63 two64; omega
    rw [w1]
    obtain ⟨a, ha⟩ : ∃ a : Nat, now - g = (a : Int) := ⟨(now - g).toNat, by omega⟩
    rw [ha, Int.toNat_natCast]
    have ha2 : a ≤ 1125899906842624 := by omega
    have hq : a / p ≤ a := Nat.div_le_self a p
    have hqp : a / p * p ≤ a := Nat.div_mul_le_self a p
    generalize a / p = q at *
    have m1 : (q + 1) % two64 = q + 1 := Nat.mod_eq_of_lt (by unfold two64; omega)
    rw [m1]
    have hm : (q + 1) * p ≤ 1125899906842624 + 4294967296 := by rw [Nat.add_mul]; omega
    have m2 : (q + 1) * p % two64 = (q + 1) * p := Nat.mod_eq_of_lt (by unfold two64; omega)
    have m3 : (q + 1 + 1) % two64 = q + 1 + 1 := Nat.mod_eq_of_lt (by unfold two64; omega)
    rw [m2, m3]
    have t1 : toI64 ((q + 1) * p) = (((q + 1) * p : Nat) : Int) := by unfold toI64 two63; split <;> omega
    rw [t1]
    have w2 : wrapI64 (g + (((q + 1) * p : Nat) : Int)) = g + (((q + 1) * p : Nat) : Int) := by
      unfold wrapI64 two63 two64; omega
    rw [w2]; push_cast; rfl

theorem c16_current_round_refines (now : Int) (p : Nat) (g : Int)
    (hp1 : 1 ≤ p) (hp2 : p < 4294967296) (hg0 : 0 ≤ g) (hg : g ≤ 4294967296)
    (hnow : now - g ≤ 1125899906842624) :
    currentRoundM now p g = currentRoundZ now p g := by
  unfold currentRoundM currentRoundZ
  rw [c16_next_round_refines now p g hp1 hp2 hg0 hg hnow]


/-- below the round limit, when the exact time fits under the error value, the machine result is exact
(so the error value is not returned spuriously) -/
theorem c16_time_of_round_exact (p : Nat) (g : Int) (round : Nat)
    (hp2 : p < 4294967296) (hg0 : 0 ≤ g) (hg : g ≤ 4294967296)
    (hlim : round < roundLimit p) (hfit : timeOfRoundZ p g round ≤ errorValue) :
    timeOfRoundM p g round = timeOfRoundZ p g round := by
  unfold timeOfRoundM
  by_cases h0 : round = 0
  · simp [h0, timeOfRoundZ]
  · have hd := delta_ok p round hp2 h0 (by omega)
    simp only [h0, if_false, show ¬ round ≥ roundLimit p by omega]
    have e1 : (round - 1) * p % two64 = (round - 1) * p := Nat.mod_eq_of_lt (by unfold two64; omega)
    have e2 : toI64 ((round - 1) * p) = (((round - 1) * p : Nat) : Int) := by
      unfold toI64 two63; split <;> omega
    have e3 : wrapI64 (g + (((round - 1) * p : Nat) : Int)) = g + (((round - 1) * p : Nat) : Int) := by
      unfold wrapI64 two63 two64; omega
    have ez : timeOfRoundZ p g round = g + (((round - 1) * p : Nat) : Int) := by
      simp [timeOfRoundZ, h0]
    rw [ez] at hfit
    simp only [e1, e2, e3, ez]
    unfold errorValue at hfit
    split <;> first | rfl | omega


/-! ### tie: the rest of the code derives rounds and times only through the three functions of common/time.go -/

/-- the HTTP layer's schedule is `time.Unix(common.TimeOfRound(...), 0)`, and the ticker, the handler, the sync manager
and the DKG derive rounds/times through common.CurrentRound / NextRound / TimeOfRound only (regenerated call list) -/
theorem tie_time_calls :
    Gen.dateOfRoundBody = "return time.Unix(common.TimeOfRound(info.Period,info.GenesisTime,round),0)" ∧
    Gen.timeCalls = [
      ("handler/http:DrandHandler.Health", "CurrentRound"),
      ("handler/http:dateOfRound", "TimeOfRound"),
      ("internal/chain/beacon:Handler.Catchup", "NextRound"),
      ("internal/chain/beacon:Handler.ProcessPartialBeacon", "NextRound"),
      ("internal/chain/beacon:Handler.Start", "NextRound"),
      ("internal/chain/beacon:Handler.Transition", "CurrentRound"),
      ("internal/chain/beacon:Handler.Transition", "TimeOfRound"),
      ("internal/chain/beacon:Handler.TransitionNewGroup", "CurrentRound"),
      ("internal/chain/beacon:Handler.TransitionNewGroup", "TimeOfRound"),
      ("internal/chain/beacon:SyncManager.tryNode", "CurrentRound"),
      ("internal/chain/beacon:discrepancyStore.Put", "TimeOfRound"),
      ("internal/chain/beacon:ticker.CurrentRound", "CurrentRound"),
      ("internal/chain/beacon:ticker.Start", "CurrentRound"),
      ("internal/chain/beacon:ticker.Start", "NextRound"),
      ("internal/dkg:Process.startDKGExecution", "CurrentRound"),
      ("internal/dkg:Process.startDKGExecution", "TimeOfRound")] := by
  constructor <;> rfl

/-! ### non-vacuity: concrete points of the domain -/
example : timeOfRoundM 30 1595431050 1000 = 1595431050 + 999 * 30 := by decide
example : timeOfRoundM 4294967295 4294967296 (two64 - 1) = errorValue := by decide
example : nextRoundM 1595431050 30 1595431050 = (2, 1595431080) := by decide
example : (1000 : Nat) < roundLimit 30 := by decide

end Drand.Time
