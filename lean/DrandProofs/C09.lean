/-
C09 — DKG control messages are accepted only from the member they claim to be from.
Signatures are idealised (`Meta.sigKey`, `Meta.sigMsg`): a signature verifies under key k on message m iff it was made
with k on m (EUF-CMA idealisation of the BLS identity signature), so "verifies" is `verifyMessage`'s test.
-/
import Drand.DKG.Process

namespace Drand.DKG
open Drand

/-! ### proof infrastructure -/

section helpers
private theorem bind_ok_iff {α β} {x : Except Err α} {f : α → Except Err β} {b : β} :
    (x >>= f) = .ok b ↔ ∃ a, x = .ok a ∧ f a = .ok b := by
  cases x <;> simp [bind, Except.bind]

private theorem guard_ok_iff {c : Prop} [Decidable c] {e : Err} {u : Unit} :
    (if c then (throw e : Except Err Unit) else pure ()) = .ok u ↔ ¬ c := by
  split <;> simp_all [throw, throwThe, MonadExcept.throw, pure, Except.pure]

private theorem pure_ok_iff {α} {a b : α} : (pure a : Except Err α) = .ok b ↔ a = b := by
  simp [pure, Except.pure]

private theorem throw_ne_ok {α} {e : Err} {b : α} : (throw e : Except Err α) = .ok b ↔ False := by
  simp [throw, throwThe, MonadExcept.throw]

private theorem ite_throw_ok_iff {α β} {c : Prop} [Decidable c] {e : Err} {k : α → Except Err β}
    {r : Except Err β} {b : β} :
    (if c then ((throw e : Except Err α) >>= k) else r) = .ok b ↔ ¬ c ∧ r = .ok b := by
  split <;> simp_all [throw, throwThe, MonadExcept.throw, bind, Except.bind]

private theorem ite_throw_ok_iff' {β} {c : Prop} [Decidable c] {e : Err}
    {r : Except Err β} {b : β} :
    (if c then (throw e : Except Err β) else r) = .ok b ↔ ¬ c ∧ r = .ok b := by
  split <;> simp_all [throw, throwThe, MonadExcept.throw]

private theorem validChange_ok {a b : Status} {u : Unit} :
    validChange a b = .ok u ↔ Gen.isValidStateChange a b = true := by
  unfold validChange; split <;> simp_all
end helpers

local macro "exc" " at " h:ident : tactic =>
  `(tactic| simp only [bind_ok_iff, ite_throw_ok_iff, ite_throw_ok_iff', guard_ok_iff, pure_ok_iff, throw_ne_ok,
      validChange_ok, exists_const, false_and, and_false, exists_false] at $h:ident)


private theorem verifyMessage_ok {m : Meta} {pk : Packet} {t : Terms} {u} (h : verifyMessage m pk t = .ok u) :
    ∃ part, part ∈ t.remaining ++ t.joining ∧ part.addr = m.addr ∧ m.sigKey = part.key ∧
      m.sigMsg = messageForSigning m.beaconID pk t := by
  unfold verifyMessage at h
  split at h
  · cases h
  · rename_i part hf
    split at h
    · rename_i hc
      simp only [Bool.and_eq_true, beq_iff_eq, decide_eq_true_eq] at hc
      have h1 := List.mem_of_find?_eq_some hf
      have h2 := List.find?_some hf
      simp only [beq_iff_eq] at h2
      exact ⟨part, h1, h2, hc.1, hc.2⟩
    · cases h

private theorem packet_changed {p : Proc} {m : Meta} {pk : Packet} {now : Int} (h : (p.packet m pk now).1 ≠ p) :
    ∃ n, applyPacket p.base p.me pk m.addr now = .ok n ∧ verifyMessage m pk (termsFromState n) = .ok () ∧
      (p.packet m pk now).1.current = some n := by
  unfold Proc.packet at h ⊢
  split
  · rename_i hc; rw [if_pos hc] at h; exact (h rfl).elim
  rename_i hc; rw [if_neg hc] at h
  split
  · rename_i hc; rw [if_pos hc] at h; exact (h rfl).elim
  rename_i hc; rw [if_neg hc] at h
  split
  · rename_i e he; rw [he] at h; exact (h rfl).elim
  rename_i n hn
  split
  · rename_i e he; rw [hn] at h; simp only [he] at h; exact (h rfl).elim
  rename_i hv
  refine ⟨n, hn, hv, ?_⟩
  cases pk <;> simp only [] <;> (try split) <;> rfl

private theorem flatMap_pair_length {α β} (f g : α → β) (l : List α) :
    (l.flatMap (fun p => [f p, g p])).length = 2 * l.length := by
  induction l with
  | nil => rfl
  | cons a l ih => simp only [List.flatMap_cons, List.length_append, List.length_cons, List.length_nil, ih]; omega

private theorem flatMap_sig (f : Participant → String) :
    ∀ (l l' : List Participant),
      l.flatMap (fun p => [Seg.str (f p), Seg.bytes p.sig]) = l'.flatMap (fun p => [Seg.str (f p), Seg.bytes p.sig]) →
      l.map (·.sig) = l'.map (·.sig)
  | [], [], _ => rfl
  | [], _ :: _, h => by simp at h
  | _ :: _, [], h => by simp at h
  | a :: l, b :: l', h => by
    simp only [List.flatMap_cons, List.cons_append, List.nil_append, List.cons.injEq, Seg.bytes.injEq] at h
    simp only [List.map_cons, List.cons.injEq]
    exact ⟨h.2.1, flatMap_sig f l l' h.2.2⟩

private theorem proposed_role {d : DBState} {me t sender now n} (h : d.proposed me t sender now = .ok n) :
    t.leader.addr = sender ∧ n.leader = some t.leader := by
  unfold DBState.proposed at h
  exc at h
  obtain ⟨-, h1, _, -, -, rfl⟩ := h
  exact ⟨by simpa using h1, rfl⟩

private theorem aborted_role {d : DBState} {sender n} (h : d.aborted sender = .ok n) :
    (n.leader.map (·.addr)).getD "" = sender := by
  unfold DBState.aborted at h
  exc at h
  obtain ⟨-, h1, rfl⟩ := h
  simpa using h1

private theorem executing_role {d : DBState} {me sender now n} (h : d.executing me sender now = .ok n) :
    (d.leader.map (·.addr)).getD "" = sender ∧ n.leader = d.leader := by
  unfold DBState.executing at h
  exc at h
  obtain ⟨-, h⟩ := h
  split at h
  · exc at h
    obtain ⟨h1, h⟩ := h
    unfold DBState.left at h
    exc at h
    obtain ⟨-, -, -, rfl⟩ := h
    have : sender = (d.leader.map (·.addr)).getD "" := by simpa using h1
    exact ⟨this.symm, rfl⟩
  · exc at h
    obtain ⟨-, -, h1, rfl⟩ := h
    have : sender = (d.leader.map (·.addr)).getD "" := by simpa using h1
    exact ⟨this.symm, rfl⟩

private theorem receivedAcceptance_role {d : DBState} {them sender n} (h : d.receivedAcceptance them sender = .ok n) :
    them.addr = sender ∧ contains n.remaining them = true := by
  unfold DBState.receivedAcceptance at h
  exc at h
  obtain ⟨-, h1, -, h2, rfl⟩ := h
  have : sender = them.addr := by simpa using h2
  exact ⟨this.symm, by simpa using h1⟩

private theorem receivedRejection_role {d : DBState} {them sender n} (h : d.receivedRejection them sender = .ok n) :
    them.addr = sender ∧ contains n.remaining them = true := by
  unfold DBState.receivedRejection at h
  exc at h
  obtain ⟨-, h1, -, h2, rfl⟩ := h
  have : sender = them.addr := by simpa using h2
  exact ⟨this.symm, by simpa using h1⟩

/-! ### the property -/

/-- a packet that changes anything was signed, over the message derived from the very state being stored, by the key
that the stored state's own participant lists record for the claimed sender -/
theorem c09_signed_by_listed (p : Proc) (m : Meta) (pk : Packet) (now : Int)
    (h : (p.packet m pk now).1 ≠ p) :
    ∃ next part, (p.packet m pk now).1.current = some next ∧
      part ∈ next.remaining ++ next.joining ∧ part.addr = m.addr ∧ m.sigKey = part.key ∧
      m.sigMsg = messageForSigning m.beaconID pk (termsFromState next) := by
  obtain ⟨n, -, hv, hc⟩ := packet_changed h
  obtain ⟨part, h1, h2, h3, h4⟩ := verifyMessage_ok hv
  exact ⟨n, part, hc, h1, h2, h3, h4⟩

/-- only the leader proposes, executes or aborts; only a remaining member accepts or rejects, and only for itself.
(The leader of a record is compared through `getD ""`, as the model of `d.Leader.Address` does; the form
`… = some m.addr` fails only for a record with `leader = none`, which no proposal produces.) -/
theorem c09_role (p : Proc) (m : Meta) (pk : Packet) (now : Int) (h : (p.packet m pk now).1 ≠ p) :
    ∃ next, (p.packet m pk now).1.current = some next ∧
      (match pk with
       | .proposal t => t.leader.addr = m.addr ∧ next.leader = some t.leader
       | .execute _ => (next.leader.map (·.addr)).getD "" = m.addr
       | .abort _ => (next.leader.map (·.addr)).getD "" = m.addr
       | .accept a => a.addr = m.addr ∧ contains next.remaining a = true
       | .reject r => r.addr = m.addr ∧ contains next.remaining r = true) := by
  obtain ⟨n, ha, -, hc⟩ := packet_changed h
  refine ⟨n, hc, ?_⟩
  cases pk with
  | proposal t => exact proposed_role ha
  | accept a => exact receivedAcceptance_role ha
  | reject r => exact receivedRejection_role ha
  | execute _ =>
    obtain ⟨h1, h2⟩ := executing_role ha
    simp only [h2]; exact h1
  | abort _ => exact aborted_role ha

/-
History: before the fix, `DBState.Executing` sent a node listed as *leaving* to `Left` BEFORE comparing the sender with
the leader, so an `execute` packet from ANY listed member moved a leaver to `Left`. Witness (replayed on the real
dkg.Process): me = leaver "x" in state Proposed with leader "l"; an `execute` packet from the remaining member "r",
signed by "r", was stored with state `Left`. Fixed by drand commit "fix: only the leader's execute packet moves a leaver
to Left"; the model follows the repaired code, and the rule is now:
-/
/-- an `execute` packet that changes anything comes from the address of the leader recorded in the state it is applied to
(leavers included) -/
theorem c09_execute_needs_leader (p : Proc) (m : Meta) (t : Int) (now : Int)
    (h : (p.packet m (.execute t) now).1 ≠ p) : (p.base.leader.map (·.addr)).getD "" = m.addr := by
  obtain ⟨n, ha, -, -⟩ := packet_changed h
  exact (executing_role ha).1

/-- a signature made by anybody who is not listed (under the claimed address) in the terms being applied changes nothing -/
theorem c09_unlisted_key_rejected (p : Proc) (m : Meta) (pk : Packet) (now : Int)
    (h : ∀ next, applyPacket p.base p.me pk m.addr now = .ok next →
        ∀ part ∈ next.remaining ++ next.joining, part.addr = m.addr → part.key ≠ m.sigKey) :
    (p.packet m pk now).1 = p := by
  apply Classical.byContradiction
  intro hne
  obtain ⟨n, ha, hv, -⟩ := packet_changed hne
  obtain ⟨part, h1, h2, h3, -⟩ := verifyMessage_ok hv
  exact h n ha part h1 h2 h3.symm

/-- the fields the signature covers: two terms with the same signed message agree on every one of them -/
theorem c09_terms_covered (b : String) (pk : Packet) (t t' : Terms)
    (h : messageForSigning b pk t = messageForSigning b pk t')
    (hl : t.joining.length = t'.joining.length ∧ t.remaining.length = t'.remaining.length) :
    t.epoch = t'.epoch ∧ t.threshold = t'.threshold ∧ t.timeout = t'.timeout ∧ t.catchupSec = t'.catchupSec ∧
    t.periodSec = t'.periodSec ∧ t.genesisTime = t'.genesisTime ∧ t.leader.sig = t'.leader.sig ∧
    t.joining.map (·.sig) = t'.joining.map (·.sig) ∧ t.remaining.map (·.sig) = t'.remaining.map (·.sig) ∧
    t.leaving.map (·.sig) = t'.leaving.map (·.sig) := by
  unfold messageForSigning at h
  simp only [List.append_assoc] at h
  have h := List.append_cancel_left h
  have h := (List.append_inj h rfl).2
  simp only [List.cons_append, List.nil_append, List.cons.injEq, Seg.u32.injEq, Seg.time.injEq, Seg.bytes.injEq] at h
  obtain ⟨-, -, e1, -, e2, e3, e4, e5, e6, -, e7, h⟩ := h
  have hJ := List.append_inj h (by rw [flatMap_pair_length, flatMap_pair_length, hl.1])
  have hR := List.append_inj hJ.2 (by rw [flatMap_pair_length, flatMap_pair_length, hl.2])
  exact ⟨e1, e3, e4, e5, e6, e7, e2, flatMap_sig _ _ _ hJ.1, flatMap_sig _ _ _ hR.1, flatMap_sig _ _ _ hR.2⟩

/-- … and what it does NOT cover: the genesis seed and the public keys of the participants are not in the signed
message (two different term sets, one signature) -/
theorem c09_seed_and_keys_not_covered :
    ∃ t t' : Terms, (t.genesisSeed ≠ t'.genesisSeed ∧ t.remaining.map (·.key) ≠ t'.remaining.map (·.key)) ∧
      ∀ b pk, messageForSigning b pk t = messageForSigning b pk t' := by
  refine ⟨{ (default : Terms) with genesisSeed := [1], remaining := [{ addr := "a", key := [1], sig := [7] }] },
          { (default : Terms) with genesisSeed := [2], remaining := [{ addr := "a", key := [2], sig := [7] }] },
          ⟨by decide, by decide⟩, ?_⟩
  intro b pk
  rfl

/-
"A node that already belongs to the group authenticates members against the public keys recorded in its current
group, not against keys supplied in the packet" does NOT hold for the code as it is: `validateReshareForRemainers`
compares participants with the last group by ADDRESS only and `verifyMessage` takes the verification key from the
packet's own participant list. Witness: a member whose completed group records leader address "l" with key [2]
accepts a reshare proposal naming address "l" with the attacker's key [66], signed by the attacker.
Replayed on the real dkg.Process by the check (known finding "member-accepts-substituted-leader-key").
-/
def honestL : Participant := { addr := "l", key := [2], sig := [2], scheme := "pedersen-bls-chained" }
def honestM : Participant := { addr := "m", key := [3], sig := [3], scheme := "pedersen-bls-chained" }
def attackerL : Participant := { addr := "l", key := [66], sig := [66], scheme := "pedersen-bls-chained" }
def memberState : DBState :=
  { beaconID := "default", epoch := 1, state := .complete, threshold := 2, timeout := 100,
    schemeID := "pedersen-bls-chained", genesisTime := 5, genesisSeed := [9], catchupSec := 1, periodSec := 3,
    leader := some honestL, joining := [honestL, honestM],
    finalGroup := some { nodes := [honestL, honestM], genesisTime := 5, genesisSeed := [9], tag := 1 }, keyShare := some 1 }
def forgedTerms : Terms :=
  { beaconID := "default", epoch := 2, threshold := 2, timeout := 100, schemeID := "pedersen-bls-chained", genesisTime := 5,
    genesisSeed := [9], catchupSec := 1, periodSec := 3, leader := attackerL, joining := [],
    remaining := [attackerL, honestM], leaving := [] }

theorem c09_substitution_counterexample :
    let p : Proc := { beaconID := "default", me := honestM, current := some memberState, finished := some memberState }
    let m : Meta := { beaconID := "default", addr := "l", sigId := "0011223344", sigKey := attackerL.key,
                      sigMsg := messageForSigning "default" (.proposal forgedTerms) forgedTerms }
    ∃ next, (p.packet m (.proposal forgedTerms) 0).1.current = some next ∧ next.state = .proposed ∧
      next.leader.map (·.key) = some [66] := by
  intro p m
  have h : (p.packet m (.proposal forgedTerms) 0).1.current.map (fun n => (n.state, n.leader.map (·.key))) =
      some (.proposed, some [66]) := by decide
  cases hc : (p.packet m (.proposal forgedTerms) 0).1.current with
  | none => rw [hc] at h; cases h
  | some next =>
    rw [hc] at h
    simp only [Option.map_some, Option.some.injEq, Prod.mk.injEq] at h
    exact ⟨next, rfl, h.1, h.2⟩

/-- the corrected rule (keys of remaining and leaving members must equal the keys recorded in the current group)
would refuse it: for a proposal accepted by a member under that rule, the verification key is the recorded one -/
def keysMatchGroup (g : GroupLite) (t : Terms) : Bool :=
  (t.remaining ++ t.leaving).all fun p => g.nodes.any fun n => n.addr == p.addr && n.key == p.key

theorem c09_member_uses_group_keys_corrected (g : GroupLite) (t : Terms) (part : Participant)
    (hk : keysMatchGroup g t = true) (hp : part ∈ t.remaining) :
    ∃ n ∈ g.nodes, n.addr = part.addr ∧ n.key = part.key := by
  unfold keysMatchGroup at hk
  rw [List.all_eq_true] at hk
  have := hk part (List.mem_append_left _ hp)
  rw [List.any_eq_true] at this
  obtain ⟨n, hn, h⟩ := this
  simp only [Bool.and_eq_true, beq_iff_eq] at h
  exact ⟨n, hn, h.1, h.2⟩

end Drand.DKG
