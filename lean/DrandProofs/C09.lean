/-
C09 — DKG control messages are accepted only from the member they claim to be from.
Signatures are idealised (`Meta.sigKey`, `Meta.sigMsg`): a signature verifies under key k on message m iff it was made
with k on m (EUF-CMA idealisation of the BLS identity signature), so "verifies" is `verifyMessage`'s test.
-/
import Drand.DKG.Process
import Gen.DKGAuth

namespace Drand.DKG
open Drand

/-! ### proof infrastructure -/

section helpers
private theorem bind_ok_iff {α β} {x : Except Err α} {f : α → Except Err β} {b : β} :
    (x >>= f) = .ok b ↔ ∃ a, x = .ok a ∧ f a = .ok b := by
  cases x <;> simp [bind, Except.bind]

private theorem guard_ok_iff {c : Prop} [Decidable c] {e : Err} {u : Unit} :
    (if c then (throw e : Except Err Unit) else pure ()) = .ok u ↔ ¬ c := by
  split <;> simp_all [throw, throwThe, MonadExcept.throw, pure, Except.pure]

private theorem pure_ok_iff {α} {a b : α} : (pure a : Except Err α) = .ok b ↔ a = b := by
  simp [pure, Except.pure]

private theorem throw_ne_ok {α} {e : Err} {b : α} : (throw e : Except Err α) = .ok b ↔ False := by
  simp [throw, throwThe, MonadExcept.throw]

private theorem ite_throw_ok_iff {α β} {c : Prop} [Decidable c] {e : Err} {k : α → Except Err β}
    {r : Except Err β} {b : β} :
    (if c then ((throw e : Except Err α) >>= k) else r) = .ok b ↔ ¬ c ∧ r = .ok b := by
  split <;> simp_all [throw, throwThe, MonadExcept.throw, bind, Except.bind]

private theorem ite_throw_ok_iff' {β} {c : Prop} [Decidable c] {e : Err}
    {r : Except Err β} {b : β} :
    (if c then (throw e : Except Err β) else r) = .ok b ↔ ¬ c ∧ r = .ok b := by
  split <;> simp_all [throw, throwThe, MonadExcept.throw]

private theorem validChange_ok {a b : Status} {u : Unit} :
    validChange a b = .ok u ↔ Gen.isValidStateChange a b = true := by
  unfold validChange; split <;> simp_all
end helpers

local macro "exc" " at " h:ident : tactic =>
  `(tactic| simp only [bind_ok_iff, ite_throw_ok_iff, ite_throw_ok_iff', guard_ok_iff, pure_ok_iff, throw_ne_ok,
      validChange_ok, exists_const, false_and, and_false, exists_false] at $h:ident)


private theorem verifyMessage_ok {m : Meta} {pk : Packet} {t : Terms} {u} (h : verifyMessage m pk t = .ok u) :
    ∃ part, part ∈ t.remaining ++ t.joining ∧ part.addr = m.addr ∧ m.sigKey = part.key ∧
      encodeSegs m.sigMsg = encodeSegs (messageForSigning m.beaconID pk t) := by
  unfold verifyMessage at h
  split at h
  · cases h
  · rename_i part hf
    split at h
    · rename_i hc
      simp only [Bool.and_eq_true, beq_iff_eq] at hc
      have h1 := List.mem_of_find?_eq_some hf
      have h2 := List.find?_some hf
      simp only [beq_iff_eq] at h2
      exact ⟨part, h1, h2, hc.1, hc.2⟩
    · cases h

private theorem packet_changed {p : Proc} {m : Meta} {pk : Packet} {now : Int} (h : (p.packet m pk now).1 ≠ p) :
    ∃ n, applyPacket p.base p.me pk m.addr now = .ok n ∧ verifyMessage m pk (termsFromState n) = .ok () ∧
      (p.packet m pk now).1.current = some n := by
  unfold Proc.packet at h ⊢
  split
  · rename_i hc; rw [if_pos hc] at h; exact (h rfl).elim
  rename_i hc; rw [if_neg hc] at h
  split
  · rename_i hc; rw [if_pos hc] at h; exact (h rfl).elim
  rename_i hc; rw [if_neg hc] at h
  split
  · rename_i e he; rw [he] at h; exact (h rfl).elim
  rename_i n hn
  split
  · rename_i e he; rw [hn] at h; simp only [he] at h; exact (h rfl).elim
  rename_i hv
  refine ⟨n, hn, hv, ?_⟩
  cases pk <;> simp only [] <;> (try split) <;> rfl

private theorem flatMap_pair_length {α β} (f g : α → β) (l : List α) :
    (l.flatMap (fun p => [f p, g p])).length = 2 * l.length := by
  induction l with
  | nil => rfl
  | cons a l ih => simp only [List.flatMap_cons, List.length_append, List.length_cons, List.length_nil, ih]; omega

private theorem flatMap_sig (f : Participant → String) :
    ∀ (l l' : List Participant),
      l.flatMap (fun p => [Seg.str (f p), Seg.bytes p.sig]) = l'.flatMap (fun p => [Seg.str (f p), Seg.bytes p.sig]) →
      l.map (·.sig) = l'.map (·.sig)
  | [], [], _ => rfl
  | [], _ :: _, h => by simp at h
  | _ :: _, [], h => by simp at h
  | a :: l, b :: l', h => by
    simp only [List.flatMap_cons, List.cons_append, List.nil_append, List.cons.injEq, Seg.bytes.injEq] at h
    simp only [List.map_cons, List.cons.injEq]
    exact ⟨h.2.1, flatMap_sig f l l' h.2.2⟩

private theorem proposed_role {d : DBState} {me t sender now n} (h : d.proposed me t sender now = .ok n) :
    t.leader.addr = sender ∧ n.leader = some t.leader := by
  unfold DBState.proposed at h
  exc at h
  obtain ⟨-, h1, _, -, -, rfl⟩ := h
  exact ⟨by simpa using h1, rfl⟩

private theorem aborted_role {d : DBState} {sender n} (h : d.aborted sender = .ok n) :
    (n.leader.map (·.addr)).getD "" = sender := by
  unfold DBState.aborted at h
  exc at h
  obtain ⟨-, h1, rfl⟩ := h
  simpa using h1

private theorem executing_role {d : DBState} {me sender now n} (h : d.executing me sender now = .ok n) :
    (d.leader.map (·.addr)).getD "" = sender ∧ n.leader = d.leader := by
  unfold DBState.executing at h
  exc at h
  obtain ⟨-, h⟩ := h
  split at h
  · exc at h
    obtain ⟨h1, h⟩ := h
    unfold DBState.left at h
    exc at h
    obtain ⟨-, -, -, rfl⟩ := h
    have : sender = (d.leader.map (·.addr)).getD "" := by simpa using h1
    exact ⟨this.symm, rfl⟩
  · exc at h
    obtain ⟨-, -, h1, rfl⟩ := h
    have : sender = (d.leader.map (·.addr)).getD "" := by simpa using h1
    exact ⟨this.symm, rfl⟩

private theorem receivedAcceptance_role {d : DBState} {them sender n} (h : d.receivedAcceptance them sender = .ok n) :
    them.addr = sender ∧ contains n.remaining them = true := by
  unfold DBState.receivedAcceptance at h
  exc at h
  obtain ⟨-, h1, -, h2, rfl⟩ := h
  have : sender = them.addr := by simpa using h2
  exact ⟨this.symm, by simpa using h1⟩

private theorem receivedRejection_role {d : DBState} {them sender n} (h : d.receivedRejection them sender = .ok n) :
    them.addr = sender ∧ contains n.remaining them = true := by
  unfold DBState.receivedRejection at h
  exc at h
  obtain ⟨-, h1, -, h2, rfl⟩ := h
  have : sender = them.addr := by simpa using h2
  exact ⟨this.symm, by simpa using h1⟩

/-! ### the property -/

/-- a packet that changes anything was signed, over the BYTES of the message derived from the very state being stored, by the
key that the stored state's own participant lists record for the claimed sender. (What equal bytes say about the terms:
`c09_every_term_and_boundary_covered` for the message as a sequence of fields, DrandProofs/C09Layout.lean for the bytes.) -/
theorem c09_signed_by_listed (p : Proc) (m : Meta) (pk : Packet) (now : Int)
    (h : (p.packet m pk now).1 ≠ p) :
    ∃ next part, (p.packet m pk now).1.current = some next ∧
      part ∈ next.remaining ++ next.joining ∧ part.addr = m.addr ∧ m.sigKey = part.key ∧
      encodeSegs m.sigMsg = encodeSegs (messageForSigning m.beaconID pk (termsFromState next)) := by
  obtain ⟨n, -, hv, hc⟩ := packet_changed h
  obtain ⟨part, h1, h2, h3, h4⟩ := verifyMessage_ok hv
  exact ⟨n, part, hc, h1, h2, h3, h4⟩

/-- only the leader proposes, executes or aborts; only a remaining member accepts or rejects, and only for itself.
(The leader of a record is compared through `getD ""`, as the model of `d.Leader.Address` does; the form
`… = some m.addr` fails only for a record with `leader = none`, which no proposal produces.) -/
theorem c09_role (p : Proc) (m : Meta) (pk : Packet) (now : Int) (h : (p.packet m pk now).1 ≠ p) :
    ∃ next, (p.packet m pk now).1.current = some next ∧
      (match pk with
       | .proposal t => t.leader.addr = m.addr ∧ next.leader = some t.leader
       | .execute _ => (next.leader.map (·.addr)).getD "" = m.addr
       | .abort _ => (next.leader.map (·.addr)).getD "" = m.addr
       | .accept a => a.addr = m.addr ∧ contains next.remaining a = true
       | .reject r => r.addr = m.addr ∧ contains next.remaining r = true) := by
  obtain ⟨n, ha, -, hc⟩ := packet_changed h
  refine ⟨n, hc, ?_⟩
  cases pk with
  | proposal t => exact proposed_role ha
  | accept a => exact receivedAcceptance_role ha
  | reject r => exact receivedRejection_role ha
  | execute _ =>
    obtain ⟨h1, h2⟩ := executing_role ha
    simp only [h2]; exact h1
  | abort _ => exact aborted_role ha

/-
History: before the fix, `DBState.Executing` sent a node listed as *leaving* to `Left` BEFORE comparing the sender with
the leader, so an `execute` packet from ANY listed member moved a leaver to `Left`. Witness (replayed on the real
dkg.Process): me = leaver "x" in state Proposed with leader "l"; an `execute` packet from the remaining member "r",
signed by "r", was stored with state `Left`. Fixed by drand commit "fix: only the leader's execute packet moves a leaver
to Left"; the model follows the repaired code, and the rule is now:
-/
/-- an `execute` packet that changes anything comes from the address of the leader recorded in the state it is applied to
(leavers included) -/
theorem c09_execute_needs_leader (p : Proc) (m : Meta) (t : Int) (now : Int)
    (h : (p.packet m (.execute t) now).1 ≠ p) : (p.base.leader.map (·.addr)).getD "" = m.addr := by
  obtain ⟨n, ha, -, -⟩ := packet_changed h
  exact (executing_role ha).1

/-- a signature made by anybody who is not listed (under the claimed address) in the terms being applied changes nothing -/
theorem c09_unlisted_key_rejected (p : Proc) (m : Meta) (pk : Packet) (now : Int)
    (h : ∀ next, applyPacket p.base p.me pk m.addr now = .ok next →
        ∀ part ∈ next.remaining ++ next.joining, part.addr = m.addr → part.key ≠ m.sigKey) :
    (p.packet m pk now).1 = p := by
  apply Classical.byContradiction
  intro hne
  obtain ⟨n, ha, hv, -⟩ := packet_changed hne
  obtain ⟨part, h1, h2, h3, -⟩ := verifyMessage_ok hv
  exact h n ha part h1 h2 h3.symm

/-- the fields the signature covers: two terms with the same signed message agree on every one of them -/
theorem c09_terms_covered (b : String) (pk : Packet) (t t' : Terms)
    (h : messageForSigning b pk t = messageForSigning b pk t')
    (hl : t.joining.length = t'.joining.length ∧ t.remaining.length = t'.remaining.length) :
    t.epoch = t'.epoch ∧ t.threshold = t'.threshold ∧ t.timeout = t'.timeout ∧ t.catchupSec = t'.catchupSec ∧
    t.periodSec = t'.periodSec ∧ t.genesisTime = t'.genesisTime ∧ t.leader.sig = t'.leader.sig ∧
    t.joining.map (·.sig) = t'.joining.map (·.sig) ∧ t.remaining.map (·.sig) = t'.remaining.map (·.sig) ∧
    t.leaving.map (·.sig) = t'.leaving.map (·.sig) := by
  unfold messageForSigning at h
  simp only [List.append_assoc] at h
  have h := List.append_cancel_left h
  have h := (List.append_inj h rfl).2
  simp only [List.cons_append, List.nil_append, List.cons.injEq, Seg.u32.injEq, Seg.time.injEq, Seg.bytes.injEq] at h
  obtain ⟨-, -, e1, -, e2, e3, e4, e5, e6, -, e7, h⟩ := h
  have hJ := List.append_inj h (by rw [flatMap_pair_length, flatMap_pair_length, hl.1])
  have hR := List.append_inj hJ.2 (by rw [flatMap_pair_length, flatMap_pair_length, hl.2])
  exact ⟨e1, e3, e4, e5, e6, e7, e2, flatMap_sig _ _ _ hJ.1, flatMap_sig _ _ _ hR.1, flatMap_sig _ _ _ hR.2⟩

/-- … and what it does NOT cover: the genesis seed and the public keys of the participants are not in the signed
message (two different term sets, one signature) -/
theorem c09_seed_and_keys_not_covered :
    ∃ t t' : Terms, (t.genesisSeed ≠ t'.genesisSeed ∧ t.remaining.map (·.key) ≠ t'.remaining.map (·.key)) ∧
      ∀ b pk, messageForSigning b pk t = messageForSigning b pk t' := by
  refine ⟨{ (default : Terms) with genesisSeed := [1], remaining := [{ addr := "a", key := [1], sig := [7] }] },
          { (default : Terms) with genesisSeed := [2], remaining := [{ addr := "a", key := [2], sig := [7] }] },
          ⟨by decide, by decide⟩, ?_⟩
  intro b pk
  rfl

/-
"A node that already belongs to the group authenticates members against the public keys recorded in its current
group, not against keys supplied in the packet" does NOT hold for the code as it is: `validateReshareForRemainers`
compares participants with the last group by ADDRESS only and `verifyMessage` takes the verification key from the
packet's own participant list. Witness: a member whose completed group records leader address "l" with key [2]
accepts a reshare proposal naming address "l" with the attacker's key [66], signed by the attacker.
Replayed on the real dkg.Process by the check (known finding "member-accepts-substituted-leader-key").
-/
def honestL : Participant := { addr := "l", key := [2], sig := List.replicate 96 2, scheme := "pedersen-bls-chained" }
def honestM : Participant := { addr := "m", key := [3], sig := List.replicate 96 3, scheme := "pedersen-bls-chained" }
def attackerL : Participant := { addr := "l", key := [66], sig := List.replicate 96 66, scheme := "pedersen-bls-chained" }
def memberState : DBState :=
  { beaconID := "default", epoch := 1, state := .complete, threshold := 2, timeout := 100,
    schemeID := "pedersen-bls-chained", genesisTime := 5, genesisSeed := [9], catchupSec := 1, periodSec := 3,
    leader := some honestL, joining := [honestL, honestM],
    finalGroup := some { nodes := [honestL, honestM], genesisTime := 5, genesisSeed := [9], tag := 1 }, keyShare := some 1 }
def forgedTerms : Terms :=
  { beaconID := "default", epoch := 2, threshold := 2, timeout := 100, schemeID := "pedersen-bls-chained", genesisTime := 5,
    genesisSeed := [9], catchupSec := 1, periodSec := 3, leader := attackerL, joining := [],
    remaining := [attackerL, honestM], leaving := [] }

theorem c09_substitution_counterexample :
    let p : Proc := { beaconID := "default", me := honestM, current := some memberState, finished := some memberState }
    let m : Meta := { beaconID := "default", addr := "l", sigId := "0011223344", sigKey := attackerL.key,
                      sigMsg := messageForSigning "default" (.proposal forgedTerms) forgedTerms }
    ∃ next, (p.packet m (.proposal forgedTerms) 0).1.current = some next ∧ next.state = .proposed ∧
      next.leader.map (·.key) = some [66] := by
  intro p m
  have h : (p.packet m (.proposal forgedTerms) 0).1.current.map (fun n => (n.state, n.leader.map (·.key))) =
      some (.proposed, some [66]) := by decide +kernel
  cases hc : (p.packet m (.proposal forgedTerms) 0).1.current with
  | none => rw [hc] at h; cases h
  | some next =>
    rw [hc] at h
    simp only [Option.map_some, Option.some.injEq, Prod.mk.injEq] at h
    exact ⟨next, rfl, h.1, h.2⟩

/-- the corrected rule (keys of remaining and leaving members must equal the keys recorded in the current group)
would refuse it: for a proposal accepted by a member under that rule, the verification key is the recorded one -/
def keysMatchGroup (g : GroupLite) (t : Terms) : Bool :=
  (t.remaining ++ t.leaving).all fun p => g.nodes.any fun n => n.addr == p.addr && n.key == p.key

theorem c09_member_uses_group_keys_corrected (g : GroupLite) (t : Terms) (part : Participant)
    (hk : keysMatchGroup g t = true) (hp : part ∈ t.remaining) :
    ∃ n ∈ g.nodes, n.addr = part.addr ∧ n.key = part.key := by
  unfold keysMatchGroup at hk
  rw [List.all_eq_true] at hk
  have := hk part (List.mem_append_left _ hp)
  rw [List.any_eq_true] at this
  obtain ⟨n, hn, h⟩ := this
  simp only [Bool.and_eq_true, beq_iff_eq] at h
  exact ⟨n, hn, h.1, h.2⟩


/-! ### who is looked up: the FIRST participant of remaining ++ joining with the claimed address -/

theorem tie_verify_first_match :
    Gen.DKGAuth.verifyMessageLists = ["Remaining", "Joining"] ∧ Gen.DKGAuth.verifyMessageLookup = "first" := ⟨rfl, rfl⟩

/-- the signed message is made from, and checked against, `termsFromState` of the stored record: every term comes from the
field of the same name (the catch-up period from `CatchupPeriod`, not from `BeaconPeriod`, …) -/
theorem tie_terms_from_state :
    Gen.DKGAuth.termsFromStateFields =
      ["BeaconID=state.BeaconID", "BeaconPeriodSeconds=uint32(state.BeaconPeriod.Seconds())",
       "CatchupPeriodSeconds=uint32(state.CatchupPeriod.Seconds())", "Epoch=state.Epoch", "GenesisSeed=state.GenesisSeed",
       "GenesisTime=timestamppb.New(state.GenesisTime)", "Joining=state.Joining", "Leader=state.Leader", "Leaving=state.Leaving",
       "Remaining=state.Remaining", "SchemeID=state.SchemeID", "Threshold=state.Threshold",
       "Timeout=timestamppb.New(state.Timeout)"] := rfl

/-- the writes of `messageForSigning`, in order: the model's `messageForSigning` is this list -/
theorem tie_signing_writes :
    Gen.DKGAuth.signingWrites =
      ["str:\"beaconID:\"+beaconID+\"\\n\"", "switch-on-packet-type", "str:\"Proposal:\\n\"", "str:proposal.GetBeaconID()+\"\\n\"",
       "bytes:binary.LittleEndian.AppendUint32([]byte{},proposal.GetEpoch())",
       "str:\"\\nLeader:\"+proposal.GetLeader().GetAddress()+\"\\n\"", "bytes:proposal.GetLeader().GetSignature()",
       "bytes:binary.LittleEndian.AppendUint32([]byte{},proposal.GetThreshold())",
       "let:encTimeout=proposal.GetTimeout().AsTime().MarshalBinary()", "bytes:encTimeout",
       "bytes:binary.LittleEndian.AppendUint32([]byte{},proposal.GetCatchupPeriodSeconds())",
       "bytes:binary.LittleEndian.AppendUint32([]byte{},proposal.GetBeaconPeriodSeconds())",
       "str:\"\\nScheme: \"+proposal.GetSchemeID()+\"\\n\"", "let:encGenesis=proposal.GetGenesisTime().AsTime().MarshalBinary()",
       "bytes:encGenesis", "for:proposal.GetJoining()", "  str:\"\\nJoiner:\"+p.GetAddress()+\"\\nSig:\"", "  bytes:p.GetSignature()",
       "for:proposal.GetRemaining()", "  str:\"\\nRemainer:\"+p.GetAddress()+\"\\nSig:\"", "  bytes:p.GetSignature()",
       "for:proposal.GetLeaving()", "  str:\"\\nLeaver:\"+p.GetAddress()+\"\\nSig:\"", "  bytes:p.GetSignature()"] := rfl

/-- the key a packet is verified under is the key of the FIRST entry of remaining ++ joining that carries the claimed address -/
theorem c09_first_match (m : Meta) (pk : Packet) (t : Terms) (h : verifyMessage m pk t = .ok ()) :
    ∃ part, (t.remaining ++ t.joining).find? (fun p => p.addr == m.addr) = some part ∧ m.sigKey = part.key := by
  unfold verifyMessage at h
  split at h
  · cases h
  · rename_i part hf
    split at h
    · rename_i hc
      simp only [Bool.and_eq_true, beq_iff_eq] at hc
      exact ⟨part, hf, hc.1⟩
    · cases h

/-- DUPLICATE ADDRESSES: an entry among the joiners that reuses the address of a remaining member (an impostor with its own
key and a valid self-signature) never supplies the verification key — the member's own entry comes first. -/
theorem c09_joiner_cannot_shadow_member (m : Meta) (pk : Packet) (t : Terms) (r : Participant) (hr : r ∈ t.remaining)
    (ha : r.addr = m.addr) (h : verifyMessage m pk t = .ok ()) :
    ∃ r' ∈ t.remaining, r'.addr = m.addr ∧ m.sigKey = r'.key := by
  obtain ⟨part, hf, hk⟩ := c09_first_match m pk t h
  rw [List.find?_append] at hf
  have hs : (t.remaining.find? (fun p => p.addr == m.addr)).isSome = true := by
    rw [List.find?_isSome]
    exact ⟨r, hr, by simpa using ha⟩
  cases hfr : t.remaining.find? (fun p => p.addr == m.addr) with
  | none => rw [hfr] at hs; cases hs
  | some r' =>
    rw [hfr] at hf
    have hf : r' = part := by simpa using hf
    subst hf
    refine ⟨r', List.mem_of_find?_eq_some hfr, ?_, hk⟩
    simpa using List.find?_some hfr

/-- … so a packet signed with the impostor's key is refused -/
theorem c09_impostor_rejected (m : Meta) (pk : Packet) (t : Terms) (r : Participant) (hr : r ∈ t.remaining)
    (ha : r.addr = m.addr) (hk : ∀ r' ∈ t.remaining, r'.addr = m.addr → r'.key ≠ m.sigKey) :
    verifyMessage m pk t ≠ .ok () := by
  intro h
  obtain ⟨r', h1, h2, h3⟩ := c09_joiner_cannot_shadow_member m pk t r hr ha h
  exact hk r' h1 h2 h3.symm

def impostorM : Participant := { addr := "m", key := [77], sig := List.replicate 96 77, scheme := "pedersen-bls-chained" }
def dupTerms : Terms :=
  { beaconID := "default", epoch := 2, threshold := 2, timeout := 100, schemeID := "pedersen-bls-chained", genesisTime := 5,
    genesisSeed := [9], catchupSec := 1, periodSec := 3, leader := honestL, joining := [impostorM],
    remaining := [honestL, honestM], leaving := [] }

/-- non-vacuity: terms that list the member "m" among the remaining nodes and an impostor with the same address among the
joiners — an accept "from m" signed with the member's key verifies, the same signed with the impostor's key does not -/
def dupMeta (k : Bytes) : Meta :=
  { beaconID := "default", addr := "m", sigId := "0011223344", sigKey := k,
    sigMsg := messageForSigning "default" (.accept honestM) dupTerms }
example :
    (verifyMessage (dupMeta honestM.key) (.accept honestM) dupTerms).toOption = some () ∧
    (verifyMessage (dupMeta impostorM.key) (.accept honestM) dupTerms).toOption = none := by
  decide +kernel

/-! ### what the signature covers -/

/-- the entries `messageForSigning` writes for one participant list -/
def entries (lab : String) (l : List Participant) : List Seg :=
  l.flatMap (fun p => [Seg.str (lab ++ p.addr ++ "\nSig:"), Seg.bytes p.sig])

private theorem lab_inj (lab a b : String) (h : lab ++ a ++ "\nSig:" = lab ++ b ++ "\nSig:") : a = b := by
  have := congrArg String.toList h
  simp at this
  exact String.ext this

/-- two runs of entries under the same label, each followed by something that does not begin with an entry of that label -/
private theorem entries_split (lab : String) (j j' : List Participant) (X X' : List Seg)
    (hX : ∀ a g rest, X ≠ Seg.str (lab ++ a ++ "\nSig:") :: Seg.bytes g :: rest)
    (hX' : ∀ a g rest, X' ≠ Seg.str (lab ++ a ++ "\nSig:") :: Seg.bytes g :: rest)
    (h : entries lab j ++ X = entries lab j' ++ X') :
    j.map (fun p => (p.addr, p.sig)) = j'.map (fun p => (p.addr, p.sig)) ∧ X = X' := by
  induction j generalizing j' with
  | nil =>
    cases j' with
    | nil => exact ⟨rfl, by simpa [entries] using h⟩
    | cons b l' =>
      simp only [entries, List.flatMap_nil, List.nil_append, List.flatMap_cons, List.cons_append] at h
      exact absurd h (hX _ _ _)
  | cons a l ih =>
    cases j' with
    | nil =>
      simp only [entries, List.flatMap_nil, List.nil_append, List.flatMap_cons, List.cons_append] at h
      exact absurd h.symm (hX' _ _ _)
    | cons b l' =>
      simp only [entries, List.flatMap_cons, List.cons_append, List.nil_append, List.cons.injEq, Seg.str.injEq,
        Seg.bytes.injEq] at h
      obtain ⟨h1, h2, h3⟩ := h
      obtain ⟨ih1, ih2⟩ := ih l' h3
      refine ⟨?_, ih2⟩
      simp only [List.map_cons, List.cons.injEq, Prod.mk.injEq]
      exact ⟨⟨lab_inj _ _ _ h1, h2⟩, ih1⟩

private theorem head_ne (lab lab' : String) (hne : ∀ a b : String, lab ++ a ++ "\nSig:" ≠ lab' ++ b ++ "\nSig:")
    (l : List Participant) (Y : List Seg)
    (hY : ∀ a g rest, Y ≠ Seg.str (lab ++ a ++ "\nSig:") :: Seg.bytes g :: rest) :
    ∀ a g rest, entries lab' l ++ Y ≠ Seg.str (lab ++ a ++ "\nSig:") :: Seg.bytes g :: rest := by
  intro a g rest
  cases l with
  | nil => simpa [entries] using hY a g rest
  | cons b l' =>
    simp only [entries, List.flatMap_cons, List.cons_append, List.nil_append, ne_eq, List.cons.injEq, Seg.str.injEq, not_and]
    intro h
    exact absurd h.symm (hne a b.addr)

private theorem nil_ne (lab : String) : ∀ a g rest, ([] : List Seg) ≠ Seg.str (lab ++ a ++ "\nSig:") :: Seg.bytes g :: rest := by
  intro a g rest h; cases h

private theorem joiner_ne_remainer (a b : String) : "\nJoiner:" ++ a ++ "\nSig:" ≠ "\nRemainer:" ++ b ++ "\nSig:" := by
  intro h; have := congrArg String.toList h; simp at this
private theorem joiner_ne_leaver (a b : String) : "\nJoiner:" ++ a ++ "\nSig:" ≠ "\nLeaver:" ++ b ++ "\nSig:" := by
  intro h; have := congrArg String.toList h; simp at this
private theorem remainer_ne_leaver (a b : String) : "\nRemainer:" ++ a ++ "\nSig:" ≠ "\nLeaver:" ++ b ++ "\nSig:" := by
  intro h; have := congrArg String.toList h; simp at this

private theorem str_cancel (pre a b post : String) (h : pre ++ a ++ post = pre ++ b ++ post) : a = b := by
  have := congrArg String.toList h
  simp at this
  exact String.ext this

/-- EVERY TERM AND EVERY LIST BOUNDARY IS BOUND BY THE SIGNED MESSAGE (as a sequence of typed fields): two term records with
the same signed message agree on the beacon id, the epoch, the threshold, the timeout, the catch-up period, the beacon
period, the scheme, the genesis time, the leader's address and self-signature, and on the three participant lists —
which participant (address, self-signature) is joining, which remaining, which leaving, in which order. No hypothesis on
the lengths of the lists: the role label written before every participant fixes where one list ends and the next
begins. What is applied by a receiver and NOT in this list: the genesis seed and the participants' public keys
(`c09_seed_and_keys_not_covered`, findings 16). -/
theorem c09_every_term_and_boundary_covered (b : String) (pk : Packet) (t t' : Terms)
    (h : messageForSigning b pk t = messageForSigning b pk t') :
    t.beaconID = t'.beaconID ∧ t.epoch = t'.epoch ∧ t.threshold = t'.threshold ∧ t.timeout = t'.timeout ∧
    t.catchupSec = t'.catchupSec ∧ t.periodSec = t'.periodSec ∧ t.schemeID = t'.schemeID ∧ t.genesisTime = t'.genesisTime ∧
    t.leader.addr = t'.leader.addr ∧ t.leader.sig = t'.leader.sig ∧
    t.joining.map (fun p => (p.addr, p.sig)) = t'.joining.map (fun p => (p.addr, p.sig)) ∧
    t.remaining.map (fun p => (p.addr, p.sig)) = t'.remaining.map (fun p => (p.addr, p.sig)) ∧
    t.leaving.map (fun p => (p.addr, p.sig)) = t'.leaving.map (fun p => (p.addr, p.sig)) := by
  unfold messageForSigning at h
  simp only [List.append_assoc] at h
  have h := List.append_cancel_left h
  have h := (List.append_inj h rfl).2
  simp only [List.cons_append, List.nil_append, List.cons.injEq, Seg.u32.injEq, Seg.time.injEq, Seg.bytes.injEq,
    Seg.str.injEq] at h
  obtain ⟨-, eB, e1, eL, e2, e3, e4, e5, e6, eS, e7, h⟩ := h
  change entries "\nJoiner:" t.joining ++ (entries "\nRemainer:" t.remaining ++ entries "\nLeaver:" t.leaving) =
    entries "\nJoiner:" t'.joining ++ (entries "\nRemainer:" t'.remaining ++ entries "\nLeaver:" t'.leaving) at h
  have hJ := entries_split "\nJoiner:" _ _ _ _
    (head_ne _ _ joiner_ne_remainer _ _ (by
      have := head_ne "\nJoiner:" "\nLeaver:" joiner_ne_leaver t.leaving [] (nil_ne _)
      simpa using this))
    (head_ne _ _ joiner_ne_remainer _ _ (by
      have := head_ne "\nJoiner:" "\nLeaver:" joiner_ne_leaver t'.leaving [] (nil_ne _)
      simpa using this)) h
  have hR := entries_split "\nRemainer:" _ _ _ _
    (by have := head_ne "\nRemainer:" "\nLeaver:" remainer_ne_leaver t.leaving [] (nil_ne _); simpa using this)
    (by have := head_ne "\nRemainer:" "\nLeaver:" remainer_ne_leaver t'.leaving [] (nil_ne _); simpa using this) hJ.2
  have hL := entries_split "\nLeaver:" t.leaving t'.leaving [] [] (nil_ne _) (nil_ne _) (by simpa using hR.2)
  exact ⟨str_cancel "" _ _ "\n" (by simpa using eB), e1, e3, e4, e5, e6, str_cancel "\nScheme: " _ _ "\n" eS, e7,
    str_cancel "\nLeader:" _ _ "\n" eL, e2, hJ.1, hR.1, hL.1⟩


/-- non-vacuity of `c09_every_term_and_boundary_covered`: moving the last remaining member to the front of the leavers —
the concatenation joining ++ remaining ++ leaving is unchanged — changes the signed message -/
example :
    messageForSigning "default" (.proposal dupTerms) dupTerms ≠
    messageForSigning "default" (.proposal dupTerms) { dupTerms with remaining := [honestL], leaving := [honestM] } := by
  decide

end Drand.DKG
