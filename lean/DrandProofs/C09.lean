/-
C09 — DKG control messages are accepted only from the member they claim to be from.
Signatures are idealised (`Meta.sigKey`, `Meta.sigMsg`): a signature verifies under key k on message m iff it was made
with k on m (EUF-CMA idealisation of the BLS identity signature), so "verifies" is `verifyMessage`'s test.
-/
import Drand.DKG.Process

namespace Drand.DKG
open Drand

/-- a packet that changes anything was signed, over the message derived from the very state being stored, by the key
that the stored state's own participant lists record for the claimed sender -/
theorem c09_signed_by_listed (p : Proc) (m : Meta) (pk : Packet) (now : Int)
    (h : (p.packet m pk now).1 ≠ p) :
    ∃ next part, (p.packet m pk now).1.current = some next ∧
      part ∈ next.remaining ++ next.joining ∧ part.addr = m.addr ∧ m.sigKey = part.key ∧
      m.sigMsg = messageForSigning m.beaconID pk (termsFromState next) := by
  sorry

/-- only the leader proposes, executes or aborts; only a remaining member accepts or rejects, and only for itself -/
theorem c09_role (p : Proc) (m : Meta) (pk : Packet) (now : Int) (h : (p.packet m pk now).1 ≠ p) :
    ∃ next, (p.packet m pk now).1.current = some next ∧
      (match pk with
       | .proposal t => t.leader.addr = m.addr ∧ next.leader = some t.leader
       | .execute _ => (next.leader.map (·.addr)) = some m.addr
       | .abort _ => (next.leader.map (·.addr)) = some m.addr
       | .accept a => a.addr = m.addr ∧ contains next.remaining a = true
       | .reject r => r.addr = m.addr ∧ contains next.remaining r = true) := by
  sorry

/-- a signature made by anybody who is not listed (under the claimed address) in the terms being applied changes nothing -/
theorem c09_unlisted_key_rejected (p : Proc) (m : Meta) (pk : Packet) (now : Int)
    (h : ∀ next, applyPacket p.base p.me pk m.addr now = .ok next →
        ∀ part ∈ next.remaining ++ next.joining, part.addr = m.addr → part.key ≠ m.sigKey) :
    (p.packet m pk now).1 = p := by
  sorry

/-- the fields the signature covers: two terms with the same signed message agree on every one of them -/
theorem c09_terms_covered (b : String) (pk : Packet) (t t' : Terms)
    (h : messageForSigning b pk t = messageForSigning b pk t')
    (hl : t.joining.length = t'.joining.length ∧ t.remaining.length = t'.remaining.length) :
    t.epoch = t'.epoch ∧ t.threshold = t'.threshold ∧ t.timeout = t'.timeout ∧ t.catchupSec = t'.catchupSec ∧
    t.periodSec = t'.periodSec ∧ t.genesisTime = t'.genesisTime ∧ t.leader.sig = t'.leader.sig ∧
    t.joining.map (·.sig) = t'.joining.map (·.sig) ∧ t.remaining.map (·.sig) = t'.remaining.map (·.sig) ∧
    t.leaving.map (·.sig) = t'.leaving.map (·.sig) := by
  sorry

/-- … and what it does NOT cover: the genesis seed and the public keys of the participants are not in the signed
message (two different term sets, one signature) -/
theorem c09_seed_and_keys_not_covered :
    ∃ t t' : Terms, (t.genesisSeed ≠ t'.genesisSeed ∧ t.remaining.map (·.key) ≠ t'.remaining.map (·.key)) ∧
      ∀ b pk, messageForSigning b pk t = messageForSigning b pk t' := by
  sorry

/-
"A node that already belongs to the group authenticates members against the public keys recorded in its current
group, not against keys supplied in the packet" does NOT hold for the code as it is: `validateReshareForRemainers`
compares participants with the last group by ADDRESS only and `verifyMessage` takes the verification key from the
packet's own participant list. Witness: a member whose completed group records leader address "l" with key [2]
accepts a reshare proposal naming address "l" with the attacker's key [66], signed by the attacker.
Replayed on the real dkg.Process by the check (known finding "member-accepts-substituted-leader-key").
-/
def honestL : Participant := { addr := "l", key := [2], sig := [2], scheme := "pedersen-bls-chained" }
def honestM : Participant := { addr := "m", key := [3], sig := [3], scheme := "pedersen-bls-chained" }
def attackerL : Participant := { addr := "l", key := [66], sig := [66], scheme := "pedersen-bls-chained" }
def memberState : DBState :=
  { beaconID := "default", epoch := 1, state := .complete, threshold := 2, timeout := 100,
    schemeID := "pedersen-bls-chained", genesisTime := 5, genesisSeed := [9], catchupSec := 1, periodSec := 3,
    leader := some honestL, joining := [honestL, honestM],
    finalGroup := some { nodes := [honestL, honestM], genesisTime := 5, genesisSeed := [9], tag := 1 }, keyShare := some 1 }
def forgedTerms : Terms :=
  { beaconID := "default", epoch := 2, threshold := 2, timeout := 100, schemeID := "pedersen-bls-chained", genesisTime := 5,
    genesisSeed := [9], catchupSec := 1, periodSec := 3, leader := attackerL, joining := [],
    remaining := [attackerL, honestM], leaving := [] }

theorem c09_substitution_counterexample :
    let p : Proc := { beaconID := "default", me := honestM, current := some memberState, finished := some memberState }
    let m : Meta := { beaconID := "default", addr := "l", sigId := "0011223344", sigKey := attackerL.key,
                      sigMsg := messageForSigning "default" (.proposal forgedTerms) forgedTerms }
    ∃ next, (p.packet m (.proposal forgedTerms) 0).1.current = some next ∧ next.state = .proposed ∧
      next.leader.map (·.key) = some [66] := by
  sorry

/-- the corrected rule (keys of remaining and leaving members must equal the keys recorded in the current group)
would refuse it: for a proposal accepted by a member under that rule, the verification key is the recorded one -/
def keysMatchGroup (g : GroupLite) (t : Terms) : Bool :=
  (t.remaining ++ t.leaving).all fun p => g.nodes.any fun n => n.addr == p.addr && n.key == p.key

theorem c09_member_uses_group_keys_corrected (g : GroupLite) (t : Terms) (part : Participant)
    (hk : keysMatchGroup g t = true) (hp : part ∈ t.remaining) :
    ∃ n ∈ g.nodes, n.addr = part.addr ∧ n.key = part.key := by
  sorry

end Drand.DKG
