/-
C16 (float layer): `math.Floor(float64(a) / period.Seconds())` in common.NextRound equals the exact integer quotient.
Go's float64 division is one correctly rounded IEEE-754 binary64 operation; what is used of it here is stated as the
hypotheses `RoundsLikeBinary64` about an abstract rounding function on ℚ (these are facts about IEEE-754, part of the
trusted base; Lean's own `Float` is opaque to the kernel): monotone, exact on integers up to 2^53, relative error ≤ 2^-53.
-/
import Mathlib.Algebra.Order.Floor.Ring
import Mathlib.Tactic.Linarith
import Mathlib.Tactic.Positivity
import Mathlib.Tactic.FieldSimp
import Mathlib.Tactic.Ring
import Mathlib.Tactic.NormNum
import Mathlib.Data.Rat.Floor

namespace Drand.Time

structure RoundsLikeBinary64 (rnd : ℚ → ℚ) : Prop where
  mono : ∀ x y, x ≤ y → rnd x ≤ rnd y
  fixInt : ∀ n : ℕ, n ≤ 2 ^ 53 → rnd n = n
  relErr : ∀ x : ℚ, 0 ≤ x → rnd x ≤ x + x / 2 ^ 53

/-- for 0 ≤ a < 2^53 and p ≥ 1: ⌊rnd (a / p)⌋ = a / p (integer division) -/
theorem c16_float_floor (rnd : ℚ → ℚ) (h : RoundsLikeBinary64 rnd) (a p : ℕ) (hp : 1 ≤ p) (ha : a < 2 ^ 53) :
    ⌊rnd ((a : ℚ) / (p : ℚ))⌋ = ((a / p : ℕ) : ℤ) := by
  have hpq : (0 : ℚ) < (p : ℚ) := by exact_mod_cast hp
  set q : ℕ := a / p with hq
  have hqa : q * p ≤ a := Nat.div_mul_le_self a p
  have hqa' : a < (q + 1) * p := by
    have h1 := Nat.div_add_mod a p
    have h2 := Nat.mod_lt a (show p > 0 by omega)
    have : (q + 1) * p = p * (a / p) + p := by rw [hq]; ring
    omega
  have hqaQ : (q : ℚ) * p ≤ a := by exact_mod_cast hqa
  have hqaQ' : (a : ℚ) + 1 ≤ ((q : ℚ) + 1) * p := by exact_mod_cast hqa'
  have hx0 : (0 : ℚ) ≤ (a : ℚ) / p := by positivity
  -- lower bound: q ≤ a/p, rnd is monotone and fixes q
  have hlow : (q : ℚ) ≤ rnd ((a : ℚ) / p) := by
    have hq53 : q ≤ 2 ^ 53 := by
      have : q ≤ a := Nat.div_le_self a p
      omega
    have h1 : (q : ℚ) ≤ (a : ℚ) / p := by rw [le_div_iff₀ hpq]; exact hqaQ
    have := h.mono _ _ h1
    rwa [h.fixInt q hq53] at this
  -- upper bound: a/p ≤ q + 1 - 1/p and the rounding error is below 1/p
  have hup : rnd ((a : ℚ) / p) < (q : ℚ) + 1 := by
    have hr := h.relErr _ hx0
    have ha' : (a : ℚ) < 2 ^ 53 := by exact_mod_cast ha
    have hx : (a : ℚ) / p ≤ (q : ℚ) + 1 - 1 / p := by
      rw [div_le_iff₀ hpq]
      have : ((q : ℚ) + 1 - 1 / p) * p = ((q : ℚ) + 1) * p - 1 := by field_simp
      rw [this]; linarith
    have herr : (a : ℚ) / p / 2 ^ 53 < 1 / p := by
      rw [div_div, div_lt_div_iff₀ (by positivity) hpq]
      nlinarith
    linarith
  rw [Int.floor_eq_iff]
  constructor
  · exact_mod_cast hlow
  · exact_mod_cast hup

/-- non-vacuity: the identity is such a rounding -/
example : RoundsLikeBinary64 (fun x => x) :=
  ⟨fun _ _ h => h, fun _ _ => rfl, fun x hx => by have : 0 ≤ x / 2 ^ 53 := by positivity
                                                  linarith⟩

end Drand.Time
