/-
C14 for the waiter / watch logic of the public HTTP handler (model: Drand/Http/Waiters.lean).
-/
import Drand.Http.Waiters
-- import DrandProofs.C14

namespace Drand.Http

/-! ## basic rewriting -/

@[simp] theorem upd_same {α : Type} (f : Nat → α) (i : Nat) (v : α) : upd f i v i = v := by simp [upd]
@[simp] theorem upd_other {α : Type} (f : Nat → α) (i j : Nat) (v : α) (h : j ≠ i) : upd f i v j = f j := by
  simp [upd, h]

def Pc.waiting : Pc → Bool
  | .parked | .cancelLock => true
  | _ => false
def Pc.inCrit : Pc → Bool
  | .cancelDrain | .cancelUnlock => true
  | _ => false
def Pc.needsChan : Pc → Bool
  | .eval2 | .parked | .cancelLock | .cancelDrain | .cancelUnlock => true
  | _ => false
def Pc.isDone : Pc → Bool
  | .done _ => true
  | _ => false
def Pc.idle : Pc → Bool
  | .absent | .done _ => true
  | _ => false

/-- the structural invariant of every reachable state -/
structure Inv (s : State) : Prop where
  noPanic : s.panicked = false
  noBlock : s.blockedSend = false
  pre : s.started = false → s.wpc = .notStarted ∧ s.pending = [] ∧ s.latest = 0 ∧ ∀ id, (s.reqs id).pc.idle = true
  post : s.started = true → s.wpc ≠ .notStarted
  wfree : s.holder = .watcher ↔ s.wpc = .notifying
  crit : ∀ id, (s.reqs id).pc.inCrit = true ↔ s.holder = .req id
  wloc : s.wpc ≠ .notifying → s.wlocal = []
  nodup : (s.pending ++ s.wlocal).Nodup
  reg : ∀ id, id ∈ s.pending ++ s.wlocal → (s.reqs id).pc.waiting = true ∧ (s.chans id).buf = none
  chanOpen : ∀ id, (s.reqs id).pc.needsChan = true → (s.chans id).made = true ∧ (s.chans id).closed = false
  closedDone : ∀ id, (s.chans id).closed = true → (s.reqs id).pc.isDone = true
  bufPc : ∀ id, (s.chans id).buf ≠ none → ((s.reqs id).pc.waiting = true ∨ (s.reqs id).pc = .cancelDrain)

theorem inv_init : Inv State.init := by
  constructor <;> simp [State.init, Pc.idle, Pc.inCrit, Pc.needsChan, Pc.waiting, Pc.isDone]


theorem setChan_self (s : State) (id : Nat) : s.setChan id (s.chans id) = s := by
  have : upd s.chans id (s.chans id) = s.chans := by
    funext j; by_cases hj : j = id <;> simp [upd, hj]
  simp [State.setChan, this]

/-- a step of request `id` that changes only its own record and its own channel -/
theorem inv_local {s : State} (h : Inv s) (id : Nat) (r' : Req) (c' : Chan)
    (hcrit : r'.pc.inCrit = (s.reqs id).pc.inCrit)
    (hreg : id ∈ s.pending ++ s.wlocal → r'.pc.waiting = true ∧ c'.buf = none)
    (hopen : r'.pc.needsChan = true → c'.made = true ∧ c'.closed = false)
    (hclosed : c'.closed = true → r'.pc.isDone = true)
    (hbuf : c'.buf ≠ none → (r'.pc.waiting = true ∨ r'.pc = .cancelDrain))
    (hidle : s.started = false → r'.pc.idle = true) :
    Inv ((s.setChan id c').setReq id r') := by
  constructor
  · simpa [State.setReq, State.setChan] using h.noPanic
  · simpa [State.setReq, State.setChan] using h.noBlock
  · intro hs
    have hs' : s.started = false := by simpa [State.setReq, State.setChan] using hs
    obtain ⟨a, b, c, d⟩ := h.pre hs'
    refine ⟨by simpa [State.setReq, State.setChan] using a, by simpa [State.setReq, State.setChan] using b,
            by simpa [State.setReq, State.setChan] using c, ?_⟩
    intro j
    by_cases hj : j = id
    · subst hj; simpa [State.setReq, State.setChan] using hidle hs'
    · simpa [State.setReq, State.setChan, hj] using d j
  · simpa [State.setReq, State.setChan] using h.post
  · simpa [State.setReq, State.setChan] using h.wfree
  · intro j
    by_cases hj : j = id
    · subst hj; simpa [State.setReq, State.setChan, hcrit] using h.crit j
    · simpa [State.setReq, State.setChan, hj] using h.crit j
  · simpa [State.setReq, State.setChan] using h.wloc
  · simpa [State.setReq, State.setChan] using h.nodup
  · intro j hjm
    have hjm' : j ∈ s.pending ++ s.wlocal := by simpa [State.setReq, State.setChan] using hjm
    by_cases hj : j = id
    · subst hj; simpa [State.setReq, State.setChan] using hreg hjm'
    · simpa [State.setReq, State.setChan, hj] using h.reg j hjm'
  · intro j
    by_cases hj : j = id
    · subst hj; simpa [State.setReq, State.setChan] using hopen
    · simpa [State.setReq, State.setChan, hj] using h.chanOpen j
  · intro j
    by_cases hj : j = id
    · subst hj; simpa [State.setReq, State.setChan] using hclosed
    · simpa [State.setReq, State.setChan, hj] using h.closedDone j
  · intro j
    by_cases hj : j = id
    · subst hj; simpa [State.setReq, State.setChan] using hbuf
    · simpa [State.setReq, State.setChan, hj] using h.bufPc j

/-- … that changes only its own record -/
theorem inv_localReq {s : State} (h : Inv s) (id : Nat) (r' : Req)
    (hcrit : r'.pc.inCrit = (s.reqs id).pc.inCrit)
    (hreg : id ∈ s.pending ++ s.wlocal → r'.pc.waiting = true)
    (hopen : r'.pc.needsChan = true → (s.chans id).made = true ∧ (s.chans id).closed = false)
    (hclosed : (s.chans id).closed = true → r'.pc.isDone = true)
    (hbuf : (s.chans id).buf ≠ none → (r'.pc.waiting = true ∨ r'.pc = .cancelDrain))
    (hidle : s.started = false → r'.pc.idle = true) :
    Inv (s.setReq id r') := by
  have := inv_local h id r' (s.chans id) hcrit (fun hm => ⟨hreg hm, (h.reg id hm).2⟩) hopen hclosed hbuf hidle
  rwa [setChan_self] at this

/-- not-started states have only idle requests: a request with a live program counter proves `started` -/
theorem Inv.started_of_live {s : State} (h : Inv s) {id : Nat} (hl : (s.reqs id).pc.idle = false) : s.started = true := by
  cases hs : s.started with
  | true => rfl
  | false => have := (h.pre hs).2.2.2 id; simp [hl] at this

theorem Inv.not_reg {s : State} (h : Inv s) {id : Nat} (hp : (s.reqs id).pc.waiting = false) :
    id ∉ s.pending ++ s.wlocal := fun hm => by have := (h.reg id hm).1; simp [hp] at this

theorem Inv.buf_none {s : State} (h : Inv s) {id : Nat} (hp : (s.reqs id).pc.waiting = false)
    (hd : (s.reqs id).pc ≠ .cancelDrain) : (s.chans id).buf = none := by
  cases hb : (s.chans id).buf with
  | none => rfl
  | some p => have := h.bufPc id (by simp [hb]); simp [hp, hd] at this

theorem Inv.not_closed {s : State} (h : Inv s) {id : Nat} (hp : (s.reqs id).pc.isDone = false) :
    (s.chans id).closed = false := by
  cases hc : (s.chans id).closed with
  | false => rfl
  | true => have := h.closedDone id hc; simp [hp] at this

theorem Inv.wlocal_nil_of_free {s : State} (h : Inv s) (hf : s.holder = .free) : s.wlocal = [] :=
  h.wloc (fun hn => by have := h.wfree.mpr hn; simp [hf] at this)

theorem inv_eval1 {s : State} (h : Inv s) (id : Nat) : Inv (eval1 s id) := by
  unfold eval1
  split
  · rename_i hc
    obtain ⟨hpc, hfree⟩ := hc
    have hst := h.started_of_live (id := id) (by simp [hpc, Pc.idle])
    have hnr := h.not_reg (id := id) (by simp [hpc, Pc.waiting])
    have hnb := h.buf_none (id := id) (by simp [hpc, Pc.waiting]) (by simp [hpc])
    have hnc := h.not_closed (id := id) (by simp [hpc, Pc.isDone])
    split
    · exact inv_local h id _ _ (by simp [hpc, Pc.inCrit]) (fun hm => absurd hm hnr) (by simp) (by simp) (by simp)
        (by simp [hst])
    · exact inv_localReq h id _ (by simp [hpc, Pc.inCrit]) (fun hm => absurd hm hnr) (by simp [Pc.needsChan])
        (by simp [hnc]) (by simp [hnb]) (by simp [hst])
  · exact h

theorem inv_eval2 {s : State} (h : Inv s) (id : Nat) : Inv (eval2 s id) := by
  unfold eval2
  split
  · rename_i hc
    obtain ⟨hpc, hfree⟩ := hc
    have hst := h.started_of_live (id := id) (by simp [hpc, Pc.idle])
    have hnr := h.not_reg (id := id) (by simp [hpc, Pc.waiting])
    have hnb := h.buf_none (id := id) (by simp [hpc, Pc.waiting]) (by simp [hpc])
    have hnc := h.not_closed (id := id) (by simp [hpc, Pc.isDone])
    have hwl := h.wlocal_nil_of_free hfree
    split
    · constructor
      · simpa [State.setPc, State.setReq] using h.noPanic
      · simpa [State.setPc, State.setReq] using h.noBlock
      · intro hs; simp [State.setPc, State.setReq, hst] at hs
      · simpa [State.setPc, State.setReq] using h.post
      · simpa [State.setPc, State.setReq] using h.wfree
      · intro j
        by_cases hj : j = id
        · subst hj; simp [State.setPc, State.setReq, Pc.inCrit, hfree]
        · simpa [State.setPc, State.setReq, hj] using h.crit j
      · simpa [State.setPc, State.setReq] using h.wloc
      · have hn := h.nodup
        simp only [hwl, List.append_nil] at hn hnr
        simp only [State.setPc, State.setReq, hwl, List.append_nil]
        exact List.nodup_append.mpr ⟨hn, by simp, by intro a ha b hb; simp at hb; subst hb; intro hab; subst hab; exact hnr ha⟩
      · intro j hjm
        simp only [State.setPc, State.setReq, hwl, List.append_nil, List.mem_append, List.mem_singleton] at hjm
        by_cases hj : j = id
        · subst hj; simp [State.setPc, State.setReq, Pc.waiting, hnb]
        · have hm : j ∈ s.pending ++ s.wlocal := by simp [hwl]; exact hjm.resolve_right hj
          simpa [State.setPc, State.setReq, hj] using h.reg j hm
      · intro j
        by_cases hj : j = id
        · subst hj; have := h.chanOpen j (by simp [hpc, Pc.needsChan]); simpa [State.setPc, State.setReq] using fun _ => this
        · simpa [State.setPc, State.setReq, hj] using h.chanOpen j
      · intro j
        by_cases hj : j = id
        · subst hj; simp [State.setPc, State.setReq, hnc]
        · simpa [State.setPc, State.setReq, hj] using h.closedDone j
      · intro j
        by_cases hj : j = id
        · subst hj; simp [State.setPc, State.setReq, hnb]
        · simpa [State.setPc, State.setReq, hj] using h.bufPc j
    · exact inv_localReq h id _ (by simp [hpc, Pc.inCrit]) (fun hm => absurd hm hnr) (by simp [Pc.needsChan])
        (by simp [hnc]) (by simp [hnb]) (by simp [hst])
  · exact h

theorem inv_recv {s : State} (cfg : Cfg) (h : Inv s) (id : Nat) : Inv (recv cfg s id) := by
  unfold recv
  split
  · rename_i hpc
    have hst := h.started_of_live (id := id) (by simp [hpc, Pc.idle])
    have hnc := h.not_closed (id := id) (by simp [hpc, Pc.isDone])
    split
    · rename_i p hb
      have hnr : id ∉ s.pending ++ s.wlocal := fun hm => by have := (h.reg id hm).2; simp [hb] at this
      have hco := h.chanOpen id (by simp [hpc, Pc.needsChan])
      simp only []
      split
      · exact inv_local h id _ _ (by simp [hpc, Pc.inCrit]) (fun hm => absurd hm hnr) (by simp [Pc.needsChan])
          (by simp [hnc]) (by simp) (by simp [hst])
      · exact inv_local h id _ _ (by simp [hpc, Pc.inCrit]) (fun hm => absurd hm hnr) (by simp [Pc.needsChan])
          (by simp [hnc]) (by simp) (by simp [hst])
    · exact h
  · exact h

theorem inv_ctxCancel {s : State} (h : Inv s) (id : Nat) : Inv (ctxCancel s id) := by
  unfold ctxCancel
  split
  · exact h
  · exact inv_localReq h id _ rfl (fun hm => (h.reg id hm).1) (h.chanOpen id) (h.closedDone id) (h.bufPc id)
      (fun hs => (h.pre hs).2.2.2 id)

theorem inv_wake {s : State} (h : Inv s) (id : Nat) : Inv (wake s id) := by
  unfold wake
  split
  · rename_i hc
    obtain ⟨hpc, _⟩ := hc
    have hst := h.started_of_live (id := id) (by simp [hpc, Pc.idle])
    exact inv_localReq h id _ (by simp [hpc, Pc.inCrit]) (by simp [Pc.waiting])
      (fun _ => h.chanOpen id (by simp [hpc, Pc.needsChan])) (fun hcl => by have := h.closedDone id hcl; simp [hpc, Pc.isDone] at this)
      (by simp [Pc.waiting]) (by simp [hst])
  · exact h

theorem inv_drain {s : State} (h : Inv s) (id : Nat) : Inv (drain s id) := by
  unfold drain
  split
  · rename_i hpc
    have hst := h.started_of_live (id := id) (by simp [hpc, Pc.idle])
    have hnr := h.not_reg (id := id) (by simp [hpc, Pc.waiting])
    have hco := h.chanOpen id (by simp [hpc, Pc.needsChan])
    exact inv_local h id _ _ (by simp [hpc, Pc.inCrit]) (fun hm => absurd hm hnr) (by simp [hco])
      (by simp [hco]) (by simp) (by simp [hst])
  · exact h

theorem inv_futureChk {s : State} (h : Inv s) (id : Nat) (now : Int) : Inv (futureChk s id now) := by
  unfold futureChk
  split
  · rename_i hpc
    have hst := h.started_of_live (id := id) (by simp [hpc, Pc.idle])
    have hnr := h.not_reg (id := id) (by simp [hpc, Pc.waiting])
    have hnb := h.buf_none (id := id) (by simp [hpc, Pc.waiting]) (by simp [hpc])
    have hnc := h.not_closed (id := id) (by simp [hpc, Pc.isDone])
    split
    · split
      · exact inv_localReq h id _ (by simp [hpc, Pc.inCrit]) (fun hm => absurd hm hnr) (by simp [Pc.needsChan])
          (by simp [hnc]) (by simp [hnb]) (by simp [hst])
      · exact h
    · exact inv_localReq h id _ (by simp [hpc, Pc.inCrit]) (fun hm => absurd hm hnr) (by simp [Pc.needsChan])
        (by simp [hnc]) (by simp [hnb]) (by simp [hst])
  · exact h

theorem inv_getAns {s : State} (h : Inv s) (id : Nat) (ans : Option Beacon) : Inv (getAns s id ans) := by
  unfold getAns
  split
  · rename_i hpc
    have hst := h.started_of_live (id := id) (by simp [hpc, Pc.idle])
    have hnr := h.not_reg (id := id) (by simp [hpc, Pc.waiting])
    have hnb := h.buf_none (id := id) (by simp [hpc, Pc.waiting]) (by simp [hpc])
    have hnc := h.not_closed (id := id) (by simp [hpc, Pc.isDone])
    exact inv_localReq h id _ (by simp [hpc, Pc.inCrit]) (fun hm => absurd hm hnr) (by simp [Pc.needsChan])
      (by simp [hnc]) (by simp [hnb]) (by simp [hst])
  · exact h

theorem inv_close {s : State} (h : Inv s) (id : Nat) : Inv (closeStep s id) := by
  unfold closeStep
  split
  · rename_i res hpc
    have hst := h.started_of_live (id := id) (by simp [hpc, Pc.idle])
    have hnr := h.not_reg (id := id) (by simp [hpc, Pc.waiting])
    have hnb := h.buf_none (id := id) (by simp [hpc, Pc.waiting]) (by simp [hpc])
    have hnc := h.not_closed (id := id) (by simp [hpc, Pc.isDone])
    simp only [hnc]
    split
    · exact inv_local h id _ _ (by simp [hpc, Pc.inCrit]) (fun hm => absurd hm hnr) (by simp [Pc.needsChan])
        (by simp [Pc.isDone]) (by simp [hnb]) (by simp [Pc.idle])
    · exact inv_localReq h id _ (by simp [hpc, Pc.inCrit]) (fun hm => absurd hm hnr) (by simp [Pc.needsChan])
        (by simp [Pc.isDone]) (by simp [hnb]) (by simp [Pc.idle])
  · exact h

theorem inv_dereg {s : State} (h : Inv s) (id : Nat) : Inv (dereg s id) := by
  unfold dereg
  split
  · rename_i hc
    obtain ⟨hpc, hfree⟩ := hc
    have hst := h.started_of_live (id := id) (by simp [hpc, Pc.idle])
    have hwl := h.wlocal_nil_of_free hfree
    have hn : s.pending.Nodup := by have := h.nodup; simpa [hwl] using this
    have hnotif : s.wpc ≠ .notifying := fun hn => by have := h.wfree.mpr hn; simp [hfree] at this
    constructor
    · simpa [State.setPc, State.setReq] using h.noPanic
    · simpa [State.setPc, State.setReq] using h.noBlock
    · intro hs; simp [State.setPc, State.setReq, hst] at hs
    · simpa [State.setPc, State.setReq] using h.post
    · simp [State.setPc, State.setReq, hnotif]
    · intro j
      by_cases hj : j = id
      · subst hj; simp [State.setPc, State.setReq, Pc.inCrit]
      · have := h.crit j
        simp only [hfree] at this
        simp only [State.setPc, State.setReq, upd, hj, if_false]
        constructor
        · intro hcj; have := this.mp hcj; simp at this
        · intro e; simp at e; exact absurd e.symm hj
    · simpa [State.setPc, State.setReq] using h.wloc
    · simp only [State.setPc, State.setReq, hwl, List.append_nil]
      exact hn.erase id
    · intro j hjm
      simp only [State.setPc, State.setReq, hwl, List.append_nil] at hjm
      have hjm' := (hn.mem_erase_iff).mp hjm
      have hm : j ∈ s.pending ++ s.wlocal := by simp [hwl, hjm'.2]
      simpa [State.setPc, State.setReq, hjm'.1] using h.reg j hm
    · intro j
      by_cases hj : j = id
      · subst hj; have := h.chanOpen j (by simp [hpc, Pc.needsChan]); simpa [State.setPc, State.setReq] using fun _ => this
      · simpa [State.setPc, State.setReq, hj] using h.chanOpen j
    · intro j
      by_cases hj : j = id
      · subst hj
        have := h.not_closed (id := j) (by simp [hpc, Pc.isDone])
        simp [State.setPc, State.setReq, this]
      · simpa [State.setPc, State.setReq, hj] using h.closedDone j
    · intro j
      by_cases hj : j = id
      · subst hj; simp [State.setPc, State.setReq]
      · simpa [State.setPc, State.setReq, hj] using h.bufPc j
  · exact h

theorem inv_cUnlock {s : State} (h : Inv s) (id : Nat) : Inv (cUnlock s id) := by
  unfold cUnlock
  split
  · rename_i hpc
    have hst := h.started_of_live (id := id) (by simp [hpc, Pc.idle])
    have hhold : s.holder = .req id := (h.crit id).mp (by simp [hpc, Pc.inCrit])
    have hnotif : s.wpc ≠ .notifying := fun hn => by have := h.wfree.mpr hn; simp [hhold] at this
    have hnr := h.not_reg (id := id) (by simp [hpc, Pc.waiting])
    have hnb := h.buf_none (id := id) (by simp [hpc, Pc.waiting]) (by simp [hpc])
    have hnc := h.not_closed (id := id) (by simp [hpc, Pc.isDone])
    constructor
    · simpa [State.setPc, State.setReq] using h.noPanic
    · simpa [State.setPc, State.setReq] using h.noBlock
    · intro hs; simp [State.setPc, State.setReq, hst] at hs
    · simpa [State.setPc, State.setReq] using h.post
    · simp [State.setPc, State.setReq, hnotif]
    · intro j
      by_cases hj : j = id
      · subst hj; simp [State.setPc, State.setReq, Pc.inCrit]
      · have := h.crit j
        simp only [hhold] at this
        simp only [State.setPc, State.setReq, upd, hj, if_false]
        constructor
        · intro hcj; have := this.mp hcj; simp at this; exact absurd this.symm hj
        · intro e; simp at e
    · simpa [State.setPc, State.setReq] using h.wloc
    · simpa [State.setPc, State.setReq] using h.nodup
    · intro j hjm
      have hjm' : j ∈ s.pending ++ s.wlocal := by simpa [State.setPc, State.setReq] using hjm
      have hj : j ≠ id := fun e => hnr (e ▸ hjm')
      simpa [State.setPc, State.setReq, hj] using h.reg j hjm'
    · intro j
      by_cases hj : j = id
      · subst hj; simp [State.setPc, State.setReq, Pc.needsChan]
      · simpa [State.setPc, State.setReq, hj] using h.chanOpen j
    · intro j
      by_cases hj : j = id
      · subst hj; simp [State.setPc, State.setReq, hnc]
      · simpa [State.setPc, State.setReq, hj] using h.closedDone j
    · intro j
      by_cases hj : j = id
      · subst hj; simp [State.setPc, State.setReq, hnb]
      · simpa [State.setPc, State.setReq, hj] using h.bufPc j
  · exact h

theorem inv_setInfo {s : State} (h : Inv s) (x : Option Info) : Inv { s with info := x } := by
  constructor
  · exact h.noPanic
  · exact h.noBlock
  · exact h.pre
  · exact h.post
  · exact h.wfree
  · exact h.crit
  · exact h.wloc
  · exact h.nodup
  · exact h.reg
  · exact h.chanOpen
  · exact h.closedDone
  · exact h.bufPc

theorem inv_startOnce {s : State} (h : Inv s) : Inv (startOnce s) := by
  unfold startOnce
  split
  · exact h
  · rename_i hs
    have hs' : s.started = false := by simpa using hs
    obtain ⟨hw, hp, hl, hid⟩ := h.pre hs'
    have hnw : s.holder ≠ .watcher := fun e => by have := h.wfree.mp e; simp [hw] at this
    have hwl : s.wlocal = [] := h.wloc (by simp [hw])
    constructor
    · exact h.noPanic
    · exact h.noBlock
    · intro hc; simp at hc
    · intro _; simp
    · simp [hnw]
    · exact h.crit
    · intro _; exact hwl
    · simp [hwl]
    · intro j hj; simp [hwl] at hj
    · exact h.chanOpen
    · exact h.closedDone
    · exact h.bufPc

theorem startOnce_reqs (s : State) : (startOnce s).reqs = s.reqs := by unfold startOnce; split <;> rfl
theorem startOnce_chans (s : State) : (startOnce s).chans = s.chans := by unfold startOnce; split <;> rfl
theorem startOnce_started (s : State) : (startOnce s).started = true := by unfold startOnce; split <;> simp_all

/-- a request that is `absent` gets a record with an idle or `eval1` program counter -/
theorem inv_fresh {s : State} (h : Inv s) (id : Nat) (r' : Req) (habs : (s.reqs id).pc = .absent)
    (hp : r'.pc.idle = true ∨ (r'.pc = .eval1 ∧ s.started = true)) : Inv (s.setReq id r') := by
  have hnr := h.not_reg (id := id) (by simp [habs, Pc.waiting])
  have hnb := h.buf_none (id := id) (by simp [habs, Pc.waiting]) (by simp [habs])
  have hnc := h.not_closed (id := id) (by simp [habs, Pc.isDone])
  have hcr : r'.pc.inCrit = false := by
    rcases hp with hp | ⟨hp, _⟩
    · cases hq : r'.pc <;> simp_all [Pc.idle, Pc.inCrit]
    · simp [hp, Pc.inCrit]
  have hnch : r'.pc.needsChan = false := by
    rcases hp with hp | ⟨hp, _⟩
    · cases hq : r'.pc <;> simp_all [Pc.idle, Pc.needsChan]
    · simp [hp, Pc.needsChan]
  refine inv_localReq h id r' (by rw [hcr, habs]; rfl) (fun hm => absurd hm hnr) (by simp [hnch]) (by simp [hnc])
    (by simp [hnb]) ?_
  intro hs
  rcases hp with hp | ⟨_, hst⟩
  · exact hp
  · simp [hs] at hst

theorem inv_arrive {s : State} (h : Inv s) (id r : Nat) (now : Int) (ia : Option Info) : Inv (arrive s id r now ia) := by
  unfold arrive
  split
  · exact h
  · rename_i hc
    have habs : (s.reqs id).pc = .absent := by
      by_cases hx : (s.reqs id).pc = .absent
      · exact hx
      · exact absurd (Or.inl hx) hc
    have hgi : ∀ _ : Unit, Inv (getChainInfo s ia).2 ∧ (getChainInfo s ia).2.reqs = s.reqs := by
      intro _
      unfold getChainInfo
      split
      · exact ⟨h, rfl⟩
      · split
        · exact ⟨inv_setInfo h _, rfl⟩
        · exact ⟨h, rfl⟩
    obtain ⟨hi, hr⟩ := hgi ()
    split
    · rename_i s1 heq
      have e1 : s1 = (getChainInfo s ia).2 := by rw [heq]
      subst e1
      exact inv_fresh hi id _ (by rw [hr]; exact habs) (Or.inl (by simp [Pc.idle]))
    · rename_i i s1 heq
      have e1 : s1 = (getChainInfo s ia).2 := by rw [heq]
      subst e1
      split
      · exact inv_fresh hi id _ (by rw [hr]; exact habs) (Or.inl (by simp [Pc.idle]))
      · exact inv_fresh (inv_startOnce hi) id _ (by rw [startOnce_reqs, hr]; exact habs)
          (Or.inr ⟨rfl, startOnce_started _⟩)

/-- the watcher moves between two program counters outside its critical section -/
theorem inv_wpc {s : State} (h : Inv s) (w' : WPc) (ho : s.wpc ≠ .notifying) (hs : s.wpc ≠ .notStarted)
    (hn : w' ≠ .notifying) (hn' : w' ≠ .notStarted) : Inv { s with wpc := w' } := by
  have hst : s.started = true := by
    cases hq : s.started with
    | true => rfl
    | false => exact absurd (h.pre hq).1 hs
  have hnw : s.holder ≠ .watcher := fun e => ho (h.wfree.mp e)
  constructor
  · exact h.noPanic
  · exact h.noBlock
  · intro hc; simp [hst] at hc
  · intro _; exact hn'
  · simp [hnw, hn]
  · exact h.crit
  · intro _; exact h.wloc ho
  · exact h.nodup
  · exact h.reg
  · exact h.chanOpen
  · exact h.closedDone
  · exact h.bufPc

theorem inv_wDeliver {s : State} (h : Inv s) (b : Beacon) : Inv (wDeliver s b) := by
  unfold wDeliver; split
  · rename_i hw; exact inv_wpc h _ (by simp [hw]) (by simp [hw]) (by simp) (by simp)
  · exact h
theorem inv_wClosed {s : State} (h : Inv s) : Inv (wClosed s) := by
  unfold wClosed; split
  · rename_i hw; exact inv_wpc h _ (by simp [hw]) (by simp [hw]) (by simp) (by simp)
  · exact h
theorem inv_wTimeout {s : State} (h : Inv s) : Inv (wTimeout s) := by
  unfold wTimeout; split
  · rename_i hw; exact inv_wpc h _ (by simp [hw]) (by simp [hw]) (by simp) (by simp)
  · exact h
theorem inv_wBackoffDone {s : State} (h : Inv s) : Inv (wBackoffDone s) := by
  unfold wBackoffDone; split
  · rename_i hw; exact inv_wpc h _ (by simp [hw]) (by simp [hw]) (by simp) (by simp)
  · exact h
theorem inv_wResub {s : State} (h : Inv s) : Inv (wResub s) := by
  unfold wResub; split
  · rename_i hw; exact inv_wpc h _ (by simp [hw]) (by simp [hw]) (by simp) (by simp)
  · exact h

/-- the watcher takes the lock and swaps the waiter list out (`b`, the new `latestRound` are free) -/
theorem inv_swap {s : State} (h : Inv s) (hf : s.holder = .free) (hs : s.wpc ≠ .notStarted) (l : Nat) (b : Payload) (t : Bool) :
    Inv { s with holder := .watcher, latest := l, wlocal := s.pending, pending := [], wb := b, wthenBackoff := t,
                 wpc := .notifying } := by
  have hst : s.started = true := by
    cases hq : s.started with
    | true => rfl
    | false => exact absurd (h.pre hq).1 hs
  have hwl := h.wlocal_nil_of_free hf
  constructor
  · exact h.noPanic
  · exact h.noBlock
  · intro hc; simp [hst] at hc
  · intro _; simp
  · simp
  · intro j; have := h.crit j; simp only [hf] at this; simp
    cases hc : (s.reqs j).pc.inCrit with
    | false => rfl
    | true => have := this.mp hc; simp at this
  · intro hc; simp at hc
  · have := h.nodup; simpa [hwl] using this
  · intro j hj; exact h.reg j (by simpa [hwl] using hj)
  · exact h.chanOpen
  · exact h.closedDone
  · exact h.bufPc

theorem inv_wLock {s : State} (cfg : Cfg) (h : Inv s) : Inv (wLock cfg s) := by
  unfold wLock
  split
  · exact h
  · rename_i hf
    have hf' : s.holder = .free := by simpa using hf
    split
    · rename_i n hw; exact inv_swap h hf' (by simp [hw]) _ _ _
    · rename_i hw
      split
      · exact inv_swap h hf' (by simp [hw]) _ _ _
      · have h1 := inv_wpc h .backoff (by simp [hw]) (by simp [hw]) (by simp) (by simp)
        constructor
        · exact h1.noPanic
        · exact h1.noBlock
        · intro hc; have := h1.pre hc; simp at this
        · exact h1.post
        · exact h1.wfree
        · exact h1.crit
        · exact h1.wloc
        · exact h1.nodup
        · exact h1.reg
        · exact h1.chanOpen
        · exact h1.closedDone
        · exact h1.bufPc
    · exact h

theorem inv_wSend {s : State} (h : Inv s) : Inv (wSend s) := by
  unfold wSend
  split
  · rename_i hw
    split
    · exact h
    · rename_i i rest hl
      have hmem : i ∈ s.pending ++ s.wlocal := by simp [hl]
      obtain ⟨hwait, hbn⟩ := h.reg i hmem
      have hneed : (s.reqs i).pc.needsChan = true := by
        cases hq : (s.reqs i).pc <;> simp_all [Pc.waiting, Pc.needsChan]
      obtain ⟨hmade, hncl⟩ := h.chanOpen i hneed
      have hnd := h.nodup
      rw [hl] at hnd
      have hnd' : (s.pending ++ rest).Nodup := by
        have := List.nodup_append.mp hnd
        refine List.nodup_append.mpr ⟨this.1, (List.nodup_cons.mp this.2.1).2, ?_⟩
        intro a ha b hb; exact this.2.2 a ha b (List.mem_cons_of_mem _ hb)
      have hi_not : i ∉ s.pending ++ rest := by
        have := List.nodup_append.mp hnd
        intro hm
        rcases List.mem_append.mp hm with hm | hm
        · exact this.2.2 i hm i (List.mem_cons_self) rfl
        · exact (List.nodup_cons.mp this.2.1).1 hm
      simp only [hncl, hbn]
      constructor
      · simpa [State.setChan] using h.noPanic
      · simpa [State.setChan] using h.noBlock
      · simpa [State.setChan] using h.pre
      · simpa [State.setChan] using h.post
      · simpa [State.setChan] using h.wfree
      · simpa [State.setChan] using h.crit
      · intro hc; simp [State.setChan, hw] at hc
      · simpa [State.setChan] using hnd'
      · intro j hj
        have hj' : j ∈ s.pending ++ rest := by simpa [State.setChan] using hj
        have hji : j ≠ i := fun e => hi_not (e ▸ hj')
        have hm : j ∈ s.pending ++ s.wlocal := by
          rw [hl]; rcases List.mem_append.mp hj' with hm | hm
          · exact List.mem_append.mpr (Or.inl hm)
          · exact List.mem_append.mpr (Or.inr (List.mem_cons_of_mem _ hm))
        simpa [State.setChan, hji] using h.reg j hm
      · intro j
        by_cases hj : j = i
        · subst hj; simp [State.setChan, hmade]
        · simpa [State.setChan, hj] using h.chanOpen j
      · intro j
        by_cases hj : j = i
        · subst hj; simp [State.setChan]
        · simpa [State.setChan, hj] using h.closedDone j
      · intro j
        by_cases hj : j = i
        · subst hj; simp [State.setChan, hwait]
        · simpa [State.setChan, hj] using h.bufPc j
  · exact h

theorem inv_wUnlock {s : State} (h : Inv s) : Inv (wUnlock s) := by
  unfold wUnlock
  split
  · rename_i hc
    obtain ⟨hw, hl⟩ := hc
    have hhold : s.holder = .watcher := h.wfree.mpr hw
    have hst : s.started = true := by
      cases hq : s.started with
      | true => rfl
      | false => have := (h.pre hq).1; simp [hw] at this
    constructor
    · exact h.noPanic
    · exact h.noBlock
    · intro hc; simp [hst] at hc
    · intro _; simp; split <;> simp
    · simp; split <;> simp
    · intro j; have := h.crit j; simp only [hhold] at this; simp
      cases hc : (s.reqs j).pc.inCrit with
      | false => rfl
      | true => have := this.mp hc; simp at this
    · intro _; exact hl
    · exact h.nodup
    · exact h.reg
    · exact h.chanOpen
    · exact h.closedDone
    · exact h.bufPc
  · exact h

theorem inv_step {s : State} (cfg : Cfg) (h : Inv s) (e : Ev) : Inv (step cfg s e) := by
  cases e with
  | arrive id r now ia => exact inv_arrive h id r now ia
  | eval1 id => exact inv_eval1 h id
  | eval2 id => exact inv_eval2 h id
  | recv id => exact inv_recv cfg h id
  | ctxCancel id => exact inv_ctxCancel h id
  | wake id => exact inv_wake h id
  | dereg id => exact inv_dereg h id
  | drain id => exact inv_drain h id
  | cUnlock id => exact inv_cUnlock h id
  | futureChk id now => exact inv_futureChk h id now
  | getAns id ans => exact inv_getAns h id ans
  | close id => exact inv_close h id
  | wDeliver b => exact inv_wDeliver h b
  | wClosed => exact inv_wClosed h
  | wTimeout => exact inv_wTimeout h
  | wLock => exact inv_wLock cfg h
  | wSend => exact inv_wSend h
  | wUnlock => exact inv_wUnlock h
  | wBackoffDone => exact inv_wBackoffDone h
  | wResub => exact inv_wResub h
  | health => exact inv_startOnce h

theorem inv_runFrom {s : State} (cfg : Cfg) (h : Inv s) (evs : List Ev) : Inv (runFrom cfg s evs) := by
  induction evs generalizing s with
  | nil => exact h
  | cons e es ih => exact ih (inv_step cfg h e)

theorem inv_run (cfg : Cfg) (evs : List Ev) : Inv (run cfg evs) := inv_runFrom cfg inv_init evs

end Drand.Http
