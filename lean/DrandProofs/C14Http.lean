/-
C14 for the waiter / watch logic of the public HTTP handler (model: Drand/Http/Waiters.lean).
-/
import Drand.Http.Waiters
import Drand.Driver.HttpW
import Gen.HttpW
import DrandProofs.C14

namespace Drand.Http

/-! ## basic rewriting -/

@[simp] theorem upd_same {α : Type} (f : Nat → α) (i : Nat) (v : α) : upd f i v i = v := by simp [upd]
@[simp] theorem upd_other {α : Type} (f : Nat → α) (i j : Nat) (v : α) (h : j ≠ i) : upd f i v j = f j := by
  simp [upd, h]

def Pc.waiting : Pc → Bool
  | .parked | .cancelLock => true
  | _ => false
def Pc.inCrit : Pc → Bool
  | .cancelDrain | .cancelUnlock => true
  | _ => false
def Pc.needsChan : Pc → Bool
  | .eval2 | .parked | .cancelLock | .cancelDrain | .cancelUnlock => true
  | _ => false
def Pc.isDone : Pc → Bool
  | .done _ => true
  | _ => false
def Pc.idle : Pc → Bool
  | .absent | .done _ => true
  | _ => false

/-- the structural invariant of every reachable state -/
structure Inv (s : State) : Prop where
  noPanic : s.panicked = false
  noBlock : s.blockedSend = false
  pre : s.started = false → s.wpc = .notStarted ∧ s.pending = [] ∧ s.latest = 0 ∧ ∀ id, (s.reqs id).pc.idle = true
  post : s.started = true → s.wpc ≠ .notStarted
  wfree : s.holder = .watcher ↔ s.wpc = .notifying
  crit : ∀ id, (s.reqs id).pc.inCrit = true ↔ s.holder = .req id
  wloc : s.wpc ≠ .notifying → s.wlocal = []
  nodup : (s.pending ++ s.wlocal).Nodup
  reg : ∀ id, id ∈ s.pending ++ s.wlocal → (s.reqs id).pc.waiting = true ∧ (s.chans id).buf = none
  chanOpen : ∀ id, (s.reqs id).pc.needsChan = true → (s.chans id).made = true ∧ (s.chans id).closed = false
  closedDone : ∀ id, (s.chans id).closed = true → (s.reqs id).pc.isDone = true
  bufPc : ∀ id, (s.chans id).buf ≠ none → ((s.reqs id).pc.waiting = true ∨ (s.reqs id).pc = .cancelDrain)

theorem inv_init : Inv State.init := by
  constructor <;> simp [State.init, Pc.idle, Pc.inCrit, Pc.needsChan, Pc.waiting, Pc.isDone]


theorem setChan_self (s : State) (id : Nat) : s.setChan id (s.chans id) = s := by
  have : upd s.chans id (s.chans id) = s.chans := by
    funext j; by_cases hj : j = id <;> simp [upd, hj]
  simp [State.setChan, this]

/-- a step of request `id` that changes only its own record and its own channel -/
theorem inv_local {s : State} (h : Inv s) (id : Nat) (r' : Req) (c' : Chan)
    (hcrit : r'.pc.inCrit = (s.reqs id).pc.inCrit)
    (hreg : id ∈ s.pending ++ s.wlocal → r'.pc.waiting = true ∧ c'.buf = none)
    (hopen : r'.pc.needsChan = true → c'.made = true ∧ c'.closed = false)
    (hclosed : c'.closed = true → r'.pc.isDone = true)
    (hbuf : c'.buf ≠ none → (r'.pc.waiting = true ∨ r'.pc = .cancelDrain))
    (hidle : s.started = false → r'.pc.idle = true) :
    Inv ((s.setChan id c').setReq id r') := by
  constructor
  · simpa [State.setReq, State.setChan] using h.noPanic
  · simpa [State.setReq, State.setChan] using h.noBlock
  · intro hs
    have hs' : s.started = false := by simpa [State.setReq, State.setChan] using hs
    obtain ⟨a, b, c, d⟩ := h.pre hs'
    refine ⟨by simpa [State.setReq, State.setChan] using a, by simpa [State.setReq, State.setChan] using b,
            by simpa [State.setReq, State.setChan] using c, ?_⟩
    intro j
    by_cases hj : j = id
    · subst hj; simpa [State.setReq, State.setChan] using hidle hs'
    · simpa [State.setReq, State.setChan, hj] using d j
  · simpa [State.setReq, State.setChan] using h.post
  · simpa [State.setReq, State.setChan] using h.wfree
  · intro j
    by_cases hj : j = id
    · subst hj; simpa [State.setReq, State.setChan, hcrit] using h.crit j
    · simpa [State.setReq, State.setChan, hj] using h.crit j
  · simpa [State.setReq, State.setChan] using h.wloc
  · simpa [State.setReq, State.setChan] using h.nodup
  · intro j hjm
    have hjm' : j ∈ s.pending ++ s.wlocal := by simpa [State.setReq, State.setChan] using hjm
    by_cases hj : j = id
    · subst hj; simpa [State.setReq, State.setChan] using hreg hjm'
    · simpa [State.setReq, State.setChan, hj] using h.reg j hjm'
  · intro j
    by_cases hj : j = id
    · subst hj; simpa [State.setReq, State.setChan] using hopen
    · simpa [State.setReq, State.setChan, hj] using h.chanOpen j
  · intro j
    by_cases hj : j = id
    · subst hj; simpa [State.setReq, State.setChan] using hclosed
    · simpa [State.setReq, State.setChan, hj] using h.closedDone j
  · intro j
    by_cases hj : j = id
    · subst hj; simpa [State.setReq, State.setChan] using hbuf
    · simpa [State.setReq, State.setChan, hj] using h.bufPc j

/-- … that changes only its own record -/
theorem inv_localReq {s : State} (h : Inv s) (id : Nat) (r' : Req)
    (hcrit : r'.pc.inCrit = (s.reqs id).pc.inCrit)
    (hreg : id ∈ s.pending ++ s.wlocal → r'.pc.waiting = true)
    (hopen : r'.pc.needsChan = true → (s.chans id).made = true ∧ (s.chans id).closed = false)
    (hclosed : (s.chans id).closed = true → r'.pc.isDone = true)
    (hbuf : (s.chans id).buf ≠ none → (r'.pc.waiting = true ∨ r'.pc = .cancelDrain))
    (hidle : s.started = false → r'.pc.idle = true) :
    Inv (s.setReq id r') := by
  have := inv_local h id r' (s.chans id) hcrit (fun hm => ⟨hreg hm, (h.reg id hm).2⟩) hopen hclosed hbuf hidle
  rwa [setChan_self] at this

/-- not-started states have only idle requests: a request with a live program counter proves `started` -/
theorem Inv.started_of_live {s : State} (h : Inv s) {id : Nat} (hl : (s.reqs id).pc.idle = false) : s.started = true := by
  cases hs : s.started with
  | true => rfl
  | false => have := (h.pre hs).2.2.2 id; simp [hl] at this

theorem Inv.not_reg {s : State} (h : Inv s) {id : Nat} (hp : (s.reqs id).pc.waiting = false) :
    id ∉ s.pending ++ s.wlocal := fun hm => by have := (h.reg id hm).1; simp [hp] at this

theorem Inv.buf_none {s : State} (h : Inv s) {id : Nat} (hp : (s.reqs id).pc.waiting = false)
    (hd : (s.reqs id).pc ≠ .cancelDrain) : (s.chans id).buf = none := by
  cases hb : (s.chans id).buf with
  | none => rfl
  | some p => have := h.bufPc id (by simp [hb]); simp [hp, hd] at this

theorem Inv.not_closed {s : State} (h : Inv s) {id : Nat} (hp : (s.reqs id).pc.isDone = false) :
    (s.chans id).closed = false := by
  cases hc : (s.chans id).closed with
  | false => rfl
  | true => have := h.closedDone id hc; simp [hp] at this

theorem Inv.wlocal_nil_of_free {s : State} (h : Inv s) (hf : s.holder = .free) : s.wlocal = [] :=
  h.wloc (fun hn => by have := h.wfree.mpr hn; simp [hf] at this)

theorem inv_eval1 {s : State} (h : Inv s) (id : Nat) : Inv (eval1 s id) := by
  unfold eval1
  split
  · rename_i hc
    obtain ⟨hpc, hfree⟩ := hc
    have hst := h.started_of_live (id := id) (by simp [hpc, Pc.idle])
    have hnr := h.not_reg (id := id) (by simp [hpc, Pc.waiting])
    have hnb := h.buf_none (id := id) (by simp [hpc, Pc.waiting]) (by simp [hpc])
    have hnc := h.not_closed (id := id) (by simp [hpc, Pc.isDone])
    split
    · exact inv_local h id _ _ (by simp [hpc, Pc.inCrit]) (fun hm => absurd hm hnr) (by simp) (by simp) (by simp)
        (by simp [hst])
    · exact inv_localReq h id _ (by simp [hpc, Pc.inCrit]) (fun hm => absurd hm hnr) (by simp [Pc.needsChan])
        (by simp [hnc]) (by simp [hnb]) (by simp [hst])
  · exact h

theorem inv_eval2 {s : State} (h : Inv s) (id : Nat) : Inv (eval2 s id) := by
  unfold eval2
  split
  · rename_i hc
    obtain ⟨hpc, hfree⟩ := hc
    have hst := h.started_of_live (id := id) (by simp [hpc, Pc.idle])
    have hnr := h.not_reg (id := id) (by simp [hpc, Pc.waiting])
    have hnb := h.buf_none (id := id) (by simp [hpc, Pc.waiting]) (by simp [hpc])
    have hnc := h.not_closed (id := id) (by simp [hpc, Pc.isDone])
    have hwl := h.wlocal_nil_of_free hfree
    split
    · constructor
      · simpa [State.setPc, State.setReq] using h.noPanic
      · simpa [State.setPc, State.setReq] using h.noBlock
      · intro hs; simp [State.setPc, State.setReq, hst] at hs
      · simpa [State.setPc, State.setReq] using h.post
      · simpa [State.setPc, State.setReq] using h.wfree
      · intro j
        by_cases hj : j = id
        · subst hj; simp [State.setPc, State.setReq, Pc.inCrit, hfree]
        · simpa [State.setPc, State.setReq, hj] using h.crit j
      · simpa [State.setPc, State.setReq] using h.wloc
      · have hn := h.nodup
        simp only [hwl, List.append_nil] at hn hnr
        simp only [State.setPc, State.setReq, hwl, List.append_nil]
        exact List.nodup_append.mpr ⟨hn, by simp, by intro a ha b hb; simp at hb; subst hb; intro hab; subst hab; exact hnr ha⟩
      · intro j hjm
        simp only [State.setPc, State.setReq, hwl, List.append_nil, List.mem_append, List.mem_singleton] at hjm
        by_cases hj : j = id
        · subst hj; simp [State.setPc, State.setReq, Pc.waiting, hnb]
        · have hm : j ∈ s.pending ++ s.wlocal := by simp [hwl]; exact hjm.resolve_right hj
          simpa [State.setPc, State.setReq, hj] using h.reg j hm
      · intro j
        by_cases hj : j = id
        · subst hj; have := h.chanOpen j (by simp [hpc, Pc.needsChan]); simpa [State.setPc, State.setReq] using fun _ => this
        · simpa [State.setPc, State.setReq, hj] using h.chanOpen j
      · intro j
        by_cases hj : j = id
        · subst hj; simp [State.setPc, State.setReq, hnc]
        · simpa [State.setPc, State.setReq, hj] using h.closedDone j
      · intro j
        by_cases hj : j = id
        · subst hj; simp [State.setPc, State.setReq, hnb]
        · simpa [State.setPc, State.setReq, hj] using h.bufPc j
    · exact inv_localReq h id _ (by simp [hpc, Pc.inCrit]) (fun hm => absurd hm hnr) (by simp [Pc.needsChan])
        (by simp [hnc]) (by simp [hnb]) (by simp [hst])
  · exact h

theorem inv_recv {s : State} (cfg : Cfg) (h : Inv s) (id : Nat) : Inv (recv cfg s id) := by
  unfold recv
  split
  · rename_i hpc
    have hst := h.started_of_live (id := id) (by simp [hpc, Pc.idle])
    have hnc := h.not_closed (id := id) (by simp [hpc, Pc.isDone])
    split
    · rename_i p hb
      have hnr : id ∉ s.pending ++ s.wlocal := fun hm => by have := (h.reg id hm).2; simp [hb] at this
      have hco := h.chanOpen id (by simp [hpc, Pc.needsChan])
      simp only []
      split
      · exact inv_local h id _ _ (by simp [hpc, Pc.inCrit]) (fun hm => absurd hm hnr) (by simp [Pc.needsChan])
          (by simp [hnc]) (by simp) (by simp [hst])
      · exact inv_local h id _ _ (by simp [hpc, Pc.inCrit]) (fun hm => absurd hm hnr) (by simp [Pc.needsChan])
          (by simp [hnc]) (by simp) (by simp [hst])
    · exact h
  · exact h

theorem inv_ctxCancel {s : State} (h : Inv s) (id : Nat) : Inv (ctxCancel s id) := by
  unfold ctxCancel
  split
  · exact h
  · exact inv_localReq h id _ rfl (fun hm => (h.reg id hm).1) (h.chanOpen id) (h.closedDone id) (h.bufPc id)
      (fun hs => (h.pre hs).2.2.2 id)

theorem inv_wake {s : State} (h : Inv s) (id : Nat) : Inv (wake s id) := by
  unfold wake
  split
  · rename_i hc
    obtain ⟨hpc, _⟩ := hc
    have hst := h.started_of_live (id := id) (by simp [hpc, Pc.idle])
    exact inv_localReq h id _ (by simp [hpc, Pc.inCrit]) (by simp [Pc.waiting])
      (fun _ => h.chanOpen id (by simp [hpc, Pc.needsChan])) (fun hcl => by have := h.closedDone id hcl; simp [hpc, Pc.isDone] at this)
      (by simp [Pc.waiting]) (by simp [hst])
  · exact h

theorem inv_drain {s : State} (h : Inv s) (id : Nat) : Inv (drain s id) := by
  unfold drain
  split
  · rename_i hpc
    have hst := h.started_of_live (id := id) (by simp [hpc, Pc.idle])
    have hnr := h.not_reg (id := id) (by simp [hpc, Pc.waiting])
    have hco := h.chanOpen id (by simp [hpc, Pc.needsChan])
    exact inv_local h id _ _ (by simp [hpc, Pc.inCrit]) (fun hm => absurd hm hnr) (by simp [hco])
      (by simp [hco]) (by simp) (by simp [hst])
  · exact h

theorem inv_futureChk {s : State} (h : Inv s) (id : Nat) (now : Int) : Inv (futureChk s id now) := by
  unfold futureChk
  split
  · rename_i hpc
    have hst := h.started_of_live (id := id) (by simp [hpc, Pc.idle])
    have hnr := h.not_reg (id := id) (by simp [hpc, Pc.waiting])
    have hnb := h.buf_none (id := id) (by simp [hpc, Pc.waiting]) (by simp [hpc])
    have hnc := h.not_closed (id := id) (by simp [hpc, Pc.isDone])
    split
    · split
      · exact inv_localReq h id _ (by simp [hpc, Pc.inCrit]) (fun hm => absurd hm hnr) (by simp [Pc.needsChan])
          (by simp [hnc]) (by simp [hnb]) (by simp [hst])
      · exact h
    · exact inv_localReq h id _ (by simp [hpc, Pc.inCrit]) (fun hm => absurd hm hnr) (by simp [Pc.needsChan])
        (by simp [hnc]) (by simp [hnb]) (by simp [hst])
  · exact h

theorem inv_getAns {s : State} (h : Inv s) (id : Nat) (ans : Option Beacon) : Inv (getAns s id ans) := by
  unfold getAns
  split
  · rename_i hpc
    have hst := h.started_of_live (id := id) (by simp [hpc, Pc.idle])
    have hnr := h.not_reg (id := id) (by simp [hpc, Pc.waiting])
    have hnb := h.buf_none (id := id) (by simp [hpc, Pc.waiting]) (by simp [hpc])
    have hnc := h.not_closed (id := id) (by simp [hpc, Pc.isDone])
    exact inv_localReq h id _ (by simp [hpc, Pc.inCrit]) (fun hm => absurd hm hnr) (by simp [Pc.needsChan])
      (by simp [hnc]) (by simp [hnb]) (by simp [hst])
  · exact h

theorem inv_close {s : State} (h : Inv s) (id : Nat) : Inv (closeStep s id) := by
  unfold closeStep
  split
  · rename_i res hpc
    have hst := h.started_of_live (id := id) (by simp [hpc, Pc.idle])
    have hnr := h.not_reg (id := id) (by simp [hpc, Pc.waiting])
    have hnb := h.buf_none (id := id) (by simp [hpc, Pc.waiting]) (by simp [hpc])
    have hnc := h.not_closed (id := id) (by simp [hpc, Pc.isDone])
    simp only [hnc]
    split
    · exact inv_local h id _ _ (by simp [hpc, Pc.inCrit]) (fun hm => absurd hm hnr) (by simp [Pc.needsChan])
        (by simp [Pc.isDone]) (by simp [hnb]) (by simp [Pc.idle])
    · exact inv_localReq h id _ (by simp [hpc, Pc.inCrit]) (fun hm => absurd hm hnr) (by simp [Pc.needsChan])
        (by simp [Pc.isDone]) (by simp [hnb]) (by simp [Pc.idle])
  · exact h

theorem inv_dereg {s : State} (h : Inv s) (id : Nat) : Inv (dereg s id) := by
  unfold dereg
  split
  · rename_i hc
    obtain ⟨hpc, hfree⟩ := hc
    have hst := h.started_of_live (id := id) (by simp [hpc, Pc.idle])
    have hwl := h.wlocal_nil_of_free hfree
    have hn : s.pending.Nodup := by have := h.nodup; simpa [hwl] using this
    have hnotif : s.wpc ≠ .notifying := fun hn => by have := h.wfree.mpr hn; simp [hfree] at this
    constructor
    · simpa [State.setPc, State.setReq] using h.noPanic
    · simpa [State.setPc, State.setReq] using h.noBlock
    · intro hs; simp [State.setPc, State.setReq, hst] at hs
    · simpa [State.setPc, State.setReq] using h.post
    · simp [State.setPc, State.setReq, hnotif]
    · intro j
      by_cases hj : j = id
      · subst hj; simp [State.setPc, State.setReq, Pc.inCrit]
      · have := h.crit j
        simp only [hfree] at this
        simp only [State.setPc, State.setReq, upd, hj, if_false]
        constructor
        · intro hcj; have := this.mp hcj; simp at this
        · intro e; simp at e; exact absurd e.symm hj
    · simpa [State.setPc, State.setReq] using h.wloc
    · simp only [State.setPc, State.setReq, hwl, List.append_nil]
      exact hn.erase id
    · intro j hjm
      simp only [State.setPc, State.setReq, hwl, List.append_nil] at hjm
      have hjm' := (hn.mem_erase_iff).mp hjm
      have hm : j ∈ s.pending ++ s.wlocal := by simp [hwl, hjm'.2]
      simpa [State.setPc, State.setReq, hjm'.1] using h.reg j hm
    · intro j
      by_cases hj : j = id
      · subst hj; have := h.chanOpen j (by simp [hpc, Pc.needsChan]); simpa [State.setPc, State.setReq] using fun _ => this
      · simpa [State.setPc, State.setReq, hj] using h.chanOpen j
    · intro j
      by_cases hj : j = id
      · subst hj
        have := h.not_closed (id := j) (by simp [hpc, Pc.isDone])
        simp [State.setPc, State.setReq, this]
      · simpa [State.setPc, State.setReq, hj] using h.closedDone j
    · intro j
      by_cases hj : j = id
      · subst hj; simp [State.setPc, State.setReq]
      · simpa [State.setPc, State.setReq, hj] using h.bufPc j
  · exact h

theorem inv_cUnlock {s : State} (h : Inv s) (id : Nat) : Inv (cUnlock s id) := by
  unfold cUnlock
  split
  · rename_i hpc
    have hst := h.started_of_live (id := id) (by simp [hpc, Pc.idle])
    have hhold : s.holder = .req id := (h.crit id).mp (by simp [hpc, Pc.inCrit])
    have hnotif : s.wpc ≠ .notifying := fun hn => by have := h.wfree.mpr hn; simp [hhold] at this
    have hnr := h.not_reg (id := id) (by simp [hpc, Pc.waiting])
    have hnb := h.buf_none (id := id) (by simp [hpc, Pc.waiting]) (by simp [hpc])
    have hnc := h.not_closed (id := id) (by simp [hpc, Pc.isDone])
    constructor
    · simpa [State.setPc, State.setReq] using h.noPanic
    · simpa [State.setPc, State.setReq] using h.noBlock
    · intro hs; simp [State.setPc, State.setReq, hst] at hs
    · simpa [State.setPc, State.setReq] using h.post
    · simp [State.setPc, State.setReq, hnotif]
    · intro j
      by_cases hj : j = id
      · subst hj; simp [State.setPc, State.setReq, Pc.inCrit]
      · have := h.crit j
        simp only [hhold] at this
        simp only [State.setPc, State.setReq, upd, hj, if_false]
        constructor
        · intro hcj; have := this.mp hcj; simp at this; exact absurd this.symm hj
        · intro e; simp at e
    · simpa [State.setPc, State.setReq] using h.wloc
    · simpa [State.setPc, State.setReq] using h.nodup
    · intro j hjm
      have hjm' : j ∈ s.pending ++ s.wlocal := by simpa [State.setPc, State.setReq] using hjm
      have hj : j ≠ id := fun e => hnr (e ▸ hjm')
      simpa [State.setPc, State.setReq, hj] using h.reg j hjm'
    · intro j
      by_cases hj : j = id
      · subst hj; simp [State.setPc, State.setReq, Pc.needsChan]
      · simpa [State.setPc, State.setReq, hj] using h.chanOpen j
    · intro j
      by_cases hj : j = id
      · subst hj; simp [State.setPc, State.setReq, hnc]
      · simpa [State.setPc, State.setReq, hj] using h.closedDone j
    · intro j
      by_cases hj : j = id
      · subst hj; simp [State.setPc, State.setReq, hnb]
      · simpa [State.setPc, State.setReq, hj] using h.bufPc j
  · exact h

theorem inv_setInfo {s : State} (h : Inv s) (x : Option Info) : Inv { s with info := x } := by
  constructor
  · exact h.noPanic
  · exact h.noBlock
  · exact h.pre
  · exact h.post
  · exact h.wfree
  · exact h.crit
  · exact h.wloc
  · exact h.nodup
  · exact h.reg
  · exact h.chanOpen
  · exact h.closedDone
  · exact h.bufPc

theorem inv_startOnce {s : State} (h : Inv s) : Inv (startOnce s) := by
  unfold startOnce
  split
  · exact h
  · rename_i hs
    have hs' : s.started = false := by simpa using hs
    obtain ⟨hw, hp, hl, hid⟩ := h.pre hs'
    have hnw : s.holder ≠ .watcher := fun e => by have := h.wfree.mp e; simp [hw] at this
    have hwl : s.wlocal = [] := h.wloc (by simp [hw])
    constructor
    · exact h.noPanic
    · exact h.noBlock
    · intro hc; simp at hc
    · intro _; simp
    · simp [hnw]
    · exact h.crit
    · intro _; exact hwl
    · simp [hwl]
    · intro j hj; simp [hwl] at hj
    · exact h.chanOpen
    · exact h.closedDone
    · exact h.bufPc

theorem startOnce_reqs (s : State) : (startOnce s).reqs = s.reqs := by unfold startOnce; split <;> rfl
theorem startOnce_chans (s : State) : (startOnce s).chans = s.chans := by unfold startOnce; split <;> rfl
theorem startOnce_started (s : State) : (startOnce s).started = true := by unfold startOnce; split <;> simp_all

/-- a request that is `absent` gets a record with an idle or `eval1` program counter -/
theorem inv_fresh {s : State} (h : Inv s) (id : Nat) (r' : Req) (habs : (s.reqs id).pc = .absent)
    (hp : r'.pc.idle = true ∨ (r'.pc = .eval1 ∧ s.started = true)) : Inv (s.setReq id r') := by
  have hnr := h.not_reg (id := id) (by simp [habs, Pc.waiting])
  have hnb := h.buf_none (id := id) (by simp [habs, Pc.waiting]) (by simp [habs])
  have hnc := h.not_closed (id := id) (by simp [habs, Pc.isDone])
  have hcr : r'.pc.inCrit = false := by
    rcases hp with hp | ⟨hp, _⟩
    · cases hq : r'.pc <;> simp_all [Pc.idle, Pc.inCrit]
    · simp [hp, Pc.inCrit]
  have hnch : r'.pc.needsChan = false := by
    rcases hp with hp | ⟨hp, _⟩
    · cases hq : r'.pc <;> simp_all [Pc.idle, Pc.needsChan]
    · simp [hp, Pc.needsChan]
  refine inv_localReq h id r' (by rw [hcr, habs]; rfl) (fun hm => absurd hm hnr) (by simp [hnch]) (by simp [hnc])
    (by simp [hnb]) ?_
  intro hs
  rcases hp with hp | ⟨_, hst⟩
  · exact hp
  · simp [hs] at hst

theorem inv_arrive {s : State} (h : Inv s) (id r : Nat) (now : Int) (ia : Option Info) : Inv (arrive s id r now ia) := by
  unfold arrive
  split
  · exact h
  · rename_i hc
    have habs : (s.reqs id).pc = .absent := by
      by_cases hx : (s.reqs id).pc = .absent
      · exact hx
      · exact absurd (Or.inl hx) hc
    have hgi : ∀ _ : Unit, Inv (getChainInfo s ia).2 ∧ (getChainInfo s ia).2.reqs = s.reqs := by
      intro _
      unfold getChainInfo
      split
      · exact ⟨h, rfl⟩
      · split
        · exact ⟨inv_setInfo h _, rfl⟩
        · exact ⟨h, rfl⟩
    obtain ⟨hi, hr⟩ := hgi ()
    split
    · rename_i s1 heq
      have e1 : s1 = (getChainInfo s ia).2 := by rw [heq]
      subst e1
      exact inv_fresh hi id _ (by rw [hr]; exact habs) (Or.inl (by simp [Pc.idle]))
    · rename_i i s1 heq
      have e1 : s1 = (getChainInfo s ia).2 := by rw [heq]
      subst e1
      split
      · exact inv_fresh hi id _ (by rw [hr]; exact habs) (Or.inl (by simp [Pc.idle]))
      · exact inv_fresh (inv_startOnce hi) id _ (by rw [startOnce_reqs, hr]; exact habs)
          (Or.inr ⟨rfl, startOnce_started _⟩)

/-- the watcher moves between two program counters outside its critical section -/
theorem inv_wpc {s : State} (h : Inv s) (w' : WPc) (ho : s.wpc ≠ .notifying) (hs : s.wpc ≠ .notStarted)
    (hn : w' ≠ .notifying) (hn' : w' ≠ .notStarted) : Inv { s with wpc := w' } := by
  have hst : s.started = true := by
    cases hq : s.started with
    | true => rfl
    | false => exact absurd (h.pre hq).1 hs
  have hnw : s.holder ≠ .watcher := fun e => ho (h.wfree.mp e)
  constructor
  · exact h.noPanic
  · exact h.noBlock
  · intro hc; simp [hst] at hc
  · intro _; exact hn'
  · simp [hnw, hn]
  · exact h.crit
  · intro _; exact h.wloc ho
  · exact h.nodup
  · exact h.reg
  · exact h.chanOpen
  · exact h.closedDone
  · exact h.bufPc

theorem inv_wDeliver {s : State} (h : Inv s) (b : Beacon) : Inv (wDeliver s b) := by
  unfold wDeliver; split
  · rename_i hw; exact inv_wpc h _ (by simp [hw]) (by simp [hw]) (by simp) (by simp)
  · exact h
theorem inv_wClosed {s : State} (h : Inv s) : Inv (wClosed s) := by
  unfold wClosed; split
  · rename_i hw; exact inv_wpc h _ (by simp [hw]) (by simp [hw]) (by simp) (by simp)
  · exact h
theorem inv_wTimeout {s : State} (h : Inv s) : Inv (wTimeout s) := by
  unfold wTimeout; split
  · rename_i hw; exact inv_wpc h _ (by simp [hw]) (by simp [hw]) (by simp) (by simp)
  · exact h
theorem inv_wBackoffDone {s : State} (h : Inv s) : Inv (wBackoffDone s) := by
  unfold wBackoffDone; split
  · rename_i hw; exact inv_wpc h _ (by simp [hw]) (by simp [hw]) (by simp) (by simp)
  · exact h
theorem inv_wResub {s : State} (h : Inv s) : Inv (wResub s) := by
  unfold wResub; split
  · rename_i hw; exact inv_wpc h _ (by simp [hw]) (by simp [hw]) (by simp) (by simp)
  · exact h

/-- the watcher takes the lock and swaps the waiter list out (`b`, the new `latestRound` are free) -/
theorem inv_swap {s : State} (h : Inv s) (hf : s.holder = .free) (hs : s.wpc ≠ .notStarted) (l : Nat) (b : Payload) (t : Bool) :
    Inv { s with holder := .watcher, latest := l, wlocal := s.pending, pending := [], wb := b, wthenBackoff := t,
                 wpc := .notifying } := by
  have hst : s.started = true := by
    cases hq : s.started with
    | true => rfl
    | false => exact absurd (h.pre hq).1 hs
  have hwl := h.wlocal_nil_of_free hf
  constructor
  · exact h.noPanic
  · exact h.noBlock
  · intro hc; simp [hst] at hc
  · intro _; simp
  · simp
  · intro j; have := h.crit j; simp only [hf] at this; simp
    cases hc : (s.reqs j).pc.inCrit with
    | false => rfl
    | true => have := this.mp hc; simp at this
  · intro hc; simp at hc
  · have := h.nodup; simpa [hwl] using this
  · intro j hj; exact h.reg j (by simpa [hwl] using hj)
  · exact h.chanOpen
  · exact h.closedDone
  · exact h.bufPc

theorem inv_wLock {s : State} (cfg : Cfg) (h : Inv s) : Inv (wLock cfg s) := by
  unfold wLock
  split
  · exact h
  · rename_i hf
    have hf' : s.holder = .free := by simpa using hf
    split
    · rename_i n hw; exact inv_swap h hf' (by simp [hw]) _ _ _
    · rename_i hw
      split
      · exact inv_swap h hf' (by simp [hw]) _ _ _
      · have h1 := inv_wpc h .backoff (by simp [hw]) (by simp [hw]) (by simp) (by simp)
        constructor
        · exact h1.noPanic
        · exact h1.noBlock
        · intro hc; have := h1.pre hc; simp at this
        · exact h1.post
        · exact h1.wfree
        · exact h1.crit
        · exact h1.wloc
        · exact h1.nodup
        · exact h1.reg
        · exact h1.chanOpen
        · exact h1.closedDone
        · exact h1.bufPc
    · exact h

theorem inv_wSend {s : State} (h : Inv s) : Inv (wSend s) := by
  unfold wSend
  split
  · rename_i hw
    split
    · exact h
    · rename_i i rest hl
      have hmem : i ∈ s.pending ++ s.wlocal := by simp [hl]
      obtain ⟨hwait, hbn⟩ := h.reg i hmem
      have hneed : (s.reqs i).pc.needsChan = true := by
        cases hq : (s.reqs i).pc <;> simp_all [Pc.waiting, Pc.needsChan]
      obtain ⟨hmade, hncl⟩ := h.chanOpen i hneed
      have hnd := h.nodup
      rw [hl] at hnd
      have hnd' : (s.pending ++ rest).Nodup := by
        have := List.nodup_append.mp hnd
        refine List.nodup_append.mpr ⟨this.1, (List.nodup_cons.mp this.2.1).2, ?_⟩
        intro a ha b hb; exact this.2.2 a ha b (List.mem_cons_of_mem _ hb)
      have hi_not : i ∉ s.pending ++ rest := by
        have := List.nodup_append.mp hnd
        intro hm
        rcases List.mem_append.mp hm with hm | hm
        · exact this.2.2 i hm i (List.mem_cons_self) rfl
        · exact (List.nodup_cons.mp this.2.1).1 hm
      simp only [hncl, hbn]
      constructor
      · simpa [State.setChan] using h.noPanic
      · simpa [State.setChan] using h.noBlock
      · simpa [State.setChan] using h.pre
      · simpa [State.setChan] using h.post
      · simpa [State.setChan] using h.wfree
      · simpa [State.setChan] using h.crit
      · intro hc; simp [State.setChan, hw] at hc
      · simpa [State.setChan] using hnd'
      · intro j hj
        have hj' : j ∈ s.pending ++ rest := by simpa [State.setChan] using hj
        have hji : j ≠ i := fun e => hi_not (e ▸ hj')
        have hm : j ∈ s.pending ++ s.wlocal := by
          rw [hl]; rcases List.mem_append.mp hj' with hm | hm
          · exact List.mem_append.mpr (Or.inl hm)
          · exact List.mem_append.mpr (Or.inr (List.mem_cons_of_mem _ hm))
        simpa [State.setChan, hji] using h.reg j hm
      · intro j
        by_cases hj : j = i
        · subst hj; simp [State.setChan, hmade]
        · simpa [State.setChan, hj] using h.chanOpen j
      · intro j
        by_cases hj : j = i
        · subst hj; simp [State.setChan]
        · simpa [State.setChan, hj] using h.closedDone j
      · intro j
        by_cases hj : j = i
        · subst hj; simp [State.setChan, hwait]
        · simpa [State.setChan, hj] using h.bufPc j
  · exact h

theorem inv_wUnlock {s : State} (h : Inv s) : Inv (wUnlock s) := by
  unfold wUnlock
  split
  · rename_i hc
    obtain ⟨hw, hl⟩ := hc
    have hhold : s.holder = .watcher := h.wfree.mpr hw
    have hst : s.started = true := by
      cases hq : s.started with
      | true => rfl
      | false => have := (h.pre hq).1; simp [hw] at this
    constructor
    · exact h.noPanic
    · exact h.noBlock
    · intro hc; simp [hst] at hc
    · intro _; simp; split <;> simp
    · simp; split <;> simp
    · intro j; have := h.crit j; simp only [hhold] at this; simp
      cases hc : (s.reqs j).pc.inCrit with
      | false => rfl
      | true => have := this.mp hc; simp at this
    · intro _; exact hl
    · exact h.nodup
    · exact h.reg
    · exact h.chanOpen
    · exact h.closedDone
    · exact h.bufPc
  · exact h

theorem inv_step {s : State} (cfg : Cfg) (h : Inv s) (e : Ev) : Inv (step cfg s e) := by
  cases e with
  | arrive id r now ia => exact inv_arrive h id r now ia
  | eval1 id => exact inv_eval1 h id
  | eval2 id => exact inv_eval2 h id
  | recv id => exact inv_recv cfg h id
  | ctxCancel id => exact inv_ctxCancel h id
  | wake id => exact inv_wake h id
  | dereg id => exact inv_dereg h id
  | drain id => exact inv_drain h id
  | cUnlock id => exact inv_cUnlock h id
  | futureChk id now => exact inv_futureChk h id now
  | getAns id ans => exact inv_getAns h id ans
  | close id => exact inv_close h id
  | wDeliver b => exact inv_wDeliver h b
  | wClosed => exact inv_wClosed h
  | wTimeout => exact inv_wTimeout h
  | wLock => exact inv_wLock cfg h
  | wSend => exact inv_wSend h
  | wUnlock => exact inv_wUnlock h
  | wBackoffDone => exact inv_wBackoffDone h
  | wResub => exact inv_wResub h
  | health => exact inv_startOnce h

theorem inv_runFrom {s : State} (cfg : Cfg) (h : Inv s) (evs : List Ev) : Inv (runFrom cfg s evs) := by
  induction evs generalizing s with
  | nil => exact h
  | cons e es ih => exact ih (inv_step cfg h e)

theorem inv_run (cfg : Cfg) (evs : List Ev) : Inv (run cfg evs) := inv_runFrom cfg inv_init evs

/-! ## C14 statements -/

/-- **no send on a closed channel, no second close, no send that blocks** — in every reachable state, for every
finite event list and both code variants -/
theorem c14_http_no_panic_no_block (cfg : Cfg) (evs : List Ev) :
    (run cfg evs).panicked = false ∧ (run cfg evs).blockedSend = false :=
  ⟨(inv_run cfg evs).noPanic, (inv_run cfg evs).noBlock⟩

/-- the reason: whenever the watcher is about to execute `waiter <- b`, that waiter's channel exists, is open and its
one buffer slot is free (each channel is registered once and swapped out of `pending` before the first send) -/
theorem c14_http_send_safe (cfg : Cfg) (evs : List Ev) (i : Nat) (rest : List Nat)
    (hl : (run cfg evs).wlocal = i :: rest) :
    ((run cfg evs).chans i).made = true ∧ ((run cfg evs).chans i).closed = false ∧ ((run cfg evs).chans i).buf = none := by
  have h := inv_run cfg evs
  have hmem : i ∈ (run cfg evs).pending ++ (run cfg evs).wlocal := by simp [hl]
  obtain ⟨hwait, hbn⟩ := h.reg i hmem
  have hneed : (((run cfg evs).reqs i).pc).needsChan = true := by
    cases hq : ((run cfg evs).reqs i).pc <;> simp_all [Pc.waiting, Pc.needsChan]
  exact ⟨(h.chanOpen i hneed).1, (h.chanOpen i hneed).2, hbn⟩

/-- **the pending list never holds a closed channel** (nor one with a value in it, nor the same channel twice), and
its owner is still blocked in its `select` or on its way to deregister -/
theorem c14_http_pending_open (cfg : Cfg) (evs : List Ev) :
    (run cfg evs).pending.Nodup ∧
    ∀ id ∈ (run cfg evs).pending,
      ((run cfg evs).chans id).made = true ∧ ((run cfg evs).chans id).closed = false ∧ ((run cfg evs).chans id).buf = none ∧
      (((run cfg evs).reqs id).pc = .parked ∨ ((run cfg evs).reqs id).pc = .cancelLock) := by
  have h := inv_run cfg evs
  refine ⟨(List.nodup_append.mp h.nodup).1, ?_⟩
  intro id hid
  obtain ⟨hwait, hbn⟩ := h.reg id (List.mem_append.mpr (Or.inl hid))
  have hpc : ((run cfg evs).reqs id).pc = .parked ∨ ((run cfg evs).reqs id).pc = .cancelLock := by
    cases hq : ((run cfg evs).reqs id).pc <;> simp_all [Pc.waiting]
  have hneed : (((run cfg evs).reqs id).pc).needsChan = true := by
    rcases hpc with e | e <;> simp [e, Pc.needsChan]
  exact ⟨(h.chanOpen id hneed).1, (h.chanOpen id hneed).2, hbn, hpc⟩

/-- a channel is closed only by its own request, as the last thing it does -/
theorem c14_http_closed_only_when_done (cfg : Cfg) (evs : List Ev) (id : Nat)
    (hc : ((run cfg evs).chans id).closed = true) : ∃ a, ((run cfg evs).reqs id).pc = .done a := by
  have := (inv_run cfg evs).closedDone id hc
  cases hq : ((run cfg evs).reqs id).pc <;> simp_all [Pc.isDone]

/-- **the lock is held exactly inside a critical section**: by the watcher iff it is in its notification loop, by
request `id` iff it is between its `Lock` and its deferred `Unlock` of the cancellation branch; otherwise it is free -/
theorem c14_http_lock_discipline (cfg : Cfg) (evs : List Ev) :
    let s := run cfg evs
    (s.holder = .watcher ↔ s.wpc = .notifying) ∧
    (∀ id, s.holder = .req id ↔ ((s.reqs id).pc = .cancelDrain ∨ (s.reqs id).pc = .cancelUnlock)) ∧
    (s.holder = .free ↔ (s.wpc ≠ .notifying ∧ ∀ id, (s.reqs id).pc ≠ .cancelDrain ∧ (s.reqs id).pc ≠ .cancelUnlock)) := by
  intro s
  have h : Inv s := inv_run cfg evs
  have hcrit : ∀ id, s.holder = .req id ↔ ((s.reqs id).pc = .cancelDrain ∨ (s.reqs id).pc = .cancelUnlock) := by
    intro id
    rw [← h.crit id]
    cases hq : (s.reqs id).pc <;> simp [Pc.inCrit]
  refine ⟨h.wfree, hcrit, ?_⟩
  constructor
  · intro hf
    refine ⟨fun hn => by have := h.wfree.mpr hn; simp [hf] at this, fun id => ?_⟩
    have hne : s.holder ≠ .req id := by simp [hf]
    have := fun e => hne ((hcrit id).mpr e)
    exact ⟨fun e => this (Or.inl e), fun e => this (Or.inr e)⟩
  · intro ⟨hn, hall⟩
    cases hh : s.holder with
    | free => rfl
    | watcher => exact absurd (h.wfree.mp hh) hn
    | req j => rcases (hcrit j).mp hh with e | e
               · exact absurd e (hall j).1
               · exact absurd e (hall j).2

/-- **`latestRound` is reset on a stream failure**, in both variants, and while it is 0 no request parks -/
theorem c14_http_latest_reset (cfg : Cfg) (s : State) (hw : s.wpc = .gotClosed) (hf : s.holder = .free) :
    (wLock cfg s).latest = 0 ∧ ∀ r, blockGuard (wLock cfg s).latest r = false := by
  have : (wLock cfg s).latest = 0 := by
    unfold wLock; simp [hf, hw]; split <;> rfl
  exact ⟨this, fun r => by simp [this, blockGuard]⟩

/-! ## progress: every critical section ends after a bounded number of its owner's own steps -/

theorem wSend_eq {s : State} (h : Inv s) (hw : s.wpc = .notifying) {i : Nat} {rest : List Nat} (hl : s.wlocal = i :: rest) :
    wSend s = ({ s with wlocal := rest }).setChan i { s.chans i with buf := some s.wb } := by
  have hmem : i ∈ s.pending ++ s.wlocal := by simp [hl]
  obtain ⟨hwait, hbn⟩ := h.reg i hmem
  have hneed : (s.reqs i).pc.needsChan = true := by
    cases hq : (s.reqs i).pc <;> simp_all [Pc.waiting, Pc.needsChan]
  obtain ⟨_, hncl⟩ := h.chanOpen i hneed
  unfold wSend
  simp [hw, hl, hncl, hbn]

/-- what the notification loop does, run to its end: every waiter of the local list has the payload in its channel,
nothing else changed -/
theorem wSends_spec (cfg : Cfg) : ∀ (n : Nat) {s : State}, Inv s → s.wpc = .notifying → s.wlocal.length = n →
    let s' := runFrom cfg s (List.replicate n .wSend)
    s'.wlocal = [] ∧ s'.wpc = .notifying ∧ s'.holder = s.holder ∧ s'.pending = s.pending ∧ s'.reqs = s.reqs ∧
    s'.wthenBackoff = s.wthenBackoff ∧ s'.latest = s.latest ∧ s'.wb = s.wb ∧
    (∀ id ∈ s.wlocal, (s'.chans id).buf = some s.wb) ∧ (∀ id, id ∉ s.wlocal → s'.chans id = s.chans id) := by
  intro n
  induction n with
  | zero =>
    intro s _ hw hl
    have : s.wlocal = [] := List.length_eq_zero_iff.mp hl
    simp [runFrom, this, hw]
  | succ n ih =>
    intro s h hw hl
    match hq : s.wlocal, hl with
    | i :: rest, hl' =>
      have heq := wSend_eq h hw hq
      have h1 : Inv (wSend s) := inv_wSend h
      have hstep : runFrom cfg s (List.replicate (n + 1) .wSend) = runFrom cfg (wSend s) (List.replicate n .wSend) := by
        simp [runFrom, List.replicate_succ, step]
      have hw1 : (wSend s).wpc = .notifying := by rw [heq]; simpa [State.setChan] using hw
      have hl1 : (wSend s).wlocal = rest := by rw [heq]; simp [State.setChan]
      have hlen : (wSend s).wlocal.length = n := by rw [hl1]; simpa using hl'
      have := ih h1 hw1 hlen
      simp only [] at this ⊢
      rw [hstep]
      obtain ⟨a, b, c, d, e, f, g, k, m, o⟩ := this
      have hnd : i ∉ rest := by
        have := List.nodup_append.mp h.nodup
        rw [hq] at this
        exact (List.nodup_cons.mp this.2.1).1
      have hwb : (wSend s).wb = s.wb := by rw [heq]; simp [State.setChan]
      refine ⟨a, b, by rw [c, heq]; simp [State.setChan], by rw [d, heq]; simp [State.setChan],
              by rw [e, heq]; simp [State.setChan], by rw [f, heq]; simp [State.setChan],
              by rw [g, heq]; simp [State.setChan], by rw [k, hwb], ?_, ?_⟩
      · intro id hid
        rcases List.mem_cons.mp hid with e' | e'
        · subst e'
          rw [o id (by rw [hl1]; exact hnd), heq]; simp [State.setChan]
        · rw [m id (by rw [hl1]; exact e'), hwb]
      · intro id hid
        have hne : id ≠ i := fun e' => hid (e' ▸ List.mem_cons_self)
        have hnr : id ∉ rest := fun e' => hid (List.mem_cons_of_mem _ e')
        rw [o id (by rw [hl1]; exact hnr), heq]; simp [State.setChan, hne]

/-- the steps that remain for whoever holds the lock -/
def releaseLock (s : State) : List Ev :=
  match s.holder with
  | .free => []
  | .watcher => List.replicate s.wlocal.length .wSend ++ [.wUnlock]
  | .req j => [.drain j, .cUnlock j]

theorem runFrom_append (cfg : Cfg) (s : State) (a b : List Ev) :
    runFrom cfg s (a ++ b) = runFrom cfg (runFrom cfg s a) b := by simp [runFrom, List.foldl_append]

/-- **the lock is free after every completed critical section**: from every reachable state, at most
`len(pending)+1` further steps of the current holder (none of which can block) release it, and they touch no
request outside a critical section -/
theorem releaseLock_spec (cfg : Cfg) {s : State} (h : Inv s) :
    (runFrom cfg s (releaseLock s)).holder = .free ∧
    (∀ id, (s.reqs id).pc.inCrit = false → (runFrom cfg s (releaseLock s)).reqs id = s.reqs id) ∧
    (runFrom cfg s (releaseLock s)).pending = s.pending ∧
    (releaseLock s).length ≤ s.wlocal.length + 2 := by
  unfold releaseLock
  cases hh : s.holder with
  | free => simp [runFrom, hh]
  | watcher =>
    have hw := h.wfree.mp hh
    obtain ⟨a, b, c, d, e, _⟩ := wSends_spec cfg s.wlocal.length h hw rfl
    simp only [runFrom_append]
    generalize runFrom cfg s (List.replicate s.wlocal.length Ev.wSend) = s1 at a b c d e
    have hu : runFrom cfg s1 [Ev.wUnlock] = wUnlock s1 := rfl
    rw [hu]
    refine ⟨?_, ?_, ?_, by simp⟩
    · simp [wUnlock, a, b]
    · intro id _; simp [wUnlock, a, b, e]
    · simp [wUnlock, a, b, d]
  | req j =>
    have hc := (h.crit j).mpr hh
    have hpc : (s.reqs j).pc = .cancelDrain ∨ (s.reqs j).pc = .cancelUnlock := by
      cases hq : (s.reqs j).pc <;> simp_all [Pc.inCrit]
    refine ⟨?_, ?_, ?_, by simp⟩
    · rcases hpc with e | e <;> simp [runFrom, step, drain, cUnlock, e, State.setPc, State.setReq, State.setChan]
    · intro id hid
      have hne : id ≠ j := fun e => by subst e; simp [hc] at hid
      rcases hpc with e | e <;> simp [runFrom, step, drain, cUnlock, e, State.setPc, State.setReq, State.setChan, hne]
    · rcases hpc with e | e <;> simp [runFrom, step, drain, cUnlock, e, State.setPc, State.setReq, State.setChan]

theorem runFrom_cons (cfg : Cfg) (s : State) (e : Ev) (es : List Ev) :
    runFrom cfg s (e :: es) = runFrom cfg (step cfg s e) es := rfl
theorem runFrom_nil (cfg : Cfg) (s : State) : runFrom cfg s [] = s := rfl

/-- the schedule that ends a parked request whose context is over: whoever holds the lock finishes its critical
section, then the request's own five steps -/
def finishCancel (s : State) (id : Nat) : List Ev :=
  releaseLock s ++ [.wake id, .dereg id, .drain id, .cUnlock id, .close id]

/-- **a parked waiter whose context ends is deregistered and answered (500) in bounded time**: from every reachable
state, at most `len(pending)+7` steps — none of which can block — take it to its end with the lock free again, its
channel gone from `pending` and closed only after that -/
theorem c14_http_cancel_completes (cfg : Cfg) (evs : List Ev) (id : Nat)
    (hp : ((run cfg evs).reqs id).pc = .parked) (hc : ((run cfg evs).reqs id).cancelled = true) :
    let s' := runFrom cfg (run cfg evs) (finishCancel (run cfg evs) id)
    (s'.reqs id).pc = .done ⟨500, none⟩ ∧ s'.holder = .free ∧ id ∉ s'.pending ∧ (s'.chans id).closed = true ∧
    s'.panicked = false ∧ (finishCancel (run cfg evs) id).length ≤ (run cfg evs).wlocal.length + 7 := by
  intro s'
  have h := inv_run cfg evs
  obtain ⟨hf, hr, hpend, hlen⟩ := releaseLock_spec cfg h
  have h1 : Inv (runFrom cfg (run cfg evs) (releaseLock (run cfg evs))) := inv_runFrom cfg h _
  have hnp : s'.panicked = false := (inv_runFrom cfg h _).noPanic
  have hr1 := hr id (by simp [hp, Pc.inCrit])
  have hs' : s' = runFrom cfg (runFrom cfg (run cfg evs) (releaseLock (run cfg evs)))
      [.wake id, .dereg id, .drain id, .cUnlock id, .close id] := by
    simp only [s', finishCancel, runFrom_append]
  generalize runFrom cfg (run cfg evs) (releaseLock (run cfg evs)) = s1 at hf hr1 h1 hs' hpend
  have hp1 : (s1.reqs id).pc = .parked := by rw [hr1]; exact hp
  have hc1 : (s1.reqs id).cancelled = true := by rw [hr1]; exact hc
  obtain ⟨hmade, hncl⟩ := h1.chanOpen id (by simp [hp1, Pc.needsChan])
  have hwl := h1.wlocal_nil_of_free hf
  have hnd : s1.pending.Nodup := by have := h1.nodup; simpa [hwl] using this
  refine ⟨?_, ?_, ?_, ?_, hnp, ?_⟩
  · rw [hs']
    simp [runFrom, step, wake, dereg, drain, cUnlock, closeStep, State.setPc, State.setReq, State.setChan, hp1, hc1, hf,
      hmade, hncl, publicRandAnswer]
  · rw [hs']
    simp [runFrom, step, wake, dereg, drain, cUnlock, closeStep, State.setPc, State.setReq, State.setChan, hp1, hc1, hf,
      hmade, hncl]
  · rw [hs']
    simp [runFrom, step, wake, dereg, drain, cUnlock, closeStep, State.setPc, State.setReq, State.setChan, hp1, hc1, hf,
      hmade, hncl]
    exact fun hm => ((hnd.mem_erase_iff).mp hm).1 rfl
  · rw [hs']
    simp [runFrom, step, wake, dereg, drain, cUnlock, closeStep, State.setPc, State.setReq, State.setChan, hp1, hc1, hf,
      hmade, hncl]
  · simp only [finishCancel, List.length_append, List.length_cons, List.length_nil]; omega

/-- **a delivered round notifies every parked waiter**: from a reachable state in which the watcher sits in its
`select` and the lock is free, the watcher's own `len(pending)+3` steps hand the payload to every registered waiter
(none is skipped, none blocks), empty `pending`, record the round and release the lock -/
theorem c14_http_delivery_notifies_all (cfg : Cfg) (evs : List Ev) (b : Beacon)
    (hw : (run cfg evs).wpc = .selecting) (hf : (run cfg evs).holder = .free) :
    let s := run cfg evs
    let s' := runFrom cfg s ([.wDeliver b, .wLock] ++ List.replicate s.pending.length .wSend ++ [.wUnlock])
    let p : Payload := if unexpectedRound s.latest b.round then .emptySlice else .json b
    s'.holder = .free ∧ s'.wpc = .selecting ∧ s'.pending = [] ∧ s'.latest = b.round ∧
    (∀ id ∈ s.pending, (s'.chans id).buf = some p) ∧ s'.panicked = false ∧ s'.blockedSend = false := by
  intro s s' p
  have h : Inv s := inv_run cfg evs
  have hinv' : Inv s' := inv_runFrom cfg h _
  let s2 : State := { s with holder := .watcher, latest := b.round, wlocal := s.pending, pending := [], wb := p,
                             wthenBackoff := false, wpc := .notifying }
  have e2 : runFrom cfg s [.wDeliver b, .wLock] = s2 := by
    simp [runFrom, step, wDeliver, wLock, hw, hf, s2, p, s]
  have h2 : Inv s2 := by rw [← e2]; exact inv_runFrom cfg h _
  obtain ⟨a, b', c, d, e, f, g, k, m, _⟩ := wSends_spec cfg s.pending.length h2 (by simp [s2]) (by simp [s2])
  have hs' : s' = wUnlock (runFrom cfg s2 (List.replicate s.pending.length .wSend)) := by
    simp only [s', runFrom_append, e2]; rfl
  generalize runFrom cfg s2 (List.replicate s.pending.length .wSend) = s3 at a b' c d e f g k m hs'
  refine ⟨?_, ?_, ?_, ?_, ?_, hinv'.noPanic, hinv'.noBlock⟩
  · rw [hs']; simp [wUnlock, a, b']
  · rw [hs']; simp [wUnlock, a, b', f, s2]
  · rw [hs']; simp [wUnlock, a, b', d, s2]
  · rw [hs']; simp [wUnlock, a, b', g, s2]
  · intro id hid; rw [hs']; simp [wUnlock, a, b']; exact m id (by simpa [s2] using hid)

/-- a waiter that has been handed a payload finishes with its own two steps: it takes the payload, closes its channel,
and `PublicRand` answers from that payload (as-is code; patched code for a non-empty payload) -/
theorem c14_http_released_waiter_completes (cfg : Cfg) (evs : List Ev) (id : Nat) (p : Payload)
    (hp : ((run cfg evs).reqs id).pc = .parked) (hb : ((run cfg evs).chans id).buf = some p)
    (hv : (cfg.emptyFallsBack && p.isEmpty) = false) :
    let s' := runFrom cfg (run cfg evs) [.recv id, .close id]
    (s'.reqs id).pc = .done (publicRandAnswer (.data p)) ∧ (s'.chans id).closed = true ∧ (s'.chans id).buf = none ∧
    s'.holder = (run cfg evs).holder := by
  intro s'
  have h := inv_run cfg evs
  obtain ⟨hmade, hncl⟩ := h.chanOpen id (by simp [hp, Pc.needsChan])
  simp [s', runFrom, step, recv, closeStep, hp, hb, hv, State.setPc, State.setReq, State.setChan, hmade, hncl]

theorem wSends_noop (cfg : Cfg) (n : Nat) {s : State} (hw : s.wpc ≠ .notifying) :
    runFrom cfg s (List.replicate n .wSend) = s := by
  induction n with
  | zero => rfl
  | succ n ih => simp [List.replicate_succ, runFrom_cons, step, wSend, hw, ih]

/-- the steps that bring the watcher back into its `select` (its own steps and its two timers) -/
def resumeWatcher (s : State) : List Ev :=
  releaseLock s ++ [.wLock] ++ List.replicate s.pending.length .wSend ++ [.wUnlock, .wBackoffDone, .wResub]

/-- **the service loop is never stopped**: once started, the watcher exists in every reachable state, and from every
reachable state a bounded number of non-blocking steps (the current lock holder's, the watcher's, its back-off
timer) puts it back into the `select` on the watch stream with the lock free — whatever requests, cancellations,
stream values and stream failures came before -/
theorem c14_http_watch_loop_alive (cfg : Cfg) (evs : List Ev) (hst : (run cfg evs).started = true) :
    let s' := runFrom cfg (run cfg evs) (resumeWatcher (run cfg evs))
    (run cfg evs).wpc ≠ .notStarted ∧ s'.wpc = .selecting ∧ s'.holder = .free ∧ s'.panicked = false ∧ s'.blockedSend = false := by
  intro s'
  have h := inv_run cfg evs
  have hinv' : Inv s' := inv_runFrom cfg h _
  refine ⟨h.post hst, ?_, ?_, hinv'.noPanic, hinv'.noBlock⟩ <;>
  · obtain ⟨hf, _, hpend, _⟩ := releaseLock_spec cfg h
    have h1 : Inv (runFrom cfg (run cfg evs) (releaseLock (run cfg evs))) := inv_runFrom cfg h _
    have hst1 : (runFrom cfg (run cfg evs) (releaseLock (run cfg evs))).wpc ≠ .notStarted := by
      apply h1.post
      cases hq : (runFrom cfg (run cfg evs) (releaseLock (run cfg evs))).started with
      | true => rfl
      | false =>
        -- `started` never goes back to false: releaseLock contains no step that touches it
        exfalso
        have hpre := (h1.pre hq).1
        unfold releaseLock at hpre hq
        cases hh : (run cfg evs).holder with
        | free => simp [hh, runFrom_nil] at hq; simp [hst] at hq
        | watcher =>
          have hw := h.wfree.mp hh
          obtain ⟨a, b, _⟩ := wSends_spec cfg (run cfg evs).wlocal.length h hw rfl
          simp only [hh, runFrom_append] at hpre
          generalize runFrom cfg (run cfg evs) (List.replicate (run cfg evs).wlocal.length Ev.wSend) = s1 at a b hpre
          have hu : runFrom cfg s1 [Ev.wUnlock] = wUnlock s1 := rfl
          rw [hu] at hpre
          simp [wUnlock, a, b] at hpre
          split at hpre <;> simp at hpre
        | req j =>
          have hc := (h.crit j).mpr hh
          simp only [hh] at hpre
          have hpc : ((run cfg evs).reqs j).pc = .cancelDrain ∨ ((run cfg evs).reqs j).pc = .cancelUnlock := by
            cases hq : ((run cfg evs).reqs j).pc <;> simp_all [Pc.inCrit]
          have := h.post hst
          rcases hpc with e | e <;>
            simp [runFrom, step, drain, cUnlock, e, State.setPc, State.setReq, State.setChan] at hpre <;> exact this hpre
    have hs' : s' = runFrom cfg (runFrom cfg (run cfg evs) (releaseLock (run cfg evs)))
        ([.wLock] ++ List.replicate (run cfg evs).pending.length .wSend ++ [.wUnlock, .wBackoffDone, .wResub]) := by
      simp only [s', resumeWatcher, runFrom_append, List.append_assoc]
    rw [← hpend] at hs'
    generalize runFrom cfg (run cfg evs) (releaseLock (run cfg evs)) = s1 at hf h1 hs' hst1
    have hnn : s1.wpc ≠ .notifying := fun e => by have := h1.wfree.mpr e; simp [hf] at this
    rw [hs']
    simp only [runFrom_append]
    have hl : runFrom cfg s1 [.wLock] = wLock cfg s1 := rfl
    rw [hl]
    cases hq : s1.wpc with
    | notStarted => exact absurd hq hst1
    | notifying => exact absurd hq hnn
    | selecting =>
      have e1 : wLock cfg s1 = s1 := by simp [wLock, hf, hq]
      rw [e1, wSends_noop cfg _ hnn]
      simp [runFrom, step, wUnlock, wBackoffDone, wResub, hq, hf]
    | backoff =>
      have e1 : wLock cfg s1 = s1 := by simp [wLock, hf, hq]
      rw [e1, wSends_noop cfg _ hnn]
      simp [runFrom, step, wUnlock, wBackoffDone, wResub, hq, hf]
    | returned =>
      have e1 : wLock cfg s1 = s1 := by simp [wLock, hf, hq]
      rw [e1, wSends_noop cfg _ hnn]
      simp [runFrom, step, wUnlock, wBackoffDone, wResub, hq, hf]
    | gotNext n =>
      have h2 : Inv (wLock cfg s1) := inv_wLock cfg h1
      have hw2 : (wLock cfg s1).wpc = .notifying := by simp [wLock, hf, hq]
      have hl2 : (wLock cfg s1).wlocal.length = s1.pending.length := by simp [wLock, hf, hq]
      have hb2 : (wLock cfg s1).wthenBackoff = false := by simp [wLock, hf, hq]
      obtain ⟨a, b, c, d, e, f, _⟩ := wSends_spec cfg s1.pending.length h2 hw2 hl2
      generalize runFrom cfg (wLock cfg s1) (List.replicate s1.pending.length .wSend) = s3 at a b c d e f
      simp [runFrom, step, wUnlock, wBackoffDone, wResub, a, b, f, hb2]
    | gotClosed =>
      cases hfl : cfg.flushOnFail with
      | false =>
        have e1 : (wLock cfg s1) = { s1 with latest := 0, wpc := .backoff } := by simp [wLock, hf, hq, hfl]
        rw [e1, wSends_noop cfg _ (by simp)]
        simp [runFrom, step, wUnlock, wBackoffDone, wResub, hf]
      | true =>
        have h2 : Inv (wLock cfg s1) := inv_wLock cfg h1
        have hw2 : (wLock cfg s1).wpc = .notifying := by simp [wLock, hf, hq, hfl]
        have hl2 : (wLock cfg s1).wlocal.length = s1.pending.length := by simp [wLock, hf, hq, hfl]
        have hb2 : (wLock cfg s1).wthenBackoff = true := by simp [wLock, hf, hq, hfl]
        obtain ⟨a, b, c, d, e, f, _⟩ := wSends_spec cfg s1.pending.length h2 hw2 hl2
        generalize runFrom cfg (wLock cfg s1) (List.replicate s1.pending.length .wSend) = s3 at a b c d e f
        simp [runFrom, step, wUnlock, wBackoffDone, wResub, a, b, f, hb2]

/-! ## (d) Health -/

/-- `/health` answers 200 exactly when the chain info is available and the last round seen on the watch stream is the
expected current round or the one before; the body always reports the last round seen -/
theorem c14_http_health_status (lastSeen : Nat) (info : Option Info) (now : Int) :
    ((healthAnswer lastSeen info now).1 = 200 ↔
      ∃ i, info = some i ∧ (lastSeen = Drand.Time.currentRoundM now i.period i.genesis ∨
                            (lastSeen + 1) % two64 = Drand.Time.currentRoundM now i.period i.genesis)) ∧
    ((healthAnswer lastSeen info now).1 = 200 ∨ (healthAnswer lastSeen info now).1 = 503) ∧
    (healthAnswer lastSeen info now).2.1 = lastSeen := by
  cases info with
  | none => simp [healthAnswer]
  | some i =>
    simp only [healthAnswer]
    split
    · rename_i hc
      simp at hc
      simpa using hc
    · rename_i hc
      simp at hc
      simp
      exact hc

/-! ## sample runs (non-vacuity of the statements above) -/

def exInfo : Info := ⟨3600, 1000000⟩
/-- the middle of round 10 -/
def exNow : Int := 1000000 + 9 * 3600 + 1800

/-- request 0 (round 5, served by `Get`) starts the watcher; the stream delivers round 10; request 1 for round 11 parks -/
def exParked : List Ev :=
  [.arrive 0 5 exNow (some exInfo), .eval1 0, .futureChk 0 exNow, .getAns 0 (some ⟨5, 55⟩), .close 0,
   .wDeliver ⟨10, 1010⟩, .wLock, .wUnlock,
   .arrive 1 11 exNow none, .eval1 1, .eval2 1]


example : (run .asIs (exParked ++ [.wDeliver ⟨11, 1111⟩, .wLock])).wlocal = [1] := by decide
example : (run .asIs exParked).pending = [1] := by decide
example : ((run .asIs (exParked ++ [.ctxCancel 1])).reqs 1).pc = .parked ∧
    ((run .asIs (exParked ++ [.ctxCancel 1])).reqs 1).cancelled = true := by decide
/-- cancellation while the watcher is inside its notification loop, the waiter still to be notified -/
example : ((run .asIs (exParked ++ [.ctxCancel 1, .wDeliver ⟨11, 1111⟩, .wLock])).reqs 1).pc = .parked ∧
    (run .asIs (exParked ++ [.ctxCancel 1, .wDeliver ⟨11, 1111⟩, .wLock])).holder = .watcher ∧
    (finishCancel (run .asIs (exParked ++ [.ctxCancel 1, .wDeliver ⟨11, 1111⟩, .wLock])) 1).length = 7 := by decide
example : (run .asIs exParked).wpc = .selecting ∧ (run .asIs exParked).holder = .free ∧ (run .asIs exParked).started = true := by
  decide
example : ((run .asIs (exParked ++ [.wDeliver ⟨11, 1111⟩, .wLock, .wSend, .wUnlock])).reqs 1).pc = .parked ∧
    ((run .asIs (exParked ++ [.wDeliver ⟨11, 1111⟩, .wLock, .wSend, .wUnlock])).chans 1).buf = some (.json ⟨11, 1111⟩) := by
  decide
example : ((run .asIs (exParked ++ [.wDeliver ⟨11, 1111⟩, .wLock, .wSend, .wUnlock, .recv 1, .close 1])).chans 1).closed = true := by
  decide
example : (run .asIs (exParked ++ [.wClosed])).wpc = .gotClosed ∧ (run .asIs (exParked ++ [.wClosed])).holder = .free ∧
    (run .asIs (exParked ++ [.wClosed])).latest = 10 := by decide
example : (healthAnswer 10 (some exInfo) exNow).1 = 200 ∧ (healthAnswer 9 (some exInfo) exNow).1 = 200 ∧
    (healthAnswer 8 (some exInfo) exNow).1 = 503 ∧ (healthAnswer 10 none exNow).1 = 503 := by decide

/-! ## ties: the facts the model rests on, regenerated from handler/http/server.go on every run (Gen/HttpW.lean) -/

/-- a waiter channel is `make(chan []byte, 1)` (capacity 1: `Chan.buf : Option Payload`) and `close(ch)` is deferred
right after it (`closeStep` is the last step of every request that made one) -/
theorem tie_waiter_channel : Gen.HttpW.waiterChanCap = 1 ∧ Gen.HttpW.waiterCloseDeferred = true := ⟨rfl, rfl⟩

/-- the two evaluations of `block` are what `eval1` / `eval2` are: the first under RLock … RUnlock, the second and the
registration under Lock … Unlock, nothing else inside -/
theorem tie_eval_regions :
    Gen.HttpW.eval1Region = ["bh.pendingLk.RLock()", "block = (bh.latestRound+1 == round) && bh.latestRound != 0", "bh.pendingLk.RUnlock()"] ∧
    Gen.HttpW.eval2Region = ["bh.pendingLk.Lock()", "block = (bh.latestRound+1 == round) && bh.latestRound != 0",
                             "if block { bh.pending = append(bh.pending, ch) }", "bh.pendingLk.Unlock()"] := ⟨rfl, rfl⟩

/-- the cancellation branch: `dereg` (Lock, deferred Unlock, removal), `drain`, return (`cUnlock`, then `close`) -/
theorem tie_cancel_branch :
    Gen.HttpW.cancelBranch = ["bh.pendingLk.Lock()", "defer bh.pendingLk.Unlock()",
      "for i, c := range bh.pending { if c == ch { bh.pending = append(bh.pending[:i], bh.pending[i+1:]...) break } }",
      "select { case <-ch: default: }", "return nil, ctx.Err()"] := rfl

/-- **the notification loop runs between `pendingLk.Lock()` and `Unlock()`** (`wLock`, `wSend`*, `wUnlock`), after the
unexpected-round test, the assignment of `latestRound` and the swap of `pending`; nothing follows the Unlock -/
theorem tie_notify_region :
    Gen.HttpW.notifyRegion = ["bh.pendingLk.Lock()", "if bh.latestRound+1 != next.GetRound() && bh.latestRound != 0 { b = []byte{} }",
      "bh.latestRound = next.GetRound()", "pending := bh.pending", "bh.pending = make([]chan []byte, 0)",
      "for _, waiter := range pending { waiter <- b }", "bh.pendingLk.Unlock()"] ∧
    Gen.HttpW.afterNotify = [] := ⟨rfl, rfl⟩

open Drand.Driver.HttpWD in
/-- the stream-failure branch is one of the two modelled variants (`Cfg.flushOnFail`) -/
theorem tie_fail_region : Gen.HttpW.failRegion = asIsFail ∨ Gen.HttpW.failRegion = fixedFail := by decide

/-! ### DrandHandler.beacons and DrandHandler.state -/

def beaconsTableAsIs : List (String × String × String) :=
  [("RegisterNewBeaconHandler", "write", "Lock"), ("RemoveBeaconHandler", "write", "Lock"),
   ("RegisterDefaultBeaconHandler", "write", "Lock"), ("ChainHashes", "iterate", "none"), ("getBeaconHandler", "read", "RLock")]

def beaconsTableFixed : List (String × String × String) :=
  [("RegisterNewBeaconHandler", "write", "Lock"), ("RemoveBeaconHandler", "write", "Lock"),
   ("RegisterDefaultBeaconHandler", "write", "Lock"), ("ChainHashes", "iterate", "RLock"), ("getBeaconHandler", "read", "RLock")]

/-- the lock table of `DrandHandler.beacons` as regenerated is one of the two known ones -/
theorem tie_beacons_lock_table :
    Gen.HttpW.beaconsAccess = beaconsTableAsIs ∨ Gen.HttpW.beaconsAccess = beaconsTableFixed := by decide

/-- **c14_http_beacons_guarded** (patched code, reports/http_fix_2.diff): every method that reads or writes the handler
table does so under `h.state`, writers under the write lock -/
theorem c14_http_beacons_guarded :
    ∀ a ∈ beaconsTableFixed, a.2.2 ≠ "none" ∧ (a.2.1 = "write" → a.2.2 = "Lock") := by decide

/-- (code as it is) … every method except `ChainHashes` -/
theorem c14_http_beacons_guarded_partial :
    ∀ a ∈ beaconsTableAsIs, a.1 ≠ "ChainHashes" → (a.2.2 ≠ "none" ∧ (a.2.1 = "write" → a.2.2 = "Lock")) := by decide

/-- (code as it is) `ChainHashes` ranges over the map with no lock while three methods write it under the lock: a
concurrent map iteration and map write, which the Go runtime answers with an unrecoverable `fatal error`
(replayed on the real handler: engine `httpw`, op `chainsrace`) -/
theorem c14_http_beacons_counterexample :
    ("ChainHashes", "iterate", "none") ∈ beaconsTableAsIs ∧ (beaconsTableAsIs.filter fun a => a.2.1 == "write").length = 3 := by
  decide

end Drand.Http
