import Drand.Beacon.Sync
import DrandProofs.C02
namespace Drand.Beacon.Sync
end Drand.Beacon.Sync
