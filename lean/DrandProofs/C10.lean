/-
C10 — chain sync stores only verified beacons, in chain order, and converges when an honest peer exists.
Model: Drand/Beacon/Sync.lean over the C02 store stack. Peer behaviours are arbitrary functions from the requested
round to a response (dial error or an arbitrary list of stream items); `Sync` is analysed for an arbitrary list of
peers in the order they are tried, i.e. for every permutation `rand.Perm` can produce.
-/
import Drand.Beacon.Sync
import DrandProofs.C02

namespace Drand.Beacon.Sync
open Drand Drand.Store Drand.Chain

/-! ### what one `Put` of tryNode does to the node -/

theorem schemePut_base (s : Stack) (b : Beacon) :
    ((s.schemePut b).2 = .ok → (s.schemePut b).1.base = Bolt.put s.base (storedForm s.chained b) ∧
        (s.schemePut b).1.chained = s.chained) ∧
    ((s.schemePut b).2 ≠ .ok → (s.schemePut b).1 = s) := by
  unfold Stack.schemePut storedForm
  cases hc : s.chained with
  | true =>
    simp only [if_true]
    by_cases h3 : s.schemeLast.sig ≠ b.prev
    · simp [h3]
    · simp [h3]
  | false => simp

theorem put_base (s : Stack) (b : Beacon) :
    ((s.put b).2 = .ok → (s.put b).1.base = Bolt.put s.base (storedForm s.chained b) ∧ (s.put b).1.chained = s.chained) ∧
    ((s.put b).2 ≠ .ok → (s.put b).1 = s) := by
  unfold Stack.put
  split
  · split
    · split <;> simp
    · simp
  · split
    · simp
    · exact schemePut_base s b

/-- every state change of `store1` is one base-store write of the logged beacon -/
theorem store1_spec (cfg : Cfg) (resync : Bool) (n : Node) (b : Beacon) :
    ((store1 cfg resync n b).2 = .ok →
        ∃ st, (store1 cfg resync n b).1 = { n with st := st, writes := ⟨b, if resync then b else storedForm n.st.chained b⟩ :: n.writes } ∧
          st.base = Bolt.put n.st.base (if resync then b else storedForm n.st.chained b) ∧ st.chained = n.st.chained) ∧
    ((store1 cfg resync n b).2 ≠ .ok → (store1 cfg resync n b).1 = n) := by
  unfold store1
  cases resync with
  | true => simp [Stack.rawPut]
  | false =>
    simp only [Bool.false_eq_true, if_false]
    cases hm : cfg.mode with
    | participant =>
      simp only
      by_cases hok : (n.st.put b).2 = .ok
      · simp only [hok, if_true]
        exact ⟨fun _ => ⟨_, rfl, (put_base n.st b).1 hok⟩, fun h => absurd rfl h⟩
      · simp [hok]
    | follow =>
      simp only
      by_cases hok : (n.st.schemePut b).2 = .ok
      · simp only [hok, if_true]
        exact ⟨fun _ => ⟨_, rfl, (schemePut_base n.st b).1 hok⟩, fun h => absurd rfl h⟩
      · simp [hok]

/-! ### induction principles: an invariant of one accepted packet is an invariant of every sync entry point -/

/-- `P last n`: `last` is tryNode's local variable, `n` the node -/
structure Inv (cfg : Cfg) (resync : Bool) (from_ upTo : Nat) (P : Nat → Node → Prop) : Prop where
  step : ∀ last n b, P last n → cfg.verify b = true → roundOk cfg resync from_ upTo last b = true →
    (store1 cfg resync n b).2 = .ok → P b.round (store1 cfg resync n b).1
  calls : ∀ l n c, P l n → P l { n with calls := c }
  head : ∀ l n, P l n → P n.head n

theorem loop_ind {cfg : Cfg} {resync : Bool} {from_ upTo : Nat} {P : Nat → Node → Prop}
    (hI : Inv cfg resync from_ upTo P) :
    ∀ (items : List Item) (last : Nat) (n : Node), P last n → ∃ l, P l (loop cfg resync from_ upTo last n items).1 := by
  intro items
  induction items with
  | nil => intro last n h; exact ⟨last, h⟩
  | cons it rest ih =>
    intro last n h
    cases it with
    | close => exact ⟨last, h⟩
    | stall => exact ⟨last, h⟩
    | pkt b idOk =>
      unfold loop
      split
      · exact ⟨last, h⟩
      · split
        · exact ⟨last, h⟩
        · split
          · exact ⟨last, h⟩
          · next h1 h2 h3 =>
            simp only
            split
            · next hok =>
              have hP := hI.step last n b h (by simpa using h2) (by simpa using h3) hok
              split
              · exact ⟨_, hP⟩
              · exact ih _ _ hP
            · split <;> exact ⟨last, h⟩

theorem tryNode_ind {cfg : Cfg} {from_ upTo : Nat} {P : Nat → Node → Prop}
    (hI : ∀ f, (from_ ≠ 0 → f = from_) → Inv cfg (decide (from_ > 0)) f upTo P) (n : Node) (p : Peer) (h : P n.head n) :
    P (tryNode cfg from_ upTo n p).1.head (tryNode cfg from_ upTo n p).1 := by
  unfold tryNode
  simp only
  split
  · exact h
  · split
    · exact h
    · have hI2 := hI (if from_ = 0 then n.head + 1 else from_) (fun hne => by simp [hne])
      have h1 := hI2.calls _ _ ((p.addr, if from_ = 0 then n.head + 1 else from_) :: n.calls) h
      split
      · exact hI2.head _ _ h1
      · next items _ =>
        obtain ⟨l, hl⟩ := loop_ind hI2 items n.head _ h1
        exact hI2.head _ _ hl

theorem sync_ind {cfg : Cfg} {self : String} {from_ upTo : Nat} {P : Nat → Node → Prop}
    (hI : ∀ f, (from_ ≠ 0 → f = from_) → Inv cfg (decide (from_ > 0)) f upTo P) :
    ∀ (ps : List Peer) (dead : Bool) (n : Node), P n.head n →
      P (sync cfg self from_ upTo dead n ps).1.head (sync cfg self from_ upTo dead n ps).1 := by
  intro ps
  induction ps with
  | nil => intro dead n h; exact h
  | cons p ps ih =>
    intro dead n h
    unfold sync
    split
    · exact ih _ _ h
    · split
      · exact h
      · have ht := tryNode_ind hI n p h
        simp only
        split
        · exact ht
        · exact ih _ _ ht
        · exact ih _ _ ht

theorem reSync_ind {cfg : Cfg} {self : String} {from_ to : Nat} {P : Nat → Node → Prop}
    (hI : from_ ≠ 0 → Inv cfg true from_ to P) (dead : Bool) (n : Node) (ps1 ps2 : List Peer) (h : P n.head n) :
    P (reSync cfg self from_ to dead n ps1 ps2).1.head (reSync cfg self from_ to dead n ps1 ps2).1 := by
  unfold reSync
  split
  · exact h
  · next hne =>
    have hI' : ∀ f, (from_ ≠ 0 → f = from_) → Inv cfg (decide (from_ > 0)) f to P := by
      intro f hf
      have : decide (from_ > 0) = true := by simp; omega
      rw [this, hf hne]; exact hI hne
    have h1 := sync_ind (self := self) hI' ps1 dead n h
    simp only
    split
    · exact sync_ind (self := self) hI' ps2 _ _ h1
    · exact h1

theorem correctLoop_ind {cfg : Cfg} {self : String} {env : Nat → List Peer × List Peer} {P : Nat → Node → Prop} :
    ∀ (fb : List Nat), (∀ x ∈ fb, x ≠ 0 → Inv cfg true x x P) → ∀ (i : Nat) (dead : Bool) (n : Node) (errs : Nat),
      P n.head n → P (correctLoop cfg self env i dead n errs fb).1.head (correctLoop cfg self env i dead n errs fb).1 := by
  intro fb
  induction fb with
  | nil => intro _ i dead n errs h; exact h
  | cons b rest ih =>
    intro hI i dead n errs h
    unfold correctLoop
    split
    · exact h
    · exact ih (fun x hx => hI x (List.mem_cons_of_mem _ hx)) _ _ _ _
        (reSync_ind (hI b List.mem_cons_self) false n _ _ h)

theorem followLoop_ind {cfg : Cfg} {self : String} {upTo : Nat} {P : Nat → Node → Prop}
    (hI : ∀ f, Inv cfg false f upTo P) :
    ∀ (atts : List (List Peer)) (n : Node), P n.head n →
      P (followLoop cfg self upTo n atts).1.head (followLoop cfg self upTo n atts).1 := by
  intro atts
  induction atts with
  | nil => intro n h; exact h
  | cons ps rest ih =>
    intro n h
    have hI' : ∀ f, ((0 : Nat) ≠ 0 → f = 0) → Inv cfg (decide ((0 : Nat) > 0)) f upTo P := fun f _ => by simpa using hI f
    have h1 := sync_ind (self := self) hI' ps false n h
    unfold followLoop
    simp only
    split
    · exact h1
    · exact h1
    · split
      · exact ih _ h1
      · exact h1

/-! ### only verified beacons are written -/

theorem storedForm_fields (c : Bool) (b : Beacon) :
    (storedForm c b).round = b.round ∧ (storedForm c b).sig = b.sig ∧
      ((storedForm c b).prev = b.prev ∨ (storedForm c b).prev = []) := by
  unfold storedForm; cases c <;> simp

/-- between `n0` and `n` the base store changed by exactly the logged writes `ws` (newest first), and each of them is a
packet the verification oracle accepted -/
def NewWrites (cfg : Cfg) (n0 n : Node) : Prop :=
  ∃ ws : List Write, n.writes = ws ++ n0.writes ∧
    n.st.base = ws.foldr (fun w acc => Bolt.put acc w.stored) n0.st.base ∧
    ∀ w ∈ ws, cfg.verify w.pkt = true ∧ w.stored.round = w.pkt.round ∧ w.stored.sig = w.pkt.sig ∧
      (w.stored.prev = w.pkt.prev ∨ w.stored.prev = [])

theorem newWrites_inv (cfg : Cfg) (resync : Bool) (f upTo : Nat) (n0 : Node) :
    Inv cfg resync f upTo (fun _ n => NewWrites cfg n0 n) := by
  refine ⟨?_, fun _ _ _ h => h, fun _ _ h => h⟩
  intro last n b ⟨ws, hw, hb, hv⟩ hver _ hok
  obtain ⟨st, hst, hbase, _⟩ := (store1_spec cfg resync n b).1 hok
  rw [hst]
  refine ⟨⟨b, if resync then b else storedForm n.st.chained b⟩ :: ws, by simp [hw], by simp [hbase, hb], ?_⟩
  intro w hwm
  rcases List.mem_cons.1 hwm with rfl | hwm
  · refine ⟨hver, ?_⟩
    cases resync with
    | true => simp
    | false => simpa using storedForm_fields n.st.chained b
  · exact hv w hwm

theorem newWrites_refl (cfg : Cfg) (n : Node) : NewWrites cfg n n := ⟨[], rfl, rfl, fun _ h => by cases h⟩

/-- **c10_only_verified.** Whatever the peers stream and in whatever order they are tried, every change any sync entry
point (Sync in participant or follow mode, ReSync, CorrectPastBeacons, the follow loop) makes to the base store is the
write of a packet for which `VerifyBeacon` answered true; the stored beacon carries that packet's round and signature. -/
theorem c10_only_verified (cfg : Cfg) (self : String) (n : Node) :
    (∀ from_ upTo dead ps, NewWrites cfg n (sync cfg self from_ upTo dead n ps).1) ∧
    (∀ from_ to dead ps1 ps2, NewWrites cfg n (reSync cfg self from_ to dead n ps1 ps2).1) ∧
    (∀ env fb, NewWrites cfg n (correctPast cfg self env n fb).1) ∧
    (∀ upTo atts, NewWrites cfg n (followLoop cfg self upTo n atts).1) := by
  refine ⟨?_, ?_, ?_, ?_⟩
  · intro from_ upTo dead ps
    exact sync_ind (P := fun _ m => NewWrites cfg n m) (fun f _ => newWrites_inv cfg _ f upTo n) ps dead n (newWrites_refl cfg n)
  · intro from_ to dead ps1 ps2
    exact reSync_ind (P := fun _ m => NewWrites cfg n m) (fun _ => newWrites_inv cfg _ from_ to n) dead n ps1 ps2 (newWrites_refl cfg n)
  · intro env fb
    exact correctLoop_ind (P := fun _ m => NewWrites cfg n m) fb (fun x _ _ => newWrites_inv cfg _ x x n) 0 false n 0 (newWrites_refl cfg n)
  · intro upTo atts
    exact followLoop_ind (P := fun _ m => NewWrites cfg n m) (fun f => newWrites_inv cfg _ f upTo n) atts n (newWrites_refl cfg n)

/-! ### a successful `Put` through the participant stack, seen from the node -/

theorem put_eq_schemePut (s : Stack) (b : Beacon) (h : ChainInv s) (hr : b.round = (Stack.last s.base).round + 1) :
    s.put b = s.schemePut b := by
  unfold Stack.put
  rw [h.head.1, if_neg (by omega), if_neg (by simp; omega)]

/-- `n'` is `n` after beacon `b` went through a successful `appendStore.Put` -/
structure Appended (n n' : Node) (b : Beacon) : Prop where
  ok : (n.st.put b).2 = .ok
  st : n'.st = (n.st.put b).1
  wr : n'.writes = ⟨b, storedForm n.st.chained b⟩ :: n.writes
  calls : n'.calls = n.calls

structure AppendFacts (n n' : Node) (b : Beacon) : Prop where
  round : b.round = n.head + 1
  inv : ChainInv n'.st
  head : n'.head = b.round
  chained : n'.st.chained = n.st.chained
  look : ∀ r, lookup r n'.st.base = if r = b.round then some (storedForm n.st.chained b) else lookup r n.st.base

theorem appended_facts {n n' : Node} {b : Beacon} (hc : ChainInv n.st) (ha : Appended n n' b) : AppendFacts n n' b := by
  have h1 := (c02_append_only n.st b hc).1 ha.ok
  have h2 := (put_base n.st b).1 ha.ok
  refine ⟨h1.1, ?_, ?_, ?_, ?_⟩
  · rw [ha.st]; exact c02_put_inv n.st b hc
  · unfold Node.head; rw [ha.st]; exact h1.2.1
  · rw [ha.st]; exact h2.2
  · intro r
    rw [ha.st, h2.1]
    have := c18_lookup_insert (storedForm n.st.chained b).round r (storedForm n.st.chained b) n.st.base
    rw [(storedForm_fields n.st.chained b).1] at this
    unfold Bolt.put
    rw [(storedForm_fields n.st.chained b).1]
    exact this

theorem store1_participant {cfg : Cfg} (hm : cfg.mode = .participant) (n : Node) (b : Beacon)
    (hok : (store1 cfg false n b).2 = .ok) : Appended n (store1 cfg false n b).1 b := by
  unfold store1 at hok ⊢
  simp only [Bool.false_eq_true, if_false, hm] at hok ⊢
  by_cases h : (n.st.put b).2 = .ok
  · simp only [h, if_true]
    exact ⟨h, rfl, rfl, rfl⟩
  · simp [h] at hok

theorem store1_follow {cfg : Cfg} (hm : cfg.mode = .follow) (n : Node) (b : Beacon) (hc : ChainInv n.st)
    (hr : b.round = n.head + 1) (hok : (store1 cfg false n b).2 = .ok) : Appended n (store1 cfg false n b).1 b := by
  have he := put_eq_schemePut n.st b hc hr
  unfold store1 at hok ⊢
  simp only [Bool.false_eq_true, if_false, hm] at hok ⊢
  by_cases h : (n.st.schemePut b).2 = .ok
  · simp only [h, if_true]
    exact ⟨by rw [he]; exact h, by rw [he], rfl, rfl⟩
  · simp [h] at hok

/-! ### chain order -/

/-- since `n0` the node only appended: the writes are rounds head+1, head+2, …, in that order, nothing below moved -/
def InOrder (n0 n : Node) : Prop :=
  ChainInv n.st ∧ n.st.chained = n0.st.chained ∧
  ∃ ws : List Write, n.writes = ws ++ n0.writes ∧
    ws.reverse.map (·.stored.round) = List.range' (n0.head + 1) ws.length ∧
    n.head = n0.head + ws.length ∧
    ∀ k, k ≤ n0.head → lookup k n.st.base = lookup k n0.st.base

theorem inOrder_refl (n : Node) (h : ChainInv n.st) : InOrder n n :=
  ⟨h, rfl, [], rfl, rfl, rfl, fun _ _ => rfl⟩

theorem inOrder_step {n0 n n' : Node} {b : Beacon} (h : InOrder n0 n) (ha : Appended n n' b) : InOrder n0 n' := by
  obtain ⟨hc, hch, ws, hw, hr, hh, hl⟩ := h
  have f := appended_facts hc ha
  refine ⟨f.inv, by rw [f.chained, hch], ⟨b, storedForm n.st.chained b⟩ :: ws, by rw [ha.wr, hw]; rfl, ?_, ?_, ?_⟩
  · simp only [List.reverse_cons, List.map_append, List.map_cons, List.map_nil, List.length_cons, hr]
    rw [(storedForm_fields _ _).1, f.round, hh, List.range'_concat]
    simp; omega
  · rw [f.head, f.round, hh]; simp; omega
  · intro k hk
    rw [f.look k, if_neg (by rw [f.round, hh]; omega)]
    exact hl k hk

theorem inOrder_calls {n0 n : Node} (c : List (String × Nat)) (h : InOrder n0 n) : InOrder n0 { n with calls := c } := h

theorem roundOk_follow {cfg : Cfg} (hrc : cfg.roundCheck = true) {f upTo last : Nat} {b : Beacon}
    (h : roundOk cfg false f upTo last b = true) : b.round = last + 1 := by
  unfold roundOk at h
  simpa [hrc] using h

/-- the participant stack, or tryNode with the round check: every accepted packet is an append -/
theorem order_inv (cfg : Cfg) (hgood : cfg.mode = .participant ∨ cfg.roundCheck = true) (f upTo : Nat) (n0 : Node) :
    Inv cfg false f upTo (fun last n => InOrder n0 n ∧ last = n.head) := by
  refine ⟨?_, fun _ _ _ h => h, fun _ _ h => ⟨h.1, rfl⟩⟩
  intro last n b ⟨hio, hl⟩ _ hro hok
  have ha : Appended n (store1 cfg false n b).1 b := by
    cases hm : cfg.mode with
    | participant => exact store1_participant hm n b hok
    | follow =>
      rcases hgood with hp | hrc
      · rw [hm] at hp; cases hp
      · exact store1_follow hm n b hio.1 (by rw [← hl]; exact roundOk_follow hrc hro) hok
  exact ⟨inOrder_step hio ha, (appended_facts hio.1 ha).head.symm⟩

/-- **c10_in_order.** Participant mode (callbackStore → appendStore → schemeStore → base): for every list of peers in
every order and every behaviour, the beacons `Sync` writes are exactly rounds head+1, head+2, … in that order, nothing
stored before is touched, and the store stays the gap-free linked chain of C02. -/
theorem c10_in_order (cfg : Cfg) (hm : cfg.mode = .participant) (self : String) (upTo : Nat) (dead : Bool) (n : Node)
    (ps : List Peer) (h : ChainInv n.st) : InOrder n (sync cfg self 0 upTo dead n ps).1 :=
  (sync_ind (P := fun last m => InOrder n m ∧ last = m.head)
    (fun f _ => by simpa using order_inv cfg (Or.inl hm) f upTo n) ps dead n ⟨inOrder_refl n h, rfl⟩).1

/-- **c10_follow_order** (corrected variant `roundCheck`): with the round check in tryNode the same holds for the follow
stack, which has no appendStore, for chained and unchained schemes alike; also through the follow loop. -/
theorem c10_follow_order (cfg : Cfg) (hrc : cfg.roundCheck = true) (self : String) (upTo : Nat) (n : Node)
    (h : ChainInv n.st) :
    (∀ dead ps, InOrder n (sync cfg self 0 upTo dead n ps).1) ∧
    (∀ atts, InOrder n (followLoop cfg self upTo n atts).1) := by
  constructor
  · intro dead ps
    exact (sync_ind (P := fun last m => InOrder n m ∧ last = m.head)
      (fun f _ => by simpa using order_inv cfg (Or.inr hrc) f upTo n) ps dead n ⟨inOrder_refl n h, rfl⟩).1
  · intro atts
    exact (followLoop_ind (P := fun last m => InOrder n m ∧ last = m.head)
      (fun f => order_inv cfg (Or.inr hrc) f upTo n) atts n ⟨inOrder_refl n h, rfl⟩).1

/-! ### validity of what is stored -/

/-- verification of an unchained beacon does not look at the previous signature (schemeStore strips it before storing) -/
def StripOk (verify : Beacon → Bool) (chained : Bool) : Prop :=
  chained = false → ∀ b, verify b = true → verify { b with prev := [] } = true

theorem valid_step {verify : Beacon → Bool} {n n' : Node} {b : Beacon} (hs : StripOk verify n.st.chained)
    (hc : ChainInv n.st) (hv : Valid verify n.st) (hb : verify b = true) (ha : Appended n n' b) : Valid verify n'.st := by
  have f := appended_facts hc ha
  intro r b' hr hl
  rw [f.look r] at hl
  split at hl
  · cases hl
    unfold storedForm
    cases hch : n.st.chained with
    | true => simpa using hb
    | false => simpa using hs hch b hb
  · exact hv r b' hr hl

/-- **c10_bad_peer_harmless.** Participant mode: whatever the peers do, `Sync` leaves the store a gap-free linked chain
(`ChainInv`) that holds verifying beacons only (`Valid`), the head never moves back and no stored round changes. -/
theorem c10_bad_peer_harmless (cfg : Cfg) (hm : cfg.mode = .participant) (self : String) (upTo : Nat) (dead : Bool)
    (n : Node) (ps : List Peer) (hc : ChainInv n.st) (hv : Valid cfg.verify n.st) (hs : StripOk cfg.verify n.st.chained) :
    let r := (sync cfg self 0 upTo dead n ps).1
    ChainInv r.st ∧ Valid cfg.verify r.st ∧ n.head ≤ r.head ∧ ∀ k, k ≤ n.head → lookup k r.st.base = lookup k n.st.base := by
  have hI : ∀ f, Inv cfg false f upTo (fun last m => (InOrder n m ∧ last = m.head) ∧ Valid cfg.verify m.st) := by
    intro f
    have h1 := order_inv cfg (Or.inl hm) f upTo n
    refine ⟨?_, fun l m c h => ⟨h1.calls l m c h.1, h.2⟩, fun l m h => ⟨h1.head l m h.1, h.2⟩⟩
    intro last m b ⟨hP, hval⟩ hver hro hok
    refine ⟨h1.step last m b hP hver hro hok, ?_⟩
    exact valid_step (by rw [hP.1.2.1]; exact hs) hP.1.1 hval hver (store1_participant hm m b hok)
  have := sync_ind (cfg := cfg) (self := self) (from_ := 0) (upTo := upTo)
    (P := fun last m => (InOrder n m ∧ last = m.head) ∧ Valid cfg.verify m.st)
    (fun f _ => by simpa using hI f) ps dead n ⟨⟨inOrder_refl n hc, rfl⟩, hv⟩
  obtain ⟨⟨⟨hci, _, ws, _, _, hh, hl⟩, _⟩, hval⟩ := this
  exact ⟨hci, hval, by omega, hl⟩

end Drand.Beacon.Sync
